/-!
# EAO.Spec.UnitCommit — reference specification of "respects minimum runtime, minimum downtime and
the declared initial state" (property C06).  Import-free core Lean.

Two readings:

* `MinUpDown p on` — the quantified run-length statement over a pattern `on : List Bool`
  (`T = on.length`): every off→on switch at `s ≥ 1` (or a start at step 0 after being off) is followed
  by `on` on `[s, min(s+R, T))`; every on→off switch at `s ≥ 1` (or a stop at step 0 after running) by
  `off` on `[s, min(s+D, T))`; a unit already running for `tar < R` steps stays on for the first
  `R − tar` steps; one already off for `tao < D` steps stays off for the first `D − tao` steps.
  "Was off before" is declared by `tar = 0`, "was running before" by `tao = 0` (this is how the
  implementation reads its two parameters `time_already_running`, `time_already_off`).
* `accepts p on` — a deterministic automaton with state (on?, time in state) initialised from
  (`tar`, `tao`); a switch on→off is allowed iff time-in-state ≥ `R`, off→on iff ≥ `D`.  Executable;
  serves as the oracle of the harness.

All durations are in grid steps (after `ceil(duration·unit/step)`).
-/
namespace EAO.UC

/-- unit-commitment parameters in steps: min runtime, min downtime, time already running, time already off -/
structure UCP where
  R   : Nat
  D   : Nat
  tar : Nat
  tao : Nat
  deriving Repr, DecidableEq, Inhabited

/-- run-length specification over a total pattern `on : Nat → Bool` on the horizon `[0, T)`.
    (Every quantifier is bounded, hence the statement is decidable.) -/
def SpecF (p : UCP) (T : Nat) (on : Nat → Bool) : Prop :=
  (∀ s, s < T → 0 < s → on s = true → on (s-1) = false → ∀ k, k < p.R → s + k < T → on (s+k) = true) ∧
  (p.tar = 0 → on 0 = true → ∀ k, k < p.R → k < T → on k = true) ∧
  (0 < p.tar → ∀ t, t < p.R - p.tar → t < T → on t = true) ∧
  (∀ s, s < T → 0 < s → on s = false → on (s-1) = true → ∀ k, k < p.D → s + k < T → on (s+k) = false) ∧
  (p.tao = 0 → on 0 = false → ∀ k, k < p.D → k < T → on k = false) ∧
  (0 < p.tao → ∀ t, t < p.D - p.tao → t < T → on t = false)

set_option synthInstance.maxSize 2048 in
instance (p : UCP) (T : Nat) (on : Nat → Bool) : Decidable (SpecF p T on) := by
  unfold SpecF; exact inferInstance

/-- the pattern as a total function (reads beyond the horizon give `false`; never used by `SpecF`) -/
def fn (on : List Bool) : Nat → Bool := fun t => on.getD t false

/-- run-length specification of a pattern given as a list (`T = on.length`) -/
def MinUpDown (p : UCP) (on : List Bool) : Prop := SpecF p on.length (fn on)

instance (p : UCP) (on : List Bool) : Decidable (MinUpDown p on) := by
  unfold MinUpDown; exact inferInstance

/-! ## the automaton -/

/-- state: (currently on?, number of steps already spent in that state) -/
abbrev St := Bool × Nat

/-- initial state from the declared history; with no history at all the unit counts as "off long enough" -/
def initSt (p : UCP) : St :=
  if 0 < p.tar then (true, p.tar) else if 0 < p.tao then (false, p.tao) else (false, p.D)

/-- time that must have been spent in state `c` before it may be left -/
def thr (p : UCP) (c : Bool) : Nat := if c then p.R else p.D

def step (p : UCP) (s : St) (v : Bool) : Option St :=
  if v = s.1 then some (s.1, s.2 + 1)
  else if thr p s.1 ≤ s.2 then some (v, 1) else none

def run (p : UCP) : St → List Bool → Option St
  | s, [] => some s
  | s, v :: vs => match step p s v with
    | none => none
    | some s' => run p s' vs

/-- the automaton accepts the pattern -/
def accepts (p : UCP) (on : List Bool) : Bool := (run p (initSt p) on).isSome

/-- the constructor's guard (`assert (time_already_off == 0) ^ (time_already_running == 0)` when
    `min_downtime > 1`), read on the values in steps: with a minimum downtime of more than one step
    exactly one of "already running" / "already off" is declared -/
def GuardOK (p : UCP) : Prop :=
  1 < p.D → ((0 < p.tar ∧ p.tao = 0) ∨ (p.tar = 0 ∧ 0 < p.tao))

instance (p : UCP) : Decidable (GuardOK p) := by unfold GuardOK; exact inferInstance

end EAO.UC
