import EAO.Model.Basic
import EAO.Model.Grid
/-!
# EAO.Spec.Textbook — the reference ("textbook") meaning of a portfolio.   MEANT TO BE READ.

Written over PHYSICAL quantities, independently of how eaopack lays out variables, rows and costs.
`Properties/C02.lean` proves that what the builders of `EAO/Model` (tied to the code by the correspondence
checks) assemble has exactly these feasible flows and cash; `harness/comp/textbook.py` is the same
formulation in scipy, run against the real code.

An asset lives on its WINDOW: the steps of the portfolio grid whose start lies in `[asset.start, asset.end)`.
That is the asset's restricted grid `g : Grid`; window position `k < g.T` has
  `dtOf g k`   length of the step in main time units,
  `dfOf g k`   discount factor `(1+wacc)^(−(days from the start of the horizon to the END of the step)/365)`,
  `stepOf g k` the number of the step in the portfolio grid,  `g.pts[k]` its start instant (seconds).
Prices, costs and rates are given per window position.  Sign: a flow is the volume flowing INTO a node.
-/
namespace EAO.Textbook

/-- `Σ_{k<n} f k` -/
def sumN (f : Nat → Rat) (n : Nat) : Rat := ((List.range n).map f).sum
def absR (q : Rat) : Rat := if 0 ≤ q then q else -q
def dtOf (g : Grid) (k : Nat) : Rat := g.dt.getD k 0
def dfOf (g : Grid) (k : Nat) : Rat := g.df.getD k 0
def stepOf (g : Grid) (k : Nat) : Nat := g.idx.getD k 0
/-- what happens at portfolio step `t`: sum over the window positions that are step `t` (at most one) -/
def atStep (g : Grid) (t : Nat) (f : Nat → Rat) : Rat := sumN (fun k => if stepOf g k = t then f k else 0) g.T

abbrev Flows := String → Nat → Rat          -- node → portfolio step → volume into the node
/-- all the portfolio sees of an asset: which (flows, cash) pairs it can realise -/
structure AssetSem where
  Attain : Flows → Rat → Prop

/-! ## storage -/
structure StorageS where
  (size capIn capOut startLevel endLevel effIn inflow costIn costOut costStore : Rat)
  price : Nat → Rat                         -- 0 if the storage has no price
  (nodeIn nodeOut : String)                 -- the same node for a one-node storage
structure Cycle where
  (ch di : Nat → Rat)                       -- volume charged / discharged per window position, both ≥ 0

/-- level after `k` steps: `L₀ = start`, `L_{k+1} = L_k + eff·ch_k − di_k + inflow·dt_k` -/
def level (s : StorageS) (g : Grid) (d : Cycle) : Nat → Rat
  | 0 => s.startLevel
  | k + 1 => level s g d k + s.effIn * d.ch k - d.di k + s.inflow * dtOf g k

def StorageS.Feasible (s : StorageS) (g : Grid) (d : Cycle) : Prop :=
  (∀ k, k < g.T → 0 ≤ d.ch k ∧ d.ch k ≤ s.capIn * dtOf g k ∧ 0 ≤ d.di k ∧ d.di k ≤ s.capOut * dtOf g k ∧
                  0 ≤ level s g d (k + 1) ∧ level s g d (k + 1) ≤ s.size) ∧
  (0 < g.T → level s g d g.T = s.endLevel)

def StorageS.flows (s : StorageS) (g : Grid) (d : Cycle) : Flows := fun node t =>
  (if node = s.nodeOut then atStep g t d.di else 0) - (if node = s.nodeIn then atStep g t d.ch else 0)

/-- sales − purchases − handling costs − holding cost on the level at the end of every step -/
def StorageS.cash (s : StorageS) (g : Grid) (d : Cycle) : Rat :=
  sumN (fun k => dfOf g k * (s.price k * (d.di k - d.ch k) - s.costIn * d.ch k - s.costOut * d.di k)
                 - s.costStore * dtOf g k * dfOf g k * level s g d (k + 1)) g.T

/-- holding cost of the start level and of the accumulated inflow — independent of the dispatch.  eaopack
    leaves exactly this constant out of its value (docstring of `Storage`: "constant contribution not part
    of output NPV"), so: value reported by eaopack = `cash + holdingConstant`. -/
def StorageS.holdingConstant (s : StorageS) (g : Grid) : Rat :=
  s.costStore * sumN (fun k => dtOf g k * dfOf g k * (s.startLevel + sumN (fun i => s.inflow * dtOf g i) (k + 1))) g.T

def storageSem (s : StorageS) (g : Grid) : AssetSem :=
  ⟨fun fl c => ∃ d, s.Feasible g d ∧ (∀ n t, fl n t = s.flows g d n t) ∧ c = s.cash g d + s.holdingConstant g⟩

/-! ## take-or-pay periods (contracts and extended transports) -/
/-- period `[s, e)` (instants) with volume `V`, in a model whose main time unit has `unitSec` seconds -/
structure Period where
  (s e : Int)
  V : Rat
/-- window positions inside the period -/
def Period.covered (p : Period) (g : Grid) : List Nat :=
  (List.range g.T).filter fun k => decide (p.s ≤ g.pts.getD k 0) && decide (g.pts.getD k 0 < p.e)
/-- the volume prorated to the part of the period inside the window: `V · covered time / (e − s)` -/
def Period.limit (p : Period) (g : Grid) (unitSec : Nat) : Rat :=
  p.V * ((p.covered g).map (dtOf g)).sum / (((p.e - p.s : Int) : Rat) / (unitSec : Rat))
def Period.volume (p : Period) (g : Grid) (q : Nat → Rat) : Rat := ((p.covered g).map q).sum
/-- a period without a step in the window restricts nothing -/
def takesOK (g : Grid) (unitSec : Nat) (maxTake minTake : List Period) (q : Nat → Rat) : Prop :=
  (∀ p ∈ maxTake, p.covered g ≠ [] → p.volume g q ≤ p.limit g unitSec) ∧
  (∀ p ∈ minTake, p.covered g ≠ [] → p.limit g unitSec ≤ p.volume g q)

/-! ## contract (one commodity: `nodes = [(node, 1)]`; multi-commodity: one `(node, factor)` per commodity) -/
structure ContractS where
  (minRate maxRate price extra : Nat → Rat) -- `extra`: the buy/sell spread, paid on |volume|
  nodes : List (String × Rat)
  (maxTake minTake : List Period)
  unitSec : Nat

def ContractS.Feasible (c : ContractS) (g : Grid) (q : Nat → Rat) : Prop :=
  (∀ k, k < g.T → c.minRate k * dtOf g k ≤ q k ∧ q k ≤ c.maxRate k * dtOf g k) ∧
  takesOK g c.unitSec c.maxTake c.minTake q
def ContractS.flows (c : ContractS) (g : Grid) (q : Nat → Rat) : Flows := fun node t =>
  ((c.nodes.filter fun nf => nf.1 == node).map fun nf => nf.2 * atStep g t q).sum
def ContractS.cash (c : ContractS) (g : Grid) (q : Nat → Rat) : Rat :=
  sumN (fun k => -(dfOf g k * (c.price k * q k + c.extra k * absR (q k)))) g.T
def contractSem (c : ContractS) (g : Grid) : AssetSem :=
  ⟨fun fl v => ∃ q, c.Feasible g q ∧ (∀ n t, fl n t = c.flows g q n t) ∧ v = c.cash g q⟩

/-! ## transport: `f` leaves `nodeFrom`, `eff·f` arrives at `nodeTo`; costs on |f|; takes on `f` -/
structure TransportS where
  (minRate maxRate eff : Rat)
  cost : Nat → Rat
  (nodeFrom nodeTo : String)
  (maxTake minTake : List Period)
  unitSec : Nat

def TransportS.Feasible (r : TransportS) (g : Grid) (f : Nat → Rat) : Prop :=
  (∀ k, k < g.T → r.minRate * dtOf g k ≤ f k ∧ f k ≤ r.maxRate * dtOf g k) ∧
  takesOK g r.unitSec r.maxTake r.minTake f
def TransportS.flows (r : TransportS) (g : Grid) (f : Nat → Rat) : Flows := fun node t =>
  (if node = r.nodeTo then r.eff * atStep g t f else 0) - (if node = r.nodeFrom then atStep g t f else 0)
def TransportS.cash (r : TransportS) (g : Grid) (f : Nat → Rat) : Rat :=
  sumN (fun k => -(dfOf g k * r.cost k * absR (f k))) g.T
def transportSem (r : TransportS) (g : Grid) : AssetSem :=
  ⟨fun fl v => ∃ f, r.Feasible g f ∧ (∀ n t, fl n t = r.flows g f n t) ∧ v = r.cash g f⟩

/-! ## portfolio: every asset realises one of its (flows, cash) pairs; at every node outside `skip` and every
    step the flows of all assets add up to zero; the value is the total cash.  `fl i` = flows of asset `i`. -/
def portfolioAttain (sems : List AssetSem) (skip : List String) (fl : Nat → Flows) (V : Rat) : Prop :=
  ∃ c : Nat → Rat, (∀ i, (h : i < sems.length) → (sems[i]).Attain (fl i) (c i)) ∧
    (∀ n, n ∉ skip → ∀ t, sumN (fun i => fl i n t) sems.length = 0) ∧ V = sumN c sems.length

end EAO.Textbook
