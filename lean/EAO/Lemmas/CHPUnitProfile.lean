import EAO.Lemmas.CHPUnitCore
import EAO.Lemmas.CHPUnitRamp
/-!
# EAO.Lemmas.CHPUnitProfile — change of the main time unit for the CHP builder WITH ramp profiles, and for the
dispatching builder `buildCHPAny`
-/
namespace EAO.CHPUnit
open EAO

/-- a heat profile is only given together with the power profile of the same ramp (otherwise the code never
    converts it, and `mkProf` carries the raw list along in a field that no row uses) -/
def ProfConsistent (q : CHPProfP) : Prop :=
  match profCtor q with
  | .ok sd => (sd.1.1 = [] → q.startLoH = none ∧ q.startUpH = none) ∧
              (sd.2.1 = [] → q.shutLoH = none ∧ q.shutUpH = none)
  | .error _ => True

instance (q : CHPProfP) : Decidable (ProfConsistent q) := by
  unfold ProfConsistent; split <;> exact inferInstance

theorem active_rescale (k : Rat) (q : CHPProfP) : (CHPProfP.rescale k q).active = q.active := by
  unfold CHPProfP.active CHPProfP.rescale
  cases q.startLo <;> cases q.shutLo <;> simp

theorem resolveCHPP_rescale {k : Rat} (hk : 0 < k) {u u' : Nat} (hu : (u' : Rat) * k = (u : Rat)) (p : CHPP)
    (hg : GuardStable k p) (hrc : p.runningCosts.isKey = false) (hci : p.consumptionIfOn.isKey = false)
    (q : CHPProfP) (hq : ProfConsistent q) (base : AssetProblem) (g : Grid) (prices : Prices) (s : Nat) (costsOnly : Bool) :
    resolveCHPP (CHPP.rescale k p) (CHPProfP.rescale k q) base (g.scaleDt k) prices u' s costsOnly
      = resolveCHPP p q base g prices u s costsOnly := by
  have hk0 : k ≠ 0 := by intro h; rw [h] at hk; exact absurd hk (by decide +kernel)
  unfold resolveCHPP
  rw [chpCtor_rescale hk p hg, profCtor_rescale hk q]
  cases hc : chpCtor p with
  | error e => rfl
  | ok hf =>
    cases hp : profCtor q with
    | error e => rfl
    | ok sd =>
      have hq' := hq
      unfold ProfConsistent at hq'
      rw [hp] at hq'
      obtain ⟨hs, hd⟩ := hq'
      simp only [bind, Except.bind, Except.map]
      have hT : (g.scaleDt k).T = g.T := rfl
      have hfm : (CHPP.rescale k p).freqMismatch = p.freqMismatch := rfl
      rw [hT, hfm]
      have hprof := mkProf_rescale_core hu q sd.1 sd.2 hs hd s
      simp only [hprof, chpVectors_rescale hk0 p hrc hci, mkCHPR_rescale hk0 hu]

theorem buildCHPP_rescale {k : Rat} (hk : 0 < k) {u u' : Nat} (hu : (u' : Rat) * k = (u : Rat)) (p : CHPP)
    (hg : GuardStable k p) (hrc : p.runningCosts.isKey = false) (hci : p.consumptionIfOn.isKey = false)
    (q : CHPProfP) (hq : ProfConsistent q) (base : AssetProblem) (g : Grid) (prices : Prices) (s : Nat) :
    buildCHPP (CHPP.rescale k p) (CHPProfP.rescale k q) base (g.scaleDt k) prices u' s = buildCHPP p q base g prices u s := by
  unfold buildCHPP
  rw [resolveCHPP_rescale hk hu p hg hrc hci q hq]

theorem buildCHPAny_rescale {k : Rat} (hk : 0 < k) {u u' : Nat} (hu : (u' : Rat) * k = (u : Rat)) (p : CHPP)
    (hg : GuardStable k p) (hrc : p.runningCosts.isKey = false) (hci : p.consumptionIfOn.isKey = false)
    (q : CHPProfP) (hq : ProfConsistent q) (base : AssetProblem) (g : Grid) (prices : Prices) (s : Nat) :
    buildCHPAny (CHPP.rescale k p) (CHPProfP.rescale k q) base (g.scaleDt k) prices u' s = buildCHPAny p q base g prices u s := by
  unfold buildCHPAny
  rw [active_rescale, buildCHPP_rescale hk hu p hg hrc hci q hq, buildCHP_rescale hk hu p hg hrc hci]

/-- sufficient for `ProfConsistent`: no heat profile at all -/
theorem profConsistent_of_no_heat (q : CHPProfP) (h : q.startLoH = none ∧ q.startUpH = none ∧ q.shutLoH = none ∧ q.shutUpH = none) :
    ProfConsistent q := by
  unfold ProfConsistent
  split
  · exact ⟨fun _ => ⟨h.1, h.2.1⟩, fun _ => ⟨h.2.2.1, h.2.2.2⟩⟩
  · trivial

end EAO.CHPUnit
