import EAO.Model.Scaled
import EAO.Model.Structured
import EAO.Lemmas.Blocks
import EAO.Lemmas.Wf
import EAO.Lemmas.Structured
/-! helper lemmas for C16: the scaled asset (`buildScaled`) and the structured asset vs the flat
    portfolio (`structured`) -/
namespace EAO.Scaled
open EAO

/-! ### list plumbing -/

theorem mapAt_length (I : List Nat) (f : Rat → Rat) (v : List Rat) : (mapAt I f v).length = v.length := by
  simp [mapAt]

theorem mapAt_getD (I : List Nat) (f : Rat → Rat) (v : List Rat) (j : Nat) (hj : j < v.length) :
    (mapAt I f v).getD j 0 = if I.contains j then f (v.getD j 0) else v.getD j 0 := by
  unfold mapAt
  simp [List.getD_eq_getElem?_getD, hj]

theorem mem_zipIdx_map {α β} (l : List α) (g : α × Nat → β) (y : β) :
    y ∈ l.zipIdx.map g ↔ ∃ k, ∃ h : k < l.length, y = g (l[k], k) := by
  simp only [List.mem_map]
  constructor
  · rintro ⟨⟨a, k⟩, hm, rfl⟩
    have := List.mem_zipIdx_iff_getElem?.mp hm
    obtain ⟨h, h2⟩ := List.getElem?_eq_some_iff.mp this
    simp only at h h2
    exact ⟨k, h, by rw [h2]⟩
  · rintro ⟨k, h, rfl⟩
    exact ⟨(l[k], k), List.mem_zipIdx_iff_getElem?.mpr (List.getElem?_eq_getElem h), rfl⟩

theorem inBounds_single (a b : Rat) (y : Vec) : InBounds [a] [b] y ↔ a ≤ y 0 ∧ y 0 ≤ b := by
  unfold InBounds
  constructor
  · intro h
    have := h 0 (by simp)
    simpa using this
  · intro h j hj
    have hj0 : j = 0 := by simpa using hj
    subst hj0
    simpa using h

/-! ### rows -/

/-- a base row with its right-hand side multiplied by `k` -/
def scaleRhs (k : Rat) (r : Row) : Row := { r with rhs := r.rhs * k }

theorem eval_append_single (cs : List (Nat × Rat)) (j : Nat) (v : Rat) (x : Vec) :
    ((cs ++ [(j, v)]).map fun p => p.2 * x p.1).sum = (cs.map fun p => p.2 * x p.1).sum + v * x j := by
  simp only [List.map_append, List.sum_append, List.map_cons, List.map_nil, List.sum_cons, List.sum_nil]
  grind

/-- step 1 of the construction says: base row with right-hand side times `s/norm` -/
theorem scaleRow_sat (nrm : Rat) (sc : Nat) (r : Row) (x : Vec) :
    (scaleRow nrm sc r).Sat x ↔ (scaleRhs (x sc / nrm) r).Sat x := by
  have he : (scaleRow nrm sc r).eval x = r.eval x + (- r.rhs / nrm) * x sc := by
    unfold scaleRow Row.eval
    exact eval_append_single _ _ _ _
  have he2 : (scaleRhs (x sc / nrm) r).eval x = r.eval x := rfl
  unfold Row.Sat
  rw [he, he2]
  have hk1 : (scaleRow nrm sc r).kind = r.kind := rfl
  have hk2 : (scaleRhs (x sc / nrm) r).kind = r.kind := rfl
  have hr1 : (scaleRow nrm sc r).rhs = 0 := rfl
  have hr2 : (scaleRhs (x sc / nrm) r).rhs = r.rhs * (x sc / nrm) := rfl
  rw [hk1, hk2, hr1, hr2, Rat.div_def, Rat.div_def]
  cases r.kind <;> simp only [] <;> constructor <;> intro h <;> grind

theorem rows_forall_map_scaleRow (nrm : Rat) (sc : Nat) (rows : List Row) (P : Row → Prop) :
    (∀ r ∈ rows.map (scaleRow nrm sc), P r) ↔ ∀ r ∈ rows, P (scaleRow nrm sc r) := by
  simp [List.forall_mem_map]

theorem tieRow_eval (nrm : Rat) (sc : Nat) (kind : RowKind) (k : Nat) (b : Rat) (x : Vec) :
    (tieRow nrm sc kind k b).eval x = x k - b * (x sc / nrm) := by
  unfold tieRow Row.eval
  simp only [List.map_cons, List.map_nil, List.sum_cons, List.sum_nil]
  rw [Rat.div_def, Rat.div_def]; grind

theorem tieRow_U_sat (nrm : Rat) (sc k : Nat) (b : Rat) (x : Vec) :
    (tieRow nrm sc .U k b).Sat x ↔ x k ≤ b * (x sc / nrm) := by
  have := tieRow_eval nrm sc .U k b x
  unfold Row.Sat
  have hk : (tieRow nrm sc .U k b).kind = .U := rfl
  have hr : (tieRow nrm sc .U k b).rhs = 0 := rfl
  rw [hk, hr, this]
  simp only []
  constructor <;> intro h <;> grind

theorem tieRow_L_sat (nrm : Rat) (sc k : Nat) (b : Rat) (x : Vec) :
    (tieRow nrm sc .L k b).Sat x ↔ b * (x sc / nrm) ≤ x k := by
  have := tieRow_eval nrm sc .L k b x
  unfold Row.Sat
  have hk : (tieRow nrm sc .L k b).kind = .L := rfl
  have hr : (tieRow nrm sc .L k b).rhs = 0 := rfl
  rw [hk, hr, this]
  simp only []
  constructor <;> intro h <;> grind

/-! ### the widened box is implied -/

theorem ratMin_le_left (a b : Rat) : ratMin a b ≤ a := by unfold ratMin; split <;> grind
theorem ratMin_le_right (a b : Rat) : ratMin a b ≤ b := by unfold ratMin; split <;> grind
theorem le_ratMax_left (a b : Rat) : a ≤ ratMax a b := by unfold ratMax; split <;> grind
theorem le_ratMax_right (a b : Rat) : b ≤ ratMax a b := by unfold ratMax; split <;> grind

/-- `min(0,l)·max/norm ≤ l·(s/norm)` for `0 ≤ s ≤ max`, `0 < norm` -/
theorem widened_lower (l s mx nrm : Rat) (hn : 0 < nrm) (hs : 0 ≤ s) (hsm : s ≤ mx) :
    ratMin 0 l * mx / nrm ≤ l * (s / nrm) := by
  have hinv : 0 ≤ nrm⁻¹ := Rat.le_of_lt (Rat.inv_pos.mpr hn)
  rw [Rat.div_def, Rat.div_def]
  have h1 : ratMin 0 l * mx ≤ l * s := by
    have hm0 : ratMin 0 l ≤ 0 := ratMin_le_left 0 l
    have hml : ratMin 0 l ≤ l := ratMin_le_right 0 l
    have a1 := Rat.mul_le_mul_of_nonneg_left hsm (show 0 ≤ - ratMin 0 l by grind)
    have a2 := Rat.mul_le_mul_of_nonneg_right hml hs
    grind
  have := Rat.mul_le_mul_of_nonneg_right h1 hinv
  grind

theorem widened_upper (u s mx nrm : Rat) (hn : 0 < nrm) (hs : 0 ≤ s) (hsm : s ≤ mx) :
    u * (s / nrm) ≤ ratMax 0 u * mx / nrm := by
  have hinv : 0 ≤ nrm⁻¹ := Rat.le_of_lt (Rat.inv_pos.mpr hn)
  rw [Rat.div_def, Rat.div_def]
  have h1 : u * s ≤ ratMax 0 u * mx := by
    have hm0 : 0 ≤ ratMax 0 u := le_ratMax_left 0 u
    have hmu : u ≤ ratMax 0 u := le_ratMax_right 0 u
    have a1 := Rat.mul_le_mul_of_nonneg_left hsm hm0
    have a2 := Rat.mul_le_mul_of_nonneg_right hmu hs
    grind
  have := Rat.mul_le_mul_of_nonneg_right h1 hinv
  grind

/-! ### the label of the scale's mapping row -/

theorem foldl_max_ge (l : List Nat) (a : Nat) : a ≤ l.foldl max a ∧ ∀ v ∈ l, v ≤ l.foldl max a := by
  induction l generalizing a with
  | nil => simp
  | cons b bs ih =>
    simp only [List.foldl_cons, List.mem_cons]
    obtain ⟨h1, h2⟩ := ih (max a b)
    refine ⟨by omega, ?_⟩
    rintro v (rfl | hv)
    · omega
    · exact h2 v hv

theorem foldl_max_mem (l : List Nat) (a : Nat) : l.foldl max a = a ∨ l.foldl max a ∈ l := by
  induction l generalizing a with
  | nil => simp
  | cons b bs ih =>
    simp only [List.foldl_cons, List.mem_cons]
    rcases ih (max a b) with h | h
    · rw [h]
      rcases Nat.le_total a b with hab | hab
      · right; left; omega
      · left; omega
    · right; right; exact h

theorem le_maxIndex (M : List MapRow) (m : MapRow) (hm : m ∈ M) : m.var ≤ maxIndex M :=
  (foldl_max_ge (M.map (·.var)) 0).2 _ (List.mem_map.mpr ⟨m, hm, rfl⟩)

theorem maxIndex_mem (M : List MapRow) (hne : M ≠ []) : ∃ m ∈ M, m.var = maxIndex M := by
  rcases foldl_max_mem (M.map (·.var)) 0 with h | h
  · cases M with
    | nil => exact absurd rfl hne
    | cons m ms =>
      have := le_maxIndex (m :: ms) m (by simp)
      unfold maxIndex at this ⊢
      rw [h] at this ⊢
      exact ⟨m, by simp, by omega⟩
  · obtain ⟨m, hm, hv⟩ := List.mem_map.mp h
    exact ⟨m, hm, hv⟩

/-- the label `max + 1` is the position of the scale variable iff the last base variable has a mapping row -/
theorem lastVarMapped_iff (base : AssetProblem) (hn : 0 < base.n) (hv : ∀ m ∈ base.mapping, m.var < base.n)
    (hne : base.mapping ≠ []) :
    LastVarMapped base ↔ ∃ m ∈ base.mapping, m.var + 1 = base.n := by
  unfold LastVarMapped
  constructor
  · intro h
    obtain ⟨m, hm, he⟩ := maxIndex_mem base.mapping hne
    exact ⟨m, hm, by omega⟩
  · rintro ⟨m, hm, he⟩
    have h1 := le_maxIndex base.mapping m hm
    obtain ⟨m', hm', he'⟩ := maxIndex_mem base.mapping hne
    have := hv m' hm'
    omega

end EAO.Scaled
