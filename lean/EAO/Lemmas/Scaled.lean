import EAO.Model.Scaled
import EAO.Model.Structured
import EAO.Lemmas.Blocks
import EAO.Lemmas.Wf
import EAO.Lemmas.Structured
/-! helper lemmas for C16: the scaled asset (`buildScaled`) and the structured asset vs the flat
    portfolio (`structured`) -/
namespace EAO.Scaled
open EAO

/-! ### list plumbing -/

theorem mapAt_length (I : List Nat) (f : Rat → Rat) (v : List Rat) : (mapAt I f v).length = v.length := by
  simp [mapAt]

theorem mapAt_getD (I : List Nat) (f : Rat → Rat) (v : List Rat) (j : Nat) (hj : j < v.length) :
    (mapAt I f v).getD j 0 = if I.contains j then f (v.getD j 0) else v.getD j 0 := by
  unfold mapAt
  simp [List.getD_eq_getElem?_getD, hj]

theorem inBounds_single (a b : Rat) (y : Vec) : InBounds [a] [b] y ↔ a ≤ y 0 ∧ y 0 ≤ b := by
  unfold InBounds
  constructor
  · intro h
    have := h 0 (by simp)
    simpa using this
  · intro h j hj
    have hj0 : j = 0 := by simpa using hj
    subst hj0
    simpa using h

/-! ### rows -/

/-- a base row with its right-hand side multiplied by `k` -/
def scaleRhs (k : Rat) (r : Row) : Row := { r with rhs := r.rhs * k }

theorem eval_append_single (cs : List (Nat × Rat)) (j : Nat) (v : Rat) (x : Vec) :
    ((cs ++ [(j, v)]).map fun p => p.2 * x p.1).sum = (cs.map fun p => p.2 * x p.1).sum + v * x j := by
  simp only [List.map_append, List.sum_append, List.map_cons, List.map_nil, List.sum_cons, List.sum_nil]
  grind

/-- step 1 of the construction says: base row with right-hand side times `s/norm` -/
theorem scaleRow_sat (nrm : Rat) (sc : Nat) (r : Row) (x : Vec) :
    (scaleRow nrm sc r).Sat x ↔ (scaleRhs (x sc / nrm) r).Sat x := by
  have he : (scaleRow nrm sc r).eval x = r.eval x + (- r.rhs / nrm) * x sc := by
    unfold scaleRow Row.eval
    exact eval_append_single _ _ _ _
  have he2 : (scaleRhs (x sc / nrm) r).eval x = r.eval x := rfl
  unfold Row.Sat
  rw [he, he2]
  have hk1 : (scaleRow nrm sc r).kind = r.kind := rfl
  have hk2 : (scaleRhs (x sc / nrm) r).kind = r.kind := rfl
  have hr1 : (scaleRow nrm sc r).rhs = 0 := rfl
  have hr2 : (scaleRhs (x sc / nrm) r).rhs = r.rhs * (x sc / nrm) := rfl
  rw [hk1, hk2, hr1, hr2, Rat.div_def, Rat.div_def]
  cases r.kind <;> simp only [] <;> constructor <;> intro h <;> grind

theorem rows_forall_map_scaleRow (nrm : Rat) (sc : Nat) (rows : List Row) (P : Row → Prop) :
    (∀ r ∈ rows.map (scaleRow nrm sc), P r) ↔ ∀ r ∈ rows, P (scaleRow nrm sc r) := by
  simp [List.forall_mem_map]

theorem tieRow_eval (nrm : Rat) (sc : Nat) (kind : RowKind) (k : Nat) (b : Rat) (x : Vec) :
    (tieRow nrm sc kind k b).eval x = x k - b * (x sc / nrm) := by
  unfold tieRow Row.eval
  simp only [List.map_cons, List.map_nil, List.sum_cons, List.sum_nil]
  rw [Rat.div_def, Rat.div_def]; grind

theorem tieRow_U_sat (nrm : Rat) (sc k : Nat) (b : Rat) (x : Vec) :
    (tieRow nrm sc .U k b).Sat x ↔ x k ≤ b * (x sc / nrm) := by
  have := tieRow_eval nrm sc .U k b x
  unfold Row.Sat
  have hk : (tieRow nrm sc .U k b).kind = .U := rfl
  have hr : (tieRow nrm sc .U k b).rhs = 0 := rfl
  rw [hk, hr, this]
  simp only []
  constructor <;> intro h <;> grind

theorem tieRow_L_sat (nrm : Rat) (sc k : Nat) (b : Rat) (x : Vec) :
    (tieRow nrm sc .L k b).Sat x ↔ b * (x sc / nrm) ≤ x k := by
  have := tieRow_eval nrm sc .L k b x
  unfold Row.Sat
  have hk : (tieRow nrm sc .L k b).kind = .L := rfl
  have hr : (tieRow nrm sc .L k b).rhs = 0 := rfl
  rw [hk, hr, this]
  simp only []
  constructor <;> intro h <;> grind

/-! ### the widened box is implied -/

theorem ratMin_le_left (a b : Rat) : ratMin a b ≤ a := by unfold ratMin; split <;> grind
theorem ratMin_le_right (a b : Rat) : ratMin a b ≤ b := by unfold ratMin; split <;> grind
theorem le_ratMax_left (a b : Rat) : a ≤ ratMax a b := by unfold ratMax; split <;> grind
theorem le_ratMax_right (a b : Rat) : b ≤ ratMax a b := by unfold ratMax; split <;> grind

/-- `min(0,l)·max/norm ≤ l·(s/norm)` for `0 ≤ s ≤ max`, `0 < norm` -/
theorem widened_lower (l s mx nrm : Rat) (hn : 0 < nrm) (hs : 0 ≤ s) (hsm : s ≤ mx) :
    ratMin 0 l * mx / nrm ≤ l * (s / nrm) := by
  have hinv : 0 ≤ nrm⁻¹ := Rat.le_of_lt (Rat.inv_pos.mpr hn)
  rw [Rat.div_def, Rat.div_def]
  have h1 : ratMin 0 l * mx ≤ l * s := by
    have hm0 : ratMin 0 l ≤ 0 := ratMin_le_left 0 l
    have hml : ratMin 0 l ≤ l := ratMin_le_right 0 l
    have a1 := Rat.mul_le_mul_of_nonneg_left hsm (show 0 ≤ - ratMin 0 l by grind)
    have a2 := Rat.mul_le_mul_of_nonneg_right hml hs
    grind
  have := Rat.mul_le_mul_of_nonneg_right h1 hinv
  grind

theorem widened_upper (u s mx nrm : Rat) (hn : 0 < nrm) (hs : 0 ≤ s) (hsm : s ≤ mx) :
    u * (s / nrm) ≤ ratMax 0 u * mx / nrm := by
  have hinv : 0 ≤ nrm⁻¹ := Rat.le_of_lt (Rat.inv_pos.mpr hn)
  rw [Rat.div_def, Rat.div_def]
  have h1 : u * s ≤ ratMax 0 u * mx := by
    have hm0 : 0 ≤ ratMax 0 u := le_ratMax_left 0 u
    have hmu : u ≤ ratMax 0 u := le_ratMax_right 0 u
    have a1 := Rat.mul_le_mul_of_nonneg_left hsm hm0
    have a2 := Rat.mul_le_mul_of_nonneg_right hmu hs
    grind
  have := Rat.mul_le_mul_of_nonneg_right h1 hinv
  grind

/-! ### rows read only the columns they mention -/

theorem eval_congr (r : Row) (x y : Vec) (h : ∀ q ∈ r.coeffs, x q.1 = y q.1) : r.eval x = r.eval y := by
  unfold Row.eval
  congr 1
  apply List.map_congr_left
  intro q hq
  rw [h q hq]

theorem sat_congr (r : Row) (x y : Vec) (h : ∀ q ∈ r.coeffs, x q.1 = y q.1) : r.Sat x ↔ r.Sat y := by
  unfold Row.Sat
  rw [eval_congr r x y h]

theorem scaleRhs_sat_congr (k : Rat) (r : Row) (x y : Vec) (h : ∀ q ∈ r.coeffs, x q.1 = y q.1) :
    (scaleRhs k r).Sat x ↔ (scaleRhs k r).Sat y :=
  sat_congr (scaleRhs k r) x y h

/-! ### dispatch variables -/

theorem mem_dispVars (M : List MapRow) (d : Nat) :
    d ∈ dispVars M ↔ ∃ m ∈ M, isCapRow m = true ∧ m.var = d := by
  unfold dispVars
  rw [mem_eraseDups]
  simp only [List.mem_map, List.mem_filter]
  constructor
  · rintro ⟨m, ⟨hm, hk⟩, rfl⟩; exact ⟨m, hm, hk, rfl⟩
  · rintro ⟨m, hm, hk, rfl⟩; exact ⟨m, ⟨hm, hk⟩, rfl⟩

theorem dispVars_lt (base : AssetProblem) (hmap : ∀ m ∈ base.mapping, m.var < base.n) :
    ∀ d ∈ dispVars base.mapping, d < base.n := by
  intro d hd
  obtain ⟨m, hm, _, rfl⟩ := (mem_dispVars _ _).mp hd
  exact hmap m hm

/-! ### structured vs flat: concatenation of asset lists -/

theorem rename_rename (f g : Nat → Nat) (r : Row) : (r.rename g).rename f = r.rename (fun j => f (g j)) := by
  unfold Row.rename
  simp [List.map_map, Function.comp_def]

theorem shift_shift (a b : Nat) (m : MapRow) : (m.shift b).shift a = m.shift (a + b) := by
  unfold MapRow.shift
  simp [Nat.add_assoc]

/-- rows and mapping from a later start offset are the shifted rows and mapping -/
theorem assembleFrom_rows_shift (as : List AssetProblem) (off k : Nat) :
    (assembleFrom (off + k) as).rows = (assembleFrom k as).rows.map (Row.rename (off + ·)) := by
  induction as generalizing k with
  | nil => simp
  | cons a as ih =>
    rw [assembleFrom_cons_rows, assembleFrom_cons_rows, List.map_append, List.map_map]
    have h1 : off + k + a.n = off + (k + a.n) := by omega
    rw [h1, ih (k + a.n)]
    congr 1
    apply List.map_congr_left
    intro r _
    simp only [Function.comp, rename_rename, Nat.add_assoc]

theorem assembleFrom_mapping_shift (as : List AssetProblem) (off k : Nat) :
    (assembleFrom (off + k) as).mapping = (assembleFrom k as).mapping.map (MapRow.shift off) := by
  induction as generalizing k with
  | nil => simp
  | cons a as ih =>
    rw [assembleFrom_cons_mapping, assembleFrom_cons_mapping, List.map_append, List.map_map]
    have h1 : off + k + a.n = off + (k + a.n) := by omega
    rw [h1, ih (k + a.n)]
    congr 1
    apply List.map_congr_left
    intro m _
    simp only [Function.comp, shift_shift]

theorem assembleFrom_append_c (as bs : List AssetProblem) (off : Nat) :
    (assembleFrom off (as ++ bs)).c = (assembleFrom off as).c ++ (assembleFrom (off + (as.map (·.n)).sum) bs).c := by
  induction as generalizing off with
  | nil => simp
  | cons a as ih =>
    simp only [List.cons_append, assembleFrom_cons_c, ih, List.map_cons, List.sum_cons, List.append_assoc, Nat.add_assoc]

theorem assembleFrom_append_l (as bs : List AssetProblem) (off : Nat) :
    (assembleFrom off (as ++ bs)).l = (assembleFrom off as).l ++ (assembleFrom (off + (as.map (·.n)).sum) bs).l := by
  induction as generalizing off with
  | nil => simp
  | cons a as ih =>
    simp only [List.cons_append, assembleFrom_cons_l, ih, List.map_cons, List.sum_cons, List.append_assoc, Nat.add_assoc]

theorem assembleFrom_append_u (as bs : List AssetProblem) (off : Nat) :
    (assembleFrom off (as ++ bs)).u = (assembleFrom off as).u ++ (assembleFrom (off + (as.map (·.n)).sum) bs).u := by
  induction as generalizing off with
  | nil => simp
  | cons a as ih =>
    simp only [List.cons_append, assembleFrom_cons_u, ih, List.map_cons, List.sum_cons, List.append_assoc, Nat.add_assoc]

theorem assembleFrom_append_rows (as bs : List AssetProblem) (off : Nat) :
    (assembleFrom off (as ++ bs)).rows = (assembleFrom off as).rows ++ (assembleFrom (off + (as.map (·.n)).sum) bs).rows := by
  induction as generalizing off with
  | nil => simp
  | cons a as ih =>
    simp only [List.cons_append, assembleFrom_cons_rows, ih, List.map_cons, List.sum_cons, List.append_assoc, Nat.add_assoc]

theorem assembleFrom_append_mapping (as bs : List AssetProblem) (off : Nat) :
    (assembleFrom off (as ++ bs)).mapping = (assembleFrom off as).mapping ++ (assembleFrom (off + (as.map (·.n)).sum) bs).mapping := by
  induction as generalizing off with
  | nil => simp
  | cons a as ih =>
    simp only [List.cons_append, assembleFrom_cons_mapping, ih, List.map_cons, List.sum_cons, List.append_assoc, Nat.add_assoc]

/-! ### structured vs flat: nodal rows -/

theorem nodalRow_sat_iff (M : List MapRow) (n : String) (t : Nat) (x : Vec) :
    (nodalRow M n t).Sat x ↔ (nodalRow M n t).eval x = 0 := by
  unfold Row.Sat; simp [nodalRow]

theorem nodalRow_eval_append (Ma Mb : List MapRow) (n : String) (t : Nat) (x : Vec) :
    (nodalRow (Ma ++ Mb) n t).eval x = (nodalRow Ma n t).eval x + (nodalRow Mb n t).eval x := by
  unfold nodalRow Row.eval
  simp [List.filter_append, List.map_append, List.sum_append]

theorem nodalRow_map_shift (M : List MapRow) (off : Nat) (n : String) (t : Nat) :
    nodalRow (M.map (MapRow.shift off)) n t = (nodalRow M n t).rename (off + ·) := by
  unfold nodalRow Row.rename
  simp only [List.filter_map, List.map_map]
  congr 1

theorem nodalRow_eval_of_none (M : List MapRow) (n : String) (t : Nat) (x : Vec)
    (h : M.any (isDisp n t) = false) : (nodalRow M n t).eval x = 0 := by
  have : M.filter (isDisp n t) = [] := by
    apply List.filter_eq_nil_iff.mpr
    intro m hm hd
    have : M.any (isDisp n t) = true := List.any_eq_true.mpr ⟨m, hm, hd⟩
    rw [h] at this; cases this
  simp [nodalRow, Row.eval, this]

/-- wrapping does not change whether a row is a dispatch row at `(n, t)`, provided dispatch rows at `n`
    can only occur when `n` is external -/
theorem isDisp_smr (name : String) (ext : List String) (m : MapRow) (n : String) (t : Nat)
    (hC : m.kind = .d → m.node = some n → n ∈ ext) :
    isDisp n t (structuredMapRow name ext m) = isDisp n t m := by
  rw [Bool.eq_iff_iff, isDisp_iff, isDisp_iff]
  constructor
  · rintro ⟨hk, hn, hs⟩
    obtain ⟨hk', hn', _⟩ := EAO.Structured.structuredMapRow_disp name ext m n hk hn
    exact ⟨hk', hn', by rwa [EAO.Structured.structuredMapRow_step] at hs⟩
  · rintro ⟨hk, hn, hs⟩
    obtain ⟨h1, h2⟩ := EAO.Structured.structuredMapRow_of_ext name ext m n hn (hC hk hn)
    exact ⟨by rw [h1, hk], h2, by rwa [EAO.Structured.structuredMapRow_step]⟩

theorem nodalRow_map_smr (name : String) (ext : List String) (M : List MapRow) (n : String) (t : Nat)
    (hC : ∀ m ∈ M, m.kind = .d → m.node = some n → n ∈ ext) :
    nodalRow (M.map (structuredMapRow name ext)) n t = nodalRow M n t := by
  unfold nodalRow
  congr 1
  induction M with
  | nil => rfl
  | cons m ms ih =>
    have hm := isDisp_smr name ext m n t (hC m (by simp))
    have ih' := ih (fun m' hm' => hC m' (by simp [hm']))
    simp only [List.map_cons, List.filter_cons, hm]
    split
    · simp only [List.map_cons, ih', EAO.Structured.structuredMapRow_var, EAO.Structured.structuredMapRow_factor]
    · exact ih'

theorem any_map_smr (name : String) (ext : List String) (M : List MapRow) (n : String) (t : Nat)
    (hC : ∀ m ∈ M, m.kind = .d → m.node = some n → n ∈ ext) :
    (M.map (structuredMapRow name ext)).any (isDisp n t) = M.any (isDisp n t) := by
  induction M with
  | nil => rfl
  | cons m ms ih =>
    simp only [List.map_cons, List.any_cons, isDisp_smr name ext m n t (hC m (by simp)),
      ih (fun m' hm' => hC m' (by simp [hm']))]

/-- after wrapping there is no dispatch row at a non-external node -/
theorem any_map_smr_not_ext (name : String) (ext : List String) (M : List MapRow) (n : String) (t : Nat)
    (hn : n ∉ ext) : (M.map (structuredMapRow name ext)).any (isDisp n t) = false := by
  rw [Bool.eq_false_iff]
  intro h
  obtain ⟨m', hm', hd⟩ := List.any_eq_true.mp h
  obtain ⟨m, _, rfl⟩ := List.mem_map.mp hm'
  rw [isDisp_iff] at hd
  exact hn (EAO.Structured.structuredMapRow_disp name ext m n hd.1 hd.2.1).2.2

theorem smr_shift (name : String) (ext : List String) (off : Nat) (m : MapRow) :
    (structuredMapRow name ext m).shift off = structuredMapRow name ext (m.shift off) := by
  unfold structuredMapRow MapRow.shift
  by_cases hv : (m.varName == "nan") = true <;> simp only [hv, if_true, Bool.false_eq_true, if_false] <;>
    cases hn : m.node <;> simp only [] <;> (try split) <;> rfl

theorem mem_portfolioNodes_iff (as : List AssetProblem) (n : String) :
    n ∈ portfolioNodes as ↔ ∃ a ∈ as, n ∈ a.nodes := by
  unfold portfolioNodes
  rw [mem_eraseDups]
  simp [List.mem_flatMap]

theorem nodalPairs_map_shift (M : List MapRow) (off : Nat) (nodes skip : List String) (gridI : List Nat) :
    nodalPairs (M.map (MapRow.shift off)) nodes skip gridI = nodalPairs M nodes skip gridI := by
  unfold nodalPairs
  simp only [List.any_map]
  rfl

/-- the heart of `structured_flat`: the nodal equalities of the structured problem (inner ones at
    non-external inner nodes, outer ones over the wrapped mapping) say the same as the nodal equalities
    of the flat problem -/
theorem nodal_core (Mo Mi : List MapRow) (name : String) (ext nodesO nodesI skip : List String) (gridI : List Nat)
    (hO : ∀ m ∈ Mo, m.kind = .d → ∀ n, m.node = some n → n ∈ nodesO)
    (hI : ∀ m ∈ Mi, m.kind = .d → ∀ n, m.node = some n → n ∈ nodesI)
    (hsep : ∀ n ∈ nodesO, n ∈ nodesI → n ∈ ext) (hskip : ∀ n ∈ nodesI, n ∉ ext → n ∉ skip)
    (nodes1 nodes2 : List String) (h1 : ∀ n, n ∈ nodes1 ↔ n ∈ nodesO ∨ n ∈ ext)
    (h2 : ∀ n, n ∈ nodes2 ↔ n ∈ nodesO ∨ n ∈ nodesI) (x : Vec) :
    ((∀ p ∈ nodalPairs Mi nodesI ext gridI, (nodalRow Mi p.2 p.1).eval x = 0) ∧
      (∀ p ∈ nodalPairs (Mo ++ Mi.map (structuredMapRow name ext)) nodes1 skip gridI,
        (nodalRow (Mo ++ Mi.map (structuredMapRow name ext)) p.2 p.1).eval x = 0))
    ↔ ∀ p ∈ nodalPairs (Mo ++ Mi) nodes2 skip gridI, (nodalRow (Mo ++ Mi) p.2 p.1).eval x = 0 := by
  have hMoF : ∀ n t, n ∈ nodesI → n ∉ ext → Mo.any (isDisp n t) = false := by
    intro n t hnI hne
    rw [Bool.eq_false_iff]
    intro h
    obtain ⟨m, hm, hd⟩ := List.any_eq_true.mp h
    rw [isDisp_iff] at hd
    exact hne (hsep n (hO m hm hd.1 n hd.2.1) hnI)
  have hCof : ∀ n, ¬ (n ∈ nodesI ∧ n ∉ ext) → ∀ m ∈ Mi, m.kind = .d → m.node = some n → n ∈ ext := by
    intro n hin m hm hk hnode
    have := hI m hm hk n hnode
    by_cases hne : n ∈ ext
    · exact hne
    · exact absurd ⟨this, hne⟩ hin
  constructor
  · rintro ⟨hA, hB⟩ ⟨t, n⟩ hp
    obtain ⟨hn2, hns, ht, hany⟩ := (mem_nodalPairs_iff _ _ _ _ _ _).mp hp
    show (nodalRow (Mo ++ Mi) n t).eval x = 0
    by_cases hin : n ∈ nodesI ∧ n ∉ ext
    · have hMo := hMoF n t hin.1 hin.2
      have hanyI : Mi.any (isDisp n t) = true := by
        rw [List.any_append, hMo] at hany; simpa using hany
      have := hA (t, n) ((mem_nodalPairs_iff _ _ _ _ _ _).mpr ⟨hin.1, hin.2, ht, hanyI⟩)
      rw [nodalRow_eval_append, nodalRow_eval_of_none Mo n t x hMo]
      simp only [] at this
      rw [this]; grind
    · have hC := hCof n hin
      have hany1 : (Mo ++ Mi.map (structuredMapRow name ext)).any (isDisp n t) = true := by
        rw [List.any_append, any_map_smr name ext Mi n t hC, ← List.any_append]; exact hany
      have hn1 : n ∈ nodes1 := by
        rw [h1]
        rw [List.any_append, Bool.or_eq_true] at hany
        rcases hany with h | h
        · obtain ⟨m, hm, hd⟩ := List.any_eq_true.mp h
          rw [isDisp_iff] at hd
          exact Or.inl (hO m hm hd.1 n hd.2.1)
        · obtain ⟨m, hm, hd⟩ := List.any_eq_true.mp h
          rw [isDisp_iff] at hd
          exact Or.inr (hC m hm hd.1 hd.2.1)
      have := hB (t, n) ((mem_nodalPairs_iff _ _ _ _ _ _).mpr ⟨hn1, hns, ht, hany1⟩)
      simp only [] at this
      rw [nodalRow_eval_append, nodalRow_map_smr name ext Mi n t hC] at this
      rw [nodalRow_eval_append]; exact this
  · intro h
    constructor
    · rintro ⟨t, n⟩ hp
      obtain ⟨hnI, hne, ht, hany⟩ := (mem_nodalPairs_iff _ _ _ _ _ _).mp hp
      show (nodalRow Mi n t).eval x = 0
      have hMo := hMoF n t hnI hne
      have := h (t, n) ((mem_nodalPairs_iff _ _ _ _ _ _).mpr
        ⟨(h2 n).mpr (Or.inr hnI), hskip n hnI hne, ht, by rw [List.any_append, hany]; simp⟩)
      simp only [] at this
      rw [nodalRow_eval_append, nodalRow_eval_of_none Mo n t x hMo] at this
      grind
    · rintro ⟨t, n⟩ hp
      obtain ⟨hn1, hns, ht, hany⟩ := (mem_nodalPairs_iff _ _ _ _ _ _).mp hp
      show (nodalRow (Mo ++ Mi.map (structuredMapRow name ext)) n t).eval x = 0
      by_cases hin : n ∈ nodesI ∧ n ∉ ext
      · exfalso
        rw [List.any_append, hMoF n t hin.1 hin.2, any_map_smr_not_ext name ext Mi n t hin.2] at hany
        simp at hany
      · have hC := hCof n hin
        have hany2 : (Mo ++ Mi).any (isDisp n t) = true := by
          rw [List.any_append, any_map_smr name ext Mi n t hC, ← List.any_append] at hany; exact hany
        have hn2 : n ∈ nodes2 := by
          rw [h2]
          have hany' := hany2
          rw [List.any_append, Bool.or_eq_true] at hany'
          rcases hany' with h' | h'
          · obtain ⟨m, hm, hd⟩ := List.any_eq_true.mp h'
            rw [isDisp_iff] at hd
            exact Or.inl (hO m hm hd.1 n hd.2.1)
          · obtain ⟨m, hm, hd⟩ := List.any_eq_true.mp h'
            rw [isDisp_iff] at hd
            exact Or.inr (hI m hm hd.1 n hd.2.1)
        have := h (t, n) ((mem_nodalPairs_iff _ _ _ _ _ _).mpr ⟨hn2, hns, ht, hany2⟩)
        simp only [] at this
        rw [nodalRow_eval_append] at this
        rw [nodalRow_eval_append, nodalRow_map_smr name ext Mi n t hC]; exact this

end EAO.Scaled
