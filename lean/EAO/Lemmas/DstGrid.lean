import EAO.Model.DstGrid
import EAO.Lemmas.Grid
/-!
# EAO.Lemmas.DstGrid — helper lemmas for daily grids in zones with daylight saving (`EAO/Properties/C19Dst.lean`)
-/
namespace EAO.DstGrid
open EAO

/-! ### offsets, wall times, localisation of one wall time -/

theorem offsetFrom_mem (tr : List (Int × Int)) : ∀ (base u : Int), offsetFrom base tr u ∈ base :: tr.map (·.2) := by
  induction tr with
  | nil => intro base u; simp [offsetFrom]
  | cons p rest ih =>
    intro base u
    obtain ⟨t, o⟩ := p
    simp only [offsetFrom]
    split
    · have := ih o u
      simp only [List.map_cons, List.mem_cons] at this ⊢
      rcases this with h | h
      · right; left; exact h
      · right; right; exact h
    · simp

theorem offset_mem (z : Zone) (u : Int) : z.offset u ∈ z.offsets := offsetFrom_mem z.trans z.base u

theorem mem_candidates (z : Zone) (w u : Int) : u ∈ z.candidates w ↔ z.wall u = w := by
  unfold Zone.candidates
  rw [List.mem_filter, List.mem_map]
  constructor
  · rintro ⟨_, h⟩; simpa using h
  · intro h
    refine ⟨⟨z.offset u, offset_mem z u, ?_⟩, by simpa using h⟩
    unfold Zone.wall at h; omega

/-- a wall time that exactly one instant has -/
def UniqueWall (z : Zone) (w u : Int) : Prop := z.wall u = w ∧ ∀ u', z.wall u' = w → u' = u

theorem localize_ok_iff (z : Zone) (w u : Int) : z.localize w = .ok u ↔ UniqueWall z w u := by
  unfold Zone.localize UniqueWall
  have hm := mem_candidates z w
  generalize z.candidates w = cs at hm
  cases cs with
  | nil =>
    constructor
    · intro h; cases h
    · rintro ⟨h, _⟩; exact absurd ((hm u).mpr h) (by simp)
  | cons c rest =>
    by_cases hall : rest.all (· == c) = true
    · simp only [hall, if_true]
      have hall' : ∀ x ∈ rest, x = c := by simpa using hall
      constructor
      · intro h
        have hcu : c = u := by injection h
        subst hcu
        refine ⟨(hm c).mp (by simp), fun u' hu' => ?_⟩
        rcases List.mem_cons.mp ((hm u').mpr hu') with h | h
        · exact h
        · exact hall' _ h
      · rintro ⟨_, h2⟩
        have : c = u := h2 c ((hm c).mp (by simp))
        rw [this]
    · simp only [hall]
      constructor
      · intro h; cases h
      · rintro ⟨_, h2⟩
        exfalso; apply hall
        rw [List.all_eq_true]; intro x hx
        have hx' := h2 x ((hm x).mp (by simp [hx]))
        have hc' := h2 c ((hm c).mp (by simp))
        simp [hx', hc']

theorem localize_nonexistent_iff (z : Zone) (w : Int) : z.localize w = .error .nonexistent ↔ ∀ u, z.wall u ≠ w := by
  unfold Zone.localize
  have hm := mem_candidates z w
  generalize z.candidates w = cs at hm
  cases cs with
  | nil =>
    constructor
    · intro _ u hu; exact absurd ((hm u).mpr hu) (by simp)
    · intro _; rfl
  | cons c rest =>
    constructor
    · intro h
      by_cases hall : rest.all (· == c) = true
      · simp only [hall, if_true] at h; cases h
      · simp only [hall] at h; cases h
    · intro h; exact absurd ((hm c).mp (by simp)) (h c)

theorem localize_ambiguous_iff (z : Zone) (w : Int) :
    z.localize w = .error .ambiguous ↔ ∃ u u', u ≠ u' ∧ z.wall u = w ∧ z.wall u' = w := by
  unfold Zone.localize
  have hm := mem_candidates z w
  generalize z.candidates w = cs at hm
  cases cs with
  | nil =>
    constructor
    · intro h; cases h
    · rintro ⟨u, _, _, hu, _⟩; exact absurd ((hm u).mpr hu) (by simp)
  | cons c rest =>
    by_cases hall : rest.all (· == c) = true
    · simp only [hall, if_true]
      have hall' : ∀ x ∈ rest, x = c := by simpa using hall
      have key : ∀ u, z.wall u = w → u = c := by
        intro u hu
        rcases List.mem_cons.mp ((hm u).mpr hu) with h | h
        · exact h
        · exact hall' _ h
      constructor
      · intro h; cases h
      · rintro ⟨u, u', hne, hu, hu'⟩
        exact absurd ((key u hu).trans (key u' hu').symm) hne
    · simp only [hall]
      constructor
      · intro _
        have : ∃ x ∈ rest, x ≠ c := by
          apply Classical.byContradiction
          intro hno
          apply hall
          rw [List.all_eq_true]; intro x hx
          have : x = c := Classical.byContradiction fun hxc => hno ⟨x, hx, hxc⟩
          simp [this]
        obtain ⟨x, hx, hxc⟩ := this
        exact ⟨x, c, hxc, (hm x).mp (by simp [hx]), (hm c).mp (by simp)⟩
      · intro _; rfl

theorem localize_error_cases (z : Zone) (w : Int) (e : TzError) (h : z.localize w = .error e) :
    e = .nonexistent ∨ e = .ambiguous := by
  unfold Zone.localize at h
  split at h
  · left; injection h with h; exact h.symm
  · split at h
    · cases h
    · right; injection h with h; exact h.symm

/-! ### a list of wall times -/

theorem localizeAll_ok (z : Zone) : ∀ (ws us : List Int), z.localizeAll ws = .ok us →
    us.length = ws.length ∧ ∀ j (hj : j < ws.length) (hj' : j < us.length), UniqueWall z ws[j] us[j] := by
  intro ws
  induction ws with
  | nil =>
    intro us h
    simp only [Zone.localizeAll] at h
    injection h with h; subst h
    exact ⟨rfl, fun j hj => absurd hj (by simp)⟩
  | cons w ws ih =>
    intro us h
    simp only [Zone.localizeAll] at h
    split at h
    · cases h
    · rename_i u hu
      split at h
      · cases h
      · rename_i us' hus'
        injection h with h; subst h
        obtain ⟨hl, hall⟩ := ih us' hus'
        refine ⟨by simp [hl], ?_⟩
        intro j hj hj'
        cases j with
        | zero => exact (localize_ok_iff z w u).mp hu
        | succ j => exact hall j (by simpa using hj) (by simpa using hj')

theorem localizeAll_of_unique (z : Zone) : ∀ (ws us : List Int), us.length = ws.length →
    (∀ j (hj : j < ws.length) (hj' : j < us.length), UniqueWall z ws[j] us[j]) → z.localizeAll ws = .ok us := by
  intro ws
  induction ws with
  | nil => intro us hl _; cases us with
    | nil => rfl
    | cons _ _ => simp at hl
  | cons w ws ih =>
    intro us hl hall
    cases us with
    | nil => simp at hl
    | cons u us =>
      have h0 := (localize_ok_iff z w u).mpr (hall 0 (by simp) (by simp))
      have h1 := ih us (by simpa using hl) (fun j hj hj' => hall (j+1) (by simpa using hj) (by simpa using hj'))
      simp only [Zone.localizeAll, h0, h1]

/-- the first wall time that cannot be localised decides the error -/
theorem localizeAll_error_iff (z : Zone) (e : TzError) : ∀ (ws : List Int), z.localizeAll ws = .error e ↔
    ∃ pre w post, ws = pre ++ w :: post ∧ (∀ x ∈ pre, ∃ u, z.localize x = .ok u) ∧ z.localize w = .error e := by
  intro ws
  induction ws with
  | nil =>
    constructor
    · intro h; cases h
    · rintro ⟨pre, w, post, h, _⟩; simp at h
  | cons a ws ih =>
    cases ha : z.localize a with
    | error e' =>
      simp only [Zone.localizeAll, ha]
      constructor
      · intro h
        injection h with h; subst h
        exact ⟨[], a, ws, rfl, by simp, ha⟩
      · rintro ⟨pre, w, post, hsplit, hpre, hw⟩
        cases pre with
        | nil =>
          simp only [List.nil_append, List.cons.injEq] at hsplit
          rw [← hsplit.1, ha] at hw
          injection hw with hw; rw [hw]
        | cons p pre =>
          simp only [List.cons_append, List.cons.injEq] at hsplit
          obtain ⟨u, hu⟩ := hpre p (by simp)
          rw [← hsplit.1, ha] at hu
          cases hu
    | ok u =>
      cases hws : z.localizeAll ws with
      | error e' =>
        simp only [Zone.localizeAll, ha, hws]
        constructor
        · intro h
          injection h with h; subst h
          obtain ⟨pre, w, post, hsplit, hpre, hw⟩ := ih.mp hws
          refine ⟨a :: pre, w, post, by simp [hsplit], ?_, hw⟩
          intro x hx
          rcases List.mem_cons.mp hx with h | h
          · exact ⟨u, h ▸ ha⟩
          · exact hpre x h
        · rintro ⟨pre, w, post, hsplit, hpre, hw⟩
          cases pre with
          | nil =>
            simp only [List.nil_append, List.cons.injEq] at hsplit
            rw [← hsplit.1, ha] at hw
            cases hw
          | cons p pre =>
            simp only [List.cons_append, List.cons.injEq] at hsplit
            have h2 : z.localizeAll ws = .error e := ih.mpr ⟨pre, w, post, hsplit.2, fun x hx => hpre x (by simp [hx]), hw⟩
            rw [hws] at h2
            exact h2
      | ok us =>
        simp only [Zone.localizeAll, ha, hws]
        constructor
        · intro h; cases h
        · rintro ⟨pre, w, post, hsplit, hpre, hw⟩
          cases pre with
          | nil =>
            simp only [List.nil_append, List.cons.injEq] at hsplit
            rw [← hsplit.1, ha] at hw
            cases hw
          | cons p pre =>
            simp only [List.cons_append, List.cons.injEq] at hsplit
            have h2 : z.localizeAll ws = .error e := ih.mpr ⟨pre, w, post, hsplit.2, fun x hx => hpre x (by simp [hx]), hw⟩
            rw [hws] at h2
            cases h2

/-! ### the range of days -/

theorem localDayRange_ok (z : Zone) (start stop : Int) (k : Nat) (pts : List Int)
    (h : localDayRange z start stop k = .ok pts) :
    z.localizeAll (dayWalls z start stop k) = .ok pts ∧ UniqueWall z (z.wall start) start ∧ UniqueWall z (z.wall stop) stop := by
  unfold localDayRange at h
  split at h
  · cases h
  · rename_i ps hps
    split at h
    · cases h
    · rename_i s hs
      split at h
      · cases h
      · rename_i e he
        injection h with h; subst h
        have h1 := (localize_ok_iff z _ _).mp hs
        have h2 := (localize_ok_iff z _ _).mp he
        refine ⟨hps, ?_, ?_⟩
        · have hse : start = s := h1.2 start rfl
          subst hse; exact h1
        · have hse : stop = e := h2.2 stop rfl
          subst hse; exact h2

theorem dayWalls_eq (z : Zone) (start stop : Int) (k : Nat) (hk : 0 < k) (hw : z.wall start ≤ z.wall stop) :
    dayWalls z start stop k = (List.range (tickCount (z.wall start) (z.wall stop) (k * 86400) + 1)).map
      fun (j : Nat) => z.wall start + (j : Int) * ((k * 86400 : Nat) : Int) :=
  tickRange_eq _ _ _ (by omega) hw

/-- the order hypothesis on a zone: an instant whose wall time no other instant has does not come after an instant with
    the same or a later wall time (true for the tables of real zones: a clock that is set back repeats wall times) -/
def WallOrder (z : Zone) : Prop :=
  ∀ u v, z.wall u ≤ z.wall v → (∀ u', z.wall u' = z.wall u → u' = u) → u ≤ v

theorem spread_lt (z : Zone) (b : Int) (h : z.spreadBelow b = true) (u v : Int) : z.offset u - z.offset v < b := by
  unfold Zone.spreadBelow at h
  rw [List.all_eq_true] at h
  have h1 := h _ (offset_mem z u)
  rw [List.all_eq_true] at h1
  simpa using h1 _ (offset_mem z v)

/-- everything about the points of a range that was built, index-wise -/
theorem range_points (z : Zone) (start stop : Int) (k : Nat) (pts : List Int) (hk : 0 < k)
    (hw : z.wall start ≤ z.wall stop) (h : localDayRange z start stop k = .ok pts) :
    pts.length = tickCount (z.wall start) (z.wall stop) (k * 86400) + 1 ∧
    ∀ j (hj : j < pts.length), UniqueWall z (z.wall start + (j : Int) * ((k * 86400 : Nat) : Int)) pts[j] := by
  obtain ⟨hall, _, _⟩ := localDayRange_ok z start stop k pts h
  obtain ⟨hl, hu⟩ := localizeAll_ok z _ _ hall
  rw [dayWalls_eq z start stop k hk hw] at hl hu
  simp only [List.length_map, List.length_range] at hl hu
  refine ⟨hl, fun j hj => ?_⟩
  have := hu j (by omega) hj
  simpa using this

theorem range_head (z : Zone) (start stop : Int) (k : Nat) (pts : List Int) (hk : 0 < k)
    (hw : z.wall start ≤ z.wall stop) (h : localDayRange z start stop k = .ok pts) : pts.head? = some start := by
  obtain ⟨hl, hu⟩ := range_points z start stop k pts hk hw h
  have h0 := hu 0 (by omega)
  have : start = pts[0]'(by omega) := h0.2 start (by simp)
  cases pts with
  | nil => simp at hl
  | cons p ps => simp at this ⊢; exact this.symm

theorem range_step (z : Zone) (start stop : Int) (k : Nat) (pts : List Int) (hk : 0 < k)
    (hw : z.wall start ≤ z.wall stop) (h : localDayRange z start stop k = .ok pts)
    (i j : Nat) (hi : i < pts.length) (hj : j < pts.length) :
    pts[j] - pts[i] = ((j : Int) - (i : Int)) * ((k * 86400 : Nat) : Int) - (z.offset pts[j] - z.offset pts[i]) := by
  obtain ⟨_, hu⟩ := range_points z start stop k pts hk hw h
  have h1 := (hu i hi).1
  have h2 := (hu j hj).1
  unfold Zone.wall at h1 h2
  have : ((j : Int) - (i : Int)) * ((k * 86400 : Nat) : Int) = (j : Int) * ((k * 86400 : Nat) : Int) - (i : Int) * ((k * 86400 : Nat) : Int) :=
    Int.sub_mul _ _ _
  omega

theorem range_pairwise (z : Zone) (start stop : Int) (k : Nat) (pts : List Int) (hk : 0 < k)
    (hs : z.spreadBelow ((k * 86400 : Nat) : Int) = true)
    (hw : z.wall start ≤ z.wall stop) (h : localDayRange z start stop k = .ok pts) : pts.Pairwise (· < ·) := by
  rw [List.pairwise_iff_getElem]
  intro i j hi hj hij
  have hstep := range_step z start stop k pts hk hw h i j hi hj
  have hsp := spread_lt z _ hs pts[j] pts[i]
  have hpos : (0 : Int) < ((k * 86400 : Nat) : Int) := by omega
  have : (1 : Int) * ((k * 86400 : Nat) : Int) ≤ ((j : Int) - (i : Int)) * ((k * 86400 : Nat) : Int) :=
    Int.mul_le_mul_of_nonneg_right (by omega) (by omega)
  omega

theorem range_le_stop (z : Zone) (start stop : Int) (k : Nat) (pts : List Int) (hk : 0 < k)
    (hs : z.spreadBelow ((k * 86400 : Nat) : Int) = true)
    (hw : z.wall start ≤ z.wall stop) (hend : WallOrder z ∨ endOK z start stop k = true)
    (h : localDayRange z start stop k = .ok pts) : ∀ p ∈ pts, p ≤ stop := by
  obtain ⟨hl, hu⟩ := range_points z start stop k pts hk hw h
  have hb := tickCount_bounds (z.wall start) (z.wall stop) (k * 86400) (by omega) hw
  have hpos : (0 : Int) < ((k * 86400 : Nat) : Int) := by omega
  intro p hp
  obtain ⟨j, hj, rfl⟩ := List.getElem_of_mem hp
  rcases hend with ho | he
  · apply ho _ _ _ (fun u' hu' => (hu j hj).2 u' (by rw [hu', (hu j hj).1]))
    rw [(hu j hj).1]
    have : (j : Int) * ((k * 86400 : Nat) : Int) ≤ (tickCount (z.wall start) (z.wall stop) (k * 86400) : Int) * ((k * 86400 : Nat) : Int) :=
      Int.mul_le_mul_of_nonneg_right (by omega) (by omega)
    omega
  · -- the last point is `stop - rem`
    have hn : tickCount (z.wall start) (z.wall stop) (k * 86400) < pts.length := by omega
    have hlast := hu _ hn
    have hrem : (z.wall stop - z.wall start) % ((k * 86400 : Nat) : Int)
        = z.wall stop - z.wall start - (tickCount (z.wall start) (z.wall stop) (k * 86400) : Int) * ((k * 86400 : Nat) : Int) := by
      unfold tickCount
      have hnn : 0 ≤ (z.wall stop - z.wall start) / ((k * 86400 : Nat) : Int) := Int.ediv_nonneg (by omega) (by omega)
      rw [Int.toNat_of_nonneg hnn]
      have := Int.emod_add_mul_ediv (z.wall stop - z.wall start) ((k * 86400 : Nat) : Int)
      have hc : ((k * 86400 : Nat) : Int) * ((z.wall stop - z.wall start) / ((k * 86400 : Nat) : Int))
          = (z.wall stop - z.wall start) / ((k * 86400 : Nat) : Int) * ((k * 86400 : Nat) : Int) := Int.mul_comm _ _
      omega
    have hremnn : 0 ≤ (z.wall stop - z.wall start) % ((k * 86400 : Nat) : Int) := Int.emod_nonneg _ (by omega)
    unfold endOK at he
    have he' : z.offset (stop - (z.wall stop - z.wall start) % ((k * 86400 : Nat) : Int)) = z.offset stop := by simpa using he
    generalize (z.wall stop - z.wall start) % ((k * 86400 : Nat) : Int) = R at hrem hremnn he'
    have hwall : z.wall (stop - R)
        = z.wall start + (tickCount (z.wall start) (z.wall stop) (k * 86400) : Int) * ((k * 86400 : Nat) : Int) := by
      have h1 : z.wall (stop - R) = stop - R + z.offset (stop - R) := rfl
      have h2 : z.wall stop = stop + z.offset stop := rfl
      rw [h1, he']
      omega
    have hlasteq := hlast.2 _ hwall
    have hjle : pts[j] ≤ pts[tickCount (z.wall start) (z.wall stop) (k * 86400)] := by
      rcases Nat.lt_or_ge j (tickCount (z.wall start) (z.wall stop) (k * 86400)) with hlt | hge
      · have := (List.pairwise_iff_getElem.mp (range_pairwise z start stop k pts hk hs hw h)) j _ hj hn hlt
        omega
      · have : j = tickCount (z.wall start) (z.wall stop) (k * 86400) := by omega
        subst this; exact Int.le_refl _
    omega

/-- when the wall time of the end lies on the lattice of days, the closing point IS the end -/
theorem range_last_eq_stop (z : Zone) (start stop : Int) (k : Nat) (pts : List Int) (hk : 0 < k)
    (hw : z.wall start ≤ z.wall stop) (h : localDayRange z start stop k = .ok pts)
    (n : Nat) (hn : z.wall stop = z.wall start + (n : Int) * ((k * 86400 : Nat) : Int)) :
    pts.length = n + 1 ∧ pts[n]? = some stop := by
  obtain ⟨hl, hu⟩ := range_points z start stop k pts hk hw h
  have hpos : (0 : Int) < ((k * 86400 : Nat) : Int) := by omega
  have htc : tickCount (z.wall start) (z.wall stop) (k * 86400) = n := by
    unfold tickCount
    have : z.wall stop - z.wall start = (n : Int) * ((k * 86400 : Nat) : Int) := by omega
    rw [this, Int.mul_ediv_cancel _ (by omega)]
    simp
  rw [htc] at hl
  refine ⟨hl, ?_⟩
  have hlast := hu n (by omega)
  have : stop = pts[n]'(by omega) := hlast.2 stop hn
  rw [List.getElem?_eq_getElem (by omega), ← this]

theorem calendarOK_of (allPts : List Int) (start stop : Int) (h1 : allPts.Pairwise (· < ·))
    (h2 : allPts.head? = some start) (h3 : ∀ p ∈ allPts, p ≤ stop) : CalendarOK allPts start stop = true := by
  simp only [CalendarOK, Bool.and_eq_true, decide_eq_true_eq, beq_iff_eq, List.all_eq_true]
  exact ⟨⟨h1, h2⟩, h3⟩

/-- offsets that never decrease in time (a table with spring changes only) -/
theorem wallOrder_of_monotone (z : Zone) (hm : ∀ x y, x ≤ y → z.offset x ≤ z.offset y) : WallOrder z := by
  intro u v hw _
  apply Classical.byContradiction
  intro hlt
  have := hm v u (by omega)
  unfold Zone.wall at hw
  omega

theorem offsetFrom_monotone (tr : List (Int × Int)) : ∀ (base : Int),
    ((base :: tr.map (·.2)).Pairwise (· ≤ ·)) → (tr.map (·.1)).Pairwise (· ≤ ·) →
    ∀ x y, x ≤ y → offsetFrom base tr x ≤ offsetFrom base tr y ∧ base ≤ offsetFrom base tr x := by
  induction tr with
  | nil => intro base _ _ x y _; simp [offsetFrom]
  | cons p rest ih =>
    intro base ho ht x y hxy
    obtain ⟨t, o⟩ := p
    simp only [List.map_cons, List.pairwise_cons] at ho ht
    have hbo : base ≤ o := ho.1 o (by simp)
    have ih' := ih o (List.pairwise_cons.mpr ⟨ho.2.1, ho.2.2⟩) ht.2
    simp only [offsetFrom]
    by_cases hx : t ≤ x
    · have hy : t ≤ y := by omega
      rw [if_pos hx, if_pos hy]
      have := ih' x y hxy
      exact ⟨this.1, by omega⟩
    · rw [if_neg hx]
      by_cases hy : t ≤ y
      · rw [if_pos hy]
        have := (ih' y y (Int.le_refl _)).2
        exact ⟨by omega, Int.le_refl _⟩
      · rw [if_neg hy]; exact ⟨Int.le_refl _, Int.le_refl _⟩

/-! ### regular tables: a clock set back by `d` seconds is not changed again within `d` seconds before or after -/

/-- the condition along the table; `lo` = instant of the last transition read, `bprev` = offset before it, `base` = offset
    from it on.  For the next transition `(t, o)`: instants do not decrease (`lo ≤ t`), the drop AT `lo` fits before `t`
    (`bprev - base ≤ t - lo`: "not changed again within `d` seconds after") and the drop AT `t` fits after `lo`
    (`base - o ≤ t - lo`: "not changed within `d` seconds before").  For a change forward the two differences are negative
    and the conditions say nothing beyond the order of the instants. -/
def regFrom (lo bprev base : Int) : List (Int × Int) → Bool
  | [] => true
  | (t, o) :: rest => decide (lo ≤ t) && decide (bprev - base ≤ t - lo) && decide (base - o ≤ t - lo) && regFrom t base o rest

/-- the decidable condition on a zone table: instants in order, and every setting-back of the clock is at most as large as
    the gaps to the neighbouring transitions (all tables of real zones) -/
def _root_.EAO.Zone.regular (z : Zone) : Bool :=
  match z.trans with
  | [] => true
  | (t, o) :: rest => regFrom t z.base o rest

/-- one segment: `u` lies in a segment with offset `base` that starts at `lo`; every earlier instant has a wall time below
    `lo + bprev` and the `bprev - base` seconds before `lo` have offset `bprev`: an instant before `u` with the same or a
    later wall time forces a second instant with the wall time of `u` -/
theorem segment_witness (F : Int → Int) (lo bprev base u v : Int) (hu : lo ≤ u) (hFu : F u = base)
    (hseg : ∀ x, lo ≤ x → x < u → F x = base)
    (h1 : ∀ x, x < lo → x + F x < lo + bprev) (h2 : ∀ x, lo - (bprev - base) ≤ x → x < lo → F x = bprev)
    (hvu : v < u) (hw : u + F u ≤ v + F v) : ∃ u', u' ≠ u ∧ u' + F u' = u + F u := by
  by_cases hv : lo ≤ v
  · have := hseg v hv hvu
    omega
  · have hb := h1 v (by omega)
    have hF := h2 (u + base - bprev) (by omega) (by omega)
    exact ⟨u + base - bprev, by omega, by omega⟩

theorem regFrom_core (F : Int → Int) : ∀ (tr : List (Int × Int)) (lo bprev base : Int), regFrom lo bprev base tr = true →
    (∀ u, lo ≤ u → F u = offsetFrom base tr u) →
    (∀ x, x < lo → x + F x < lo + bprev) → (∀ x, lo - (bprev - base) ≤ x → x < lo → F x = bprev) →
    ∀ u v, lo ≤ u → v < u → u + F u ≤ v + F v → ∃ u', u' ≠ u ∧ u' + F u' = u + F u := by
  intro tr
  induction tr with
  | nil =>
    intro lo bprev base _ hF h1 h2 u v hu hvu hw
    exact segment_witness F lo bprev base u v hu (by simpa [offsetFrom] using hF u hu)
      (fun x hx _ => by simpa [offsetFrom] using hF x hx) h1 h2 hvu hw
  | cons p rest ih =>
    intro lo bprev base hr hF h1 h2 u v hu hvu hw
    obtain ⟨t, o⟩ := p
    simp only [regFrom, Bool.and_eq_true, decide_eq_true_eq] at hr
    obtain ⟨⟨⟨hlt, hafter⟩, hbefore⟩, hrest⟩ := hr
    have hlow : ∀ x, lo ≤ x → x < t → F x = base := by
      intro x hx hxt
      rw [hF x hx]; simp only [offsetFrom]; rw [if_neg (by omega)]
    by_cases hut : t ≤ u
    · refine ih t base o hrest ?_ ?_ ?_ u v hut hvu hw
      · intro x hx
        rw [hF x (by omega)]; simp only [offsetFrom]; rw [if_pos hx]
      · intro x hx
        by_cases hxl : lo ≤ x
        · rw [hlow x hxl hx]; omega
        · have := h1 x (by omega); omega
      · intro x hx hxt
        exact hlow x (by omega) hxt
    · exact segment_witness F lo bprev base u v hu (hlow u hu (by omega))
        (fun x hx hxu => hlow x hx (by omega)) h1 h2 hvu hw

/-- the order hypothesis holds for every regular table -/
theorem wallOrder_of_regular' (z : Zone) (hr : z.regular = true) : WallOrder z := by
  intro u v hw huniq
  apply Classical.byContradiction
  intro hlt
  have hvu : v < u := by omega
  unfold Zone.regular at hr
  unfold Zone.wall Zone.offset at hw huniq
  cases htr : z.trans with
  | nil =>
    rw [htr] at hw; simp only [offsetFrom] at hw; omega
  | cons p rest =>
    obtain ⟨t, o⟩ := p
    rw [htr] at hr hw huniq
    simp only at hr
    by_cases hut : t ≤ u
    · obtain ⟨u', hne, heq⟩ := regFrom_core (offsetFrom z.base ((t, o) :: rest)) rest t z.base o hr
        (fun x hx => by simp only [offsetFrom]; rw [if_pos hx])
        (fun x hx => by simp only [offsetFrom]; rw [if_neg (by omega)]; omega)
        (fun x _ hx => by simp only [offsetFrom]; rw [if_neg (by omega)]) u v hut hvu hw
      exact hne (huniq u' heq)
    · simp only [offsetFrom] at hw
      rw [if_neg hut, if_neg (by omega)] at hw
      omega

end EAO.DstGrid
