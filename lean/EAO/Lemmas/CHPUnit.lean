import EAO.Model.CHP
import EAO.Model.CHPMinLoad
import EAO.Model.CHPProfile
import EAO.Model.Contract
import EAO.Lemmas.Contract
/-!
# EAO.Lemmas.CHPUnit — change of the main time unit for the CHP / Plant builders (property C12)

Re-expressing an asset for another main time unit, seen from the model: every step length is multiplied by `k > 0`
(`Grid.scaleDt k`; same points, steps, discount factors), the unit's length in seconds changes from `u` to `u'` with
`u' · k = u`, the step length in seconds `s` is the same.  The parameters of the CHP classes change as follows
(`CHPP.rescale`, `MinLoadP.rescale`, `CHPProfP.rescale`):

* rates per time — everything the code multiplies by `dt`, by `dt[0]` or by step/unit — are multiplied by `1/k`:
  `min_cap` (here only its raw non-zero test; the capacities themselves enter through the parent's problem),
  `ramp`, `last_dispatch`, `running_costs`, `consumption_if_on`, the start / shutdown profile bounds (power and heat),
  `min_load_threshhold`, `min_load_costs`;
* durations in main time units are multiplied by `k`: `min_runtime`, `min_downtime`, `time_already_running`,
  `time_already_off`;
* everything else is untouched: conversion factor, heat share, start costs, start fuel, fuel efficiency, nodes, names,
  `ramp_freq` (its length in seconds and its string comparison with the grid's frequency are KEPT: a `ramp_freq` of
  `None` means "the main time unit" and must be made explicit before the unit is changed).
-/
namespace EAO.CHPUnit
open EAO

def CHPP.rescale (k : Rat) (p : CHPP) : CHPP :=
  { p with minCap := p.minCap.scale (1 / k), ramp := p.ramp.map (· * (1 / k)), lastDispatch := p.lastDispatch * (1 / k),
           runningCosts := p.runningCosts.scale (1 / k), consumptionIfOn := p.consumptionIfOn.scale (1 / k),
           minRuntime := p.minRuntime * k, minDowntime := p.minDowntime * k,
           timeAlreadyRunning := p.timeAlreadyRunning * k, timeAlreadyOff := p.timeAlreadyOff * k }

def MinLoadP.rescale (k : Rat) (q : MinLoadP) : MinLoadP :=
  { threshold := q.threshold.map (·.scale (1 / k)), costs := q.costs.map (·.scale (1 / k)) }

def CHPProfP.rescale (k : Rat) (q : CHPProfP) : CHPProfP :=
  let f (o : Option (List Rat)) : Option (List Rat) := o.map (·.map (· * (1 / k)))
  { q with startLo := f q.startLo, startUp := f q.startUp, shutLo := f q.shutLo, shutUp := f q.shutUp,
           startLoH := f q.startLoH, startUpH := f q.startUpH, shutLoH := f q.shutLoH, shutUpH := f q.shutUpH }

/-- the constructor's XOR guard on (`time_already_running`, `time_already_off`) is evaluated on the raw values in main
    time units and only when the raw `min_downtime > 1` (finding F-06d), so it is NOT invariant under a change of the
    unit.  It is stable when the guard's condition holds anyway (exactly one of the two is zero), or when
    `min_downtime ≤ 1` in both units. -/
def GuardStable (k : Rat) (p : CHPP) : Prop :=
  (decide (p.timeAlreadyOff = 0) != decide (p.timeAlreadyRunning = 0)) = true ∨
  (¬ 1 < p.minDowntime ∧ ¬ 1 < p.minDowntime * k)

instance (k : Rat) (p : CHPP) : Decidable (GuardStable k p) := by unfold GuardStable; exact inferInstance

end EAO.CHPUnit
