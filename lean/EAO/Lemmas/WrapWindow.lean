import EAO.Model.WrapWindow
import EAO.Model.Contract
import EAO.Lemmas.Grid
import EAO.Lemmas.Nodal
import EAO.Lemmas.Structured
import EAO.Lemmas.Scaled
import EAO.Lemmas.OrderBook
/-!
# EAO.Lemmas.WrapWindow — helper lemmas for the window logic of the wrappers (C08, `EAO.Properties.C08Wrap`)

Window algebra (`clip` = intersection), the restricted grid of a clipped window, restoration of the attributes
(`setupL` / `setupList`, mutual structural recursion over the object tree), literal level = pure level, and where the
mapping rows of a wrapped problem come from.
-/
namespace EAO.WrapWindow
open EAO

/-! ## window algebra -/

theorem hasPt_none (p : Int) : hasPt (none, none) p = true := rfl

theorem hasPt_iff (w : Win) (p : Int) :
    hasPt w p = true ↔ (∀ s, w.1 = some s → s ≤ p) ∧ (∀ e, w.2 = some e → p < e) := by
  obtain ⟨a, b⟩ := w
  cases a <;> cases b <;> simp [hasPt]

/-- clipping = intersection, for every combination of given / not given on both sides -/
theorem hasPt_clip (own wr : Win) (p : Int) : hasPt (clip own wr) p = (hasPt own p && hasPt wr p) := by
  obtain ⟨a, b⟩ := own
  obtain ⟨c, d⟩ := wr
  rw [Bool.eq_iff_iff]
  cases a <;> cases b <;> cases c <;> cases d <;>
    simp only [clip, State.clipStart, State.clipStop, hasPt, Bool.and_eq_true, decide_eq_true_eq, Bool.true_and,
      Bool.and_true] <;> (try split) <;> (try split) <;> omega

theorem clip_none_own (wr : Win) : clip (none, none) wr = wr := by
  obtain ⟨c, d⟩ := wr
  cases c <;> cases d <;> rfl

theorem clip_none_wrapper (own : Win) : clip own (none, none) = own := by
  obtain ⟨a, b⟩ := own
  cases a <;> cases b <;> rfl

/-- the explicit form: later of the starts, earlier of the ends -/
theorem clip_some (s e s' e' : Int) :
    clip (some s, some e) (some s', some e') = (some (max s s'), some (min e e')) := by
  have h1 : (if s ≤ s' then s' else s) = max s s' := by split <;> omega
  have h2 : (if e ≤ e' then e else e') = min e e' := by split <;> omega
  simp only [clip, State.clipStart, State.clipStop, h1, h2]

/-! ## the restricted grid of a window -/

theorem sel_length_eq {α β} : ∀ (m : List Bool) (xs : List α) (ys : List β), xs.length = ys.length →
    (sel m xs).length = (sel m ys).length
  | [], xs, ys, _ => by simp [sel_nil_left]
  | _ :: _, [], ys, h => by
    have : ys = [] := List.eq_nil_of_length_eq_zero (by simpa using h.symm)
    subst this
    simp [sel_nil_right]
  | b :: m, x :: xs, [], h => by simp at h
  | b :: m, x :: xs, y :: ys, h => by
    have h' : xs.length = ys.length := by simpa using h
    cases b
    · simpa using sel_length_eq m xs ys h'
    · simpa using sel_length_eq m xs ys h'

/-- restricting keeps the per-step lists aligned -/
theorem restrict_ok (g : Grid) (hg : g.Ok) (s e : Int) : (g.restrict s e).Ok := by
  obtain ⟨h1, h2, h3⟩ := hg
  refine ⟨?_, ?_, ?_⟩
  · exact sel_length_eq _ _ _ h1
  · exact sel_length_eq _ _ _ h2
  · exact sel_length_eq _ _ _ h3

theorem restrictWin_ok (g : Grid) (hg : g.Ok) (gs ge : Int) (w : Win) : (restrictWin g gs ge w).Ok :=
  restrict_ok g hg _ _

/-- the restricted grid depends on the window only through the mask on the grid's points -/
theorem restrict_congr (g : Grid) (s e s' e' : Int) (h : ∀ p ∈ g.pts, win s e p = win s' e' p) :
    g.restrict s e = g.restrict s' e' := by
  have hm : g.mask s e = g.mask s' e' := by
    simp only [Grid.mask_eq]
    exact List.map_congr_left h
  simp only [Grid.restrict, hm]

/-- on a grid whose own start / end enclose its steps, `None` does not restrict -/
theorem win_getD (g : Grid) (gs ge : Int) (hor : Horizon g gs ge) (w : Win) (p : Int) (hp : p ∈ g.pts) :
    win (w.1.getD gs) (w.2.getD ge) p = hasPt w p := by
  obtain ⟨h1, h2⟩ := hor p hp
  obtain ⟨a, b⟩ := w
  rw [Bool.eq_iff_iff]
  cases a <;> cases b <;> simp [win, hasPt] <;> omega

theorem restrictWin_pts (g : Grid) (gs ge : Int) (hor : Horizon g gs ge) (w : Win) :
    (restrictWin g gs ge w).pts = g.pts.filter (hasPt w) := by
  show sel (g.mask _ _) g.pts = _
  rw [Grid.mask_eq, sel_map_self]
  apply List.filter_congr
  intro p hp
  exact win_getD g gs ge hor w p hp

theorem restrictWin_idx (g : Grid) (gs ge : Int) (hor : Horizon g gs ge) (w : Win) :
    (restrictWin g gs ge w).idx = ((g.pts.zip g.idx).filter fun q => hasPt w q.1).map (·.2) := by
  show sel (g.mask _ _) g.idx = _
  rw [Grid.mask_eq, sel_map_eq_filter_zip]
  congr 1
  apply List.filter_congr
  intro q hq
  exact win_getD g gs ge hor w q.1 (List.of_mem_zip hq).1

/-- a step of the restricted grid is a step of the grid whose START POINT lies in the window -/
theorem mem_restrictWin_idx (g : Grid) (gs ge : Int) (hor : Horizon g gs ge) (w : Win) (i : Nat) :
    i ∈ (restrictWin g gs ge w).idx ↔ ∃ p, (p, i) ∈ g.pts.zip g.idx ∧ hasPt w p = true := by
  rw [restrictWin_idx g gs ge hor]
  simp only [List.mem_map, List.mem_filter]
  constructor
  · rintro ⟨⟨p, j⟩, ⟨hm, hp⟩, rfl⟩
    exact ⟨p, hm, hp⟩
  · rintro ⟨p, hm, hp⟩
    exact ⟨(p, i), ⟨hm, hp⟩, rfl⟩

/-- restricting a restricted grid = restricting to the later start and the earlier end -/
theorem restrict_restrict' (g : Grid) (s e s' e' : Int) :
    (g.restrict s e).restrict s' e' = g.restrict (max s s') (min e e') := by
  have hw : (fun x => win s e x && win s' e' x) = win (max s s') (min e e') := by
    funext x
    rw [Bool.eq_iff_iff]
    simp only [win, Bool.and_eq_true, decide_eq_true_eq]
    omega
  have key : ∀ {α} (xs : List α), sel ((sel (g.pts.map (win s e)) g.pts).map (win s' e')) (sel (g.pts.map (win s e)) xs)
      = sel (g.pts.map (win (max s s') (min e e'))) xs := by
    intro α xs
    rw [sel_sel, hw]
  show Grid.mk _ _ _ _ _ = Grid.mk _ _ _ _ _
  simp only [Grid.restrict, Grid.mask]
  congr 1 <;> exact key _

theorem horizon_restrict (g : Grid) (gs ge : Int) (hor : Horizon g gs ge) (s e : Int) :
    Horizon (g.restrict s e) gs ge := by
  intro p hp
  have : (g.restrict s e).pts.Sublist g.pts := sel_sublist _ _
  exact hor p (this.subset hp)

/-- **the grid of the clipped window** = the wrapped asset's own window applied to the grid the wrapper's window leaves -/
theorem restrictWin_clip (g : Grid) (gs ge : Int) (hor : Horizon g gs ge) (own wr : Win) :
    restrictWin g gs ge (clip own wr) = restrictWin (restrictWin g gs ge wr) gs ge own := by
  unfold restrictWin
  rw [restrict_restrict']
  apply restrict_congr
  intro p hp
  have h1 := win_getD g gs ge hor (clip own wr) p hp
  have h2 := win_getD g gs ge hor own p hp
  have h3 := win_getD g gs ge hor wr p hp
  rw [h1, hasPt_clip, ← h2, ← h3]
  rw [Bool.eq_iff_iff]
  simp only [win, Bool.and_eq_true, decide_eq_true_eq]
  omega

/-! ## restoration of the attributes -/

variable {ε : Type}

@[simp] theorem setWin_win (t : WTree ε) : t.setWin t.win = t := by cases t <;> rfl
@[simp] theorem setWin_setWin (t : WTree ε) (a b : WinD) : (t.setWin a).setWin b = t.setWin b := by cases t <;> rfl
@[simp] theorem win_setWin (t : WTree ε) (a : WinD) : (t.setWin a).win = a := by cases t <;> rfl
@[simp] theorem subs_setWin (t : WTree ε) (a : WinD) : (t.setWin a).subs = t.subs := by cases t <;> rfl

theorem setWins_nil (cs : List WinD) : setWins ([] : List (WTree ε)) cs = [] := by cases cs <;> rfl

theorem setWins_cons_nil (t : WTree ε) (ts : List (WTree ε)) : setWins (t :: ts) [] = t :: ts := rfl

theorem setWins_own : ∀ ts : List (WTree ε), setWins ts (ts.map (·.win)) = ts
  | [] => rfl
  | t :: ts => by
    show t.setWin t.win :: setWins ts (ts.map (·.win)) = t :: ts
    rw [setWin_win, setWins_own ts]

/-- `finally:` after the loop, however far it got: every object has its own attributes again -/
theorem setWins_restore : ∀ (ts : List (WTree ε)) (cs : List WinD), setWins (setWins ts cs) (ts.map (·.win)) = ts
  | [], cs => by rw [setWins_nil]; rfl
  | t :: ts, [] => setWins_own (t :: ts)
  | t :: ts, c :: cs => by
    show (t.setWin c).setWin t.win :: setWins (setWins ts cs) (ts.map (·.win)) = t :: ts
    rw [setWin_setWin, setWin_win, setWins_restore ts cs]

theorem setWins_head (t : WTree ε) (ts : List (WTree ε)) (curs : List WinD) :
    t.setWin (curs.headD t.win) :: setWins ts curs.tail = setWins (t :: ts) curs := by
  cases curs with
  | nil => simp [setWins_cons_nil]; cases ts <;> rfl
  | cons c cs => rfl

mutual
/-- a set-up changes no attribute for good: the object afterwards is the object before (with the attributes it was called
    with), whether the set-up succeeded or raised -/
theorem setupL_tree (env : Env) : ∀ (t : WTree ε) (cur : WinD) (path : List Nat),
    (setupL env t cur path).tree = t.setWin cur
  | .leaf w b, cur, path => by
    rw [setupL]
    split <;> rfl
  | .scaled w p base, cur, path => by
    rw [setupL]
    have ih := fun c q => setupL_tree env base c q
    simp only
    split
    · simp only [setWin_win]; rfl
    · split
      · simp only [setWin_setWin, setWin_win]; rfl
      · split
        · simp only [ih, setWin_setWin, setWin_win]; rfl
        · split <;> (simp only [ih, setWin_setWin, setWin_win]; rfl)
  | .structured w name ext inner, cur, path => by
    rw [setupL]
    have ih := fun cs q i => setupList_trees env inner cs q i
    split
    · rfl
    · simp only
      split
      · simp only [setWins_restore]; rfl
      · split <;> (simp only [ih, setWins_restore]; rfl)
theorem setupList_trees (env : Env) : ∀ (ts : List (WTree ε)) (curs : List WinD) (path : List Nat) (i : Nat),
    (setupList env ts curs path i).trees = setWins ts curs
  | [], curs, path, i => by rw [setupList, setWins_nil]
  | t :: ts, curs, path, i => by
    rw [setupList]
    have ih1 := setupL_tree env t (curs.headD t.win) (path ++ [i])
    have ih2 := setupList_trees env ts curs.tail path (i + 1)
    simp only
    split
    · simp only [ih1]; exact setWins_head t ts curs
    · simp only [ih1, ih2]; exact setWins_head t ts curs
end

/-! ## literal level = pure level -/

/-- localisation keeps the order of wall-clock times (true for the valid local times of a zone) -/
def MonoLoc (env : Env) : Prop := ∀ a b : Int, a ≤ b → env.loc a ≤ env.loc b

theorem optInst?_eq (env : Env) (d : Option WDate) (x : Option Int) (h : env.optInst? d = some x) :
    x = d.map env.instD := by
  cases d with
  | none => simp [Env.optInst?] at h; exact h.symm
  | some d =>
    cases d with
    | naive w => simp [Env.optInst?, Env.inst?] at h; simp [← h, Env.instD]
    | aware t =>
      simp only [Env.optInst?, Env.inst?] at h
      split at h
      · simp at h; simp [← h, Env.instD]
      · simp at h

/-- where `set_restricted_grid` does not raise, it filters with the instants the dates stand for -/
theorem instWin?_eq (env : Env) (w : WinD) (wi : Win) (h : env.instWin? w = some wi) : wi = env.winI w := by
  unfold Env.instWin? at h
  split at h
  · rename_i s e hs he
    cases h
    rw [optInst?_eq env _ _ hs, optInst?_eq env _ _ he]
    rfl
  · cases h

theorem ite_le_of_le (a b : Int) (h : a ≤ b) : (if a ≤ b then b else a) = b := by rw [if_pos h]
theorem ite_le_of_ge (a b : Int) (h : b ≤ a) : (if a ≤ b then b else a) = a := by
  by_cases h2 : a ≤ b
  · rw [if_pos h2]; omega
  · rw [if_neg h2]
theorem ite_min_of_le (a b : Int) (h : a ≤ b) : (if a ≤ b then a else b) = a := by rw [if_pos h]
theorem ite_min_of_ge (a b : Int) (h : b ≤ a) : (if a ≤ b then a else b) = b := by
  by_cases h2 : a ≤ b
  · rw [if_pos h2]; omega
  · rw [if_neg h2]

theorem maxD_inst (env : Env) (hm : MonoLoc env) (a b c : WDate) (h : maxD a b = some c) :
    env.instD c = if env.instD a ≤ env.instD b then env.instD b else env.instD a := by
  cases a with
  | naive x =>
    cases b with
    | naive y =>
      simp only [maxD, WDate.lt?] at h
      by_cases hxy : x < y
      · simp only [hxy, decide_true] at h
        cases h
        exact (ite_le_of_le _ _ (hm x y (by omega))).symm
      · simp only [hxy, decide_false] at h
        cases h
        exact (ite_le_of_ge _ _ (hm y x (by omega))).symm
    | aware y => simp [maxD, WDate.lt?] at h
  | aware x =>
    cases b with
    | naive y => simp [maxD, WDate.lt?] at h
    | aware y =>
      simp only [maxD, WDate.lt?] at h
      by_cases hxy : x < y
      · simp only [hxy, decide_true] at h
        cases h
        exact (ite_le_of_le x y (by omega)).symm
      · simp only [hxy, decide_false] at h
        cases h
        exact (ite_le_of_ge x y (by omega)).symm

theorem minD_inst (env : Env) (hm : MonoLoc env) (a b c : WDate) (h : minD a b = some c) :
    env.instD c = if env.instD a ≤ env.instD b then env.instD a else env.instD b := by
  cases a with
  | naive x =>
    cases b with
    | naive y =>
      simp only [minD, WDate.lt?] at h
      by_cases hxy : y < x
      · simp only [hxy, decide_true] at h
        cases h
        exact (ite_min_of_ge _ _ (hm y x (by omega))).symm
      · simp only [hxy, decide_false] at h
        cases h
        exact (ite_min_of_le _ _ (hm x y (by omega))).symm
    | aware y => simp [minD, WDate.lt?] at h
  | aware x =>
    cases b with
    | naive y => simp [minD, WDate.lt?] at h
    | aware y =>
      simp only [minD, WDate.lt?] at h
      by_cases hxy : y < x
      · simp only [hxy, decide_true] at h
        cases h
        exact (ite_min_of_ge x y (by omega)).symm
      · simp only [hxy, decide_false] at h
        cases h
        exact (ite_min_of_le x y (by omega)).symm

theorem clipStartD_inst (env : Env) (hm : MonoLoc env) (own wr c : Option WDate) (h : clipStartD own wr = some c) :
    c.map env.instD = State.clipStart (own.map env.instD) (wr.map env.instD) := by
  cases wr with
  | none => simp only [clipStartD] at h; cases h; cases own <;> rfl
  | some w =>
    cases own with
    | none => simp only [clipStartD] at h; cases h; rfl
    | some o =>
      simp only [clipStartD, Option.map_eq_some_iff] at h
      obtain ⟨d, hd, rfl⟩ := h
      simp only [Option.map_some, State.clipStart]
      rw [maxD_inst env hm o w d hd]

theorem clipStopD_inst (env : Env) (hm : MonoLoc env) (own wr c : Option WDate) (h : clipStopD own wr = some c) :
    c.map env.instD = State.clipStop (own.map env.instD) (wr.map env.instD) := by
  cases wr with
  | none => simp only [clipStopD] at h; cases h; cases own <;> rfl
  | some w =>
    cases own with
    | none => simp only [clipStopD] at h; cases h; rfl
    | some o =>
      simp only [clipStopD, Option.map_eq_some_iff] at h
      obtain ⟨d, hd, rfl⟩ := h
      simp only [Option.map_some, State.clipStop]
      rw [minD_inst env hm o w d hd]

/-- the attributes the clipping statements leave = the intersection of the windows, as instants -/
theorem clipD_winI (env : Env) (hm : MonoLoc env) (own wr : WinD) (s e : Option WDate)
    (hs : clipStartD own.1 wr.1 = some s) (he : clipStopD own.2 wr.2 = some e) :
    env.winI (s, e) = clip (env.winI own) (env.winI wr) := by
  show (s.map env.instD, e.map env.instD) = _
  rw [clipStartD_inst env hm _ _ _ hs, clipStopD_inst env hm _ _ _ he]
  rfl

theorem clipStep_some (env : Env) (hm : MonoLoc env) (w a a' : WinD) (wi : Win)
    (h : clipStep env w a = (a', some wi)) :
    env.winI a' = clip (env.winI a) (env.winI w) ∧ wi = env.winI a' := by
  unfold clipStep at h
  split at h
  · cases h
  · rename_i s hs
    split at h
    · cases h
    · rename_i e he
      simp only [Prod.mk.injEq] at h
      obtain ⟨rfl, hi⟩ := h
      exact ⟨clipD_winI env hm a w s e hs he, instWin?_eq env _ _ hi⟩

/-- every object of the list carries (as instants) the intersection of its own window with `W` -/
inductive Clipped (env : Env) (W : Win) : List (WTree ε) → List WinD → Prop
  | nil : Clipped env W [] []
  | cons {t : WTree ε} {ts : List (WTree ε)} {c : WinD} {cs : List WinD} :
      env.winI c = clip (env.winI t.win) W → Clipped env W ts cs → Clipped env W (t :: ts) (c :: cs)

/-- a clipping loop that ran through left every inner asset with the intersection of its own and the wrapper's window -/
theorem clipLoop_ok (env : Env) (hm : MonoLoc env) (w : WinD) (path : List Nat) :
    ∀ (ts : List (WTree ε)) (i : Nat) (curs : List WinD) (evs : List Ev),
      clipLoop env w path (ts.map (·.win)) i = (curs, evs, true) → Clipped env (env.winI w) ts curs
  | [], i, curs, evs, h => by
    simp only [List.map_nil, clipLoop, Prod.mk.injEq] at h
    rw [← h.1]
    exact .nil
  | t :: ts, i, curs, evs, h => by
    simp only [List.map_cons, clipLoop] at h
    split at h
    · simp at h
    · rename_i a' wi hstep
      simp only [Prod.mk.injEq] at h
      obtain ⟨rfl, _, hok⟩ := h
      exact .cons (clipStep_some env hm w t.win a' wi hstep).1
        (clipLoop_ok env hm w path ts (i + 1) _ _ (Prod.ext rfl (Prod.ext rfl hok)))

mutual
/-- **the literal set-up computes the pure problem**: whenever it does not stop at a TypeError, its result — problem or
    exception of a wrapped builder — is that of `buildTree` on the instants the attributes stand for -/
theorem setupL_pure (env : Env) (hm : MonoLoc env) : ∀ (t : WTree ε) (cur : WinD) (path : List Nat),
    (∀ P, (setupL env t cur path).res = .ok P → buildTree env t (env.winI cur) = .ok P) ∧
    (∀ e, (setupL env t cur path).res = .error (.build e) → buildTree env t (env.winI cur) = .error e)
  | .leaf w b, cur, path => by
    rw [setupL, buildTree]
    split
    · exact ⟨fun _ h => (by cases h), fun _ h => (by cases h)⟩
    · rename_i wi hwi
      rw [← instWin?_eq env cur wi hwi]
      simp only
      split
      · rename_i P hP
        exact ⟨fun _ h => (by cases h; exact hP), fun _ h => (by cases h)⟩
      · rename_i e he
        exact ⟨fun _ h => (by cases h), fun _ h => (by cases h; exact he)⟩
  | .scaled w p base, cur, path => by
    rw [setupL, buildTree]
    simp only
    split
    · exact ⟨fun _ h => (by cases h), fun _ h => (by cases h)⟩
    · rename_i s hs
      split
      · exact ⟨fun _ h => (by cases h), fun _ h => (by cases h)⟩
      · rename_i e he
        have ih := setupL_pure env hm base (s, e) (path ++ [0])
        rw [clipD_winI env hm base.win cur s e hs he] at ih
        split
        · rename_i err herr
          refine ⟨fun _ h => (by cases h), fun e' h => ?_⟩
          cases h
          rw [ih.2 _ herr]
        · rename_i bp hbp
          rw [ih.1 _ hbp]
          split
          · exact ⟨fun _ h => (by cases h), fun _ h => (by cases h)⟩
          · rename_i wi hwi
            rw [← instWin?_eq env cur wi hwi]
            exact ⟨fun _ h => (by cases h; rfl), fun _ h => (by cases h)⟩
  | .structured w name ext inner, cur, path => by
    rw [setupL, buildTree]
    split
    · exact ⟨fun _ h => (by cases h), fun _ h => (by cases h)⟩
    · rename_i wi hwi
      simp only
      split
      · exact ⟨fun _ h => (by cases h), fun _ h => (by cases h)⟩
      · rename_i curs evs hloop
        have hF := clipLoop_ok env hm cur path inner 0 curs evs hloop
        have ih := setupList_pure env hm inner curs path 0 (env.winI cur) hF
        split
        · rename_i err herr
          refine ⟨fun _ h => (by cases h), fun e' h => ?_⟩
          cases h
          rw [ih.2 _ herr]
        · rename_i ps hps
          rw [ih.1 _ hps]
          exact ⟨fun _ h => (by cases h; rfl), fun _ h => (by cases h)⟩
theorem setupList_pure (env : Env) (hm : MonoLoc env) : ∀ (ts : List (WTree ε)) (curs : List WinD) (path : List Nat) (i : Nat)
    (W : Win), Clipped env W ts curs →
    (∀ ps, (setupList env ts curs path i).res = .ok ps → buildList env ts W = .ok ps) ∧
    (∀ e, (setupList env ts curs path i).res = .error (.build e) → buildList env ts W = .error e)
  | [], curs, path, i, W, _ => by
    rw [setupList, buildList]
    exact ⟨fun _ h => (by cases h; rfl), fun _ h => (by cases h)⟩
  | t :: ts, curs, path, i, W, hF => by
    cases hF with
    | cons hc hrest =>
      rename_i c cs
      rw [setupList, buildList]
      simp only [List.headD_cons, List.tail_cons]
      have ih1 := setupL_pure env hm t c (path ++ [i])
      rw [hc] at ih1
      have ih2 := setupList_pure env hm ts cs path (i + 1) W hrest
      split
      · rename_i err herr
        refine ⟨fun _ h => (by cases h), fun e h => ?_⟩
        cases h
        rw [ih1.2 _ herr]
      · rename_i P hP
        rw [ih1.1 _ hP]
        simp only
        split
        · rename_i err herr
          refine ⟨fun _ h => (by cases h), fun e h => ?_⟩
          cases h
          rw [ih2.2 _ herr]
        · rename_i ps hps
          rw [ih2.1 _ hps]
          exact ⟨fun _ h => (by cases h; rfl), fun _ h => (by cases h)⟩
end

/-! ## where the mapping rows of a wrapped problem sit -/

/-- what the window theorems of the builders say (`vars_only_in_window` of `EAO.Properties.C08*`): every mapping row of the
    problem sits at a step of the grid the builder was given -/
def LeafInWindow (b : Grid → Except ε AssetProblem) : Prop :=
  ∀ g P, g.Ok → b g = .ok P → ∀ m ∈ P.mapping, m.step ∈ g.idx

mutual
/-- every leaf builder of the tree satisfies `Q` -/
def LeavesOk (Q : (Grid → Except ε AssetProblem) → Prop) : WTree ε → Prop
  | .leaf _ b => Q b
  | .scaled _ _ base => LeavesOk Q base
  | .structured _ _ _ inner => LeavesOkL Q inner
def LeavesOkL (Q : (Grid → Except ε AssetProblem) → Prop) : List (WTree ε) → Prop
  | [] => True
  | c :: cs => LeavesOk Q c ∧ LeavesOkL Q cs
end

/-- the mapping row sits at a step of the restricted grid of a leaf below `t` — restricted by `effWin`, the leaf's own window
    clipped by every wrapper above it — or it is the row of a scale variable (type 'size', by construction at step 0) -/
def RowFrom (env : Env) (t : WTree ε) (cur : Win) (m : MapRow) : Prop :=
  (∃ q w b, t.sub? q = some (.leaf w b) ∧ m.step ∈ (env.restricted (effWin env t q cur)).idx) ∨
  (m.kind = .other "size" ∧ m.step = 0)

theorem rowFrom_lift (env : Env) (t c : WTree ε) (i : Nat) (cur : Win) (hc : t.subs[i]? = some c) (m m' : MapRow)
    (hstep : m'.step = m.step) (hkind : m.kind = .other "size" → m'.kind = .other "size")
    (h : RowFrom env c (clip (env.winI c.win) cur) m) : RowFrom env t cur m' := by
  rcases h with ⟨q, w, b, hq, hs⟩ | ⟨hk, hs⟩
  · refine Or.inl ⟨i :: q, w, b, ?_, ?_⟩
    · simp only [WTree.sub?, hc]; exact hq
    · simp only [effWin, hc]; rw [hstep]; exact hs
  · exact Or.inr ⟨hkind hk, by rw [hstep]; exact hs⟩

theorem structuredMapRow_kind_other (name : String) (ext : List String) (m : MapRow) (s : String)
    (h : m.kind = .other s) : (structuredMapRow name ext m).kind = .other s := by
  unfold structuredMapRow
  by_cases hv : (m.varName == "nan") = true <;> simp only [hv, if_true, Bool.false_eq_true, if_false] <;>
    cases hn : m.node <;> simp only [] <;> (try split) <;> simp [h, innerKind]

/-- a mapping row of the scaled problem: a base row (asset renamed at most), or the row of the scale -/
theorem mem_buildScaled_mapping (p : ScaledP) (bp : AssetProblem) (d : Rat) (m : MapRow)
    (hm : m ∈ (buildScaled p bp d).mapping) :
    (∃ m' ∈ bp.mapping, m.step = m'.step ∧ m.kind = m'.kind) ∨ (m.kind = .other "size" ∧ m.step = 0) := by
  unfold buildScaled at hm
  split at hm
  · exact Or.inl ⟨m, hm, rfl, rfl⟩
  · simp only [buildScaledCore, List.mem_append, List.mem_map, List.mem_singleton] at hm
    rcases hm with ⟨m', hm', rfl⟩ | rfl
    · exact Or.inl ⟨m', hm', rfl, rfl⟩
    · exact Or.inr ⟨rfl, rfl⟩

/-- a mapping row of the structured problem: a row of one of the inner problems, same step, a 'size' row stays one -/
theorem mem_structured_mapping (name : String) (ext : List String) (ps : List AssetProblem) (gridI : List Nat) (m : MapRow)
    (hm : m ∈ (structured name ext ps gridI).mapping) :
    ∃ a ∈ ps, ∃ m' ∈ a.mapping, m.step = m'.step ∧ (m'.kind = .other "size" → m.kind = .other "size") := by
  have hm' : m ∈ (assemble ps gridI ext).mapping.map (structuredMapRow name ext) := hm
  rw [assemble_mapping] at hm'
  obtain ⟨m0, hm0, rfl⟩ := List.mem_map.mp hm'
  obtain ⟨a, ha, m', hm'', o, rfl⟩ := mem_assembleFrom_mapping ps 0 m0 hm0
  refine ⟨a, ha, m', hm'', ?_, ?_⟩
  · rw [Structured.structuredMapRow_step, shift_step]
  · intro hk
    exact structuredMapRow_kind_other name ext _ "size" (by rw [shift_kind]; exact hk)

mutual
/-- **every mapping row of a wrapped problem sits inside the windows of all wrappers**: it belongs to a leaf and sits at a step
    of the grid restricted by that leaf's effective window — or is the row of a scale variable -/
theorem buildTree_rows (env : Env) (hg : env.g.Ok) : ∀ (t : WTree ε) (cur : Win) (P : AssetProblem),
    LeavesOk LeafInWindow t → buildTree env t cur = .ok P → ∀ m ∈ P.mapping, RowFrom env t cur m
  | .leaf w b, cur, P, hl, h, m, hm => by
    rw [buildTree] at h
    rw [LeavesOk] at hl
    refine Or.inl ⟨[], w, b, rfl, ?_⟩
    exact hl _ P (restrictWin_ok env.g hg _ _ _) h m hm
  | .scaled w p base, cur, P, hl, h, m, hm => by
    rw [buildTree] at h
    rw [LeavesOk] at hl
    split at h
    · cases h
    · rename_i bp hbp
      cases h
      have ih := buildTree_rows env hg base (clip (env.winI base.win) cur) bp hl hbp
      rcases mem_buildScaled_mapping p bp _ m hm with ⟨m', hm', hs, hk⟩ | hsz
      · exact rowFrom_lift env (.scaled w p base) base 0 cur rfl m' m hs (fun h => by rw [hk]; exact h) (ih m' hm')
      · exact Or.inr hsz
  | .structured w name ext inner, cur, P, hl, h, m, hm => by
    rw [buildTree] at h
    rw [LeavesOk] at hl
    split at h
    · cases h
    · rename_i ps hps
      cases h
      obtain ⟨a, ha, m', hm', hs, hk⟩ := mem_structured_mapping name ext ps _ m hm
      obtain ⟨i, c, hc, hrow⟩ := buildList_rows env hg inner cur ps hl hps a ha m' hm'
      exact rowFrom_lift env (.structured w name ext inner) c i cur hc m' m hs hk hrow
theorem buildList_rows (env : Env) (hg : env.g.Ok) : ∀ (cs : List (WTree ε)) (cur : Win) (ps : List AssetProblem),
    LeavesOkL LeafInWindow cs → buildList env cs cur = .ok ps →
    ∀ a ∈ ps, ∀ m ∈ a.mapping, ∃ (i : Nat) (c : WTree ε), cs[i]? = some c ∧ RowFrom env c (clip (env.winI c.win) cur) m
  | [], cur, ps, _, h, a, ha, m, hm => by
    rw [buildList] at h
    cases h
    cases ha
  | c :: cs, cur, ps, hl, h, a, ha, m, hm => by
    rw [buildList] at h
    rw [LeavesOkL] at hl
    split at h
    · cases h
    · rename_i P hP
      split at h
      · cases h
      · rename_i ps' hps'
        cases h
        rcases List.mem_cons.mp ha with rfl | ha'
        · exact ⟨0, c, rfl, buildTree_rows env hg c _ a hl.1 hP m hm⟩
        · obtain ⟨i, c', hc', hrow⟩ := buildList_rows env hg cs cur ps' hl.2 hps' a ha' m hm
          exact ⟨i + 1, c', by simpa using hc', hrow⟩
end

/-! ## the effective window is the intersection of the windows along the path -/

theorem hasPt_effWin (env : Env) : ∀ (q : List Nat) (t : WTree ε) (cur : Win) (p : Int),
    hasPt (effWin env t q cur) p = (hasPt cur p && (pathWins env t q).all (hasPt · p))
  | [], t, cur, p => by simp [effWin, pathWins]
  | i :: q, t, cur, p => by
    simp only [effWin, pathWins]
    cases h : t.subs[i]? with
    | none => simp
    | some c =>
      simp only [List.all_cons]
      rw [hasPt_effWin env q c, hasPt_clip]
      cases hasPt cur p <;> cases hasPt (env.winI c.win) p <;> simp

/-! ## every `set_restricted_grid` call sees the clipped window -/

/-- the event belongs to an object below `t` (living at `path`) and carries that object's effective window -/
def EvOk (env : Env) (t : WTree ε) (cur : Win) (path : List Nat) (ev : Ev) : Prop :=
  ∃ q, ev.1 = path ++ q ∧ (t.sub? q).isSome = true ∧ ev.2 = effWin env t q cur

theorem evOk_lift (env : Env) (t c : WTree ε) (i : Nat) (cur : Win) (path : List Nat) (hc : t.subs[i]? = some c) (ev : Ev)
    (h : EvOk env c (clip (env.winI c.win) cur) (path ++ [i]) ev) : EvOk env t cur path ev := by
  obtain ⟨q, h1, h2, h3⟩ := h
  refine ⟨i :: q, ?_, ?_, ?_⟩
  · rw [h1]; simp
  · simp only [WTree.sub?, hc]; exact h2
  · simp only [effWin, hc]; exact h3

/-- the events of the clipping loop, however far it got: inner asset number `i + j`, its own window clipped by the wrapper's -/
theorem clipLoop_events (env : Env) (hm : MonoLoc env) (w : WinD) (path : List Nat) :
    ∀ (ts : List (WTree ε)) (i : Nat), ∀ ev ∈ (clipLoop env w path (ts.map (·.win)) i).2.1,
      ∃ (j : Nat) (c : WTree ε), ts[j]? = some c ∧ ev = (path ++ [i + j], clip (env.winI c.win) (env.winI w))
  | [], i, ev, h => by simp [clipLoop] at h
  | t :: ts, i, ev, h => by
    simp only [List.map_cons, clipLoop] at h
    split at h
    · simp at h
    · rename_i a' wi hstep
      simp only [List.mem_cons] at h
      rcases h with rfl | h
      · obtain ⟨h1, h2⟩ := clipStep_some env hm w t.win a' wi hstep
        exact ⟨0, t, rfl, by rw [h2, h1]; rfl⟩
      · obtain ⟨j, c, hj, rfl⟩ := clipLoop_events env hm w path ts (i + 1) ev h
        exact ⟨j + 1, c, by simpa using hj, by rw [show i + 1 + j = i + (j + 1) by omega]⟩

mutual
/-- **every `set_restricted_grid` call made during a set-up** — also one that ends in an exception — is made for an object of
    the tree and with that object's own window clipped by the windows of all wrappers above it -/
theorem setupL_events (env : Env) (hm : MonoLoc env) : ∀ (t : WTree ε) (cur : WinD) (path : List Nat),
    ∀ ev ∈ (setupL env t cur path).trace, EvOk env t (env.winI cur) path ev
  | .leaf w b, cur, path, ev, h => by
    rw [setupL] at h
    split at h
    · cases h
    · rename_i wi hwi
      simp only [List.mem_singleton] at h
      subst h
      exact ⟨[], by simp, rfl, instWin?_eq env cur wi hwi⟩
  | .scaled w p base, cur, path, ev, h => by
    rw [setupL] at h
    simp only at h
    split at h
    · cases h
    · rename_i s hs
      split at h
      · cases h
      · rename_i e he
        have ih := setupL_events env hm base (s, e) (path ++ [0])
        rw [clipD_winI env hm base.win cur s e hs he] at ih
        have lift : ∀ ev ∈ (setupL env base (s, e) (path ++ [0])).trace, EvOk env (.scaled w p base) (env.winI cur) path ev :=
          fun ev hev => evOk_lift env (.scaled w p base) base 0 _ path rfl ev (ih ev hev)
        split at h
        · exact lift ev h
        · split at h
          · exact lift ev h
          · rename_i wi hwi
            simp only [List.mem_append, List.mem_singleton] at h
            rcases h with h | rfl
            · exact lift ev h
            · exact ⟨[], by simp, rfl, instWin?_eq env cur wi hwi⟩
  | .structured w name ext inner, cur, path, ev, h => by
    rw [setupL] at h
    split at h
    · cases h
    · rename_i wi hwi
      have own : EvOk env (.structured w name ext inner) (env.winI cur) path (path, wi) :=
        ⟨[], by simp, rfl, instWin?_eq env cur wi hwi⟩
      have loop : ∀ ev ∈ (clipLoop env cur path (inner.map (·.win)) 0).2.1,
          EvOk env (.structured w name ext inner) (env.winI cur) path ev := by
        intro ev hev
        obtain ⟨j, c, hj, hev'⟩ := clipLoop_events env hm cur path inner 0 ev hev
        rw [Nat.zero_add] at hev'
        subst hev'
        have hsub : (WTree.structured w name ext inner).subs[j]? = some c := hj
        refine ⟨[j], rfl, ?_, ?_⟩
        · simp only [WTree.sub?, hsub]; rfl
        · simp only [effWin, hsub]
      simp only at h
      split at h
      · rename_i curs evs hloop
        simp only [List.mem_cons] at h
        rcases h with rfl | h
        · exact own
        · exact loop ev (by rw [hloop]; exact h)
      · rename_i curs evs hloop
        have hF := clipLoop_ok env hm cur path inner 0 curs evs hloop
        have ih := setupList_events env hm inner curs path 0 (env.winI cur) hF
        have hall : ev = (path, wi) ∨ ev ∈ evs ∨ ev ∈ (setupList env inner curs path 0).trace := by
          split at h <;> simpa [List.mem_cons, List.mem_append] using h
        rcases hall with rfl | h | h
        · exact own
        · exact loop ev (by rw [hloop]; exact h)
        · obtain ⟨j, c, hj, hev⟩ := ih ev h
          rw [Nat.zero_add] at hev
          have hsub : (WTree.structured w name ext inner).subs[j]? = some c := hj
          exact evOk_lift env _ c j _ path hsub ev hev
theorem setupList_events (env : Env) (hm : MonoLoc env) : ∀ (ts : List (WTree ε)) (curs : List WinD) (path : List Nat) (i : Nat)
    (W : Win), Clipped env W ts curs → ∀ ev ∈ (setupList env ts curs path i).trace,
    ∃ (j : Nat) (c : WTree ε), ts[j]? = some c ∧ EvOk env c (clip (env.winI c.win) W) (path ++ [i + j]) ev
  | [], curs, path, i, W, _, ev, h => by
    rw [setupList] at h
    cases h
  | t :: ts, curs, path, i, W, hF, ev, h => by
    cases hF with
    | cons hc hrest =>
      rename_i c cs
      rw [setupList] at h
      simp only [List.headD_cons, List.tail_cons] at h
      have ih1 := setupL_events env hm t c (path ++ [i])
      rw [hc] at ih1
      have ih2 := setupList_events env hm ts cs path (i + 1) W hrest
      have hall : ev ∈ (setupL env t c (path ++ [i])).trace ∨ ev ∈ (setupList env ts cs path (i + 1)).trace := by
        split at h
        · exact Or.inl h
        · simpa [List.mem_append] using h
      rcases hall with h | h
      · exact ⟨0, t, rfl, ih1 ev h⟩
      · obtain ⟨j, c', hj, hev⟩ := ih2 ev h
        refine ⟨j + 1, c', by simpa using hj, ?_⟩
        rw [show i + (j + 1) = i + 1 + j by omega]
        exact hev
end

/-! ## order books (no window of their own) -/

theorem mem_zip_sel (f : Int → Bool) : ∀ (ps : List Int) (is : List Nat) (p : Int) (i : Nat),
    (p, i) ∈ (sel (ps.map f) ps).zip (sel (ps.map f) is) → f p = true ∧ (p, i) ∈ ps.zip is
  | [], is, p, i, h => by simp [sel_nil_left] at h
  | a :: ps, [], p, i, h => by simp [sel_nil_right] at h
  | a :: ps, b :: is, p, i, h => by
    cases hf : f a
    · simp only [List.map_cons, hf, sel_cons_false] at h
      obtain ⟨h1, h2⟩ := mem_zip_sel f ps is p i h
      exact ⟨h1, by simp [h2]⟩
    · simp only [List.map_cons, hf, sel_cons_true, List.zip_cons_cons, List.mem_cons] at h
      rcases h with h | h
      · cases h
        exact ⟨hf, by simp⟩
      · obtain ⟨h1, h2⟩ := mem_zip_sel f ps is p i h
        exact ⟨h1, by simp [h2]⟩

/-- position `i` of a restricted grid: a step of the grid whose start point lies in the window -/
theorem restricted_pair (g : Grid) (gs ge : Int) (hor : Horizon g gs ge) (w : Win) (i : Nat)
    (hp : i < (restrictWin g gs ge w).pts.length) (hi : i < (restrictWin g gs ge w).idx.length) :
    ((restrictWin g gs ge w).pts.getD i 0, (restrictWin g gs ge w).idx.getD i 0) ∈ g.pts.zip g.idx ∧
    hasPt w ((restrictWin g gs ge w).pts.getD i 0) = true := by
  have hmem : ((restrictWin g gs ge w).pts.getD i 0, (restrictWin g gs ge w).idx.getD i 0) ∈
      (restrictWin g gs ge w).pts.zip (restrictWin g gs ge w).idx := by
    have hz : i < ((restrictWin g gs ge w).pts.zip (restrictWin g gs ge w).idx).length := by
      rw [List.length_zip]; omega
    have := List.getElem_mem hz
    rw [List.getElem_zip] at this
    simpa [List.getD_eq_getElem?_getD, List.getElem?_eq_getElem hp, List.getElem?_eq_getElem hi] using this
  have h := mem_zip_sel (win (w.1.getD gs) (w.2.getD ge)) g.pts g.idx _ _ hmem
  refine ⟨h.2, ?_⟩
  rw [← win_getD g gs ge hor w _ (List.of_mem_zip h.2).1]
  exact h.1

/-- an order book's mapping rows sit at steps of the grid it is given -/
theorem orderbook_leafInWindow (name node : String) (orders : List Order) (fe : Bool) :
    LeafInWindow (ε := BuildError) (fun g => buildOrderBook name node orders fe g) := by
  intro g P hg h m hm
  simp only [buildOrderBook] at h
  cases h
  obtain ⟨j, o, i, _, hi, rfl⟩ := OrderBook.mem_orderMapFrom name node fe g orders 0 m hm
  have hiT := (OrderBook.mem_coverPos g o i hi).1
  have hlen : i < g.idx.length := by rw [hg.1]; exact hiT
  simp only [orderRow, List.getD_eq_getElem?_getD, List.getElem?_eq_getElem hlen, Option.getD_some]
  exact List.getElem_mem hlen

/-- an order none of whose covered steps starts inside the window covers no step of the restricted grid -/
theorem coverPos_restricted_nil (g : Grid) (gs ge : Int) (hor : Horizon g gs ge) (w : Win) (o : Order)
    (h : ∀ p ∈ g.pts, hasPt w p = true → o.covers p = false) : coverPos (restrictWin g gs ge w) o = [] := by
  simp only [coverPos, Grid.select, List.filter_eq_nil_iff, List.mem_range]
  intro i hi
  have hp : i < (restrictWin g gs ge w).pts.length := hi
  have hmem : (restrictWin g gs ge w).pts.getD i 0 ∈ (restrictWin g gs ge w).pts := by
    rw [List.getD_eq_getElem?_getD, List.getElem?_eq_getElem hp]
    exact List.getElem_mem hp
  generalize (restrictWin g gs ge w).pts.getD i 0 = q at hmem ⊢
  rw [restrictWin_pts g gs ge hor, List.mem_filter] at hmem
  rw [h _ hmem.1 hmem.2]
  simp

theorem stub_leafInWindow (name node : String) : LeafInWindow (ε := ε) (stubBuilder name node none) := by
  intro g P _ h m hm
  simp only [stubBuilder] at h
  cases h
  simp only [stubProblem, List.mem_map] at hm
  obtain ⟨ti, hti, rfl⟩ := hm
  exact (List.mem_zipIdx hti).2.2 ▸ List.getElem_mem _

/-! ## when no TypeError can occur -/

/-- the date is absent or of the one form `aw` (zone-aware or not) -/
def dateOk (aw : Bool) : Option WDate → Bool
  | none => true
  | some (.naive _) => !aw
  | some (.aware _) => aw

def winOk (aw : Bool) (w : WinD) : Bool := dateOk aw w.1 && dateOk aw w.2

mutual
/-- all dates of the tree are of the one form `aw` -/
def TreeOk (aw : Bool) : WTree ε → Prop
  | .leaf w _ => winOk aw w = true
  | .scaled w _ base => winOk aw w = true ∧ TreeOk aw base
  | .structured w _ _ inner => winOk aw w = true ∧ TreeOkL aw inner
def TreeOkL (aw : Bool) : List (WTree ε) → Prop
  | [] => True
  | c :: cs => TreeOk aw c ∧ TreeOkL aw cs
end

theorem treeOk_win (aw : Bool) (t : WTree ε) (h : TreeOk aw t) : winOk aw t.win = true := by
  cases t <;> simp only [TreeOk] at h
  · exact h
  · exact h.1
  · exact h.1

theorem clipStartD_ok (aw : Bool) (own wr : Option WDate) (h1 : dateOk aw own = true) (h2 : dateOk aw wr = true) :
    ∃ c, clipStartD own wr = some c ∧ dateOk aw c = true := by
  cases wr with
  | none => exact ⟨own, by cases own <;> rfl, h1⟩
  | some w =>
    cases own with
    | none => exact ⟨some w, rfl, h2⟩
    | some o =>
      cases o <;> cases w <;> cases aw <;> simp [dateOk] at h1 h2 <;>
        simp only [clipStartD, maxD, WDate.lt?] <;> split <;> simp_all [dateOk]

theorem clipStopD_ok (aw : Bool) (own wr : Option WDate) (h1 : dateOk aw own = true) (h2 : dateOk aw wr = true) :
    ∃ c, clipStopD own wr = some c ∧ dateOk aw c = true := by
  cases wr with
  | none => exact ⟨own, by cases own <;> rfl, h1⟩
  | some w =>
    cases own with
    | none => exact ⟨some w, rfl, h2⟩
    | some o =>
      cases o <;> cases w <;> cases aw <;> simp [dateOk] at h1 h2 <;>
        simp only [clipStopD, minD, WDate.lt?] <;> split <;> simp_all [dateOk]

theorem optInst?_ok (env : Env) (aw : Bool) (hA : aw = true → env.aware = true) (d : Option WDate) (h : dateOk aw d = true) :
    ∃ x, env.optInst? d = some x := by
  cases d with
  | none => exact ⟨none, rfl⟩
  | some d =>
    cases d with
    | naive w => exact ⟨some (env.loc w), rfl⟩
    | aware t =>
      have : env.aware = true := hA (by simpa [dateOk] using h)
      exact ⟨some t, by simp [Env.optInst?, Env.inst?, this]⟩

theorem instWin?_ok (env : Env) (aw : Bool) (hA : aw = true → env.aware = true) (w : WinD) (h : winOk aw w = true) :
    ∃ wi, env.instWin? w = some wi := by
  simp only [winOk, Bool.and_eq_true] at h
  obtain ⟨s, hs⟩ := optInst?_ok env aw hA w.1 h.1
  obtain ⟨e, he⟩ := optInst?_ok env aw hA w.2 h.2
  exact ⟨(s, e), by simp [Env.instWin?, hs, he]⟩

theorem clipStep_ok (env : Env) (aw : Bool) (hA : aw = true → env.aware = true) (w a : WinD)
    (hw : winOk aw w = true) (ha : winOk aw a = true) :
    ∃ a' wi, clipStep env w a = (a', some wi) ∧ winOk aw a' = true := by
  simp only [winOk, Bool.and_eq_true] at hw ha
  obtain ⟨s, hs, hs'⟩ := clipStartD_ok aw a.1 w.1 ha.1 hw.1
  obtain ⟨e, he, he'⟩ := clipStopD_ok aw a.2 w.2 ha.2 hw.2
  have hok : winOk aw (s, e) = true := by simp [winOk, hs', he']
  obtain ⟨wi, hwi⟩ := instWin?_ok env aw hA (s, e) hok
  exact ⟨(s, e), wi, by simp [clipStep, hs, he, hwi], hok⟩

theorem clipLoop_runs (env : Env) (aw : Bool) (hA : aw = true → env.aware = true) (w : WinD) (path : List Nat)
    (hw : winOk aw w = true) : ∀ (as : List WinD) (i : Nat), (∀ a ∈ as, winOk aw a = true) →
      ∃ curs evs, clipLoop env w path as i = (curs, evs, true) ∧ ∀ c ∈ curs, winOk aw c = true
  | [], i, _ => ⟨[], [], rfl, by simp⟩
  | a :: as, i, h => by
    obtain ⟨a', wi, hstep, hok⟩ := clipStep_ok env aw hA w a hw (h a (by simp))
    obtain ⟨curs, evs, hloop, hall⟩ := clipLoop_runs env aw hA w path hw as (i + 1) (fun b hb => h b (by simp [hb]))
    refine ⟨a' :: curs, (path ++ [i], wi) :: evs, by simp [clipLoop, hstep, hloop], ?_⟩
    intro c hc
    rcases List.mem_cons.mp hc with rfl | hc
    · exact hok
    · exact hall c hc

theorem treeOkL_wins (aw : Bool) : ∀ (ts : List (WTree ε)), TreeOkL aw ts → ∀ a ∈ ts.map (·.win), winOk aw a = true
  | [], _, a, ha => by simp at ha
  | t :: ts, h, a, ha => by
    simp only [TreeOkL] at h
    simp only [List.map_cons, List.mem_cons] at ha
    rcases ha with rfl | ha
    · exact treeOk_win aw t h.1
    · exact treeOkL_wins aw ts h.2 a ha

mutual
/-- **no TypeError** when all dates of the tree are of one form (all without zone, or all zone-aware on a grid with zone) -/
theorem setupL_no_type (env : Env) (aw : Bool) (hA : aw = true → env.aware = true) :
    ∀ (t : WTree ε) (cur : WinD) (path : List Nat), TreeOk aw t → winOk aw cur = true →
      ∀ e, (setupL env t cur path).res = .error e → ∃ b, e = .build b
  | .leaf w b, cur, path, _, hc, e, h => by
    rw [setupL] at h
    obtain ⟨wi, hwi⟩ := instWin?_ok env aw hA cur hc
    simp only [hwi] at h
    split at h
    · cases h
    · cases h; exact ⟨_, rfl⟩
  | .scaled w p base, cur, path, ht, hc, e, h => by
    rw [setupL] at h
    simp only [TreeOk] at ht
    have hb := treeOk_win aw base ht.2
    simp only [winOk, Bool.and_eq_true] at hb hc
    obtain ⟨s, hs, hs'⟩ := clipStartD_ok aw base.win.1 cur.1 hb.1 hc.1
    obtain ⟨e', he, he'⟩ := clipStopD_ok aw base.win.2 cur.2 hb.2 hc.2
    have hok : winOk aw (s, e') = true := by simp [winOk, hs', he']
    have ih := setupL_no_type env aw hA base (s, e') (path ++ [0]) ht.2 hok
    obtain ⟨wi, hwi⟩ := instWin?_ok env aw hA cur (by simp [winOk, hc.1, hc.2])
    simp only [hs, he, hwi] at h
    split at h
    · rename_i err herr
      cases h
      exact ih _ herr
    · cases h
  | .structured w name ext inner, cur, path, ht, hc, e, h => by
    rw [setupL] at h
    simp only [TreeOk] at ht
    obtain ⟨wi, hwi⟩ := instWin?_ok env aw hA cur hc
    obtain ⟨curs, evs, hloop, hall⟩ := clipLoop_runs env aw hA cur path hc (inner.map (·.win)) 0 (treeOkL_wins aw inner ht.2)
    simp only [hwi, hloop] at h
    have ih := setupList_no_type env aw hA inner curs path 0 ht.2 hall
    split at h
    · rename_i err herr
      cases h
      exact ih _ herr
    · cases h
theorem setupList_no_type (env : Env) (aw : Bool) (hA : aw = true → env.aware = true) :
    ∀ (ts : List (WTree ε)) (curs : List WinD) (path : List Nat) (i : Nat), TreeOkL aw ts → (∀ c ∈ curs, winOk aw c = true) →
      ∀ e, (setupList env ts curs path i).res = .error e → ∃ b, e = .build b
  | [], curs, path, i, _, _, e, h => by
    rw [setupList] at h
    cases h
  | t :: ts, curs, path, i, ht, hc, e, h => by
    rw [setupList] at h
    simp only [TreeOkL] at ht
    have hhead : winOk aw (curs.headD t.win) = true := by
      cases curs with
      | nil => exact treeOk_win aw t ht.1
      | cons c cs => exact hc c (by simp)
    have htail : ∀ c ∈ curs.tail, winOk aw c = true := fun c hcm => hc c (List.mem_of_mem_tail hcm)
    have ih1 := setupL_no_type env aw hA t (curs.headD t.win) (path ++ [i]) ht.1 hhead
    have ih2 := setupList_no_type env aw hA ts curs.tail path (i + 1) ht.2 htail
    simp only at h
    split at h
    · rename_i err herr
      cases h
      exact ih1 _ herr
    · split at h
      · rename_i err herr
        cases h
        exact ih2 _ herr
      · cases h
end

end EAO.WrapWindow
