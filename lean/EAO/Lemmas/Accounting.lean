import EAO.Model.Assemble
import EAO.Model.Readout
import EAO.Lemmas.Nodal
/-! helper lemmas for value accounting (C04): first rows per variable, regrouping of the DCF
    table by step, the block of one asset inside the assembled cost vector / mapping -/
namespace EAO

/-! ### elementary sums over `Rat` -/

theorem sum_map_add {α} (l : List α) (f g : α → Rat) :
    (l.map fun a => f a + g a).sum = (l.map f).sum + (l.map g).sum := by
  induction l with
  | nil => simp
  | cons a l ih => simp only [List.map_cons, List.sum_cons, ih]; grind

theorem sum_map_neg {α} (l : List α) (f : α → Rat) :
    (l.map fun a => - f a).sum = - (l.map f).sum := by
  induction l with
  | nil => simp
  | cons a l ih => simp only [List.map_cons, List.sum_cons, ih]; grind

/-- `Σ_{j<n} [j = j0]·v = v` for `j0 < n` -/
theorem sum_range_indicator (n j0 : Nat) (h : j0 < n) (v : Rat) :
    ((List.range n).map fun j => if j = j0 then v else 0).sum = v := by
  induction n with
  | zero => omega
  | succ n ih =>
    rw [List.range_succ, List.map_append, List.sum_append]
    simp only [List.map_cons, List.map_nil, List.sum_cons, List.sum_nil]
    by_cases hj : j0 = n
    · subst hj
      have : ((List.range j0).map fun j => if j = j0 then v else 0)
          = (List.range j0).map fun _ => (0 : Rat) := by
        apply List.map_congr_left
        intro j hj
        have : j ≠ j0 := by have := List.mem_range.mp hj; omega
        simp [this]
      rw [this, sum_map_zero]
      simp
      grind
    · have hlt : j0 < n := by omega
      rw [ih hlt]
      have : ¬ n = j0 := fun h => hj h.symm
      simp [this]
      grind

/-! ### regrouping by step -/

theorem sum_steps_lt (L : List MapRow) (f : MapRow → Rat) (T : Nat) :
    ((List.range T).map fun t => ((L.filter fun m => m.step == t).map f).sum).sum
      = ((L.filter fun m => decide (m.step < T)).map f).sum := by
  induction T with
  | zero => simp
  | succ T ih =>
    rw [List.range_succ, List.map_append, List.sum_append, ih]
    simp only [List.map_cons, List.map_nil, List.sum_cons, List.sum_nil]
    clear ih
    induction L with
    | nil => simp; grind
    | cons m L ihL =>
      simp only [List.filter_cons]
      by_cases h1 : m.step < T
      · have h2 : ¬ m.step = T := by omega
        have h3 : m.step < T + 1 := by omega
        simp only [h1, h2, h3, decide_true, decide_false, beq_iff_eq, if_true, if_false,
          List.map_cons, List.sum_cons] at ihL ⊢
        grind
      · by_cases h2 : m.step = T
        · have h3 : m.step < T + 1 := by omega
          simp only [h1, h2, h3, decide_true, decide_false, beq_iff_eq, if_true, if_false,
            List.map_cons, List.sum_cons] at ihL ⊢
          grind
        · have h3 : ¬ m.step < T + 1 := by omega
          simp only [h1, h2, h3, decide_true, decide_false, beq_iff_eq, if_true, if_false,
            List.map_cons, List.sum_cons] at ihL ⊢
          grind

/-- summing the per-step groups over all steps `< T` gives the whole list when all steps are `< T` -/
theorem sum_steps_all (L : List MapRow) (f : MapRow → Rat) (T : Nat) (hL : ∀ m ∈ L, m.step < T) :
    ((List.range T).map fun t => ((L.filter fun m => m.step == t).map f).sum).sum = (L.map f).sum := by
  rw [sum_steps_lt]
  congr 2
  apply List.filter_eq_self.mpr
  intro m hm
  simp [hL m hm]

end EAO
