import EAO.Model.Assemble
import EAO.Model.Readout
import EAO.Lemmas.Nodal
/-! helper lemmas for value accounting (C04): first rows per variable, regrouping of the DCF
    table by step, the block of one asset inside the assembled cost vector / mapping -/
namespace EAO

/-! ### elementary sums over `Rat` -/

theorem sum_map_add {α} (l : List α) (f g : α → Rat) :
    (l.map fun a => f a + g a).sum = (l.map f).sum + (l.map g).sum := by
  induction l with
  | nil => simp; grind
  | cons a l ih => simp only [List.map_cons, List.sum_cons, ih]; grind

theorem acc_sum_map_neg {α} (l : List α) (f : α → Rat) :
    (l.map fun a => - f a).sum = - (l.map f).sum := by
  induction l with
  | nil => simp
  | cons a l ih => simp only [List.map_cons, List.sum_cons, ih]; grind

/-- `Σ_{j<n} [j = j0]·v = v` for `j0 < n` -/
theorem sum_range_indicator (n j0 : Nat) (h : j0 < n) (v : Rat) :
    ((List.range n).map fun j => if j = j0 then v else 0).sum = v := by
  induction n with
  | zero => omega
  | succ n ih =>
    rw [List.range_succ, List.map_append, List.sum_append]
    simp only [List.map_cons, List.map_nil, List.sum_cons, List.sum_nil]
    by_cases hj : j0 = n
    · subst hj
      have : ((List.range j0).map fun j => if j = j0 then v else 0)
          = (List.range j0).map fun _ => (0 : Rat) := by
        apply List.map_congr_left
        intro j hj
        have : j ≠ j0 := by have := List.mem_range.mp hj; omega
        simp [this]
      rw [this, sum_map_zero]
      simp
      grind
    · have hlt : j0 < n := by omega
      rw [ih hlt]
      have : ¬ n = j0 := fun h => hj h.symm
      simp [this]
      grind

/-! ### regrouping by step -/

set_option linter.unusedSimpArgs false in
theorem sum_steps_lt (L : List MapRow) (f : MapRow → Rat) (T : Nat) :
    ((List.range T).map fun t => ((L.filter fun m => m.step == t).map f).sum).sum
      = ((L.filter fun m => decide (m.step < T)).map f).sum := by
  induction T with
  | zero =>
    have : List.filter (fun m : MapRow => decide (m.step < 0)) L = [] := by simp
    rw [this]; simp
  | succ T ih =>
    rw [List.range_succ, List.map_append, List.sum_append, ih]
    simp only [List.map_cons, List.map_nil, List.sum_cons, List.sum_nil]
    clear ih
    induction L with
    | nil => simp; grind
    | cons m L ihL =>
      simp only [List.filter_cons]
      by_cases h1 : m.step < T
      · have h2 : ¬ m.step = T := by omega
        have h3 : m.step < T + 1 := by omega
        simp only [h1, h2, h3, decide_true, decide_false, beq_iff_eq, if_true, if_false,
          List.map_cons, List.sum_cons] at ihL ⊢
        grind
      · by_cases h2 : m.step = T
        · have h3 : m.step < T + 1 := by omega
          simp only [h1, h2, h3, decide_true, decide_false, beq_iff_eq, if_true, if_false,
            List.map_cons, List.sum_cons] at ihL ⊢
          grind
        · have h3 : ¬ m.step < T + 1 := by omega
          simp only [h1, h2, h3, decide_true, decide_false, beq_iff_eq, if_true, if_false,
            List.map_cons, List.sum_cons] at ihL ⊢
          grind

/-- summing the per-step groups over all steps `< T` gives the whole list when all steps are `< T` -/
theorem sum_steps_all (L : List MapRow) (f : MapRow → Rat) (T : Nat) (hL : ∀ m ∈ L, m.step < T) :
    ((List.range T).map fun t => ((L.filter fun m => m.step == t).map f).sum).sum = (L.map f).sum := by
  rw [sum_steps_lt]
  congr 2
  apply List.filter_eq_self.mpr
  intro m hm
  simp [hL m hm]

/-! ### first rows per variable -/

/-- the sum of a function of the variable over the first rows equals the sum over the variables of
    the block `[off, off+n)` that occur in `M` and are not yet `seen` -/
theorem firstRows_sum (g : Nat → Rat) (off n : Nat) (M : List MapRow) (seen : List Nat)
    (hM : ∀ m ∈ M, ∃ j, j < n ∧ m.var = off + j) :
    ((firstRows M seen).map fun m => g m.var).sum
      = ((List.range n).map fun j =>
          if (off + j) ∉ seen ∧ (off + j) ∈ M.map (·.var) then g (off + j) else 0).sum := by
  induction M generalizing seen with
  | nil => simp [firstRows, sum_map_zero]
  | cons m M ih =>
    have hM' : ∀ m' ∈ M, ∃ j, j < n ∧ m'.var = off + j := fun m' hm' => hM m' (by simp [hm'])
    obtain ⟨j0, hj0, hv⟩ := hM m (by simp)
    unfold firstRows
    by_cases hs : seen.contains m.var = true
    · rw [if_pos hs, ih seen hM']
      congr 1
      apply List.map_congr_left
      intro j _
      have hmem : m.var ∈ seen := by simpa using hs
      by_cases hjs : off + j ∈ seen
      · simp [hjs]
      · have hne : ¬ off + j = m.var := fun h => hjs (h ▸ hmem)
        simp [hjs, hne]
    · rw [if_neg hs]
      simp only [List.map_cons, List.sum_cons]
      rw [ih (m.var :: seen) hM']
      have hmem : m.var ∉ seen := by simpa using hs
      rw [← sum_range_indicator n j0 hj0 (g m.var), ← sum_map_add]
      congr 1
      apply List.map_congr_left
      intro j _
      by_cases hj : j = j0
      · subst hj
        simp [← hv, hmem]
        grind
      · have hne : ¬ off + j = m.var := by omega
        simp [hj, hne]
        grind

/-- with nothing seen, and `g` vanishing on the variables of the block without a row, the sum over
    the first rows is the sum over the whole block -/
theorem firstRows_sum_block (g : Nat → Rat) (off n : Nat) (M : List MapRow)
    (hM : ∀ m ∈ M, ∃ j, j < n ∧ m.var = off + j)
    (hz : ∀ j, j < n → (∀ m ∈ M, m.var ≠ off + j) → g (off + j) = 0) :
    ((firstRows M []).map fun m => g m.var).sum = ((List.range n).map fun j => g (off + j)).sum := by
  rw [firstRows_sum g off n M [] hM]
  congr 1
  apply List.map_congr_left
  intro j hj
  by_cases h : (off + j) ∈ M.map (·.var)
  · simp [h]
  · have : g (off + j) = 0 := by
      apply hz j (List.mem_range.mp hj)
      intro m hm hmv
      exact h (List.mem_map.mpr ⟨m, hm, hmv⟩)
    simp [h, this]

/-! ### `costAt` -/

theorem costAt_append' (c₁ c₂ : List Rat) (off : Nat) (x : Vec) :
    costAt (c₁ ++ c₂) off x = costAt c₁ off x + costAt c₂ (off + c₁.length) x := by
  induction c₁ generalizing off with
  | nil => simp [costAt]; grind
  | cons c cs ih =>
    simp only [List.cons_append, costAt, ih, List.length_cons]
    have : off + 1 + cs.length = off + (cs.length + 1) := by omega
    rw [this]
    grind

theorem costAt_eq_sum_range (c : List Rat) (off : Nat) (x : Vec) :
    costAt c off x = ((List.range c.length).map fun j => c.getD j 0 * x (off + j)).sum := by
  induction c generalizing off with
  | nil => simp [costAt]
  | cons c cs ih =>
    rw [List.length_cons, List.range_succ_eq_map]
    simp only [costAt, List.map_cons, List.sum_cons, List.map_map, ih]
    congr 2
    apply List.map_congr_left
    intro j _
    simp only [Function.comp, List.getD_cons_succ]
    congr 2
    omega

theorem mem_firstRows (M : List MapRow) (seen : List Nat) (m : MapRow)
    (hm : m ∈ firstRows M seen) : m ∈ M := by
  induction M generalizing seen with
  | nil => simp [firstRows] at hm
  | cons m' M ih =>
    unfold firstRows at hm
    split at hm
    · exact List.mem_cons_of_mem _ (ih _ hm)
    · rcases List.mem_cons.mp hm with h | h
      · exact h ▸ List.mem_cons_self
      · exact List.mem_cons_of_mem _ (ih _ h)

/-! ### the block of one asset inside the assembled problem -/

@[simp] theorem assemble_c (as : List AssetProblem) (gridI : List Nat) (skip : List String) :
    (assemble as gridI skip).c = (assembleFrom 0 as).c := rfl

/-- the cost vector does not depend on the running offset -/
theorem assembleFrom_c_cons (off : Nat) (a : AssetProblem) (as : List AssetProblem) :
    (assembleFrom off (a :: as)).c = a.c ++ (assembleFrom (off + a.n) as).c := rfl

theorem assembleFrom_mapping_cons (off : Nat) (a : AssetProblem) (as : List AssetProblem) :
    (assembleFrom off (a :: as)).mapping
      = a.mapping.map (MapRow.shift off) ++ (assembleFrom (off + a.n) as).mapping := rfl

/-- the rows of the concatenated mapping carrying the name of one asset are exactly the shifted
    rows of that asset (names distinct, rows carry their asset's name) -/
theorem filter_assembleFrom_mapping (pre suf : List AssetProblem) (a : AssetProblem) (off : Nat)
    (hnd : ((pre ++ a :: suf).map (·.name)).Nodup)
    (hname : ∀ b ∈ pre ++ a :: suf, ∀ m ∈ b.mapping, m.asset = b.name) :
    (assembleFrom off (pre ++ a :: suf)).mapping.filter (fun m => m.asset == a.name)
      = a.mapping.map (MapRow.shift (off + (pre.map (·.n)).sum)) := by
  induction pre generalizing off with
  | nil =>
    rw [List.nil_append, assembleFrom_mapping_cons, List.filter_append]
    have h1 : (a.mapping.map (MapRow.shift off)).filter (fun m => m.asset == a.name)
        = a.mapping.map (MapRow.shift off) := by
      apply List.filter_eq_self.mpr
      intro m hm
      obtain ⟨m', hm', rfl⟩ := List.mem_map.mp hm
      simp [hname a (by simp) m' hm']
    have h2 : (assembleFrom (off + a.n) suf).mapping.filter (fun m => m.asset == a.name) = [] := by
      apply List.filter_eq_nil_iff.mpr
      intro m hm
      obtain ⟨b, hb, m', hm', o, rfl⟩ := mem_assembleFrom_mapping suf _ m hm
      have hb' : b.name ∈ suf.map (·.name) := List.mem_map.mpr ⟨b, hb, rfl⟩
      have hnot : a.name ∉ suf.map (·.name) := by
        simp only [List.nil_append, List.map_cons] at hnd
        exact (List.nodup_cons.mp hnd).1
      rw [shift_asset, hname b (by simp [hb]) m' hm']
      intro h
      have : b.name = a.name := by simpa using h
      exact hnot (this ▸ hb')
    rw [h1, h2]
    simp
  | cons b pre ih =>
    rw [List.cons_append, assembleFrom_mapping_cons, List.filter_append]
    have hnd' : ((pre ++ a :: suf).map (·.name)).Nodup := by
      simp only [List.cons_append, List.map_cons] at hnd
      exact (List.nodup_cons.mp hnd).2
    have hne : b.name ≠ a.name := by
      simp only [List.cons_append, List.map_cons] at hnd
      have hnot := (List.nodup_cons.mp hnd).1
      intro h
      apply hnot
      rw [h]
      exact List.mem_map.mpr ⟨a, by simp, rfl⟩
    have h1 : (b.mapping.map (MapRow.shift off)).filter (fun m => m.asset == a.name) = [] := by
      apply List.filter_eq_nil_iff.mpr
      intro m hm
      obtain ⟨m', hm', rfl⟩ := List.mem_map.mp hm
      rw [shift_asset, hname b (by simp) m' hm']
      simpa using hne
    rw [h1, ih (off + b.n) hnd' (fun b' hb' => hname b' (by simp [List.cons_append, hb']))]
    simp only [List.nil_append, List.map_cons, List.sum_cons]
    congr 2
    omega

theorem assembleFrom_c_getD (pre suf : List AssetProblem) (a : AssetProblem) (off j : Nat)
    (hj : j < a.n) :
    (assembleFrom off (pre ++ a :: suf)).c.getD ((pre.map (·.n)).sum + j) 0 = a.c.getD j 0 := by
  induction pre generalizing off with
  | nil =>
    rw [List.nil_append, assembleFrom_c_cons]
    simp only [List.map_nil, List.sum_nil, Nat.zero_add]
    unfold AssetProblem.n at hj
    simp [List.getD_eq_getElem?_getD, List.getElem?_append_left hj]
  | cons b pre ih =>
    rw [List.cons_append, assembleFrom_c_cons]
    simp only [List.map_cons, List.sum_cons]
    have hle : b.c.length ≤ b.n + (pre.map (·.n)).sum + j := by unfold AssetProblem.n; omega
    rw [List.getD_eq_getElem?_getD, List.getElem?_append_right hle, ← List.getD_eq_getElem?_getD]
    have : b.n + (pre.map (·.n)).sum + j - b.c.length = (pre.map (·.n)).sum + j := by
      unfold AssetProblem.n; omega
    rw [this]
    exact ih (off + b.n)

/-- **per asset (decomposition form)**: for the asset `a` at position `pre.length`, the DCF total
    is minus the cost of its block -/
theorem dcfTotal_block (pre suf : List AssetProblem) (a : AssetProblem) (T : Nat)
    (hnd : ((pre ++ a :: suf).map (·.name)).Nodup)
    (hmap : ∀ b ∈ pre ++ a :: suf, ∀ m ∈ b.mapping, m.asset = b.name ∧ m.var < b.n ∧ m.step < T)
    (hrowless : ∀ j, j < a.n → (∀ m ∈ a.mapping, m.var ≠ j) → a.c.getD j 0 = 0) (x : Vec) :
    dcfTotal (assembleFrom 0 (pre ++ a :: suf)).c (assembleFrom 0 (pre ++ a :: suf)).mapping a.name T x
      = - costAt a.c ((pre.map (·.n)).sum) x := by
  have ha : a ∈ pre ++ a :: suf := by simp
  unfold dcfTotal dcf assetFirstRows
  rw [filter_assembleFrom_mapping pre suf a 0 hnd (fun b hb m hm => (hmap b hb m hm).1)]
  simp only [Nat.zero_add]
  generalize hoff : (pre.map (·.n)).sum = off
  generalize hC : (assembleFrom 0 (pre ++ a :: suf)).c = C
  have hsteps : ∀ m ∈ firstRows (a.mapping.map (MapRow.shift off)) [], m.step < T := by
    intro m hm
    obtain ⟨m', hm', rfl⟩ := List.mem_map.mp (mem_firstRows _ _ m hm)
    rw [shift_step]
    exact (hmap a ha m' hm').2.2
  rw [sum_steps_all _ _ T hsteps]
  have hM : ∀ m ∈ a.mapping.map (MapRow.shift off), ∃ j, j < a.n ∧ m.var = off + j := by
    intro m hm
    obtain ⟨m', hm', rfl⟩ := List.mem_map.mp hm
    exact ⟨m'.var, (hmap a ha m' hm').2.1, rfl⟩
  have hCj : ∀ j, j < a.n → C.getD (off + j) 0 = a.c.getD j 0 := by
    intro j hj
    rw [← hC, ← hoff]
    exact assembleFrom_c_getD pre suf a 0 j hj
  have hz : ∀ j, j < a.n → (∀ m ∈ a.mapping.map (MapRow.shift off), m.var ≠ off + j) →
      (fun v => - (C.getD v 0) * x v) (off + j) = 0 := by
    intro j hj hno
    have : a.c.getD j 0 = 0 := by
      apply hrowless j hj
      intro m hm hv
      apply hno (m.shift off) (List.mem_map.mpr ⟨m, hm, rfl⟩)
      rw [shift_var, hv]
    show - (C.getD (off + j) 0) * x (off + j) = 0
    rw [hCj j hj, this]
    grind
  have key := firstRows_sum_block (fun v => - (C.getD v 0) * x v) off a.n
    (a.mapping.map (MapRow.shift off)) hM hz
  rw [key, costAt_eq_sum_range, ← acc_sum_map_neg]
  congr 1
  apply List.map_congr_left
  intro j hj
  show - (C.getD (off + j) 0) * x (off + j) = - (a.c.getD j 0 * x (off + j))
  rw [hCj j (List.mem_range.mp hj)]
  grind

/-- **sum over a suffix of the asset list**: the DCF totals of the assets of a suffix add up to minus
    the cost of the suffix' part of the cost vector -/
theorem dcfTotal_sum_suffix (as : List AssetProblem) (T : Nat)
    (hnd : (as.map (·.name)).Nodup)
    (hmap : ∀ b ∈ as, ∀ m ∈ b.mapping, m.asset = b.name ∧ m.var < b.n ∧ m.step < T)
    (hrowless : ∀ b ∈ as, ∀ j, j < b.n → (∀ m ∈ b.mapping, m.var ≠ j) → b.c.getD j 0 = 0) (x : Vec)
    (pre suf : List AssetProblem) (h : as = pre ++ suf) :
    (suf.map fun a => dcfTotal (assembleFrom 0 as).c (assembleFrom 0 as).mapping a.name T x).sum
      = - costAt (assembleFrom ((pre.map (·.n)).sum) suf).c ((pre.map (·.n)).sum) x := by
  induction suf generalizing pre with
  | nil => simp [assembleFrom, costAt]
  | cons a suf ih =>
    have h' : as = (pre ++ [a]) ++ suf := by rw [h]; simp
    have ih' := ih (pre ++ [a]) h'
    have hsum : (((pre ++ [a]).map (·.n)).sum) = (pre.map (·.n)).sum + a.n := by simp
    rw [hsum] at ih'
    rw [List.map_cons, List.sum_cons, ih', assembleFrom_c_cons, costAt_append']
    have hblock : dcfTotal (assembleFrom 0 as).c (assembleFrom 0 as).mapping a.name T x
        = - costAt a.c ((pre.map (·.n)).sum) x := by
      subst h
      exact dcfTotal_block pre suf a T hnd hmap (hrowless a (by simp)) x
    rw [hblock]
    show _ = - (costAt a.c _ x + costAt _ ((pre.map (·.n)).sum + a.n) x)
    grind

end EAO
