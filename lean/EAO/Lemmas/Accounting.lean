import EAO.Model.Assemble
import EAO.Model.Readout
import EAO.Lemmas.Nodal
/-! helper lemmas for value accounting (C04): first rows per variable, regrouping of the DCF
    table by step, the block of one asset inside the assembled cost vector / mapping -/
namespace EAO

/-! ### elementary sums over `Rat` -/

theorem sum_map_add {α} (l : List α) (f g : α → Rat) :
    (l.map fun a => f a + g a).sum = (l.map f).sum + (l.map g).sum := by
  induction l with
  | nil => simp; grind
  | cons a l ih => simp only [List.map_cons, List.sum_cons, ih]; grind

theorem sum_map_neg {α} (l : List α) (f : α → Rat) :
    (l.map fun a => - f a).sum = - (l.map f).sum := by
  induction l with
  | nil => simp
  | cons a l ih => simp only [List.map_cons, List.sum_cons, ih]; grind

/-- `Σ_{j<n} [j = j0]·v = v` for `j0 < n` -/
theorem sum_range_indicator (n j0 : Nat) (h : j0 < n) (v : Rat) :
    ((List.range n).map fun j => if j = j0 then v else 0).sum = v := by
  induction n with
  | zero => omega
  | succ n ih =>
    rw [List.range_succ, List.map_append, List.sum_append]
    simp only [List.map_cons, List.map_nil, List.sum_cons, List.sum_nil]
    by_cases hj : j0 = n
    · subst hj
      have : ((List.range j0).map fun j => if j = j0 then v else 0)
          = (List.range j0).map fun _ => (0 : Rat) := by
        apply List.map_congr_left
        intro j hj
        have : j ≠ j0 := by have := List.mem_range.mp hj; omega
        simp [this]
      rw [this, sum_map_zero]
      simp
      grind
    · have hlt : j0 < n := by omega
      rw [ih hlt]
      have : ¬ n = j0 := fun h => hj h.symm
      simp [this]
      grind

/-! ### regrouping by step -/

set_option linter.unusedSimpArgs false in
theorem sum_steps_lt (L : List MapRow) (f : MapRow → Rat) (T : Nat) :
    ((List.range T).map fun t => ((L.filter fun m => m.step == t).map f).sum).sum
      = ((L.filter fun m => decide (m.step < T)).map f).sum := by
  induction T with
  | zero =>
    have : List.filter (fun m : MapRow => decide (m.step < 0)) L = [] := by simp
    rw [this]; simp
  | succ T ih =>
    rw [List.range_succ, List.map_append, List.sum_append, ih]
    simp only [List.map_cons, List.map_nil, List.sum_cons, List.sum_nil]
    clear ih
    induction L with
    | nil => simp; grind
    | cons m L ihL =>
      simp only [List.filter_cons]
      by_cases h1 : m.step < T
      · have h2 : ¬ m.step = T := by omega
        have h3 : m.step < T + 1 := by omega
        simp only [h1, h2, h3, decide_true, decide_false, beq_iff_eq, if_true, if_false,
          List.map_cons, List.sum_cons] at ihL ⊢
        grind
      · by_cases h2 : m.step = T
        · have h3 : m.step < T + 1 := by omega
          simp only [h1, h2, h3, decide_true, decide_false, beq_iff_eq, if_true, if_false,
            List.map_cons, List.sum_cons] at ihL ⊢
          grind
        · have h3 : ¬ m.step < T + 1 := by omega
          simp only [h1, h2, h3, decide_true, decide_false, beq_iff_eq, if_true, if_false,
            List.map_cons, List.sum_cons] at ihL ⊢
          grind

/-- summing the per-step groups over all steps `< T` gives the whole list when all steps are `< T` -/
theorem sum_steps_all (L : List MapRow) (f : MapRow → Rat) (T : Nat) (hL : ∀ m ∈ L, m.step < T) :
    ((List.range T).map fun t => ((L.filter fun m => m.step == t).map f).sum).sum = (L.map f).sum := by
  rw [sum_steps_lt]
  congr 2
  apply List.filter_eq_self.mpr
  intro m hm
  simp [hL m hm]

/-! ### first rows per variable -/

/-- the sum of a function of the variable over the first rows equals the sum over the variables of
    the block `[off, off+n)` that occur in `M` and are not yet `seen` -/
theorem firstRows_sum (g : Nat → Rat) (off n : Nat) (M : List MapRow) (seen : List Nat)
    (hM : ∀ m ∈ M, ∃ j, j < n ∧ m.var = off + j) :
    ((firstRows M seen).map fun m => g m.var).sum
      = ((List.range n).map fun j =>
          if (off + j) ∉ seen ∧ (off + j) ∈ M.map (·.var) then g (off + j) else 0).sum := by
  induction M generalizing seen with
  | nil => simp [firstRows, sum_map_zero]
  | cons m M ih =>
    have hM' : ∀ m' ∈ M, ∃ j, j < n ∧ m'.var = off + j := fun m' hm' => hM m' (by simp [hm'])
    obtain ⟨j0, hj0, hv⟩ := hM m (by simp)
    unfold firstRows
    by_cases hs : seen.contains m.var = true
    · rw [if_pos hs, ih seen hM']
      congr 1
      apply List.map_congr_left
      intro j _
      have hmem : m.var ∈ seen := by simpa using hs
      by_cases hjs : off + j ∈ seen
      · simp [hjs]
      · have hne : ¬ off + j = m.var := fun h => hjs (h ▸ hmem)
        simp [hjs, hne]
    · rw [if_neg hs]
      simp only [List.map_cons, List.sum_cons]
      rw [ih (m.var :: seen) hM']
      have hmem : m.var ∉ seen := by simpa using hs
      rw [← sum_range_indicator n j0 hj0 (g m.var), ← sum_map_add]
      congr 1
      apply List.map_congr_left
      intro j _
      by_cases hj : j = j0
      · subst hj
        simp [← hv, hmem]
        grind
      · have hne : ¬ off + j = m.var := by omega
        simp [hj, hne]
        grind

/-- with nothing seen, and `g` vanishing on the variables of the block without a row, the sum over
    the first rows is the sum over the whole block -/
theorem firstRows_sum_block (g : Nat → Rat) (off n : Nat) (M : List MapRow)
    (hM : ∀ m ∈ M, ∃ j, j < n ∧ m.var = off + j)
    (hz : ∀ j, j < n → (∀ m ∈ M, m.var ≠ off + j) → g (off + j) = 0) :
    ((firstRows M []).map fun m => g m.var).sum = ((List.range n).map fun j => g (off + j)).sum := by
  rw [firstRows_sum g off n M [] hM]
  congr 1
  apply List.map_congr_left
  intro j hj
  by_cases h : (off + j) ∈ M.map (·.var)
  · simp [h]
  · have : g (off + j) = 0 := by
      apply hz j (List.mem_range.mp hj)
      intro m hm hmv
      exact h (List.mem_map.mpr ⟨m, hm, hmv⟩)
    simp [h, this]

/-! ### `costAt` -/

theorem costAt_append' (c₁ c₂ : List Rat) (off : Nat) (x : Vec) :
    costAt (c₁ ++ c₂) off x = costAt c₁ off x + costAt c₂ (off + c₁.length) x := by
  induction c₁ generalizing off with
  | nil => simp [costAt]; grind
  | cons c cs ih =>
    simp only [List.cons_append, costAt, ih, List.length_cons]
    have : off + 1 + cs.length = off + (cs.length + 1) := by omega
    rw [this]
    grind

theorem costAt_eq_sum_range (c : List Rat) (off : Nat) (x : Vec) :
    costAt c off x = ((List.range c.length).map fun j => c.getD j 0 * x (off + j)).sum := by
  induction c generalizing off with
  | nil => simp [costAt]
  | cons c cs ih =>
    rw [List.length_cons, List.range_succ_eq_map]
    simp only [costAt, List.map_cons, List.sum_cons, List.map_map, ih]
    congr 2
    apply List.map_congr_left
    intro j _
    simp only [Function.comp, List.getD_cons_succ]
    congr 2
    omega

end EAO
