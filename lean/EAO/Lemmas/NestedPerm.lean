import EAO.Model.Structured
import EAO.Model.Scaled
import EAO.Model.Linked
import EAO.Model.WrapWindow
import EAO.Lemmas.Perm
import EAO.Lemmas.Structured
/-! helper lemmas for C09 inside wrappers (`EAO/Properties/C09Nested.lean`): what a structured asset shows to
    the portfolio around it (feasible set, cost, flow at its external nodes) in terms of the inner assembly;
    transport of a feasible point of an inner assembly along a list of corresponding blocks (permuted inner
    list, inner assets replaced by corresponding ones); the assembly commutes with any relabelling of mapping
    rows that keeps the dispatch tests; object trees equal up to the order of wrapped lists -/
namespace EAO.NestedPerm
open EAO EAO.Perm EAO.Structured

/-! ### what a structured asset shows to the outside -/

/-- the total of the dispatch contributions at (n,t) of a mapping table -/
def totalFlow (M : List MapRow) (n : String) (t : Nat) (x : Vec) : Rat :=
  ((M.filter (isDisp n t)).map (·.contrib x)).sum

/-- well-formedness and locality of an asset problem (`C09.WF` and `C09.Local` together) -/
structure Good (gridI : List Nat) (a : AssetProblem) : Prop where
  len_l : a.l.length = a.n
  len_u : a.u.length = a.n
  disp  : ∀ m ∈ a.mapping, ∀ n, m.kind = .d → m.node = some n → n ∈ a.nodes ∧ m.step ∈ gridI
  cols  : ∀ r ∈ a.rows, ∀ p ∈ r.coeffs, p.1 < a.n
  vars  : ∀ m ∈ a.mapping, m.kind = .d → m.var < a.n

/-- a wrapped row is a dispatch row at `n` iff it was one and `n` is external -/
theorem isDisp_structured (name : String) (ext : List String) (m : MapRow) (n : String) (t : Nat) :
    isDisp n t (structuredMapRow name ext m) = (isDisp n t m && ext.contains n) := by
  cases hnode : m.node with
  | none =>
    have h1 : isDisp n t m = false := by simp [isDisp, hnode]
    have h2 : isDisp n t (structuredMapRow name ext m) = false := by
      unfold structuredMapRow isDisp
      by_cases hv : (m.varName == "nan") = true <;> simp [hv, hnode]
    rw [h1, h2]; rfl
  | some nd =>
    by_cases he : nd ∈ ext
    · obtain ⟨hk, hn⟩ := structuredMapRow_of_ext name ext m nd hnode he
      unfold isDisp
      rw [hk, hn, hnode, structuredMapRow_step]
      by_cases hnn : nd = n
      · subst hnn; simp [he]
      · simp [hnn]
    · have h2 := structuredMapRow_of_inner_ne_d name ext m nd hnode he
      have h2' : isDisp n t (structuredMapRow name ext m) = false := by
        unfold isDisp; rw [h2]; rfl
      rw [h2']
      by_cases hnn : nd = n
      · subst hnn; simp [he]
      · simp [isDisp, hnode, hnn]

theorem structuredMapRow_contrib (name : String) (ext : List String) (m : MapRow) (x : Vec) :
    (structuredMapRow name ext m).contrib x = m.contrib x := by
  unfold MapRow.contrib
  rw [structuredMapRow_var, structuredMapRow_factor]

/-- flow of a structured asset into node `n`: the total inner flow at an external node, nothing elsewhere -/
theorem flowOf_structured (name : String) (ext : List String) (inner : List AssetProblem) (gridI : List Nat)
    (n : String) (t : Nat) (x : Vec) :
    flowOf (structured name ext inner gridI) n t x =
      if ext.contains n then totalFlow (assemble inner gridI ext).mapping n t x else 0 := by
  unfold flowOf structured totalFlow
  simp only [List.filter_map, List.map_map]
  have hfun : (isDisp n t ∘ structuredMapRow name ext) = fun m => isDisp n t m && ext.contains n := by
    funext m; exact isDisp_structured name ext m n t
  have hc : ((fun m : MapRow => m.contrib x) ∘ structuredMapRow name ext) = fun m => m.contrib x := by
    funext m; exact structuredMapRow_contrib name ext m x
  rw [hfun, hc]
  by_cases he : ext.contains n = true
  · rw [if_pos he]; simp only [he, Bool.and_true]
  · have he' : ext.contains n = false := by simpa using he
    rw [if_neg he]; simp only [he', Bool.and_false]
    rw [List.filter_eq_nil_iff.mpr (fun _ _ h => by cases h)]; rfl

theorem structured_feasible (name : String) (ext : List String) (inner : List AssetProblem) (gridI : List Nat)
    (x : Vec) :
    (structured name ext inner gridI).FeasibleRelaxed x ↔ (assemble inner gridI ext).FeasibleRelaxed x := by
  unfold AssetProblem.FeasibleRelaxed Problem.FeasibleRelaxed structured
  simp only [rows_nToS_sat]

theorem structured_c (name : String) (ext : List String) (inner : List AssetProblem) (gridI : List Nat) :
    (structured name ext inner gridI).c = (assemble inner gridI ext).c := rfl

theorem structured_n (name : String) (ext : List String) (inner : List AssetProblem) (gridI : List Nat) :
    (structured name ext inner gridI).n = (inner.map (·.n)).sum := by
  show (structured name ext inner gridI).c.length = _
  rw [structured_c, assemble_c, assembleFrom_c_length]

/-- dispatch rows of the concatenation point into the concatenated vector -/
theorem assembleFrom_disp_var (as : List AssetProblem) (off : Nat)
    (hv : ∀ a ∈ as, ∀ m ∈ a.mapping, m.kind = .d → m.var < a.n) :
    ∀ m ∈ (assembleFrom off as).mapping, m.kind = .d → m.var < off + (as.map (·.n)).sum := by
  induction as generalizing off with
  | nil => intro m hm; simp [assembleFrom] at hm
  | cons a rest ih =>
    intro m hm hk
    simp only [assembleFrom, List.mem_append, List.mem_map] at hm
    simp only [List.map_cons, List.sum_cons]
    rcases hm with ⟨m', hm', rfl⟩ | hm
    · have := hv a (by simp) m' hm' hk
      simp only [shift_var]; omega
    · have := ih (off + a.n) (fun b hb => hv b (by simp [hb])) m hm hk
      omega

/-- only dispatch rows are dispatch rows after wrapping -/
theorem structuredMapRow_kind_d (name : String) (ext : List String) (m : MapRow)
    (hk : (structuredMapRow name ext m).kind = .d) : m.kind = .d := by
  cases hnode : m.node with
  | none =>
    have : (structuredMapRow name ext m).kind = m.kind := by
      unfold structuredMapRow
      by_cases hv : (m.varName == "nan") = true <;> simp [hv, hnode]
    rw [← this]; exact hk
  | some nd =>
    by_cases he : nd ∈ ext
    · rw [← (structuredMapRow_of_ext name ext m nd hnode he).1]; exact hk
    · have := structuredMapRow_of_inner_ne_d name ext m nd hnode he
      rw [hk] at this; cases this

/-- the structured asset built from good inner problems is good -/
theorem good_structured (name : String) (ext : List String) (inner : List AssetProblem) (gridI : List Nat)
    (hg : ∀ a ∈ inner, Good gridI a) : Good gridI (structured name ext inner gridI) := by
  have hn := structured_n name ext inner gridI
  refine ⟨?_, ?_, ?_, ?_, ?_⟩
  · rw [hn]; show (assemble inner gridI ext).l.length = _
    rw [assemble_l, assembleFrom_l_length _ _ (fun a ha => (hg a ha).len_l)]
  · rw [hn]; show (assemble inner gridI ext).u.length = _
    rw [assemble_u, assembleFrom_u_length _ _ (fun a ha => (hg a ha).len_u)]
  · intro m hm n hk hnode
    obtain ⟨m0, hm0, rfl⟩ := List.mem_map.mp hm
    obtain ⟨hk0, hn0, he⟩ := structuredMapRow_disp name ext m0 n hk hnode
    refine ⟨he, ?_⟩
    rw [structuredMapRow_step]
    rw [assemble_mapping] at hm0
    obtain ⟨a, ha, m', hm', o, rfl⟩ := mem_assembleFrom_mapping inner 0 m0 hm0
    exact ((hg a ha).disp m' hm' n hk0 hn0).2
  · intro r hr p hp
    rw [hn]
    obtain ⟨r0, hr0, rfl⟩ := List.mem_map.mp hr
    rw [nToS_coeffs] at hp
    rw [assemble_rows] at hr0
    rcases List.mem_append.mp hr0 with h | h
    · have := (assembleFrom_cols inner 0 (fun a ha => (hg a ha).cols) r0 h p hp).2
      omega
    · obtain ⟨q, _, rfl⟩ := List.mem_map.mp h
      obtain ⟨m, hm, hd, rfl⟩ := mem_nodalRow_coeffs _ _ _ p hp
      have := assembleFrom_disp_var inner 0 (fun a ha => (hg a ha).vars) m hm ((isDisp_iff _ _ m).mp hd).1
      omega
  · intro m hm hk
    rw [hn]
    obtain ⟨m0, hm0, rfl⟩ := List.mem_map.mp hm
    rw [structuredMapRow_var]
    have hk0 : m0.kind = .d := structuredMapRow_kind_d name ext m0 hk
    rw [assemble_mapping] at hm0
    have := assembleFrom_disp_var inner 0 (fun a ha => (hg a ha).vars) m0 hm0 hk0
    omega

/-! ### transport of a feasible point along corresponding blocks -/

theorem totalFlow_assemble (as : List AssetProblem) (gridI : List Nat) (skip : List String)
    (n : String) (t : Nat) (x : Vec) :
    totalFlow (assemble as gridI skip).mapping n t x =
      ((pieces as x).map fun p => flowOf p.1 n t p.2).sum := by
  unfold totalFlow
  rw [assemble_mapping, assembleFrom_flow as 0 n t x]
  simp only [Nat.zero_add]
  exact sum_pieces (fun a y => flowOf a n t y) as x

theorem value_pieces (as : List AssetProblem) (gridI : List Nat) (skip : List String) (x : Vec) :
    (assemble as gridI skip).value x = ((pieces as x).map fun p => - costAt p.1.c 0 p.2).sum := by
  rw [value_eq]
  exact sum_pieces (fun a y => - costAt a.c 0 y) as x

/-- a quantity that only reads the own block, summed over the blocks of the glued point -/
theorem pieces_glue_sum (g : AssetProblem → Vec → Rat) (L : List (AssetProblem × Vec))
    (hgl : ∀ p ∈ L, ∀ y, (∀ j, j < p.1.n → y j = p.2 j) → g p.1 y = g p.1 p.2) :
    ((pieces (L.map (·.1)) (glue L)).map fun p => g p.1 p.2).sum = (L.map fun p => g p.1 p.2).sum := by
  rw [← sum_pieces g, List.length_map, map_range_glue g L hgl]

/-- **transport**: blocks `L'` (one feasible block per asset of `as'`) whose flows and costs add up to those
    of the blocks of a feasible point `x` of `assemble as`, glued together, are a feasible point of
    `assemble as'` with the same value and the same total flow at every (node, step) -/
theorem transport (as as' : List AssetProblem) (gridI : List Nat) (skip : List String)
    (hg : ∀ a ∈ as, Good gridI a) (hg' : ∀ a ∈ as', Good gridI a)
    (x : Vec) (hx : (assemble as gridI skip).FeasibleRelaxed x)
    (L' : List (AssetProblem × Vec)) (hmap : L'.map (·.1) = as')
    (hfeas : ∀ p ∈ L', p.1.FeasibleRelaxed p.2)
    (hflow : ∀ n t, (L'.map fun p => flowOf p.1 n t p.2).sum =
      ((pieces as x).map fun p => flowOf p.1 n t p.2).sum)
    (hcost : (L'.map fun p => - costAt p.1.c 0 p.2).sum =
      ((pieces as x).map fun p => - costAt p.1.c 0 p.2).sum) :
    (assemble as' gridI skip).FeasibleRelaxed (glue L') ∧
    (assemble as' gridI skip).value (glue L') = (assemble as gridI skip).value x ∧
    ∀ n t, totalFlow (assemble as' gridI skip).mapping n t (glue L') =
      totalFlow (assemble as gridI skip).mapping n t x := by
  subst hmap
  have hmemL : ∀ p ∈ L', p.1 ∈ L'.map (·.1) := fun p hp => List.mem_map.mpr ⟨p, hp, rfl⟩
  have hflowc : ∀ n t, ∀ p ∈ L', ∀ y, (∀ j, j < p.1.n → y j = p.2 j) →
      flowOf p.1 n t y = flowOf p.1 n t p.2 :=
    fun n t p hp y hy => flowOf_congr p.1 (hg' _ (hmemL p hp)).vars n t y p.2 hy
  have hcostc : ∀ p ∈ L', ∀ y, (∀ j, j < p.1.n → y j = p.2 j) →
      - costAt p.1.c 0 y = - costAt p.1.c 0 p.2 :=
    fun p _ y hy => by rw [cost_congr p.1 y p.2 hy]
  obtain ⟨_, hbal⟩ := (feasible_iff as gridI skip (fun a ha => ⟨(hg a ha).len_l, (hg a ha).len_u⟩)
    (fun a ha => (hg a ha).disp) x).mp hx
  refine ⟨?_, ?_, ?_⟩
  · rw [feasible_iff _ gridI skip (fun a ha => ⟨(hg' a ha).len_l, (hg' a ha).len_u⟩)
      (fun a ha => (hg' a ha).disp)]
    constructor
    · intro i hi
      have hi' : i < L'.length := by simpa using hi
      have hpi : L'[i] ∈ L' := List.getElem_mem hi'
      have hai := hmemL _ hpi
      rw [List.getElem_map]
      rw [feasibleRelaxed_congr (L'[i]).1 (hg' _ hai).len_l (hg' _ hai).cols _ (L'[i]).2
        (fun j hj => glue_block L' i hi' j hj)]
      exact hfeas _ hpi
    · intro n hs t
      rw [List.length_map, map_range_glue (fun a y => flowOf a n t y) L' (hflowc n t), hflow n t,
        ← sum_pieces (fun a y => flowOf a n t y)]
      exact hbal n hs t
  · rw [value_pieces, value_pieces, pieces_glue_sum (fun a y => - costAt a.c 0 y) L' hcostc, hcost]
  · intro n t
    rw [totalFlow_assemble, totalFlow_assemble, pieces_glue_sum (fun a y => flowOf a n t y) L' (hflowc n t),
      hflow n t]

/-- the blocks of a feasible point are feasible for their assets -/
theorem pieces_feasible (as : List AssetProblem) (gridI : List Nat) (skip : List String)
    (hg : ∀ a ∈ as, Good gridI a) (x : Vec) (hx : (assemble as gridI skip).FeasibleRelaxed x) :
    ∀ p ∈ pieces as x, p.1.FeasibleRelaxed p.2 := by
  obtain ⟨hf, _⟩ := (feasible_iff as gridI skip (fun a ha => ⟨(hg a ha).len_l, (hg a ha).len_u⟩)
    (fun a ha => (hg a ha).disp) x).mp hx
  intro p hp
  obtain ⟨k, hk, he⟩ := mem_pieces as x p hp
  rw [he]
  exact hf k hk

/-- **permutation of the list, with flows**: as `Perm.perm_core`, and the total flow at every (node, step)
    is kept too -/
theorem perm_transport (as as' : List AssetProblem) (hp : as.Perm as') (gridI : List Nat) (skip : List String)
    (hg : ∀ a ∈ as, Good gridI a) (x : Vec) (hx : (assemble as gridI skip).FeasibleRelaxed x) :
    ∃ x' : Vec, (assemble as' gridI skip).FeasibleRelaxed x' ∧
      (assemble as' gridI skip).value x' = (assemble as gridI skip).value x ∧
      (∀ n t, totalFlow (assemble as' gridI skip).mapping n t x' =
        totalFlow (assemble as gridI skip).mapping n t x) ∧
      ∃ π : Nat → Nat, ∀ i, i < as.length → π i < as'.length ∧
        as'.getD (π i) default = as.getD i default ∧
        ∀ j, j < (as.getD i default).n →
          x' (blockOffset as' (π i) + j) = x (blockOffset as i + j) := by
  obtain ⟨L', hL, hmap⟩ := perm_lift (·.1) (pieces as x) as' (by rw [pieces_map_fst]; exact hp)
  have hg' : ∀ a ∈ as', Good gridI a := fun a ha => hg a (hp.mem_iff.mpr ha)
  have hpf := pieces_feasible as gridI skip hg x hx
  obtain ⟨h1, h2, h3⟩ := transport as as' gridI skip hg hg' x hx L' hmap
    (fun p hp' => hpf p (hL.mem_iff.mpr hp'))
    (fun n t => (sum_perm (hL.map fun p => flowOf p.1 n t p.2)).symm)
    (sum_perm (hL.map fun p => - costAt p.1.c 0 p.2)).symm
  refine ⟨glue L', h1, h2, h3, ?_⟩
  have hlen : as'.length = L'.length := by rw [← hmap]; simp
  have hex : ∀ i, ∃ k, i < as.length → k < as'.length ∧
      as'.getD k default = as.getD i default ∧
      ∀ j, j < (as.getD i default).n →
        glue L' (blockOffset as' k + j) = x (blockOffset as i + j) := by
    intro i
    by_cases hi : i < as.length
    · have hi' : i < (pieces as x).length := by rw [pieces_length]; exact hi
      have hmem : (pieces as x)[i] ∈ L' := hL.mem_iff.mp (List.getElem_mem hi')
      obtain ⟨k, hk, hke⟩ := List.getElem_of_mem hmem
      rw [pieces_getElem] at hke
      refine ⟨k, fun _ => ⟨by omega, ?_, ?_⟩⟩
      · subst hmap
        rw [getD_of_lt _ k default (by simpa using hk), List.getElem_map, hke]
      · intro j hj
        subst hmap
        have := glue_block L' k hk j (by rw [hke]; exact hj)
        rw [this, hke]
    · exact ⟨0, fun h => absurd h hi⟩
  obtain ⟨π, hπ⟩ := Classical.axiomOfChoice hex
  exact ⟨π, hπ⟩

/-- one-directional correspondence of asset problems as the portfolio around them sees them: every feasible
    point of `a` has a feasible point of `a'` with the same cost and the same flow at every (node, step) -/
def Fwd (a a' : AssetProblem) : Prop :=
  ∀ y, a.FeasibleRelaxed y → ∃ y', a'.FeasibleRelaxed y' ∧ costAt a'.c 0 y' = costAt a.c 0 y ∧
    ∀ n t, flowOf a' n t y' = flowOf a n t y

theorem Fwd.refl (a : AssetProblem) : Fwd a a := fun y hy => ⟨y, hy, rfl, fun _ _ => rfl⟩

theorem Fwd.trans {a b c : AssetProblem} (h1 : Fwd a b) (h2 : Fwd b c) : Fwd a c := by
  intro y hy
  obtain ⟨y1, hf1, hc1, hfl1⟩ := h1 y hy
  obtain ⟨y2, hf2, hc2, hfl2⟩ := h2 y1 hf1
  exact ⟨y2, hf2, hc2.trans hc1, fun n t => (hfl2 n t).trans (hfl1 n t)⟩

/-- two lists related entry by entry -/
inductive All2 {α β : Type} (R : α → β → Prop) : List α → List β → Prop
  | nil : All2 R [] []
  | cons {a b as bs} : R a b → All2 R as bs → All2 R (a :: as) (b :: bs)

/-- corresponding blocks for a list of corresponding assets -/
theorem fwd_blocks (as as' : List AssetProblem) (h : All2 Fwd as as') :
    ∀ (Y : List (AssetProblem × Vec)), Y.map (·.1) = as → (∀ p ∈ Y, p.1.FeasibleRelaxed p.2) →
    ∃ L' : List (AssetProblem × Vec), L'.map (·.1) = as' ∧ (∀ p ∈ L', p.1.FeasibleRelaxed p.2) ∧
      (∀ n t, (L'.map fun p => flowOf p.1 n t p.2).sum = (Y.map fun p => flowOf p.1 n t p.2).sum) ∧
      (L'.map fun p => - costAt p.1.c 0 p.2).sum = (Y.map fun p => - costAt p.1.c 0 p.2).sum := by
  induction h with
  | nil =>
    intro Y hY _
    have : Y = [] := by simpa using hY
    subst this
    exact ⟨[], rfl, by simp, fun _ _ => rfl, rfl⟩
  | @cons a a' as as' hR _ ih =>
    intro Y hY hYf
    cases Y with
    | nil => simp at hY
    | cons p Y0 =>
      simp only [List.map_cons, List.cons.injEq] at hY
      obtain ⟨hp1, hY0⟩ := hY
      obtain ⟨L0, hm0, hf0, hfl0, hc0⟩ := ih Y0 hY0 (fun q hq => hYf q (by simp [hq]))
      have hpf := hYf p (by simp)
      rw [hp1] at hpf
      obtain ⟨y', hfy, hcy, hfly⟩ := hR p.2 hpf
      refine ⟨(a', y') :: L0, by simp [hm0], ?_, ?_, ?_⟩
      · intro q hq
        rcases List.mem_cons.mp hq with rfl | hq
        · exact hfy
        · exact hf0 q hq
      · intro n t
        simp only [List.map_cons, List.sum_cons, hfl0 n t, hfly n t, hp1]
      · simp only [List.map_cons, List.sum_cons, hc0, hcy, hp1]

/-- **replacing the assets by corresponding ones** -/
theorem pointwise_transport (as as' : List AssetProblem) (h : All2 Fwd as as') (gridI : List Nat)
    (skip : List String) (hg : ∀ a ∈ as, Good gridI a) (hg' : ∀ a ∈ as', Good gridI a)
    (x : Vec) (hx : (assemble as gridI skip).FeasibleRelaxed x) :
    ∃ x' : Vec, (assemble as' gridI skip).FeasibleRelaxed x' ∧
      (assemble as' gridI skip).value x' = (assemble as gridI skip).value x ∧
      (∀ n t, totalFlow (assemble as' gridI skip).mapping n t x' =
        totalFlow (assemble as gridI skip).mapping n t x) := by
  obtain ⟨L', hmap, hfeas, hflow, hcost⟩ := fwd_blocks as as' h (pieces as x) (pieces_map_fst as x)
    (pieces_feasible as gridI skip hg x hx)
  exact ⟨glue L', transport as as' gridI skip hg hg' x hx L' hmap hfeas hflow hcost⟩

/-! ### the structured wrapper around corresponding inner lists -/

/-- from a correspondence of the inner assemblies to a correspondence of the structured assets -/
theorem fwd_structured_of (name : String) (ext : List String) (as as' : List AssetProblem) (gridI : List Nat)
    (h : ∀ x, (assemble as gridI ext).FeasibleRelaxed x →
      ∃ x' : Vec, (assemble as' gridI ext).FeasibleRelaxed x' ∧
        (assemble as' gridI ext).value x' = (assemble as gridI ext).value x ∧
        (∀ n t, totalFlow (assemble as' gridI ext).mapping n t x' =
          totalFlow (assemble as gridI ext).mapping n t x)) :
    Fwd (structured name ext as gridI) (structured name ext as' gridI) := by
  intro y hy
  obtain ⟨y', hf, hv, hfl⟩ := h y ((structured_feasible name ext as gridI y).mp hy)
  refine ⟨y', (structured_feasible name ext as' gridI y').mpr hf, ?_, ?_⟩
  · rw [structured_c, structured_c]
    unfold Problem.value at hv
    grind
  · intro n t
    rw [flowOf_structured, flowOf_structured, hfl n t]

theorem fwd_structured_perm (name : String) (ext : List String) (as as' : List AssetProblem)
    (hp : as.Perm as') (gridI : List Nat) (hg : ∀ a ∈ as, Good gridI a) :
    Fwd (structured name ext as gridI) (structured name ext as' gridI) :=
  fwd_structured_of name ext as as' gridI fun x hx => by
    obtain ⟨x', h1, h2, h3, _⟩ := perm_transport as as' hp gridI ext hg x hx
    exact ⟨x', h1, h2, h3⟩

theorem fwd_structured_pointwise (name : String) (ext : List String) (as as' : List AssetProblem)
    (h : All2 Fwd as as') (gridI : List Nat) (hg : ∀ a ∈ as, Good gridI a)
    (hg' : ∀ a ∈ as', Good gridI a) :
    Fwd (structured name ext as gridI) (structured name ext as' gridI) :=
  fwd_structured_of name ext as as' gridI fun x hx =>
    pointwise_transport as as' h gridI ext hg hg' x hx

/-! ### relabelling: what the assembly reads of the labels -/

/-- two mapping rows that the assembly (and the scaled wrapper) cannot tell apart when nodes are renamed by `ρn`:
    same variable, factor, step, type and boolean flag, and a dispatch row sits at the renamed node.  The asset
    column, the variable name and the node of rows that are not dispatch rows are free. -/
structure RowRel (ρn : String → String) (m m' : MapRow) : Prop where
  var    : m'.var = m.var
  factor : m'.factor = m.factor
  step   : m'.step = m.step
  kind   : m'.kind = m.kind
  isBool : m'.isBool = m.isBool
  node   : m.kind = .d → m'.node = m.node.map ρn

/-- two asset problems with the same numbers whose labels correspond under `ρn` -/
structure AssetRel (ρn : String → String) (a a' : AssetProblem) : Prop where
  c     : a'.c = a.c
  l     : a'.l = a.l
  u     : a'.u = a.u
  rows  : a'.rows = a.rows
  nodes : a'.nodes = a.nodes.map ρn
  map   : All2 (RowRel ρn) a.mapping a'.mapping

theorem All2.map_right {α β : Type} (R : α → β → Prop) (f : α → β) (l : List α) (h : ∀ a ∈ l, R a (f a)) :
    All2 R l (l.map f) := by
  induction l with
  | nil => exact .nil
  | cons a l ih => exact .cons (h a (by simp)) (ih fun b hb => h b (by simp [hb]))

theorem All2.map_both {α β γ δ : Type} (R : α → β → Prop) (S : γ → δ → Prop) (f : α → γ) (g : β → δ)
    (hfg : ∀ a b, R a b → S (f a) (g b)) {l : List α} {l' : List β} (h : All2 R l l') :
    All2 S (l.map f) (l'.map g) := by
  induction h with
  | nil => exact .nil
  | cons hab _ ih => exact .cons (hfg _ _ hab) ih

theorem All2.append {α β : Type} {R : α → β → Prop} {l1 l2 : List α} {l1' l2' : List β}
    (h1 : All2 R l1 l1') (h2 : All2 R l2 l2') : All2 R (l1 ++ l2) (l1' ++ l2') := by
  induction h1 with
  | nil => exact h2
  | cons hab _ ih => exact .cons hab ih

theorem rowRel_isDisp (ρn : String → String) (hn : ∀ a b, ρn a = ρn b → a = b) (m m' : MapRow)
    (h : RowRel ρn m m') (n : String) (t : Nat) : isDisp (ρn n) t m' = isDisp n t m := by
  unfold isDisp
  rw [h.kind, h.step]
  by_cases hk : m.kind = .d
  · rw [h.node hk]
    congr 2
    cases hnode : m.node with
    | none => simp
    | some n' =>
      rw [Bool.eq_iff_iff]
      simp only [Option.map_some, beq_iff_eq, Option.some.injEq]
      exact ⟨hn _ _, fun h => h ▸ rfl⟩
  · have : (m.kind == VarKind.d) = false := by simpa using hk
    simp [this]

theorem rowRel_shift (ρn : String → String) (off : Nat) (m m' : MapRow) (h : RowRel ρn m m') :
    RowRel ρn (m.shift off) (m'.shift off) :=
  ⟨by simp [h.var], h.factor, h.step, h.kind, h.isBool, h.node⟩

/-- related mapping tables give the same filtered (variable, factor) lists -/
theorem all2_filter_disp (ρn : String → String) (hn : ∀ a b, ρn a = ρn b → a = b) {M M' : List MapRow}
    (h : All2 (RowRel ρn) M M') (n : String) (t : Nat) :
    (M'.filter (isDisp (ρn n) t)).map (fun m => (m.var, m.factor)) =
      (M.filter (isDisp n t)).map (fun m => (m.var, m.factor)) := by
  induction h with
  | nil => rfl
  | @cons m m' M M' hr _ ih =>
    simp only [List.filter_cons, rowRel_isDisp ρn hn m m' hr n t]
    by_cases hd : isDisp n t m = true
    · simp only [hd, if_true, List.map_cons, ih, hr.var, hr.factor]
    · simp only [hd, if_false, ih, Bool.false_eq_true]

theorem all2_any_disp (ρn : String → String) (hn : ∀ a b, ρn a = ρn b → a = b) {M M' : List MapRow}
    (h : All2 (RowRel ρn) M M') (n : String) (t : Nat) :
    M'.any (isDisp (ρn n) t) = M.any (isDisp n t) := by
  induction h with
  | nil => rfl
  | @cons m m' M M' hr _ ih => simp only [List.any_cons, rowRel_isDisp ρn hn m m' hr n t, ih]

theorem nodalRow_rel (ρn : String → String) (hn : ∀ a b, ρn a = ρn b → a = b) {M M' : List MapRow}
    (h : All2 (RowRel ρn) M M') (n : String) (t : Nat) : nodalRow M' (ρn n) t = nodalRow M n t := by
  unfold nodalRow
  rw [all2_filter_disp ρn hn h n t]

theorem nodalPairs_rel (ρn : String → String) (hn : ∀ a b, ρn a = ρn b → a = b) {M M' : List MapRow}
    (h : All2 (RowRel ρn) M M') (nodes skip : List String) (gridI : List Nat) :
    nodalPairs M' (nodes.map ρn) (skip.map ρn) gridI =
      (nodalPairs M nodes skip gridI).map fun p => (p.1, ρn p.2) := by
  unfold nodalPairs
  rw [List.filter_map, List.flatMap_map, List.map_flatMap]
  have hfun : ((fun n => !(skip.map ρn).contains n) ∘ ρn) = fun n => !skip.contains n := by
    funext n
    simp only [Function.comp, contains_map_inj ρn hn]
  rw [hfun]
  congr 1
  funext n
  rw [List.map_map]
  congr 1
  congr 1
  funext t
  exact all2_any_disp ρn hn h n t

theorem assembleFrom_rel (ρn : String → String) {as as' : List AssetProblem}
    (h : All2 (AssetRel ρn) as as') (off : Nat) :
    (assembleFrom off as').c = (assembleFrom off as).c ∧ (assembleFrom off as').l = (assembleFrom off as).l ∧
    (assembleFrom off as').u = (assembleFrom off as).u ∧
    (assembleFrom off as').rows = (assembleFrom off as).rows ∧
    All2 (RowRel ρn) (assembleFrom off as).mapping (assembleFrom off as').mapping := by
  induction h generalizing off with
  | nil => exact ⟨rfl, rfl, rfl, rfl, .nil⟩
  | @cons a a' as as' hr _ ih =>
    have hn : a'.n = a.n := by unfold AssetProblem.n; rw [hr.c]
    obtain ⟨h1, h2, h3, h4, h5⟩ := ih (off + a.n)
    simp only [assembleFrom, hn, hr.c, hr.l, hr.u, hr.rows, h1, h2, h3, h4, true_and]
    exact All2.append (All2.map_both _ _ _ _ (fun m m' => rowRel_shift ρn off m m') hr.map) h5

theorem portfolioNodes_rel (ρn : String → String) (hn : ∀ a b, ρn a = ρn b → a = b)
    {as as' : List AssetProblem} (h : All2 (AssetRel ρn) as as') :
    portfolioNodes as' = (portfolioNodes as).map ρn := by
  unfold portfolioNodes
  rw [← eraseDups_map_inj ρn hn]
  congr 1
  induction h with
  | nil => rfl
  | cons hr _ ih => simp only [List.flatMap_cons, List.map_append, ih, hr.nodes]

/-- **the assembly of relabelled assets**: same numbers, renamed nodal record, related mapping -/
theorem assemble_rel (ρn : String → String) (hn : ∀ a b, ρn a = ρn b → a = b)
    {as as' : List AssetProblem} (h : All2 (AssetRel ρn) as as') (gridI : List Nat) (skip : List String) :
    (assemble as' gridI (skip.map ρn)).c = (assemble as gridI skip).c ∧
    (assemble as' gridI (skip.map ρn)).l = (assemble as gridI skip).l ∧
    (assemble as' gridI (skip.map ρn)).u = (assemble as gridI skip).u ∧
    (assemble as' gridI (skip.map ρn)).rows = (assemble as gridI skip).rows ∧
    (assemble as' gridI (skip.map ρn)).nodal = (assemble as gridI skip).nodal.map (fun p => (p.1, ρn p.2)) ∧
    All2 (RowRel ρn) (assemble as gridI skip).mapping (assemble as' gridI (skip.map ρn)).mapping := by
  obtain ⟨h1, h2, h3, h4, h5⟩ := assembleFrom_rel ρn h 0
  have hpairs := nodalPairs_rel ρn hn h5 (portfolioNodes as) skip gridI
  rw [← portfolioNodes_rel ρn hn h] at hpairs
  refine ⟨h1, h2, h3, ?_, ?_, h5⟩
  · rw [assemble_rows, assemble_rows, h4, hpairs, List.map_map]
    congr 1
    apply List.map_congr_left
    intro p _
    exact nodalRow_rel ρn hn h5 p.2 p.1
  · rw [assemble_nodal, assemble_nodal, hpairs]

/-! ### the wrappers keep the label correspondence -/

/-- node, type and boolean flag of a wrapped row -/
theorem structuredMapRow_fields (name : String) (ext : List String) (m : MapRow) :
    (structuredMapRow name ext m).node =
      (match m.node with
        | some nd => if ext.contains nd then some nd else some (name ++ "_internal_" ++ nd)
        | none => none) ∧
    (structuredMapRow name ext m).kind =
      (match m.node with
        | some nd => if ext.contains nd then m.kind else innerKind m.kind
        | none => m.kind) ∧
    (structuredMapRow name ext m).isBool = m.isBool := by
  unfold structuredMapRow
  by_cases hv : (m.varName == "nan") = true <;> simp only [hv, if_true, Bool.false_eq_true, if_false] <;>
    cases hnode : m.node <;> simp only [] <;> (try split) <;> simp

theorem innerKind_of_ne_d (k : VarKind) (h : k ≠ .d) : innerKind k = k := by
  cases k <;> first | rfl | exact absurd rfl h

theorem rel_ren (ρa ρn : String → String) (a : AssetProblem) : AssetRel ρn a (renAsset ρa ρn a) :=
  ⟨rfl, rfl, rfl, rfl, rfl, All2.map_right _ _ _ fun _ _ => ⟨rfl, rfl, rfl, rfl, rfl, fun _ => rfl⟩⟩

theorem rowRel_structured (ρn : String → String) (hn : ∀ a b, ρn a = ρn b → a = b) (name name' : String)
    (ext : List String) (m m' : MapRow) (h : RowRel ρn m m') :
    RowRel ρn (structuredMapRow name ext m) (structuredMapRow name' (ext.map ρn) m') := by
  obtain ⟨n1, k1, b1⟩ := structuredMapRow_fields name ext m
  obtain ⟨n2, k2, b2⟩ := structuredMapRow_fields name' (ext.map ρn) m'
  have hkind : (structuredMapRow name' (ext.map ρn) m').kind = (structuredMapRow name ext m).kind := by
    rw [k1, k2, h.kind]
    by_cases hd : m.kind = .d
    · rw [h.node hd]
      cases hnode : m.node with
      | none => rfl
      | some nd => simp only [Option.map_some, contains_map_inj ρn hn]
    · have hi := innerKind_of_ne_d m.kind hd
      have e1 : ∀ o : Option String, (match o with
          | some nd => if (ext.map ρn).contains nd then m.kind else innerKind m.kind
          | none => m.kind) = m.kind := by
        intro o; cases o with
        | none => rfl
        | some nd => simp only [hi, ite_self]
      have e2 : ∀ o : Option String, (match o with
          | some nd => if ext.contains nd then m.kind else innerKind m.kind
          | none => m.kind) = m.kind := by
        intro o; cases o with
        | none => rfl
        | some nd => simp only [hi, ite_self]
      rw [e1, e2]
  refine ⟨?_, ?_, ?_, hkind, ?_, ?_⟩
  · rw [structuredMapRow_var, structuredMapRow_var, h.var]
  · rw [structuredMapRow_factor, structuredMapRow_factor, h.factor]
  · rw [structuredMapRow_step, structuredMapRow_step, h.step]
  · rw [b1, b2, h.isBool]
  · intro hk
    have hd := structuredMapRow_kind_d name ext m hk
    rw [n1, n2, h.node hd]
    rw [k1] at hk
    cases hnode : m.node with
    | none => rfl
    | some nd =>
      rw [hnode] at hk
      simp only [Option.map_some, contains_map_inj ρn hn]
      by_cases he : ext.contains nd = true
      · simp only [he, if_true, Option.map_some]
      · exfalso
        simp only [he, Bool.false_eq_true, if_false, hd, innerKind] at hk
        cases hk

/-- **the structured wrapper keeps the label correspondence** (whatever the two wrapper names are) -/
theorem rel_structured (ρn : String → String) (hn : ∀ a b, ρn a = ρn b → a = b) (name name' : String)
    (ext : List String) {as as' : List AssetProblem} (h : All2 (AssetRel ρn) as as') (gridI : List Nat) :
    AssetRel ρn (structured name ext as gridI) (structured name' (ext.map ρn) as' gridI) := by
  obtain ⟨h1, h2, h3, h4, _, h6⟩ := assemble_rel ρn hn h gridI ext
  refine ⟨h1, h2, h3, ?_, rfl, ?_⟩
  · show (assemble as' gridI (ext.map ρn)).rows.map Row.nToS = (assemble as gridI ext).rows.map Row.nToS
    rw [h4]
  · exact All2.map_both _ _ _ _ (fun m m' => rowRel_structured ρn hn name name' ext m m') h6

theorem all2_dispVars (ρn : String → String) {M M' : List MapRow} (h : All2 (RowRel ρn) M M') :
    dispVars M' = dispVars M := by
  unfold dispVars
  congr 1
  induction h with
  | nil => rfl
  | @cons m m' M M' hr _ ih =>
    have hc : isCapRow m' = isCapRow m := by unfold isCapRow; rw [hr.kind, hr.isBool]
    simp only [List.filter_cons, hc]
    by_cases hd : isCapRow m = true
    · simp only [hd, if_true, List.map_cons, ih, hr.var]
    · simp only [hd, if_false, ih, Bool.false_eq_true]

/-- **the scaled wrapper keeps the label correspondence** (whatever the names in the two parameter sets are) -/
theorem rel_scaled (ρn : String → String) (p p' : ScaledP) (hmin : p'.minScale = p.minScale)
    (hmax : p'.maxScale = p.maxScale) (hnorm : p'.normScale = p.normScale) (hfix : p'.fixCosts = p.fixCosts)
    (b b' : AssetProblem) (h : AssetRel ρn b b') (dtSum : Rat) :
    AssetRel ρn (buildScaled p b dtSum) (buildScaled p' b' dtSum) := by
  unfold buildScaled
  rw [h.l]
  by_cases h0 : b.l.length = 0
  · rw [if_pos h0, if_pos h0]; exact h
  · rw [if_neg h0, if_neg h0]
    have hI := all2_dispVars ρn h.map
    unfold buildScaledCore
    refine ⟨?_, ?_, ?_, ?_, h.nodes, ?_⟩
    · simp only [h.c, hfix]
    · simp only [h.l, hI, hmin, hmax, hnorm]
    · simp only [h.u, hI, hmax, hnorm]
    · simp only [h.rows, h.l, h.u, hI, hnorm]
    · simp only [h.l]
      refine All2.append (All2.map_both _ _ _ _ ?_ h.map) (.cons ?_ .nil)
      · intro m m' hr
        exact ⟨hr.var, hr.factor, hr.step, hr.kind, hr.isBool, hr.node⟩
      · exact ⟨rfl, rfl, rfl, rfl, rfl, fun hk => by cases hk⟩

/-- flows of related asset problems agree under the renamed node -/
theorem flowOf_rel (ρn : String → String) (hn : ∀ a b, ρn a = ρn b → a = b) (a a' : AssetProblem)
    (h : AssetRel ρn a a') (n : String) (t : Nat) (y : Vec) : flowOf a' (ρn n) t y = flowOf a n t y := by
  unfold flowOf
  have := all2_filter_disp ρn hn h.map n t
  have e : ∀ M : List MapRow, M.map (fun m => m.contrib y) =
      (M.map (fun m => (m.var, m.factor))).map (fun q => y q.1 * q.2) := by
    intro M; rw [List.map_map]; rfl
  rw [e, e, this]

theorem feasible_rel (ρn : String → String) (a a' : AssetProblem) (h : AssetRel ρn a a') (y : Vec) :
    a'.FeasibleRelaxed y ↔ a.FeasibleRelaxed y := by
  unfold AssetProblem.FeasibleRelaxed
  rw [h.l, h.u, h.rows]

/-! ### the labels a structured asset writes -/

/-- the node label a structured asset writes for inner node `nd` -/
def outNode (name : String) (ext : List String) (nd : String) : String :=
  if ext.contains nd then nd else name ++ "_internal_" ++ nd

/-- the variable name a structured asset writes for variable `v` of inner asset `a` -/
def outVar (v a : String) : String := if v == "nan" then v else v ++ "__" ++ a

theorem structuredMapRow_labels (name : String) (ext : List String) (m : MapRow) :
    (structuredMapRow name ext m).node = m.node.map (outNode name ext) ∧
    (structuredMapRow name ext m).varName = outVar m.varName m.asset ∧
    (structuredMapRow name ext m).asset = name := by
  refine ⟨?_, ?_, structuredMapRow_asset name ext m⟩
  · rw [(structuredMapRow_fields name ext m).1]
    cases m.node with
    | none => rfl
    | some nd => simp only [Option.map_some, outNode]; split <;> rfl
  · unfold structuredMapRow outVar
    by_cases hv : (m.varName == "nan") = true <;> simp only [hv, if_true, Bool.false_eq_true, if_false] <;>
      cases hnode : m.node <;> simp only [] <;> (try split) <;> rfl

/-- no external node carries the label the wrapper writes for an inner node -/
def NoClash (name : String) (ext nodes : List String) : Prop :=
  ∀ e ∈ ext, ∀ nd ∈ nodes, nd ∉ ext → e ≠ name ++ "_internal_" ++ nd

/-- **exact condition for the node labels**: the wrapper's node labelling is injective on the nodes of the inner
    portfolio iff no external node is called `<name>_internal_<inner node>` -/
theorem outNode_inj_iff (name : String) (ext nodes : List String) (hsub : ∀ e ∈ ext, e ∈ nodes) :
    (∀ a ∈ nodes, ∀ b ∈ nodes, outNode name ext a = outNode name ext b → a = b) ↔ NoClash name ext nodes := by
  constructor
  · intro h e he nd hnd hne heq
    have h1 : outNode name ext e = e := by simp [outNode, he]
    have h2 : outNode name ext nd = name ++ "_internal_" ++ nd := by simp [outNode, hne]
    have := h e (hsub e he) nd hnd (by rw [h1, h2]; exact heq)
    exact hne (this ▸ he)
  · intro h a ha b hb heq
    unfold outNode at heq
    by_cases hae : a ∈ ext <;> by_cases hbe : b ∈ ext
    · simpa [hae, hbe] using heq
    · simp only [List.contains_iff_mem, hae, hbe, if_true, if_false] at heq
      exact absurd heq (h a hae b hb hbe)
    · simp only [List.contains_iff_mem, hae, hbe, if_true, if_false] at heq
      exact absurd heq.symm (h b hbe a ha hae)
    · simp only [List.contains_iff_mem, hae, hbe, if_false] at heq
      exact (String.append_right_inj _).mp heq

/-- sufficient for the variable names: an asset name without underscore can be read off the written name -/
theorem suffix_inj (v v' a a' : String) (ha : '_' ∉ a.toList) (ha' : '_' ∉ a'.toList)
    (h : v ++ "__" ++ a = v' ++ "__" ++ a') : v = v' ∧ a = a' := by
  have hl := congrArg String.toList h
  simp only [String.toList_append] at hl
  have hsep : ("__" : String).toList = ['_', '_'] := by decide
  rw [hsep] at hl
  have hr := congrArg List.reverse hl
  simp only [List.reverse_append, List.append_assoc] at hr
  have htw : ∀ (x : List Char) (rest : List Char), '_' ∉ x →
      List.takeWhile (fun c => c != '_') (x.reverse ++ (['_', '_'].reverse ++ rest)) = x.reverse := by
    intro x rest hx
    rw [List.takeWhile_append_of_pos]
    · simp
    · intro c hc
      have : c ∈ x := List.mem_reverse.mp hc
      have hne : c ≠ '_' := fun e => hx (e ▸ this)
      simpa using hne
  have h1 := htw a.toList v.toList.reverse ha
  have h2 := htw a'.toList v'.toList.reverse ha'
  rw [hr, h2] at h1
  have haa : a.toList = a'.toList := by
    have := congrArg List.reverse h1
    simpa using this.symm
  have ha_eq : a = a' := String.ext haa
  subst ha_eq
  have hv := (String.append_left_inj a).mp h
  exact ⟨(String.append_left_inj "__").mp hv, rfl⟩

/-- the name of an unnamed variable ("nan") is never a written name -/
theorem nan_ne_written (v a : String) : "nan" ≠ v ++ "__" ++ a := by
  intro h
  have hl := congrArg String.toList h
  simp only [String.toList_append] at hl
  have hsep : ("__" : String).toList = ['_', '_'] := by decide
  have hnan : ("nan" : String).toList = ['n', 'a', 'n'] := by decide
  rw [hsep, hnan] at hl
  have : '_' ∈ ['n', 'a', 'n'] := by rw [hl]; simp
  revert this; decide

/-! ### object trees: wrappers in wrappers, lists permuted at every level -/

/-- correspondence of asset problems as a portfolio sees them, both directions -/
def Sim (a a' : AssetProblem) : Prop := Fwd a a' ∧ Fwd a' a

theorem Sim.refl (a : AssetProblem) : Sim a a := ⟨Fwd.refl a, Fwd.refl a⟩
theorem Sim.symm {a a' : AssetProblem} (h : Sim a a') : Sim a' a := ⟨h.2, h.1⟩
theorem Sim.trans {a b c : AssetProblem} (h1 : Sim a b) (h2 : Sim b c) : Sim a c :=
  ⟨h1.1.trans h2.1, h2.2.trans h1.2⟩

theorem All2.flip {α β : Type} {R : α → β → Prop} {l : List α} {l' : List β} (h : All2 R l l') :
    All2 (fun b a => R a b) l' l := by
  induction h with
  | nil => exact .nil
  | cons hab _ ih => exact .cons hab ih

theorem All2.imp {α β : Type} {R S : α → β → Prop} (hRS : ∀ a b, R a b → S a b) {l : List α} {l' : List β}
    (h : All2 R l l') : All2 S l l' := by
  induction h with
  | nil => exact .nil
  | cons hab _ ih => exact .cons (hRS _ _ hab) ih

theorem All2.refl {α : Type} {R : α → α → Prop} (hR : ∀ a, R a a) (l : List α) : All2 R l l := by
  induction l with
  | nil => exact .nil
  | cons a l ih => exact .cons (hR a) ih

theorem All2.trans {α : Type} {R : α → α → Prop} (hR : ∀ a b c, R a b → R b c → R a c) {l m n : List α}
    (h1 : All2 R l m) (h2 : All2 R m n) : All2 R l n := by
  induction h1 generalizing n with
  | nil => cases h2; exact .nil
  | cons hab _ ih =>
    cases h2 with
    | cons hbc h2' => exact .cons (hR _ _ _ hab hbc) (ih h2')

/-- an entry-wise relation followed by a permutation is a permutation followed by the entry-wise relation -/
theorem All2.perm_lift {α : Type} {R : α → α → Prop} {l' m' : List α} (hp : l'.Perm m') :
    ∀ l, All2 R l l' → ∃ m, l.Perm m ∧ All2 R m m' := by
  induction hp with
  | nil => intro l h; cases h; exact ⟨[], .nil, .nil⟩
  | cons x _ ih =>
    intro l h
    cases h with
    | cons hab h' =>
      obtain ⟨m0, hp0, h0⟩ := ih _ h'
      exact ⟨_ :: m0, hp0.cons _, .cons hab h0⟩
  | swap x y l0 =>
    intro l h
    cases h with
    | cons hay h' =>
      cases h' with
      | cons hbx h'' => exact ⟨_, List.Perm.swap _ _ _, .cons hbx (.cons hay h'')⟩
  | trans _ _ ih1 ih2 =>
    intro l h
    obtain ⟨m1, hp1, h1⟩ := ih1 l h
    obtain ⟨m2, hp2, h2⟩ := ih2 m1 h1
    exact ⟨m2, hp1.trans hp2, h2⟩

/-- the induction step: permute the wrapped list and replace every wrapped problem by a corresponding one -/
theorem sim_structured_step (name : String) (ext : List String) (inner mid inner' : List AssetProblem)
    (hp : inner.Perm mid) (hs : All2 Sim mid inner') (gridI : List Nat)
    (hg : ∀ a ∈ inner, Good gridI a) (hg' : ∀ a ∈ inner', Good gridI a) :
    Sim (structured name ext inner gridI) (structured name ext inner' gridI) := by
  have hgm : ∀ a ∈ mid, Good gridI a := fun a ha => hg a (hp.mem_iff.mpr ha)
  have h1 : Sim (structured name ext inner gridI) (structured name ext mid gridI) :=
    ⟨fwd_structured_perm name ext inner mid hp gridI hg, fwd_structured_perm name ext mid inner hp.symm gridI hgm⟩
  have h2 : Sim (structured name ext mid gridI) (structured name ext inner' gridI) :=
    ⟨fwd_structured_pointwise name ext mid inner' (All2.imp (fun _ _ h => h.1) hs) gridI hgm hg',
     fwd_structured_pointwise name ext inner' mid (All2.imp (fun _ _ h => h.2) (All2.flip hs)) gridI hg' hgm⟩
  exact h1.trans h2

/-- an object tree: a finished asset problem, or a structured asset around a list of object trees -/
inductive PTree where
  | leaf (a : AssetProblem)
  | node (name : String) (ext : List String) (inner : List PTree)

mutual
/-- the problem of an object tree on the grid `gridI` -/
def PTree.build (gridI : List Nat) : PTree → AssetProblem
  | .leaf a => a
  | .node name ext inner => structured name ext (buildL gridI inner) gridI
def buildL (gridI : List Nat) : List PTree → List AssetProblem
  | [] => []
  | t :: ts => t.build gridI :: buildL gridI ts
end

mutual
/-- every leaf is well-formed and local -/
def PTree.good (gridI : List Nat) : PTree → Prop
  | .leaf a => Good gridI a
  | .node _ _ inner => goodL gridI inner
def goodL (gridI : List Nat) : List PTree → Prop
  | [] => True
  | t :: ts => t.good gridI ∧ goodL gridI ts
end

mutual
theorem good_build (gridI : List Nat) : ∀ t : PTree, t.good gridI → Good gridI (t.build gridI)
  | .leaf a, h => by simpa [PTree.good, PTree.build] using h
  | .node name ext inner, h => by
    rw [PTree.build]
    exact good_structured name ext _ gridI (good_buildL gridI inner (by simpa [PTree.good] using h))
theorem good_buildL (gridI : List Nat) : ∀ ts : List PTree, goodL gridI ts → ∀ a ∈ buildL gridI ts, Good gridI a
  | [], _ => by intro a ha; simp [buildL] at ha
  | t :: ts, h => by
    intro a ha
    rw [goodL] at h
    rw [buildL, List.mem_cons] at ha
    rcases ha with rfl | ha
    · exact good_build gridI t h.1
    · exact good_buildL gridI ts h.2 a ha
end

/-- lists of object trees equal up to the order of the lists at every level of nesting -/
inductive LPerm : List PTree → List PTree → Prop
  | nil : LPerm [] []
  | leaf (a : AssetProblem) {ts ts' : List PTree} : LPerm ts ts' → LPerm (.leaf a :: ts) (.leaf a :: ts')
  | node (name : String) (ext : List String) {cs cs' ts ts' : List PTree} :
      LPerm cs cs' → LPerm ts ts' → LPerm (.node name ext cs :: ts) (.node name ext cs' :: ts')
  | swap (t1 t2 : PTree) (ts : List PTree) : LPerm (t1 :: t2 :: ts) (t2 :: t1 :: ts)
  | trans {a b c : List PTree} : LPerm a b → LPerm b c → LPerm a c

/-- **wrappers in wrappers**: for lists of object trees equal up to the order of the wrapped lists at every level, the
    built problems correspond (`Sim`) entry by entry after a permutation -/
theorem lperm_sim (gridI : List Nat) {ts ts' : List PTree} (h : LPerm ts ts') :
    goodL gridI ts → goodL gridI ts' ∧
      ∃ mid, (buildL gridI ts).Perm mid ∧ All2 Sim mid (buildL gridI ts') := by
  induction h with
  | nil => intro _; exact ⟨by simp [goodL], [], by simp [buildL], by rw [buildL]; exact .nil⟩
  | @leaf a ts ts' _ ih =>
    intro hg
    rw [goodL] at hg
    obtain ⟨hg', mid, hp, hs⟩ := ih hg.2
    refine ⟨by rw [goodL]; exact ⟨hg.1, hg'⟩, a :: mid, ?_, ?_⟩
    · rw [buildL, PTree.build]; exact hp.cons a
    · rw [buildL, PTree.build]; exact .cons (Sim.refl a) hs
  | @node name ext cs cs' ts ts' _ _ ihc iht =>
    intro hg
    rw [goodL, PTree.good] at hg
    obtain ⟨hgc', midc, hpc, hsc⟩ := ihc hg.1
    obtain ⟨hgt', mid, hp, hs⟩ := iht hg.2
    have hsim := sim_structured_step name ext (buildL gridI cs) midc (buildL gridI cs') hpc hsc gridI
      (good_buildL gridI cs hg.1) (good_buildL gridI cs' hgc')
    refine ⟨by rw [goodL, PTree.good]; exact ⟨hgc', hgt'⟩, structured name ext (buildL gridI cs) gridI :: mid, ?_, ?_⟩
    · rw [buildL, PTree.build]; exact hp.cons _
    · rw [buildL, PTree.build]; exact .cons hsim hs
  | swap t1 t2 ts =>
    intro hg
    rw [goodL, goodL] at hg
    refine ⟨by rw [goodL, goodL]; exact ⟨hg.2.1, hg.1, hg.2.2⟩, buildL gridI (t2 :: t1 :: ts), ?_, All2.refl Sim.refl _⟩
    rw [buildL, buildL, buildL, buildL]
    exact List.Perm.swap _ _ _
  | trans _ _ ih1 ih2 =>
    intro hg
    obtain ⟨hgb, mid1, hp1, hs1⟩ := ih1 hg
    obtain ⟨hgc, mid2, hp2, hs2⟩ := ih2 hgb
    obtain ⟨m, hpm, hsm⟩ := All2.perm_lift hp2 mid1 hs1
    exact ⟨hgc, m, hp1.trans hpm, All2.trans (R := Sim) (fun _ _ _ h1 h2 => Sim.trans h1 h2) hsm hs2⟩

end EAO.NestedPerm
