import EAO.Model.Split
import EAO.Lemmas.Blocks
/-! helper lemmas for `EAO.C14`: soundness of the row normal form, of `sameProblem`, of the renaming of a
    problem along a permutation -/
namespace EAO.Split
open EAO

/-! ### normal form of a row -/

def evalC (cs : List (Nat × Rat)) (x : Vec) : Rat := (cs.map fun p => p.2 * x p.1).sum

theorem eval_eq_evalC (r : Row) (x : Vec) : r.eval x = evalC r.coeffs x := rfl

@[simp] theorem evalC_nil (x : Vec) : evalC [] x = 0 := by simp [evalC]
@[simp] theorem evalC_cons (p : Nat × Rat) (L : List (Nat × Rat)) (x : Vec) :
    evalC (p :: L) x = p.2 * x p.1 + evalC L x := by simp [evalC]

theorem evalC_insCoeff (j : Nat) (a : Rat) (L : List (Nat × Rat)) (x : Vec) :
    evalC (insCoeff j a L) x = a * x j + evalC L x := by
  induction L with
  | nil => simp [insCoeff]
  | cons p rest ih =>
    obtain ⟨k, b⟩ := p
    unfold insCoeff
    split
    · simp
    · split
      · rename_i h
        subst h
        simp only [evalC_cons]
        grind
      · simp only [evalC_cons, ih]
        grind

theorem evalC_filter (L : List (Nat × Rat)) (x : Vec) :
    evalC (L.filter fun p => p.2 != 0) x = evalC L x := by
  induction L with
  | nil => rfl
  | cons p rest ih =>
    by_cases h : p.2 = 0
    · have hf : List.filter (fun q : Nat × Rat => q.2 != 0) (p :: rest) =
          List.filter (fun q : Nat × Rat => q.2 != 0) rest := by simp [h]
      rw [hf, ih, evalC_cons, h]
      grind
    · have hf : List.filter (fun q : Nat × Rat => q.2 != 0) (p :: rest) =
          p :: List.filter (fun q : Nat × Rat => q.2 != 0) rest := by simp [h]
      rw [hf, evalC_cons, evalC_cons, ih]

theorem evalC_foldr (cs : List (Nat × Rat)) (x : Vec) :
    evalC (cs.foldr (fun p acc => insCoeff p.1 p.2 acc) []) x = evalC cs x := by
  induction cs with
  | nil => rfl
  | cons p rest ih => rw [List.foldr_cons, evalC_insCoeff, ih, evalC_cons]

theorem evalC_normCoeffs (cs : List (Nat × Rat)) (x : Vec) : evalC (normCoeffs cs) x = evalC cs x := by
  unfold normCoeffs
  rw [evalC_filter, evalC_foldr]

theorem norm_eval (r : Row) (x : Vec) : r.norm.eval x = r.eval x := by
  rw [eval_eq_evalC, eval_eq_evalC]
  exact evalC_normCoeffs r.coeffs x

/-- the normal form of a row holds exactly where the row holds -/
theorem norm_sat (r : Row) (x : Vec) : r.norm.Sat x ↔ r.Sat x := by
  have he := norm_eval r x
  unfold Row.Sat
  rw [he]
  show (match r.kind.norm with
    | .U => r.eval x ≤ r.rhs | .L => r.rhs ≤ r.eval x | .S => r.eval x = r.rhs | .N => r.eval x = r.rhs) ↔ _
  cases r.kind <;> exact Iff.rfl

theorem same_eq (r s : Row) (h : r.same s = true) : r = s := by
  unfold Row.same at h
  simp only [Bool.and_eq_true, decide_eq_true_eq] at h
  obtain ⟨⟨hk, hr⟩, hc⟩ := h
  cases r; cases s
  simp_all

/-- every row of `as` has a twin (same normal form) among `bs`: what holds for all of `bs` holds for all of `as` -/
theorem rowsSubset_sat (as bs : List Row) (h : rowsSubset (as.map Row.norm) (bs.map Row.norm) = true)
    (x : Vec) (hb : ∀ s ∈ bs, s.Sat x) : ∀ r ∈ as, r.Sat x := by
  intro r hr
  unfold rowsSubset at h
  rw [List.all_eq_true] at h
  have h1 := h r.norm (List.mem_map.mpr ⟨r, hr, rfl⟩)
  rw [List.any_eq_true] at h1
  obtain ⟨s', hs', hsame⟩ := h1
  obtain ⟨s, hs, rfl⟩ := List.mem_map.mp hs'
  have heq := same_eq _ _ hsame
  rw [← norm_sat, heq, norm_sat]
  exact hb s hs

theorem natsSubset_mem (as bs : List Nat) (h : natsSubset as bs = true) : ∀ j ∈ as, j ∈ bs := by
  intro j hj
  unfold natsSubset at h
  rw [List.all_eq_true] at h
  simpa using h j hj

/-! ### `sameProblem` -/

structure Same (A B : Problem) : Prop where
  n : A.n = B.n
  c : A.c = B.c
  l : A.l = B.l
  u : A.u = B.u
  rowsAB : rowsSubset (A.rows.map Row.norm) (B.rows.map Row.norm) = true
  rowsBA : rowsSubset (B.rows.map Row.norm) (A.rows.map Row.norm) = true
  boolAB : natsSubset A.boolVars B.boolVars = true
  boolBA : natsSubset B.boolVars A.boolVars = true

theorem sameProblem_spec (A B : Problem) (h : sameProblem A B = true) : Same A B := by
  unfold sameProblem at h
  simp only [Bool.and_eq_true, decide_eq_true_eq] at h
  obtain ⟨⟨⟨⟨⟨⟨⟨h1, h2⟩, h3⟩, h4⟩, h5⟩, h6⟩, h7⟩, h8⟩ := h
  exact ⟨h1, h2, h3, h4, h5, h6, h7, h8⟩

theorem Same.relaxed {A B : Problem} (h : Same A B) (x : Vec) : A.FeasibleRelaxed x ↔ B.FeasibleRelaxed x := by
  unfold Problem.FeasibleRelaxed
  rw [h.l, h.u]
  constructor
  · rintro ⟨hb, hr⟩
    exact ⟨hb, rowsSubset_sat _ _ h.rowsBA x hr⟩
  · rintro ⟨hb, hr⟩
    exact ⟨hb, rowsSubset_sat _ _ h.rowsAB x hr⟩

theorem Same.feasible {A B : Problem} (h : Same A B) (x : Vec) : A.Feasible x ↔ B.Feasible x := by
  unfold Problem.Feasible
  rw [h.relaxed x]
  constructor
  · rintro ⟨hf, hb⟩
    exact ⟨hf, fun j hj => hb j (natsSubset_mem _ _ h.boolBA j hj)⟩
  · rintro ⟨hf, hb⟩
    exact ⟨hf, fun j hj => hb j (natsSubset_mem _ _ h.boolAB j hj)⟩

theorem Same.value {A B : Problem} (h : Same A B) (x : Vec) : A.value x = B.value x := by
  unfold Problem.value
  rw [h.c]

/-! ### permutations of `[0, n)` given as lists -/

structure IsPerm (perm : List Nat) (n : Nat) : Prop where
  len : perm.length = n
  lt : ∀ i ∈ perm, i < n
  nodup : perm.Nodup
  mem : ∀ i, i < n → i ∈ perm

theorem isPermOf_spec (perm : List Nat) (n : Nat) (h : isPermOf perm n = true) : IsPerm perm n := by
  unfold isPermOf at h
  simp only [Bool.and_eq_true, decide_eq_true_eq, List.all_eq_true, List.mem_range,
    List.contains_iff_mem] at h
  obtain ⟨⟨⟨h1, h2⟩, h3⟩, h4⟩ := h
  exact ⟨h1, h2, h3, h4⟩

theorem getD_eq_getElem (L : List Nat) (j : Nat) (h : j < L.length) : L.getD j 0 = L[j] := by
  simp [List.getD_eq_getElem?_getD, h]

/-- `inv (perm[j]) = j` -/
theorem IsPerm.inv_get {perm : List Nat} {n : Nat} (hp : IsPerm perm n) (j : Nat) (hj : j < n) :
    invPerm perm (perm.getD j 0) = j := by
  have hj' : j < perm.length := by rw [hp.len]; exact hj
  rw [getD_eq_getElem perm j hj']
  exact hp.nodup.idxOf_getElem j hj'

theorem IsPerm.inv_lt {perm : List Nat} {n : Nat} (hp : IsPerm perm n) (i : Nat) (hi : i < n) :
    invPerm perm i < n := by
  have := List.idxOf_lt_length_of_mem (hp.mem i hi)
  rw [hp.len] at this
  exact this

/-- `perm[inv i] = i` -/
theorem IsPerm.get_inv {perm : List Nat} {n : Nat} (hp : IsPerm perm n) (i : Nat) (hi : i < n) :
    perm.getD (invPerm perm i) 0 = i := by
  have hlt : perm.idxOf i < perm.length := List.idxOf_lt_length_of_mem (hp.mem i hi)
  unfold invPerm
  rw [getD_eq_getElem perm _ hlt]
  exact List.getElem_idxOf hlt

theorem IsPerm.get_lt {perm : List Nat} {n : Nat} (hp : IsPerm perm n) (j : Nat) (hj : j < n) :
    perm.getD j 0 < n := by
  have hj' : j < perm.length := by rw [hp.len]; exact hj
  rw [getD_eq_getElem perm j hj']
  exact hp.lt _ (List.getElem_mem hj')

theorem IsPerm.inv_inj {perm : List Nat} {n : Nat} (hp : IsPerm perm n) (a b : Nat) (ha : a < n) (hb : b < n)
    (h : invPerm perm a = invPerm perm b) : a = b := by
  rw [← hp.get_inv a ha, ← hp.get_inv b hb, h]

theorem IsPerm.perm_range {perm : List Nat} {n : Nat} (hp : IsPerm perm n) : perm.Perm (List.range n) := by
  rw [List.perm_ext_iff_of_nodup hp.nodup List.nodup_range]
  intro a
  rw [List.mem_range]
  exact ⟨hp.lt a, hp.mem a⟩

theorem sum_perm {l l' : List Rat} (h : l.Perm l') : l.sum = l'.sum := by
  induction h with
  | nil => rfl
  | cons a _ ih => simp only [List.sum_cons, ih]
  | swap a b l => simp only [List.sum_cons]; grind
  | trans _ _ ih1 ih2 => rw [ih1, ih2]

/-- transporting a pulled-back point gives the point back on `[0, n)` -/
theorem IsPerm.transport_pullback {perm : List Nat} {n : Nat} (hp : IsPerm perm n) (y : Vec) (i : Nat)
    (hi : i < n) : transportAlong perm (pullbackAlong perm y) i = y i := by
  show y (perm.getD (invPerm perm i) 0) = y i
  rw [hp.get_inv i hi]

theorem IsPerm.pullback_transport {perm : List Nat} {n : Nat} (hp : IsPerm perm n) (x : Vec) (j : Nat)
    (hj : j < n) : pullbackAlong perm (transportAlong perm x) j = x j := by
  show x (invPerm perm (perm.getD j 0)) = x j
  rw [hp.inv_get j hj]

/-! ### the objective under renaming -/

theorem costAt_map_of_agree (L : List Nat) (g : Nat → Rat) (off : Nat) (x z : Vec)
    (h : ∀ k, (hk : k < L.length) → x (off + k) = z (L[k])) :
    costAt (L.map g) off x = (L.map fun i => g i * z i).sum := by
  induction L generalizing off with
  | nil => simp
  | cons a L ih =>
    rw [List.map_cons, costAt_cons, List.map_cons, List.sum_cons]
    have h0 := h 0 (by simp)
    simp only [Nat.add_zero, List.getElem_cons_zero] at h0
    rw [h0, ih (off + 1) (fun k hk => by
      have := h (k + 1) (by simp; omega)
      simp only [List.getElem_cons_succ] at this
      rw [← this]
      congr 1
      omega)]

theorem costAt_eq_sum_range (c : List Rat) (off : Nat) (x : Vec) :
    costAt c off x = ((List.range c.length).map fun j => c.getD j 0 * x (off + j)).sum := by
  induction c generalizing off with
  | nil => simp
  | cons a cs ih =>
    rw [costAt_cons, ih (off + 1), List.length_cons, List.range_succ_eq_map]
    simp only [List.map_cons, List.sum_cons, List.map_map, Function.comp_def, List.getD_cons_zero,
      List.getD_cons_succ, Nat.add_zero]
    congr 2
    apply List.map_congr_left
    intro j _
    rw [show off + 1 + j = off + Nat.succ j by omega]

/-- the renamed cost vector on `x` = the cost vector on the transported point -/
theorem costAt_renameAlong {perm : List Nat} (c : List Rat) (hp : IsPerm perm c.length) (x : Vec) :
    costAt (perm.map fun i => c.getD i 0) 0 x = costAt c 0 (transportAlong perm x) := by
  rw [costAt_map_of_agree perm (fun i => c.getD i 0) 0 x (transportAlong perm x) (fun k hk => by
    unfold transportAlong
    have := hp.inv_get k (by rw [← hp.len]; exact hk)
    rw [getD_eq_getElem perm k hk] at this
    rw [this, Nat.zero_add])]
  rw [costAt_eq_sum_range]
  simp only [Nat.zero_add]
  exact sum_perm (hp.perm_range.map _)

/-! ### bounds under renaming -/

theorem getD_map_get (perm : List Nat) (v : List Rat) (j : Nat) (hj : j < perm.length) :
    (perm.map fun i => v.getD i 0).getD j 0 = v.getD (perm.getD j 0) 0 := by
  simp [List.getD_eq_getElem?_getD, hj]

theorem inBounds_renameAlong {perm : List Nat} (l u : List Rat) (hp : IsPerm perm l.length) (x : Vec) :
    InBounds (perm.map fun i => l.getD i 0) (perm.map fun i => u.getD i 0) x ↔
      InBounds l u (transportAlong perm x) := by
  unfold InBounds
  rw [List.length_map, hp.len]
  constructor
  · intro h i hi
    have hj := hp.inv_lt i hi
    have := h (invPerm perm i) hj
    rw [getD_map_get perm l _ (by rw [hp.len]; exact hj), getD_map_get perm u _ (by rw [hp.len]; exact hj),
      hp.get_inv i hi] at this
    exact this
  · intro h j hj
    have := h (perm.getD j 0) (hp.get_lt j hj)
    unfold transportAlong at this
    rw [hp.inv_get j hj] at this
    rw [getD_map_get perm l _ (by rw [hp.len]; exact hj), getD_map_get perm u _ (by rw [hp.len]; exact hj)]
    exact this

/-! ### boolean variables under an injective renaming -/

theorem contains_map_inj (g : Nat → Nat) (S : Nat → Prop) (hg : ∀ a b, S a → S b → g a = g b → a = b)
    (seen : List Nat) (hs : ∀ v ∈ seen, S v) (v : Nat) (hv : S v) :
    (seen.map g).contains (g v) = seen.contains v := by
  induction seen with
  | nil => rfl
  | cons a rest ih =>
    have ha : S a := hs a List.mem_cons_self
    rw [List.map_cons, List.contains_cons, List.contains_cons, ih (fun w hw => hs w (List.mem_cons_of_mem _ hw))]
    congr 1
    by_cases hva : v = a
    · subst hva; simp
    · have : g v ≠ g a := fun h => hva (hg v a hv ha h)
      rw [beq_false_of_ne this, beq_false_of_ne hva]

/-- `firstRows` commutes with a renaming of the variables that is injective on the variables that occur -/
theorem firstRows_rename (g : Nat → Nat) (S : Nat → Prop) (hg : ∀ a b, S a → S b → g a = g b → a = b)
    (L : List MapRow) (hL : ∀ m ∈ L, S m.var) (seen : List Nat) (hs : ∀ v ∈ seen, S v) :
    firstRows (L.map (MapRow.rename g)) (seen.map g) = (firstRows L seen).map (MapRow.rename g) := by
  induction L generalizing seen with
  | nil => rfl
  | cons m rest ih =>
    have hm : S m.var := hL m List.mem_cons_self
    have hrest : ∀ m' ∈ rest, S m'.var := fun m' h' => hL m' (List.mem_cons_of_mem _ h')
    rw [List.map_cons]
    unfold firstRows
    have hc : (seen.map g).contains (MapRow.rename g m).var = seen.contains m.var :=
      contains_map_inj g S hg seen hs m.var hm
    rw [hc]
    split
    · exact ih hrest seen hs
    · rw [List.map_cons]
      congr 1
      have := ih hrest (m.var :: seen) (by
        intro v hv
        rcases List.mem_cons.mp hv with rfl | hv
        · exact hm
        · exact hs v hv)
      rw [List.map_cons] at this
      exact this

theorem boolVars_renameAlong (U : Problem) {perm : List Nat} (hp : IsPerm perm U.n)
    (hm : ∀ m ∈ U.mapping, m.var < U.n) :
    (U.renameAlong perm).boolVars = U.boolVars.map (invPerm perm) := by
  unfold Problem.boolVars Problem.renameAlong
  have := firstRows_rename (invPerm perm) (· < U.n) hp.inv_inj U.mapping hm [] (by simp)
  rw [List.map_nil] at this
  simp only [this, List.filter_map, List.map_map]
  rfl

theorem mem_firstRows (M : List MapRow) (seen : List Nat) (m : MapRow) (hm : m ∈ firstRows M seen) : m ∈ M := by
  induction M generalizing seen with
  | nil => simp [firstRows] at hm
  | cons a rest ih =>
    unfold firstRows at hm
    split at hm
    · exact List.mem_cons_of_mem _ (ih seen hm)
    · rcases List.mem_cons.mp hm with rfl | h
      · exact List.mem_cons_self
      · exact List.mem_cons_of_mem _ (ih _ h)

theorem boolVars_lt (U : Problem) (n : Nat) (hm : ∀ m ∈ U.mapping, m.var < n) : ∀ j ∈ U.boolVars, j < n := by
  intro j hj
  unfold Problem.boolVars at hj
  obtain ⟨m, hm', rfl⟩ := List.mem_map.mp hj
  exact hm m (mem_firstRows _ _ m (List.mem_filter.mp hm').1)

/-! ### well-formed problems only read their point on `[0, n)` -/

structure WfIdx (P : Problem) : Prop where
  l : P.l.length = P.n
  u : P.u.length = P.n
  rows : ∀ r ∈ P.rows, ∀ p ∈ r.coeffs, p.1 < P.n
  mapping : ∀ m ∈ P.mapping, m.var < P.n

theorem wfIdx_spec (P : Problem) (h : P.wfIdx = true) : WfIdx P := by
  unfold Problem.wfIdx at h
  simp only [Bool.and_eq_true, decide_eq_true_eq, List.all_eq_true] at h
  obtain ⟨⟨⟨h1, h2⟩, h3⟩, h4⟩ := h
  exact ⟨h1, h2, h3, h4⟩

theorem eval_congr (r : Row) (n : Nat) (hc : ∀ p ∈ r.coeffs, p.1 < n) (y y' : Vec)
    (h : ∀ i, i < n → y i = y' i) : r.eval y = r.eval y' := by
  unfold Row.eval
  congr 1
  apply List.map_congr_left
  intro p hp
  rw [h p.1 (hc p hp)]

theorem sat_congr (r : Row) (n : Nat) (hc : ∀ p ∈ r.coeffs, p.1 < n) (y y' : Vec)
    (h : ∀ i, i < n → y i = y' i) : r.Sat y ↔ r.Sat y' := by
  unfold Row.Sat
  rw [eval_congr r n hc y y' h]

theorem WfIdx.relaxed_congr {P : Problem} (hw : WfIdx P) (y y' : Vec) (h : ∀ i, i < P.n → y i = y' i) :
    P.FeasibleRelaxed y → P.FeasibleRelaxed y' := by
  rintro ⟨hb, hr⟩
  refine ⟨fun j hj => ?_, fun r hr' => ?_⟩
  · rw [← h j (by rw [← hw.l]; exact hj)]
    exact hb j hj
  · exact (sat_congr r P.n (hw.rows r hr') y y' h).mp (hr r hr')

theorem WfIdx.feasible_congr {P : Problem} (hw : WfIdx P) (y y' : Vec) (h : ∀ i, i < P.n → y i = y' i) :
    P.Feasible y → P.Feasible y' := by
  rintro ⟨hf, hb⟩
  refine ⟨hw.relaxed_congr y y' h hf, fun j hj => ?_⟩
  rw [← h j (boolVars_lt P P.n hw.mapping j hj)]
  exact hb j hj

theorem value_congr (P : Problem) (y y' : Vec) (h : ∀ i, i < P.n → y i = y' i) : P.value y = P.value y' := by
  unfold Problem.value
  rw [costAt_congr P.c 0 y y' (fun j hj => by simpa using h j hj)]

/-! ### the renamed problem -/

theorem renameAlong_relaxed (U : Problem) {perm : List Nat} (hp : IsPerm perm U.n) (hl : U.l.length = U.n)
    (x : Vec) : (U.renameAlong perm).FeasibleRelaxed x ↔ U.FeasibleRelaxed (transportAlong perm x) := by
  unfold Problem.FeasibleRelaxed
  have hb := inBounds_renameAlong U.l U.u (by rw [hl]; exact hp) x
  have hr := rows_sat_map_rename (invPerm perm) U.rows x
  show InBounds (perm.map fun i => U.l.getD i 0) (perm.map fun i => U.u.getD i 0) x ∧
    (∀ r ∈ U.rows.map (Row.rename (invPerm perm)), r.Sat x) ↔ _
  rw [hb, hr]
  rfl

theorem renameAlong_feasible (U : Problem) {perm : List Nat} (hp : IsPerm perm U.n) (hw : WfIdx U)
    (x : Vec) : (U.renameAlong perm).Feasible x ↔ U.Feasible (transportAlong perm x) := by
  unfold Problem.Feasible
  rw [renameAlong_relaxed U hp hw.l x, boolVars_renameAlong U hp hw.mapping]
  constructor
  · rintro ⟨hf, hb⟩
    exact ⟨hf, fun j hj => hb _ (List.mem_map.mpr ⟨j, hj, rfl⟩)⟩
  · rintro ⟨hf, hb⟩
    refine ⟨hf, fun j hj => ?_⟩
    obtain ⟨i, hi, rfl⟩ := List.mem_map.mp hj
    exact hb i hi

theorem renameAlong_value (U : Problem) {perm : List Nat} (hp : IsPerm perm U.n) (x : Vec) :
    (U.renameAlong perm).value x = U.value (transportAlong perm x) := by
  unfold Problem.value
  show - costAt (perm.map fun i => U.c.getD i 0) 0 x = _
  rw [costAt_renameAlong U.c hp x]

/-! ### boolean variables of a block sum -/

def boolVarsOf (M : List MapRow) : List Nat := ((firstRows M []).filter (·.isBool)).map (·.var)

theorem boolVars_eq (P : Problem) : P.boolVars = boolVarsOf P.mapping := rfl

/-- the `seen` list after `firstRows` has walked through `M` -/
def seenAfter : List MapRow → List Nat → List Nat
  | [], seen => seen
  | m :: ms, seen => if seen.contains m.var then seenAfter ms seen else seenAfter ms (m.var :: seen)

theorem firstRows_cons (m : MapRow) (ms : List MapRow) (seen : List Nat) :
    firstRows (m :: ms) seen =
      if seen.contains m.var then firstRows ms seen else m :: firstRows ms (m.var :: seen) := rfl

theorem seenAfter_cons (m : MapRow) (ms : List MapRow) (seen : List Nat) :
    seenAfter (m :: ms) seen =
      if seen.contains m.var then seenAfter ms seen else seenAfter ms (m.var :: seen) := rfl

theorem firstRows_append (M1 M2 : List MapRow) (seen : List Nat) :
    firstRows (M1 ++ M2) seen = firstRows M1 seen ++ firstRows M2 (seenAfter M1 seen) := by
  induction M1 generalizing seen with
  | nil => rfl
  | cons m rest ih =>
    rw [List.cons_append, firstRows_cons, firstRows_cons, seenAfter_cons]
    by_cases hc : seen.contains m.var = true
    · simp only [hc, if_true]
      exact ih seen
    · have hc' : seen.contains m.var = false := by simpa using hc
      simp only [hc', Bool.false_eq_true, if_false]
      rw [ih (m.var :: seen), List.cons_append]

theorem mem_seenAfter (M : List MapRow) (seen : List Nat) (v : Nat) (h : v ∈ seenAfter M seen) :
    v ∈ seen ∨ ∃ m ∈ M, m.var = v := by
  induction M generalizing seen with
  | nil => exact Or.inl h
  | cons m rest ih =>
    unfold seenAfter at h
    split at h
    · rcases ih seen h with h1 | ⟨m', hm', rfl⟩
      · exact Or.inl h1
      · exact Or.inr ⟨m', List.mem_cons_of_mem _ hm', rfl⟩
    · rcases ih _ h with h1 | ⟨m', hm', rfl⟩
      · rcases List.mem_cons.mp h1 with rfl | h2
        · exact Or.inr ⟨m, List.mem_cons_self, rfl⟩
        · exact Or.inl h2
      · exact Or.inr ⟨m', List.mem_cons_of_mem _ hm', rfl⟩

/-- `firstRows` reads `seen` only at the variables of its list -/
theorem firstRows_congr_seen (M : List MapRow) (s1 s2 : List Nat)
    (h : ∀ m ∈ M, s1.contains m.var = s2.contains m.var) : firstRows M s1 = firstRows M s2 := by
  induction M generalizing s1 s2 with
  | nil => rfl
  | cons m rest ih =>
    unfold firstRows
    rw [h m List.mem_cons_self]
    split
    · exact ih s1 s2 (fun m' hm' => h m' (List.mem_cons_of_mem _ hm'))
    · congr 1
      apply ih
      intro m' hm'
      rw [List.contains_cons, List.contains_cons, h m' (List.mem_cons_of_mem _ hm')]

/-- blocks with disjoint variables: the boolean variables of the concatenation are those of the blocks -/
theorem boolVarsOf_append (M1 M2 : List MapRow) (k : Nat) (h1 : ∀ m ∈ M1, m.var < k) (h2 : ∀ m ∈ M2, k ≤ m.var) :
    boolVarsOf (M1 ++ M2) = boolVarsOf M1 ++ boolVarsOf M2 := by
  unfold boolVarsOf
  rw [firstRows_append, List.filter_append, List.map_append]
  congr 2
  congr 1
  apply firstRows_congr_seen
  intro m hm
  have hnot : ¬ m.var ∈ seenAfter M1 [] := by
    intro hin
    rcases mem_seenAfter M1 [] m.var hin with h | ⟨m', hm', he⟩
    · simp at h
    · have := h1 m' hm'
      have := h2 m hm
      omega
  have : (seenAfter M1 []).contains m.var = false := by
    rw [Bool.eq_false_iff]
    intro hc
    exact hnot (List.contains_iff_mem.mp hc)
  rw [this]
  rfl

theorem shift_eq_rename (off : Nat) : MapRow.shift off = MapRow.rename (off + ·) := rfl

theorem boolVarsOf_shift (M : List MapRow) (off : Nat) :
    boolVarsOf (M.map (MapRow.shift off)) = (boolVarsOf M).map (off + ·) := by
  unfold boolVarsOf
  have := firstRows_rename (off + ·) (fun _ => True) (fun a b _ _ h => by omega) M (fun _ _ => trivial) []
    (fun _ _ => trivial)
  rw [List.map_nil] at this
  rw [shift_eq_rename, this]
  simp only [List.filter_map, List.map_map]
  rfl

theorem assembleFrom_mapping_ge (as : List AssetProblem) (off : Nat) :
    ∀ m ∈ (assembleFrom off as).mapping, off ≤ m.var := by
  induction as generalizing off with
  | nil => intro m hm; simp at hm
  | cons a as ih =>
    intro m hm
    rw [assembleFrom_cons_mapping] at hm
    rcases List.mem_append.mp hm with h | h
    · obtain ⟨m', _, rfl⟩ := List.mem_map.mp h
      show off ≤ off + m'.var
      omega
    · have := ih (off + a.n) m h
      omega

/-- the integrality conditions of the concatenation are those of the blocks on their slices -/
theorem assembleFrom_bools (as : List AssetProblem) (hw : ∀ a ∈ as, ∀ m ∈ a.mapping, m.var < a.n)
    (off : Nat) (x : Vec) :
    (∀ j ∈ boolVarsOf (assembleFrom off as).mapping, x j = 0 ∨ x j = 1) ↔
      ∀ i, (h : i < as.length) → ∀ j ∈ boolVarsOf (as[i]).mapping,
        x (off + blockOffset as i + j) = 0 ∨ x (off + blockOffset as i + j) = 1 := by
  induction as generalizing off with
  | nil => simp [boolVarsOf, firstRows]
  | cons a as ih =>
    rw [forall_lt_cons a as (fun i b => ∀ j ∈ boolVarsOf b.mapping,
      x (off + blockOffset (a :: as) i + j) = 0 ∨ x (off + blockOffset (a :: as) i + j) = 1)]
    rw [assembleFrom_cons_mapping, boolVarsOf_append _ _ (off + a.n)
      (by
        intro m hm
        obtain ⟨m', hm', rfl⟩ := List.mem_map.mp hm
        have := hw a List.mem_cons_self m' hm'
        show off + m'.var < off + a.n
        omega)
      (assembleFrom_mapping_ge as (off + a.n)), boolVarsOf_shift]
    simp only [List.forall_mem_append, List.forall_mem_map,
      ih (fun b hb => hw b (List.mem_cons_of_mem _ hb)) (off + a.n), blockOffset_zero,
      blockOffset_cons_succ, Nat.add_zero, Nat.add_assoc]

/-! ### rows that follow from other rows (the one-sided witness) -/

theorem evalC_append (a b : List (Nat × Rat)) (x : Vec) : evalC (a ++ b) x = evalC a x + evalC b x := by
  simp [evalC, List.sum_append]

theorem evalC_scale (cs : List (Nat × Rat)) (y : Rat) (x : Vec) :
    evalC (cs.map fun p => (p.1, y * p.2)) x = y * evalC cs x := by
  induction cs with
  | nil => simp
  | cons p rest ih =>
    rw [List.map_cons, evalC_cons, evalC_cons, ih]
    grind

theorem evalC_combCoeffs (L : List (Row × Rat)) (x : Vec) :
    evalC (combCoeffs L) x = (L.map fun q => q.2 * q.1.eval x).sum := by
  induction L with
  | nil => simp [combCoeffs]
  | cons q rest ih =>
    have : combCoeffs (q :: rest) = (q.1.coeffs.map fun p => (p.1, q.2 * p.2)) ++ combCoeffs rest := by
      simp [combCoeffs]
    rw [this, evalC_append, evalC_scale, ih, List.map_cons, List.sum_cons, eval_eq_evalC]

theorem term_le (r : Row) (y : Rat) (x : Vec) (hs : signLe r.kind y = true) (hx : r.Sat x) :
    y * r.eval x ≤ y * r.rhs := by
  unfold signLe at hs; unfold Row.Sat at hx
  cases hk : r.kind <;> simp [hk] at hs hx
  · exact Rat.mul_le_mul_of_nonneg_left hx hs
  · have h' : 0 ≤ -y := by grind
    have := Rat.mul_le_mul_of_nonneg_left hx h'
    grind
  · rw [hx]; exact Rat.le_refl
  · rw [hx]; exact Rat.le_refl

theorem term_ge (r : Row) (y : Rat) (x : Vec) (hs : signGe r.kind y = true) (hx : r.Sat x) :
    y * r.rhs ≤ y * r.eval x := by
  unfold signGe at hs; unfold Row.Sat at hx
  cases hk : r.kind <;> simp [hk] at hs hx
  · have h' : 0 ≤ -y := by grind
    have := Rat.mul_le_mul_of_nonneg_left hx h'
    grind
  · exact Rat.mul_le_mul_of_nonneg_left hx hs
  · rw [hx]; exact Rat.le_refl
  · rw [hx]; exact Rat.le_refl

theorem mem_activeRows (rows : List Row) (lam : List Rat) (q : Row × Rat) (h : q ∈ activeRows rows lam) :
    q.1 ∈ rows := by
  unfold activeRows at h
  have hz := (List.mem_filter.mp h).1
  obtain ⟨r, y⟩ := q
  exact (List.of_mem_zip hz).1

/-- a checked `≤`-combination is valid wherever the combined rows hold -/
theorem leCert_sound (a : List (Nat × Rat)) (b : Rat) (rows : List Row) (lam : List Rat)
    (h : leCert a b rows lam = true) (x : Vec) (hx : ∀ s ∈ rows, s.Sat x) : evalC a x ≤ b := by
  unfold leCert at h
  simp only [Bool.and_eq_true, decide_eq_true_eq, List.all_eq_true] at h
  obtain ⟨⟨⟨_, hsign⟩, hco⟩, hrhs⟩ := h
  have h1 : evalC a x = evalC (combCoeffs (activeRows rows lam)) x := by
    rw [← evalC_normCoeffs a, ← hco, evalC_normCoeffs]
  rw [h1, evalC_combCoeffs]
  have h2 : ((activeRows rows lam).map fun q => q.2 * q.1.eval x).sum ≤ combRhs (activeRows rows lam) := by
    unfold combRhs
    apply sum_map_le
    intro q hq
    exact term_le q.1 q.2 x (hsign q hq) (hx q.1 (mem_activeRows rows lam q hq))
  exact Rat.le_trans h2 hrhs

theorem geCert_sound (a : List (Nat × Rat)) (b : Rat) (rows : List Row) (lam : List Rat)
    (h : geCert a b rows lam = true) (x : Vec) (hx : ∀ s ∈ rows, s.Sat x) : b ≤ evalC a x := by
  unfold geCert at h
  simp only [Bool.and_eq_true, decide_eq_true_eq, List.all_eq_true] at h
  obtain ⟨⟨⟨_, hsign⟩, hco⟩, hrhs⟩ := h
  have h1 : evalC a x = evalC (combCoeffs (activeRows rows lam)) x := by
    rw [← evalC_normCoeffs a, ← hco, evalC_normCoeffs]
  rw [h1, evalC_combCoeffs]
  have h2 : combRhs (activeRows rows lam) ≤ ((activeRows rows lam).map fun q => q.2 * q.1.eval x).sum := by
    unfold combRhs
    apply sum_map_le
    intro q hq
    exact term_ge q.1 q.2 x (hsign q hq) (hx q.1 (mem_activeRows rows lam q hq))
  exact Rat.le_trans hrhs h2

/-- **a row that is certified to follow from `rows` holds wherever all of `rows` hold** -/
theorem rowImplied_sat (r : Row) (rows : List Row) (lam : List Rat) (h : rowImplied r rows lam = true)
    (x : Vec) (hx : ∀ s ∈ rows, s.Sat x) : r.Sat x := by
  have heq : ∀ l1 l2, leCert r.coeffs r.rhs rows l1 = true → geCert r.coeffs r.rhs rows l2 = true →
      r.eval x = r.rhs := by
    intro l1 l2 h1 h2
    have a1 := leCert_sound _ _ _ _ h1 x hx
    have a2 := geCert_sound _ _ _ _ h2 x hx
    rw [eval_eq_evalC]
    exact Rat.le_antisymm a1 a2
  have hboth : ((if lam.length = rows.length then
        leCert r.coeffs r.rhs rows lam && geCert r.coeffs r.rhs rows lam
      else leCert r.coeffs r.rhs rows (lam.take rows.length) &&
        geCert r.coeffs r.rhs rows (lam.drop rows.length)) = true) → r.eval x = r.rhs := by
    intro hh
    split at hh
    · rw [Bool.and_eq_true] at hh
      exact heq _ _ hh.1 hh.2
    · rw [Bool.and_eq_true] at hh
      exact heq _ _ hh.1 hh.2
  unfold rowImplied at h
  unfold Row.Sat
  cases hk : r.kind <;> simp only [hk] at h ⊢
  · rw [eval_eq_evalC]; exact leCert_sound _ _ _ _ h x hx
  · rw [eval_eq_evalC]; exact geCert_sound _ _ _ _ h x hx
  · exact hboth h
  · exact hboth h

theorem vecLe_spec (a b : List Rat) (h : vecLe a b = true) :
    a.length = b.length ∧ ∀ j, j < a.length → a.getD j 0 ≤ b.getD j 0 := by
  unfold vecLe at h
  simp only [Bool.and_eq_true, decide_eq_true_eq, List.all_eq_true] at h
  obtain ⟨hl, hall⟩ := h
  refine ⟨hl, fun j hj => ?_⟩
  have hjb : j < b.length := by omega
  have hm : (a[j], b[j]) ∈ a.zip b := by
    rw [List.mem_iff_getElem]
    exact ⟨j, by simp; omega, by simp⟩
  have := hall _ hm
  simpa [List.getD_eq_getElem?_getD, hj, hjb] using this

/-- the feasibility part of a true one-sided witness -/
structure LeFeas (A B : Problem) : Prop where
  l : vecLe A.l B.l = true
  u : vecLe B.u A.u = true
  bool : natsSubset A.boolVars B.boolVars = true
  rows : ∀ x, (∀ s ∈ B.rows, s.Sat x) → ∀ r ∈ A.rows, r.Sat x

/-- the content of a true one-sided witness (equal objectives) -/
structure LeSpec (A B : Problem) : Prop where
  c : A.c = B.c
  feas : LeFeas A B

theorem rows_implied (as bs : List Row) (lams : List (List Rat)) (hlen : lams.length = as.length)
    (h : ((as.zip lams).all fun q => rowImplied q.1 bs q.2) = true) (x : Vec) (hx : ∀ s ∈ bs, s.Sat x) :
    ∀ r ∈ as, r.Sat x := by
  intro r hr
  rw [List.all_eq_true] at h
  obtain ⟨i, hi, rfl⟩ := List.mem_iff_getElem.mp hr
  have hm : (as[i], lams[i]'(by omega)) ∈ as.zip lams := by
    rw [List.mem_iff_getElem]
    exact ⟨i, by simp; omega, by simp⟩
  exact rowImplied_sat _ bs _ (h _ hm) x hx

/-- if the unsplit bounds have equal length (as after `renameAlong`), feasibility passes from the tighter to the
    looser problem -/
theorem LeFeas.relaxed {A B : Problem} (h : LeFeas A B) (hlu : A.u.length = A.l.length) (x : Vec) :
    B.FeasibleRelaxed x → A.FeasibleRelaxed x := by
  rintro ⟨hb, hr⟩
  obtain ⟨hl1, hl2⟩ := vecLe_spec _ _ h.l
  obtain ⟨hu1, hu2⟩ := vecLe_spec _ _ h.u
  refine ⟨fun j hj => ?_, h.rows x hr⟩
  have hbj := hb j (by omega)
  have h1 := hl2 j hj
  have h2 := hu2 j (by omega)
  exact ⟨Rat.le_trans h1 hbj.1, Rat.le_trans hbj.2 h2⟩

theorem LeFeas.feasible {A B : Problem} (h : LeFeas A B) (hlu : A.u.length = A.l.length) (x : Vec) :
    B.Feasible x → A.Feasible x := by
  rintro ⟨hf, hb⟩
  exact ⟨h.relaxed hlu x hf, fun j hj => hb j (natsSubset_mem _ _ h.bool j hj)⟩

theorem LeSpec.value {A B : Problem} (h : LeSpec A B) (x : Vec) : A.value x = B.value x := by
  unfold Problem.value
  rw [h.c]

/-! ### certified objectives -/

theorem sum_map_sub {α} (l : List α) (f g : α → Rat) :
    (l.map fun a => f a - g a).sum = (l.map f).sum - (l.map g).sum := by
  induction l with
  | nil => simp only [List.map_nil, List.sum_nil]; grind
  | cons a rest ih => simp only [List.map_cons, List.sum_cons, ih]; grind

theorem evalC_costDiff (cA cB : List Rat) (hlen : cA.length = cB.length) (x : Vec) :
    evalC (costDiff cA cB) x = costAt cB 0 x - costAt cA 0 x := by
  rw [costAt_eq_sum_range cB, costAt_eq_sum_range cA, hlen, ← sum_map_sub]
  unfold costDiff evalC
  rw [List.map_map]
  congr 1
  apply List.map_congr_left
  intro j _
  simp only [Function.comp, Nat.zero_add]
  grind

/-- a certified objective: on every point that satisfies `rows`, `-cB·x ≤ -cA·x` -/
theorem costCert_sound (cA cB : List Rat) (rows : List Row) (lamC : List Rat)
    (h : costCert cA cB rows lamC = true) (x : Vec) (hx : ∀ s ∈ rows, s.Sat x) :
    - costAt cB 0 x ≤ - costAt cA 0 x := by
  unfold costCert at h
  rw [Bool.or_eq_true] at h
  rcases h with h | h
  · rw [of_decide_eq_true h]; exact Rat.le_refl
  · rw [Bool.and_eq_true] at h
    have hlen : cA.length = cB.length := of_decide_eq_true h.1
    have := geCert_sound _ _ _ _ h.2 x hx
    rw [evalC_costDiff cA cB hlen x] at this
    grind

end EAO.Split
