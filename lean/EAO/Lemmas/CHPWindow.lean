import EAO.Model.CHP
import EAO.Model.CHPMinLoad
/-! helper lemmas for C08 on the CHP / Plant builder and the min-load-cost builder (core Lean only):
    inversion of `resolveCHP` / `buildCHP` (empty window ⇒ the parent's problem, otherwise `assembleCHP` of
    `mkCHPR …` with `idx = g.idx`), where the rows of `CHPR.mapping` come from (steps, asset names), inversion of
    `addMinLoad` / `buildMinLoad` -/
namespace EAO.CHPWindow
open EAO

theorem resolveCHP_some {p : CHPP} {base : AssetProblem} {g : Grid} {prices : Prices} {u s : Nat} {r : CHPR}
    (h : resolveCHP p base g prices u s = .ok (some r)) :
    g.T ≠ 0 ∧ ∃ (hf : Bool × Option String) (v : CHPVecs), r = mkCHPR p base g hf.1 hf.2 v u s 0 false := by
  unfold resolveCHP resolveCHPWith at h
  simp only [bind, Except.bind, pure, Except.pure] at h
  cases hc : chpCtor p with
  | error e => simp [hc] at h
  | ok hf =>
    simp only [hc] at h
    by_cases hT : g.T = 0
    · simp [hT] at h
    · simp only [hT, if_false] at h
      split at h
      · simp [throw, throwThe, MonadExceptOf.throw] at h
      cases hv : chpVectors p g prices hf.1 hf.2 with
      | error e => simp [hv] at h
      | ok v =>
        simp only [hv] at h
        cases hcc : chpCostCheck (mkCHPR p base g hf.1 hf.2 v u s 0 false) with
        | error e => simp [hcc] at h
        | ok _ =>
          simp only [hcc] at h
          cases hl : chpLateChecks (mkCHPR p base g hf.1 hf.2 v u s 0 false) with
          | error e => simp [hl] at h
          | ok _ =>
            simp [hl] at h
            exact ⟨hT, hf, v, h.symm⟩


theorem resolveCHP_none {p : CHPP} {base : AssetProblem} {g : Grid} {prices : Prices} {u s : Nat}
    (h : resolveCHP p base g prices u s = .ok none) : g.T = 0 := by
  unfold resolveCHP resolveCHPWith at h
  simp only [bind, Except.bind, pure, Except.pure] at h
  cases hc : chpCtor p with
  | error e => simp [hc] at h
  | ok hf =>
    simp only [hc] at h
    by_cases hT : g.T = 0
    · exact hT
    · simp only [hT, if_false] at h
      split at h
      · simp [throw, throwThe, MonadExceptOf.throw] at h
      cases hv : chpVectors p g prices hf.1 hf.2 with
      | error e => simp [hv] at h
      | ok v =>
        simp only [hv] at h
        cases hcc : chpCostCheck (mkCHPR p base g hf.1 hf.2 v u s 0 false) with
        | error e => simp [hcc] at h
        | ok _ =>
          simp only [hcc] at h
          cases hl : chpLateChecks (mkCHPR p base g hf.1 hf.2 v u s 0 false) with
          | error e => simp [hl] at h
          | ok _ => simp [hl] at h

theorem resolveCHP_some_of_empty {p : CHPP} {base : AssetProblem} {g : Grid} {prices : Prices} {u s : Nat} {r : CHPR}
    (hT : g.T = 0) (h : resolveCHP p base g prices u s = .ok (some r)) : False :=
  (resolveCHP_some h).1 hT

theorem resolveCHP_fields {p : CHPP} {base : AssetProblem} {g : Grid} {prices : Prices} {u s : Nat} {r : CHPR}
    (h : resolveCHP p base g prices u s = .ok (some r)) :
    r.idx = g.idx ∧ r.base = base ∧ r.name = p.name ∧ r.nodes = p.nodes ∧ r.T = g.T := by
  obtain ⟨_, hf, v, rfl⟩ := resolveCHP_some h
  exact ⟨rfl, rfl, rfl, rfl, rfl⟩

theorem buildCHP_cases {p : CHPP} {base : AssetProblem} {g : Grid} {prices : Prices} {u s : Nat} {P : AssetProblem}
    (h : buildCHP p base g prices u s = .ok P) :
    (g.T = 0 ∧ P = base) ∨ ∃ r, resolveCHP p base g prices u s = .ok (some r) ∧ P = assembleCHP r := by
  unfold buildCHP at h
  cases hr : resolveCHP p base g prices u s with
  | error e => simp [hr, bind, Except.bind] at h
  | ok o =>
    cases o with
    | none =>
      simp [hr, bind, Except.bind, pure, Except.pure] at h
      exact Or.inl ⟨resolveCHP_none hr, h.symm⟩
    | some r =>
      simp [hr, bind, Except.bind, pure, Except.pure] at h
      exact Or.inr ⟨r, rfl, h.symm⟩

/-! ### steps and asset names of the mapping -/

theorem mem_boolRows {r : CHPR} {vn : String} {m : MapRow} (h : m ∈ r.boolRows vn) :
    m.step ∈ r.idx ∧ m.asset = r.name ∧ m.node = none := by
  simp only [CHPR.boolRows, List.mem_map] at h
  obtain ⟨s, hs, rfl⟩ := h
  exact ⟨hs, rfl, rfl⟩

/-- the rows of `mappingCore` before the re-enumeration of the variables -/
def coreRows (r : CHPR) : List MapRow :=
  let m1 := if r.heat then
      (r.nodes.take 2).flatMap fun nd => (r.base.mapping.filter fun m => m.kind == VarKind.d).map fun m => { m with node := some nd }
    else r.base.mapping
  let m2 := if r.incOn then m1 ++ r.boolRows "bool_on" else m1
  if r.incOn ∧ r.incStart then m2 ++ r.boolRows "bool_start" else m2

theorem mappingCore_eq (r : CHPR) : r.mappingCore = (coreRows r).zipIdx.map fun q => { q.1 with var := q.2 } := rfl

/-- what is known about a row of the CHP mapping: it is an on/start row (or a fuel copy of one) at a step of `idx`,
    or it has the step and the asset name of a row of the parent's mapping -/
def FromWindow (r : CHPR) (m : MapRow) : Prop :=
  (m.step ∈ r.idx ∧ m.asset = r.name) ∨ ∃ m' ∈ r.base.mapping, m.step = m'.step ∧ m.asset = m'.asset

theorem mem_coreRows {r : CHPR} {m : MapRow} (h : m ∈ coreRows r) : FromWindow r m := by
  have h1 : ∀ m ∈ (if r.heat then
      (r.nodes.take 2).flatMap fun nd => (r.base.mapping.filter fun m => m.kind == VarKind.d).map fun m => { m with node := some nd }
    else r.base.mapping), FromWindow r m := by
    intro m hm
    split at hm
    · simp only [List.mem_flatMap, List.mem_map, List.mem_filter] at hm
      obtain ⟨nd, _, m', ⟨hm', _⟩, rfl⟩ := hm
      exact Or.inr ⟨m', hm', rfl, rfl⟩
    · exact Or.inr ⟨m, hm, rfl, rfl⟩
  have hb : ∀ vn, ∀ m ∈ r.boolRows vn, FromWindow r m := fun vn m hm => Or.inl ⟨(mem_boolRows hm).1, (mem_boolRows hm).2.1⟩
  simp only [coreRows] at h
  split at h
  · rcases List.mem_append.mp h with h | h
    · split at h
      · rcases List.mem_append.mp h with h | h
        · exact h1 m h
        · exact hb _ m h
      · exact h1 m h
    · exact hb _ m h
  · split at h
    · rcases List.mem_append.mp h with h | h
      · exact h1 m h
      · exact hb _ m h
    · exact h1 m h

/-- a row of `mappingCore` has the step and asset of a parent's row or is an on/start row at a step of `idx` -/
theorem mem_mappingCore {r : CHPR} {m : MapRow} (h : m ∈ r.mappingCore) : FromWindow r m := by
  rw [mappingCore_eq, List.mem_map] at h
  obtain ⟨⟨m0, i⟩, hq, rfl⟩ := h
  obtain ⟨hi, hm0⟩ := List.mem_zipIdx' hq
  have hm0 : m0 ∈ coreRows r := hm0 ▸ List.getElem_mem hi
  exact (mem_coreRows hm0 : FromWindow r m0)

theorem mem_withFactors {rows : List MapRow} {fs : List Rat} {node : String} {m : MapRow}
    (h : m ∈ withFactors rows fs node) : ∃ m' ∈ rows, m.step = m'.step ∧ m.asset = m'.asset ∧ m.node = some node := by
  simp only [withFactors, List.mem_map] at h
  obtain ⟨⟨m', f⟩, hq, rfl⟩ := h
  exact ⟨m', (List.of_mem_zip hq).1, rfl, rfl, rfl⟩

theorem mem_fuelRows {r : CHPR} {f : String} {m : MapRow} (h : m ∈ r.fuelRows f) :
    ∃ m' ∈ r.mappingCore, m.step = m'.step ∧ m.asset = m'.asset ∧ m.node = some f := by
  simp only [CHPR.fuelRows, List.mem_append] at h
  rcases h with ((h | h) | h) | h
  · obtain ⟨m', hm', e⟩ := mem_withFactors h
    exact ⟨m', (List.mem_filter.mp hm').1, e⟩
  · split at h
    · obtain ⟨m', hm', e⟩ := mem_withFactors h
      exact ⟨m', (List.mem_filter.mp hm').1, e⟩
    · simp at h
  · split at h
    · obtain ⟨m', hm', e⟩ := mem_withFactors h
      exact ⟨m', (List.mem_filter.mp hm').1, e⟩
    · simp at h
  · split at h
    · obtain ⟨m', hm', e⟩ := mem_withFactors h
      exact ⟨m', (List.mem_filter.mp hm').1, e⟩
    · simp at h

theorem mem_mapping {r : CHPR} {m : MapRow} (h : m ∈ r.mapping) : FromWindow r m := by
  unfold CHPR.mapping at h
  split at h
  · exact mem_mappingCore h
  · rcases List.mem_append.mp h with h | h
    · exact mem_mappingCore h
    · obtain ⟨m', hm', e1, e2, _⟩ := mem_fuelRows h
      have := mem_mappingCore hm'
      unfold FromWindow at this ⊢
      rw [e1, e2]; exact this

/-- steps of the mapping of `assembleCHP r` -/
theorem assembleCHP_step {r : CHPR} {m : MapRow} (h : m ∈ (assembleCHP r).mapping) :
    m.step ∈ r.idx ∨ ∃ m' ∈ r.base.mapping, m.step = m'.step := by
  rcases mem_mapping (r := r) h with h | ⟨m', hm', e, _⟩
  · exact Or.inl h.1
  · exact Or.inr ⟨m', hm', e⟩

/-- asset names of the mapping of `assembleCHP r` -/
theorem assembleCHP_asset {r : CHPR} {m : MapRow} (h : m ∈ (assembleCHP r).mapping) :
    m.asset = r.name ∨ ∃ m' ∈ r.base.mapping, m.asset = m'.asset := by
  rcases mem_mapping (r := r) h with h | ⟨m', hm', _, e⟩
  · exact Or.inl h.2
  · exact Or.inr ⟨m', hm', e⟩

/-! ### the min-load-cost builder -/

theorem mem_thrRows {name : String} {idx : List Nat} {off : Nat} {m : MapRow} (h : m ∈ thrRows name idx off) :
    m.step ∈ idx ∧ m.asset = name ∧ m.node = none := by
  simp only [thrRows, List.mem_map] at h
  obtain ⟨⟨t, i⟩, hq, rfl⟩ := h
  obtain ⟨hi, ht⟩ := List.mem_zipIdx' hq
  exact ⟨by simp [ht], rfl, rfl⟩

/-- what a successful `addMinLoad` returns -/
theorem addMinLoad_ok {a : AssetProblem} {g : Grid} {thr costs : List Rat} {P : AssetProblem}
    (h : addMinLoad a g thr costs = .ok P) :
    P.mapping = a.mapping ++ thrRows a.name g.idx (nextVar a.mapping) ∧ P.name = a.name ∧ P.nodes = a.nodes ∧
    P.c = a.c ++ costs ∧ P.l = a.l ++ List.replicate g.T 0 ∧ P.u = a.u ++ List.replicate g.T 1 ∧
    ∃ rows, P.rows = a.rows ++ rows := by
  unfold addMinLoad at h
  simp only [bind, Except.bind, pure, Except.pure] at h
  split at h
  · simp [throw, throwThe, MonadExceptOf.throw] at h
  split at h
  · simp [throw, throwThe, MonadExceptOf.throw] at h
  injection h with h
  subst h
  exact ⟨rfl, rfl, rfl, rfl, rfl, rfl, _, rfl⟩

theorem addMinLoad_mapping {a : AssetProblem} {g : Grid} {thr costs : List Rat} {P : AssetProblem}
    (h : addMinLoad a g thr costs = .ok P) : ∀ m ∈ P.mapping, m ∈ a.mapping ∨ m.step ∈ g.idx := by
  intro m hm
  rw [(addMinLoad_ok h).1] at hm
  rcases List.mem_append.mp hm with hm | hm
  · exact Or.inl hm
  · exact Or.inr (mem_thrRows hm).1

theorem buildMinLoad_cases {q : MinLoadP} {a : AssetProblem} {g : Grid} {prices : Prices} {P : AssetProblem}
    (h : buildMinLoad q a g prices = .ok P) : P = a ∨ (g.T ≠ 0 ∧ ∃ t c, addMinLoad a g t c = .ok P) := by
  unfold buildMinLoad at h
  simp only [bind, Except.bind, pure, Except.pure] at h
  by_cases hT : g.T = 0
  · simp [hT] at h
    exact Or.inl h.symm
  · simp only [hT, if_false] at h
    cases h1 : optVec q.threshold g prices with
    | error e => simp [h1] at h
    | ok thr =>
      cases h2 : optVec q.costs g prices with
      | error e => simp [h1, h2] at h
      | ok costs =>
        simp only [h1, h2] at h
        split at h
        · injection h with h
          exact Or.inl h.symm
        · exact Or.inr ⟨hT, _, _, h⟩

theorem buildMinLoad_empty {q : MinLoadP} {a : AssetProblem} {g : Grid} {prices : Prices} {P : AssetProblem}
    (hT : g.T = 0) (h : buildMinLoad q a g prices = .ok P) : P = a := by
  rcases buildMinLoad_cases h with h | ⟨h, _⟩
  · exact h
  · exact absurd hT h

theorem buildMinLoad_mapping {q : MinLoadP} {a : AssetProblem} {g : Grid} {prices : Prices} {P : AssetProblem}
    (h : buildMinLoad q a g prices = .ok P) : ∀ m ∈ P.mapping, m ∈ a.mapping ∨ m.step ∈ g.idx := by
  rcases buildMinLoad_cases h with rfl | ⟨_, t, c, h⟩
  · exact fun m hm => Or.inl hm
  · exact addMinLoad_mapping h

end EAO.CHPWindow
