import EAO.Model.SplitBuild
import EAO.Lemmas.Grid
import EAO.Lemmas.Contract
import EAO.Lemmas.Blocks
import EAO.Lemmas.Wf
import EAO.Lemmas.Split
/-!
# EAO.Lemmas.SplitBuild — helper lemmas for `EAO.Properties.C14Builders`

Part 1: the general theorem — asset problems whose variables each belong to one step (`Banded`), restricted to the
step lists of a partition and assembled per list, ARE the unsplit problem up to the explicit matching `splitPerm`.
Part 2: the builders of `EAO.Model.Contract` commute with the restriction of the asset grid (`Grid.pick`).
Part 3: the interval grid of the split set-up is `Grid.pick`; Part 4: the two joined for `setupSplit`.
-/
namespace EAO.SplitBuild
open EAO EAO.Split

/-! ## Part 0: lists -/

theorem idxOf_map_inj {α β} [BEq α] [LawfulBEq α] [BEq β] [LawfulBEq β] (f : α → β)
    (hf : ∀ a b, f a = f b → a = b) (l : List α) (a : α) : (l.map f).idxOf (f a) = l.idxOf a := by
  induction l with
  | nil => simp
  | cons x xs ih =>
    simp only [List.map_cons, List.idxOf_cons]
    by_cases h : x = a
    · subst h; simp
    · have h' : f x ≠ f a := fun e => h (hf _ _ e)
      have e1 : (f x == f a) = false := by simpa using h'
      have e2 : (x == a) = false := by simpa using h
      rw [e1, e2, ih]

theorem idxOf_inj_of_mem {α} [BEq α] [LawfulBEq α] (l : List α) (a b : α) (ha : a ∈ l)
    (h : l.idxOf a = l.idxOf b) : a = b := by
  have h1 := List.idxOf_lt_length_of_mem ha
  have hb : b ∈ l := by
    rw [← List.idxOf_lt_length_iff, ← h]; exact h1
  have e1 := List.getElem_idxOf (x := a) (xs := l) h1
  have e2 := List.getElem_idxOf (x := b) (xs := l) (List.idxOf_lt_length_of_mem hb)
  rw [← e1, ← e2]
  simp [h]

theorem getD_idxOf_of_mem (l : List Nat) (a : Nat) (ha : a ∈ l) : l.getD (l.idxOf a) 0 = a := by
  have h1 := List.idxOf_lt_length_of_mem ha
  rw [List.getD_eq_getElem?_getD, List.getElem?_eq_getElem h1]
  simp [List.getElem_idxOf h1]

/-- `idxOf` in a concatenation, for an element of the second list that is not in the first -/
theorem idxOf_append_right (l1 l2 : List Nat) (a : Nat) (h : a ∉ l1) :
    (l1 ++ l2).idxOf a = l1.length + l2.idxOf a := by
  rw [List.idxOf_append]; simp [h]; omega

theorem idxOf_append_left (l1 l2 : List Nat) (a : Nat) (h : a ∈ l1) :
    (l1 ++ l2).idxOf a = l1.idxOf a := by
  rw [List.idxOf_append]; simp [h]

/-! ## Part 1: banded asset problems, restricted and assembled per step list -/

theorem varAtSteps_iff (M : List MapRow) (I : List Nat) (v : Nat) :
    varAtSteps M I v = true ↔ ∃ m ∈ M, m.var = v ∧ m.step ∈ I := by
  simp [varAtSteps, List.any_eq_true]

theorem mem_keep (a : AssetProblem) (I : List Nat) (v : Nat) :
    v ∈ a.keep I ↔ v < a.n ∧ ∃ m ∈ a.mapping, m.var = v ∧ m.step ∈ I := by
  simp [AssetProblem.keep, List.mem_filter, varAtSteps_iff]

theorem mem_pkeep (P : Problem) (I : List Nat) (v : Nat) :
    v ∈ P.keep I ↔ v < P.n ∧ ∃ m ∈ P.mapping, m.var = v ∧ m.step ∈ I := by
  simp [Problem.keep, List.mem_filter, varAtSteps_iff]

theorem keep_nodup (a : AssetProblem) (I : List Nat) : (a.keep I).Nodup :=
  List.Nodup.sublist List.filter_sublist List.nodup_range

theorem pkeep_nodup (P : Problem) (I : List Nat) : (P.keep I).Nodup :=
  List.Nodup.sublist List.filter_sublist List.nodup_range

/-- for a banded problem a mapping row's variable is kept iff the row's step is in the list -/
theorem banded_var_mem_keep {a : AssetProblem} {T : Nat} (h : Banded a T) (I : List Nat) (m : MapRow)
    (hm : m ∈ a.mapping) : m.var ∈ a.keep I ↔ m.step ∈ I := by
  rw [mem_keep]
  constructor
  · rintro ⟨_, m', hm', hv, hs⟩
    rw [h.same_step m hm m' hm' hv.symm]; exact hs
  · intro hs
    exact ⟨h.map_var m hm, m, hm, rfl, hs⟩

@[simp] theorem restrictTo_n (a : AssetProblem) (I : List Nat) : (a.restrictTo I).n = (a.keep I).length := by
  simp [AssetProblem.restrictTo, AssetProblem.n]

@[simp] theorem restrictTo_nodes (a : AssetProblem) (I : List Nat) : (a.restrictTo I).nodes = a.nodes := rfl

/-- kept variables of the assets, as variables of the concatenation from offset `off` -/
def keptFrom (I : List Nat) : Nat → List AssetProblem → List Nat
  | _, [] => []
  | off, a :: rest => (a.keep I).map (off + ·) ++ keptFrom I (off + a.n) rest

/-- the rows all of whose variables are kept, as rows of the concatenation from offset `off` -/
def keptRows (I : List Nat) : Nat → List AssetProblem → List Row
  | _, [] => []
  | off, a :: rest =>
    (a.rows.filter fun r => r.coeffs.all fun q => (a.keep I).contains q.1).map (Row.rename (off + ·))
      ++ keptRows I (off + a.n) rest

theorem keptFrom_cons (I : List Nat) (off : Nat) (a : AssetProblem) (rest : List AssetProblem) :
    keptFrom I off (a :: rest) = (a.keep I).map (off + ·) ++ keptFrom I (off + a.n) rest := rfl

theorem keptRows_cons (I : List Nat) (off : Nat) (a : AssetProblem) (rest : List AssetProblem) :
    keptRows I off (a :: rest) =
      (a.rows.filter fun r => r.coeffs.all fun q => (a.keep I).contains q.1).map (Row.rename (off + ·))
        ++ keptRows I (off + a.n) rest := rfl

theorem keptRows_ge (I : List Nat) (off : Nat) (as : List AssetProblem) :
    ∀ r ∈ keptRows I off as, ∀ q ∈ r.coeffs, off ≤ q.1 := by
  induction as generalizing off with
  | nil => intro r hr; simp [keptRows] at hr
  | cons a rest ih =>
    intro r hr q hq
    rw [keptRows_cons] at hr
    rcases List.mem_append.mp hr with h | h
    · obtain ⟨r0, _, rfl⟩ := List.mem_map.mp h
      simp only [Row.rename, List.mem_map] at hq
      obtain ⟨q0, _, rfl⟩ := hq
      simp
    · have := ih (off + a.n) r h q hq; omega

theorem keptFrom_ge (I : List Nat) (off : Nat) (as : List AssetProblem) : ∀ u ∈ keptFrom I off as, off ≤ u := by
  induction as generalizing off with
  | nil => intro u hu; simp [keptFrom] at hu
  | cons a rest ih =>
    intro u hu
    simp only [keptFrom, List.mem_append, List.mem_map] at hu
    rcases hu with ⟨v, _, rfl⟩ | hu
    · omega
    · have := ih (off + a.n) u hu; omega

theorem keptFrom_length (I : List Nat) (off : Nat) (as : List AssetProblem) :
    (keptFrom I off as).length = ((as.map fun a => a.restrictTo I).map (·.n)).sum := by
  induction as generalizing off with
  | nil => simp [keptFrom]
  | cons a rest ih => simp [keptFrom, ih (off + a.n)]

theorem keptFrom_shift (I : List Nat) (off : Nat) (as : List AssetProblem) :
    keptFrom I off as = (keptFrom I 0 as).map (off + ·) := by
  induction as generalizing off with
  | nil => simp [keptFrom]
  | cons a rest ih =>
    simp only [keptFrom, List.map_append, List.map_map, Nat.zero_add]
    rw [ih (off + a.n), ih a.n]
    simp only [List.map_map]
    congr 1
    apply List.map_congr_left; intro v _; simp; omega

/-- what the concatenation of banded asset problems from offset `off` looks like -/
structure GBanded (M : List MapRow) (off n T : Nat) : Prop where
  var_ge    : ∀ m ∈ M, off ≤ m.var
  var_lt    : ∀ m ∈ M, m.var < off + n
  step_lt   : ∀ m ∈ M, m.step < T
  no_bool   : ∀ m ∈ M, m.isBool = false
  same_step : ∀ m ∈ M, ∀ m' ∈ M, m.var = m'.var → m.step = m'.step
  covered   : ∀ u, off ≤ u → u < off + n → ∃ m ∈ M, m.var = u

theorem assembleFrom_gbanded (as : List AssetProblem) (T : Nat) (hB : ∀ a ∈ as, Banded a T) (off : Nat) :
    GBanded (assembleFrom off as).mapping off ((as.map (·.n)).sum) T := by
  induction as generalizing off with
  | nil =>
    refine ⟨?_, ?_, ?_, ?_, ?_, ?_⟩ <;> intro m hm <;> first | (simp at hm) | skip
    intro h1; simp at h1; omega
  | cons a rest ih =>
    have ha := hB a (by simp)
    have hr := ih (fun b hb => hB b (by simp [hb])) (off + a.n)
    rw [assembleFrom_cons_mapping]
    simp only [List.map_cons, List.sum_cons]
    refine ⟨?_, ?_, ?_, ?_, ?_, ?_⟩
    · intro m hm
      rcases List.mem_append.mp hm with h | h
      · obtain ⟨m', _, rfl⟩ := List.mem_map.mp h
        show off ≤ off + m'.var; omega
      · have := hr.var_ge m h; omega
    · intro m hm
      rcases List.mem_append.mp hm with h | h
      · obtain ⟨m', hm', rfl⟩ := List.mem_map.mp h
        have := ha.map_var m' hm'
        show off + m'.var < _; omega
      · have := hr.var_lt m h; omega
    · intro m hm
      rcases List.mem_append.mp hm with h | h
      · obtain ⟨m', hm', rfl⟩ := List.mem_map.mp h
        exact ha.map_step m' hm'
      · exact hr.step_lt m h
    · intro m hm
      rcases List.mem_append.mp hm with h | h
      · obtain ⟨m', hm', rfl⟩ := List.mem_map.mp h
        exact ha.no_bool m' hm'
      · exact hr.no_bool m h
    · intro m hm m' hm' hv
      rcases List.mem_append.mp hm with h | h <;> rcases List.mem_append.mp hm' with h' | h'
      · obtain ⟨m1, hm1, rfl⟩ := List.mem_map.mp h
        obtain ⟨m2, hm2, rfl⟩ := List.mem_map.mp h'
        have hv' : m1.var = m2.var := by
          have : off + m1.var = off + m2.var := hv
          omega
        exact ha.same_step m1 hm1 m2 hm2 hv'
      · obtain ⟨m1, hm1, rfl⟩ := List.mem_map.mp h
        have h1 := ha.map_var m1 hm1
        have h2 := hr.var_ge m' h'
        have : off + m1.var = m'.var := hv
        omega
      · obtain ⟨m2, hm2, rfl⟩ := List.mem_map.mp h'
        have h1 := ha.map_var m2 hm2
        have h2 := hr.var_ge m h
        have : m.var = off + m2.var := hv
        omega
      · exact hr.same_step m h m' h' hv
    · intro u h1 h2
      by_cases hu : u < off + a.n
      · obtain ⟨m, hm, hv⟩ := ha.covered (u - off) (by omega)
        refine ⟨m.shift off, List.mem_append_left _ (List.mem_map_of_mem hm), ?_⟩
        show off + m.var = u; omega
      · obtain ⟨m, hm, hv⟩ := hr.covered u (by omega) (by omega)
        exact ⟨m, List.mem_append_right _ hm, hv⟩

/-- the kept variables of the assets, concatenated, are the variables of the concatenation that sit at steps of
    `I`, in increasing order -/
theorem keptFrom_eq_filter (as : List AssetProblem) (T : Nat) (hB : ∀ a ∈ as, Banded a T) (I : List Nat) (off : Nat) :
    keptFrom I off as =
      ((List.range ((as.map (·.n)).sum)).filter fun j => varAtSteps (assembleFrom off as).mapping I (off + j)).map
        (off + ·) := by
  induction as generalizing off with
  | nil => simp [keptFrom]
  | cons a rest ih =>
    have ha := hB a (by simp)
    have hB' : ∀ b ∈ rest, Banded b T := fun b hb => hB b (by simp [hb])
    have hr := assembleFrom_gbanded rest T hB' (off + a.n)
    simp only [keptFrom, List.map_cons, List.sum_cons]
    rw [List.range_add, List.filter_append, List.map_append, ih hB' (off + a.n), assembleFrom_cons_mapping]
    congr 1
    · -- the asset's own block
      unfold AssetProblem.keep
      congr 1
      apply List.filter_congr
      intro j hj
      have hj' : j < a.n := List.mem_range.mp hj
      rw [Bool.eq_iff_iff, varAtSteps_iff, varAtSteps_iff]
      constructor
      · rintro ⟨m, hm, hv, hs⟩
        exact ⟨m.shift off, List.mem_append_left _ (List.mem_map_of_mem hm), by show off + m.var = off + j; omega, hs⟩
      · rintro ⟨m, hm, hv, hs⟩
        rcases List.mem_append.mp hm with h | h
        · obtain ⟨m', hm', rfl⟩ := List.mem_map.mp h
          refine ⟨m', hm', ?_, hs⟩
          have : off + m'.var = off + j := hv
          omega
        · have := hr.var_ge m h; omega
    · -- the blocks after it
      rw [List.filter_map, List.map_map]
      have e : (fun x => off + x) ∘ (fun x => a.n + x) = fun x => off + a.n + x := by
        funext x; simp; omega
      rw [e]
      congr 1
      apply List.filter_congr
      intro j _
      simp only [Function.comp]
      rw [Bool.eq_iff_iff, varAtSteps_iff, varAtSteps_iff]
      constructor
      · rintro ⟨m, hm, hv, hs⟩
        exact ⟨m, List.mem_append_right _ hm, by omega, hs⟩
      · rintro ⟨m, hm, hv, hs⟩
        rcases List.mem_append.mp hm with h | h
        · obtain ⟨m', hm', rfl⟩ := List.mem_map.mp h
          have := ha.map_var m' hm'
          have : off + m'.var = off + (a.n + j) := hv
          omega
        · exact ⟨m, h, by omega, hs⟩

/-- … hence, for the whole portfolio, the problem's own `keep` -/
theorem keptFrom_eq_pkeep (as : List AssetProblem) (T : Nat) (hB : ∀ a ∈ as, Banded a T) (I : List Nat) :
    keptFrom I 0 as = (assembleFrom 0 as).keep I := by
  rw [keptFrom_eq_filter as T hB I 0]
  unfold Problem.keep
  rw [assembleFrom_n]
  simp

/-! ### cost and bounds of the restricted concatenation -/

theorem flat_c (off : Nat) (as : List AssetProblem) : (assembleFrom off as).c = as.flatMap (·.c) := by
  induction as generalizing off with
  | nil => rfl
  | cons a rest ih => rw [assembleFrom_cons_c, ih, List.flatMap_cons]

theorem flat_l (off : Nat) (as : List AssetProblem) : (assembleFrom off as).l = as.flatMap (·.l) := by
  induction as generalizing off with
  | nil => rfl
  | cons a rest ih => rw [assembleFrom_cons_l, ih, List.flatMap_cons]

theorem flat_u (off : Nat) (as : List AssetProblem) : (assembleFrom off as).u = as.flatMap (·.u) := by
  induction as generalizing off with
  | nil => rfl
  | cons a rest ih => rw [assembleFrom_cons_u, ih, List.flatMap_cons]

theorem kept_flat (f : AssetProblem → List Rat) (I : List Nat) (as : List AssetProblem)
    (hf : ∀ a ∈ as, (f a).length = a.n) :
    (keptFrom I 0 as).map (fun u => (as.flatMap f).getD u 0) =
      as.flatMap fun a => (a.keep I).map fun v => (f a).getD v 0 := by
  induction as with
  | nil => simp [keptFrom]
  | cons a rest ih =>
    have ha := hf a (by simp)
    simp only [keptFrom, List.flatMap_cons, List.map_append, List.map_map, Nat.zero_add]
    congr 1
    · apply List.map_congr_left
      intro v hv
      have hv' : v < (f a).length := by rw [ha]; exact ((mem_keep a I v).mp hv).1
      simp [List.getD_eq_getElem?_getD, List.getElem?_append_left hv']
    · rw [keptFrom_shift, ← ih (fun b hb => hf b (by simp [hb])), List.map_map]
      apply List.map_congr_left
      intro u _
      simp only [Function.comp]
      rw [← ha]
      exact getD_append_right' (f a) (rest.flatMap f) u

theorem restrict_c (I : List Nat) (off : Nat) (as : List AssetProblem) :
    (assembleFrom off (as.map fun a => a.restrictTo I)).c =
      (keptFrom I 0 as).map fun u => (assembleFrom 0 as).c.getD u 0 := by
  rw [flat_c, flat_c, kept_flat (·.c) I as (fun a _ => rfl), List.flatMap_map]
  rfl

theorem restrict_l (I : List Nat) (off : Nat) (as : List AssetProblem) (h : ∀ a ∈ as, a.l.length = a.n) :
    (assembleFrom off (as.map fun a => a.restrictTo I)).l =
      (keptFrom I 0 as).map fun u => (assembleFrom 0 as).l.getD u 0 := by
  rw [flat_l, flat_l, kept_flat (·.l) I as h, List.flatMap_map]
  rfl

theorem restrict_u (I : List Nat) (off : Nat) (as : List AssetProblem) (h : ∀ a ∈ as, a.u.length = a.n) :
    (assembleFrom off (as.map fun a => a.restrictTo I)).u =
      (keptFrom I 0 as).map fun u => (assembleFrom 0 as).u.getD u 0 := by
  rw [flat_u, flat_u, kept_flat (·.u) I as h, List.flatMap_map]
  rfl

/-! ### mapping and rows of the restricted concatenation -/

/-- a mapping row of the unsplit problem as a row of the interval problem: variable renamed, step re-based -/
def renMap (I : List Nat) (τ : Nat → Nat) (m : MapRow) : MapRow := { m with var := τ m.var, step := I.idxOf m.step }

theorem rename_rename (f g : Nat → Nat) (r : Row) : (r.rename f).rename g = r.rename (fun v => g (f v)) := by
  simp [Row.rename, List.map_map, Function.comp_def]

theorem rename_congr (f g : Nat → Nat) (r : Row) (h : ∀ q ∈ r.coeffs, f q.1 = g q.1) : r.rename f = r.rename g := by
  unfold Row.rename
  congr 1
  apply List.map_congr_left
  intro q hq
  rw [h q hq]

/-- index of a kept variable of the first asset in the list of all kept variables -/
theorem idxOf_keptFrom_head (I : List Nat) (off : Nat) (a : AssetProblem) (rest : List AssetProblem) (v : Nat)
    (hv : v ∈ a.keep I) : (keptFrom I off (a :: rest)).idxOf (off + v) = (a.keep I).idxOf v := by
  rw [keptFrom_cons, idxOf_append_left _ _ _ (List.mem_map_of_mem hv)]
  exact idxOf_map_inj (off + ·) (fun x y h => by omega) _ v

/-- index of a variable of a later asset -/
theorem idxOf_keptFrom_tail (I : List Nat) (off : Nat) (a : AssetProblem) (rest : List AssetProblem) (u : Nat)
    (hu : off + a.n ≤ u) :
    (keptFrom I off (a :: rest)).idxOf u = (a.restrictTo I).n + (keptFrom I (off + a.n) rest).idxOf u := by
  rw [keptFrom_cons, idxOf_append_right]
  · simp
  · intro h
    obtain ⟨v, hv, rfl⟩ := List.mem_map.mp h
    have := ((mem_keep a I v).mp hv).1
    omega

theorem restrict_mapping (as : List AssetProblem) (T : Nat) (hB : ∀ a ∈ as, Banded a T) (I : List Nat)
    (off off' : Nat) :
    (assembleFrom off' (as.map fun a => a.restrictTo I)).mapping =
      ((assembleFrom off as).mapping.filter fun m => I.contains m.step).map
        (renMap I fun u => off' + (keptFrom I off as).idxOf u) := by
  induction as generalizing off off' with
  | nil => simp
  | cons a rest ih =>
    have ha := hB a (by simp)
    have hB' : ∀ b ∈ rest, Banded b T := fun b hb => hB b (by simp [hb])
    rw [List.map_cons, assembleFrom_cons_mapping, assembleFrom_cons_mapping, List.filter_append, List.map_append]
    congr 1
    · rw [List.filter_map, List.map_map]
      show ((a.mapping.filter fun m => I.contains m.step).map _).map _ = _
      rw [List.map_map]
      apply List.map_congr_left
      intro m hm
      obtain ⟨hm1, hm2⟩ := List.mem_filter.mp hm
      have hv : m.var ∈ a.keep I := (banded_var_mem_keep ha I m hm1).mpr (List.contains_iff_mem.mp hm2)
      simp only [Function.comp, renMap, MapRow.shift]
      rw [idxOf_keptFrom_head I off a rest m.var hv]
    · rw [ih hB' (off + a.n) (off' + (a.restrictTo I).n)]
      apply List.map_congr_left
      intro m hm
      have hge := (assembleFrom_gbanded rest T hB' (off + a.n)).var_ge m (List.mem_filter.mp hm).1
      simp only [renMap]
      rw [idxOf_keptFrom_tail I off a rest m.var hge]
      congr 1
      omega

theorem restrict_rows (as : List AssetProblem) (I : List Nat) (off off' : Nat) :
    (assembleFrom off' (as.map fun a => a.restrictTo I)).rows =
      (keptRows I off as).map (Row.rename fun u => off' + (keptFrom I off as).idxOf u) := by
  induction as generalizing off off' with
  | nil => simp [keptRows]
  | cons a rest ih =>
    rw [List.map_cons, assembleFrom_cons_rows, keptRows_cons, List.map_append]
    congr 1
    · show ((a.rows.filter _).map _).map _ = _
      rw [List.map_map, List.map_map]
      apply List.map_congr_left
      intro r hr
      have hall := (List.mem_filter.mp hr).2
      simp only [Function.comp, rename_rename]
      apply rename_congr
      intro q hq
      have hq' : q.1 ∈ a.keep I := List.contains_iff_mem.mp (List.all_eq_true.mp hall q hq)
      rw [idxOf_keptFrom_head I off a rest q.1 hq']
    · rw [ih (off + a.n) (off' + (a.restrictTo I).n)]
      apply List.map_congr_left
      intro r hr
      apply rename_congr
      intro q hq
      have hge : off + a.n ≤ q.1 := keptRows_ge I (off + a.n) rest r hr q hq
      rw [idxOf_keptFrom_tail I off a rest q.1 hge]
      omega

theorem keptRows_sub (I : List Nat) (off : Nat) (as : List AssetProblem) :
    ∀ r ∈ keptRows I off as, r ∈ (assembleFrom off as).rows ∧ ∀ q ∈ r.coeffs, q.1 ∈ keptFrom I off as := by
  induction as generalizing off with
  | nil => intro r hr; simp [keptRows] at hr
  | cons a rest ih =>
    intro r hr
    rw [keptRows_cons] at hr
    rw [assembleFrom_cons_rows, keptFrom_cons]
    rcases List.mem_append.mp hr with h | h
    · obtain ⟨r0, hr0, rfl⟩ := List.mem_map.mp h
      obtain ⟨h1, h2⟩ := List.mem_filter.mp hr0
      refine ⟨List.mem_append_left _ (List.mem_map_of_mem h1), ?_⟩
      intro q hq
      simp only [Row.rename, List.mem_map] at hq
      obtain ⟨q0, hq0, rfl⟩ := hq
      exact List.mem_append_left _ (List.mem_map_of_mem (List.contains_iff_mem.mp (List.all_eq_true.mp h2 q0 hq0)))
    · obtain ⟨g1, g2⟩ := ih (off + a.n) r h
      exact ⟨List.mem_append_right _ g1, fun q hq => List.mem_append_right _ (g2 q hq)⟩

theorem rows_cover (Is : List (List Nat)) (as : List AssetProblem) (hR : ∀ a ∈ as, RowsInside a Is) (off : Nat) :
    ∀ r ∈ (assembleFrom off as).rows, ∃ I ∈ Is, r ∈ keptRows I off as := by
  induction as generalizing off with
  | nil => intro r hr; simp at hr
  | cons a rest ih =>
    intro r hr
    rw [assembleFrom_cons_rows] at hr
    rcases List.mem_append.mp hr with h | h
    · obtain ⟨r0, hr0, rfl⟩ := List.mem_map.mp h
      obtain ⟨I, hI, hall⟩ := hR a (by simp) r0 hr0
      refine ⟨I, hI, ?_⟩
      rw [keptRows_cons]
      apply List.mem_append_left
      apply List.mem_map_of_mem
      rw [List.mem_filter]
      refine ⟨hr0, List.all_eq_true.mpr fun q hq => List.contains_iff_mem.mpr (hall q hq)⟩
    · obtain ⟨I, hI, hk⟩ := ih (fun b hb => hR b (by simp [hb])) (off + a.n) r h
      exact ⟨I, hI, by rw [keptRows_cons]; exact List.mem_append_right _ hk⟩

/-! ### one interval problem against the unsplit problem -/

theorem portfolioNodes_restrict (as : List AssetProblem) (I : List Nat) :
    portfolioNodes (as.map fun a => a.restrictTo I) = portfolioNodes as := by
  unfold portfolioNodes
  rw [List.flatMap_map]
  rfl

theorem isDisp_renMap (I : List Nat) (τ : Nat → Nat) (n : String) (t : Nat) (m : MapRow)
    (ht : t ∈ I) : (I.contains m.step && isDisp n (I.idxOf t) (renMap I τ m)) = isDisp n t m := by
  rw [Bool.eq_iff_iff]
  simp only [Bool.and_eq_true, isDisp_iff, List.contains_iff_mem, renMap]
  constructor
  · rintro ⟨hs, hk, hn, he⟩
    exact ⟨hk, hn, (idxOf_inj_of_mem I t m.step ht he.symm).symm⟩
  · rintro ⟨hk, hn, he⟩
    exact ⟨he ▸ ht, hk, hn, by rw [he]⟩

/-- the nodal row of the interval problem at the re-based step is the renamed nodal row of the unsplit problem -/
theorem nodalRow_restrict (M : List MapRow) (I : List Nat) (τ : Nat → Nat) (n : String) (t : Nat) (ht : t ∈ I) :
    nodalRow ((M.filter fun m => I.contains m.step).map (renMap I τ)) n (I.idxOf t) = (nodalRow M n t).rename τ := by
  unfold nodalRow Row.rename
  simp only [List.filter_map, List.map_map, List.filter_filter]
  congr 1
  rw [List.filter_congr (q := isDisp n t)]
  · rfl
  · intro m _
    rw [Bool.and_comm]
    exact isDisp_renMap I τ n t m ht

theorem pkeep_assemble (as : List AssetProblem) (gridI : List Nat) (skip : List String) (I : List Nat) :
    (assemble as gridI skip).keep I = (assembleFrom 0 as).keep I := by
  unfold Problem.keep
  simp

theorem intervalProblem_rows (as : List AssetProblem) (skip : List String) (I : List Nat) :
    (intervalProblem as skip I).rows =
      (assembleFrom 0 (as.map fun a => a.restrictTo I)).rows ++
        (nodalPairs (assembleFrom 0 (as.map fun a => a.restrictTo I)).mapping (portfolioNodes as) skip
          (List.range I.length)).map
          fun p => nodalRow (assembleFrom 0 (as.map fun a => a.restrictTo I)).mapping p.2 p.1 := by
  show (assemble _ _ _).rows = _
  rw [assemble_rows, portfolioNodes_restrict]

/-- the mapping of the interval problem, written with the unsplit mapping -/
theorem intervalMapping (as : List AssetProblem) (T : Nat) (hB : ∀ a ∈ as, Banded a T) (I : List Nat) :
    (assembleFrom 0 (as.map fun a => a.restrictTo I)).mapping =
      ((assembleFrom 0 as).mapping.filter fun m => I.contains m.step).map
        (renMap I fun u => ((assembleFrom 0 as).keep I).idxOf u) := by
  rw [restrict_mapping as T hB I 0 0, keptFrom_eq_pkeep as T hB I]
  simp

theorem intervalRows (as : List AssetProblem) (T : Nat) (hB : ∀ a ∈ as, Banded a T) (I : List Nat) :
    (assembleFrom 0 (as.map fun a => a.restrictTo I)).rows =
      (keptRows I 0 as).map (Row.rename fun u => ((assembleFrom 0 as).keep I).idxOf u) := by
  rw [restrict_rows as I 0 0, keptFrom_eq_pkeep as T hB I]
  simp

/-- a dispatch row of the unsplit mapping at a step of `I` belongs to a kept variable -/
theorem disp_var_kept (as : List AssetProblem) (T : Nat) (hB : ∀ a ∈ as, Banded a T) (I : List Nat) (m : MapRow)
    (hm : m ∈ (assembleFrom 0 as).mapping) (hs : m.step ∈ I) : m.var ∈ (assembleFrom 0 as).keep I := by
  rw [mem_pkeep]
  have := (assembleFrom_gbanded as T hB 0).var_lt m hm
  rw [assembleFrom_n]
  exact ⟨by omega, m, hm, rfl, hs⟩

/-- every row of the interval problem is a renamed row of the unsplit problem over kept variables -/
theorem interval_rows_sub (as : List AssetProblem) (T : Nat) (hB : ∀ a ∈ as, Banded a T) (skip : List String)
    (I : List Nat) :
    ∀ R ∈ (intervalProblem as skip I).rows, ∃ r ∈ (assemble as (List.range T) skip).rows,
      (∀ q ∈ r.coeffs, q.1 ∈ (assembleFrom 0 as).keep I) ∧
      R = r.rename fun u => ((assembleFrom 0 as).keep I).idxOf u := by
  intro R hR
  rw [intervalProblem_rows] at hR
  rw [assemble_rows]
  rcases List.mem_append.mp hR with h | h
  · rw [intervalRows as T hB I] at h
    obtain ⟨r, hr, rfl⟩ := List.mem_map.mp h
    obtain ⟨g1, g2⟩ := keptRows_sub I 0 as r hr
    rw [keptFrom_eq_pkeep as T hB I] at g2
    exact ⟨r, List.mem_append_left _ g1, g2, rfl⟩
  · obtain ⟨⟨r', n⟩, hp, rfl⟩ := List.mem_map.mp h
    obtain ⟨hn, hs, _, hany⟩ := (mem_nodalPairs_iff _ _ _ _ r' n).mp hp
    rw [intervalMapping as T hB I] at hany ⊢
    obtain ⟨m', hm', hd⟩ := List.any_eq_true.mp hany
    obtain ⟨m, hm, rfl⟩ := List.mem_map.mp hm'
    obtain ⟨hmM, hmI⟩ := List.mem_filter.mp hm
    have hmI' : m.step ∈ I := List.contains_iff_mem.mp hmI
    obtain ⟨hk, hnode, hstep⟩ := (isDisp_iff _ _ _).mp hd
    have hstep' : I.idxOf m.step = r' := hstep
    have hlt := (assembleFrom_gbanded as T hB 0).step_lt m hmM
    refine ⟨nodalRow (assembleFrom 0 as).mapping n m.step, ?_, ?_, ?_⟩
    · apply List.mem_append_right
      refine List.mem_map.mpr ⟨(m.step, n), ?_, rfl⟩
      rw [mem_nodalPairs_iff]
      refine ⟨hn, hs, List.mem_range.mpr hlt, List.any_eq_true.mpr ⟨m, hmM, ?_⟩⟩
      exact (isDisp_iff _ _ _).mpr ⟨hk, hnode, rfl⟩
    · intro q hq
      obtain ⟨m1, hm1, hd1, rfl⟩ := mem_nodalRow_coeffs _ _ _ _ hq
      have := ((isDisp_iff _ _ _).mp hd1).2.2
      exact disp_var_kept as T hB I m1 hm1 (this ▸ hmI')
    · show nodalRow _ n r' = _
      rw [← hstep']
      exact nodalRow_restrict _ I _ n m.step hmI'

/-- every kept row of the assets occurs, renamed, in the interval problem -/
theorem interval_rows_sup_asset (as : List AssetProblem) (T : Nat) (hB : ∀ a ∈ as, Banded a T) (skip : List String)
    (I : List Nat) :
    ∀ r ∈ keptRows I 0 as,
      (r.rename fun u => ((assembleFrom 0 as).keep I).idxOf u) ∈ (intervalProblem as skip I).rows := by
  intro r hr
  rw [intervalProblem_rows, intervalRows as T hB I]
  exact List.mem_append_left _ (List.mem_map_of_mem hr)

/-- every nodal row of the unsplit problem at a step of `I` occurs, renamed, in the interval problem, and its
    variables are kept -/
theorem interval_rows_sup_nodal (as : List AssetProblem) (T : Nat) (hB : ∀ a ∈ as, Banded a T) (skip : List String)
    (I : List Nat) (t : Nat) (n : String)
    (hp : (t, n) ∈ nodalPairs (assembleFrom 0 as).mapping (portfolioNodes as) skip (List.range T)) (ht : t ∈ I) :
    ((nodalRow (assembleFrom 0 as).mapping n t).rename fun u => ((assembleFrom 0 as).keep I).idxOf u)
        ∈ (intervalProblem as skip I).rows ∧
      ∀ q ∈ (nodalRow (assembleFrom 0 as).mapping n t).coeffs, q.1 ∈ (assembleFrom 0 as).keep I := by
  obtain ⟨hn, hs, _, hany⟩ := (mem_nodalPairs_iff _ _ _ _ t n).mp hp
  obtain ⟨m, hm, hd⟩ := List.any_eq_true.mp hany
  obtain ⟨hk, hnode, hstep⟩ := (isDisp_iff _ _ _).mp hd
  constructor
  · rw [intervalProblem_rows]
    apply List.mem_append_right
    refine List.mem_map.mpr ⟨(I.idxOf t, n), ?_, ?_⟩
    · rw [mem_nodalPairs_iff]
      refine ⟨hn, hs, List.mem_range.mpr (List.idxOf_lt_length_of_mem ht), ?_⟩
      rw [intervalMapping as T hB I]
      refine List.any_eq_true.mpr ⟨renMap I _ m, List.mem_map_of_mem (List.mem_filter.mpr ⟨hm, ?_⟩), ?_⟩
      · exact List.contains_iff_mem.mpr (hstep ▸ ht)
      · refine (isDisp_iff _ _ _).mpr ⟨hk, hnode, ?_⟩
        show I.idxOf m.step = I.idxOf t
        rw [hstep]
    · show nodalRow _ n (I.idxOf t) = _
      rw [intervalMapping as T hB I]
      exact nodalRow_restrict _ I _ n t ht
  · intro q hq
    obtain ⟨m1, hm1, hd1, rfl⟩ := mem_nodalRow_coeffs _ _ _ _ hq
    have := ((isDisp_iff _ _ _).mp hd1).2.2
    exact disp_var_kept as T hB I m1 hm1 (this ▸ ht)

/-! ### all interval problems against the unsplit problem -/

theorem interval_c (as : List AssetProblem) (T : Nat) (hB : ∀ a ∈ as, Banded a T) (skip : List String) (I : List Nat) :
    (intervalProblem as skip I).c = ((assembleFrom 0 as).keep I).map fun u => (assembleFrom 0 as).c.getD u 0 := by
  show (assembleFrom 0 _).c = _
  rw [restrict_c, keptFrom_eq_pkeep as T hB I]

theorem interval_l (as : List AssetProblem) (T : Nat) (hB : ∀ a ∈ as, Banded a T) (skip : List String) (I : List Nat) :
    (intervalProblem as skip I).l = ((assembleFrom 0 as).keep I).map fun u => (assembleFrom 0 as).l.getD u 0 := by
  show (assembleFrom 0 _).l = _
  rw [restrict_l I 0 as (fun a ha => (hB a ha).l_len), keptFrom_eq_pkeep as T hB I]

theorem interval_u (as : List AssetProblem) (T : Nat) (hB : ∀ a ∈ as, Banded a T) (skip : List String) (I : List Nat) :
    (intervalProblem as skip I).u = ((assembleFrom 0 as).keep I).map fun u => (assembleFrom 0 as).u.getD u 0 := by
  show (assembleFrom 0 _).u = _
  rw [restrict_u I 0 as (fun a ha => (hB a ha).u_len), keptFrom_eq_pkeep as T hB I]

theorem interval_n (as : List AssetProblem) (T : Nat) (hB : ∀ a ∈ as, Banded a T) (skip : List String) (I : List Nat) :
    (intervalProblem as skip I).n = ((assembleFrom 0 as).keep I).length := by
  unfold Problem.n
  rw [interval_c as T hB skip I, List.length_map]

/-- the block sum of the interval problems, from offset `o` -/
def blocks (as : List AssetProblem) (skip : List String) (o : Nat) (Js : List (List Nat)) : Problem :=
  assembleFrom o (Js.map fun I => (intervalProblem as skip I).toAsset)

theorem blockSum_eq_blocks (as : List AssetProblem) (skip : List String) (Js : List (List Nat)) :
    blockSum (Js.map (intervalProblem as skip)) = blocks as skip 0 Js := by
  unfold blockSum blocks
  rw [List.map_map]
  rfl

theorem blocks_c (as : List AssetProblem) (T : Nat) (hB : ∀ a ∈ as, Banded a T) (skip : List String) (o : Nat)
    (Js : List (List Nat)) :
    (blocks as skip o Js).c =
      (Js.flatMap fun I => (assembleFrom 0 as).keep I).map fun u => (assembleFrom 0 as).c.getD u 0 := by
  unfold blocks
  rw [flat_c, List.flatMap_map, List.map_flatMap]
  congr 1
  funext I
  exact interval_c as T hB skip I

theorem blocks_l (as : List AssetProblem) (T : Nat) (hB : ∀ a ∈ as, Banded a T) (skip : List String) (o : Nat)
    (Js : List (List Nat)) :
    (blocks as skip o Js).l =
      (Js.flatMap fun I => (assembleFrom 0 as).keep I).map fun u => (assembleFrom 0 as).l.getD u 0 := by
  unfold blocks
  rw [flat_l, List.flatMap_map, List.map_flatMap]
  congr 1
  funext I
  exact interval_l as T hB skip I

theorem blocks_u (as : List AssetProblem) (T : Nat) (hB : ∀ a ∈ as, Banded a T) (skip : List String) (o : Nat)
    (Js : List (List Nat)) :
    (blocks as skip o Js).u =
      (Js.flatMap fun I => (assembleFrom 0 as).keep I).map fun u => (assembleFrom 0 as).u.getD u 0 := by
  unfold blocks
  rw [flat_u, List.flatMap_map, List.map_flatMap]
  congr 1
  funext I
  exact interval_u as T hB skip I

theorem idx_in_block (pre K rest : List Nat) (u : Nat) (hu : u ∈ K) (hn : u ∉ pre) :
    (pre ++ (K ++ rest)).idxOf u = pre.length + K.idxOf u := by
  rw [idxOf_append_right _ _ _ hn, idxOf_append_left _ _ _ hu]

theorem blocks_cons (as : List AssetProblem) (skip : List String) (o : Nat) (I : List Nat) (Js : List (List Nat)) :
    (blocks as skip o (I :: Js)).rows =
      (intervalProblem as skip I).rows.map (Row.rename (o + ·)) ++
        (blocks as skip (o + (intervalProblem as skip I).n) Js).rows := rfl

/-- every row of the block sum is a row of the unsplit problem, renamed along the matching -/
theorem blocks_rows_sub (as : List AssetProblem) (T : Nat) (hB : ∀ a ∈ as, Banded a T) (skip : List String)
    (Js : List (List Nat)) (pre : List Nat)
    (hpre : ∀ I ∈ Js, ∀ u ∈ (assembleFrom 0 as).keep I, u ∉ pre)
    (hdisj : Js.Pairwise fun I J => ∀ u ∈ (assembleFrom 0 as).keep I, u ∉ (assembleFrom 0 as).keep J) :
    ∀ R ∈ (blocks as skip pre.length Js).rows, ∃ r ∈ (assemble as (List.range T) skip).rows,
      R = r.rename fun u => (pre ++ Js.flatMap fun I => (assembleFrom 0 as).keep I).idxOf u := by
  induction Js generalizing pre with
  | nil => intro R hR; simp [blocks] at hR
  | cons I Js ih =>
    intro R hR
    rw [blocks_cons] at hR
    obtain ⟨hd1, hd2⟩ := List.pairwise_cons.mp hdisj
    rcases List.mem_append.mp hR with h | h
    · obtain ⟨R0, hR0, rfl⟩ := List.mem_map.mp h
      obtain ⟨r, hr, hv, rfl⟩ := interval_rows_sub as T hB skip I R0 hR0
      refine ⟨r, hr, ?_⟩
      rw [rename_rename, List.flatMap_cons]
      apply rename_congr
      intro q hq
      exact (idx_in_block pre _ _ q.1 (hv q hq) (hpre I (by simp) q.1 (hv q hq))).symm
    · rw [interval_n as T hB skip I] at h
      have hlen : pre.length + ((assembleFrom 0 as).keep I).length = (pre ++ (assembleFrom 0 as).keep I).length := by
        simp
      rw [hlen] at h
      obtain ⟨r, hr, hR⟩ := ih (pre ++ (assembleFrom 0 as).keep I) (by
        intro J hJ u hu hmem
        rcases List.mem_append.mp hmem with h1 | h1
        · exact hpre J (by simp [hJ]) u hu h1
        · exact hd1 J hJ u h1 hu) hd2 R h
      refine ⟨r, hr, ?_⟩
      rw [hR, List.flatMap_cons, List.append_assoc]

/-- every row of the unsplit problem that belongs to one of the step lists occurs, renamed along the matching, in
    the block sum -/
theorem blocks_rows_sup (as : List AssetProblem) (T : Nat) (hB : ∀ a ∈ as, Banded a T) (skip : List String)
    (Js : List (List Nat)) (pre : List Nat)
    (hpre : ∀ I ∈ Js, ∀ u ∈ (assembleFrom 0 as).keep I, u ∉ pre)
    (hdisj : Js.Pairwise fun I J => ∀ u ∈ (assembleFrom 0 as).keep I, u ∉ (assembleFrom 0 as).keep J)
    (I : List Nat) (hI : I ∈ Js) (r : Row) (hv : ∀ q ∈ r.coeffs, q.1 ∈ (assembleFrom 0 as).keep I)
    (hr : (r.rename fun u => ((assembleFrom 0 as).keep I).idxOf u) ∈ (intervalProblem as skip I).rows) :
    (r.rename fun u => (pre ++ Js.flatMap fun I => (assembleFrom 0 as).keep I).idxOf u)
      ∈ (blocks as skip pre.length Js).rows := by
  induction Js generalizing pre with
  | nil => simp at hI
  | cons I0 Js ih =>
    rw [blocks_cons]
    obtain ⟨hd1, hd2⟩ := List.pairwise_cons.mp hdisj
    rcases List.mem_cons.mp hI with rfl | hI'
    · apply List.mem_append_left
      refine List.mem_map.mpr ⟨_, hr, ?_⟩
      rw [rename_rename, List.flatMap_cons]
      apply rename_congr
      intro q hq
      exact (idx_in_block pre _ _ q.1 (hv q hq) (hpre I (by simp) q.1 (hv q hq))).symm
    · apply List.mem_append_right
      rw [interval_n as T hB skip I0]
      have hlen : pre.length + ((assembleFrom 0 as).keep I0).length = (pre ++ (assembleFrom 0 as).keep I0).length := by
        simp
      rw [hlen]
      have := ih (pre ++ (assembleFrom 0 as).keep I0) (by
        intro J hJ u hu hmem
        rcases List.mem_append.mp hmem with h1 | h1
        · exact hpre J (by simp [hJ]) u hu h1
        · exact hd1 J hJ u h1 hu) hd2 hI'
      rw [List.flatMap_cons, ← List.append_assoc]
      exact this

/-! ### the matching is a permutation -/

theorem pairwiseDisjoint_spec (Is : List (List Nat)) (h : pairwiseDisjoint Is = true) :
    Is.Pairwise fun I J => ∀ t ∈ I, t ∉ J := by
  induction Is with
  | nil => exact List.Pairwise.nil
  | cons I rest ih =>
    simp only [pairwiseDisjoint, Bool.and_eq_true, List.all_eq_true] at h
    refine List.pairwise_cons.mpr ⟨?_, ih h.2⟩
    intro J hJ t ht hc
    have := h.1 J hJ t ht
    simp [hc] at this

theorem isPartition_spec (Is : List (List Nat)) (T : Nat) (h : isPartition Is T = true) :
    (∀ t, t < T → ∃ I ∈ Is, t ∈ I) ∧ Is.Pairwise fun I J => ∀ t ∈ I, t ∉ J := by
  simp only [isPartition, Bool.and_eq_true, List.all_eq_true, List.any_eq_true] at h
  refine ⟨fun t ht => ?_, pairwiseDisjoint_spec Is h.2⟩
  obtain ⟨I, hI, hc⟩ := h.1 t (List.mem_range.mpr ht)
  exact ⟨I, hI, List.contains_iff_mem.mp hc⟩

/-- disjoint step lists keep disjoint sets of variables -/
theorem keep_disjoint (as : List AssetProblem) (T : Nat) (hB : ∀ a ∈ as, Banded a T) (Is : List (List Nat))
    (hd : Is.Pairwise fun I J => ∀ t ∈ I, t ∉ J) :
    Is.Pairwise fun I J => ∀ u ∈ (assembleFrom 0 as).keep I, u ∉ (assembleFrom 0 as).keep J := by
  apply List.Pairwise.imp _ hd
  intro I J hIJ u hu hu'
  obtain ⟨_, m, hm, hv, hs⟩ := (mem_pkeep _ _ _).mp hu
  obtain ⟨_, m', hm', hv', hs'⟩ := (mem_pkeep _ _ _).mp hu'
  have := (assembleFrom_gbanded as T hB 0).same_step m hm m' hm' (hv.trans hv'.symm)
  exact hIJ m.step hs (this ▸ hs')

theorem splitPerm_isPerm (as : List AssetProblem) (T : Nat) (hB : ∀ a ∈ as, Banded a T) (Is : List (List Nat))
    (hP : isPartition Is T = true) :
    isPermOf (Is.flatMap fun I => (assembleFrom 0 as).keep I) (assembleFrom 0 as).n = true := by
  obtain ⟨hcov, hd⟩ := isPartition_spec Is T hP
  have hG := assembleFrom_gbanded as T hB 0
  have hn : (assembleFrom 0 as).n = (as.map (·.n)).sum := assembleFrom_n 0 as
  have hnodup : (Is.flatMap fun I => (assembleFrom 0 as).keep I).Nodup := by
    rw [List.Nodup, List.pairwise_flatMap]
    refine ⟨fun I _ => pkeep_nodup _ I, ?_⟩
    apply List.Pairwise.imp _ (keep_disjoint as T hB Is hd)
    intro I J h x hx y hy hxy
    exact h x hx (hxy ▸ hy)
  have hlt : ∀ u ∈ (Is.flatMap fun I => (assembleFrom 0 as).keep I), u < (assembleFrom 0 as).n := by
    intro u hu
    obtain ⟨I, _, huI⟩ := List.mem_flatMap.mp hu
    exact ((mem_pkeep _ _ _).mp huI).1
  have hall : ∀ u, u < (assembleFrom 0 as).n → u ∈ (Is.flatMap fun I => (assembleFrom 0 as).keep I) := by
    intro u hu
    obtain ⟨m, hm, hv⟩ := hG.covered u (by omega) (by omega)
    obtain ⟨I, hI, ht⟩ := hcov m.step (hG.step_lt m hm)
    exact List.mem_flatMap.mpr ⟨I, hI, (mem_pkeep _ _ _).mpr ⟨hu, m, hm, hv, ht⟩⟩
  have hperm : (Is.flatMap fun I => (assembleFrom 0 as).keep I).Perm (List.range (assembleFrom 0 as).n) := by
    rw [List.perm_ext_iff_of_nodup hnodup List.nodup_range]
    intro u
    rw [List.mem_range]
    exact ⟨hlt u, hall u⟩
  unfold isPermOf
  simp only [Bool.and_eq_true, decide_eq_true_eq, List.all_eq_true]
  refine ⟨⟨⟨?_, hlt⟩, hnodup⟩, ?_⟩
  · rw [hperm.length_eq, List.length_range]
  · intro u hu
    exact List.contains_iff_mem.mpr (hall u (List.mem_range.mp hu))

/-! ### well-formedness, boolean variables, rows as sets -/

theorem assembleFrom_var_lt (as : List AssetProblem) (h : ∀ a ∈ as, ∀ m ∈ a.mapping, m.var < a.n) (off : Nat) :
    ∀ m ∈ (assembleFrom off as).mapping, m.var < off + (as.map (·.n)).sum := by
  induction as generalizing off with
  | nil => intro m hm; simp at hm
  | cons a rest ih =>
    intro m hm
    rw [assembleFrom_cons_mapping] at hm
    simp only [List.map_cons, List.sum_cons]
    rcases List.mem_append.mp hm with h1 | h1
    · obtain ⟨m', hm', rfl⟩ := List.mem_map.mp h1
      have := h a (by simp) m' hm'
      show off + m'.var < _
      omega
    · have := ih (fun b hb => h b (by simp [hb])) (off + a.n) m h1
      omega

theorem assemble_wfIdx (as : List AssetProblem) (gridI : List Nat) (skip : List String)
    (h : ∀ a ∈ as, a.l.length = a.n ∧ a.u.length = a.n ∧ (∀ m ∈ a.mapping, m.var < a.n) ∧
      (∀ r ∈ a.rows, ∀ q ∈ r.coeffs, q.1 < a.n)) :
    (assemble as gridI skip).wfIdx = true := by
  have hn : (assemble as gridI skip).n = (as.map (·.n)).sum := by
    rw [assemble_n, assembleFrom_n]
  have hmap : ∀ m ∈ (assembleFrom 0 as).mapping, m.var < (as.map (·.n)).sum := by
    intro m hm
    have := assembleFrom_var_lt as (fun a ha => (h a ha).2.2.1) 0 m hm
    omega
  unfold Problem.wfIdx
  simp only [Bool.and_eq_true, decide_eq_true_eq, List.all_eq_true]
  refine ⟨⟨⟨?_, ?_⟩, ?_⟩, ?_⟩
  · rw [hn, assemble_l, assembleFrom_l_length as 0 (fun a ha => (h a ha).1)]
  · rw [hn, assemble_u, assembleFrom_u_length as 0 (fun a ha => (h a ha).2.1)]
  · intro r hr q hq
    rw [hn]
    rw [assemble_rows] at hr
    rcases List.mem_append.mp hr with h1 | h1
    · have := assembleFrom_cols as 0 (fun a ha => (h a ha).2.2.2) r h1 q hq
      omega
    · obtain ⟨p, _, rfl⟩ := List.mem_map.mp h1
      obtain ⟨m, hm, _, rfl⟩ := mem_nodalRow_coeffs _ _ _ _ hq
      exact hmap m hm
  · intro m hm
    rw [hn]
    rw [assemble_mapping] at hm
    exact hmap m hm

theorem restrictTo_wf {a : AssetProblem} {T : Nat} (h : Banded a T) (I : List Nat) :
    (a.restrictTo I).l.length = (a.restrictTo I).n ∧ (a.restrictTo I).u.length = (a.restrictTo I).n ∧
    (∀ m ∈ (a.restrictTo I).mapping, m.var < (a.restrictTo I).n) ∧
    (∀ r ∈ (a.restrictTo I).rows, ∀ q ∈ r.coeffs, q.1 < (a.restrictTo I).n) := by
  refine ⟨by rw [restrictTo_n]; simp [AssetProblem.restrictTo],
          by rw [restrictTo_n]; simp [AssetProblem.restrictTo], ?_, ?_⟩
  · intro m hm
    rw [restrictTo_n]
    simp only [AssetProblem.restrictTo, List.mem_map] at hm
    obtain ⟨m0, hm0, rfl⟩ := hm
    obtain ⟨h1, h2⟩ := List.mem_filter.mp hm0
    exact List.idxOf_lt_length_of_mem ((banded_var_mem_keep h I m0 h1).mpr (List.contains_iff_mem.mp h2))
  · intro r hr q hq
    rw [restrictTo_n]
    simp only [AssetProblem.restrictTo, List.mem_map] at hr
    obtain ⟨r0, hr0, rfl⟩ := hr
    obtain ⟨_, h2⟩ := List.mem_filter.mp hr0
    simp only [Row.rename, List.mem_map] at hq
    obtain ⟨q0, hq0, rfl⟩ := hq
    exact List.idxOf_lt_length_of_mem (List.contains_iff_mem.mp (List.all_eq_true.mp h2 q0 hq0))

theorem boolVars_nil (P : Problem) (h : ∀ m ∈ P.mapping, m.isBool = false) : P.boolVars = [] := by
  unfold Problem.boolVars
  rw [List.map_eq_nil_iff, List.filter_eq_nil_iff]
  intro m hm
  rw [h m (mem_firstRows _ _ m hm)]
  simp

theorem same_self (r : Row) : r.same r = true := by simp [Row.same]

theorem rowsSubset_of_mem (as bs : List Row) (h : ∀ r ∈ as, r ∈ bs) :
    rowsSubset (as.map Row.norm) (bs.map Row.norm) = true := by
  unfold rowsSubset
  rw [List.all_eq_true]
  intro x hx
  obtain ⟨r, hr, rfl⟩ := List.mem_map.mp hx
  exact List.any_eq_true.mpr ⟨r.norm, List.mem_map_of_mem (h r hr), same_self _⟩

theorem blocks_no_bool (as : List AssetProblem) (T : Nat) (hB : ∀ a ∈ as, Banded a T) (skip : List String) (o : Nat)
    (Js : List (List Nat)) : ∀ m ∈ (blocks as skip o Js).mapping, m.isBool = false := by
  induction Js generalizing o with
  | nil => intro m hm; simp [blocks] at hm
  | cons I Js ih =>
    intro m hm
    have hm' : m ∈ (intervalProblem as skip I).mapping.map (MapRow.shift o) ++
        (blocks as skip (o + (intervalProblem as skip I).n) Js).mapping := hm
    rcases List.mem_append.mp hm' with h | h
    · obtain ⟨m0, hm0, rfl⟩ := List.mem_map.mp h
      have hm1 : m0 ∈ (assembleFrom 0 (as.map fun a => a.restrictTo I)).mapping := hm0
      rw [intervalMapping as T hB I] at hm1
      obtain ⟨m1, hm1', rfl⟩ := List.mem_map.mp hm1
      exact (assembleFrom_gbanded as T hB 0).no_bool m1 (List.mem_filter.mp hm1').1
    · exact ih _ m h

/-! ### the general theorem -/

theorem splitPerm_assemble (as : List AssetProblem) (gridI : List Nat) (skip : List String) (Is : List (List Nat)) :
    splitPerm (assemble as gridI skip) Is = Is.flatMap fun I => (assembleFrom 0 as).keep I := by
  unfold splitPerm
  congr 1

theorem banded_wf {a : AssetProblem} {T : Nat} (h : Banded a T) :
    a.l.length = a.n ∧ a.u.length = a.n ∧ (∀ m ∈ a.mapping, m.var < a.n) ∧
      (∀ r ∈ a.rows, ∀ q ∈ r.coeffs, q.1 < a.n) :=
  ⟨h.l_len, h.u_len, h.map_var, fun r hr => (h.rows_ok r hr).2⟩

theorem intervalProblem_wfIdx (as : List AssetProblem) (T : Nat) (hB : ∀ a ∈ as, Banded a T) (skip : List String)
    (I : List Nat) : (intervalProblem as skip I).wfIdx = true := by
  apply assemble_wfIdx (as.map fun a => a.restrictTo I) (List.range I.length) skip
  intro a' ha'
  obtain ⟨a, ha, rfl⟩ := List.mem_map.mp ha'
  exact restrictTo_wf (hB a ha) I

theorem witness_of_banded (as : List AssetProblem) (T : Nat) (Is : List (List Nat)) (skip : List String)
    (hB : ∀ a ∈ as, Banded a T) (hP : isPartition Is T = true) (hR : ∀ a ∈ as, RowsInside a Is) :
    splitWitness (assemble as (List.range T) skip) (Is.map (intervalProblem as skip))
      (splitPerm (assemble as (List.range T) skip) Is) = true := by
  obtain ⟨hcov, hd⟩ := isPartition_spec Is T hP
  have hkd := keep_disjoint as T hB Is hd
  have hG := assembleFrom_gbanded as T hB 0
  rw [splitPerm_assemble]
  unfold splitWitness
  simp only [Bool.and_eq_true]
  refine ⟨⟨⟨?_, ?_⟩, ?_⟩, ?_⟩
  · exact assemble_wfIdx as _ skip (fun a ha => banded_wf (hB a ha))
  · rw [List.all_eq_true]
    intro P hP'
    obtain ⟨I, _, rfl⟩ := List.mem_map.mp hP'
    exact intervalProblem_wfIdx as T hB skip I
  · rw [assemble_n]
    exact splitPerm_isPerm as T hB Is hP
  · rw [blockSum_eq_blocks]
    unfold sameProblem
    have hc : ((assemble as (List.range T) skip).renameAlong
        (Is.flatMap fun I => (assembleFrom 0 as).keep I)).c = (blocks as skip 0 Is).c := by
      rw [blocks_c as T hB skip 0 Is]; rfl
    simp only [Bool.and_eq_true, decide_eq_true_eq]
    refine ⟨⟨⟨⟨⟨⟨⟨?_, hc⟩, ?_⟩, ?_⟩, ?_⟩, ?_⟩, ?_⟩, ?_⟩
    · unfold Problem.n; rw [hc]
    · rw [blocks_l as T hB skip 0 Is]; rfl
    · rw [blocks_u as T hB skip 0 Is]; rfl
    · -- every unsplit row occurs among the interval rows
      apply rowsSubset_of_mem
      intro R hR'
      have hR'' : R ∈ (assemble as (List.range T) skip).rows.map
          (Row.rename (invPerm (Is.flatMap fun I => (assembleFrom 0 as).keep I))) := hR'
      obtain ⟨r, hr, rfl⟩ := List.mem_map.mp hR''
      rw [assemble_rows] at hr
      have key : ∀ I ∈ Is, (∀ q ∈ r.coeffs, q.1 ∈ (assembleFrom 0 as).keep I) →
          (r.rename fun u => ((assembleFrom 0 as).keep I).idxOf u) ∈ (intervalProblem as skip I).rows →
          r.rename (invPerm (Is.flatMap fun I => (assembleFrom 0 as).keep I)) ∈ (blocks as skip 0 Is).rows := by
        intro I hI hv hmem
        have h2 := blocks_rows_sup as T hB skip Is [] (fun _ _ _ _ h => by simp at h) hkd I hI r hv hmem
        rw [List.nil_append] at h2
        exact h2
      rcases List.mem_append.mp hr with h | h
      · obtain ⟨I, hI, hk⟩ := rows_cover Is as hR 0 r h
        have hv := (keptRows_sub I 0 as r hk).2
        rw [keptFrom_eq_pkeep as T hB I] at hv
        exact key I hI hv (interval_rows_sup_asset as T hB skip I r hk)
      · obtain ⟨⟨t, n⟩, hp, rfl⟩ := List.mem_map.mp h
        have ht : t < T := List.mem_range.mp ((mem_nodalPairs_iff _ _ _ _ t n).mp hp).2.2.1
        obtain ⟨I, hI, htI⟩ := hcov t ht
        obtain ⟨g1, g2⟩ := interval_rows_sup_nodal as T hB skip I t n hp htI
        exact key I hI g2 g1
    · -- every interval row is a row of the unsplit problem
      apply rowsSubset_of_mem
      intro R hR'
      obtain ⟨r, hr, hRr⟩ := blocks_rows_sub as T hB skip Is [] (fun _ _ _ _ h => by simp at h) hkd R hR'
      rw [List.nil_append] at hRr
      have : R = r.rename (invPerm (Is.flatMap fun I => (assembleFrom 0 as).keep I)) := hRr
      rw [this]
      exact List.mem_map_of_mem hr
    · rw [boolVars_nil]
      · rfl
      · intro m hm
        have hm' : m ∈ (assemble as (List.range T) skip).mapping.map
            (MapRow.rename (invPerm (Is.flatMap fun I => (assembleFrom 0 as).keep I))) := hm
        obtain ⟨m0, hm0, rfl⟩ := List.mem_map.mp hm'
        rw [assemble_mapping] at hm0
        exact hG.no_bool m0 hm0
    · rw [boolVars_nil (blocks as skip 0 Is) (blocks_no_bool as T hB skip 0 Is)]
      rfl

/-! ## Part 2: the builders commute with the restriction of the asset grid

### `sel` -/

theorem sel_map {α β} (f : α → β) : ∀ (m : List Bool) (xs : List α), sel m (xs.map f) = (sel m xs).map f
  | [], xs => by simp [sel_nil_left]
  | _ :: _, [] => by simp [sel_nil_right]
  | true :: m, x :: xs => by simp [sel_map f m xs]
  | false :: m, x :: xs => by simp [sel_map f m xs]

theorem sel_zipWith {α β γ} (f : α → β → γ) : ∀ (m : List Bool) (xs : List α) (ys : List β),
    sel m (List.zipWith f xs ys) = List.zipWith f (sel m xs) (sel m ys)
  | [], xs, ys => by simp [sel_nil_left]
  | _ :: _, [], ys => by simp [sel_nil_right]
  | _ :: _, _ :: _, [] => by simp [sel_nil_right]
  | true :: m, x :: xs, y :: ys => by simp [sel_zipWith f m xs ys]
  | false :: m, x :: xs, y :: ys => by simp [sel_zipWith f m xs ys]

theorem sel_zip {α β} (m : List Bool) (xs : List α) (ys : List β) :
    sel m (xs.zip ys) = (sel m xs).zip (sel m ys) := by
  rw [List.zip_eq_zipWith, List.zip_eq_zipWith, sel_zipWith]

theorem sel_append {α} : ∀ (m1 m2 : List Bool) (xs ys : List α), m1.length = xs.length →
    sel (m1 ++ m2) (xs ++ ys) = sel m1 xs ++ sel m2 ys
  | [], m2, [], ys, _ => by simp [sel_nil_left]
  | [], _, _ :: _, _, h => by simp at h
  | _ :: _, _, [], _, h => by simp at h
  | true :: m1, m2, x :: xs, ys, h => by
    have := sel_append m1 m2 xs ys (by simpa using h)
    simp [this]
  | false :: m1, m2, x :: xs, ys, h => by
    have := sel_append m1 m2 xs ys (by simpa using h)
    simp [this]

theorem sel_map_self' {α} (p : α → Bool) : ∀ xs : List α, sel (xs.map p) xs = xs.filter p
  | [] => rfl
  | x :: xs => by cases h : p x <;> simp [h, sel_map_self' p xs]

theorem mem_of_mem_sel {α} (m : List Bool) (xs : List α) (x : α) (h : x ∈ sel m xs) : x ∈ xs :=
  (sel_sublist m xs).subset h

theorem sel_all {α} (m : List Bool) (xs : List α) (p : α → Bool) (h : xs.all p = true) : (sel m xs).all p = true := by
  rw [List.all_eq_true] at h ⊢
  exact fun x hx => h x (mem_of_mem_sel m xs x hx)

theorem sel_any_false {α} (m : List Bool) (xs : List α) (p : α → Bool) (h : xs.any p = false) :
    (sel m xs).any p = false := by
  rw [Bool.eq_false_iff] at h ⊢
  intro h'
  obtain ⟨x, hx, hp⟩ := List.any_eq_true.mp h'
  exact h (List.any_eq_true.mpr ⟨x, mem_of_mem_sel m xs x hx, hp⟩)

theorem sel_length_eq {α β} : ∀ (m : List Bool) (xs : List α) (ys : List β), xs.length = ys.length →
    (sel m xs).length = (sel m ys).length
  | [], xs, ys, _ => by simp [sel_nil_left]
  | _ :: _, [], [], _ => by simp [sel_nil_right]
  | _ :: _, [], _ :: _, h => by simp at h
  | _ :: _, _ :: _, [], h => by simp at h
  | true :: m, x :: xs, y :: ys, h => by
    have := sel_length_eq m xs ys (by simpa using h)
    simp [this]
  | false :: m, x :: xs, y :: ys, h => by
    have := sel_length_eq m xs ys (by simpa using h)
    simp [this]

/-- selection by a mask computed from a list = the positions whose entry satisfies the predicate -/
theorem filter_range_getD {α β} (p : β → Bool) (d' : β) (d : α) : ∀ (ys : List β) (xs : List α),
    xs.length = ys.length →
    ((List.range ys.length).filter fun i => p (ys.getD i d')).map (fun i => xs.getD i d) = sel (ys.map p) xs
  | [], xs, _ => by simp [sel_nil_left]
  | _ :: _, [], h => by simp at h
  | y :: ys, x :: xs, h => by
    have ih := filter_range_getD p d' d ys xs (by simpa using h)
    rw [List.length_cons, List.range_succ_eq_map, List.filter_cons, List.filter_map, List.map_cons]
    have e1 : ((fun i => p ((y :: ys).getD i d')) ∘ Nat.succ) = fun i => p (ys.getD i d') := by
      funext i; simp
    rw [e1]
    cases hp : p y
    · simp only [List.getD_cons_zero, hp, Bool.false_eq_true, if_false, List.map_map, sel_cons_false]
      rw [← ih]
      apply List.map_congr_left
      intro i _
      simp
    · simp only [List.getD_cons_zero, hp, if_true, List.map_cons, List.map_map, sel_cons_true]
      rw [← ih]
      congr 1

end EAO.SplitBuild
