import EAO.Model.SplitBuild
import EAO.Lemmas.Grid
import EAO.Lemmas.Contract
import EAO.Lemmas.Blocks
import EAO.Lemmas.Wf
import EAO.Lemmas.Split
/-!
# EAO.Lemmas.SplitBuild — helper lemmas for `EAO.Properties.C14Builders`

Part 1: the general theorem — asset problems whose variables each belong to one step (`Banded`), restricted to the
step lists of a partition and assembled per list, ARE the unsplit problem up to the explicit matching `splitPerm`.
Part 2: the builders of `EAO.Model.Contract` commute with the restriction of the asset grid (`Grid.pick`).
Part 3: the interval grid of the split set-up is `Grid.pick`; Part 4: the two joined for `setupSplit`.
-/
namespace EAO.SplitBuild
open EAO EAO.Split

/-! ## Part 0: lists -/

theorem idxOf_map_inj {α β} [BEq α] [LawfulBEq α] [BEq β] [LawfulBEq β] (f : α → β)
    (hf : ∀ a b, f a = f b → a = b) (l : List α) (a : α) : (l.map f).idxOf (f a) = l.idxOf a := by
  induction l with
  | nil => simp
  | cons x xs ih =>
    simp only [List.map_cons, List.idxOf_cons]
    by_cases h : x = a
    · subst h; simp
    · have h' : f x ≠ f a := fun e => h (hf _ _ e)
      have e1 : (f x == f a) = false := by simpa using h'
      have e2 : (x == a) = false := by simpa using h
      rw [e1, e2, ih]

theorem idxOf_inj_of_mem {α} [BEq α] [LawfulBEq α] (l : List α) (a b : α) (ha : a ∈ l)
    (h : l.idxOf a = l.idxOf b) : a = b := by
  have h1 := List.idxOf_lt_length_of_mem ha
  have hb : b ∈ l := by
    rw [← List.idxOf_lt_length_iff, ← h]; exact h1
  have e1 := List.getElem_idxOf (x := a) (xs := l) h1
  have e2 := List.getElem_idxOf (x := b) (xs := l) (List.idxOf_lt_length_of_mem hb)
  rw [← e1, ← e2]
  simp [h]

theorem getD_idxOf_of_mem (l : List Nat) (a : Nat) (ha : a ∈ l) : l.getD (l.idxOf a) 0 = a := by
  have h1 := List.idxOf_lt_length_of_mem ha
  rw [List.getD_eq_getElem?_getD, List.getElem?_eq_getElem h1]
  simp [List.getElem_idxOf h1]

/-- `idxOf` in a concatenation, for an element of the second list that is not in the first -/
theorem idxOf_append_right (l1 l2 : List Nat) (a : Nat) (h : a ∉ l1) :
    (l1 ++ l2).idxOf a = l1.length + l2.idxOf a := by
  rw [List.idxOf_append]; simp [h]; omega

theorem idxOf_append_left (l1 l2 : List Nat) (a : Nat) (h : a ∈ l1) :
    (l1 ++ l2).idxOf a = l1.idxOf a := by
  rw [List.idxOf_append]; simp [h]

theorem mem_le_sum (l : List Nat) (t : Nat) (h : t ∈ l) : t ≤ l.sum := by
  induction l with
  | nil => simp at h
  | cons x xs ih =>
    rcases List.mem_cons.mp h with rfl | h'
    · simp
    · have := ih h'; simp; omega

/-! ## Part 1: banded asset problems, restricted and assembled per step list -/

theorem varAtSteps_iff (M : List MapRow) (I : List Nat) (v : Nat) :
    varAtSteps M I v = true ↔ ∃ m ∈ M, m.var = v ∧ m.step ∈ I := by
  simp [varAtSteps, List.any_eq_true]

theorem mem_keep (a : AssetProblem) (I : List Nat) (v : Nat) :
    v ∈ a.keep I ↔ v < a.n ∧ ∃ m ∈ a.mapping, m.var = v ∧ m.step ∈ I := by
  simp [AssetProblem.keep, List.mem_filter, varAtSteps_iff]

theorem mem_pkeep (P : Problem) (I : List Nat) (v : Nat) :
    v ∈ P.keep I ↔ v < P.n ∧ ∃ m ∈ P.mapping, m.var = v ∧ m.step ∈ I := by
  simp [Problem.keep, List.mem_filter, varAtSteps_iff]

theorem keep_nodup (a : AssetProblem) (I : List Nat) : (a.keep I).Nodup :=
  List.Nodup.sublist List.filter_sublist List.nodup_range

theorem pkeep_nodup (P : Problem) (I : List Nat) : (P.keep I).Nodup :=
  List.Nodup.sublist List.filter_sublist List.nodup_range

/-- for a banded problem a mapping row's variable is kept iff the row's step is in the list -/
theorem banded_var_mem_keep {a : AssetProblem} {T : Nat} (h : Banded a T) (I : List Nat) (m : MapRow)
    (hm : m ∈ a.mapping) : m.var ∈ a.keep I ↔ m.step ∈ I := by
  rw [mem_keep]
  constructor
  · rintro ⟨_, m', hm', hv, hs⟩
    rw [h.same_step m hm m' hm' hv.symm]; exact hs
  · intro hs
    exact ⟨h.map_var m hm, m, hm, rfl, hs⟩

@[simp] theorem restrictTo_n (a : AssetProblem) (I : List Nat) : (a.restrictTo I).n = (a.keep I).length := by
  simp [AssetProblem.restrictTo, AssetProblem.n]

@[simp] theorem restrictTo_nodes (a : AssetProblem) (I : List Nat) : (a.restrictTo I).nodes = a.nodes := rfl

/-- kept variables of the assets, as variables of the concatenation from offset `off` -/
def keptFrom (I : List Nat) : Nat → List AssetProblem → List Nat
  | _, [] => []
  | off, a :: rest => (a.keep I).map (off + ·) ++ keptFrom I (off + a.n) rest

/-- the rows all of whose variables are kept, as rows of the concatenation from offset `off` -/
def keptRows (I : List Nat) : Nat → List AssetProblem → List Row
  | _, [] => []
  | off, a :: rest =>
    (a.rows.filter fun r => r.coeffs.all fun q => (a.keep I).contains q.1).map (Row.rename (off + ·))
      ++ keptRows I (off + a.n) rest

theorem keptFrom_cons (I : List Nat) (off : Nat) (a : AssetProblem) (rest : List AssetProblem) :
    keptFrom I off (a :: rest) = (a.keep I).map (off + ·) ++ keptFrom I (off + a.n) rest := rfl

theorem keptRows_cons (I : List Nat) (off : Nat) (a : AssetProblem) (rest : List AssetProblem) :
    keptRows I off (a :: rest) =
      (a.rows.filter fun r => r.coeffs.all fun q => (a.keep I).contains q.1).map (Row.rename (off + ·))
        ++ keptRows I (off + a.n) rest := rfl

theorem keptRows_ge (I : List Nat) (off : Nat) (as : List AssetProblem) :
    ∀ r ∈ keptRows I off as, ∀ q ∈ r.coeffs, off ≤ q.1 := by
  induction as generalizing off with
  | nil => intro r hr; simp [keptRows] at hr
  | cons a rest ih =>
    intro r hr q hq
    rw [keptRows_cons] at hr
    rcases List.mem_append.mp hr with h | h
    · obtain ⟨r0, _, rfl⟩ := List.mem_map.mp h
      simp only [Row.rename, List.mem_map] at hq
      obtain ⟨q0, _, rfl⟩ := hq
      simp
    · have := ih (off + a.n) r h q hq; omega

theorem keptFrom_ge (I : List Nat) (off : Nat) (as : List AssetProblem) : ∀ u ∈ keptFrom I off as, off ≤ u := by
  induction as generalizing off with
  | nil => intro u hu; simp [keptFrom] at hu
  | cons a rest ih =>
    intro u hu
    simp only [keptFrom, List.mem_append, List.mem_map] at hu
    rcases hu with ⟨v, _, rfl⟩ | hu
    · omega
    · have := ih (off + a.n) u hu; omega

theorem keptFrom_length (I : List Nat) (off : Nat) (as : List AssetProblem) :
    (keptFrom I off as).length = ((as.map fun a => a.restrictTo I).map (·.n)).sum := by
  induction as generalizing off with
  | nil => simp [keptFrom]
  | cons a rest ih => simp [keptFrom, ih (off + a.n)]

theorem keptFrom_shift (I : List Nat) (off : Nat) (as : List AssetProblem) :
    keptFrom I off as = (keptFrom I 0 as).map (off + ·) := by
  induction as generalizing off with
  | nil => simp [keptFrom]
  | cons a rest ih =>
    simp only [keptFrom, List.map_append, List.map_map, Nat.zero_add]
    rw [ih (off + a.n), ih a.n]
    simp only [List.map_map]
    congr 1
    apply List.map_congr_left; intro v _; simp; omega

/-- what the concatenation of banded asset problems from offset `off` looks like -/
structure GBanded (M : List MapRow) (off n T : Nat) : Prop where
  var_ge    : ∀ m ∈ M, off ≤ m.var
  var_lt    : ∀ m ∈ M, m.var < off + n
  step_lt   : ∀ m ∈ M, m.step < T
  no_bool   : ∀ m ∈ M, m.isBool = false
  same_step : ∀ m ∈ M, ∀ m' ∈ M, m.var = m'.var → m.step = m'.step
  covered   : ∀ u, off ≤ u → u < off + n → ∃ m ∈ M, m.var = u

theorem assembleFrom_gbanded (as : List AssetProblem) (T : Nat) (hB : ∀ a ∈ as, Banded a T) (off : Nat) :
    GBanded (assembleFrom off as).mapping off ((as.map (·.n)).sum) T := by
  induction as generalizing off with
  | nil =>
    refine ⟨?_, ?_, ?_, ?_, ?_, ?_⟩ <;> intro m hm <;> first | (simp at hm) | skip
    intro h1; simp at h1; omega
  | cons a rest ih =>
    have ha := hB a (by simp)
    have hr := ih (fun b hb => hB b (by simp [hb])) (off + a.n)
    rw [assembleFrom_cons_mapping]
    simp only [List.map_cons, List.sum_cons]
    refine ⟨?_, ?_, ?_, ?_, ?_, ?_⟩
    · intro m hm
      rcases List.mem_append.mp hm with h | h
      · obtain ⟨m', _, rfl⟩ := List.mem_map.mp h
        show off ≤ off + m'.var; omega
      · have := hr.var_ge m h; omega
    · intro m hm
      rcases List.mem_append.mp hm with h | h
      · obtain ⟨m', hm', rfl⟩ := List.mem_map.mp h
        have := ha.map_var m' hm'
        show off + m'.var < _; omega
      · have := hr.var_lt m h; omega
    · intro m hm
      rcases List.mem_append.mp hm with h | h
      · obtain ⟨m', hm', rfl⟩ := List.mem_map.mp h
        exact ha.map_step m' hm'
      · exact hr.step_lt m h
    · intro m hm
      rcases List.mem_append.mp hm with h | h
      · obtain ⟨m', hm', rfl⟩ := List.mem_map.mp h
        exact ha.no_bool m' hm'
      · exact hr.no_bool m h
    · intro m hm m' hm' hv
      rcases List.mem_append.mp hm with h | h <;> rcases List.mem_append.mp hm' with h' | h'
      · obtain ⟨m1, hm1, rfl⟩ := List.mem_map.mp h
        obtain ⟨m2, hm2, rfl⟩ := List.mem_map.mp h'
        have hv' : m1.var = m2.var := by
          have : off + m1.var = off + m2.var := hv
          omega
        exact ha.same_step m1 hm1 m2 hm2 hv'
      · obtain ⟨m1, hm1, rfl⟩ := List.mem_map.mp h
        have h1 := ha.map_var m1 hm1
        have h2 := hr.var_ge m' h'
        have : off + m1.var = m'.var := hv
        omega
      · obtain ⟨m2, hm2, rfl⟩ := List.mem_map.mp h'
        have h1 := ha.map_var m2 hm2
        have h2 := hr.var_ge m h
        have : m.var = off + m2.var := hv
        omega
      · exact hr.same_step m h m' h' hv
    · intro u h1 h2
      by_cases hu : u < off + a.n
      · obtain ⟨m, hm, hv⟩ := ha.covered (u - off) (by omega)
        refine ⟨m.shift off, List.mem_append_left _ (List.mem_map_of_mem hm), ?_⟩
        show off + m.var = u; omega
      · obtain ⟨m, hm, hv⟩ := hr.covered u (by omega) (by omega)
        exact ⟨m, List.mem_append_right _ hm, hv⟩

/-- the kept variables of the assets, concatenated, are the variables of the concatenation that sit at steps of
    `I`, in increasing order -/
theorem keptFrom_eq_filter (as : List AssetProblem) (T : Nat) (hB : ∀ a ∈ as, Banded a T) (I : List Nat) (off : Nat) :
    keptFrom I off as =
      ((List.range ((as.map (·.n)).sum)).filter fun j => varAtSteps (assembleFrom off as).mapping I (off + j)).map
        (off + ·) := by
  induction as generalizing off with
  | nil => simp [keptFrom]
  | cons a rest ih =>
    have ha := hB a (by simp)
    have hB' : ∀ b ∈ rest, Banded b T := fun b hb => hB b (by simp [hb])
    have hr := assembleFrom_gbanded rest T hB' (off + a.n)
    simp only [keptFrom, List.map_cons, List.sum_cons]
    rw [List.range_add, List.filter_append, List.map_append, ih hB' (off + a.n), assembleFrom_cons_mapping]
    congr 1
    · -- the asset's own block
      unfold AssetProblem.keep
      congr 1
      apply List.filter_congr
      intro j hj
      have hj' : j < a.n := List.mem_range.mp hj
      rw [Bool.eq_iff_iff, varAtSteps_iff, varAtSteps_iff]
      constructor
      · rintro ⟨m, hm, hv, hs⟩
        exact ⟨m.shift off, List.mem_append_left _ (List.mem_map_of_mem hm), by show off + m.var = off + j; omega, hs⟩
      · rintro ⟨m, hm, hv, hs⟩
        rcases List.mem_append.mp hm with h | h
        · obtain ⟨m', hm', rfl⟩ := List.mem_map.mp h
          refine ⟨m', hm', ?_, hs⟩
          have : off + m'.var = off + j := hv
          omega
        · have := hr.var_ge m h; omega
    · -- the blocks after it
      rw [List.filter_map, List.map_map]
      have e : (fun x => off + x) ∘ (fun x => a.n + x) = fun x => off + a.n + x := by
        funext x; simp; omega
      rw [e]
      congr 1
      apply List.filter_congr
      intro j _
      simp only [Function.comp]
      rw [Bool.eq_iff_iff, varAtSteps_iff, varAtSteps_iff]
      constructor
      · rintro ⟨m, hm, hv, hs⟩
        exact ⟨m, List.mem_append_right _ hm, by omega, hs⟩
      · rintro ⟨m, hm, hv, hs⟩
        rcases List.mem_append.mp hm with h | h
        · obtain ⟨m', hm', rfl⟩ := List.mem_map.mp h
          have := ha.map_var m' hm'
          have : off + m'.var = off + (a.n + j) := hv
          omega
        · exact ⟨m, h, by omega, hs⟩

/-- … hence, for the whole portfolio, the problem's own `keep` -/
theorem keptFrom_eq_pkeep (as : List AssetProblem) (T : Nat) (hB : ∀ a ∈ as, Banded a T) (I : List Nat) :
    keptFrom I 0 as = (assembleFrom 0 as).keep I := by
  rw [keptFrom_eq_filter as T hB I 0]
  unfold Problem.keep
  rw [assembleFrom_n]
  simp

/-! ### cost and bounds of the restricted concatenation -/

theorem flat_c (off : Nat) (as : List AssetProblem) : (assembleFrom off as).c = as.flatMap (·.c) := by
  induction as generalizing off with
  | nil => rfl
  | cons a rest ih => rw [assembleFrom_cons_c, ih, List.flatMap_cons]

theorem flat_l (off : Nat) (as : List AssetProblem) : (assembleFrom off as).l = as.flatMap (·.l) := by
  induction as generalizing off with
  | nil => rfl
  | cons a rest ih => rw [assembleFrom_cons_l, ih, List.flatMap_cons]

theorem flat_u (off : Nat) (as : List AssetProblem) : (assembleFrom off as).u = as.flatMap (·.u) := by
  induction as generalizing off with
  | nil => rfl
  | cons a rest ih => rw [assembleFrom_cons_u, ih, List.flatMap_cons]

theorem kept_flat (f : AssetProblem → List Rat) (I : List Nat) (as : List AssetProblem)
    (hf : ∀ a ∈ as, (f a).length = a.n) :
    (keptFrom I 0 as).map (fun u => (as.flatMap f).getD u 0) =
      as.flatMap fun a => (a.keep I).map fun v => (f a).getD v 0 := by
  induction as with
  | nil => simp [keptFrom]
  | cons a rest ih =>
    have ha := hf a (by simp)
    simp only [keptFrom, List.flatMap_cons, List.map_append, List.map_map, Nat.zero_add]
    congr 1
    · apply List.map_congr_left
      intro v hv
      have hv' : v < (f a).length := by rw [ha]; exact ((mem_keep a I v).mp hv).1
      simp [List.getD_eq_getElem?_getD, List.getElem?_append_left hv']
    · rw [keptFrom_shift, ← ih (fun b hb => hf b (by simp [hb])), List.map_map]
      apply List.map_congr_left
      intro u _
      simp only [Function.comp]
      rw [← ha]
      exact getD_append_right' (f a) (rest.flatMap f) u

theorem restrict_c (I : List Nat) (off : Nat) (as : List AssetProblem) :
    (assembleFrom off (as.map fun a => a.restrictTo I)).c =
      (keptFrom I 0 as).map fun u => (assembleFrom 0 as).c.getD u 0 := by
  rw [flat_c, flat_c, kept_flat (·.c) I as (fun a _ => rfl), List.flatMap_map]
  rfl

theorem restrict_l (I : List Nat) (off : Nat) (as : List AssetProblem) (h : ∀ a ∈ as, a.l.length = a.n) :
    (assembleFrom off (as.map fun a => a.restrictTo I)).l =
      (keptFrom I 0 as).map fun u => (assembleFrom 0 as).l.getD u 0 := by
  rw [flat_l, flat_l, kept_flat (·.l) I as h, List.flatMap_map]
  rfl

theorem restrict_u (I : List Nat) (off : Nat) (as : List AssetProblem) (h : ∀ a ∈ as, a.u.length = a.n) :
    (assembleFrom off (as.map fun a => a.restrictTo I)).u =
      (keptFrom I 0 as).map fun u => (assembleFrom 0 as).u.getD u 0 := by
  rw [flat_u, flat_u, kept_flat (·.u) I as h, List.flatMap_map]
  rfl

/-! ### mapping and rows of the restricted concatenation -/

/-- a mapping row of the unsplit problem as a row of the interval problem: variable renamed, step re-based -/
def renMap (I : List Nat) (τ : Nat → Nat) (m : MapRow) : MapRow := { m with var := τ m.var, step := I.idxOf m.step }

theorem rename_rename (f g : Nat → Nat) (r : Row) : (r.rename f).rename g = r.rename (fun v => g (f v)) := by
  simp [Row.rename, List.map_map, Function.comp_def]

theorem rename_congr (f g : Nat → Nat) (r : Row) (h : ∀ q ∈ r.coeffs, f q.1 = g q.1) : r.rename f = r.rename g := by
  unfold Row.rename
  congr 1
  apply List.map_congr_left
  intro q hq
  rw [h q hq]

/-- index of a kept variable of the first asset in the list of all kept variables -/
theorem idxOf_keptFrom_head (I : List Nat) (off : Nat) (a : AssetProblem) (rest : List AssetProblem) (v : Nat)
    (hv : v ∈ a.keep I) : (keptFrom I off (a :: rest)).idxOf (off + v) = (a.keep I).idxOf v := by
  rw [keptFrom_cons, idxOf_append_left _ _ _ (List.mem_map_of_mem hv)]
  exact idxOf_map_inj (off + ·) (fun x y h => by omega) _ v

/-- index of a variable of a later asset -/
theorem idxOf_keptFrom_tail (I : List Nat) (off : Nat) (a : AssetProblem) (rest : List AssetProblem) (u : Nat)
    (hu : off + a.n ≤ u) :
    (keptFrom I off (a :: rest)).idxOf u = (a.restrictTo I).n + (keptFrom I (off + a.n) rest).idxOf u := by
  rw [keptFrom_cons, idxOf_append_right]
  · simp
  · intro h
    obtain ⟨v, hv, rfl⟩ := List.mem_map.mp h
    have := ((mem_keep a I v).mp hv).1
    omega

theorem restrict_mapping (as : List AssetProblem) (T : Nat) (hB : ∀ a ∈ as, Banded a T) (I : List Nat)
    (off off' : Nat) :
    (assembleFrom off' (as.map fun a => a.restrictTo I)).mapping =
      ((assembleFrom off as).mapping.filter fun m => I.contains m.step).map
        (renMap I fun u => off' + (keptFrom I off as).idxOf u) := by
  induction as generalizing off off' with
  | nil => simp
  | cons a rest ih =>
    have ha := hB a (by simp)
    have hB' : ∀ b ∈ rest, Banded b T := fun b hb => hB b (by simp [hb])
    rw [List.map_cons, assembleFrom_cons_mapping, assembleFrom_cons_mapping, List.filter_append, List.map_append]
    congr 1
    · rw [List.filter_map, List.map_map]
      show ((a.mapping.filter fun m => I.contains m.step).map _).map _ = _
      rw [List.map_map]
      apply List.map_congr_left
      intro m hm
      obtain ⟨hm1, hm2⟩ := List.mem_filter.mp hm
      have hv : m.var ∈ a.keep I := (banded_var_mem_keep ha I m hm1).mpr (List.contains_iff_mem.mp hm2)
      simp only [Function.comp, renMap, MapRow.shift]
      rw [idxOf_keptFrom_head I off a rest m.var hv]
    · rw [ih hB' (off + a.n) (off' + (a.restrictTo I).n)]
      apply List.map_congr_left
      intro m hm
      have hge := (assembleFrom_gbanded rest T hB' (off + a.n)).var_ge m (List.mem_filter.mp hm).1
      simp only [renMap]
      rw [idxOf_keptFrom_tail I off a rest m.var hge]
      congr 1
      omega

theorem restrict_rows (as : List AssetProblem) (I : List Nat) (off off' : Nat) :
    (assembleFrom off' (as.map fun a => a.restrictTo I)).rows =
      (keptRows I off as).map (Row.rename fun u => off' + (keptFrom I off as).idxOf u) := by
  induction as generalizing off off' with
  | nil => simp [keptRows]
  | cons a rest ih =>
    rw [List.map_cons, assembleFrom_cons_rows, keptRows_cons, List.map_append]
    congr 1
    · show ((a.rows.filter _).map _).map _ = _
      rw [List.map_map, List.map_map]
      apply List.map_congr_left
      intro r hr
      have hall := (List.mem_filter.mp hr).2
      simp only [Function.comp, rename_rename]
      apply rename_congr
      intro q hq
      have hq' : q.1 ∈ a.keep I := List.contains_iff_mem.mp (List.all_eq_true.mp hall q hq)
      rw [idxOf_keptFrom_head I off a rest q.1 hq']
    · rw [ih (off + a.n) (off' + (a.restrictTo I).n)]
      apply List.map_congr_left
      intro r hr
      apply rename_congr
      intro q hq
      have hge : off + a.n ≤ q.1 := keptRows_ge I (off + a.n) rest r hr q hq
      rw [idxOf_keptFrom_tail I off a rest q.1 hge]
      omega

theorem keptRows_sub (I : List Nat) (off : Nat) (as : List AssetProblem) :
    ∀ r ∈ keptRows I off as, r ∈ (assembleFrom off as).rows ∧ ∀ q ∈ r.coeffs, q.1 ∈ keptFrom I off as := by
  induction as generalizing off with
  | nil => intro r hr; simp [keptRows] at hr
  | cons a rest ih =>
    intro r hr
    rw [keptRows_cons] at hr
    rw [assembleFrom_cons_rows, keptFrom_cons]
    rcases List.mem_append.mp hr with h | h
    · obtain ⟨r0, hr0, rfl⟩ := List.mem_map.mp h
      obtain ⟨h1, h2⟩ := List.mem_filter.mp hr0
      refine ⟨List.mem_append_left _ (List.mem_map_of_mem h1), ?_⟩
      intro q hq
      simp only [Row.rename, List.mem_map] at hq
      obtain ⟨q0, hq0, rfl⟩ := hq
      exact List.mem_append_left _ (List.mem_map_of_mem (List.contains_iff_mem.mp (List.all_eq_true.mp h2 q0 hq0)))
    · obtain ⟨g1, g2⟩ := ih (off + a.n) r h
      exact ⟨List.mem_append_right _ g1, fun q hq => List.mem_append_right _ (g2 q hq)⟩

theorem rows_cover (Is : List (List Nat)) (as : List AssetProblem) (hR : ∀ a ∈ as, RowsInside a Is) (off : Nat) :
    ∀ r ∈ (assembleFrom off as).rows, ∃ I ∈ Is, r ∈ keptRows I off as := by
  induction as generalizing off with
  | nil => intro r hr; simp at hr
  | cons a rest ih =>
    intro r hr
    rw [assembleFrom_cons_rows] at hr
    rcases List.mem_append.mp hr with h | h
    · obtain ⟨r0, hr0, rfl⟩ := List.mem_map.mp h
      obtain ⟨I, hI, hall⟩ := hR a (by simp) r0 hr0
      refine ⟨I, hI, ?_⟩
      rw [keptRows_cons]
      apply List.mem_append_left
      apply List.mem_map_of_mem
      rw [List.mem_filter]
      refine ⟨hr0, List.all_eq_true.mpr fun q hq => List.contains_iff_mem.mpr (hall q hq)⟩
    · obtain ⟨I, hI, hk⟩ := ih (fun b hb => hR b (by simp [hb])) (off + a.n) r h
      exact ⟨I, hI, by rw [keptRows_cons]; exact List.mem_append_right _ hk⟩

/-! ### one interval problem against the unsplit problem -/

theorem portfolioNodes_restrict (as : List AssetProblem) (I : List Nat) :
    portfolioNodes (as.map fun a => a.restrictTo I) = portfolioNodes as := by
  unfold portfolioNodes
  rw [List.flatMap_map]
  rfl

theorem isDisp_renMap (I : List Nat) (τ : Nat → Nat) (n : String) (t : Nat) (m : MapRow)
    (ht : t ∈ I) : (I.contains m.step && isDisp n (I.idxOf t) (renMap I τ m)) = isDisp n t m := by
  rw [Bool.eq_iff_iff]
  simp only [Bool.and_eq_true, isDisp_iff, List.contains_iff_mem, renMap]
  constructor
  · rintro ⟨hs, hk, hn, he⟩
    exact ⟨hk, hn, (idxOf_inj_of_mem I t m.step ht he.symm).symm⟩
  · rintro ⟨hk, hn, he⟩
    exact ⟨he ▸ ht, hk, hn, by rw [he]⟩

/-- the nodal row of the interval problem at the re-based step is the renamed nodal row of the unsplit problem -/
theorem nodalRow_restrict (M : List MapRow) (I : List Nat) (τ : Nat → Nat) (n : String) (t : Nat) (ht : t ∈ I) :
    nodalRow ((M.filter fun m => I.contains m.step).map (renMap I τ)) n (I.idxOf t) = (nodalRow M n t).rename τ := by
  unfold nodalRow Row.rename
  simp only [List.filter_map, List.map_map, List.filter_filter]
  congr 1
  rw [List.filter_congr (q := isDisp n t)]
  · rfl
  · intro m _
    rw [Bool.and_comm]
    exact isDisp_renMap I τ n t m ht

theorem pkeep_assemble (as : List AssetProblem) (gridI : List Nat) (skip : List String) (I : List Nat) :
    (assemble as gridI skip).keep I = (assembleFrom 0 as).keep I := by
  unfold Problem.keep
  simp

theorem intervalProblem_rows (as : List AssetProblem) (skip : List String) (I : List Nat) :
    (intervalProblem as skip I).rows =
      (assembleFrom 0 (as.map fun a => a.restrictTo I)).rows ++
        (nodalPairs (assembleFrom 0 (as.map fun a => a.restrictTo I)).mapping (portfolioNodes as) skip
          (List.range I.length)).map
          fun p => nodalRow (assembleFrom 0 (as.map fun a => a.restrictTo I)).mapping p.2 p.1 := by
  show (assemble _ _ _).rows = _
  rw [assemble_rows, portfolioNodes_restrict]

/-- the mapping of the interval problem, written with the unsplit mapping -/
theorem intervalMapping (as : List AssetProblem) (T : Nat) (hB : ∀ a ∈ as, Banded a T) (I : List Nat) :
    (assembleFrom 0 (as.map fun a => a.restrictTo I)).mapping =
      ((assembleFrom 0 as).mapping.filter fun m => I.contains m.step).map
        (renMap I fun u => ((assembleFrom 0 as).keep I).idxOf u) := by
  rw [restrict_mapping as T hB I 0 0, keptFrom_eq_pkeep as T hB I]
  simp

theorem intervalRows (as : List AssetProblem) (T : Nat) (hB : ∀ a ∈ as, Banded a T) (I : List Nat) :
    (assembleFrom 0 (as.map fun a => a.restrictTo I)).rows =
      (keptRows I 0 as).map (Row.rename fun u => ((assembleFrom 0 as).keep I).idxOf u) := by
  rw [restrict_rows as I 0 0, keptFrom_eq_pkeep as T hB I]
  simp

/-- a dispatch row of the unsplit mapping at a step of `I` belongs to a kept variable -/
theorem disp_var_kept (as : List AssetProblem) (T : Nat) (hB : ∀ a ∈ as, Banded a T) (I : List Nat) (m : MapRow)
    (hm : m ∈ (assembleFrom 0 as).mapping) (hs : m.step ∈ I) : m.var ∈ (assembleFrom 0 as).keep I := by
  rw [mem_pkeep]
  have := (assembleFrom_gbanded as T hB 0).var_lt m hm
  rw [assembleFrom_n]
  exact ⟨by omega, m, hm, rfl, hs⟩

/-- every row of the interval problem is a renamed row of the unsplit problem over kept variables -/
theorem interval_rows_sub (as : List AssetProblem) (T : Nat) (hB : ∀ a ∈ as, Banded a T) (skip : List String)
    (I : List Nat) :
    ∀ R ∈ (intervalProblem as skip I).rows, ∃ r ∈ (assemble as (List.range T) skip).rows,
      (∀ q ∈ r.coeffs, q.1 ∈ (assembleFrom 0 as).keep I) ∧
      R = r.rename fun u => ((assembleFrom 0 as).keep I).idxOf u := by
  intro R hR
  rw [intervalProblem_rows] at hR
  rw [assemble_rows]
  rcases List.mem_append.mp hR with h | h
  · rw [intervalRows as T hB I] at h
    obtain ⟨r, hr, rfl⟩ := List.mem_map.mp h
    obtain ⟨g1, g2⟩ := keptRows_sub I 0 as r hr
    rw [keptFrom_eq_pkeep as T hB I] at g2
    exact ⟨r, List.mem_append_left _ g1, g2, rfl⟩
  · obtain ⟨⟨r', n⟩, hp, rfl⟩ := List.mem_map.mp h
    obtain ⟨hn, hs, _, hany⟩ := (mem_nodalPairs_iff _ _ _ _ r' n).mp hp
    rw [intervalMapping as T hB I] at hany ⊢
    obtain ⟨m', hm', hd⟩ := List.any_eq_true.mp hany
    obtain ⟨m, hm, rfl⟩ := List.mem_map.mp hm'
    obtain ⟨hmM, hmI⟩ := List.mem_filter.mp hm
    have hmI' : m.step ∈ I := List.contains_iff_mem.mp hmI
    obtain ⟨hk, hnode, hstep⟩ := (isDisp_iff _ _ _).mp hd
    have hstep' : I.idxOf m.step = r' := hstep
    have hlt := (assembleFrom_gbanded as T hB 0).step_lt m hmM
    refine ⟨nodalRow (assembleFrom 0 as).mapping n m.step, ?_, ?_, ?_⟩
    · apply List.mem_append_right
      refine List.mem_map.mpr ⟨(m.step, n), ?_, rfl⟩
      rw [mem_nodalPairs_iff]
      refine ⟨hn, hs, List.mem_range.mpr hlt, List.any_eq_true.mpr ⟨m, hmM, ?_⟩⟩
      exact (isDisp_iff _ _ _).mpr ⟨hk, hnode, rfl⟩
    · intro q hq
      obtain ⟨m1, hm1, hd1, rfl⟩ := mem_nodalRow_coeffs _ _ _ _ hq
      have := ((isDisp_iff _ _ _).mp hd1).2.2
      exact disp_var_kept as T hB I m1 hm1 (this ▸ hmI')
    · show nodalRow _ n r' = _
      rw [← hstep']
      exact nodalRow_restrict _ I _ n m.step hmI'

/-- every kept row of the assets occurs, renamed, in the interval problem -/
theorem interval_rows_sup_asset (as : List AssetProblem) (T : Nat) (hB : ∀ a ∈ as, Banded a T) (skip : List String)
    (I : List Nat) :
    ∀ r ∈ keptRows I 0 as,
      (r.rename fun u => ((assembleFrom 0 as).keep I).idxOf u) ∈ (intervalProblem as skip I).rows := by
  intro r hr
  rw [intervalProblem_rows, intervalRows as T hB I]
  exact List.mem_append_left _ (List.mem_map_of_mem hr)

/-- every nodal row of the unsplit problem at a step of `I` occurs, renamed, in the interval problem, and its
    variables are kept -/
theorem interval_rows_sup_nodal (as : List AssetProblem) (T : Nat) (hB : ∀ a ∈ as, Banded a T) (skip : List String)
    (I : List Nat) (t : Nat) (n : String)
    (hp : (t, n) ∈ nodalPairs (assembleFrom 0 as).mapping (portfolioNodes as) skip (List.range T)) (ht : t ∈ I) :
    ((nodalRow (assembleFrom 0 as).mapping n t).rename fun u => ((assembleFrom 0 as).keep I).idxOf u)
        ∈ (intervalProblem as skip I).rows ∧
      ∀ q ∈ (nodalRow (assembleFrom 0 as).mapping n t).coeffs, q.1 ∈ (assembleFrom 0 as).keep I := by
  obtain ⟨hn, hs, _, hany⟩ := (mem_nodalPairs_iff _ _ _ _ t n).mp hp
  obtain ⟨m, hm, hd⟩ := List.any_eq_true.mp hany
  obtain ⟨hk, hnode, hstep⟩ := (isDisp_iff _ _ _).mp hd
  constructor
  · rw [intervalProblem_rows]
    apply List.mem_append_right
    refine List.mem_map.mpr ⟨(I.idxOf t, n), ?_, ?_⟩
    · rw [mem_nodalPairs_iff]
      refine ⟨hn, hs, List.mem_range.mpr (List.idxOf_lt_length_of_mem ht), ?_⟩
      rw [intervalMapping as T hB I]
      refine List.any_eq_true.mpr ⟨renMap I _ m, List.mem_map_of_mem (List.mem_filter.mpr ⟨hm, ?_⟩), ?_⟩
      · exact List.contains_iff_mem.mpr (hstep ▸ ht)
      · refine (isDisp_iff _ _ _).mpr ⟨hk, hnode, ?_⟩
        show I.idxOf m.step = I.idxOf t
        rw [hstep]
    · show nodalRow _ n (I.idxOf t) = _
      rw [intervalMapping as T hB I]
      exact nodalRow_restrict _ I _ n t ht
  · intro q hq
    obtain ⟨m1, hm1, hd1, rfl⟩ := mem_nodalRow_coeffs _ _ _ _ hq
    have := ((isDisp_iff _ _ _).mp hd1).2.2
    exact disp_var_kept as T hB I m1 hm1 (this ▸ ht)

/-! ### all interval problems against the unsplit problem -/

theorem interval_c (as : List AssetProblem) (T : Nat) (hB : ∀ a ∈ as, Banded a T) (skip : List String) (I : List Nat) :
    (intervalProblem as skip I).c = ((assembleFrom 0 as).keep I).map fun u => (assembleFrom 0 as).c.getD u 0 := by
  show (assembleFrom 0 _).c = _
  rw [restrict_c, keptFrom_eq_pkeep as T hB I]

theorem interval_l (as : List AssetProblem) (T : Nat) (hB : ∀ a ∈ as, Banded a T) (skip : List String) (I : List Nat) :
    (intervalProblem as skip I).l = ((assembleFrom 0 as).keep I).map fun u => (assembleFrom 0 as).l.getD u 0 := by
  show (assembleFrom 0 _).l = _
  rw [restrict_l I 0 as (fun a ha => (hB a ha).l_len), keptFrom_eq_pkeep as T hB I]

theorem interval_u (as : List AssetProblem) (T : Nat) (hB : ∀ a ∈ as, Banded a T) (skip : List String) (I : List Nat) :
    (intervalProblem as skip I).u = ((assembleFrom 0 as).keep I).map fun u => (assembleFrom 0 as).u.getD u 0 := by
  show (assembleFrom 0 _).u = _
  rw [restrict_u I 0 as (fun a ha => (hB a ha).u_len), keptFrom_eq_pkeep as T hB I]

theorem interval_n (as : List AssetProblem) (T : Nat) (hB : ∀ a ∈ as, Banded a T) (skip : List String) (I : List Nat) :
    (intervalProblem as skip I).n = ((assembleFrom 0 as).keep I).length := by
  unfold Problem.n
  rw [interval_c as T hB skip I, List.length_map]

/-- the block sum of the interval problems, from offset `o` -/
def blocks (as : List AssetProblem) (skip : List String) (o : Nat) (Js : List (List Nat)) : Problem :=
  assembleFrom o (Js.map fun I => (intervalProblem as skip I).toAsset)

theorem blockSum_eq_blocks (as : List AssetProblem) (skip : List String) (Js : List (List Nat)) :
    blockSum (Js.map (intervalProblem as skip)) = blocks as skip 0 Js := by
  unfold blockSum blocks
  rw [List.map_map]
  rfl

theorem blocks_c (as : List AssetProblem) (T : Nat) (hB : ∀ a ∈ as, Banded a T) (skip : List String) (o : Nat)
    (Js : List (List Nat)) :
    (blocks as skip o Js).c =
      (Js.flatMap fun I => (assembleFrom 0 as).keep I).map fun u => (assembleFrom 0 as).c.getD u 0 := by
  unfold blocks
  rw [flat_c, List.flatMap_map, List.map_flatMap]
  congr 1
  funext I
  exact interval_c as T hB skip I

theorem blocks_l (as : List AssetProblem) (T : Nat) (hB : ∀ a ∈ as, Banded a T) (skip : List String) (o : Nat)
    (Js : List (List Nat)) :
    (blocks as skip o Js).l =
      (Js.flatMap fun I => (assembleFrom 0 as).keep I).map fun u => (assembleFrom 0 as).l.getD u 0 := by
  unfold blocks
  rw [flat_l, List.flatMap_map, List.map_flatMap]
  congr 1
  funext I
  exact interval_l as T hB skip I

theorem blocks_u (as : List AssetProblem) (T : Nat) (hB : ∀ a ∈ as, Banded a T) (skip : List String) (o : Nat)
    (Js : List (List Nat)) :
    (blocks as skip o Js).u =
      (Js.flatMap fun I => (assembleFrom 0 as).keep I).map fun u => (assembleFrom 0 as).u.getD u 0 := by
  unfold blocks
  rw [flat_u, List.flatMap_map, List.map_flatMap]
  congr 1
  funext I
  exact interval_u as T hB skip I

theorem idx_in_block (pre K rest : List Nat) (u : Nat) (hu : u ∈ K) (hn : u ∉ pre) :
    (pre ++ (K ++ rest)).idxOf u = pre.length + K.idxOf u := by
  rw [idxOf_append_right _ _ _ hn, idxOf_append_left _ _ _ hu]

theorem blocks_cons (as : List AssetProblem) (skip : List String) (o : Nat) (I : List Nat) (Js : List (List Nat)) :
    (blocks as skip o (I :: Js)).rows =
      (intervalProblem as skip I).rows.map (Row.rename (o + ·)) ++
        (blocks as skip (o + (intervalProblem as skip I).n) Js).rows := rfl

/-- every row of the block sum is a row of the unsplit problem, renamed along the matching -/
theorem blocks_rows_sub (as : List AssetProblem) (T : Nat) (hB : ∀ a ∈ as, Banded a T) (skip : List String)
    (Js : List (List Nat)) (pre : List Nat)
    (hpre : ∀ I ∈ Js, ∀ u ∈ (assembleFrom 0 as).keep I, u ∉ pre)
    (hdisj : Js.Pairwise fun I J => ∀ u ∈ (assembleFrom 0 as).keep I, u ∉ (assembleFrom 0 as).keep J) :
    ∀ R ∈ (blocks as skip pre.length Js).rows, ∃ r ∈ (assemble as (List.range T) skip).rows,
      R = r.rename fun u => (pre ++ Js.flatMap fun I => (assembleFrom 0 as).keep I).idxOf u := by
  induction Js generalizing pre with
  | nil => intro R hR; simp [blocks] at hR
  | cons I Js ih =>
    intro R hR
    rw [blocks_cons] at hR
    obtain ⟨hd1, hd2⟩ := List.pairwise_cons.mp hdisj
    rcases List.mem_append.mp hR with h | h
    · obtain ⟨R0, hR0, rfl⟩ := List.mem_map.mp h
      obtain ⟨r, hr, hv, rfl⟩ := interval_rows_sub as T hB skip I R0 hR0
      refine ⟨r, hr, ?_⟩
      rw [rename_rename, List.flatMap_cons]
      apply rename_congr
      intro q hq
      exact (idx_in_block pre _ _ q.1 (hv q hq) (hpre I (by simp) q.1 (hv q hq))).symm
    · rw [interval_n as T hB skip I] at h
      have hlen : pre.length + ((assembleFrom 0 as).keep I).length = (pre ++ (assembleFrom 0 as).keep I).length := by
        simp
      rw [hlen] at h
      obtain ⟨r, hr, hR⟩ := ih (pre ++ (assembleFrom 0 as).keep I) (by
        intro J hJ u hu hmem
        rcases List.mem_append.mp hmem with h1 | h1
        · exact hpre J (by simp [hJ]) u hu h1
        · exact hd1 J hJ u h1 hu) hd2 R h
      refine ⟨r, hr, ?_⟩
      rw [hR, List.flatMap_cons, List.append_assoc]

/-- every row of the unsplit problem that belongs to one of the step lists occurs, renamed along the matching, in
    the block sum -/
theorem blocks_rows_sup (as : List AssetProblem) (T : Nat) (hB : ∀ a ∈ as, Banded a T) (skip : List String)
    (Js : List (List Nat)) (pre : List Nat)
    (hpre : ∀ I ∈ Js, ∀ u ∈ (assembleFrom 0 as).keep I, u ∉ pre)
    (hdisj : Js.Pairwise fun I J => ∀ u ∈ (assembleFrom 0 as).keep I, u ∉ (assembleFrom 0 as).keep J)
    (I : List Nat) (hI : I ∈ Js) (r : Row) (hv : ∀ q ∈ r.coeffs, q.1 ∈ (assembleFrom 0 as).keep I)
    (hr : (r.rename fun u => ((assembleFrom 0 as).keep I).idxOf u) ∈ (intervalProblem as skip I).rows) :
    (r.rename fun u => (pre ++ Js.flatMap fun I => (assembleFrom 0 as).keep I).idxOf u)
      ∈ (blocks as skip pre.length Js).rows := by
  induction Js generalizing pre with
  | nil => simp at hI
  | cons I0 Js ih =>
    rw [blocks_cons]
    obtain ⟨hd1, hd2⟩ := List.pairwise_cons.mp hdisj
    rcases List.mem_cons.mp hI with rfl | hI'
    · apply List.mem_append_left
      refine List.mem_map.mpr ⟨_, hr, ?_⟩
      rw [rename_rename, List.flatMap_cons]
      apply rename_congr
      intro q hq
      exact (idx_in_block pre _ _ q.1 (hv q hq) (hpre I (by simp) q.1 (hv q hq))).symm
    · apply List.mem_append_right
      rw [interval_n as T hB skip I0]
      have hlen : pre.length + ((assembleFrom 0 as).keep I0).length = (pre ++ (assembleFrom 0 as).keep I0).length := by
        simp
      rw [hlen]
      have := ih (pre ++ (assembleFrom 0 as).keep I0) (by
        intro J hJ u hu hmem
        rcases List.mem_append.mp hmem with h1 | h1
        · exact hpre J (by simp [hJ]) u hu h1
        · exact hd1 J hJ u h1 hu) hd2 hI'
      rw [List.flatMap_cons, ← List.append_assoc]
      exact this

/-! ### the matching is a permutation -/

theorem pairwiseDisjoint_spec (Is : List (List Nat)) (h : pairwiseDisjoint Is = true) :
    Is.Pairwise fun I J => ∀ t ∈ I, t ∉ J := by
  induction Is with
  | nil => exact List.Pairwise.nil
  | cons I rest ih =>
    simp only [pairwiseDisjoint, Bool.and_eq_true, List.all_eq_true] at h
    refine List.pairwise_cons.mpr ⟨?_, ih h.2⟩
    intro J hJ t ht hc
    have := h.1 J hJ t ht
    simp [hc] at this

theorem isPartition_spec (Is : List (List Nat)) (T : Nat) (h : isPartition Is T = true) :
    (∀ t, t < T → ∃ I ∈ Is, t ∈ I) ∧ Is.Pairwise fun I J => ∀ t ∈ I, t ∉ J := by
  simp only [isPartition, Bool.and_eq_true, List.all_eq_true, List.any_eq_true] at h
  refine ⟨fun t ht => ?_, pairwiseDisjoint_spec Is h.2⟩
  obtain ⟨I, hI, hc⟩ := h.1 t (List.mem_range.mpr ht)
  exact ⟨I, hI, List.contains_iff_mem.mp hc⟩

/-- disjoint step lists keep disjoint sets of variables -/
theorem keep_disjoint (as : List AssetProblem) (T : Nat) (hB : ∀ a ∈ as, Banded a T) (Is : List (List Nat))
    (hd : Is.Pairwise fun I J => ∀ t ∈ I, t ∉ J) :
    Is.Pairwise fun I J => ∀ u ∈ (assembleFrom 0 as).keep I, u ∉ (assembleFrom 0 as).keep J := by
  apply List.Pairwise.imp _ hd
  intro I J hIJ u hu hu'
  obtain ⟨_, m, hm, hv, hs⟩ := (mem_pkeep _ _ _).mp hu
  obtain ⟨_, m', hm', hv', hs'⟩ := (mem_pkeep _ _ _).mp hu'
  have := (assembleFrom_gbanded as T hB 0).same_step m hm m' hm' (hv.trans hv'.symm)
  exact hIJ m.step hs (this ▸ hs')

theorem splitPerm_isPerm (as : List AssetProblem) (T : Nat) (hB : ∀ a ∈ as, Banded a T) (Is : List (List Nat))
    (hP : isPartition Is T = true) :
    isPermOf (Is.flatMap fun I => (assembleFrom 0 as).keep I) (assembleFrom 0 as).n = true := by
  obtain ⟨hcov, hd⟩ := isPartition_spec Is T hP
  have hG := assembleFrom_gbanded as T hB 0
  have hn : (assembleFrom 0 as).n = (as.map (·.n)).sum := assembleFrom_n 0 as
  have hnodup : (Is.flatMap fun I => (assembleFrom 0 as).keep I).Nodup := by
    rw [List.Nodup, List.pairwise_flatMap]
    refine ⟨fun I _ => pkeep_nodup _ I, ?_⟩
    apply List.Pairwise.imp _ (keep_disjoint as T hB Is hd)
    intro I J h x hx y hy hxy
    exact h x hx (hxy ▸ hy)
  have hlt : ∀ u ∈ (Is.flatMap fun I => (assembleFrom 0 as).keep I), u < (assembleFrom 0 as).n := by
    intro u hu
    obtain ⟨I, _, huI⟩ := List.mem_flatMap.mp hu
    exact ((mem_pkeep _ _ _).mp huI).1
  have hall : ∀ u, u < (assembleFrom 0 as).n → u ∈ (Is.flatMap fun I => (assembleFrom 0 as).keep I) := by
    intro u hu
    obtain ⟨m, hm, hv⟩ := hG.covered u (by omega) (by omega)
    obtain ⟨I, hI, ht⟩ := hcov m.step (hG.step_lt m hm)
    exact List.mem_flatMap.mpr ⟨I, hI, (mem_pkeep _ _ _).mpr ⟨hu, m, hm, hv, ht⟩⟩
  have hperm : (Is.flatMap fun I => (assembleFrom 0 as).keep I).Perm (List.range (assembleFrom 0 as).n) := by
    rw [List.perm_ext_iff_of_nodup hnodup List.nodup_range]
    intro u
    rw [List.mem_range]
    exact ⟨hlt u, hall u⟩
  unfold isPermOf
  simp only [Bool.and_eq_true, decide_eq_true_eq, List.all_eq_true]
  refine ⟨⟨⟨?_, hlt⟩, hnodup⟩, ?_⟩
  · rw [hperm.length_eq, List.length_range]
  · intro u hu
    exact List.contains_iff_mem.mpr (hall u (List.mem_range.mp hu))

/-! ### well-formedness, boolean variables, rows as sets -/

theorem assembleFrom_var_lt (as : List AssetProblem) (h : ∀ a ∈ as, ∀ m ∈ a.mapping, m.var < a.n) (off : Nat) :
    ∀ m ∈ (assembleFrom off as).mapping, m.var < off + (as.map (·.n)).sum := by
  induction as generalizing off with
  | nil => intro m hm; simp at hm
  | cons a rest ih =>
    intro m hm
    rw [assembleFrom_cons_mapping] at hm
    simp only [List.map_cons, List.sum_cons]
    rcases List.mem_append.mp hm with h1 | h1
    · obtain ⟨m', hm', rfl⟩ := List.mem_map.mp h1
      have := h a (by simp) m' hm'
      show off + m'.var < _
      omega
    · have := ih (fun b hb => h b (by simp [hb])) (off + a.n) m h1
      omega

theorem assemble_wfIdx (as : List AssetProblem) (gridI : List Nat) (skip : List String)
    (h : ∀ a ∈ as, a.l.length = a.n ∧ a.u.length = a.n ∧ (∀ m ∈ a.mapping, m.var < a.n) ∧
      (∀ r ∈ a.rows, ∀ q ∈ r.coeffs, q.1 < a.n)) :
    (assemble as gridI skip).wfIdx = true := by
  have hn : (assemble as gridI skip).n = (as.map (·.n)).sum := by
    rw [assemble_n, assembleFrom_n]
  have hmap : ∀ m ∈ (assembleFrom 0 as).mapping, m.var < (as.map (·.n)).sum := by
    intro m hm
    have := assembleFrom_var_lt as (fun a ha => (h a ha).2.2.1) 0 m hm
    omega
  unfold Problem.wfIdx
  simp only [Bool.and_eq_true, decide_eq_true_eq, List.all_eq_true]
  refine ⟨⟨⟨?_, ?_⟩, ?_⟩, ?_⟩
  · rw [hn, assemble_l, assembleFrom_l_length as 0 (fun a ha => (h a ha).1)]
  · rw [hn, assemble_u, assembleFrom_u_length as 0 (fun a ha => (h a ha).2.1)]
  · intro r hr q hq
    rw [hn]
    rw [assemble_rows] at hr
    rcases List.mem_append.mp hr with h1 | h1
    · have := assembleFrom_cols as 0 (fun a ha => (h a ha).2.2.2) r h1 q hq
      omega
    · obtain ⟨p, _, rfl⟩ := List.mem_map.mp h1
      obtain ⟨m, hm, _, rfl⟩ := mem_nodalRow_coeffs _ _ _ _ hq
      exact hmap m hm
  · intro m hm
    rw [hn]
    rw [assemble_mapping] at hm
    exact hmap m hm

theorem restrictTo_wf {a : AssetProblem} {T : Nat} (h : Banded a T) (I : List Nat) :
    (a.restrictTo I).l.length = (a.restrictTo I).n ∧ (a.restrictTo I).u.length = (a.restrictTo I).n ∧
    (∀ m ∈ (a.restrictTo I).mapping, m.var < (a.restrictTo I).n) ∧
    (∀ r ∈ (a.restrictTo I).rows, ∀ q ∈ r.coeffs, q.1 < (a.restrictTo I).n) := by
  refine ⟨by rw [restrictTo_n]; simp [AssetProblem.restrictTo],
          by rw [restrictTo_n]; simp [AssetProblem.restrictTo], ?_, ?_⟩
  · intro m hm
    rw [restrictTo_n]
    simp only [AssetProblem.restrictTo, List.mem_map] at hm
    obtain ⟨m0, hm0, rfl⟩ := hm
    obtain ⟨h1, h2⟩ := List.mem_filter.mp hm0
    exact List.idxOf_lt_length_of_mem ((banded_var_mem_keep h I m0 h1).mpr (List.contains_iff_mem.mp h2))
  · intro r hr q hq
    rw [restrictTo_n]
    simp only [AssetProblem.restrictTo, List.mem_map] at hr
    obtain ⟨r0, hr0, rfl⟩ := hr
    obtain ⟨_, h2⟩ := List.mem_filter.mp hr0
    simp only [Row.rename, List.mem_map] at hq
    obtain ⟨q0, hq0, rfl⟩ := hq
    exact List.idxOf_lt_length_of_mem (List.contains_iff_mem.mp (List.all_eq_true.mp h2 q0 hq0))

theorem boolVars_nil (P : Problem) (h : ∀ m ∈ P.mapping, m.isBool = false) : P.boolVars = [] := by
  unfold Problem.boolVars
  rw [List.map_eq_nil_iff, List.filter_eq_nil_iff]
  intro m hm
  rw [h m (mem_firstRows _ _ m hm)]
  simp

theorem same_self (r : Row) : r.same r = true := by simp [Row.same]

theorem rowsSubset_of_mem (as bs : List Row) (h : ∀ r ∈ as, r ∈ bs) :
    rowsSubset (as.map Row.norm) (bs.map Row.norm) = true := by
  unfold rowsSubset
  rw [List.all_eq_true]
  intro x hx
  obtain ⟨r, hr, rfl⟩ := List.mem_map.mp hx
  exact List.any_eq_true.mpr ⟨r.norm, List.mem_map_of_mem (h r hr), same_self _⟩

theorem blocks_no_bool (as : List AssetProblem) (T : Nat) (hB : ∀ a ∈ as, Banded a T) (skip : List String) (o : Nat)
    (Js : List (List Nat)) : ∀ m ∈ (blocks as skip o Js).mapping, m.isBool = false := by
  induction Js generalizing o with
  | nil => intro m hm; simp [blocks] at hm
  | cons I Js ih =>
    intro m hm
    have hm' : m ∈ (intervalProblem as skip I).mapping.map (MapRow.shift o) ++
        (blocks as skip (o + (intervalProblem as skip I).n) Js).mapping := hm
    rcases List.mem_append.mp hm' with h | h
    · obtain ⟨m0, hm0, rfl⟩ := List.mem_map.mp h
      have hm1 : m0 ∈ (assembleFrom 0 (as.map fun a => a.restrictTo I)).mapping := hm0
      rw [intervalMapping as T hB I] at hm1
      obtain ⟨m1, hm1', rfl⟩ := List.mem_map.mp hm1
      exact (assembleFrom_gbanded as T hB 0).no_bool m1 (List.mem_filter.mp hm1').1
    · exact ih _ m h

/-! ### the general theorem -/

theorem splitPerm_assemble (as : List AssetProblem) (gridI : List Nat) (skip : List String) (Is : List (List Nat)) :
    splitPerm (assemble as gridI skip) Is = Is.flatMap fun I => (assembleFrom 0 as).keep I := by
  unfold splitPerm
  congr 1

theorem banded_wf {a : AssetProblem} {T : Nat} (h : Banded a T) :
    a.l.length = a.n ∧ a.u.length = a.n ∧ (∀ m ∈ a.mapping, m.var < a.n) ∧
      (∀ r ∈ a.rows, ∀ q ∈ r.coeffs, q.1 < a.n) :=
  ⟨h.l_len, h.u_len, h.map_var, fun r hr => (h.rows_ok r hr).2⟩

theorem intervalProblem_wfIdx (as : List AssetProblem) (T : Nat) (hB : ∀ a ∈ as, Banded a T) (skip : List String)
    (I : List Nat) : (intervalProblem as skip I).wfIdx = true := by
  apply assemble_wfIdx (as.map fun a => a.restrictTo I) (List.range I.length) skip
  intro a' ha'
  obtain ⟨a, ha, rfl⟩ := List.mem_map.mp ha'
  exact restrictTo_wf (hB a ha) I

theorem witness_of_banded (as : List AssetProblem) (T : Nat) (Is : List (List Nat)) (skip : List String)
    (hB : ∀ a ∈ as, Banded a T) (hP : isPartition Is T = true) (hR : ∀ a ∈ as, RowsInside a Is) :
    splitWitness (assemble as (List.range T) skip) (Is.map (intervalProblem as skip))
      (splitPerm (assemble as (List.range T) skip) Is) = true := by
  obtain ⟨hcov, hd⟩ := isPartition_spec Is T hP
  have hkd := keep_disjoint as T hB Is hd
  have hG := assembleFrom_gbanded as T hB 0
  rw [splitPerm_assemble]
  unfold splitWitness
  simp only [Bool.and_eq_true]
  refine ⟨⟨⟨?_, ?_⟩, ?_⟩, ?_⟩
  · exact assemble_wfIdx as _ skip (fun a ha => banded_wf (hB a ha))
  · rw [List.all_eq_true]
    intro P hP'
    obtain ⟨I, _, rfl⟩ := List.mem_map.mp hP'
    exact intervalProblem_wfIdx as T hB skip I
  · rw [assemble_n]
    exact splitPerm_isPerm as T hB Is hP
  · rw [blockSum_eq_blocks]
    unfold sameProblem
    have hc : ((assemble as (List.range T) skip).renameAlong
        (Is.flatMap fun I => (assembleFrom 0 as).keep I)).c = (blocks as skip 0 Is).c := by
      rw [blocks_c as T hB skip 0 Is]; rfl
    simp only [Bool.and_eq_true, decide_eq_true_eq]
    refine ⟨⟨⟨⟨⟨⟨⟨?_, hc⟩, ?_⟩, ?_⟩, ?_⟩, ?_⟩, ?_⟩, ?_⟩
    · unfold Problem.n; rw [hc]
    · rw [blocks_l as T hB skip 0 Is]; rfl
    · rw [blocks_u as T hB skip 0 Is]; rfl
    · -- every unsplit row occurs among the interval rows
      apply rowsSubset_of_mem
      intro R hR'
      have hR'' : R ∈ (assemble as (List.range T) skip).rows.map
          (Row.rename (invPerm (Is.flatMap fun I => (assembleFrom 0 as).keep I))) := hR'
      obtain ⟨r, hr, rfl⟩ := List.mem_map.mp hR''
      rw [assemble_rows] at hr
      have key : ∀ I ∈ Is, (∀ q ∈ r.coeffs, q.1 ∈ (assembleFrom 0 as).keep I) →
          (r.rename fun u => ((assembleFrom 0 as).keep I).idxOf u) ∈ (intervalProblem as skip I).rows →
          r.rename (invPerm (Is.flatMap fun I => (assembleFrom 0 as).keep I)) ∈ (blocks as skip 0 Is).rows := by
        intro I hI hv hmem
        have h2 := blocks_rows_sup as T hB skip Is [] (fun _ _ _ _ h => by simp at h) hkd I hI r hv hmem
        rw [List.nil_append] at h2
        exact h2
      rcases List.mem_append.mp hr with h | h
      · obtain ⟨I, hI, hk⟩ := rows_cover Is as hR 0 r h
        have hv := (keptRows_sub I 0 as r hk).2
        rw [keptFrom_eq_pkeep as T hB I] at hv
        exact key I hI hv (interval_rows_sup_asset as T hB skip I r hk)
      · obtain ⟨⟨t, n⟩, hp, rfl⟩ := List.mem_map.mp h
        have ht : t < T := List.mem_range.mp ((mem_nodalPairs_iff _ _ _ _ t n).mp hp).2.2.1
        obtain ⟨I, hI, htI⟩ := hcov t ht
        obtain ⟨g1, g2⟩ := interval_rows_sup_nodal as T hB skip I t n hp htI
        exact key I hI g2 g1
    · -- every interval row is a row of the unsplit problem
      apply rowsSubset_of_mem
      intro R hR'
      obtain ⟨r, hr, hRr⟩ := blocks_rows_sub as T hB skip Is [] (fun _ _ _ _ h => by simp at h) hkd R hR'
      rw [List.nil_append] at hRr
      have : R = r.rename (invPerm (Is.flatMap fun I => (assembleFrom 0 as).keep I)) := hRr
      rw [this]
      exact List.mem_map_of_mem hr
    · rw [boolVars_nil]
      · rfl
      · intro m hm
        have hm' : m ∈ (assemble as (List.range T) skip).mapping.map
            (MapRow.rename (invPerm (Is.flatMap fun I => (assembleFrom 0 as).keep I))) := hm
        obtain ⟨m0, hm0, rfl⟩ := List.mem_map.mp hm'
        rw [assemble_mapping] at hm0
        exact hG.no_bool m0 hm0
    · rw [boolVars_nil (blocks as skip 0 Is) (blocks_no_bool as T hB skip 0 Is)]
      rfl

/-! ## Part 2: the builders commute with the restriction of the asset grid

### `sel` -/

theorem sel_map {α β} (f : α → β) : ∀ (m : List Bool) (xs : List α), sel m (xs.map f) = (sel m xs).map f
  | [], xs => by simp [sel_nil_left]
  | _ :: _, [] => by simp [sel_nil_right]
  | true :: m, x :: xs => by simp [sel_map f m xs]
  | false :: m, x :: xs => by simp [sel_map f m xs]

theorem sel_zipWith {α β γ} (f : α → β → γ) : ∀ (m : List Bool) (xs : List α) (ys : List β),
    sel m (List.zipWith f xs ys) = List.zipWith f (sel m xs) (sel m ys)
  | [], xs, ys => by simp [sel_nil_left]
  | _ :: _, [], ys => by simp [sel_nil_right]
  | _ :: _, _ :: _, [] => by simp [sel_nil_right]
  | true :: m, x :: xs, y :: ys => by simp [sel_zipWith f m xs ys]
  | false :: m, x :: xs, y :: ys => by simp [sel_zipWith f m xs ys]

theorem sel_zip {α β} (m : List Bool) (xs : List α) (ys : List β) :
    sel m (xs.zip ys) = (sel m xs).zip (sel m ys) := by
  rw [List.zip_eq_zipWith, List.zip_eq_zipWith, sel_zipWith]

theorem sel_append {α} : ∀ (m1 m2 : List Bool) (xs ys : List α), m1.length = xs.length →
    sel (m1 ++ m2) (xs ++ ys) = sel m1 xs ++ sel m2 ys
  | [], m2, [], ys, _ => by simp [sel_nil_left]
  | [], _, _ :: _, _, h => by simp at h
  | _ :: _, _, [], _, h => by simp at h
  | true :: m1, m2, x :: xs, ys, h => by
    have := sel_append m1 m2 xs ys (by simpa using h)
    simp [this]
  | false :: m1, m2, x :: xs, ys, h => by
    have := sel_append m1 m2 xs ys (by simpa using h)
    simp [this]

theorem sel_map_self' {α} (p : α → Bool) : ∀ xs : List α, sel (xs.map p) xs = xs.filter p
  | [] => rfl
  | x :: xs => by cases h : p x <;> simp [h, sel_map_self' p xs]

theorem mem_of_mem_sel {α} (m : List Bool) (xs : List α) (x : α) (h : x ∈ sel m xs) : x ∈ xs :=
  (sel_sublist m xs).subset h

theorem sel_all {α} (m : List Bool) (xs : List α) (p : α → Bool) (h : xs.all p = true) : (sel m xs).all p = true := by
  rw [List.all_eq_true] at h ⊢
  exact fun x hx => h x (mem_of_mem_sel m xs x hx)

theorem sel_any_false {α} (m : List Bool) (xs : List α) (p : α → Bool) (h : xs.any p = false) :
    (sel m xs).any p = false := by
  rw [Bool.eq_false_iff] at h ⊢
  intro h'
  obtain ⟨x, hx, hp⟩ := List.any_eq_true.mp h'
  exact h (List.any_eq_true.mpr ⟨x, mem_of_mem_sel m xs x hx, hp⟩)

theorem sel_length_eq {α β} : ∀ (m : List Bool) (xs : List α) (ys : List β), xs.length = ys.length →
    (sel m xs).length = (sel m ys).length
  | [], xs, ys, _ => by simp [sel_nil_left]
  | _ :: _, [], [], _ => by simp [sel_nil_right]
  | _ :: _, [], _ :: _, h => by simp at h
  | _ :: _, _ :: _, [], h => by simp at h
  | true :: m, x :: xs, y :: ys, h => by
    have := sel_length_eq m xs ys (by simpa using h)
    simp [this]
  | false :: m, x :: xs, y :: ys, h => by
    have := sel_length_eq m xs ys (by simpa using h)
    simp [this]

/-- selection by a mask computed from a list = the positions whose entry satisfies the predicate -/
theorem filter_range_getD {α β} (p : β → Bool) (d' : β) (d : α) : ∀ (ys : List β) (xs : List α),
    xs.length = ys.length →
    ((List.range ys.length).filter fun i => p (ys.getD i d')).map (fun i => xs.getD i d) = sel (ys.map p) xs
  | [], xs, _ => by simp [sel_nil_left]
  | _ :: _, [], h => by simp at h
  | y :: ys, x :: xs, h => by
    have ih := filter_range_getD p d' d ys xs (by simpa using h)
    rw [List.length_cons, List.range_succ_eq_map, List.filter_cons, List.filter_map, List.map_cons]
    have e1 : ((fun i => p ((y :: ys).getD i d')) ∘ Nat.succ) = fun i => p (ys.getD i d') := by
      funext i; simp
    rw [e1]
    cases hp : p y
    · simp only [List.getD_cons_zero, hp, Bool.false_eq_true, if_false, List.map_map, sel_cons_false]
      rw [← ih]
      apply List.map_congr_left
      intro i _
      simp
    · simp only [List.getD_cons_zero, hp, if_true, List.map_cons, List.map_map, sel_cons_true]
      rw [← ih]
      congr 1

/-! ### positions of the asset grid that belong to the step list, blocks of mapping rows -/

/-- positions of an asset grid (step indices `idx`) whose step is in `I` -/
def pos (idx I : List Nat) : List Nat := (List.range idx.length).filter fun i => I.contains (idx.getD i 0)

theorem pos_map_getD {α} (idx I : List Nat) (xs : List α) (d : α) (h : xs.length = idx.length) :
    (pos idx I).map (fun i => xs.getD i d) = sel (idx.map fun t => I.contains t) xs :=
  filter_range_getD (fun t => I.contains t) 0 d idx xs h

theorem mem_pos (idx I : List Nat) (i : Nat) : i ∈ pos idx I ↔ i < idx.length ∧ idx.getD i 0 ∈ I := by
  simp [pos, List.mem_filter]

theorem pos_nodup (idx I : List Nat) : (pos idx I).Nodup :=
  List.Nodup.sublist List.filter_sublist List.nodup_range

theorem pos_length (idx I : List Nat) : (pos idx I).length = (sel (idx.map fun t => I.contains t) idx).length := by
  rw [← pos_map_getD idx I idx 0 rfl, List.length_map]

theorem zipIdx_filter_fst {α} (p : α → Bool) : ∀ (xs : List α) (k : Nat),
    ((xs.zipIdx k).filter fun ti => p ti.1).map (·.1) = xs.filter p
  | [], _ => rfl
  | x :: xs, k => by
    rw [List.zipIdx_cons, List.filter_cons, List.filter_cons]
    cases h : p x <;> simp [zipIdx_filter_fst p xs (k + 1)]

theorem zipIdx_filter_snd {α} (p : α → Bool) (d : α) : ∀ (xs : List α) (k : Nat),
    ((xs.zipIdx k).filter fun ti => p ti.1).map (·.2) =
      ((List.range xs.length).filter fun i => p (xs.getD i d)).map (k + ·)
  | [], _ => rfl
  | x :: xs, k => by
    have ih := zipIdx_filter_snd p d xs (k + 1)
    rw [List.zipIdx_cons, List.filter_cons, List.length_cons, List.range_succ_eq_map, List.filter_cons,
      List.filter_map]
    have e1 : ((fun i => p ((x :: xs).getD i d)) ∘ Nat.succ) = fun i => p (xs.getD i d) := by
      funext i; simp
    rw [e1]
    cases h : p x
    · simp only [h, Bool.false_eq_true, if_false, List.getD_cons_zero, List.map_map]
      rw [ih]
      apply List.map_congr_left
      intro i _
      simp; omega
    · simp only [h, if_true, List.getD_cons_zero, List.map_cons, List.map_map, Nat.add_zero]
      rw [ih]
      congr 1
      apply List.map_congr_left
      intro i _
      simp; omega

/-- a block of mapping rows: one row per step of the asset grid, built from position and step -/
def genBlock (R : Nat → Nat → MapRow) (idx : List Nat) : List MapRow := idx.zipIdx.map fun ti => R ti.2 ti.1

theorem mem_genBlock (R : Nat → Nat → MapRow) (idx : List Nat) (m : MapRow) :
    m ∈ genBlock R idx ↔ ∃ i, ∃ h : i < idx.length, m = R i (idx[i]) := by
  unfold genBlock
  rw [List.mem_map]
  constructor
  · rintro ⟨⟨t, i⟩, hti, rfl⟩
    obtain ⟨hi, ht⟩ := List.mem_zipIdx' hti
    exact ⟨i, hi, by simp [ht]⟩
  · rintro ⟨i, hi, rfl⟩
    refine ⟨(idx[i], i), ?_, rfl⟩
    have h2 : i < (idx.zipIdx).length := by simpa using hi
    have := List.getElem_mem h2
    rw [List.getElem_zipIdx] at this
    simpa using this

/-- the rows of a block at the steps of `I`, renamed, are the block of the restricted grid -/
theorem block_restrict (R R' : Nat → Nat → MapRow) (idx I : List Nat) (ren : MapRow → MapRow)
    (hstep : ∀ i t, (R i t).step = t)
    (hren : ∀ i, i ∈ pos idx I → ∀ t, t ∈ I → ren (R i t) = R' ((pos idx I).idxOf i) (I.idxOf t)) :
    ((genBlock R idx).filter fun m => I.contains m.step).map ren =
      genBlock R' ((sel (idx.map fun t => I.contains t) idx).map fun t => I.idxOf t) := by
  unfold genBlock
  rw [List.filter_map, List.map_map, List.zipIdx_map, List.map_map]
  have e1 : ((fun m : MapRow => I.contains m.step) ∘ fun ti : Nat × Nat => R ti.2 ti.1) = fun ti => I.contains ti.1 := by
    funext ti; simp [hstep]
  rw [e1]
  have hfst := zipIdx_filter_fst (fun t => I.contains t) idx 0
  have hsnd := zipIdx_filter_snd (fun t => I.contains t) 0 idx 0
  rw [sel_map_self', ← hfst]
  have hsnd' : ((idx.zipIdx 0).filter fun ti => I.contains ti.1).map (·.2) = pos idx I := by
    rw [hsnd]; unfold pos; simp
  generalize hL : (idx.zipIdx 0).filter (fun ti => I.contains ti.1) = L at hsnd' hfst
  have hLmem : ∀ ti ∈ L, ti.1 ∈ I := by
    intro ti hti
    rw [← hL] at hti
    exact List.contains_iff_mem.mp (List.mem_filter.mp hti).2
  apply List.ext_getElem
  · simp
  · intro j h1 h2
    have hj : j < L.length := by simpa using h1
    simp only [List.getElem_map, List.getElem_zipIdx, Function.comp, Prod.map, id, Nat.zero_add]
    have hp : (pos idx I)[j]'(by rw [← hsnd']; simpa using hj) = (L[j]).2 := by
      simp [← hsnd']
    have hmem : (L[j]).2 ∈ pos idx I := by
      rw [← hsnd']; exact List.mem_map_of_mem (List.getElem_mem hj)
    rw [hren _ hmem _ (hLmem _ (List.getElem_mem hj))]
    congr 1
    rw [← hp]
    exact (pos_nodup idx I).idxOf_getElem j _

/-! ### kept variables and restricted vectors of one-block and two-block problems -/

theorem varAtSteps_append (M1 M2 : List MapRow) (I : List Nat) (v : Nat) :
    varAtSteps (M1 ++ M2) I v = (varAtSteps M1 I v || varAtSteps M2 I v) := by
  simp [varAtSteps, List.any_append]

theorem varAtSteps_genBlock (R : Nat → Nat → MapRow) (idx I : List Nat) (off : Nat)
    (hvar : ∀ i t, (R i t).var = off + i) (hstep : ∀ i t, (R i t).step = t) (w : Nat) :
    varAtSteps (genBlock R idx) I w = true ↔ ∃ i, i < idx.length ∧ off + i = w ∧ idx.getD i 0 ∈ I := by
  rw [varAtSteps_iff]
  constructor
  · rintro ⟨m, hm, hv, hs⟩
    obtain ⟨i, hi, rfl⟩ := (mem_genBlock R idx m).mp hm
    rw [hvar] at hv
    rw [hstep] at hs
    exact ⟨i, hi, hv, by simpa [List.getD_eq_getElem?_getD, hi] using hs⟩
  · rintro ⟨i, hi, hv, hs⟩
    refine ⟨R i idx[i], (mem_genBlock R idx _).mpr ⟨i, hi, rfl⟩, by rw [hvar]; exact hv, ?_⟩
    rw [hstep]
    simpa [List.getD_eq_getElem?_getD, hi] using hs

theorem keep_one_block (a : AssetProblem) (idx I : List Nat) (hn : a.n = idx.length)
    (h : ∀ v, v < idx.length → (varAtSteps a.mapping I v = true ↔ idx.getD v 0 ∈ I)) :
    a.keep I = pos idx I := by
  unfold AssetProblem.keep pos
  rw [hn]
  apply List.filter_congr
  intro v hv
  rw [Bool.eq_iff_iff, h v (List.mem_range.mp hv), List.contains_iff_mem]

theorem keep_two_block (a : AssetProblem) (idx I : List Nat) (hn : a.n = idx.length + idx.length)
    (h1 : ∀ v, v < idx.length → (varAtSteps a.mapping I v = true ↔ idx.getD v 0 ∈ I))
    (h2 : ∀ v, v < idx.length → (varAtSteps a.mapping I (idx.length + v) = true ↔ idx.getD v 0 ∈ I)) :
    a.keep I = pos idx I ++ (pos idx I).map (idx.length + ·) := by
  unfold AssetProblem.keep pos
  rw [hn, List.range_add, List.filter_append, List.filter_map]
  congr 1
  · apply List.filter_congr
    intro v hv
    rw [Bool.eq_iff_iff, h1 v (List.mem_range.mp hv), List.contains_iff_mem]
  · congr 1
    apply List.filter_congr
    intro v hv
    simp only [Function.comp]
    rw [Bool.eq_iff_iff, h2 v (List.mem_range.mp hv), List.contains_iff_mem]

theorem two_block_vec (idx I : List Nat) (xs ys : List Rat) (hx : xs.length = idx.length) (hy : ys.length = idx.length) :
    (pos idx I ++ (pos idx I).map (idx.length + ·)).map (fun v => (xs ++ ys).getD v 0) =
      sel (idx.map fun t => I.contains t) xs ++ sel (idx.map fun t => I.contains t) ys := by
  rw [List.map_append, List.map_map, ← pos_map_getD idx I xs 0 hx, ← pos_map_getD idx I ys 0 hy]
  congr 1
  · apply List.map_congr_left
    intro i hi
    have : i < xs.length := by rw [hx]; exact ((mem_pos idx I i).mp hi).1
    simp [List.getD_eq_getElem?_getD, List.getElem?_append_left this]
  · apply List.map_congr_left
    intro i _
    simp only [Function.comp]
    rw [← hx]
    exact getD_append_right' xs ys i

theorem idxOf_two_block_right (idx I : List Nat) (i : Nat) :
    (pos idx I ++ (pos idx I).map (idx.length + ·)).idxOf (idx.length + i) = (pos idx I).length + (pos idx I).idxOf i := by
  rw [idxOf_append_right]
  · rw [idxOf_map_inj (idx.length + ·) (fun a b h => by omega)]
  · intro h
    have := ((mem_pos idx I _).mp h).1
    omega

/-- how to show what a restricted problem is -/
theorem restrictTo_eq (a b : AssetProblem) (I : List Nat) (hname : a.name = b.name) (hnodes : a.nodes = b.nodes)
    (hc : (a.keep I).map (fun v => a.c.getD v 0) = b.c) (hl : (a.keep I).map (fun v => a.l.getD v 0) = b.l)
    (hu : (a.keep I).map (fun v => a.u.getD v 0) = b.u)
    (hrows : (a.rows.filter fun r => r.coeffs.all fun q => (a.keep I).contains q.1).map
        (Row.rename fun v => (a.keep I).idxOf v) = b.rows)
    (hmap : (a.mapping.filter fun m => I.contains m.step).map
        (fun m => { m with var := (a.keep I).idxOf m.var, step := I.idxOf m.step }) = b.mapping) :
    a.restrictTo I = b := by
  cases b
  simp only at hname hnodes hc hl hu hrows hmap
  subst hname hnodes hc hl hu hrows hmap
  rfl

/-! ### the data pipeline of the builders on the restricted grid -/

theorem pickMask_eq (g : Grid) (I : List Nat) : g.pickMask I = g.idx.map fun t => I.contains t := rfl

theorem mem_sel_idx (g : Grid) (I : List Nat) (t : Nat) (h : t ∈ sel (g.pickMask I) g.idx) : t ∈ I := by
  rw [pickMask_eq, sel_map_self'] at h
  exact List.contains_iff_mem.mp (List.mem_filter.mp h).2

theorem pick_T (g : Grid) (I : List Nat) (hg : g.Ok) : (g.pick I).T = (pos g.idx I).length := by
  rw [pos_length]
  exact sel_length_eq _ _ _ (by rw [hg.1]; rfl)

theorem pick_ok (g : Grid) (I : List Nat) (hg : g.Ok) : (g.pick I).Ok := by
  have h1 : g.pts.length = g.idx.length := hg.1.symm
  refine ⟨?_, ?_, ?_⟩
  · show ((sel _ g.idx).map _).length = (sel _ g.pts).length
    rw [List.length_map]; exact sel_length_eq _ _ _ h1.symm
  · exact sel_length_eq _ _ _ (by rw [hg.2.1]; rfl)
  · exact sel_length_eq _ _ _ (by rw [hg.2.2]; rfl)

theorem lookup_pickPrices (I : List Nat) (prices : Prices) (k : String) :
    (pickPrices I prices).lookup k = (prices.lookup k).map fun arr => I.map fun t => arr.getD t 0 := by
  unfold Prices.lookup pickPrices
  rw [List.find?_map]
  have e : ((fun e : String × List Rat => e.1 == k) ∘ fun kv : String × List Rat => (kv.1, I.map fun t => kv.2.getD t 0))
      = fun e => e.1 == k := rfl
  rw [e]
  cases List.find? (fun e : String × List Rat => e.1 == k) prices <;> rfl

theorem getD_map_idxOf (I : List Nat) (f : Nat → Rat) (t : Nat) (ht : t ∈ I) :
    (I.map f).getD (I.idxOf t) 0 = f t := by
  have h1 := List.idxOf_lt_length_of_mem ht
  rw [List.getD_eq_getElem?_getD, List.getElem?_eq_getElem (by simpa using h1)]
  simp [List.getElem_idxOf h1]

/-- sampling the picked array at the re-based steps = the picked sample -/
theorem sample_pick (arr : List Rat) (g : Grid) (I : List Nat) (ys : List Rat) (h : sample arr g.idx = .ok ys) :
    sample (I.map fun t => arr.getD t 0) (g.pick I).idx = .ok (sel (g.pickMask I) ys) := by
  rw [sample_ok h]
  unfold sample
  have hall : ((g.pick I).idx.all fun i => decide (i < (I.map fun t => arr.getD t 0).length)) = true := by
    rw [List.all_eq_true]
    intro i hi
    obtain ⟨t, ht, rfl⟩ := List.mem_map.mp hi
    simpa using List.idxOf_lt_length_of_mem (mem_sel_idx g I t ht)
  rw [if_pos hall]
  show Except.ok _ = _
  congr 1
  show ((sel (g.pickMask I) g.idx).map _).map _ = _
  rw [List.map_map, sel_map]
  apply List.map_congr_left
  intro t ht
  exact getD_map_idxOf I (fun t => arr.getD t 0) t (mem_sel_idx g I t ht)

theorem sample_zero_pick (n n' : Nat) (g : Grid) (I : List Nat) (ys : List Rat)
    (h : sample (List.replicate n 0) g.idx = .ok ys) (hn' : n' = I.length) :
    sample (List.replicate n' 0) (g.pick I).idx = .ok (sel (g.pickMask I) ys) := by
  rw [sample_ok h]
  unfold sample
  have hall : ((g.pick I).idx.all fun i => decide (i < (List.replicate n' (0 : Rat)).length)) = true := by
    rw [List.all_eq_true]
    intro i hi
    obtain ⟨t, ht, rfl⟩ := List.mem_map.mp hi
    simpa [hn'] using List.idxOf_lt_length_of_mem (mem_sel_idx g I t ht)
  rw [if_pos hall]
  show Except.ok _ = _
  congr 1
  have hz : ∀ (k i : Nat), (List.replicate k (0 : Rat)).getD i 0 = 0 := by
    intro k i
    rw [List.getD_eq_getElem?_getD]
    by_cases hi : i < k
    · simp [hi]
    · have : (List.replicate k (0 : Rat))[i]? = none := by
        apply List.getElem?_eq_none; simp; omega
      rw [this]; rfl
  show ((sel (g.pickMask I) g.idx).map _).map _ = _
  rw [List.map_map, sel_map]
  apply List.map_congr_left
  intro t _
  show (List.replicate n' (0 : Rat)).getD _ 0 = (List.replicate n (0 : Rat)).getD _ 0
  rw [hz, hz]

theorem priceVector_pick (key : Option String) (g : Grid) (I : List Nat) (prices : Prices) (fullT : Nat)
    (ys : List Rat) (h : priceVector key g prices fullT = .ok ys) :
    priceVector key (g.pick I) (pickPrices I prices) I.length = .ok (sel (g.pickMask I) ys) := by
  unfold priceVector at h ⊢
  cases key with
  | none => exact sample_zero_pick fullT I.length g I ys h rfl
  | some k =>
    simp only at h ⊢
    rw [lookup_pickPrices]
    cases hl : prices.lookup k with
    | none => simp [hl, throw, throwThe, MonadExceptOf.throw] at h
    | some arr =>
      simp only [hl, Option.map_some] at h ⊢
      split at h
      · rw [if_pos (by simp)]
        exact sample_pick arr g I ys h
      · simp [throw, throwThe, MonadExceptOf.throw] at h

theorem transportCosts_pick (key : Option String) (g : Grid) (I : List Nat) (prices : Prices) (fullT : Nat)
    (ys : List Rat) (h : transportCosts key g prices fullT = .ok ys) :
    transportCosts key (g.pick I) (pickPrices I prices) I.length = .ok (sel (g.pickMask I) ys) := by
  unfold transportCosts at h ⊢
  cases key with
  | none => exact sample_zero_pick fullT I.length g I ys h rfl
  | some k =>
    simp only at h ⊢
    rw [lookup_pickPrices]
    cases hl : prices.lookup k with
    | none => simp [hl, throw, throwThe, MonadExceptOf.throw] at h
    | some arr =>
      simp only [hl, Option.map_some] at h ⊢
      split at h
      · rw [if_pos (by simp)]
        exact sample_pick arr g I ys h
      · simp [throw, throwThe, MonadExceptOf.throw] at h

theorem disjointOn_sub (pts pts' : List Int) (ivs : List Interval) (hs : ∀ p ∈ pts', p ∈ pts)
    (h : DisjointOn pts ivs) : DisjointOn pts' ivs := by
  unfold DisjointOn at h ⊢
  exact List.Pairwise.imp (fun hab p hp => hab p (hs p hp)) h

theorem valuesToGrid_sel (m : List Bool) (pts : List Int) (ivs : List Interval) (r : List (Option Rat))
    (h : valuesToGrid pts ivs = .ok r) : valuesToGrid (sel m pts) ivs = .ok (sel m r) := by
  have hd : DisjointOn pts ivs := (valuesToGrid_ok_iff pts ivs).mp ⟨r, h⟩
  rw [valuesToGrid_ok pts ivs hd] at h
  injection h with h
  rw [valuesToGrid_ok _ ivs (disjointOn_sub pts _ ivs (mem_of_mem_sel m pts) hd), ← h, sel_map]

theorem baseVector_pick (v : ParamValue) (g : Grid) (I : List Nat) (prices : Prices) (dflt : Option Rat)
    (base : List (Option Rat)) (hv : v.gridFree = true) (h : baseVector v g prices dflt = .ok base) :
    baseVector v (g.pick I) (pickPrices I prices) dflt = .ok (sel (g.pickMask I) base) := by
  unfold baseVector at h ⊢
  cases v with
  | scalar s =>
    simp only [pure, Except.pure] at h ⊢
    injection h with h
    rw [← h, sel_map]
    rfl
  | array vs =>
    simp only [ParamValue.gridFree, beq_iff_eq] at hv
    obtain ⟨x, rfl⟩ : ∃ x, vs = [x] := by
      cases vs with
      | nil => simp at hv
      | cons x rest =>
        cases rest with
        | nil => exact ⟨x, rfl⟩
        | cons y rest => simp at hv
    have hb : ∀ T : Nat, broadcastArray [x] T = .ok (List.replicate T x) := by
      intro T
      unfold broadcastArray
      by_cases hT : [x].length = T
      · rw [if_pos hT]
        have : T = 1 := by simpa using hT.symm
        subst this; rfl
      · rw [if_neg hT]; rfl
    simp only [hb, Except.map] at h ⊢
    injection h with h
    rw [← h]
    congr 1
    have e1 : List.replicate g.T x = g.pts.map fun _ => x := by
      simp [Grid.T, List.map_const']
    have e2 : List.replicate (g.pick I).T x = (g.pick I).pts.map fun _ => x := by
      simp [Grid.T, List.map_const']
    rw [e1, e2, List.map_map, List.map_map, sel_map]
    rfl
  | key k =>
    simp only at h ⊢
    rw [lookup_pickPrices]
    cases hl : prices.lookup k with
    | none => simp [hl, throw, throwThe, MonadExceptOf.throw] at h
    | some arr =>
      simp only [hl, Option.map_some, Except.map] at h ⊢
      cases hs : sample arr g.idx with
      | error e => simp [hs] at h
      | ok ys =>
        simp only [hs] at h
        injection h with h
        rw [sample_pick arr g I ys hs, ← h, sel_map]
  | intervals ivs =>
    simp only at h ⊢
    cases hvg : valuesToGrid g.pts ivs with
    | error e => simp [hvg, throw, throwThe, MonadExceptOf.throw] at h
    | ok r =>
      have hJ : valuesToGrid (g.pick I).pts ivs = .ok (sel (g.pickMask I) r) := valuesToGrid_sel _ g.pts ivs r hvg
      simp only [hvg, hJ, pure, Except.pure] at h ⊢
      injection h with h
      rw [← h]
      cases dflt with
      | none => rfl
      | some d => simp only; rw [sel_map]

theorem makeVector_pick (v : ParamValue) (g : Grid) (I : List Nat) (prices : Prices) (dflt : Option Rat) (conv : Bool)
    (xs : List (Option Rat)) (hv : v.gridFree = true) (h : makeVector v g prices dflt conv = .ok xs) :
    makeVector v (g.pick I) (pickPrices I prices) dflt conv = .ok (sel (g.pickMask I) xs) := by
  obtain ⟨base, hb, rfl⟩ := makeVector_ok h
  unfold makeVector
  simp only [bind, Except.bind, baseVector_pick v g I prices dflt base hv hb, pure, Except.pure]
  cases conv
  · simp
  · simp only [if_true]
    congr 1
    unfold timesDt
    rw [sel_map, sel_zip]
    rfl

theorem allSome_sel (m : List Bool) (xs : List (Option Rat)) (ys : List Rat) (h : allSome xs = .ok ys) :
    allSome (sel m xs) = .ok (sel m ys) := by
  obtain ⟨rfl, hall⟩ := allSome_ok h
  unfold allSome
  rw [if_pos (sel_all m xs _ hall), sel_map]
  rfl

theorem anyGt_sel (m : List Bool) (a b : List (Option Rat)) (h : anyGt a b = false) :
    anyGt (sel m a) (sel m b) = false := by
  unfold anyGt at h ⊢
  rw [← sel_zip]
  exact sel_any_false m _ _ h

theorem contractVectors_pick (p : ContractP) (g : Grid) (I : List Nat) (prices : Prices)
    (minO maxO ecO : List (Option Rat)) (hp : p.gridFree = true)
    (h : contractVectors p g prices = .ok (minO, maxO, ecO)) :
    contractVectors p (g.pick I) (pickPrices I prices) =
      .ok (sel (g.pickMask I) minO, sel (g.pickMask I) maxO, sel (g.pickMask I) ecO) := by
  obtain ⟨h1, h2, h3, h4⟩ := contractVectors_ok h
  simp only [ContractP.gridFree, Bool.and_eq_true] at hp
  unfold contractVectors
  simp only [bind, Except.bind, makeVector_pick _ g I prices _ _ _ hp.2 h1, makeVector_pick _ g I prices _ _ _ hp.1.2 h2,
    makeVector_pick _ g I prices _ _ _ hp.1.1 h4, anyGt_sel _ _ _ h3, pure, Except.pure]
  simp

/-! ### the simple contract -/

/-- the data of a simple-contract build, restricted by a mask -/
def selData (m : List Bool) (d : SCData) : SCData :=
  ⟨sel m d.price, sel m d.ec, sel m d.minC, sel m d.maxC, d.node⟩

theorem dispBlock_eq (asset node vn : String) (off : Nat) (g : Grid) :
    dispBlock asset node vn off g = genBlock (fun i t => dispRow asset node vn (off + i) t) g.idx := rfl

theorem varAt_dispBlock (asset node vn : String) (off : Nat) (g : Grid) (I : List Nat) (w : Nat) :
    varAtSteps (dispBlock asset node vn off g) I w = true ↔ ∃ i, i < g.idx.length ∧ off + i = w ∧ g.idx.getD i 0 ∈ I := by
  rw [dispBlock_eq]
  exact varAtSteps_genBlock _ g.idx I off (fun _ _ => rfl) (fun _ _ => rfl) w

theorem scOne_n (p : ContractP) (g : Grid) (d : SCData) (hg : g.Ok)
    (hl : d.price.length = g.T ∧ d.ec.length = g.T ∧ d.minC.length = g.T ∧ d.maxC.length = g.T) :
    (scOne p g d).n = g.idx.length := by
  simp [scOne, AssetProblem.n, oneVarPrice_length hl.1 hl.2.1, hg.2.2, hg.1]

theorem scOne_keep (p : ContractP) (g : Grid) (d : SCData) (I : List Nat) (hg : g.Ok)
    (hl : d.price.length = g.T ∧ d.ec.length = g.T ∧ d.minC.length = g.T ∧ d.maxC.length = g.T) :
    (scOne p g d).keep I = pos g.idx I := by
  apply keep_one_block _ g.idx I (scOne_n p g d hg hl)
  intro v hv
  show varAtSteps (dispBlock _ _ _ 0 g) I v = true ↔ _
  rw [varAt_dispBlock]
  constructor
  · rintro ⟨i, _, h1, h2⟩
    have : i = v := by omega
    subst this; exact h2
  · intro h; exact ⟨v, hv, by omega, h⟩

theorem scOne_restrict (p : ContractP) (g : Grid) (d : SCData) (I : List Nat) (hg : g.Ok)
    (hl : d.price.length = g.T ∧ d.ec.length = g.T ∧ d.minC.length = g.T ∧ d.maxC.length = g.T)
    (hprice : sel (g.pickMask I) (oneVarPrice d.price d.ec d.minC d.maxC) =
      oneVarPrice (sel (g.pickMask I) d.price) (sel (g.pickMask I) d.ec) (sel (g.pickMask I) d.minC)
        (sel (g.pickMask I) d.maxC)) :
    (scOne p g d).restrictTo I = scOne p (g.pick I) (selData (g.pickMask I) d) := by
  have hk := scOne_keep p g d I hg hl
  have hn := scOne_n p g d hg hl
  refine restrictTo_eq (scOne p g d) (scOne p (g.pick I) (selData (g.pickMask I) d)) I rfl rfl ?_ ?_ ?_ ?_ ?_
  · rw [hk, pos_map_getD g.idx I _ 0 hn]
    show sel _ (List.zipWith _ _ _) = List.zipWith _ _ _
    rw [sel_zipWith, ← pickMask_eq, hprice]
    rfl
  · rw [hk, pos_map_getD g.idx I _ 0 (by show d.minC.length = _; rw [hl.2.2.1, hg.1])]; rfl
  · rw [hk, pos_map_getD g.idx I _ 0 (by show d.maxC.length = _; rw [hl.2.2.2, hg.1])]; rfl
  · rfl
  · rw [hk]
    show ((dispBlock _ _ _ 0 g).filter _).map _ = dispBlock _ _ _ 0 (g.pick I)
    rw [dispBlock_eq, dispBlock_eq]
    exact block_restrict _ _ g.idx I _ (fun _ _ => rfl) (fun i _ t _ => by simp [dispRow, selData])

theorem scTwo_n (p : ContractP) (g : Grid) (d : SCData) (hg : g.Ok)
    (hl : d.price.length = g.T ∧ d.ec.length = g.T ∧ d.minC.length = g.T ∧ d.maxC.length = g.T) :
    (scTwo p g d).n = g.idx.length + g.idx.length := by
  simp [scTwo, AssetProblem.n, hl.1, hl.2.1, hg.2.2, hg.1]

theorem scTwo_keep (p : ContractP) (g : Grid) (d : SCData) (I : List Nat) (hg : g.Ok)
    (hl : d.price.length = g.T ∧ d.ec.length = g.T ∧ d.minC.length = g.T ∧ d.maxC.length = g.T) :
    (scTwo p g d).keep I = pos g.idx I ++ (pos g.idx I).map (g.idx.length + ·) := by
  have hT : g.T = g.idx.length := hg.1.symm
  apply keep_two_block _ g.idx I (scTwo_n p g d hg hl)
  · intro v hv
    show varAtSteps (dispBlock _ _ _ 0 g ++ dispBlock _ _ _ g.T g) I v = true ↔ _
    rw [varAtSteps_append, Bool.or_eq_true, varAt_dispBlock, varAt_dispBlock]
    constructor
    · rintro (⟨i, _, h1, h2⟩ | ⟨i, _, h1, _⟩)
      · have : i = v := by omega
        subst this; exact h2
      · omega
    · intro h; exact Or.inl ⟨v, hv, by omega, h⟩
  · intro v hv
    show varAtSteps (dispBlock _ _ _ 0 g ++ dispBlock _ _ _ g.T g) I (g.idx.length + v) = true ↔ _
    rw [varAtSteps_append, Bool.or_eq_true, varAt_dispBlock, varAt_dispBlock]
    constructor
    · rintro (⟨i, hi, h1, _⟩ | ⟨i, _, h1, h2⟩)
      · omega
      · have : i = v := by omega
        subst this; exact h2
    · intro h; exact Or.inr ⟨v, hv, by omega, h⟩

theorem scTwo_restrict (p : ContractP) (g : Grid) (d : SCData) (I : List Nat) (hg : g.Ok)
    (hl : d.price.length = g.T ∧ d.ec.length = g.T ∧ d.minC.length = g.T ∧ d.maxC.length = g.T) :
    (scTwo p g d).restrictTo I = scTwo p (g.pick I) (selData (g.pickMask I) d) := by
  have hk := scTwo_keep p g d I hg hl
  have hT : g.T = g.idx.length := hg.1.symm
  have hdf : g.df.length = g.idx.length := by rw [hg.2.2, hT]
  refine restrictTo_eq (scTwo p g d) (scTwo p (g.pick I) (selData (g.pickMask I) d)) I rfl rfl ?_ ?_ ?_ ?_ ?_
  · rw [hk]
    simp only [scTwo, selData]
    rw [two_block_vec g.idx I _ _ (by simp [hl.1, hl.2.1, hdf, hT]) (by simp [hl.1, hl.2.1, hdf, hT]),
      sel_zipWith, sel_zipWith, sel_zipWith, sel_zipWith]
    rfl
  · rw [hk]
    simp only [scTwo, selData]
    rw [two_block_vec g.idx I _ _ (by simp [hl.2.2.1, hT]) (by simp [hl.2.2.1, hT]), sel_map, sel_map]
    rfl
  · rw [hk]
    simp only [scTwo, selData]
    rw [two_block_vec g.idx I _ _ (by simp [hl.2.2.2, hT]) (by simp [hl.2.2.2, hT]), sel_map, sel_map]
    rfl
  · rfl
  · rw [hk]
    simp only [scTwo, selData]
    rw [List.filter_append, List.map_append, dispBlock_eq, dispBlock_eq, dispBlock_eq, dispBlock_eq]
    congr 1
    · refine block_restrict _ _ g.idx I _ (fun _ _ => rfl) (fun i hi t _ => ?_)
      simp only [dispRow, Nat.zero_add]
      rw [idxOf_append_left _ _ _ hi]
    · refine block_restrict _ _ g.idx I _ (fun _ _ => rfl) (fun i _ t _ => ?_)
      simp only [dispRow]
      rw [hT, idxOf_two_block_right, pick_T g I hg]

theorem buildSimpleContract_notIll {p : ContractP} {g : Grid} {prices : Prices} {fullT : Nat} {A : AssetProblem}
    (h : buildSimpleContract p g prices fullT = .ok A) : scalarIllPosed p.minCap p.maxCap = false := by
  unfold buildSimpleContract at h
  simp only [bind, Except.bind] at h
  split at h
  · simp [throw, throwThe, MonadExceptOf.throw] at h
  · rename_i hh; simpa using hh

theorem buildSimpleContract_of (p : ContractP) (g : Grid) (prices : Prices) (fullT : Nat) (d : SCData)
    (minO maxO ecO : List (Option Rat)) (rest : List String)
    (hill : scalarIllPosed p.minCap p.maxCap = false) (hp : priceVector p.price g prices fullT = .ok d.price)
    (hv : contractVectors p g prices = .ok (minO, maxO, ecO)) (he : allSome ecO = .ok d.ec)
    (hmi : allSome minO = .ok d.minC) (hma : allSome maxO = .ok d.maxC) (hn : p.nodes = d.node :: rest) :
    buildSimpleContract p g prices fullT =
      .ok (if oneVariable d.ec d.minC d.maxC then scOne p g d else scTwo p g d) := by
  unfold buildSimpleContract
  simp only [bind, Except.bind, hill, hp, hv, hn, he, hmi, hma, pure, Except.pure, Bool.false_eq_true, if_false]
  by_cases h1 : oneVariable d.ec d.minC d.maxC = true
  · simp only [h1, if_true]; simp [scOne, hn]
  · simp only [h1]; simp [scTwo, hn]

theorem zipWith_sub_zero (xs zs : List Rat) (hl : xs.length = zs.length) (hz : zs.any (fun e => e != 0) = false) :
    List.zipWith (· - ·) xs zs = xs := by
  induction xs generalizing zs with
  | nil => simp
  | cons x xs ih =>
    cases zs with
    | nil => simp at hl
    | cons z zs =>
      simp only [List.any_cons, Bool.or_eq_false_iff, bne_eq_false_iff_eq] at hz
      simp only [List.zipWith_cons_cons]
      rw [ih zs (by simpa using hl) hz.2, hz.1]
      congr 1
      grind

theorem zipWith_add_zero (xs zs : List Rat) (hl : xs.length = zs.length) (hz : zs.any (fun e => e != 0) = false) :
    List.zipWith (· + ·) xs zs = xs := by
  induction xs generalizing zs with
  | nil => simp
  | cons x xs ih =>
    cases zs with
    | nil => simp at hl
    | cons z zs =>
      simp only [List.any_cons, Bool.or_eq_false_iff, bne_eq_false_iff_eq] at hz
      simp only [List.zipWith_cons_cons]
      rw [ih zs (by simpa using hl) hz.2, hz.1]
      congr 1
      grind

theorem oneVarPrice_sel (m : List Bool) (price ec minC maxC : List Rat) (hlen : price.length = ec.length)
    (h : (sel m ec).any (fun e => e != 0) = false ∨
      ((sel m maxC).all (fun v => decide (v ≤ 0)) = maxC.all (fun v => decide (v ≤ 0)) ∧
       (sel m minC).all (fun v => decide (0 ≤ v)) = minC.all (fun v => decide (0 ≤ v)))) :
    sel m (oneVarPrice price ec minC maxC) = oneVarPrice (sel m price) (sel m ec) (sel m minC) (sel m maxC) := by
  have hl' : (sel m price).length = (sel m ec).length := sel_length_eq m _ _ hlen
  by_cases hJ : (sel m ec).any (fun e => e != 0) = true
  · have hany : ec.any (fun e => e != 0) = true := by
      cases hc : ec.any (fun e => e != 0) with
      | true => rfl
      | false => rw [sel_any_false m ec _ hc] at hJ; cases hJ
    rcases h with h | ⟨h1, h2⟩
    · rw [h] at hJ; cases hJ
    · unfold oneVarPrice
      simp only [hany, hJ, if_true, h1, h2]
      split <;> split <;> simp only [sel_zipWith]
  · have hJ' : (sel m ec).any (fun e => e != 0) = false := by simpa using hJ
    have rhs : oneVarPrice (sel m price) (sel m ec) (sel m minC) (sel m maxC) = sel m price := by
      unfold oneVarPrice; simp [hJ']
    rw [rhs]
    unfold oneVarPrice
    split
    · split <;> split <;> simp only [sel_zipWith]
      · have e1 := zipWith_sub_zero (sel m price) (sel m ec) hl' hJ'
        rw [e1, zipWith_add_zero (sel m price) (sel m ec) hl' hJ']
      · exact zipWith_sub_zero (sel m price) (sel m ec) hl' hJ'
      · exact zipWith_add_zero (sel m price) (sel m ec) hl' hJ'
    · rfl

theorem contractFlags_of (p : ContractP) (g : Grid) (prices : Prices) (minO maxO ecO : List (Option Rat))
    (ec minC maxC : List Rat) (hv : contractVectors p g prices = .ok (minO, maxO, ecO)) (he : allSome ecO = .ok ec)
    (hmi : allSome minO = .ok minC) (hma : allSome maxO = .ok maxC) :
    contractFlags p g prices = some (oneVariable ec minC maxC, ec.any (fun e => e != 0),
      maxC.all (fun v => decide (v ≤ 0)), minC.all (fun v => decide (0 ≤ v))) := by
  unfold contractFlags
  simp only [hv, he, hmi, hma]

theorem sel_nil_of_pick_T (g : Grid) (I : List Nat) (hT : (g.pick I).T = 0) (xs : List Rat) (hx : xs.length = g.T) :
    sel (g.pickMask I) xs = [] := by
  apply List.eq_nil_of_length_eq_zero
  have : (sel (g.pickMask I) xs).length = (sel (g.pickMask I) g.pts).length := sel_length_eq _ _ _ hx
  rw [this]
  exact hT

/-- on a grid without steps both forms of the contract are the same (empty) problem -/
theorem scOne_eq_scTwo_empty (p : ContractP) (g : Grid) (d : SCData) (hg : g.Ok) (hT : g.T = 0)
    (hl : d.price.length = g.T ∧ d.ec.length = g.T ∧ d.minC.length = g.T ∧ d.maxC.length = g.T) :
    scOne p g d = scTwo p g d := by
  have e : ∀ xs : List Rat, xs.length = g.T → xs = [] := fun xs h => List.eq_nil_of_length_eq_zero (by rw [h, hT])
  have hidx : g.idx = [] := List.eq_nil_of_length_eq_zero (by rw [hg.1, hT])
  have h1 := e _ hl.1
  have h2 := e _ hl.2.1
  have h3 := e _ hl.2.2.1
  have h4 := e _ hl.2.2.2
  have h5 := e _ hg.2.2
  simp [scOne, scTwo, h1, h2, h3, h4, h5, oneVarPrice, dispBlock, hidx]

/-- **SimpleContract commutes with the restriction of the grid.** -/
theorem simple_pick (p : ContractP) (g : Grid) (prices : Prices) (fullT : Nat) (A : AssetProblem) (I : List Nat)
    (hg : g.Ok) (hp : p.gridFree = true)
    (hform : (g.pick I).T = 0 ∨ sameForm p g (g.pick I) prices (pickPrices I prices) = true)
    (hA : buildSimpleContract p g prices fullT = .ok A) :
    buildSimpleContract p (g.pick I) (pickPrices I prices) I.length = .ok (A.restrictTo I) := by
  obtain ⟨d, minO, maxO, ecO, hpv, hv, he, hmi, hma, ⟨rest, hn⟩, rfl⟩ := buildSimpleContract_ok hA
  have hl := scData_lengths hg hpv hv he hmi hma
  have hgJ := pick_ok g I hg
  have hpvJ := priceVector_pick p.price g I prices fullT d.price hpv
  have hvJ := contractVectors_pick p g I prices minO maxO ecO hp hv
  have heJ := allSome_sel (g.pickMask I) ecO d.ec he
  have hmiJ := allSome_sel (g.pickMask I) minO d.minC hmi
  have hmaJ := allSome_sel (g.pickMask I) maxO d.maxC hma
  have hlJ := scData_lengths (d := selData (g.pickMask I) d) hgJ hpvJ hvJ heJ hmiJ hmaJ
  rw [buildSimpleContract_of p (g.pick I) (pickPrices I prices) I.length (selData (g.pickMask I) d) _ _ _ rest
    (buildSimpleContract_notIll hA) hpvJ hvJ heJ hmiJ hmaJ hn]
  congr 1
  by_cases hT : (g.pick I).T = 0
  · -- the asset has no step in the interval: the empty problem, whatever the form
    have hempty : ∀ b : Bool, (if b = true then scOne p (g.pick I) (selData (g.pickMask I) d)
        else scTwo p (g.pick I) (selData (g.pickMask I) d)) = scOne p (g.pick I) (selData (g.pickMask I) d) := by
      intro b
      cases b
      · exact (scOne_eq_scTwo_empty p _ _ hgJ hT hlJ).symm
      · rfl
    rw [hempty]
    have hz : ∀ xs : List Rat, xs.length = g.T → sel (g.pickMask I) xs = [] :=
      fun xs hx => sel_nil_of_pick_T g I hT xs hx
    have hprice : sel (g.pickMask I) (oneVarPrice d.price d.ec d.minC d.maxC) =
        oneVarPrice (sel (g.pickMask I) d.price) (sel (g.pickMask I) d.ec) (sel (g.pickMask I) d.minC)
          (sel (g.pickMask I) d.maxC) := by
      rw [hz _ (oneVarPrice_length hl.1 hl.2.1), hz _ hl.1, hz _ hl.2.1]
      simp [oneVarPrice]
    split
    · exact (scOne_restrict p g d I hg hl hprice).symm
    · rw [scTwo_restrict p g d I hg hl]
      exact scOne_eq_scTwo_empty p _ _ hgJ hT hlJ
  · have hsf : sameForm p g (g.pick I) prices (pickPrices I prices) = true := by
      rcases hform with h | h
      · exact absurd h hT
      · exact h
    unfold sameForm at hsf
    rw [contractFlags_of p g prices minO maxO ecO d.ec d.minC d.maxC hv he hmi hma,
      contractFlags_of p (g.pick I) (pickPrices I prices) _ _ _ _ _ _ hvJ heJ hmiJ hmaJ] at hsf
    simp only [Bool.and_eq_true, Bool.or_eq_true, Bool.not_eq_true', beq_iff_eq] at hsf
    obtain ⟨hone, hflags⟩ := hsf
    show (if oneVariable (sel _ d.ec) (sel _ d.minC) (sel _ d.maxC) = true then _ else _) = _
    rw [hone]
    split
    · refine (scOne_restrict p g d I hg hl (oneVarPrice_sel _ _ _ _ _ (by rw [hl.1, hl.2.1]) ?_)).symm
      rcases hflags with h | ⟨h1, h2⟩
      · exact Or.inl h
      · exact Or.inr ⟨h1, h2⟩
    · exact (scTwo_restrict p g d I hg hl).symm

/-! ### the transport -/

theorem transportBlock_eq (asset node : String) (f : Rat) (g : Grid) :
    transportBlock asset node f g = genBlock (fun i t => trRow asset node f i t) g.idx := rfl

theorem varAt_transportBlock (asset node : String) (f : Rat) (g : Grid) (I : List Nat) (w : Nat) :
    varAtSteps (transportBlock asset node f g) I w = true ↔ ∃ i, i < g.idx.length ∧ 0 + i = w ∧ g.idx.getD i 0 ∈ I := by
  rw [transportBlock_eq]
  exact varAtSteps_genBlock _ g.idx I 0 (fun _ _ => by simp [trRow]) (fun _ _ => rfl) w

/-- the data-dependent decision of the transport: all capacities non-positive -/
def trNeg (p : TransportP) (g : Grid) : Bool := (g.dt.map (p.maxCap * ·)).all fun v => decide (v ≤ 0)

theorem trProblem_n (p : TransportP) (g : Grid) (n0 n1 : String) (cts : List Rat) (hg : g.Ok)
    (hc : cts.length = g.idx.length) : (trProblem p g n0 n1 cts).n = g.idx.length := by
  simp only [AssetProblem.n, trProblem]
  split <;> simp [hc, hg.1, hg.2.2]

theorem tr_keep (p : TransportP) (g : Grid) (n0 n1 : String) (cts : List Rat) (I : List Nat) (hg : g.Ok)
    (hc : cts.length = g.idx.length) : (trProblem p g n0 n1 cts).keep I = pos g.idx I := by
  apply keep_one_block _ g.idx I (trProblem_n p g n0 n1 cts hg hc)
  intro v hv
  show varAtSteps (transportBlock _ _ _ g ++ transportBlock _ _ _ g) I v = true ↔ _
  rw [varAtSteps_append, Bool.or_eq_true, varAt_transportBlock, varAt_transportBlock]
  constructor
  · rintro (⟨i, _, h1, h2⟩ | ⟨i, _, h1, h2⟩) <;>
    · have : i = v := by omega
      subst this; exact h2
  · intro h; exact Or.inl ⟨v, hv, by omega, h⟩

theorem tr_restrict (p : TransportP) (g : Grid) (n0 n1 : String) (cts : List Rat) (I : List Nat) (hg : g.Ok)
    (hc : cts.length = g.idx.length) (hneg : (g.pick I).T = 0 ∨ trNeg p (g.pick I) = trNeg p g) :
    (trProblem p g n0 n1 cts).restrictTo I = trProblem p (g.pick I) n0 n1 (sel (g.pickMask I) cts) := by
  have hk := tr_keep p g n0 n1 cts I hg hc
  have hn := trProblem_n p g n0 n1 cts hg hc
  have hT : g.T = g.idx.length := hg.1.symm
  refine restrictTo_eq (trProblem p g n0 n1 cts) (trProblem p (g.pick I) n0 n1 (sel (g.pickMask I) cts)) I rfl rfl
    ?_ ?_ ?_ ?_ ?_
  · rw [hk, pos_map_getD g.idx I _ 0 hn]
    simp only [trProblem]
    rw [sel_zipWith, ← pickMask_eq]
    show List.zipWith _ (sel _ (if trNeg p g = true then _ else _)) _ =
      List.zipWith _ (if trNeg p (g.pick I) = true then _ else _) (sel _ g.df)
    rcases hneg with h0 | h1
    · have hz : ∀ xs : List Rat, xs.length = g.T → sel (g.pickMask I) xs = [] :=
        fun xs hx => sel_nil_of_pick_T g I h0 xs hx
      rw [hz g.df hg.2.2]
      simp
    · rw [h1]
      split
      · rw [sel_map, sel_map]
      · rw [sel_map]
  · rw [hk, pos_map_getD g.idx I _ 0 (by simp [trProblem, hg.2.1, hT])]
    simp only [trProblem]
    rw [← pickMask_eq, sel_map]; rfl
  · rw [hk, pos_map_getD g.idx I _ 0 (by simp [trProblem, hg.2.1, hT])]
    simp only [trProblem]
    rw [← pickMask_eq, sel_map]; rfl
  · rfl
  · rw [hk]
    simp only [trProblem]
    rw [List.filter_append, List.map_append, transportBlock_eq, transportBlock_eq, transportBlock_eq,
      transportBlock_eq]
    congr 1
    · exact block_restrict _ _ g.idx I _ (fun _ _ => rfl) (fun i _ t _ => by simp [trRow])
    · exact block_restrict _ _ g.idx I _ (fun _ _ => rfl) (fun i _ t _ => by simp [trRow])

theorem bool_of_not_not (X : Bool) (hh : ¬ (!X) = true) : X = true := by
  cases X <;> simp_all

theorem buildTransport_check {p : TransportP} {g : Grid} {prices : Prices} {fullT : Nat} {P : AssetProblem}
    {cts : List Rat} (h : buildTransport p g prices fullT = .ok P)
    (hc : transportCosts p.costsKey g prices fullT = .ok cts) :
    (trNeg p g || (g.dt.map (p.minCap * ·)).all (fun v => decide (0 ≤ v)) ||
      (cts.map (· + p.costsConst)).all (fun v => v == 0)) = true := by
  unfold buildTransport at h
  split at h
  · simp only [bind, Except.bind, pure, Except.pure] at h
    split at h
    · simp [throw, throwThe, MonadExceptOf.throw] at h
    split at h
    · simp [throw, throwThe, MonadExceptOf.throw] at h
    simp only [hc] at h
    split at h
    · simp [throw, throwThe, MonadExceptOf.throw] at h
    · rename_i hh
      exact bool_of_not_not _ hh
  · simp [throw, throwThe, MonadExceptOf.throw] at h

theorem buildTransport_of (p : TransportP) (g : Grid) (prices : Prices) (fullT : Nat) (n0 n1 : String)
    (cts : List Rat) (hn : p.nodes = [n0, n1]) (h1 : ¬ p.maxCap < p.minCap) (h2 : 0 < p.efficiency)
    (hc : transportCosts p.costsKey g prices fullT = .ok cts)
    (hchk : (trNeg p g || (g.dt.map (p.minCap * ·)).all (fun v => decide (0 ≤ v)) ||
      (cts.map (· + p.costsConst)).all (fun v => v == 0)) = true) :
    buildTransport p g prices fullT = .ok (trProblem p g n0 n1 cts) := by
  unfold buildTransport
  rw [hn]
  simp only [bind, Except.bind, pure, Except.pure, h1, if_false, hc]
  have h2' : ¬ ¬ 0 < p.efficiency := fun h => h h2
  simp only [h2', if_false]
  unfold trNeg at hchk
  simp only [hchk, Bool.not_true, Bool.false_eq_true, if_false]
  simp [trProblem, hn]

/-- **Transport commutes with the restriction of the grid.** -/
theorem transport_pick (p : TransportP) (g : Grid) (prices : Prices) (fullT : Nat) (A : AssetProblem) (I : List Nat)
    (hg : g.Ok) (hneg : (g.pick I).T = 0 ∨ trNeg p (g.pick I) = trNeg p g)
    (hA : buildTransport p g prices fullT = .ok A) :
    buildTransport p (g.pick I) (pickPrices I prices) I.length = .ok (A.restrictTo I) := by
  obtain ⟨n0, n1, cts, hn, h1, h2, hc, rfl⟩ := buildTransport_ok hA
  have hchk := buildTransport_check hA hc
  have hcJ := transportCosts_pick p.costsKey g I prices fullT cts hc
  have hlen := transportCosts_length hc
  rw [tr_restrict p g n0 n1 cts I hg hlen hneg]
  apply buildTransport_of p (g.pick I) (pickPrices I prices) I.length n0 n1 _ hn h1 h2 hcJ
  simp only [Bool.or_eq_true] at hchk ⊢
  rcases hchk with (h | h) | h
  · rcases hneg with h0 | h0
    · left; left
      unfold trNeg
      have : (g.pick I).dt = [] := List.eq_nil_of_length_eq_zero (by rw [(pick_ok g I hg).2.1, h0])
      rw [this]; rfl
    · left; left; rw [h0]; exact h
  · left; right
    show ((sel _ g.dt).map _).all _ = true
    rw [← sel_map]
    exact sel_all _ _ _ h
  · right
    rw [← sel_map]
    exact sel_all _ _ _ h

/-! ### what the builders return is banded -/

theorem banded_of_blocks {name : String} {nodes : List String} {g : Grid} {a : AssetProblem} (Tref : Nat)
    (hw : BuiltWf name nodes g a) (hidx : ∀ t ∈ g.idx, t < Tref)
    (hsame : ∀ m ∈ a.mapping, ∃ i, ∃ h : i < g.idx.length, m.step = g.idx[i] ∧ (m.var = i ∨ m.var = g.idx.length + i))
    (hcov : ∀ v, v < a.n → ∃ m ∈ a.mapping, m.var = v) : Banded a Tref := by
  refine ⟨hw.l_len, hw.u_len, fun m hm => (hw.map_ok m hm).1, fun m hm => hidx _ (hw.map_ok m hm).2.2.2.1,
    fun m hm => (hw.map_ok m hm).2.2.2.2.2, ?_, hcov, fun r hr => ⟨(hw.rows_ok r hr).1, (hw.rows_ok r hr).2.1⟩⟩
  intro m hm m' hm' hv
  obtain ⟨i, hi, hs, hvar⟩ := hsame m hm
  obtain ⟨i', hi', hs', hvar'⟩ := hsame m' hm'
  have : i = i' := by rcases hvar with h | h <;> rcases hvar' with h' | h' <;> omega
  subst this
  rw [hs, hs']

theorem scOne_banded (p : ContractP) (g : Grid) (d : SCData) (Tref : Nat) (hg : g.Ok) {rest : List String}
    (hn : p.nodes = d.node :: rest)
    (hl : d.price.length = g.T ∧ d.ec.length = g.T ∧ d.minC.length = g.T ∧ d.maxC.length = g.T)
    (hidx : ∀ t ∈ g.idx, t < Tref) : Banded (scOne p g d) Tref := by
  apply banded_of_blocks Tref (scOne_wf hg hn hl) hidx
  · intro m hm
    obtain ⟨i, hi, rfl⟩ := mem_dispBlock hm
    exact ⟨i, hi, rfl, Or.inl (by simp [dispRow])⟩
  · intro v hv
    rw [scOne_n p g d hg hl] at hv
    refine ⟨dispRow p.name d.node "disp" (0 + v) g.idx[v], ?_, by simp [dispRow]⟩
    show _ ∈ dispBlock _ _ _ 0 g
    rw [dispBlock_eq]
    exact (mem_genBlock _ _ _).mpr ⟨v, hv, rfl⟩

theorem scTwo_banded (p : ContractP) (g : Grid) (d : SCData) (Tref : Nat) (hg : g.Ok) {rest : List String}
    (hn : p.nodes = d.node :: rest)
    (hl : d.price.length = g.T ∧ d.ec.length = g.T ∧ d.minC.length = g.T ∧ d.maxC.length = g.T)
    (hidx : ∀ t ∈ g.idx, t < Tref) : Banded (scTwo p g d) Tref := by
  have hT : g.T = g.idx.length := hg.1.symm
  apply banded_of_blocks Tref (scTwo_wf hg hn hl) hidx
  · intro m hm
    rcases List.mem_append.mp hm with h | h
    · obtain ⟨i, hi, rfl⟩ := mem_dispBlock h
      exact ⟨i, hi, rfl, Or.inl (by simp [dispRow])⟩
    · obtain ⟨i, hi, rfl⟩ := mem_dispBlock h
      exact ⟨i, hi, rfl, Or.inr (by simp [dispRow, hT])⟩
  · intro v hv
    rw [scTwo_n p g d hg hl] at hv
    by_cases h : v < g.idx.length
    · refine ⟨dispRow p.name d.node "disp_in" (0 + v) g.idx[v], ?_, by simp [dispRow]⟩
      apply List.mem_append_left
      rw [dispBlock_eq]
      exact (mem_genBlock _ _ _).mpr ⟨v, h, rfl⟩
    · have h' : v - g.idx.length < g.idx.length := by omega
      refine ⟨dispRow p.name d.node "disp_out" (g.T + (v - g.idx.length)) g.idx[v - g.idx.length], ?_, ?_⟩
      · apply List.mem_append_right
        rw [dispBlock_eq]
        exact (mem_genBlock _ _ _).mpr ⟨v - g.idx.length, h', rfl⟩
      · simp only [dispRow]; omega

theorem tr_banded (p : TransportP) (g : Grid) (prices : Prices) (fullT : Nat) (A : AssetProblem) (Tref : Nat)
    (hg : g.Ok) (hA : buildTransport p g prices fullT = .ok A) (hidx : ∀ t ∈ g.idx, t < Tref) : Banded A Tref := by
  have hw := transport_wf' hg hA
  obtain ⟨n0, n1, cts, hn, _, _, hc, rfl⟩ := buildTransport_ok hA
  have hlen := transportCosts_length hc
  apply banded_of_blocks Tref hw hidx
  · intro m hm
    rcases List.mem_append.mp hm with h | h
    · obtain ⟨i, hi, rfl⟩ := mem_transportBlock h
      exact ⟨i, hi, rfl, Or.inl rfl⟩
    · obtain ⟨i, hi, rfl⟩ := mem_transportBlock h
      exact ⟨i, hi, rfl, Or.inl rfl⟩
  · intro v hv
    rw [trProblem_n p g n0 n1 cts hg hlen] at hv
    refine ⟨trRow p.name n0 (-1) v g.idx[v], ?_, rfl⟩
    apply List.mem_append_left
    rw [transportBlock_eq]
    exact (mem_genBlock _ _ _).mpr ⟨v, hv, rfl⟩

theorem simple_banded (p : ContractP) (g : Grid) (prices : Prices) (fullT : Nat) (A : AssetProblem) (Tref : Nat)
    (hg : g.Ok) (hA : buildSimpleContract p g prices fullT = .ok A) (hidx : ∀ t ∈ g.idx, t < Tref) :
    Banded A Tref := by
  obtain ⟨d, minO, maxO, ecO, hpv, hv, he, hmi, hma, ⟨rest, hn⟩, rfl⟩ := buildSimpleContract_ok hA
  have hl := scData_lengths hg hpv hv he hmi hma
  split
  · exact scOne_banded p g d Tref hg hn hl hidx
  · exact scTwo_banded p g d Tref hg hn hl hidx

/-! ### take periods -/

/-- rows over the kept variables of `a`, renamed -/
def restrictRows (a : AssetProblem) (I : List Nat) (rows : List Row) : List Row :=
  (rows.filter fun r => r.coeffs.all fun q => (a.keep I).contains q.1).map (Row.rename fun v => (a.keep I).idxOf v)

theorem getD_map_lt {α β} (L : List α) (f : α → β) (j : Nat) (da : α) (db : β) (h : j < L.length) :
    (L.map f).getD j db = f (L.getD j da) := by
  simp [List.getD_eq_getElem?_getD, h]

theorem pick_pts (g : Grid) (I : List Nat) (hg : g.Ok) :
    (g.pick I).pts = (pos g.idx I).map fun i => g.pts.getD i 0 :=
  (pos_map_getD g.idx I g.pts 0 hg.1.symm).symm

theorem pick_dt (g : Grid) (I : List Nat) (hg : g.Ok) :
    (g.pick I).dt = (pos g.idx I).map fun i => g.dt.getD i 0 :=
  (pos_map_getD g.idx I g.dt 0 (by rw [hg.2.1, hg.1])).symm

theorem pick_idx (g : Grid) (I : List Nat) :
    (g.pick I).idx = (pos g.idx I).map fun i => I.idxOf (g.idx.getD i 0) := by
  show (sel _ g.idx).map _ = _
  rw [pickMask_eq, ← pos_map_getD g.idx I g.idx 0 rfl, List.map_map]
  rfl

/-- covered positions of the picked grid, as positions of the asset grid -/
theorem coveredPos_pick (g : Grid) (I : List Nat) (hg : g.Ok) (s e : Int) :
    (coveredPos (g.pick I) s e).map (fun j => (pos g.idx I).getD j 0) =
      (coveredPos g s e).filter fun i => I.contains (g.idx.getD i 0) := by
  have hT : (g.pick I).T = (pos g.idx I).length := pick_T g I hg
  unfold coveredPos
  rw [hT]
  have e1 : ((List.range (pos g.idx I).length).filter fun j =>
      decide (s ≤ (g.pick I).pts.getD j 0) && decide ((g.pick I).pts.getD j 0 < e)) =
      (List.range (pos g.idx I).length).filter fun j =>
        (fun i => decide (s ≤ g.pts.getD i 0) && decide (g.pts.getD i 0 < e)) ((pos g.idx I).getD j 0) := by
    apply List.filter_congr
    intro j hj
    rw [pick_pts g I hg, getD_map_lt _ _ j 0 0 (List.mem_range.mp hj)]
  rw [e1, filter_range_getD (fun i => decide (s ≤ g.pts.getD i 0) && decide (g.pts.getD i 0 < e)) 0 0
    (pos g.idx I) (pos g.idx I) rfl, sel_map_self']
  unfold pos
  rw [List.filter_filter, List.filter_filter, hg.1]
  apply List.filter_congr
  intro i _
  exact Bool.and_comm _ _

/-- the mapping rows of the restricted problem at a re-based step -/
theorem rowsAt_restrict (a : AssetProblem) (I : List Nat) (node : Option String) (t : Nat) (ht : t ∈ I) :
    rowsAt (a.restrictTo I).mapping node (I.idxOf t) =
      (rowsAt a.mapping node t).map fun m => { m with var := (a.keep I).idxOf m.var, step := I.idxOf m.step } := by
  unfold rowsAt
  show List.filter _ ((a.mapping.filter _).map _) = _
  rw [List.filter_map, List.filter_filter]
  congr 1
  apply List.filter_congr
  intro m _
  simp only [Function.comp]
  have hnode : nodeOK node { m with var := (a.keep I).idxOf m.var, step := I.idxOf m.step } = nodeOK node m := by
    cases node <;> rfl
  rw [hnode, Bool.eq_iff_iff]
  simp only [Bool.and_eq_true, beq_iff_eq, List.contains_iff_mem]
  constructor
  · rintro ⟨⟨h1, h2⟩, h3⟩
    exact ⟨(idxOf_inj_of_mem I _ _ h3 h1), h2⟩
  · rintro ⟨h1, h2⟩
    exact ⟨⟨by rw [h1], h2⟩, h1 ▸ ht⟩

theorem flatMap_congr_mem {α β} (l : List α) (f g : α → List β) (h : ∀ x ∈ l, f x = g x) :
    l.flatMap f = l.flatMap g := by
  induction l with
  | nil => rfl
  | cons x xs ih =>
    rw [List.flatMap_cons, List.flatMap_cons, h x (by simp), ih (fun y hy => h y (by simp [hy]))]

theorem filterMap_filter_map {α β γ} (f : α → Option β) (f' : α → Option γ) (p : β → Bool) (h : β → γ) (l : List α)
    (hf : ∀ x ∈ l, f' x = ((f x).filter p).map h) : l.filterMap f' = ((l.filterMap f).filter p).map h := by
  induction l with
  | nil => rfl
  | cons x xs ih =>
    rw [List.filterMap_cons, List.filterMap_cons, hf x (by simp), ih (fun y hy => hf y (by simp [hy]))]
    cases hx : f x with
    | none => simp
    | some b =>
      by_cases hp : p b = true
      · simp [Option.filter, hp]
      · simp [Option.filter, hp]

/-- the take row of one period on the picked grid -/
theorem takeRow_pick (kind : RowKind) (u : Nat) (g : Grid) (a : AssetProblem) (Tref : Nat) (I : List Nat)
    (node : Option String) (tk : Take) (hg : g.Ok) (hB : Banded a Tref) (htk : takeInside g I tk = true) :
    takeRow kind u (g.pick I) (a.restrictTo I).mapping node tk =
      ((takeRow kind u g a.mapping node tk).filter fun r => r.coeffs.all fun q => (a.keep I).contains q.1).map
        (Row.rename fun v => (a.keep I).idxOf v) := by
  have hcovJ := coveredPos_pick g I hg tk.1 tk.2.1
  have hPmem : ∀ j ∈ coveredPos (g.pick I) tk.1 tk.2.1, j < (pos g.idx I).length := by
    intro j hj
    have := List.mem_range.mp (List.mem_filter.mp hj).1
    rwa [pick_T g I hg] at this
  have hstepJ : ∀ j, j < (pos g.idx I).length →
      (g.pick I).idx.getD j 0 = I.idxOf (g.idx.getD ((pos g.idx I).getD j 0) 0) := by
    intro j hj
    rw [pick_idx, getD_map_lt _ _ j 0 0 hj]
  have hposI : ∀ j, j < (pos g.idx I).length → g.idx.getD ((pos g.idx I).getD j 0) 0 ∈ I := by
    intro j hj
    have : (pos g.idx I).getD j 0 ∈ pos g.idx I := by
      rw [List.getD_eq_getElem?_getD, List.getElem?_eq_getElem hj]
      exact List.getElem_mem hj
    exact ((mem_pos g.idx I _).mp this).2
  -- rows at a covered position of the picked grid
  have hrows : ∀ j ∈ coveredPos (g.pick I) tk.1 tk.2.1,
      rowsAt (a.restrictTo I).mapping node ((g.pick I).idx.getD j 0) =
        (rowsAt a.mapping node (g.idx.getD ((pos g.idx I).getD j 0) 0)).map
          fun m => { m with var := (a.keep I).idxOf m.var, step := I.idxOf m.step } := by
    intro j hj
    rw [hstepJ j (hPmem j hj)]
    exact rowsAt_restrict a I node _ (hposI j (hPmem j hj))
  unfold takeInside at htk
  simp only [Bool.or_eq_true, List.all_eq_true, List.mem_map] at htk
  rcases htk with hin | hout
  · -- all covered steps belong to the interval
    have hfilt : ((coveredPos g tk.1 tk.2.1).filter fun i => I.contains (g.idx.getD i 0)) = coveredPos g tk.1 tk.2.1 := by
      apply List.filter_eq_self.mpr
      intro i hi
      exact hin _ ⟨i, hi, rfl⟩
    rw [hfilt] at hcovJ
    have hsel : takeSel (g.pick I) (a.restrictTo I).mapping node tk.1 tk.2.1 =
        (takeSel g a.mapping node tk.1 tk.2.1).map
          fun m => { m with var := (a.keep I).idxOf m.var, step := I.idxOf m.step } := by
      unfold takeSel
      rw [← hcovJ, List.flatMap_map, List.map_flatMap]
      exact flatMap_congr_mem _ _ _ (fun j hj => hrows j hj)
    have hsteps : ((takeSteps (g.pick I) (a.restrictTo I).mapping node tk.1 tk.2.1).map fun j => (g.pick I).dt.getD j 0) =
        (takeSteps g a.mapping node tk.1 tk.2.1).map fun i => g.dt.getD i 0 := by
      unfold takeSteps
      rw [← hcovJ, List.filter_map, List.map_map]
      have e1 : ((coveredPos (g.pick I) tk.1 tk.2.1).filter fun j =>
          !(rowsAt (a.restrictTo I).mapping node ((g.pick I).idx.getD j 0)).isEmpty) =
          (coveredPos (g.pick I) tk.1 tk.2.1).filter
            ((fun i => !(rowsAt a.mapping node (g.idx.getD i 0)).isEmpty) ∘ fun j => (pos g.idx I).getD j 0) := by
        apply List.filter_congr
        intro j hj
        simp only [Function.comp]
        rw [hrows j hj]
        simp
      rw [e1]
      apply List.map_congr_left
      intro j hj
      have hj' := hPmem j (List.mem_filter.mp hj).1
      simp only [Function.comp]
      rw [pick_dt g I hg, getD_map_lt _ _ j 0 0 hj']
    unfold takeRow
    simp only [hsel, hsteps, List.isEmpty_map]
    by_cases hemp : (takeSel g a.mapping node tk.1 tk.2.1).isEmpty = true
    · simp [hemp]
    · simp only [hemp, Bool.false_eq_true, if_false, Option.filter]
      have hall : ((takeSel g a.mapping node tk.1 tk.2.1).map fun m => (m.var, m.factor)).all
          (fun q => (a.keep I).contains q.1) = true := by
        rw [List.all_eq_true]
        intro q hq
        obtain ⟨m, hm, rfl⟩ := List.mem_map.mp hq
        obtain ⟨hmM, _, i, hi, hs⟩ := mem_takeSel hm
        apply List.contains_iff_mem.mpr
        exact (banded_var_mem_keep hB I m hmM).mpr (hs ▸ List.contains_iff_mem.mp (hin _ ⟨i, hi, rfl⟩))
      simp only [hall, if_true, Option.map_some, Row.rename, List.map_map]
      rfl
  · -- no covered step belongs to the interval
    have hfilt : ((coveredPos g tk.1 tk.2.1).filter fun i => I.contains (g.idx.getD i 0)) = [] := by
      apply List.filter_eq_nil_iff.mpr
      intro i hi
      have := hout _ ⟨i, hi, rfl⟩
      simpa using this
    rw [hfilt] at hcovJ
    have hcov0 : coveredPos (g.pick I) tk.1 tk.2.1 = [] := List.map_eq_nil_iff.mp hcovJ
    rw [takeRow_none_of_uncovered hcov0]
    cases hr : takeRow kind u g a.mapping node tk with
    | none => rfl
    | some r =>
      obtain ⟨hne, _, hc, _⟩ := takeRow_some hr
      obtain ⟨m0, rest, hsel⟩ := List.exists_cons_of_ne_nil hne
      have hm0 : m0 ∈ takeSel g a.mapping node tk.1 tk.2.1 := by rw [hsel]; simp
      obtain ⟨hm0M, _, i0, hi0, hs0⟩ := mem_takeSel hm0
      have hnot : m0.var ∉ a.keep I := by
        intro h
        have := (banded_var_mem_keep hB I m0 hm0M).mp h
        have h2 := hout _ ⟨i0, hi0, rfl⟩
        rw [← hs0] at h2
        simp [this] at h2
      have hall : (r.coeffs.all fun q => (a.keep I).contains q.1) = false := by
        rw [hc, hsel]
        simp only [List.map_cons, List.all_cons, Bool.and_eq_false_iff]
        left
        rw [Bool.eq_false_iff]
        intro h
        exact hnot (List.contains_iff_mem.mp h)
      show none = Option.map _ (Option.filter (fun r => r.coeffs.all fun q => (a.keep I).contains q.1) (some r))
      rw [Option.filter_some, hall]
      rfl

/-- the take rows of the restricted problem are the restricted take rows, when no period reaches across the cut -/
theorem defineRestr_pick (kind : RowKind) (u : Nat) (g : Grid) (a : AssetProblem) (Tref : Nat) (I : List Nat)
    (node : Option String) (takes : List Take) (hg : g.Ok) (hB : Banded a Tref)
    (htk : ∀ tk ∈ takes, takeInside g I tk = true) :
    defineRestr kind u (g.pick I) (a.restrictTo I).mapping node takes =
      restrictRows a I (defineRestr kind u g a.mapping node takes) := by
  unfold defineRestr restrictRows
  exact filterMap_filter_map _ _ _ _ takes (fun tk h => takeRow_pick kind u g a Tref I node tk hg hB (htk tk h))

theorem restrictTo_addRows (a : AssetProblem) (rows : List Row) (I : List Nat) :
    ({ a with rows := a.rows ++ rows } : AssetProblem).restrictTo I =
      { (a.restrictTo I) with rows := (a.restrictTo I).rows ++ restrictRows a I rows } := by
  simp [AssetProblem.restrictTo, AssetProblem.keep, AssetProblem.n, List.filter_append, List.map_append, restrictRows]

theorem restrictTo_addRows2 (a : AssetProblem) (r1 r2 : List Row) (I : List Nat) :
    ({ a with rows := a.rows ++ r1 ++ r2 } : AssetProblem).restrictTo I =
      { (a.restrictTo I) with rows := (a.restrictTo I).rows ++ restrictRows a I r1 ++ restrictRows a I r2 } := by
  simp [AssetProblem.restrictTo, AssetProblem.keep, AssetProblem.n, List.filter_append, List.map_append, restrictRows]

theorem banded_addRows {a : AssetProblem} {Tref : Nat} (hB : Banded a Tref) (rows : List Row)
    (hr : ∀ r ∈ rows, r.coeffs ≠ [] ∧ ∀ q ∈ r.coeffs, ∃ m ∈ a.mapping, q = (m.var, m.factor)) :
    Banded ({ a with rows := a.rows ++ rows } : AssetProblem) Tref := by
  refine ⟨hB.l_len, hB.u_len, hB.map_var, hB.map_step, hB.no_bool, hB.same_step, hB.covered, ?_⟩
  intro r hrr
  rcases List.mem_append.mp hrr with h | h
  · exact hB.rows_ok r h
  · obtain ⟨h1, h2⟩ := hr r h
    refine ⟨h1, fun q hq => ?_⟩
    obtain ⟨m, hm, rfl⟩ := h2 q hq
    exact hB.map_var m hm

theorem restrictRows_append (a : AssetProblem) (I : List Nat) (r1 r2 : List Row) :
    restrictRows a I (r1 ++ r2) = restrictRows a I r1 ++ restrictRows a I r2 := by
  simp [restrictRows, List.filter_append, List.map_append]

theorem takeRows_ok {kind : RowKind} {u : Nat} {g : Grid} {mapping : List MapRow} {node : Option String}
    {takes : List Take} : ∀ r ∈ defineRestr kind u g mapping node takes,
      r.coeffs ≠ [] ∧ ∀ q ∈ r.coeffs, ∃ m ∈ mapping, q = (m.var, m.factor) :=
  fun _ hr => (defineRestr_rows_ok hr).2

/-! ### Contract, MultiCommodityContract, ExtendedTransport -/

/-- **Contract commutes with the restriction of the grid** when no take period reaches across the cut. -/
theorem contract_pick (p : ContractP) (g : Grid) (prices : Prices) (fullT u : Nat) (A : AssetProblem) (I : List Nat)
    (Tref : Nat) (hg : g.Ok) (hidx : ∀ t ∈ g.idx, t < Tref) (hp : p.gridFree = true)
    (hform : (g.pick I).T = 0 ∨ sameForm p g (g.pick I) prices (pickPrices I prices) = true)
    (htk : ∀ tk ∈ p.minTake ++ p.maxTake, takeInside g I tk = true)
    (hA : buildContract p g prices fullT u = .ok A) :
    buildContract p (g.pick I) (pickPrices I prices) I.length u = .ok (A.restrictTo I) := by
  obtain ⟨a, ha, rfl⟩ := buildContract_ok hA
  have hB := simple_banded p g prices fullT a Tref hg ha hidx
  unfold buildContract
  simp only [bind, Except.bind, simple_pick p g prices fullT a I hg hp hform ha, pure, Except.pure]
  congr 1
  rw [restrictTo_addRows2,
    defineRestr_pick .U u g a Tref I none p.maxTake hg hB (fun tk h => htk tk (List.mem_append_right _ h)),
    defineRestr_pick .L u g a Tref I none p.minTake hg hB (fun tk h => htk tk (List.mem_append_left _ h))]

theorem contract_banded (p : ContractP) (g : Grid) (prices : Prices) (fullT u : Nat) (A : AssetProblem) (Tref : Nat)
    (hg : g.Ok) (hA : buildContract p g prices fullT u = .ok A) (hidx : ∀ t ∈ g.idx, t < Tref) : Banded A Tref := by
  obtain ⟨a, ha, rfl⟩ := buildContract_ok hA
  have hB := simple_banded p g prices fullT a Tref hg ha hidx
  have := banded_addRows hB (defineRestr .U u g a.mapping none p.maxTake ++ defineRestr .L u g a.mapping none p.minTake)
    (fun r hr => by rcases List.mem_append.mp hr with h | h <;> exact takeRows_ok r h)
  simpa [List.append_assoc] using this

/-- the multi-commodity copy of a mapping -/
def multiMap (nfs : List (String × Rat)) (M : List MapRow) : List MapRow :=
  nfs.flatMap fun nf => M.map fun m => { m with node := some nf.1, factor := m.factor * nf.2 }

theorem varAtSteps_multi (nfs : List (String × Rat)) (hne : nfs ≠ []) (M : List MapRow) (I : List Nat) (v : Nat) :
    varAtSteps (multiMap nfs M) I v = varAtSteps M I v := by
  rw [Bool.eq_iff_iff, varAtSteps_iff, varAtSteps_iff]
  constructor
  · rintro ⟨m, hm, hv, hs⟩
    obtain ⟨nf, _, hm'⟩ := List.mem_flatMap.mp hm
    obtain ⟨m0, hm0, rfl⟩ := List.mem_map.mp hm'
    exact ⟨m0, hm0, hv, hs⟩
  · rintro ⟨m, hm, hv, hs⟩
    obtain ⟨nf, rest, rfl⟩ := List.exists_cons_of_ne_nil hne
    exact ⟨_, List.mem_flatMap.mpr ⟨nf, by simp, List.mem_map_of_mem hm⟩, hv, hs⟩

theorem restrictTo_multi (a : AssetProblem) (nfs : List (String × Rat)) (hne : nfs ≠ []) (I : List Nat) :
    ({ a with mapping := multiMap nfs a.mapping } : AssetProblem).restrictTo I =
      { (a.restrictTo I) with mapping := multiMap nfs (a.restrictTo I).mapping } := by
  have hk : ({ a with mapping := multiMap nfs a.mapping } : AssetProblem).keep I = a.keep I := by
    unfold AssetProblem.keep
    apply List.filter_congr
    intro v _
    exact varAtSteps_multi nfs hne a.mapping I v
  unfold AssetProblem.restrictTo
  simp only [hk]
  congr 1
  simp only [multiMap, List.filter_flatMap, List.map_flatMap, List.filter_map, List.map_map]
  rfl

theorem multi_banded {a : AssetProblem} {Tref : Nat} (hB : Banded a Tref) (nfs : List (String × Rat)) (hne : nfs ≠ []) :
    Banded ({ a with mapping := multiMap nfs a.mapping } : AssetProblem) Tref := by
  have hmem : ∀ m ∈ multiMap nfs a.mapping, ∃ m0 ∈ a.mapping, m.var = m0.var ∧ m.step = m0.step ∧ m.isBool = m0.isBool := by
    intro m hm
    obtain ⟨nf, _, hm'⟩ := List.mem_flatMap.mp hm
    obtain ⟨m0, hm0, rfl⟩ := List.mem_map.mp hm'
    exact ⟨m0, hm0, rfl, rfl, rfl⟩
  refine ⟨hB.l_len, hB.u_len, ?_, ?_, ?_, ?_, ?_, hB.rows_ok⟩
  · intro m hm
    obtain ⟨m0, hm0, h1, _, _⟩ := hmem m hm
    rw [h1]; exact hB.map_var m0 hm0
  · intro m hm
    obtain ⟨m0, hm0, _, h2, _⟩ := hmem m hm
    rw [h2]; exact hB.map_step m0 hm0
  · intro m hm
    obtain ⟨m0, hm0, _, _, h3⟩ := hmem m hm
    rw [h3]; exact hB.no_bool m0 hm0
  · intro m hm m' hm' hv
    obtain ⟨m0, hm0, h1, h2, _⟩ := hmem m hm
    obtain ⟨m1, hm1, h1', h2', _⟩ := hmem m' hm'
    rw [h2, h2']
    exact hB.same_step m0 hm0 m1 hm1 (by rw [← h1, ← h1']; exact hv)
  · intro v hv
    obtain ⟨m, hm, hmv⟩ := hB.covered v hv
    obtain ⟨nf, rest, rfl⟩ := List.exists_cons_of_ne_nil hne
    exact ⟨_, List.mem_flatMap.mpr ⟨nf, by simp, List.mem_map_of_mem hm⟩, hmv⟩

theorem multi_nfs_ne (p : ContractP) (factors : List Rat) (hf : factors.length = p.nodes.length) (hn : p.nodes ≠ []) :
    p.nodes.zip factors ≠ [] := by
  cases hp : p.nodes with
  | nil => exact absurd hp hn
  | cons n rest =>
    cases factors with
    | nil => simp [hp] at hf
    | cons f fs => simp

theorem nodes_ne_of_simple {p : ContractP} {g : Grid} {prices : Prices} {fullT : Nat} {a : AssetProblem}
    (h : buildSimpleContract p g prices fullT = .ok a) : p.nodes ≠ [] := by
  obtain ⟨d, _, _, _, _, _, _, _, _, ⟨rest, hn⟩, _⟩ := buildSimpleContract_ok h
  rw [hn]; simp

/-- **MultiCommodityContract commutes with the restriction of the grid.** -/
theorem multi_pick (p : ContractP) (factors : List Rat) (g : Grid) (prices : Prices) (fullT u : Nat) (A : AssetProblem)
    (I : List Nat) (Tref : Nat) (hg : g.Ok) (hidx : ∀ t ∈ g.idx, t < Tref) (hp : p.gridFree = true)
    (hform : (g.pick I).T = 0 ∨ sameForm p g (g.pick I) prices (pickPrices I prices) = true)
    (htk : ∀ tk ∈ p.minTake ++ p.maxTake, takeInside g I tk = true)
    (hA : buildMulti p factors g prices fullT u = .ok A) :
    buildMulti p factors (g.pick I) (pickPrices I prices) I.length u = .ok (A.restrictTo I) := by
  obtain ⟨hf, a, ha, rfl⟩ := buildMulti_ok hA
  obtain ⟨a0, ha0, _⟩ := buildContract_ok ha
  have hne := multi_nfs_ne p factors hf (nodes_ne_of_simple ha0)
  have hill := buildSimpleContract_notIll ha0
  unfold buildMulti
  simp only [bind, Except.bind, hill, Bool.false_eq_true, if_false, hf, ne_eq, not_true_eq_false,
    contract_pick p g prices fullT u a I Tref hg hidx hp hform htk ha, pure, Except.pure]
  congr 1
  exact (restrictTo_multi a (p.nodes.zip factors) hne I).symm

theorem multi_banded' (p : ContractP) (factors : List Rat) (g : Grid) (prices : Prices) (fullT u : Nat)
    (A : AssetProblem) (Tref : Nat) (hg : g.Ok) (hA : buildMulti p factors g prices fullT u = .ok A)
    (hidx : ∀ t ∈ g.idx, t < Tref) : Banded A Tref := by
  obtain ⟨hf, a, ha, rfl⟩ := buildMulti_ok hA
  obtain ⟨a0, ha0, _⟩ := buildContract_ok ha
  exact multi_banded (contract_banded p g prices fullT u a Tref hg ha hidx) _
    (multi_nfs_ne p factors hf (nodes_ne_of_simple ha0))

/-- **ExtendedTransport commutes with the restriction of the grid** when no take period reaches across the cut. -/
theorem extTransport_pick (p : TransportP) (g : Grid) (prices : Prices) (fullT u : Nat) (A : AssetProblem)
    (I : List Nat) (Tref : Nat) (hg : g.Ok) (hidx : ∀ t ∈ g.idx, t < Tref)
    (hneg : (g.pick I).T = 0 ∨ trNeg p (g.pick I) = trNeg p g)
    (htk : ∀ tk ∈ p.minTake ++ p.maxTake, takeInside g I tk = true)
    (hA : buildExtTransport p g prices fullT u = .ok A) :
    buildExtTransport p (g.pick I) (pickPrices I prices) I.length u = .ok (A.restrictTo I) := by
  obtain ⟨a, ha, rfl⟩ := buildExtTransport_ok hA
  have hB := tr_banded p g prices fullT a Tref hg ha hidx
  have htk' : ∀ (ts : List Take), (∀ tk ∈ ts, takeInside g I tk = true) →
      ∀ tk ∈ ts.map negTake, takeInside g I tk = true := by
    intro ts h tk htk
    obtain ⟨tk0, h0, rfl⟩ := List.mem_map.mp htk
    exact h tk0 h0
  unfold buildExtTransport
  simp only [bind, Except.bind, transport_pick p g prices fullT a I hg hneg ha, pure, Except.pure]
  congr 1
  rw [restrictTo_addRows2,
    defineRestr_pick .L u g a Tref I p.nodes.head? (p.maxTake.map negTake) hg hB
      (htk' _ (fun tk h => htk tk (List.mem_append_right _ h))),
    defineRestr_pick .U u g a Tref I p.nodes.head? (p.minTake.map negTake) hg hB
      (htk' _ (fun tk h => htk tk (List.mem_append_left _ h)))]

theorem extTransport_banded (p : TransportP) (g : Grid) (prices : Prices) (fullT u : Nat) (A : AssetProblem)
    (Tref : Nat) (hg : g.Ok) (hA : buildExtTransport p g prices fullT u = .ok A) (hidx : ∀ t ∈ g.idx, t < Tref) :
    Banded A Tref := by
  obtain ⟨a, ha, rfl⟩ := buildExtTransport_ok hA
  have hB := tr_banded p g prices fullT a Tref hg ha hidx
  have := banded_addRows hB (defineRestr .L u g a.mapping p.nodes.head? (p.maxTake.map negTake)
      ++ defineRestr .U u g a.mapping p.nodes.head? (p.minTake.map negTake))
    (fun r hr => by rcases List.mem_append.mp hr with h | h <;> exact takeRows_ok r h)
  simpa [List.append_assoc] using this

/-! ## Part 3: the interval grid of the split set-up is the picked grid -/

theorem sel_range_eq_filter (ps : List Int) (p : Int → Bool) :
    sel (ps.map p) (List.range ps.length) = (List.range ps.length).filter fun t => p (ps.getD t 0) := by
  rw [← filter_range_getD p 0 0 ps (List.range ps.length) (by simp)]
  conv => rhs; rw [← List.map_id ((List.range ps.length).filter fun t => p (ps.getD t 0))]
  apply List.map_congr_left
  intro i hi
  have hi' : i < ps.length := List.mem_range.mp (List.mem_filter.mp hi).1
  simp [List.getD_eq_getElem?_getD, hi']

theorem map_idxOf_self (L : List Nat) (h : L.Nodup) : L.map (fun t => L.idxOf t) = List.range L.length := by
  apply List.ext_getElem
  · simp
  · intro j h1 h2
    simp only [List.getElem_map, List.getElem_range]
    exact h.idxOf_getElem j _

theorem intervalSteps_eq (ref : Grid) (ab : Int × Int) (hidx : ref.idx = List.range ref.T) :
    intervalSteps ref ab = (List.range ref.pts.length).filter fun t => win ab.1 ab.2 (ref.pts.getD t 0) := by
  unfold intervalSteps
  rw [hidx, Grid.mask_eq]
  exact sel_range_eq_filter ref.pts (win ab.1 ab.2)

theorem mem_intervalSteps (ref : Grid) (ab : Int × Int) (hidx : ref.idx = List.range ref.T) (t : Nat) :
    t ∈ intervalSteps ref ab ↔ t < ref.T ∧ win ab.1 ab.2 (ref.pts.getD t 0) = true := by
  rw [intervalSteps_eq ref ab hidx, List.mem_filter, List.mem_range]
  rfl

theorem intervalSteps_nodup (ref : Grid) (ab : Int × Int) (hidx : ref.idx = List.range ref.T) :
    (intervalSteps ref ab).Nodup := by
  rw [intervalSteps_eq ref ab hidx]
  exact List.Nodup.sublist List.filter_sublist List.nodup_range

/-- the asset grid on the full horizon: points and steps belong together -/
theorem restrict_pts_eq (ref : Grid) (s e : Int) (hidx : ref.idx = List.range ref.T) :
    (ref.restrict s e).pts = (ref.restrict s e).idx.map fun t => ref.pts.getD t 0 := by
  show sel (ref.mask s e) ref.pts = (sel (ref.mask s e) ref.idx).map _
  rw [hidx, Grid.mask_eq]
  show _ = (sel _ (List.range ref.pts.length)).map _
  rw [sel_range_eq_filter, filter_range_getD (win s e) 0 0 ref.pts ref.pts rfl]

theorem restrict_idx_lt (ref : Grid) (s e : Int) (hidx : ref.idx = List.range ref.T) :
    ∀ t ∈ (ref.restrict s e).idx, t < ref.T := by
  intro t ht
  have : t ∈ ref.idx := mem_of_mem_sel _ _ t ht
  rw [hidx] at this
  exact List.mem_range.mp this

/-- the mask of `pick` on the asset grid is the window mask of the interval -/
theorem pickMask_interval (ref : Grid) (ab : Int × Int) (s e : Int) (hidx : ref.idx = List.range ref.T) :
    (ref.restrict s e).pickMask (intervalSteps ref ab) = (ref.restrict s e).pts.map (win ab.1 ab.2) := by
  rw [pickMask_eq, restrict_pts_eq ref s e hidx, List.map_map]
  apply List.map_congr_left
  intro t ht
  have hlt := restrict_idx_lt ref s e hidx t ht
  simp only [Function.comp]
  rw [Bool.eq_iff_iff, List.contains_iff_mem, mem_intervalSteps ref ab hidx]
  exact ⟨fun h => h.2, fun h => ⟨hlt, h⟩⟩

theorem sel_twice_comm {α} (ps : List Int) (p q : Int → Bool) (xs : List α) :
    sel ((sel (ps.map p) ps).map q) (sel (ps.map p) xs) = sel ((sel (ps.map q) ps).map p) (sel (ps.map q) xs) := by
  rw [sel_sel, sel_sel]
  congr 2
  funext x
  exact Bool.and_comm _ _

/-- **the asset's grid in an interval of the split set-up** (`Timegrid(start_tmp, end_tmp, …, ref_timegrid)` with
    re-based `I`, then `set_restricted_grid(asset.start, asset.end)`) **is the asset's grid on the full horizon,
    restricted to the interval's original steps** -/
theorem interval_restrict_eq_pick (ref : Grid) (df : List Rat) (ab : Int × Int) (s e : Int)
    (hidx : ref.idx = List.range ref.T) :
    ({ (ref.interval ab.1 ab.2) with df := sel (ref.mask ab.1 ab.2) df } : Grid).restrict s e =
      (({ ref with df := df } : Grid).restrict s e).pick (intervalSteps ref ab) := by
  have hm := pickMask_interval ref ab s e hidx
  have hm' : (({ ref with df := df } : Grid).restrict s e).pickMask (intervalSteps ref ab) =
      (sel (ref.pts.map (win s e)) ref.pts).map (win ab.1 ab.2) := hm
  have hidxeq : sel ((sel (ref.pts.map (win ab.1 ab.2)) ref.pts).map (win s e))
      (List.range (sel (ref.pts.map (win ab.1 ab.2)) ref.pts).length) =
      (sel ((sel (ref.pts.map (win s e)) ref.pts).map (win ab.1 ab.2)) (sel (ref.pts.map (win s e)) ref.idx)).map
        fun t => (intervalSteps ref ab).idxOf t := by
    rw [← sel_twice_comm ref.pts (win ab.1 ab.2) (win s e) ref.idx]
    have : sel (ref.pts.map (win ab.1 ab.2)) ref.idx = intervalSteps ref ab := rfl
    rw [this, ← sel_map (fun t => (intervalSteps ref ab).idxOf t), map_idxOf_self _ (intervalSteps_nodup ref ab hidx)]
    congr 2
    exact sel_length_eq _ _ _ (by rw [hidx]; simp [Grid.T])
  unfold Grid.pick
  rw [hm']
  show Grid.mk _ _ _ _ _ = Grid.mk _ _ _ _ _
  congr 1
  · exact sel_twice_comm ref.pts (win ab.1 ab.2) (win s e) ref.pts
  · exact sel_twice_comm ref.pts (win ab.1 ab.2) (win s e) ref.dt
  · exact sel_twice_comm ref.pts (win ab.1 ab.2) (win s e) ref.Dt
  · exact sel_twice_comm ref.pts (win ab.1 ab.2) (win s e) df

theorem intervalPrices_eq_pick (ref : Grid) (ab : Int × Int) (prices : Prices) (hidx : ref.idx = List.range ref.T)
    (hp : ∀ kv ∈ prices, kv.2.length = ref.T) :
    intervalPrices ref ab prices = pickPrices (intervalSteps ref ab) prices := by
  unfold intervalPrices pickPrices
  apply List.map_congr_left
  intro kv hkv
  congr 1
  rw [intervalSteps_eq ref ab hidx, Grid.mask_eq]
  exact (filter_range_getD (win ab.1 ab.2) 0 0 ref.pts kv.2 (hp kv hkv)).symm

theorem interval_T (ref : Grid) (ab : Int × Int) (hidx : ref.idx = List.range ref.T) :
    (ref.interval ab.1 ab.2).T = (intervalSteps ref ab).length := by
  show (sel (ref.mask ab.1 ab.2) ref.pts).length = (sel (ref.mask ab.1 ab.2) ref.idx).length
  exact sel_length_eq _ _ _ (by rw [hidx]; simp [Grid.T])

theorem restrict_ok (ref : Grid) (df : List Rat) (s e : Int) (hidx : ref.idx = List.range ref.T)
    (hdt : ref.dt.length = ref.T) (hdf : df.length = ref.T) : (({ ref with df := df } : Grid).restrict s e).Ok := by
  have h1 : ref.idx.length = ref.pts.length := by rw [hidx]; simp [Grid.T]
  exact ⟨sel_length_eq _ _ _ h1, sel_length_eq _ _ _ hdt, sel_length_eq _ _ _ hdf⟩

/-! ## Part 4: the split set-up of a builder portfolio -/

theorem all_mul_nonpos (k : Rat) (ds : List Rat) (hpos : ∀ d ∈ ds, 0 < d) (hne : ds ≠ []) :
    (ds.map (k * ·)).all (fun v => decide (v ≤ 0)) = decide (k ≤ 0) := by
  by_cases hk : k ≤ 0
  · rw [decide_eq_true hk, List.all_eq_true]
    intro v hv
    obtain ⟨d, hd, rfl⟩ := List.mem_map.mp hv
    have h1 : k * d ≤ 0 * d := Rat.mul_le_mul_of_nonneg_right hk (Rat.le_of_lt (hpos d hd))
    rw [Rat.zero_mul] at h1
    simpa using h1
  · rw [decide_eq_false hk]
    obtain ⟨d, rest, rfl⟩ := List.exists_cons_of_ne_nil hne
    have hd := hpos d (by simp)
    have hk' : 0 < k := Rat.not_le.mp hk
    have := Rat.mul_pos hk' hd
    have hn : ¬ k * d ≤ 0 := Rat.not_le.mpr this
    simp [hn]

theorem trNeg_pick (p : TransportP) (g : Grid) (I : List Nat) (hg : g.Ok)
    (hpos : (g.dt.all fun d => decide (0 < d)) = true) : (g.pick I).T = 0 ∨ trNeg p (g.pick I) = trNeg p g := by
  by_cases hT : (g.pick I).T = 0
  · exact Or.inl hT
  · right
    have hpos' : ∀ d ∈ g.dt, 0 < d := by
      intro d hd
      simpa using List.all_eq_true.mp hpos d hd
    have hJne : (g.pick I).dt ≠ [] := by
      intro h
      apply hT
      rw [← (pick_ok g I hg).2.1, h]; rfl
    have hne : g.dt ≠ [] := by
      intro h
      apply hJne
      show sel _ g.dt = []
      rw [h, sel_nil_right]
    unfold trNeg
    have hposJ : ∀ d ∈ (g.pick I).dt, 0 < d := fun d hd => hpos' d (mem_of_mem_sel _ _ d hd)
    rw [all_mul_nonpos _ _ hpos' hne, all_mul_nonpos _ (g.pick I).dt hposJ hJne]

/-- **every builder commutes with the restriction to an interval of the split set-up** -/
theorem buildSpec_pick (a : AssetSpec) (ref : Grid) (ab : Int × Int) (prices : Prices) (u : Nat) (A : AssetProblem)
    (hidx : ref.idx = List.range ref.T) (hdt : ref.dt.length = ref.T) (hdf : a.df.length = ref.T)
    (hprices : ∀ kv ∈ prices, kv.2.length = ref.T)
    (hst : specStable a (({ ref with df := a.df } : Grid).restrict a.start a.stop) (intervalSteps ref ab) prices = true)
    (hA : buildSpec a ref prices u = .ok A) :
    buildSpec (a.onInterval ref ab) (ref.interval ab.1 ab.2) (intervalPrices ref ab prices) u =
      .ok (A.restrictTo (intervalSteps ref ab)) := by
  have hg := restrict_ok ref a.df a.start a.stop hidx hdt hdf
  have hlt : ∀ t ∈ (({ ref with df := a.df } : Grid).restrict a.start a.stop).idx, t < ref.T :=
    restrict_idx_lt ({ ref with df := a.df } : Grid) a.start a.stop hidx
  unfold buildSpec at hA ⊢
  have hgrid : (({ (ref.interval ab.1 ab.2) with df := (a.onInterval ref ab).df } : Grid).restrict
      (a.onInterval ref ab).start (a.onInterval ref ab).stop) =
      (({ ref with df := a.df } : Grid).restrict a.start a.stop).pick (intervalSteps ref ab) :=
    interval_restrict_eq_pick ref a.df ab a.start a.stop hidx
  simp only [hgrid, intervalPrices_eq_pick ref ab prices hidx hprices, interval_T ref ab hidx]
  show (match a.spec with
    | .simple p => _ | .contract p => _ | .multi p f => _ | .transport p => _ | .extTransport p => _) = _
  unfold specStable at hst
  cases hs : a.spec with
  | simple p =>
    simp only [hs, Bool.and_eq_true, Bool.or_eq_true, beq_iff_eq, if_false, Bool.false_eq_true] at hst hA ⊢
    exact simple_pick p _ prices ref.T A _ hg hst.1.1 hst.1.2 hA
  | contract p =>
    simp only [hs, Bool.and_eq_true, Bool.or_eq_true, beq_iff_eq, if_true, List.all_eq_true] at hst hA ⊢
    exact contract_pick p _ prices ref.T u A _ ref.T hg hlt hst.1.1 hst.1.2 hst.2 hA
  | multi p f =>
    simp only [hs, Bool.and_eq_true, Bool.or_eq_true, beq_iff_eq, if_true, List.all_eq_true] at hst hA ⊢
    exact multi_pick p f _ prices ref.T u A _ ref.T hg hlt hst.1.1 hst.1.2 hst.2 hA
  | transport p =>
    simp only [hs] at hst hA ⊢
    exact transport_pick p _ prices ref.T A _ hg (trNeg_pick p _ _ hg hst) hA
  | extTransport p =>
    simp only [hs, Bool.and_eq_true, List.all_eq_true] at hst hA ⊢
    exact extTransport_pick p _ prices ref.T u A _ ref.T hg hlt (trNeg_pick p _ _ hg (List.all_eq_true.mpr hst.1))
      hst.2 hA

theorem buildSpec_banded (a : AssetSpec) (ref : Grid) (prices : Prices) (u : Nat) (A : AssetProblem)
    (hidx : ref.idx = List.range ref.T) (hdt : ref.dt.length = ref.T) (hdf : a.df.length = ref.T)
    (hA : buildSpec a ref prices u = .ok A) : Banded A ref.T := by
  have hg := restrict_ok ref a.df a.start a.stop hidx hdt hdf
  have hlt : ∀ t ∈ (({ ref with df := a.df } : Grid).restrict a.start a.stop).idx, t < ref.T :=
    restrict_idx_lt ({ ref with df := a.df } : Grid) a.start a.stop hidx
  unfold buildSpec at hA
  cases hs : a.spec with
  | simple p => simp only [hs] at hA; exact simple_banded p _ prices ref.T A ref.T hg hA hlt
  | contract p => simp only [hs] at hA; exact contract_banded p _ prices ref.T u A ref.T hg hA hlt
  | multi p f => simp only [hs] at hA; exact multi_banded' p f _ prices ref.T u A ref.T hg hA hlt
  | transport p => simp only [hs] at hA; exact tr_banded p _ prices ref.T A ref.T hg hA hlt
  | extTransport p => simp only [hs] at hA; exact extTransport_banded p _ prices ref.T u A ref.T hg hA hlt

/-! ### `mapM` in `Except` -/

theorem mapM_ok_cons {ε α β} (f : α → Except ε β) (x : α) (xs : List α) (ys : List β) :
    (x :: xs).mapM f = .ok ys ↔ ∃ y ys', f x = .ok y ∧ xs.mapM f = .ok ys' ∧ ys = y :: ys' := by
  rw [List.mapM_cons]
  cases hx : f x with
  | error e => simp [bind, Except.bind]
  | ok y =>
    cases hxs : xs.mapM f with
    | error e => simp [bind, Except.bind]
    | ok ys' =>
      simp only [bind, Except.bind, pure, Except.pure, Except.ok.injEq]
      constructor
      · intro h; exact ⟨y, ys', rfl, rfl, h.symm⟩
      · rintro ⟨y', ys'', h1, h2, h3⟩; rw [h3, ← h1, ← h2]

/-- the element-wise transfer of a successful `mapM` -/
theorem mapM_transfer {ε α α' β β'} (f : α → Except ε β) (f' : α' → Except ε β') (k : α → α') (h : β → β')
    (xs : List α) (ys : List β) (hxs : xs.mapM f = .ok ys)
    (hstep : ∀ x ∈ xs, ∀ y, f x = .ok y → f' (k x) = .ok (h y)) :
    (xs.map k).mapM f' = .ok (ys.map h) := by
  induction xs generalizing ys with
  | nil =>
    have : ys = [] := by simpa [List.mapM_nil, pure, Except.pure] using hxs.symm
    subst this; rfl
  | cons x xs ih =>
    obtain ⟨y, ys', h1, h2, rfl⟩ := (mapM_ok_cons f x xs ys).mp hxs
    rw [List.map_cons, mapM_ok_cons]
    exact ⟨h y, ys'.map h, hstep x (by simp) y h1, ih ys' h2 (fun x' hx' => hstep x' (by simp [hx'])), rfl⟩

theorem mapM_mem {ε α β} (f : α → Except ε β) (xs : List α) (ys : List β) (hxs : xs.mapM f = .ok ys) :
    ∀ y ∈ ys, ∃ x ∈ xs, f x = .ok y := by
  induction xs generalizing ys with
  | nil =>
    have : ys = [] := by simpa [List.mapM_nil, pure, Except.pure] using hxs.symm
    subst this; intro y hy; simp at hy
  | cons x xs ih =>
    obtain ⟨y0, ys', h1, h2, rfl⟩ := (mapM_ok_cons f x xs ys).mp hxs
    intro y hy
    rcases List.mem_cons.mp hy with rfl | hy'
    · exact ⟨x, by simp, h1⟩
    · obtain ⟨x', hx', hf⟩ := ih ys' h2 y hy'
      exact ⟨x', by simp [hx'], hf⟩

theorem mapM_ok_of_forall {ε α β} (f : α → Except ε β) (g : α → β) (xs : List α) (h : ∀ x ∈ xs, f x = .ok (g x)) :
    xs.mapM f = .ok (xs.map g) := by
  induction xs with
  | nil => rfl
  | cons x xs ih =>
    rw [mapM_ok_cons]
    exact ⟨g x, xs.map g, h x (by simp), ih (fun x' hx' => h x' (by simp [hx'])), rfl⟩

/-! ### skipping the interval problems without variables -/

theorem assembleFrom_skip_empty (off : Nat) (a : AssetProblem) (rest : List AssetProblem) (hc : a.c = [])
    (hl : a.l = []) (hu : a.u = []) (hr : a.rows = []) (hm : a.mapping = []) :
    assembleFrom off (a :: rest) = assembleFrom off rest := by
  have hn : a.n = 0 := by simp [AssetProblem.n, hc]
  show Problem.mk _ _ _ _ _ _ = _
  rw [hc, hl, hu, hr, hm, hn]
  simp only [List.nil_append, List.map_nil, Nat.add_zero]
  cases rest <;> rfl

theorem wfIdx_empty (P : Problem) (hw : P.wfIdx = true) (hn : P.n = 0) (hrows : ∀ r ∈ P.rows, r.coeffs ≠ []) :
    P.c = [] ∧ P.l = [] ∧ P.u = [] ∧ P.rows = [] ∧ P.mapping = [] := by
  obtain ⟨h1, h2, h3, h4⟩ := wfIdx_spec P hw
  refine ⟨List.eq_nil_of_length_eq_zero hn, List.eq_nil_of_length_eq_zero (by rw [h1, hn]),
    List.eq_nil_of_length_eq_zero (by rw [h2, hn]), ?_, ?_⟩
  · apply List.eq_nil_iff_forall_not_mem.mpr
    intro r hr
    obtain ⟨q, rest, hq⟩ := List.exists_cons_of_ne_nil (hrows r hr)
    have := h3 r hr q (by rw [hq]; simp)
    omega
  · apply List.eq_nil_iff_forall_not_mem.mpr
    intro m hm
    have := h4 m hm
    omega

theorem blockSum_filter (ps : List Problem) (hw : ∀ P ∈ ps, P.wfIdx = true)
    (hrows : ∀ P ∈ ps, ∀ r ∈ P.rows, r.coeffs ≠ []) (off : Nat) :
    assembleFrom off ((ps.filter fun P => P.n != 0).map Problem.toAsset) = assembleFrom off (ps.map Problem.toAsset) := by
  induction ps generalizing off with
  | nil => rfl
  | cons P rest ih =>
    have ih' := ih (fun Q hQ => hw Q (by simp [hQ])) (fun Q hQ => hrows Q (by simp [hQ]))
    by_cases hn : P.n = 0
    · obtain ⟨h1, h2, h3, h4, h5⟩ := wfIdx_empty P (hw P (by simp)) hn (hrows P (by simp))
      rw [List.filter_cons, List.map_cons]
      simp only [hn, bne_self_eq_false, Bool.false_eq_true, if_false]
      rw [assembleFrom_skip_empty off P.toAsset _ h1 h2 h3 h4 h5]
      exact ih' off
    · rw [List.filter_cons, List.map_cons]
      have : (P.n != 0) = true := by simpa using hn
      simp only [this, if_true, List.map_cons]
      show Problem.mk _ _ _ _ _ _ = Problem.mk _ _ _ _ _ _
      rw [ih' (off + P.toAsset.n)]

/-- dropping the interval problems without variables does not change the witness -/
theorem splitWitness_filter (U : Problem) (ps : List Problem) (perm : List Nat)
    (hrows : ∀ P ∈ ps, ∀ r ∈ P.rows, r.coeffs ≠ []) (h : splitWitness U ps perm = true) :
    splitWitness U (ps.filter fun P => P.n != 0) perm = true := by
  unfold splitWitness at h ⊢
  simp only [Bool.and_eq_true] at h ⊢
  obtain ⟨⟨⟨h1, h2⟩, h3⟩, h4⟩ := h
  refine ⟨⟨⟨h1, ?_⟩, h3⟩, ?_⟩
  · rw [List.all_eq_true] at h2 ⊢
    exact fun P hP => h2 P (List.mem_filter.mp hP).1
  · have : blockSum (ps.filter fun P => P.n != 0) = blockSum ps :=
      blockSum_filter ps (List.all_eq_true.mp h2) hrows 0
    rw [this]; exact h4

/-! ### the loop of `setup_split_optim_problem` -/

theorem assemble_rows_ne (as : List AssetProblem) (T : Nat) (hB : ∀ a ∈ as, Banded a T) (gridI : List Nat)
    (skip : List String) : ∀ r ∈ (assemble as gridI skip).rows, r.coeffs ≠ [] := by
  intro r hr
  rw [assemble_rows] at hr
  rcases List.mem_append.mp hr with h | h
  · obtain ⟨a, ha, r', hr', o, rfl⟩ := mem_assembleFrom_rows as 0 r h
    have := ((hB a ha).rows_ok r' hr').1
    simpa [Row.rename] using this
  · obtain ⟨⟨t, n⟩, hp, rfl⟩ := List.mem_map.mp h
    obtain ⟨_, _, _, hany⟩ := (mem_nodalPairs_iff _ _ _ _ t n).mp hp
    obtain ⟨m, hm, hd⟩ := List.any_eq_true.mp hany
    intro hnil
    have : (m.var, m.factor) ∈ (nodalRow (assembleFrom 0 as).mapping n t).coeffs := by
      unfold nodalRow
      exact List.mem_map_of_mem (List.mem_filter.mpr ⟨hm, hd⟩)
    rw [hnil] at this
    simp at this

theorem intervalProblem_rows_ne (as : List AssetProblem) (T : Nat) (hB : ∀ a ∈ as, Banded a T) (skip : List String)
    (I : List Nat) : ∀ r ∈ (intervalProblem as skip I).rows, r.coeffs ≠ [] := by
  intro R hR
  obtain ⟨r, hr, _, rfl⟩ := interval_rows_sub as T hB skip I R hR
  have := assemble_rows_ne as T hB (List.range T) skip r hr
  simpa [Row.rename] using this

theorem buildAll_banded (specs : List AssetSpec) (ref : Grid) (prices : Prices) (u : Nat) (as : List AssetProblem)
    (hidx : ref.idx = List.range ref.T) (hdt : ref.dt.length = ref.T) (hdf : ∀ a ∈ specs, a.df.length = ref.T)
    (has : buildAll specs ref prices u = .ok as) : ∀ A ∈ as, Banded A ref.T := by
  intro A hA
  obtain ⟨a, ha, hb⟩ := mapM_mem _ specs as has A hA
  exact buildSpec_banded a ref prices u A hidx hdt (hdf a ha) hb

/-- one pass of the loop returns the interval problem of the unsplit asset problems (or skips it when it has no
    variable) -/
theorem setupInterval_eq (specs : List AssetSpec) (ref : Grid) (prices : Prices) (u : Nat) (skip : List String)
    (ab : Int × Int) (as : List AssetProblem)
    (hidx : ref.idx = List.range ref.T) (hdt : ref.dt.length = ref.T) (hdf : ∀ a ∈ specs, a.df.length = ref.T)
    (hprices : ∀ kv ∈ prices, kv.2.length = ref.T)
    (hst : ∀ a ∈ specs, specStable a (({ ref with df := a.df } : Grid).restrict a.start a.stop)
      (intervalSteps ref ab) prices = true)
    (has : buildAll specs ref prices u = .ok as) :
    setupInterval specs ref prices u skip ab =
      .ok (if (intervalProblem as skip (intervalSteps ref ab)).n = 0 then none
           else some (intervalProblem as skip (intervalSteps ref ab))) := by
  have hB := buildAll_banded specs ref prices u as hidx hdt hdf has
  unfold setupInterval
  by_cases hT : (ref.interval ab.1 ab.2).T = 0
  · simp only [hT, if_true]
    have hI : intervalSteps ref ab = [] :=
      List.eq_nil_of_length_eq_zero (by rw [← interval_T ref ab hidx]; exact hT)
    have hn : (intervalProblem as skip (intervalSteps ref ab)).n = 0 := by
      rw [interval_n as ref.T hB skip, hI]
      apply List.length_eq_zero_iff.mpr
      apply List.eq_nil_iff_forall_not_mem.mpr
      intro v hv
      obtain ⟨_, m, _, _, hs⟩ := (mem_pkeep _ _ _).mp hv
      simp at hs
    rw [if_pos hn]; rfl
  · simp only [hT, if_false]
    have hall : buildAll (specs.map fun a => a.onInterval ref ab) (ref.interval ab.1 ab.2) (intervalPrices ref ab prices) u =
        .ok (as.map fun A => A.restrictTo (intervalSteps ref ab)) := by
      unfold buildAll at has ⊢
      exact mapM_transfer _ _ _ _ specs as has (fun a ha A hA =>
        buildSpec_pick a ref ab prices u A hidx hdt (hdf a ha) hprices (hst a ha) hA)
    have hJidx : (ref.interval ab.1 ab.2).idx = List.range (intervalSteps ref ab).length := by
      show List.range _ = _
      rw [← interval_T ref ab hidx]; rfl
    unfold setupPortfolio
    simp only [bind, Except.bind, hall, pure, Except.pure, hJidx]
    show (if (intervalProblem as skip (intervalSteps ref ab)).n = 0 then _ else Except.ok (some (intervalProblem as skip _))) = _
    split <;> rfl

theorem filterMap_skip (f : List Nat → Problem) (Is : List (List Nat)) :
    (Is.map fun I => if (f I).n = 0 then none else some (f I)).filterMap id = (Is.map f).filter fun P => P.n != 0 := by
  induction Is with
  | nil => rfl
  | cons I rest ih =>
    by_cases h : (f I).n = 0
    · simp [h, ih]
    · simp [h, ih]

/-- **the split set-up of a builder portfolio**: the interval problems of the unsplit asset problems, those without
    variables dropped -/
theorem setupSplit_eq (specs : List AssetSpec) (ref : Grid) (cuts : List Int) (prices : Prices) (u : Nat)
    (skip : List String) (as : List AssetProblem)
    (hidx : ref.idx = List.range ref.T) (hdt : ref.dt.length = ref.T) (hdf : ∀ a ∈ specs, a.df.length = ref.T)
    (hprices : ∀ kv ∈ prices, kv.2.length = ref.T)
    (hst : ∀ a ∈ specs, ∀ I ∈ (splitPairs cuts).map (intervalSteps ref),
      specStable a (({ ref with df := a.df } : Grid).restrict a.start a.stop) I prices = true)
    (has : buildAll specs ref prices u = .ok as)
    (hne : (((splitPairs cuts).map (intervalSteps ref)).map (intervalProblem as skip)).filter (fun P => P.n != 0) ≠ []) :
    setupSplit specs ref cuts prices u skip =
      .ok ((((splitPairs cuts).map (intervalSteps ref)).map (intervalProblem as skip)).filter fun P => P.n != 0) := by
  unfold setupSplit
  have hp : (prices.any fun kv => kv.2.length != ref.T) = false := by
    rw [Bool.eq_false_iff]
    intro h
    obtain ⟨kv, hkv, hb⟩ := List.any_eq_true.mp h
    simp [hprices kv hkv] at hb
  have hm := mapM_ok_of_forall (setupInterval specs ref prices u skip)
    (fun ab => if (intervalProblem as skip (intervalSteps ref ab)).n = 0 then none
      else some (intervalProblem as skip (intervalSteps ref ab))) (splitPairs cuts)
    (fun ab hab => setupInterval_eq specs ref prices u skip ab as hidx hdt hdf hprices
      (fun a ha => hst a ha _ (List.mem_map_of_mem hab)) has)
  have hfm : ((splitPairs cuts).map fun ab => if (intervalProblem as skip (intervalSteps ref ab)).n = 0 then none
      else some (intervalProblem as skip (intervalSteps ref ab))).filterMap id =
      (((splitPairs cuts).map (intervalSteps ref)).map (intervalProblem as skip)).filter fun P => P.n != 0 := by
    rw [← filterMap_skip (intervalProblem as skip), List.map_map]
    rfl
  simp only [bind, Except.bind, hp, Bool.false_eq_true, if_false, hm, hfm, pure, Except.pure]
  have : ((((splitPairs cuts).map (intervalSteps ref)).map (intervalProblem as skip)).filter fun P => P.n != 0).isEmpty = false := by
    cases hh : (((splitPairs cuts).map (intervalSteps ref)).map (intervalProblem as skip)).filter fun P => P.n != 0 with
    | nil => exact absurd hh hne
    | cons _ _ => rfl
  rw [this]
  rfl

/-! ### no row of a builder reaches across a cut -/

theorem takeRows_inside (kind : RowKind) (u : Nat) (g : Grid) (a : AssetProblem) (Tref : Nat) (node : Option String)
    (takes : List Take) (Is : List (List Nat)) (hB : Banded a Tref) (hcov : ∀ t, t < Tref → ∃ I ∈ Is, t ∈ I)
    (htk : ∀ I ∈ Is, ∀ tk ∈ takes, takeInside g I tk = true) :
    ∀ r ∈ defineRestr kind u g a.mapping node takes, ∃ I ∈ Is, ∀ q ∈ r.coeffs, q.1 ∈ a.keep I := by
  intro r hr
  obtain ⟨tk, htk', hrow⟩ := defineRestr_row hr
  obtain ⟨hne, _, hc, _⟩ := takeRow_some hrow
  obtain ⟨m0, rest, hsel⟩ := List.exists_cons_of_ne_nil hne
  have hm0 : m0 ∈ takeSel g a.mapping node tk.1 tk.2.1 := by rw [hsel]; simp
  obtain ⟨hm0M, _, i0, hi0, hs0⟩ := mem_takeSel hm0
  obtain ⟨I, hI, ht0⟩ := hcov m0.step (hB.map_step m0 hm0M)
  refine ⟨I, hI, ?_⟩
  have hin := htk I hI tk htk'
  unfold takeInside at hin
  simp only [Bool.or_eq_true, List.all_eq_true, List.mem_map] at hin
  have hall : ∀ i ∈ coveredPos g tk.1 tk.2.1, g.idx.getD i 0 ∈ I := by
    rcases hin with h | h
    · intro i hi
      exact List.contains_iff_mem.mp (h _ ⟨i, hi, rfl⟩)
    · have := h _ ⟨i0, hi0, rfl⟩
      rw [← hs0] at this
      simp [ht0] at this
  intro q hq
  rw [hc, List.mem_map] at hq
  obtain ⟨m, hm, rfl⟩ := hq
  obtain ⟨hmM, _, i, hi, hs⟩ := mem_takeSel hm
  exact (banded_var_mem_keep hB I m hmM).mpr (hs ▸ hall i hi)

theorem rowsInside_nil (a : AssetProblem) (Is : List (List Nat)) (h : a.rows = []) : RowsInside a Is := by
  intro r hr; rw [h] at hr; simp at hr

theorem simple_rows_nil {p : ContractP} {g : Grid} {prices : Prices} {fullT : Nat} {a : AssetProblem}
    (h : buildSimpleContract p g prices fullT = .ok a) : a.rows = [] := by
  obtain ⟨d, _, _, _, _, _, _, _, _, _, rfl⟩ := buildSimpleContract_ok h
  split <;> rfl

theorem transport_rows_nil {p : TransportP} {g : Grid} {prices : Prices} {fullT : Nat} {a : AssetProblem}
    (h : buildTransport p g prices fullT = .ok a) : a.rows = [] := by
  obtain ⟨_, _, _, _, _, _, _, rfl⟩ := buildTransport_ok h
  rfl

theorem rowsInside_multi (a0 : AssetProblem) (nfs : List (String × Rat)) (hne : nfs ≠ []) (rows : List Row)
    (Is : List (List Nat)) (h : ∀ r ∈ rows, ∃ I ∈ Is, ∀ q ∈ r.coeffs, q.1 ∈ a0.keep I) :
    RowsInside ({ a0 with rows := rows, mapping := multiMap nfs a0.mapping } : AssetProblem) Is := by
  intro r hr
  obtain ⟨I, hI, hq⟩ := h r hr
  refine ⟨I, hI, fun q hqq => ?_⟩
  have hv := hq q hqq
  unfold AssetProblem.keep at hv ⊢
  rw [List.mem_filter] at hv ⊢
  refine ⟨hv.1, ?_⟩
  rw [varAtSteps_multi _ hne]
  exact hv.2

theorem buildSpec_rowsInside (a : AssetSpec) (ref : Grid) (prices : Prices) (u : Nat) (A : AssetProblem)
    (Is : List (List Nat))
    (hidx : ref.idx = List.range ref.T) (hdt : ref.dt.length = ref.T) (hdf : a.df.length = ref.T)
    (hcov : ∀ t, t < ref.T → ∃ I ∈ Is, t ∈ I)
    (hst : ∀ I ∈ Is, specStable a (({ ref with df := a.df } : Grid).restrict a.start a.stop) I prices = true)
    (hA : buildSpec a ref prices u = .ok A) : RowsInside A Is := by
  have hg := restrict_ok ref a.df a.start a.stop hidx hdt hdf
  have hlt : ∀ t ∈ (({ ref with df := a.df } : Grid).restrict a.start a.stop).idx, t < ref.T :=
    restrict_idx_lt ({ ref with df := a.df } : Grid) a.start a.stop hidx
  unfold buildSpec at hA
  unfold specStable at hst
  cases hs : a.spec with
  | simple p =>
    simp only [hs] at hA
    exact rowsInside_nil A Is (simple_rows_nil hA)
  | contract p =>
    simp only [hs, Bool.and_eq_true, if_true, List.all_eq_true] at hA hst
    obtain ⟨a0, ha0, rfl⟩ := buildContract_ok hA
    have hB := simple_banded p _ prices ref.T a0 ref.T hg ha0 hlt
    intro r hr
    have hr' : r ∈ a0.rows ++ defineRestr .U u _ a0.mapping none p.maxTake ++ defineRestr .L u _ a0.mapping none p.minTake := hr
    rw [simple_rows_nil ha0, List.nil_append] at hr'
    rcases List.mem_append.mp hr' with h | h
    · exact takeRows_inside .U u _ a0 ref.T none p.maxTake Is hB hcov
        (fun I hI tk htk => (hst I hI).2 tk (List.mem_append_right _ htk)) r h
    · exact takeRows_inside .L u _ a0 ref.T none p.minTake Is hB hcov
        (fun I hI tk htk => (hst I hI).2 tk (List.mem_append_left _ htk)) r h
  | multi p f =>
    simp only [hs, Bool.and_eq_true, if_true, List.all_eq_true] at hA hst
    obtain ⟨hf, a1, ha1, rfl⟩ := buildMulti_ok hA
    obtain ⟨a0, ha0, rfl⟩ := buildContract_ok ha1
    have hB := simple_banded p _ prices ref.T a0 ref.T hg ha0 hlt
    have hne := multi_nfs_ne p f hf (nodes_ne_of_simple ha0)
    apply rowsInside_multi a0 (p.nodes.zip f) hne _ Is
    intro r hr''
    have hr3 : r ∈ defineRestr .U u (({ ref with df := a.df } : Grid).restrict a.start a.stop) a0.mapping none p.maxTake ++
        defineRestr .L u (({ ref with df := a.df } : Grid).restrict a.start a.stop) a0.mapping none p.minTake := by
      rw [simple_rows_nil ha0, List.nil_append] at hr''
      exact hr''
    rcases List.mem_append.mp hr3 with h | h
    · exact takeRows_inside .U u _ a0 ref.T none p.maxTake Is hB hcov
        (fun I hI tk htk => (hst I hI).2 tk (List.mem_append_right _ htk)) r h
    · exact takeRows_inside .L u _ a0 ref.T none p.minTake Is hB hcov
        (fun I hI tk htk => (hst I hI).2 tk (List.mem_append_left _ htk)) r h
  | transport p =>
    simp only [hs] at hA
    exact rowsInside_nil A Is (transport_rows_nil hA)
  | extTransport p =>
    simp only [hs, Bool.and_eq_true, List.all_eq_true] at hA hst
    obtain ⟨a0, ha0, rfl⟩ := buildExtTransport_ok hA
    have hB := tr_banded p _ prices ref.T a0 ref.T hg ha0 hlt
    intro r hr
    have hr' : r ∈ a0.rows ++ defineRestr .L u _ a0.mapping p.nodes.head? (p.maxTake.map negTake)
        ++ defineRestr .U u _ a0.mapping p.nodes.head? (p.minTake.map negTake) := hr
    rw [transport_rows_nil ha0, List.nil_append] at hr'
    have hneg : ∀ (ts : List Take) (I : List Nat), (∀ tk ∈ ts, takeInside (({ ref with df := a.df } : Grid).restrict a.start a.stop) I tk = true) →
        ∀ tk ∈ ts.map negTake, takeInside (({ ref with df := a.df } : Grid).restrict a.start a.stop) I tk = true := by
      intro ts I h tk htk
      obtain ⟨tk0, h0, rfl⟩ := List.mem_map.mp htk
      exact h tk0 h0
    rcases List.mem_append.mp hr' with h | h
    · exact takeRows_inside .L u _ a0 ref.T _ _ Is hB hcov
        (fun I hI => hneg _ I (fun tk htk => (hst I hI).2 tk (List.mem_append_right _ htk))) r h
    · exact takeRows_inside .U u _ a0 ref.T _ _ Is hB hcov
        (fun I hI => hneg _ I (fun tk htk => (hst I hI).2 tk (List.mem_append_left _ htk))) r h

/-! ### the theorem for builder portfolios -/

theorem setupPortfolio_ok {specs : List AssetSpec} {grid : Grid} {prices : Prices} {u : Nat} {skip : List String}
    {U : Problem} (h : setupPortfolio specs grid prices u skip = .ok U) :
    ∃ as, buildAll specs grid prices u = .ok as ∧ U = assemble as grid.idx skip := by
  unfold setupPortfolio at h
  simp only [bind, Except.bind, pure, Except.pure] at h
  cases has : buildAll specs grid prices u with
  | error e => simp [has] at h
  | ok as =>
    simp only [has] at h
    injection h with h
    exact ⟨as, rfl, h.symm⟩

theorem splitHyps_spec (specs : List AssetSpec) (ref : Grid) (cuts : List Int) (prices : Prices)
    (h : splitHyps specs ref cuts prices = true) :
    ref.idx = List.range ref.T ∧ ref.dt.length = ref.T ∧ (∀ a ∈ specs, a.df.length = ref.T) ∧
    (∀ kv ∈ prices, kv.2.length = ref.T) ∧ isPartition ((splitPairs cuts).map (intervalSteps ref)) ref.T = true ∧
    ∀ a ∈ specs, ∀ I ∈ (splitPairs cuts).map (intervalSteps ref),
      specStable a (({ ref with df := a.df } : Grid).restrict a.start a.stop) I prices = true := by
  unfold splitHyps at h
  simp only [Bool.and_eq_true, decide_eq_true_eq, List.all_eq_true] at h
  obtain ⟨⟨⟨⟨⟨⟨h1, h2⟩, _⟩, h4⟩, h5⟩, h6⟩, h7⟩ := h
  exact ⟨h1, h2, h4, h5, h6, h7⟩

/-- **For a portfolio of contracts and transports the split set-up IS the unsplit problem**, up to the explicit
    matching of the variables: no certificate needed.  (The interval problems are those of the general theorem.) -/
theorem builders_split (specs : List AssetSpec) (ref : Grid) (cuts : List Int) (prices : Prices) (u : Nat)
    (skip : List String) (U : Problem) (hH : splitHyps specs ref cuts prices = true)
    (hU : setupPortfolio specs ref prices u skip = .ok U) (hpos : 0 < U.n) :
    ∃ as, buildAll specs ref prices u = .ok as ∧ U = assemble as (List.range ref.T) skip ∧
      setupSplit specs ref cuts prices u skip =
        .ok ((((splitPairs cuts).map (intervalSteps ref)).map (intervalProblem as skip)).filter fun P => P.n != 0) ∧
      splitWitness U ((((splitPairs cuts).map (intervalSteps ref)).map (intervalProblem as skip)).filter fun P => P.n != 0)
        (splitPerm U ((splitPairs cuts).map (intervalSteps ref))) = true := by
  obtain ⟨hidx, hdt, hdf, hprices, hpart, hst⟩ := splitHyps_spec specs ref cuts prices hH
  obtain ⟨as, has, rfl⟩ := setupPortfolio_ok hU
  rw [hidx] at hpos ⊢
  have hB := buildAll_banded specs ref prices u as hidx hdt hdf has
  obtain ⟨hcov, _⟩ := isPartition_spec _ _ hpart
  have hR : ∀ A ∈ as, RowsInside A ((splitPairs cuts).map (intervalSteps ref)) := by
    intro A hA
    obtain ⟨a, ha, hb⟩ := mapM_mem _ specs as has A hA
    exact buildSpec_rowsInside a ref prices u A _ hidx hdt (hdf a ha) hcov (fun I hI => hst a ha I hI) hb
  have hw := witness_of_banded as ref.T ((splitPairs cuts).map (intervalSteps ref)) skip hB hpart hR
  have hw' := splitWitness_filter _ _ _ (by
    intro P hP
    obtain ⟨I, _, rfl⟩ := List.mem_map.mp hP
    exact intervalProblem_rows_ne as ref.T hB skip I) hw
  refine ⟨as, has, rfl, setupSplit_eq specs ref cuts prices u skip as hidx hdt hdf hprices hst has ?_, hw'⟩
  -- some interval has a variable, because the unsplit problem has one
  intro hnil
  have hperm := splitPerm_isPerm as ref.T hB _ hpart
  have hlen : (((splitPairs cuts).map (intervalSteps ref)).flatMap fun I => (assembleFrom 0 as).keep I).length =
      (assembleFrom 0 as).n := by
    unfold isPermOf at hperm
    simp only [Bool.and_eq_true, decide_eq_true_eq] at hperm
    exact hperm.1.1.1
  have hall : ∀ I ∈ (splitPairs cuts).map (intervalSteps ref), (assembleFrom 0 as).keep I = [] := by
    intro I hI
    have hmem : intervalProblem as skip I ∈ ((splitPairs cuts).map (intervalSteps ref)).map (intervalProblem as skip) :=
      List.mem_map_of_mem hI
    have : ¬ ((intervalProblem as skip I).n != 0) = true := by
      intro hn
      have : intervalProblem as skip I ∈ (((splitPairs cuts).map (intervalSteps ref)).map (intervalProblem as skip)).filter
          fun P => P.n != 0 := List.mem_filter.mpr ⟨hmem, hn⟩
      rw [hnil] at this
      simp at this
    have hn0 : (intervalProblem as skip I).n = 0 := by simpa using this
    rw [interval_n as ref.T hB skip I] at hn0
    exact List.eq_nil_of_length_eq_zero hn0
  have : (((splitPairs cuts).map (intervalSteps ref)).flatMap fun I => (assembleFrom 0 as).keep I) = [] := by
    apply List.eq_nil_iff_forall_not_mem.mpr
    intro v hv
    obtain ⟨I, hI, hvI⟩ := List.mem_flatMap.mp hv
    rw [hall I hI] at hvI
    simp at hvI
  rw [this] at hlen
  have hn : (assemble as (List.range ref.T) skip).n = (assembleFrom 0 as).n := assemble_n _ _ _
  rw [hn, ← hlen] at hpos
  simp at hpos

theorem builders_witness (specs : List AssetSpec) (ref : Grid) (cuts : List Int) (prices : Prices) (u : Nat)
    (skip : List String) (U : Problem) (hH : splitHyps specs ref cuts prices = true)
    (hU : setupPortfolio specs ref prices u skip = .ok U) (hpos : 0 < U.n) :
    ∃ ps, setupSplit specs ref cuts prices u skip = .ok ps ∧
      splitWitness U ps (splitPerm U ((splitPairs cuts).map (intervalSteps ref))) = true := by
  obtain ⟨as, _, _, h3, h4⟩ := builders_split specs ref cuts prices u skip U hH hU hpos
  exact ⟨_, h3, h4⟩

/-- every step index of a grid is below some bound (the bound itself plays no role for the builders) -/
theorem idx_bound (g : Grid) : ∀ t ∈ g.idx, t < g.idx.sum + 1 := by
  intro t ht
  have : t ≤ g.idx.sum := mem_le_sum g.idx t ht
  omega

/-! ## Part 5: sorted cuts that cover the horizon divide the steps into pieces -/

theorem mem_splitPairs_ge : ∀ (cuts : List Int) (a : Int), (a :: cuts).Pairwise (· ≤ ·) →
    ∀ cd ∈ splitPairs (a :: cuts), a ≤ cd.1
  | [], _, _ => by intro cd h; simp [splitPairs] at h
  | b :: rest, a, hs => by
    intro cd h
    obtain ⟨h1, h2⟩ := List.pairwise_cons.mp hs
    simp only [splitPairs, List.mem_cons] at h
    rcases h with rfl | h
    · exact Int.le_refl _
    · exact Int.le_trans (h1 b (by simp)) (mem_splitPairs_ge rest b h2 cd h)

theorem splitPairs_cover : ∀ (cuts : List Int) (a : Int) (p : Int), a ≤ p →
    (∃ b, (a :: cuts).getLast? = some b ∧ p < b) → ∃ cd ∈ splitPairs (a :: cuts), win cd.1 cd.2 p = true
  | [], a, p, h1, ⟨b, hb, h2⟩ => by
    simp at hb; subst hb; omega
  | b :: rest, a, p, h1, ⟨z, hz, h2⟩ => by
    by_cases hp : p < b
    · exact ⟨(a, b), by simp [splitPairs], by simp [win, h1, hp]⟩
    · have hz' : (b :: rest).getLast? = some z := by
        rw [List.getLast?_cons_cons] at hz; exact hz
      obtain ⟨cd, hcd, hw⟩ := splitPairs_cover rest b p (by omega) ⟨z, hz', h2⟩
      exact ⟨cd, by simp [splitPairs, hcd], hw⟩

theorem splitPairs_disjoint (ref : Grid) (hidx : ref.idx = List.range ref.T) : ∀ (cuts : List Int),
    cuts.Pairwise (· ≤ ·) → pairwiseDisjoint ((splitPairs cuts).map (intervalSteps ref)) = true
  | [], _ => rfl
  | [_], _ => rfl
  | a :: b :: rest, hs => by
    obtain ⟨h1, h2⟩ := List.pairwise_cons.mp hs
    have ih := splitPairs_disjoint ref hidx (b :: rest) h2
    simp only [splitPairs, List.map_cons, pairwiseDisjoint, Bool.and_eq_true, List.all_eq_true]
    refine ⟨?_, ih⟩
    intro J hJ t ht
    obtain ⟨cd, hcd, rfl⟩ := List.mem_map.mp hJ
    have hge := mem_splitPairs_ge rest b h2 cd hcd
    have ht1 := ((mem_intervalSteps ref (a, b) hidx t).mp ht).2
    rw [Bool.not_eq_true', Bool.eq_false_iff]
    intro hc
    have ht2 := ((mem_intervalSteps ref cd hidx t).mp (List.contains_iff_mem.mp hc)).2
    simp only [win, Bool.and_eq_true, decide_eq_true_eq] at ht1 ht2
    omega

/-- cuts in increasing order, the first not after any grid point, the last after every grid point: the pairs of
    consecutive cuts divide the steps of the grid into pieces -/
theorem cuts_isPartition (ref : Grid) (cuts : List Int) (hidx : ref.idx = List.range ref.T)
    (hs : cuts.Pairwise (· ≤ ·))
    (hlo : ∀ p ∈ ref.pts, ∃ a, cuts.head? = some a ∧ a ≤ p)
    (hhi : ∀ p ∈ ref.pts, ∃ b, cuts.getLast? = some b ∧ p < b) :
    isPartition ((splitPairs cuts).map (intervalSteps ref)) ref.T = true := by
  unfold isPartition
  rw [Bool.and_eq_true]
  refine ⟨?_, splitPairs_disjoint ref hidx cuts hs⟩
  rw [List.all_eq_true]
  intro t ht
  have htT : t < ref.pts.length := List.mem_range.mp ht
  have hmem : ref.pts.getD t 0 ∈ ref.pts := by
    rw [List.getD_eq_getElem?_getD, List.getElem?_eq_getElem htT]
    exact List.getElem_mem htT
  obtain ⟨a, ha, hap⟩ := hlo _ hmem
  obtain ⟨b, hb, hpb⟩ := hhi _ hmem
  cases cuts with
  | nil => simp at ha
  | cons c rest =>
    simp at ha; subst ha
    obtain ⟨cd, hcd, hw⟩ := splitPairs_cover rest c _ hap ⟨b, hb, hpb⟩
    refine List.any_eq_true.mpr ⟨intervalSteps ref cd, List.mem_map_of_mem hcd, ?_⟩
    exact List.contains_iff_mem.mpr ((mem_intervalSteps ref cd hidx t).mpr ⟨htT, hw⟩)

end EAO.SplitBuild
