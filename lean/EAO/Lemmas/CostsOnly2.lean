import EAO.Model.CostsOnly
import EAO.Model.CoarseStorage
import EAO.Lemmas.CostsOnly
import EAO.Lemmas.Contract
import EAO.Lemmas.CoarseBuild
import EAO.Lemmas.CoarseStorage
import EAO.Lemmas.Storage
/-!
# EAO.Lemmas.CostsOnly2 — `costs_only` for the remaining bases (C17, second part)

* the length facts `a.l.length = a.c.length` for what `buildCHP` / `buildCHPP` / `buildMinLoad` / the chain
  `buildCHPAsset` and the coarse builders (`buildCoarseSimpleContract`, `buildCoarseTransport`, `buildCoarseStorage`)
  return — the hypothesis `BasesWF` of `EAO.C17C.costs_only_is_cost` for CHP and coarse bases of scaled assets;
* the `costs_only=True` branch of a `Storage` WITH an own coarse `freq` (`costsOnlyCoarseStorage`), literally after
  `eaopack/assets.py` 316-400: the early return for an empty window (`np.array([])`), the price look-up (assertion on the
  key, ValueError on the length of the array), the PLAIN mean of the price over the minor steps of every coarse step,
  the cost vector on the coarse grid (coarse `dt`, discount factor of the coarse step), one zero per boolean variable;
  NOT reached: `self.nodes[0]`, the block structure, `__extend_mapping_to_minor_grid__`.  (`profile` must be `None` as in
  `EAO/Model/CoarseStorage.lean`.)
-/
namespace EAO.CostsOnly2
open EAO EAO.CostsOnly

/-- a goal whose hypothesis `h` says that a `throw` returned a value -/
macro "throw_absurd " h:ident : tactic =>
  `(tactic| (simp [throw, throwThe, MonadExceptOf.throw, bind, Except.bind, pure, Except.pure] at $h:ident))

/-! ## Part A: CHP family -/

theorem vec_length {v : ParamValue} {g : Grid} {pr : Prices} {d : Rat} {cv : Bool} {xs : List Rat}
    (hg : g.Ok) (h : vec v g pr d cv = .ok xs) : xs.length = g.T := by
  unfold vec at h
  obtain ⟨ys, hy, h⟩ := bind_eq_ok h
  rw [allSome_length h, makeVector_length hg hy]

/-- the three vectors that enter the cost vector have one entry per step -/
theorem chpVectors_lengths {p : CHPP} {g : Grid} {pr : Prices} {heat : Bool} {fuel : Option String} {v : CHPVecs}
    (hg : g.Ok) (h : chpVectors p g pr heat fuel = .ok v) :
    v.startCosts.length = g.T ∧ v.runningCosts.length = g.T ∧ v.conv.length = g.T := by
  unfold chpVectors at h
  simp only [bind, Except.bind, pure, Except.pure, throw, throwThe, MonadExceptOf.throw] at h
  repeat' split at h
  all_goals first
    | (cases h; done)
    | (injection h with h; subst h
       exact ⟨vec_length hg (by assumption), vec_length hg (by assumption), vec_length hg (by assumption)⟩)

/-- the late checks pin the sizes of the parent's problem -/
theorem chpLateChecks_len {r : CHPR} {x : Unit} (h : chpLateChecks r = .ok x) :
    r.base.c.length = r.T ∧ r.base.l.length = r.T ∧ r.base.u.length = r.T := by
  unfold chpLateChecks at h
  by_cases hlen : r.base.c.length ≠ r.T ∨ r.base.l.length ≠ r.T ∨ r.base.u.length ≠ r.T ∨ r.base.mapping.length ≠ r.T
  · exfalso
    simp only [bind, Except.bind, pure, Except.pure, throw, throwThe, MonadExceptOf.throw, hlen, if_true] at h
    repeat' split at h
    all_goals cases h
  · omega

/-- a successful FULL resolution: the late checks passed -/
theorem resolveCHPWith_false_some {p : CHPP} {base : AssetProblem} {g : Grid} {pr : Prices} {u s : Nat} {r : CHPR}
    (h : resolveCHPWith p base g pr u s false = .ok (some r)) :
    ∃ (hf : Bool × Option String) (v : CHPVecs) (x : Unit), chpVectors p g pr hf.1 hf.2 = .ok v ∧ r = mkCHPR p base g hf.1 hf.2 v u s 0 false ∧
      chpLateChecks r = .ok x := by
  unfold resolveCHPWith at h
  obtain ⟨hf, hc, h⟩ := bind_eq_ok h
  by_cases hT : g.T = 0
  · rw [if_pos hT] at h
    simp only [pure, Except.pure, Except.ok.injEq] at h
    cases h
  · rw [if_neg hT] at h
    by_cases hm : p.freqMismatch = true
    · simp only [hm, if_true] at h
      obtain ⟨_, h', _⟩ := bind_eq_ok h
      exact absurd h' throw_ne_ok
    · simp only [hm, if_false, Bool.false_eq_true] at h
      obtain ⟨v, hv, h⟩ := bind_eq_ok h
      obtain ⟨_, hcc, h⟩ := bind_eq_ok h
      obtain ⟨x, hl, h⟩ := bind_eq_ok h
      simp only [pure, Except.pure, Except.ok.injEq, Option.some.injEq] at h
      subst h
      exact ⟨hf, v, x, hv, rfl, hl⟩

theorem resolveCHPP_false_some {p : CHPP} {q : CHPProfP} {base : AssetProblem} {g : Grid} {pr : Prices} {u s : Nat}
    {r : CHPRP} (h : resolveCHPP p q base g pr u s false = .ok (some r)) :
    ∃ (hf : Bool × Option String) (v : CHPVecs) (rt : Nat) (pf : Bool) (x : Unit), chpVectors p g pr hf.1 hf.2 = .ok v ∧ r.core = mkCHPR p base g hf.1 hf.2 v u s rt pf ∧
      chpLateChecks r.core = .ok x := by
  unfold resolveCHPP at h
  obtain ⟨hf, hc, h⟩ := bind_eq_ok h
  obtain ⟨sd, hsd, h⟩ := bind_eq_ok h
  by_cases hT : g.T = 0
  · rw [if_pos hT] at h
    simp only [pure, Except.pure, Except.ok.injEq] at h
    cases h
  · rw [if_neg hT] at h
    by_cases hm : p.freqMismatch = true
    · simp only [hm, if_true] at h
      obtain ⟨_, h', _⟩ := bind_eq_ok h
      exact absurd h' throw_ne_ok
    · simp only [hm, if_false, Bool.false_eq_true] at h
      obtain ⟨v, hv, h⟩ := bind_eq_ok h
      obtain ⟨_, hcc, h⟩ := bind_eq_ok h
      obtain ⟨x, hl, h⟩ := bind_eq_ok h
      split at h
      · exact absurd h throw_ne_ok
      · split at h
        · exact absurd h throw_ne_ok
        · simp only [pure, Except.pure, Except.ok.injEq, Option.some.injEq] at h
          subst h
          exact ⟨hf, v, _, _, x, hv, rfl, hl⟩

theorem setSliceFrom_len (xs : List Rat) (i a b : Nat) (v : Rat) : (setSliceFrom xs i a b v).length = xs.length := by
  induction xs generalizing i with
  | nil => rfl
  | cons x xs ih => simp [setSliceFrom, ih]

theorem setSlice_len (xs : List Rat) (a b : Nat) (v : Rat) : (setSlice xs a b v).length = xs.length :=
  setSliceFrom_len xs 0 a b v

set_option linter.unusedSimpArgs false in
/-- resolved inputs whose parent problem and parameter vectors have one entry per step: as many lower bounds as costs -/
theorem chpr_len (r : CHPR) (hc : r.base.c.length = r.T) (hl : r.base.l.length = r.T)
    (hcv : r.conv.length = r.T) (hrc : r.runningCosts.length = r.T) (hsc : r.startCosts.length = r.T) :
    r.lower.length = r.cost.length := by
  have hconv : (if r.conv.length = 1 then r.base.c.map (r.cv 0 * ·) else List.zipWith (· * ·) r.conv r.base.c).length
      = r.T := by
    split
    · simp [hc]
    · simp [hc, hcv]
  unfold CHPR.lower CHPR.cost
  simp only []
  split
  · rw [setSlice_len]
    cases hh : r.heat <;> cases ho : r.incOn <;> cases hs : r.incStart <;>
      simp [hh, ho, hs, hc, hl, hrc, hsc, hconv] at hconv ⊢ <;> omega
  · cases hh : r.heat <;> cases ho : r.incOn <;> cases hs : r.incStart <;>
      simp [hh, ho, hs, hc, hl, hrc, hsc, hconv] at hconv ⊢ <;> omega

/-- **CHPAsset / Plant without profiles**: as many lower bounds as costs (given that of the parent's problem, which is
    returned unchanged when the window is empty) -/
theorem buildCHP_len {p : CHPP} {base : AssetProblem} {g : Grid} {pr : Prices} {u s : Nat} {a : AssetProblem}
    (hg : g.Ok) (hb : base.l.length = base.c.length) (h : buildCHP p base g pr u s = .ok a) :
    a.l.length = a.c.length := by
  unfold buildCHP resolveCHP at h
  obtain ⟨o, ho, h⟩ := bind_eq_ok h
  cases o with
  | none => simp only [pure, Except.pure, Except.ok.injEq] at h; subst h; exact hb
  | some r =>
    simp only [pure, Except.pure, Except.ok.injEq] at h
    subst h
    obtain ⟨hf, v, x, hv, hr, hl⟩ := resolveCHPWith_false_some ho
    obtain ⟨h1, h2, _⟩ := chpLateChecks_len hl
    obtain ⟨v1, v2, v3⟩ := chpVectors_lengths hg hv
    exact chpr_len r h1 h2 (by rw [hr]; exact v3) (by rw [hr]; exact v2) (by rw [hr]; exact v1)

/-- **with ramp profiles**: the shutdown booleans come with cost 0 and bound 0 -/
theorem buildCHPP_len {p : CHPP} {q : CHPProfP} {base : AssetProblem} {g : Grid} {pr : Prices} {u s : Nat}
    {a : AssetProblem} (hg : g.Ok) (hb : base.l.length = base.c.length) (h : buildCHPP p q base g pr u s = .ok a) :
    a.l.length = a.c.length := by
  unfold buildCHPP at h
  obtain ⟨o, ho, h⟩ := bind_eq_ok h
  cases o with
  | none => simp only [pure, Except.pure, Except.ok.injEq] at h; subst h; exact hb
  | some r =>
    simp only [pure, Except.pure, Except.ok.injEq] at h
    subst h
    obtain ⟨hf, v, rt, pf, x, hv, hr, hl⟩ := resolveCHPP_false_some ho
    obtain ⟨h1, h2, _⟩ := chpLateChecks_len hl
    obtain ⟨v1, v2, v3⟩ := chpVectors_lengths hg hv
    have := chpr_len r.core h1 h2 (by rw [hr]; exact v3) (by rw [hr]; exact v2) (by rw [hr]; exact v1)
    show (r.core.lower ++ List.replicate r.core.T 0).length = (r.core.cost ++ List.replicate r.core.T 0).length
    simp [this]

theorem buildCHPAny_len {p : CHPP} {q : CHPProfP} {base : AssetProblem} {g : Grid} {pr : Prices} {u s : Nat}
    {a : AssetProblem} (hg : g.Ok) (hb : base.l.length = base.c.length) (h : buildCHPAny p q base g pr u s = .ok a) :
    a.l.length = a.c.length := by
  unfold buildCHPAny at h
  split at h
  · exact buildCHPP_len hg hb h
  · exact buildCHP_len hg hb h

/-! ### minimum-load costs -/

theorem addMinLoad_l {a : AssetProblem} {g : Grid} {thr costs : List Rat} {b : AssetProblem}
    (h : addMinLoad a g thr costs = .ok b) : b.l = a.l ++ List.replicate g.T 0 := by
  unfold addMinLoad at h
  simp only [bind, Except.bind] at h
  split at h
  · exact absurd h throw_ne_ok
  · split at h
    · simp [throw, throwThe, MonadExceptOf.throw] at h
    · simp only [pure, Except.pure, Except.ok.injEq] at h; subst h; rfl

theorem optVec_length {v : Option ParamValue} {g : Grid} {pr : Prices} {xs : List Rat} (hg : g.Ok)
    (h : optVec v g pr = .ok (some xs)) : xs.length = g.T := by
  unfold optVec at h
  cases v with
  | none => simp only [pure, Except.pure, Except.ok.injEq] at h; cases h
  | some w =>
    simp only at h
    obtain ⟨ys, hy, h⟩ := bind_eq_ok h
    simp only [pure, Except.pure, Except.ok.injEq, Option.some.injEq] at h
    subst h
    exact vec_length hg hy

theorem minLoadActive_some {thr costs : Option (List Rat)} {t c : List Rat} (h : minLoadActive thr costs = some (t, c)) :
    thr = some t ∧ costs = some c := by
  unfold minLoadActive at h
  split at h
  · split at h
    · simp only [Option.some.injEq, Prod.mk.injEq] at h
      obtain ⟨rfl, rfl⟩ := h
      exact ⟨rfl, rfl⟩
    · cases h
  · cases h

theorem buildMinLoad_len {m : MinLoadP} {a : AssetProblem} {g : Grid} {pr : Prices} {b : AssetProblem}
    (hg : g.Ok) (ha : a.l.length = a.c.length) (h : buildMinLoad m a g pr = .ok b) : b.l.length = b.c.length := by
  unfold buildMinLoad at h
  by_cases hT : g.T = 0
  · simp only [hT, if_true, pure, Except.pure, Except.ok.injEq] at h
    subst h; exact ha
  · simp only [hT, if_false] at h
    obtain ⟨thr, ht, h⟩ := bind_eq_ok h
    obtain ⟨cs, hcs, h⟩ := bind_eq_ok h
    cases hact : minLoadActive thr cs with
    | none =>
      rw [hact] at h
      simp only [pure, Except.pure, Except.ok.injEq] at h
      subst h; exact ha
    | some tc =>
      obtain ⟨t, c⟩ := tc
      rw [hact] at h
      obtain ⟨_, rfl⟩ := minLoadActive_some hact
      have hc := optVec_length hg hcs
      rw [addMinLoad_l h, addMinLoad_c h]
      simp [ha, hc]

/-- **the chain Contract → CHPAsset / Plant → minimum-load costs**: as many lower bounds as costs, on every grid whose
    per-step lists are as long as its point list (what `Timegrid` makes) -/
theorem chp_asset_len {p : CHPP} {q : CHPProfP} {ml : Option MinLoadP} {cp : ContractP} {g : Grid} {pr : Prices}
    {fullT u s : Nat} {a : AssetProblem} (hg : g.Ok) (h : buildCHPAsset p q ml cp g pr fullT u s = .ok a) :
    a.l.length = a.c.length := by
  unfold buildCHPAsset at h
  obtain ⟨_, hctor, h⟩ := bind_eq_ok h
  obtain ⟨base, hb, h⟩ := bind_eq_ok h
  obtain ⟨a1, h1, h⟩ := bind_eq_ok h
  have hbl : base.l.length = base.c.length := (contract_wf' hg hb).l_len
  have h1l := buildCHPAny_len hg hbl h1
  cases ml with
  | none => simp only [pure, Except.pure, Except.ok.injEq] at h; subst h; exact h1l
  | some m => exact buildMinLoad_len hg h1l h

/-! ## Part B: coarse asset frequency -/

/-- the length facts of a coarse restricted grid as `Timegrid.set_restricted_grid(start, end, freq)` makes it: per-step
    lists as long as the point list, one list of minor steps per coarse step (the first two fields of
    `CoarseGrid.WellFormed`) -/
def CoarseOk (cg : CoarseGrid) : Prop := cg.grid.Ok ∧ cg.minor.length = cg.grid.T

theorem coarseOk_of_wf {cg : CoarseGrid} {dtFine : List Rat} (h : cg.WellFormed dtFine) : CoarseOk cg := ⟨h.ok, h.minorLen⟩

theorem coarse_simple_len {p : ContractP} {cg : CoarseGrid} {dtF : List Rat} {pr : Prices} {fullT : Nat}
    {a : AssetProblem} (hcg : CoarseOk cg) (h : buildCoarseSimpleContract p cg dtF pr fullT = .ok a) :
    a.l.length = a.c.length := by
  obtain ⟨hg, hm⟩ := hcg
  obtain ⟨_, price, a0, hp, h0, rfl⟩ := CoarseBuild.buildCoarseSimpleContract_ok h
  obtain ⟨d, minO, maxO, ecO, hdp, hv, he, hmi, hma, ⟨rest, hn⟩, hP⟩ := CoarseBuild.simpleCore_ok h0
  have hpl := CoarseBuild.coarsePrice_length hp
  obtain ⟨h1, h2, _, h3⟩ := contractVectors_ok hv
  have hl : d.price.length = cg.grid.T ∧ d.ec.length = cg.grid.T ∧ d.minC.length = cg.grid.T ∧
      d.maxC.length = cg.grid.T :=
    ⟨by rw [hdp, hpl, hm], by rw [allSome_length he, makeVector_length hg h3],
     by rw [allSome_length hmi, makeVector_length hg h2], by rw [allSome_length hma, makeVector_length hg h1]⟩
  show a0.l.length = a0.c.length
  by_cases h1v : oneVariable d.ec d.minC d.maxC = true
  · rw [if_pos h1v] at hP; subst hP; exact (scOne_wf hg hn hl).l_len
  · rw [if_neg h1v] at hP; subst hP; exact (scTwo_wf hg hn hl).l_len

theorem coarse_transport_len {p : TransportP} {cg : CoarseGrid} {dtF : List Rat} {pr : Prices} {fullT : Nat}
    {a : AssetProblem} (hcg : CoarseOk cg) (h : buildCoarseTransport p cg dtF pr fullT = .ok a) :
    a.l.length = a.c.length := by
  obtain ⟨hg, hm⟩ := hcg
  obtain ⟨n0, n1, cts, hn, _, _, hc, _, rfl⟩ := CoarseBuild.buildCoarseTransport_ok h
  have hlen := CoarseBuild.coarseCosts_length hc
  show (trProblem p cg.grid n0 n1 cts).l.length = (trProblem p cg.grid n0 n1 cts).c.length
  simp only [trProblem]
  split <;> simp [hlen, hm, hg.2.1, hg.2.2]

/-! ## Part C: the storage with an own coarse `freq` -/

/-- `Storage(…, freq=f).setup_optim_problem(costs_only=True)` on the coarse restricted grid `cg`
    (`eaopack/assets.py` 316-400): `len(dt) == 0` → `np.array([])`; the price look-up (`assert self.price in prices`,
    ValueError on the length); `price[myI].mean()` per coarse step; `c` on the coarse grid; `np.hstack((c, np.zeros(n_bool)))`
    (`Storage.costVec` carries the zeros of the boolean variables) -/
def costsOnlyCoarseStorage (p : StorageP) (cg : CoarseGrid) (prices : Prices) (fullT : Nat) :
    Except BuildError (List Rat) :=
  if cg.grid.dt.length = 0 then .ok []
  else match coarseStoragePrice p cg.minor prices fullT with
    | .error e => .error e
    | .ok price => .ok (Storage.costVec p cg.grid cg.grid.T (fun i => price.getD i 0))

/-- constructor guards in front -/
def mkCostsOnlyCoarseStorage (p : StorageP) (cg : CoarseGrid) (prices : Prices) (fullT : Nat) :
    Except BuildError (List Rat) :=
  if p.guards then costsOnlyCoarseStorage p cg prices fullT else throw .assertion

/-- from the full grid and the cuts (`Asset.set_timegrid` runs in the cost-only branch as well) -/
def mkCostsOnlyCoarseStorageG (p : StorageP) (ref : Grid) (freqA freqP : Nat) (cuts : List Int) (prices : Prices) :
    Except BuildError (List Rat) := do
  if !p.guards then throw .assertion
  let cg ← coarseOf ref freqA freqP cuts
  costsOnlyCoarseStorage p cg prices ref.T

theorem extendMapping_error {M : List MapRow} {cg : CoarseGrid} {dtF : List Rat} {e : BuildError}
    (h : extendMapping M cg dtF = .error e) : e = .index := by
  unfold extendMapping at h
  split at h
  · cases h
  · simp only [throw, throwThe, MonadExceptOf.throw, Except.error.injEq] at h
    exact h.symm

/-- the shared part of the coarse `Storage.setup_optim_problem` -/
theorem coarse_storage_vs_cost (p : StorageP) (cg : CoarseGrid) (dtF : List Rat) (prices : Prices) (fullT : Nat) :
    (∃ e, buildCoarseStorage p cg dtF prices fullT = .error e ∧ costsOnlyCoarseStorage p cg prices fullT = .error e) ∨
    (∃ c, costsOnlyCoarseStorage p cg prices fullT = .ok c ∧
      ((∃ a, buildCoarseStorage p cg dtF prices fullT = .ok a ∧ a.c = c) ∨
        buildCoarseStorage p cg dtF prices fullT = .error .index ∨
        buildCoarseStorage p cg dtF prices fullT = .error .nanInput)) := by
  unfold buildCoarseStorage costsOnlyCoarseStorage
  by_cases h0 : cg.grid.dt.length = 0
  · rw [if_pos h0, if_pos h0]; exact Or.inr ⟨_, rfl, Or.inl ⟨_, rfl, rfl⟩⟩
  · rw [if_neg h0, if_neg h0]
    cases hp : coarseStoragePrice p cg.minor prices fullT with
    | error e => exact Or.inl ⟨e, rfl, rfl⟩
    | ok price =>
      simp only [bind_ok]
      right
      refine ⟨_, rfl, ?_⟩
      unfold storageCore
      by_cases hn : p.nodes.isEmpty = true
      · rw [if_pos hn]; exact Or.inr (Or.inl rfl)
      · rw [if_neg hn]
        cases hb : Storage.blocksOf p cg.grid.T with
        | error e =>
          simp only
          rcases blocksOf_error hb with rfl | rfl
          · exact Or.inr (Or.inl rfl)
          · exact Or.inr (Or.inr rfl)
        | ok bl =>
          simp only [bind_ok]
          cases hx : extendMapping (Storage.mapping p cg.grid cg.grid.T) cg dtF with
          | error e =>
            rw [extendMapping_error hx]
            exact Or.inr (Or.inl rfl)
          | ok M => exact Or.inl ⟨_, rfl, rfl⟩

theorem coarse_storage_cost {p : StorageP} {cg : CoarseGrid} {dtF : List Rat} {prices : Prices} {fullT : Nat}
    {a : AssetProblem} (h : buildCoarseStorage p cg dtF prices fullT = .ok a) :
    costsOnlyCoarseStorage p cg prices fullT = .ok a.c := by
  rcases coarse_storage_vs_cost p cg dtF prices fullT with ⟨e, he, _⟩ | ⟨c, hc, ⟨a', ha', hac⟩ | he | he⟩
  · rw [h] at he; cases he
  · rw [h] at ha'; cases ha'; rw [hc, hac]
  · rw [h] at he; cases he
  · rw [h] at he; cases he

theorem mk_coarse_storage_cost {p : StorageP} {cg : CoarseGrid} {dtF : List Rat} {prices : Prices} {fullT : Nat}
    {a : AssetProblem} (h : mkCoarseStorage p cg dtF prices fullT = .ok a) :
    mkCostsOnlyCoarseStorage p cg prices fullT = .ok a.c := by
  unfold mkCoarseStorage at h
  unfold mkCostsOnlyCoarseStorage
  by_cases hg : p.guards = true
  · rw [if_pos hg] at h ⊢; exact coarse_storage_cost h
  · rw [if_neg hg] at h; exact absurd h throw_ne_ok

theorem mk_coarse_storage_cost_G {p : StorageP} {ref : Grid} {freqA freqP : Nat} {cuts : List Int} {prices : Prices}
    {a : AssetProblem} (h : mkCoarseStorageG p ref freqA freqP cuts prices = .ok a) :
    mkCostsOnlyCoarseStorageG p ref freqA freqP cuts prices = .ok a.c := by
  unfold mkCoarseStorageG at h
  unfold mkCostsOnlyCoarseStorageG
  by_cases hg : p.guards = true
  · simp only [hg, Bool.not_true, Bool.false_eq_true, if_false] at h ⊢
    obtain ⟨cg, hcg, h⟩ := bind_eq_ok h
    rw [hcg, bind_ok]
    exact coarse_storage_cost h
  · simp only [hg, Bool.not_false, if_true] at h
    throw_absurd h

/-- the coarse storage problem has as many lower bounds as costs (no hypothesis on the grid: both vectors are generated
    from the number of steps) -/
theorem coarse_storage_len {p : StorageP} {cg : CoarseGrid} {dtF : List Rat} {prices : Prices} {fullT : Nat}
    {a : AssetProblem} (h : buildCoarseStorage p cg dtF prices fullT = .ok a) : a.l.length = a.c.length := by
  by_cases h0 : cg.grid.dt.length = 0
  · unfold buildCoarseStorage at h
    rw [if_pos h0] at h
    simp only [Except.ok.injEq] at h
    subst h; rfl
  · obtain ⟨price, bl, _, _, _, rfl⟩ := CoarseStorage.buildCoarseStorage_ok h h0
    show (Storage.lowerVec p cg.grid cg.grid.T).length = (Storage.costVec p cg.grid cg.grid.T _).length
    rw [EAO.lowerVec_length, EAO.costVec_length]

/-- the number of entries does not depend on the prices -/
theorem coarse_storage_shape_price_free {p : StorageP} {cg : CoarseGrid} {pr pr' : Prices} {fullT : Nat}
    {c c' : List Rat} (h : costsOnlyCoarseStorage p cg pr fullT = .ok c)
    (h' : costsOnlyCoarseStorage p cg pr' fullT = .ok c') : c.length = c'.length := by
  unfold costsOnlyCoarseStorage at h h'
  by_cases h0 : cg.grid.dt.length = 0
  · rw [if_pos h0] at h h'
    cases h; cases h'; rfl
  · rw [if_neg h0] at h h'
    split at h
    · cases h
    · split at h'
      · cases h'
      · cases h; cases h'
        rw [EAO.costVec_length, EAO.costVec_length]

end EAO.CostsOnly2
