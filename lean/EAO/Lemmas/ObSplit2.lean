import EAO.Model.ObSplit
import EAO.Lemmas.Split
import EAO.Lemmas.SplitBuild
import EAO.Lemmas.OrderBook
import EAO.Lemmas.ObSplit
/-!
# EAO.Lemmas.ObSplit2 — `EAO.C14B.split_witness_of_banded` for variables that belong to one INTERVAL

`Banded` (EAO.Model.SplitBuild) asks that all mapping rows of a variable sit at ONE STEP and that there are no boolean
variables.  An order of an order book covers several steps (one variable, one mapping row per covered step) and is a
boolean variable under full execution.  `IntervalBanded a T Is` asks instead that all mapping rows of a variable sit in
ONE of the step lists `Is` and that the boolean flag is the same on all rows of a variable.  Part 1 repeats Part 1 of
`EAO.Lemmas.SplitBuild` under the weaker hypothesis (the lemmas that never used `same_step` / `no_bool` are re-proved
for `WB`, the rest of `Banded`; the lemmas without a `Banded` hypothesis are used as they are); the boolean index sets
of the renamed unsplit problem and of the block sum are compared through the mapping rows.  Part 2: what the five
builders and the order book give.  Part 3: dropping the inert variables of an ASSEMBLED problem is assembling the asset
problems without their unmapped variables (`assemble_dropInert`, equality of problems).  Part 4: the literal loop
`setupSplitOB` — every pass returns a problem that, without its inert variables, is the interval problem of the unsplit
asset problems; hence `splitWitnessModInert` holds for the literal output (`setupSplitOB_witness`).
-/
namespace EAO.ObSplit2
open EAO EAO.Split EAO.SplitBuild

/-- `Banded` without `same_step` and `no_bool` -/
structure WB (a : AssetProblem) (T : Nat) : Prop where
  l_len     : a.l.length = a.n
  u_len     : a.u.length = a.n
  map_var   : ∀ m ∈ a.mapping, m.var < a.n
  map_step  : ∀ m ∈ a.mapping, m.step < T
  covered   : ∀ v, v < a.n → ∃ m ∈ a.mapping, m.var = v
  rows_ok   : ∀ r ∈ a.rows, r.coeffs ≠ [] ∧ ∀ q ∈ r.coeffs, q.1 < a.n

/-- **every variable belongs to ONE INTERVAL**: bounds for every variable, rows over the asset's variables, every
    variable has a mapping row, all mapping rows of a variable sit at steps of the same step lists of `Is`
    (`same_block`), and carry the same boolean flag (`bool_const`; booleans are allowed) -/
structure IntervalBanded (a : AssetProblem) (T : Nat) (Is : List (List Nat)) : Prop where
  wb         : WB a T
  same_block : ∀ m ∈ a.mapping, ∀ m' ∈ a.mapping, m.var = m'.var → ∀ I ∈ Is, m.step ∈ I → m'.step ∈ I
  bool_const : ∀ m ∈ a.mapping, ∀ m' ∈ a.mapping, m.var = m'.var → m.isBool = m'.isBool

theorem wb_of_banded {a : AssetProblem} {T : Nat} (h : Banded a T) : WB a T :=
  ⟨h.l_len, h.u_len, h.map_var, h.map_step, h.covered, h.rows_ok⟩

/-- what `EAO.C14B.builders_banded` gives is interval-banded for ANY step lists -/
theorem intervalBanded_of_banded {a : AssetProblem} {T : Nat} (h : Banded a T) (Is : List (List Nat)) :
    IntervalBanded a T Is := by
  refine ⟨wb_of_banded h, ?_, ?_⟩
  · intro m hm m' hm' hv I _ hs
    rw [← h.same_step m hm m' hm' hv]; exact hs
  · intro m hm m' hm' _
    rw [h.no_bool m hm, h.no_bool m' hm']

theorem i_banded_var_mem_keep {a : AssetProblem} {T : Nat} (h : WB a T) (I : List Nat) (m : MapRow)
    (hm : m ∈ a.mapping) (hs : m.step ∈ I) : m.var ∈ a.keep I :=
  (mem_keep a I m.var).mpr ⟨h.map_var m hm, m, hm, rfl, hs⟩

/-! ## Part 1: the general theorem -/

structure GW (M : List MapRow) (off n T : Nat) : Prop where
  var_ge    : ∀ m ∈ M, off ≤ m.var
  var_lt    : ∀ m ∈ M, m.var < off + n
  step_lt   : ∀ m ∈ M, m.step < T
  covered   : ∀ u, off ≤ u → u < off + n → ∃ m ∈ M, m.var = u

theorem i_assembleFrom_gbanded (as : List AssetProblem) (T : Nat) (hB : ∀ a ∈ as, WB a T) (off : Nat) :
    GW (assembleFrom off as).mapping off ((as.map (·.n)).sum) T := by
  induction as generalizing off with
  | nil =>
    refine ⟨?_, ?_, ?_, ?_⟩ <;> intro m hm <;> first | (simp at hm) | skip
    intro h1; simp at h1; omega
  | cons a rest ih =>
    have ha := hB a (by simp)
    have hr := ih (fun b hb => hB b (by simp [hb])) (off + a.n)
    rw [assembleFrom_cons_mapping]
    simp only [List.map_cons, List.sum_cons]
    refine ⟨?_, ?_, ?_, ?_⟩
    · intro m hm
      rcases List.mem_append.mp hm with h | h
      · obtain ⟨m', _, rfl⟩ := List.mem_map.mp h
        show off ≤ off + m'.var; omega
      · have := hr.var_ge m h; omega
    · intro m hm
      rcases List.mem_append.mp hm with h | h
      · obtain ⟨m', hm', rfl⟩ := List.mem_map.mp h
        have := ha.map_var m' hm'
        show off + m'.var < _; omega
      · have := hr.var_lt m h; omega
    · intro m hm
      rcases List.mem_append.mp hm with h | h
      · obtain ⟨m', hm', rfl⟩ := List.mem_map.mp h
        exact ha.map_step m' hm'
      · exact hr.step_lt m h
    · intro u h1 h2
      by_cases hu : u < off + a.n
      · obtain ⟨m, hm, hv⟩ := ha.covered (u - off) (by omega)
        refine ⟨m.shift off, List.mem_append_left _ (List.mem_map_of_mem hm), ?_⟩
        show off + m.var = u; omega
      · obtain ⟨m, hm, hv⟩ := hr.covered u (by omega) (by omega)
        exact ⟨m, List.mem_append_right _ hm, hv⟩

/-- the kept variables of the assets, concatenated, are the variables of the concatenation that sit at steps of
    `I`, in increasing order -/
theorem i_keptFrom_eq_filter (as : List AssetProblem) (T : Nat) (hB : ∀ a ∈ as, WB a T) (I : List Nat) (off : Nat) :
    keptFrom I off as =
      ((List.range ((as.map (·.n)).sum)).filter fun j => varAtSteps (assembleFrom off as).mapping I (off + j)).map
        (off + ·) := by
  induction as generalizing off with
  | nil => simp [keptFrom]
  | cons a rest ih =>
    have ha := hB a (by simp)
    have hB' : ∀ b ∈ rest, WB b T := fun b hb => hB b (by simp [hb])
    have hr := i_assembleFrom_gbanded rest T hB' (off + a.n)
    simp only [keptFrom, List.map_cons, List.sum_cons]
    rw [List.range_add, List.filter_append, List.map_append, ih hB' (off + a.n), assembleFrom_cons_mapping]
    congr 1
    · -- the asset's own block
      unfold AssetProblem.keep
      congr 1
      apply List.filter_congr
      intro j hj
      have hj' : j < a.n := List.mem_range.mp hj
      rw [Bool.eq_iff_iff, varAtSteps_iff, varAtSteps_iff]
      constructor
      · rintro ⟨m, hm, hv, hs⟩
        exact ⟨m.shift off, List.mem_append_left _ (List.mem_map_of_mem hm), by show off + m.var = off + j; omega, hs⟩
      · rintro ⟨m, hm, hv, hs⟩
        rcases List.mem_append.mp hm with h | h
        · obtain ⟨m', hm', rfl⟩ := List.mem_map.mp h
          refine ⟨m', hm', ?_, hs⟩
          have : off + m'.var = off + j := hv
          omega
        · have := hr.var_ge m h; omega
    · -- the blocks after it
      rw [List.filter_map, List.map_map]
      have e : (fun x => off + x) ∘ (fun x => a.n + x) = fun x => off + a.n + x := by
        funext x; simp; omega
      rw [e]
      congr 1
      apply List.filter_congr
      intro j _
      simp only [Function.comp]
      rw [Bool.eq_iff_iff, varAtSteps_iff, varAtSteps_iff]
      constructor
      · rintro ⟨m, hm, hv, hs⟩
        exact ⟨m, List.mem_append_right _ hm, by omega, hs⟩
      · rintro ⟨m, hm, hv, hs⟩
        rcases List.mem_append.mp hm with h | h
        · obtain ⟨m', hm', rfl⟩ := List.mem_map.mp h
          have := ha.map_var m' hm'
          have : off + m'.var = off + (a.n + j) := hv
          omega
        · exact ⟨m, h, by omega, hs⟩

/-- … hence, for the whole portfolio, the problem's own `keep` -/
theorem i_keptFrom_eq_pkeep (as : List AssetProblem) (T : Nat) (hB : ∀ a ∈ as, WB a T) (I : List Nat) :
    keptFrom I 0 as = (assembleFrom 0 as).keep I := by
  rw [i_keptFrom_eq_filter as T hB I 0]
  unfold Problem.keep
  rw [assembleFrom_n]
  simp
theorem i_restrict_mapping (as : List AssetProblem) (T : Nat) (hB : ∀ a ∈ as, WB a T) (I : List Nat)
    (off off' : Nat) :
    (assembleFrom off' (as.map fun a => a.restrictTo I)).mapping =
      ((assembleFrom off as).mapping.filter fun m => I.contains m.step).map
        (renMap I fun u => off' + (keptFrom I off as).idxOf u) := by
  induction as generalizing off off' with
  | nil => simp
  | cons a rest ih =>
    have ha := hB a (by simp)
    have hB' : ∀ b ∈ rest, WB b T := fun b hb => hB b (by simp [hb])
    rw [List.map_cons, assembleFrom_cons_mapping, assembleFrom_cons_mapping, List.filter_append, List.map_append]
    congr 1
    · rw [List.filter_map, List.map_map]
      show ((a.mapping.filter fun m => I.contains m.step).map _).map _ = _
      rw [List.map_map]
      apply List.map_congr_left
      intro m hm
      obtain ⟨hm1, hm2⟩ := List.mem_filter.mp hm
      have hv : m.var ∈ a.keep I := i_banded_var_mem_keep ha I m hm1 (List.contains_iff_mem.mp hm2)
      simp only [Function.comp, renMap, MapRow.shift]
      rw [idxOf_keptFrom_head I off a rest m.var hv]
    · rw [ih hB' (off + a.n) (off' + (a.restrictTo I).n)]
      apply List.map_congr_left
      intro m hm
      have hge := (i_assembleFrom_gbanded rest T hB' (off + a.n)).var_ge m (List.mem_filter.mp hm).1
      simp only [renMap]
      rw [idxOf_keptFrom_tail I off a rest m.var hge]
      congr 1
      omega
/-- the mapping of the interval problem, written with the unsplit mapping -/
theorem i_intervalMapping (as : List AssetProblem) (T : Nat) (hB : ∀ a ∈ as, WB a T) (I : List Nat) :
    (assembleFrom 0 (as.map fun a => a.restrictTo I)).mapping =
      ((assembleFrom 0 as).mapping.filter fun m => I.contains m.step).map
        (renMap I fun u => ((assembleFrom 0 as).keep I).idxOf u) := by
  rw [i_restrict_mapping as T hB I 0 0, i_keptFrom_eq_pkeep as T hB I]
  simp

theorem i_intervalRows (as : List AssetProblem) (T : Nat) (hB : ∀ a ∈ as, WB a T) (I : List Nat) :
    (assembleFrom 0 (as.map fun a => a.restrictTo I)).rows =
      (keptRows I 0 as).map (Row.rename fun u => ((assembleFrom 0 as).keep I).idxOf u) := by
  rw [restrict_rows as I 0 0, i_keptFrom_eq_pkeep as T hB I]
  simp

/-- a dispatch row of the unsplit mapping at a step of `I` belongs to a kept variable -/
theorem i_disp_var_kept (as : List AssetProblem) (T : Nat) (hB : ∀ a ∈ as, WB a T) (I : List Nat) (m : MapRow)
    (hm : m ∈ (assembleFrom 0 as).mapping) (hs : m.step ∈ I) : m.var ∈ (assembleFrom 0 as).keep I := by
  rw [mem_pkeep]
  have := (i_assembleFrom_gbanded as T hB 0).var_lt m hm
  rw [assembleFrom_n]
  exact ⟨by omega, m, hm, rfl, hs⟩

/-- every row of the interval problem is a renamed row of the unsplit problem over kept variables -/
theorem i_interval_rows_sub (as : List AssetProblem) (T : Nat) (hB : ∀ a ∈ as, WB a T) (skip : List String)
    (I : List Nat) :
    ∀ R ∈ (intervalProblem as skip I).rows, ∃ r ∈ (assemble as (List.range T) skip).rows,
      (∀ q ∈ r.coeffs, q.1 ∈ (assembleFrom 0 as).keep I) ∧
      R = r.rename fun u => ((assembleFrom 0 as).keep I).idxOf u := by
  intro R hR
  rw [intervalProblem_rows] at hR
  rw [assemble_rows]
  rcases List.mem_append.mp hR with h | h
  · rw [i_intervalRows as T hB I] at h
    obtain ⟨r, hr, rfl⟩ := List.mem_map.mp h
    obtain ⟨g1, g2⟩ := keptRows_sub I 0 as r hr
    rw [i_keptFrom_eq_pkeep as T hB I] at g2
    exact ⟨r, List.mem_append_left _ g1, g2, rfl⟩
  · obtain ⟨⟨r', n⟩, hp, rfl⟩ := List.mem_map.mp h
    obtain ⟨hn, hs, _, hany⟩ := (mem_nodalPairs_iff _ _ _ _ r' n).mp hp
    rw [i_intervalMapping as T hB I] at hany ⊢
    obtain ⟨m', hm', hd⟩ := List.any_eq_true.mp hany
    obtain ⟨m, hm, rfl⟩ := List.mem_map.mp hm'
    obtain ⟨hmM, hmI⟩ := List.mem_filter.mp hm
    have hmI' : m.step ∈ I := List.contains_iff_mem.mp hmI
    obtain ⟨hk, hnode, hstep⟩ := (isDisp_iff _ _ _).mp hd
    have hstep' : I.idxOf m.step = r' := hstep
    have hlt := (i_assembleFrom_gbanded as T hB 0).step_lt m hmM
    refine ⟨nodalRow (assembleFrom 0 as).mapping n m.step, ?_, ?_, ?_⟩
    · apply List.mem_append_right
      refine List.mem_map.mpr ⟨(m.step, n), ?_, rfl⟩
      rw [mem_nodalPairs_iff]
      refine ⟨hn, hs, List.mem_range.mpr hlt, List.any_eq_true.mpr ⟨m, hmM, ?_⟩⟩
      exact (isDisp_iff _ _ _).mpr ⟨hk, hnode, rfl⟩
    · intro q hq
      obtain ⟨m1, hm1, hd1, rfl⟩ := mem_nodalRow_coeffs _ _ _ _ hq
      have := ((isDisp_iff _ _ _).mp hd1).2.2
      exact i_disp_var_kept as T hB I m1 hm1 (this ▸ hmI')
    · show nodalRow _ n r' = _
      rw [← hstep']
      exact nodalRow_restrict _ I _ n m.step hmI'

/-- every kept row of the assets occurs, renamed, in the interval problem -/
theorem i_interval_rows_sup_asset (as : List AssetProblem) (T : Nat) (hB : ∀ a ∈ as, WB a T) (skip : List String)
    (I : List Nat) :
    ∀ r ∈ keptRows I 0 as,
      (r.rename fun u => ((assembleFrom 0 as).keep I).idxOf u) ∈ (intervalProblem as skip I).rows := by
  intro r hr
  rw [intervalProblem_rows, i_intervalRows as T hB I]
  exact List.mem_append_left _ (List.mem_map_of_mem hr)

/-- every nodal row of the unsplit problem at a step of `I` occurs, renamed, in the interval problem, and its
    variables are kept -/
theorem i_interval_rows_sup_nodal (as : List AssetProblem) (T : Nat) (hB : ∀ a ∈ as, WB a T) (skip : List String)
    (I : List Nat) (t : Nat) (n : String)
    (hp : (t, n) ∈ nodalPairs (assembleFrom 0 as).mapping (portfolioNodes as) skip (List.range T)) (ht : t ∈ I) :
    ((nodalRow (assembleFrom 0 as).mapping n t).rename fun u => ((assembleFrom 0 as).keep I).idxOf u)
        ∈ (intervalProblem as skip I).rows ∧
      ∀ q ∈ (nodalRow (assembleFrom 0 as).mapping n t).coeffs, q.1 ∈ (assembleFrom 0 as).keep I := by
  obtain ⟨hn, hs, _, hany⟩ := (mem_nodalPairs_iff _ _ _ _ t n).mp hp
  obtain ⟨m, hm, hd⟩ := List.any_eq_true.mp hany
  obtain ⟨hk, hnode, hstep⟩ := (isDisp_iff _ _ _).mp hd
  constructor
  · rw [intervalProblem_rows]
    apply List.mem_append_right
    refine List.mem_map.mpr ⟨(I.idxOf t, n), ?_, ?_⟩
    · rw [mem_nodalPairs_iff]
      refine ⟨hn, hs, List.mem_range.mpr (List.idxOf_lt_length_of_mem ht), ?_⟩
      rw [i_intervalMapping as T hB I]
      refine List.any_eq_true.mpr ⟨renMap I _ m, List.mem_map_of_mem (List.mem_filter.mpr ⟨hm, ?_⟩), ?_⟩
      · exact List.contains_iff_mem.mpr (hstep ▸ ht)
      · refine (isDisp_iff _ _ _).mpr ⟨hk, hnode, ?_⟩
        show I.idxOf m.step = I.idxOf t
        rw [hstep]
    · show nodalRow _ n (I.idxOf t) = _
      rw [i_intervalMapping as T hB I]
      exact nodalRow_restrict _ I _ n t ht
  · intro q hq
    obtain ⟨m1, hm1, hd1, rfl⟩ := mem_nodalRow_coeffs _ _ _ _ hq
    have := ((isDisp_iff _ _ _).mp hd1).2.2
    exact i_disp_var_kept as T hB I m1 hm1 (this ▸ ht)

/-! ### all interval problems against the unsplit problem -/

theorem i_interval_c (as : List AssetProblem) (T : Nat) (hB : ∀ a ∈ as, WB a T) (skip : List String) (I : List Nat) :
    (intervalProblem as skip I).c = ((assembleFrom 0 as).keep I).map fun u => (assembleFrom 0 as).c.getD u 0 := by
  show (assembleFrom 0 _).c = _
  rw [restrict_c, i_keptFrom_eq_pkeep as T hB I]

theorem i_interval_l (as : List AssetProblem) (T : Nat) (hB : ∀ a ∈ as, WB a T) (skip : List String) (I : List Nat) :
    (intervalProblem as skip I).l = ((assembleFrom 0 as).keep I).map fun u => (assembleFrom 0 as).l.getD u 0 := by
  show (assembleFrom 0 _).l = _
  rw [restrict_l I 0 as (fun a ha => (hB a ha).l_len), i_keptFrom_eq_pkeep as T hB I]

theorem i_interval_u (as : List AssetProblem) (T : Nat) (hB : ∀ a ∈ as, WB a T) (skip : List String) (I : List Nat) :
    (intervalProblem as skip I).u = ((assembleFrom 0 as).keep I).map fun u => (assembleFrom 0 as).u.getD u 0 := by
  show (assembleFrom 0 _).u = _
  rw [restrict_u I 0 as (fun a ha => (hB a ha).u_len), i_keptFrom_eq_pkeep as T hB I]

theorem i_interval_n (as : List AssetProblem) (T : Nat) (hB : ∀ a ∈ as, WB a T) (skip : List String) (I : List Nat) :
    (intervalProblem as skip I).n = ((assembleFrom 0 as).keep I).length := by
  unfold Problem.n
  rw [i_interval_c as T hB skip I, List.length_map]

theorem i_blocks_c (as : List AssetProblem) (T : Nat) (hB : ∀ a ∈ as, WB a T) (skip : List String) (o : Nat)
    (Js : List (List Nat)) :
    (blocks as skip o Js).c =
      (Js.flatMap fun I => (assembleFrom 0 as).keep I).map fun u => (assembleFrom 0 as).c.getD u 0 := by
  unfold blocks
  rw [flat_c, List.flatMap_map, List.map_flatMap]
  congr 1
  funext I
  exact i_interval_c as T hB skip I

theorem i_blocks_l (as : List AssetProblem) (T : Nat) (hB : ∀ a ∈ as, WB a T) (skip : List String) (o : Nat)
    (Js : List (List Nat)) :
    (blocks as skip o Js).l =
      (Js.flatMap fun I => (assembleFrom 0 as).keep I).map fun u => (assembleFrom 0 as).l.getD u 0 := by
  unfold blocks
  rw [flat_l, List.flatMap_map, List.map_flatMap]
  congr 1
  funext I
  exact i_interval_l as T hB skip I

theorem i_blocks_u (as : List AssetProblem) (T : Nat) (hB : ∀ a ∈ as, WB a T) (skip : List String) (o : Nat)
    (Js : List (List Nat)) :
    (blocks as skip o Js).u =
      (Js.flatMap fun I => (assembleFrom 0 as).keep I).map fun u => (assembleFrom 0 as).u.getD u 0 := by
  unfold blocks
  rw [flat_u, List.flatMap_map, List.map_flatMap]
  congr 1
  funext I
  exact i_interval_u as T hB skip I
/-- every row of the block sum is a row of the unsplit problem, renamed along the matching -/
theorem i_blocks_rows_sub (as : List AssetProblem) (T : Nat) (hB : ∀ a ∈ as, WB a T) (skip : List String)
    (Js : List (List Nat)) (pre : List Nat)
    (hpre : ∀ I ∈ Js, ∀ u ∈ (assembleFrom 0 as).keep I, u ∉ pre)
    (hdisj : Js.Pairwise fun I J => ∀ u ∈ (assembleFrom 0 as).keep I, u ∉ (assembleFrom 0 as).keep J) :
    ∀ R ∈ (blocks as skip pre.length Js).rows, ∃ r ∈ (assemble as (List.range T) skip).rows,
      R = r.rename fun u => (pre ++ Js.flatMap fun I => (assembleFrom 0 as).keep I).idxOf u := by
  induction Js generalizing pre with
  | nil => intro R hR; simp [blocks] at hR
  | cons I Js ih =>
    intro R hR
    rw [blocks_cons] at hR
    obtain ⟨hd1, hd2⟩ := List.pairwise_cons.mp hdisj
    rcases List.mem_append.mp hR with h | h
    · obtain ⟨R0, hR0, rfl⟩ := List.mem_map.mp h
      obtain ⟨r, hr, hv, rfl⟩ := i_interval_rows_sub as T hB skip I R0 hR0
      refine ⟨r, hr, ?_⟩
      rw [rename_rename, List.flatMap_cons]
      apply rename_congr
      intro q hq
      exact (idx_in_block pre _ _ q.1 (hv q hq) (hpre I (by simp) q.1 (hv q hq))).symm
    · rw [i_interval_n as T hB skip I] at h
      have hlen : pre.length + ((assembleFrom 0 as).keep I).length = (pre ++ (assembleFrom 0 as).keep I).length := by
        simp
      rw [hlen] at h
      obtain ⟨r, hr, hR⟩ := ih (pre ++ (assembleFrom 0 as).keep I) (by
        intro J hJ u hu hmem
        rcases List.mem_append.mp hmem with h1 | h1
        · exact hpre J (by simp [hJ]) u hu h1
        · exact hd1 J hJ u h1 hu) hd2 R h
      refine ⟨r, hr, ?_⟩
      rw [hR, List.flatMap_cons, List.append_assoc]

/-- every row of the unsplit problem that belongs to one of the step lists occurs, renamed along the matching, in
    the block sum -/
theorem i_blocks_rows_sup (as : List AssetProblem) (T : Nat) (hB : ∀ a ∈ as, WB a T) (skip : List String)
    (Js : List (List Nat)) (pre : List Nat)
    (hpre : ∀ I ∈ Js, ∀ u ∈ (assembleFrom 0 as).keep I, u ∉ pre)
    (hdisj : Js.Pairwise fun I J => ∀ u ∈ (assembleFrom 0 as).keep I, u ∉ (assembleFrom 0 as).keep J)
    (I : List Nat) (hI : I ∈ Js) (r : Row) (hv : ∀ q ∈ r.coeffs, q.1 ∈ (assembleFrom 0 as).keep I)
    (hr : (r.rename fun u => ((assembleFrom 0 as).keep I).idxOf u) ∈ (intervalProblem as skip I).rows) :
    (r.rename fun u => (pre ++ Js.flatMap fun I => (assembleFrom 0 as).keep I).idxOf u)
      ∈ (blocks as skip pre.length Js).rows := by
  induction Js generalizing pre with
  | nil => simp at hI
  | cons I0 Js ih =>
    rw [blocks_cons]
    obtain ⟨hd1, hd2⟩ := List.pairwise_cons.mp hdisj
    rcases List.mem_cons.mp hI with rfl | hI'
    · apply List.mem_append_left
      refine List.mem_map.mpr ⟨_, hr, ?_⟩
      rw [rename_rename, List.flatMap_cons]
      apply rename_congr
      intro q hq
      exact (idx_in_block pre _ _ q.1 (hv q hq) (hpre I (by simp) q.1 (hv q hq))).symm
    · apply List.mem_append_right
      rw [i_interval_n as T hB skip I0]
      have hlen : pre.length + ((assembleFrom 0 as).keep I0).length = (pre ++ (assembleFrom 0 as).keep I0).length := by
        simp
      rw [hlen]
      have := ih (pre ++ (assembleFrom 0 as).keep I0) (by
        intro J hJ u hu hmem
        rcases List.mem_append.mp hmem with h1 | h1
        · exact hpre J (by simp [hJ]) u hu h1
        · exact hd1 J hJ u h1 hu) hd2 hI'
      rw [List.flatMap_cons, ← List.append_assoc]
      exact this

/-- a relation between the steps and flags of two mapping rows of the same variable goes over to the concatenation -/
theorem assembled_pair (R : Nat → Bool → Nat → Bool → Prop) (as : List AssetProblem) (T : Nat)
    (hB : ∀ a ∈ as, WB a T)
    (hR : ∀ a ∈ as, ∀ m ∈ a.mapping, ∀ m' ∈ a.mapping, m.var = m'.var → R m.step m.isBool m'.step m'.isBool)
    (off : Nat) :
    ∀ m ∈ (assembleFrom off as).mapping, ∀ m' ∈ (assembleFrom off as).mapping, m.var = m'.var →
      R m.step m.isBool m'.step m'.isBool := by
  induction as generalizing off with
  | nil => intro m hm; simp at hm
  | cons a rest ih =>
    have ha := hB a (by simp)
    have hB' : ∀ b ∈ rest, WB b T := fun b hb => hB b (by simp [hb])
    have hr := i_assembleFrom_gbanded rest T hB' (off + a.n)
    have ih' := ih hB' (fun b hb => hR b (by simp [hb])) (off + a.n)
    rw [assembleFrom_cons_mapping]
    intro m hm m' hm' hv
    rcases List.mem_append.mp hm with h | h <;> rcases List.mem_append.mp hm' with h' | h'
    · obtain ⟨m1, hm1, rfl⟩ := List.mem_map.mp h
      obtain ⟨m2, hm2, rfl⟩ := List.mem_map.mp h'
      have hv' : m1.var = m2.var := by
        have : off + m1.var = off + m2.var := hv
        omega
      exact hR a (by simp) m1 hm1 m2 hm2 hv'
    · obtain ⟨m1, hm1, rfl⟩ := List.mem_map.mp h
      have h1 := ha.map_var m1 hm1
      have h2 := hr.var_ge m' h'
      have : off + m1.var = m'.var := hv
      omega
    · obtain ⟨m2, hm2, rfl⟩ := List.mem_map.mp h'
      have h1 := ha.map_var m2 hm2
      have h2 := hr.var_ge m h
      have : m.var = off + m2.var := hv
      omega
    · exact ih' m h m' h' hv

theorem assembled_same_block (as : List AssetProblem) (T : Nat) (Is : List (List Nat))
    (hI : ∀ a ∈ as, IntervalBanded a T Is) (off : Nat) :
    ∀ m ∈ (assembleFrom off as).mapping, ∀ m' ∈ (assembleFrom off as).mapping, m.var = m'.var →
      ∀ I ∈ Is, m.step ∈ I → m'.step ∈ I :=
  assembled_pair (fun s _ s' _ => ∀ I ∈ Is, s ∈ I → s' ∈ I) as T (fun a ha => (hI a ha).wb)
    (fun a ha => (hI a ha).same_block) off

theorem assembled_bool_const (as : List AssetProblem) (T : Nat) (Is : List (List Nat))
    (hI : ∀ a ∈ as, IntervalBanded a T Is) (off : Nat) :
    ∀ m ∈ (assembleFrom off as).mapping, ∀ m' ∈ (assembleFrom off as).mapping, m.var = m'.var →
      m.isBool = m'.isBool :=
  assembled_pair (fun _ b _ b' => b = b') as T (fun a ha => (hI a ha).wb) (fun a ha => (hI a ha).bool_const) off

/-- disjoint step lists keep disjoint sets of variables -/
theorem i_keep_disjoint (as : List AssetProblem) (T : Nat) (Is : List (List Nat)) (hI : ∀ a ∈ as, IntervalBanded a T Is)
    (hd : Is.Pairwise fun I J => ∀ t ∈ I, t ∉ J) :
    Is.Pairwise fun I J => ∀ u ∈ (assembleFrom 0 as).keep I, u ∉ (assembleFrom 0 as).keep J := by
  apply List.Pairwise.imp_of_mem _ hd
  intro I J hIm _ hIJ u hu hu'
  obtain ⟨_, m, hm, hv, hs⟩ := (mem_pkeep _ _ _).mp hu
  obtain ⟨_, m', hm', hv', hs'⟩ := (mem_pkeep _ _ _).mp hu'
  have := (assembled_same_block as T Is hI 0) m hm m' hm' (hv.trans hv'.symm) I hIm hs
  exact hIJ m'.step this hs'

theorem i_splitPerm_isPerm (as : List AssetProblem) (T : Nat) (hB : ∀ a ∈ as, WB a T) (Is : List (List Nat))
    (hP : isPartition Is T = true)
    (hkd : Is.Pairwise fun I J => ∀ u ∈ (assembleFrom 0 as).keep I, u ∉ (assembleFrom 0 as).keep J) :
    isPermOf (Is.flatMap fun I => (assembleFrom 0 as).keep I) (assembleFrom 0 as).n = true := by
  obtain ⟨hcov, hd⟩ := isPartition_spec Is T hP
  have hG := i_assembleFrom_gbanded as T hB 0
  have hn : (assembleFrom 0 as).n = (as.map (·.n)).sum := assembleFrom_n 0 as
  have hnodup : (Is.flatMap fun I => (assembleFrom 0 as).keep I).Nodup := by
    rw [List.Nodup, List.pairwise_flatMap]
    refine ⟨fun I _ => pkeep_nodup _ I, ?_⟩
    apply List.Pairwise.imp _ hkd
    intro I J h x hx y hy hxy
    exact h x hx (hxy ▸ hy)
  have hlt : ∀ u ∈ (Is.flatMap fun I => (assembleFrom 0 as).keep I), u < (assembleFrom 0 as).n := by
    intro u hu
    obtain ⟨I, _, huI⟩ := List.mem_flatMap.mp hu
    exact ((mem_pkeep _ _ _).mp huI).1
  have hall : ∀ u, u < (assembleFrom 0 as).n → u ∈ (Is.flatMap fun I => (assembleFrom 0 as).keep I) := by
    intro u hu
    obtain ⟨m, hm, hv⟩ := hG.covered u (by omega) (by omega)
    obtain ⟨I, hI, ht⟩ := hcov m.step (hG.step_lt m hm)
    exact List.mem_flatMap.mpr ⟨I, hI, (mem_pkeep _ _ _).mpr ⟨hu, m, hm, hv, ht⟩⟩
  have hperm : (Is.flatMap fun I => (assembleFrom 0 as).keep I).Perm (List.range (assembleFrom 0 as).n) := by
    rw [List.perm_ext_iff_of_nodup hnodup List.nodup_range]
    intro u
    rw [List.mem_range]
    exact ⟨hlt u, hall u⟩
  unfold isPermOf
  simp only [Bool.and_eq_true, decide_eq_true_eq, List.all_eq_true]
  refine ⟨⟨⟨?_, hlt⟩, hnodup⟩, ?_⟩
  · rw [hperm.length_eq, List.length_range]
  · intro u hu
    exact List.contains_iff_mem.mpr (hall u (List.mem_range.mp hu))
theorem i_restrictTo_wf {a : AssetProblem} {T : Nat} (h : WB a T) (I : List Nat) :
    (a.restrictTo I).l.length = (a.restrictTo I).n ∧ (a.restrictTo I).u.length = (a.restrictTo I).n ∧
    (∀ m ∈ (a.restrictTo I).mapping, m.var < (a.restrictTo I).n) ∧
    (∀ r ∈ (a.restrictTo I).rows, ∀ q ∈ r.coeffs, q.1 < (a.restrictTo I).n) := by
  refine ⟨by rw [restrictTo_n]; simp [AssetProblem.restrictTo],
          by rw [restrictTo_n]; simp [AssetProblem.restrictTo], ?_, ?_⟩
  · intro m hm
    rw [restrictTo_n]
    simp only [AssetProblem.restrictTo, List.mem_map] at hm
    obtain ⟨m0, hm0, rfl⟩ := hm
    obtain ⟨h1, h2⟩ := List.mem_filter.mp hm0
    exact List.idxOf_lt_length_of_mem (i_banded_var_mem_keep h I m0 h1 (List.contains_iff_mem.mp h2))
  · intro r hr q hq
    rw [restrictTo_n]
    simp only [AssetProblem.restrictTo, List.mem_map] at hr
    obtain ⟨r0, hr0, rfl⟩ := hr
    obtain ⟨_, h2⟩ := List.mem_filter.mp hr0
    simp only [Row.rename, List.mem_map] at hq
    obtain ⟨q0, hq0, rfl⟩ := hq
    exact List.idxOf_lt_length_of_mem (List.contains_iff_mem.mp (List.all_eq_true.mp h2 q0 hq0))
theorem i_banded_wf {a : AssetProblem} {T : Nat} (h : WB a T) :
    a.l.length = a.n ∧ a.u.length = a.n ∧ (∀ m ∈ a.mapping, m.var < a.n) ∧
      (∀ r ∈ a.rows, ∀ q ∈ r.coeffs, q.1 < a.n) :=
  ⟨h.l_len, h.u_len, h.map_var, fun r hr => (h.rows_ok r hr).2⟩

theorem i_intervalProblem_wfIdx (as : List AssetProblem) (T : Nat) (hB : ∀ a ∈ as, WB a T) (skip : List String)
    (I : List Nat) : (intervalProblem as skip I).wfIdx = true := by
  apply assemble_wfIdx (as.map fun a => a.restrictTo I) (List.range I.length) skip
  intro a' ha'
  obtain ⟨a, ha, rfl⟩ := List.mem_map.mp ha'
  exact i_restrictTo_wf (hB a ha) I


/-! ### boolean variables through the mapping rows -/

theorem mem_boolVarsOf (M : List MapRow)
    (hc : ∀ m ∈ M, ∀ m' ∈ M, m.var = m'.var → m.isBool = m'.isBool) (j : Nat) :
    j ∈ boolVarsOf M ↔ ∃ m ∈ M, m.var = j ∧ m.isBool = true := by
  unfold boolVarsOf
  constructor
  · intro h
    obtain ⟨m, hm, rfl⟩ := List.mem_map.mp h
    obtain ⟨h1, h2⟩ := List.mem_filter.mp hm
    exact ⟨m, mem_firstRows M [] m h1, rfl, h2⟩
  · rintro ⟨m, hm, rfl, hb⟩
    obtain ⟨m', hm', hv⟩ := OrderBook.firstRows_complete M [] m hm (by simp)
    have hmem := OrderBook.firstRows_subset M [] m' hm'
    refine List.mem_map.mpr ⟨m', List.mem_filter.mpr ⟨hm', ?_⟩, hv⟩
    rw [hc m' hmem m hm hv]; exact hb

theorem blocks_cons_mapping (as : List AssetProblem) (skip : List String) (o : Nat) (I : List Nat)
    (Js : List (List Nat)) :
    (blocks as skip o (I :: Js)).mapping =
      (intervalProblem as skip I).mapping.map (MapRow.shift o) ++
        (blocks as skip (o + (intervalProblem as skip I).n) Js).mapping := rfl

theorem intervalProblem_mapping (as : List AssetProblem) (T : Nat) (hB : ∀ a ∈ as, WB a T) (skip : List String)
    (I : List Nat) :
    (intervalProblem as skip I).mapping =
      ((assembleFrom 0 as).mapping.filter fun m => I.contains m.step).map
        (renMap I fun u => ((assembleFrom 0 as).keep I).idxOf u) := by
  rw [← i_intervalMapping as T hB I]
  rfl

/-- every mapping row of the block sum is a mapping row of the unsplit problem, renamed along the matching -/
theorem blocks_map_sub (as : List AssetProblem) (T : Nat) (hB : ∀ a ∈ as, WB a T) (skip : List String)
    (Js : List (List Nat)) (pre : List Nat)
    (hpre : ∀ I ∈ Js, ∀ u ∈ (assembleFrom 0 as).keep I, u ∉ pre)
    (hdisj : Js.Pairwise fun I J => ∀ u ∈ (assembleFrom 0 as).keep I, u ∉ (assembleFrom 0 as).keep J) :
    ∀ m ∈ (blocks as skip pre.length Js).mapping, ∃ m0 ∈ (assembleFrom 0 as).mapping,
      m.var = (pre ++ Js.flatMap fun I => (assembleFrom 0 as).keep I).idxOf m0.var ∧ m.isBool = m0.isBool ∧
      m0.var ∈ (Js.flatMap fun I => (assembleFrom 0 as).keep I) := by
  induction Js generalizing pre with
  | nil => intro m hm; simp [blocks] at hm
  | cons I Js ih =>
    intro m hm
    rw [blocks_cons_mapping] at hm
    obtain ⟨hd1, hd2⟩ := List.pairwise_cons.mp hdisj
    rcases List.mem_append.mp hm with h | h
    · obtain ⟨m1, hm1, rfl⟩ := List.mem_map.mp h
      rw [intervalProblem_mapping as T hB skip I] at hm1
      obtain ⟨m0, hm0, rfl⟩ := List.mem_map.mp hm1
      obtain ⟨hm0M, hs⟩ := List.mem_filter.mp hm0
      have hk := i_disp_var_kept as T hB I m0 hm0M (List.contains_iff_mem.mp hs)
      refine ⟨m0, hm0M, ?_, rfl, ?_⟩
      · rw [List.flatMap_cons]
        exact (idx_in_block pre _ _ m0.var hk (hpre I (by simp) m0.var hk)).symm
      · rw [List.flatMap_cons]; exact List.mem_append_left _ hk
    · rw [i_interval_n as T hB skip I] at h
      have hlen : pre.length + ((assembleFrom 0 as).keep I).length = (pre ++ (assembleFrom 0 as).keep I).length := by
        simp
      rw [hlen] at h
      obtain ⟨m0, hm0, hv, hb, hmem⟩ := ih (pre ++ (assembleFrom 0 as).keep I) (by
        intro J hJ u hu hmem
        rcases List.mem_append.mp hmem with h1 | h1
        · exact hpre J (by simp [hJ]) u hu h1
        · exact hd1 J hJ u h1 hu) hd2 m h
      refine ⟨m0, hm0, ?_, hb, ?_⟩
      · rw [hv, List.flatMap_cons, List.append_assoc]
      · rw [List.flatMap_cons]; exact List.mem_append_right _ hmem

/-- every mapping row of the unsplit problem at a step of one of the lists occurs, renamed, in the block sum -/
theorem blocks_map_sup (as : List AssetProblem) (T : Nat) (hB : ∀ a ∈ as, WB a T) (skip : List String)
    (Js : List (List Nat)) (pre : List Nat)
    (hpre : ∀ I ∈ Js, ∀ u ∈ (assembleFrom 0 as).keep I, u ∉ pre)
    (hdisj : Js.Pairwise fun I J => ∀ u ∈ (assembleFrom 0 as).keep I, u ∉ (assembleFrom 0 as).keep J)
    (I : List Nat) (hI : I ∈ Js) (m0 : MapRow) (hm0 : m0 ∈ (assembleFrom 0 as).mapping) (hs : m0.step ∈ I) :
    ∃ m ∈ (blocks as skip pre.length Js).mapping,
      m.var = (pre ++ Js.flatMap fun I => (assembleFrom 0 as).keep I).idxOf m0.var ∧ m.isBool = m0.isBool := by
  induction Js generalizing pre with
  | nil => simp at hI
  | cons I0 Js ih =>
    rw [blocks_cons_mapping]
    obtain ⟨hd1, hd2⟩ := List.pairwise_cons.mp hdisj
    rcases List.mem_cons.mp hI with rfl | hI'
    · have hk := i_disp_var_kept as T hB I m0 hm0 hs
      refine ⟨(renMap I (fun u => ((assembleFrom 0 as).keep I).idxOf u) m0).shift pre.length,
        List.mem_append_left _ (List.mem_map_of_mem ?_), ?_, rfl⟩
      · rw [intervalProblem_mapping as T hB skip I]
        exact List.mem_map_of_mem (List.mem_filter.mpr ⟨hm0, List.contains_iff_mem.mpr hs⟩)
      · rw [List.flatMap_cons]
        exact (idx_in_block pre _ _ m0.var hk (hpre I (by simp) m0.var hk)).symm
    · rw [i_interval_n as T hB skip I0]
      have hlen : pre.length + ((assembleFrom 0 as).keep I0).length = (pre ++ (assembleFrom 0 as).keep I0).length := by
        simp
      rw [hlen]
      obtain ⟨m, hm, hv, hb⟩ := ih (pre ++ (assembleFrom 0 as).keep I0) (by
        intro J hJ u hu hmem
        rcases List.mem_append.mp hmem with h1 | h1
        · exact hpre J (by simp [hJ]) u hu h1
        · exact hd1 J hJ u h1 hu) hd2 hI'
      refine ⟨m, List.mem_append_right _ hm, ?_, hb⟩
      rw [hv, List.flatMap_cons, List.append_assoc]

theorem natsSubset_of_mem (as bs : List Nat) (h : ∀ j ∈ as, j ∈ bs) : natsSubset as bs = true := by
  unfold natsSubset
  rw [List.all_eq_true]
  intro j hj
  exact List.contains_iff_mem.mpr (h j hj)

/-- **the general theorem for interval-banded asset problems** -/
theorem witness_of_interval_banded (as : List AssetProblem) (T : Nat) (Is : List (List Nat)) (skip : List String)
    (hIB : ∀ a ∈ as, IntervalBanded a T Is) (hP : isPartition Is T = true) (hR : ∀ a ∈ as, RowsInside a Is) :
    splitWitness (assemble as (List.range T) skip) (Is.map (intervalProblem as skip))
      (splitPerm (assemble as (List.range T) skip) Is) = true := by
  have hB : ∀ a ∈ as, WB a T := fun a ha => (hIB a ha).wb
  obtain ⟨hcov, hd⟩ := isPartition_spec Is T hP
  have hkd := i_keep_disjoint as T Is hIB hd
  have hG := i_assembleFrom_gbanded as T hB 0
  rw [splitPerm_assemble]
  unfold splitWitness
  simp only [Bool.and_eq_true]
  refine ⟨⟨⟨?_, ?_⟩, ?_⟩, ?_⟩
  · exact assemble_wfIdx as _ skip (fun a ha => i_banded_wf (hB a ha))
  · rw [List.all_eq_true]
    intro P hP'
    obtain ⟨I, _, rfl⟩ := List.mem_map.mp hP'
    exact i_intervalProblem_wfIdx as T hB skip I
  · rw [assemble_n]
    exact i_splitPerm_isPerm as T hB Is hP hkd
  · rw [blockSum_eq_blocks]
    have hUc := assembled_bool_const as T Is hIB 0
    have hmapU : ((assemble as (List.range T) skip).renameAlong
        (Is.flatMap fun I => (assembleFrom 0 as).keep I)).mapping =
        (assembleFrom 0 as).mapping.map (MapRow.rename (invPerm (Is.flatMap fun I => (assembleFrom 0 as).keep I))) := by
      show (assemble as (List.range T) skip).mapping.map _ = _
      rw [assemble_mapping]
    have hmemP : ∀ m ∈ (assembleFrom 0 as).mapping, m.var ∈ (Is.flatMap fun I => (assembleFrom 0 as).keep I) := by
      intro m hm
      obtain ⟨I, hI, ht⟩ := hcov m.step (hG.step_lt m hm)
      exact List.mem_flatMap.mpr ⟨I, hI, i_disp_var_kept as T hB I m hm ht⟩
    have hAc : ∀ m ∈ ((assemble as (List.range T) skip).renameAlong
        (Is.flatMap fun I => (assembleFrom 0 as).keep I)).mapping, ∀ m' ∈ ((assemble as (List.range T) skip).renameAlong
        (Is.flatMap fun I => (assembleFrom 0 as).keep I)).mapping, m.var = m'.var → m.isBool = m'.isBool := by
      rw [hmapU]
      intro m hm m' hm' hv
      obtain ⟨m0, hm0, rfl⟩ := List.mem_map.mp hm
      obtain ⟨m1, hm1, rfl⟩ := List.mem_map.mp hm'
      exact hUc m0 hm0 m1 hm1 (idxOf_inj_of_mem _ _ _ (hmemP m0 hm0) hv)
    have hsub := blocks_map_sub as T hB skip Is [] (fun _ _ _ _ h => by simp at h) hkd
    have hBc : ∀ m ∈ (blocks as skip 0 Is).mapping, ∀ m' ∈ (blocks as skip 0 Is).mapping, m.var = m'.var →
        m.isBool = m'.isBool := by
      intro m hm m' hm' hv
      obtain ⟨m0, hm0, hv0, hb0, hk0⟩ := hsub m hm
      obtain ⟨m1, hm1, hv1, hb1, _⟩ := hsub m' hm'
      rw [List.nil_append] at hv0 hv1
      rw [hb0, hb1]
      exact hUc m0 hm0 m1 hm1 (idxOf_inj_of_mem _ _ _ hk0 (by rw [← hv0, ← hv1]; exact hv))
    have hb1 : natsSubset ((assemble as (List.range T) skip).renameAlong
        (Is.flatMap fun I => (assembleFrom 0 as).keep I)).boolVars (blocks as skip 0 Is).boolVars = true := by
      apply natsSubset_of_mem
      intro j hj
      rw [boolVars_eq, mem_boolVarsOf _ hAc] at hj
      obtain ⟨m, hm, rfl, hb⟩ := hj
      rw [hmapU] at hm
      obtain ⟨m0, hm0, rfl⟩ := List.mem_map.mp hm
      obtain ⟨I, hI, ht⟩ := hcov m0.step (hG.step_lt m0 hm0)
      obtain ⟨m', hm', hv', hb'⟩ := blocks_map_sup as T hB skip Is [] (fun _ _ _ _ h => by simp at h) hkd I hI m0 hm0 ht
      rw [List.nil_append] at hv'
      rw [boolVars_eq, mem_boolVarsOf _ hBc]
      exact ⟨m', hm', hv', by rw [hb']; exact hb⟩
    have hb2 : natsSubset (blocks as skip 0 Is).boolVars ((assemble as (List.range T) skip).renameAlong
        (Is.flatMap fun I => (assembleFrom 0 as).keep I)).boolVars = true := by
      apply natsSubset_of_mem
      intro j hj
      rw [boolVars_eq, mem_boolVarsOf _ hBc] at hj
      obtain ⟨m, hm, rfl, hb⟩ := hj
      obtain ⟨m0, hm0, hv0, hb0, _⟩ := hsub m hm
      rw [List.nil_append] at hv0
      rw [boolVars_eq, mem_boolVarsOf _ hAc, hmapU]
      exact ⟨_, List.mem_map_of_mem hm0, hv0.symm, by show m0.isBool = true; rw [← hb0]; exact hb⟩
    unfold sameProblem
    have hc : ((assemble as (List.range T) skip).renameAlong
        (Is.flatMap fun I => (assembleFrom 0 as).keep I)).c = (blocks as skip 0 Is).c := by
      rw [i_blocks_c as T hB skip 0 Is]; rfl
    simp only [Bool.and_eq_true, decide_eq_true_eq]
    refine ⟨⟨⟨⟨⟨⟨⟨?_, hc⟩, ?_⟩, ?_⟩, ?_⟩, ?_⟩, ?_⟩, ?_⟩
    · unfold Problem.n; rw [hc]
    · rw [i_blocks_l as T hB skip 0 Is]; rfl
    · rw [i_blocks_u as T hB skip 0 Is]; rfl
    · -- every unsplit row occurs among the interval rows
      apply rowsSubset_of_mem
      intro R hR'
      have hR'' : R ∈ (assemble as (List.range T) skip).rows.map
          (Row.rename (invPerm (Is.flatMap fun I => (assembleFrom 0 as).keep I))) := hR'
      obtain ⟨r, hr, rfl⟩ := List.mem_map.mp hR''
      rw [assemble_rows] at hr
      have key : ∀ I ∈ Is, (∀ q ∈ r.coeffs, q.1 ∈ (assembleFrom 0 as).keep I) →
          (r.rename fun u => ((assembleFrom 0 as).keep I).idxOf u) ∈ (intervalProblem as skip I).rows →
          r.rename (invPerm (Is.flatMap fun I => (assembleFrom 0 as).keep I)) ∈ (blocks as skip 0 Is).rows := by
        intro I hI hv hmem
        have h2 := i_blocks_rows_sup as T hB skip Is [] (fun _ _ _ _ h => by simp at h) hkd I hI r hv hmem
        rw [List.nil_append] at h2
        exact h2
      rcases List.mem_append.mp hr with h | h
      · obtain ⟨I, hI, hk⟩ := rows_cover Is as hR 0 r h
        have hv := (keptRows_sub I 0 as r hk).2
        rw [i_keptFrom_eq_pkeep as T hB I] at hv
        exact key I hI hv (i_interval_rows_sup_asset as T hB skip I r hk)
      · obtain ⟨⟨t, n⟩, hp, rfl⟩ := List.mem_map.mp h
        have ht : t < T := List.mem_range.mp ((mem_nodalPairs_iff _ _ _ _ t n).mp hp).2.2.1
        obtain ⟨I, hI, htI⟩ := hcov t ht
        obtain ⟨g1, g2⟩ := i_interval_rows_sup_nodal as T hB skip I t n hp htI
        exact key I hI g2 g1
    · -- every interval row is a row of the unsplit problem
      apply rowsSubset_of_mem
      intro R hR'
      obtain ⟨r, hr, hRr⟩ := i_blocks_rows_sub as T hB skip Is [] (fun _ _ _ _ h => by simp at h) hkd R hR'
      rw [List.nil_append] at hRr
      have : R = r.rename (invPerm (Is.flatMap fun I => (assembleFrom 0 as).keep I)) := hRr
      rw [this]
      exact List.mem_map_of_mem hr
    · exact hb1
    · exact hb2

theorem i_assemble_rows_ne (as : List AssetProblem) (T : Nat) (hB : ∀ a ∈ as, WB a T) (gridI : List Nat)
    (skip : List String) : ∀ r ∈ (assemble as gridI skip).rows, r.coeffs ≠ [] := by
  intro r hr
  rw [assemble_rows] at hr
  rcases List.mem_append.mp hr with h | h
  · obtain ⟨a, ha, r', hr', o, rfl⟩ := mem_assembleFrom_rows as 0 r h
    have := ((hB a ha).rows_ok r' hr').1
    simpa [Row.rename] using this
  · obtain ⟨⟨t, n⟩, hp, rfl⟩ := List.mem_map.mp h
    obtain ⟨_, _, _, hany⟩ := (mem_nodalPairs_iff _ _ _ _ t n).mp hp
    obtain ⟨m, hm, hd⟩ := List.any_eq_true.mp hany
    intro hnil
    have : (m.var, m.factor) ∈ (nodalRow (assembleFrom 0 as).mapping n t).coeffs := by
      unfold nodalRow
      exact List.mem_map_of_mem (List.mem_filter.mpr ⟨hm, hd⟩)
    rw [hnil] at this
    simp at this

theorem i_intervalProblem_rows_ne (as : List AssetProblem) (T : Nat) (hB : ∀ a ∈ as, WB a T) (skip : List String)
    (I : List Nat) : ∀ r ∈ (intervalProblem as skip I).rows, r.coeffs ≠ [] := by
  intro R hR
  obtain ⟨r, hr, _, rfl⟩ := i_interval_rows_sub as T hB skip I R hR
  have := i_assemble_rows_ne as T hB (List.range T) skip r hr
  simpa [Row.rename] using this

/-! ## Part 2: the order book and the five builders -/

/-- **the order book is interval-banded** when every order covers a step of the grid and none reaches across a cut
    (an order without a covered step is an inert variable: it is dropped before, `EAO.C14O.inert_vars_equiv`) -/
theorem orderBook_intervalBanded (name node : String) (orders : List Order) (fe : Bool) (g : Grid) (T : Nat)
    (Is : List (List Nat)) (hidx : g.idx = List.range g.T) (hT : g.T ≤ T)
    (hlive : ∀ o ∈ orders, coverPos g o ≠ [])
    (hin : ∀ o ∈ orders, ∀ I ∈ Is, orderInside g I o = true) :
    IntervalBanded (orderBookProblem name node orders fe g) T Is := by
  have hrow : ∀ m ∈ (orderBookProblem name node orders fe g).mapping,
      ∃ j o i, orders[j]? = some o ∧ i ∈ coverPos g o ∧ m = orderRow name node fe g j o i := by
    intro m hm
    obtain ⟨j, o, i, hj, hi, rfl⟩ := OrderBook.mem_orderMapFrom name node fe g orders 0 m hm
    exact ⟨j, o, i, hj, hi, by rw [Nat.zero_add]⟩
  have hlt : ∀ j (o : Order), orders[j]? = some o → j < orders.length := by
    intro j o ho
    rcases Nat.lt_or_ge j orders.length with h | h
    · exact h
    · rw [List.getElem?_eq_none h] at ho; cases ho
  refine ⟨⟨by simp [orderBookProblem, AssetProblem.n], by simp [orderBookProblem, AssetProblem.n], ?_, ?_, ?_, ?_⟩, ?_, ?_⟩
  · intro m hm
    obtain ⟨j, o, i, hj, _, rfl⟩ := hrow m hm
    simpa [orderBookProblem, AssetProblem.n, orderRow] using hlt j o hj
  · intro m hm
    obtain ⟨j, o, i, _, hi, rfl⟩ := hrow m hm
    have hiT := (OrderBook.mem_coverPos g o i hi).1
    show g.idx.getD i 0 < T
    rw [hidx, List.getD_eq_getElem?_getD, List.getElem?_range hiT]
    exact Nat.lt_of_lt_of_le hiT hT
  · intro v hv
    have hv' : v < orders.length := by simpa [orderBookProblem, AssetProblem.n] using hv
    have ho : orders[v]? = some orders[v] := List.getElem?_eq_getElem hv'
    obtain ⟨i, rest, hc⟩ := List.exists_cons_of_ne_nil (hlive _ (List.getElem_mem hv'))
    refine ⟨orderRow name node fe g (0 + v) orders[v] i,
      OrderBook.orderRow_mem_orderMapFrom name node fe g orders 0 v _ i ho (by rw [hc]; simp), ?_⟩
    simp [orderRow]
  · intro r hr
    simp [orderBookProblem] at hr
  · intro m hm m' hm' hv I hI hs
    obtain ⟨j, o, i, hj, hi, rfl⟩ := hrow m hm
    obtain ⟨j', o', i', hj', hi', rfl⟩ := hrow m' hm'
    have hjj : j = j' := hv
    subst hjj
    have hoo : o = o' := by rw [hj] at hj'; exact Option.some.inj hj'
    subst hoo
    have hs' : g.idx.getD i 0 ∈ I := hs
    show g.idx.getD i' 0 ∈ I
    rcases ObSplit.orderInside_spec g I o (hin o (List.mem_of_getElem? hj) I hI) with h | h
    · exact h i' hi'
    · exact absurd hs' (h i hi)
  · intro m hm m' hm' _
    obtain ⟨j, o, i, _, _, rfl⟩ := hrow m hm
    obtain ⟨j', o', i', _, _, rfl⟩ := hrow m' hm'
    rfl

theorem orderBook_rowsInside (name node : String) (orders : List Order) (fe : Bool) (g : Grid) (Is : List (List Nat)) :
    RowsInside (orderBookProblem name node orders fe g) Is := by
  intro r hr
  simp [orderBookProblem] at hr

/-! ### portfolios of the five builders plus order books -/

/-- the specs of the contracts and transports of a portfolio with order books -/
def assetSpecs : List OSpec → List AssetSpec
  | [] => []
  | .asset a :: rest => a :: assetSpecs rest
  | .book _ _ _ _ _ :: rest => assetSpecs rest

theorem mem_assetSpecs (specs : List OSpec) (a : AssetSpec) (h : OSpec.asset a ∈ specs) : a ∈ assetSpecs specs := by
  induction specs with
  | nil => simp at h
  | cons s rest ih =>
    rcases List.mem_cons.mp h with rfl | h'
    · simp [assetSpecs]
    · cases s with
      | asset b => simp [assetSpecs, ih h']
      | book _ _ _ _ _ => simpa [assetSpecs] using ih h'

/-- every order of every book covers a step of the grid (no order is an inert variable of the UNSPLIT problem) -/
def ordersLiveAll (specs : List OSpec) (ref : Grid) : Bool :=
  specs.all fun s => match s with
    | .asset _ => true
    | .book _ _ orders _ _ => orders.all fun o => !(coverPos ref o).isEmpty

/-- **the decidable hypotheses**: `splitHyps` for the contracts and transports, every order inside one interval
    (`ordersInsideAll`) and covering a step (`ordersLiveAll`) -/
def obHyps (specs : List OSpec) (ref : Grid) (cuts : List Int) (prices : Prices) : Bool :=
  splitHyps (assetSpecs specs) ref cuts prices && ordersInsideAll specs ref cuts && ordersLiveAll specs ref

/-- the unsplit asset problems of a portfolio with order books -/
def buildAllOB (specs : List OSpec) (grid : Grid) (prices : Prices) (unitSec : Nat) : Except BuildError (List AssetProblem) :=
  specs.mapM fun s => buildOSpec s grid prices unitSec

theorem setupPortfolioOB_ok {specs : List OSpec} {grid : Grid} {prices : Prices} {u : Nat} {skip : List String}
    {U : Problem} (h : setupPortfolioOB specs grid prices u skip = .ok U) :
    ∃ as, buildAllOB specs grid prices u = .ok as ∧ U = assemble as grid.idx skip := by
  unfold setupPortfolioOB at h
  unfold buildAllOB
  simp only [bind, Except.bind, pure, Except.pure] at h
  cases has : specs.mapM (fun s => buildOSpec s grid prices u) with
  | error e => simp [has] at h
  | ok as =>
    simp only [has] at h
    injection h with h
    exact ⟨as, rfl, h.symm⟩

/-- every asset problem of such a portfolio is interval-banded and has no row across a cut -/
theorem buildOSpec_intervalBanded (specs : List OSpec) (ref : Grid) (cuts : List Int) (prices : Prices) (u : Nat)
    (hH : obHyps specs ref cuts prices = true) (s : OSpec) (hs : s ∈ specs) (A : AssetProblem)
    (hA : buildOSpec s ref prices u = .ok A) :
    IntervalBanded A ref.T ((splitPairs cuts).map (intervalSteps ref)) ∧
      RowsInside A ((splitPairs cuts).map (intervalSteps ref)) := by
  unfold obHyps at hH
  simp only [Bool.and_eq_true] at hH
  obtain ⟨⟨hS, hIn⟩, hLive⟩ := hH
  obtain ⟨hidx, hdt, hdf, _, hpart, hst⟩ := splitHyps_spec _ ref cuts prices hS
  obtain ⟨hcov, _⟩ := isPartition_spec _ _ hpart
  cases s with
  | asset a =>
    have ha := mem_assetSpecs specs a hs
    have hA' : buildSpec a ref prices u = .ok A := hA
    exact ⟨intervalBanded_of_banded (buildSpec_banded a ref prices u A hidx hdt (hdf a ha) hA') _,
      buildSpec_rowsInside a ref prices u A _ hidx hdt (hdf a ha) hcov (fun I hI => hst a ha I hI) hA'⟩
  | book name node orders fe df =>
    have hA' : Except.ok (orderBookProblem name node orders fe { ref with df := df }) = Except.ok A := hA
    injection hA' with hA'
    subst hA'
    have h1 := List.all_eq_true.mp hIn _ hs
    have h2 := List.all_eq_true.mp hLive _ hs
    simp only [List.all_eq_true] at h1 h2
    refine ⟨orderBook_intervalBanded name node orders fe _ ref.T _ hidx (Nat.le_refl _) ?_ ?_,
      orderBook_rowsInside name node orders fe _ _⟩
    · intro o ho hnil
      have := h2 o ho
      have hc : coverPos ref o = [] := hnil
      simp [hc] at this
    · intro o ho I hI
      exact h1 o ho I hI

/-! ## Part 3: dropping the inert variables of an assembled problem -/

/-- the variables of an asset problem that have a mapping row, in the asset's order -/
def mappedVars (b : AssetProblem) : List Nat :=
  (List.range b.n).filter fun v => b.mapping.any fun m => m.var == v

/-- **the asset problem without its unmapped variables** -/
def livePart (b : AssetProblem) : AssetProblem := b.subVars (mappedVars b)

theorem mem_mappedVars (b : AssetProblem) (v : Nat) :
    v ∈ mappedVars b ↔ v < b.n ∧ ∃ m ∈ b.mapping, m.var = v := by
  simp [mappedVars, List.mem_filter, List.any_eq_true]

@[simp] theorem livePart_n (b : AssetProblem) : (livePart b).n = (mappedVars b).length := by
  simp [livePart, AssetProblem.subVars, AssetProblem.n]

/-- an asset problem whose unmapped variables are inert: bounds per variable, mapping rows over its variables, rows only
    over MAPPED variables, an unmapped variable has zero cost and a non-empty box -/
structure InertOK (b : AssetProblem) : Prop where
  l_len   : b.l.length = b.n
  u_len   : b.u.length = b.n
  map_var : ∀ m ∈ b.mapping, m.var < b.n
  rows_ok : ∀ r ∈ b.rows, ∀ q ∈ r.coeffs, q.1 ∈ mappedVars b
  cost    : ∀ v, v < b.n → v ∉ mappedVars b → b.c.getD v 0 = 0
  box     : ∀ v, v < b.n → v ∉ mappedVars b → b.l.getD v 0 ≤ b.u.getD v 0

/-- mapped variables of the assets, as variables of the concatenation from offset `off` -/
def liveFrom : Nat → List AssetProblem → List Nat
  | _, [] => []
  | off, b :: rest => (mappedVars b).map (off + ·) ++ liveFrom (off + b.n) rest

theorem liveFrom_cons (off : Nat) (b : AssetProblem) (rest : List AssetProblem) :
    liveFrom off (b :: rest) = (mappedVars b).map (off + ·) ++ liveFrom (off + b.n) rest := rfl

theorem liveFrom_ge (off : Nat) (bs : List AssetProblem) : ∀ u ∈ liveFrom off bs, off ≤ u := by
  induction bs generalizing off with
  | nil => intro u hu; simp [liveFrom] at hu
  | cons b rest ih =>
    intro u hu
    rw [liveFrom_cons] at hu
    rcases List.mem_append.mp hu with h | h
    · obtain ⟨v, _, rfl⟩ := List.mem_map.mp h; omega
    · have := ih (off + b.n) u h; omega

theorem liveFrom_shift (off : Nat) (bs : List AssetProblem) :
    liveFrom off bs = (liveFrom 0 bs).map (off + ·) := by
  induction bs generalizing off with
  | nil => simp [liveFrom]
  | cons b rest ih =>
    simp only [liveFrom, List.map_append, List.map_map, Nat.zero_add]
    rw [ih (off + b.n), ih b.n]
    simp only [List.map_map]
    congr 1
    apply List.map_congr_left; intro v _; simp; omega

theorem af_var_ge (bs : List AssetProblem) (off : Nat) : ∀ m ∈ (assembleFrom off bs).mapping, off ≤ m.var := by
  induction bs generalizing off with
  | nil => intro m hm; simp at hm
  | cons b rest ih =>
    intro m hm
    rw [assembleFrom_cons_mapping] at hm
    rcases List.mem_append.mp hm with h | h
    · obtain ⟨m', _, rfl⟩ := List.mem_map.mp h
      show off ≤ off + m'.var; omega
    · have := ih (off + b.n) m h; omega

theorem af_rows_ge (bs : List AssetProblem) (off : Nat) :
    ∀ r ∈ (assembleFrom off bs).rows, ∀ q ∈ r.coeffs, off ≤ q.1 := by
  induction bs generalizing off with
  | nil => intro r hr; simp at hr
  | cons b rest ih =>
    intro r hr q hq
    rw [assembleFrom_cons_rows] at hr
    rcases List.mem_append.mp hr with h | h
    · obtain ⟨r', _, rfl⟩ := List.mem_map.mp h
      simp only [Row.rename, List.mem_map] at hq
      obtain ⟨q', _, rfl⟩ := hq
      show off ≤ off + q'.1; omega
    · have := ih (off + b.n) r h q hq; omega

/-- the mapped variables of the assets, concatenated, are the mapped variables of the concatenation -/
theorem liveFrom_eq_filter (bs : List AssetProblem) (hB : ∀ b ∈ bs, ∀ m ∈ b.mapping, m.var < b.n) (off : Nat) :
    liveFrom off bs =
      ((List.range ((bs.map (·.n)).sum)).filter fun j =>
        (assembleFrom off bs).mapping.any fun m => m.var == off + j).map (off + ·) := by
  induction bs generalizing off with
  | nil => simp [liveFrom]
  | cons b rest ih =>
    have hb := hB b (by simp)
    have hB' : ∀ c ∈ rest, ∀ m ∈ c.mapping, m.var < c.n := fun c hc => hB c (by simp [hc])
    have hr := af_var_ge rest (off + b.n)
    simp only [liveFrom, List.map_cons, List.sum_cons]
    rw [List.range_add, List.filter_append, List.map_append, ih hB' (off + b.n), assembleFrom_cons_mapping]
    congr 1
    · unfold mappedVars
      congr 1
      apply List.filter_congr
      intro j hj
      have hj' : j < b.n := List.mem_range.mp hj
      rw [Bool.eq_iff_iff, List.any_eq_true, List.any_eq_true]
      constructor
      · rintro ⟨m, hm, hv⟩
        refine ⟨m.shift off, List.mem_append_left _ (List.mem_map_of_mem hm), ?_⟩
        have : m.var = j := by simpa using hv
        simp [MapRow.shift, this]
      · rintro ⟨m, hm, hv⟩
        have hv' : m.var = off + j := by simpa using hv
        rcases List.mem_append.mp hm with h | h
        · obtain ⟨m', hm', rfl⟩ := List.mem_map.mp h
          refine ⟨m', hm', ?_⟩
          have : off + m'.var = off + j := hv'
          simp; omega
        · have := hr m h; omega
    · rw [List.filter_map, List.map_map]
      have e : (fun x => off + x) ∘ (fun x => b.n + x) = fun x => off + b.n + x := by
        funext x; simp; omega
      rw [e]
      congr 1
      apply List.filter_congr
      intro j _
      simp only [Function.comp]
      rw [Bool.eq_iff_iff, List.any_eq_true, List.any_eq_true]
      constructor
      · rintro ⟨m, hm, hv⟩
        have hv' : m.var = off + b.n + j := by simpa using hv
        exact ⟨m, List.mem_append_right _ hm, by simp; omega⟩
      · rintro ⟨m, hm, hv⟩
        have hv' : m.var = off + (b.n + j) := by simpa using hv
        rcases List.mem_append.mp hm with h | h
        · obtain ⟨m', hm', rfl⟩ := List.mem_map.mp h
          have := hb m' hm'
          have : off + m'.var = off + (b.n + j) := hv'
          omega
        · exact ⟨m, h, by simp; omega⟩

/-- an unmapped variable of the concatenation has zero cost and a non-empty box -/
theorem af_unmapped (bs : List AssetProblem) (hB : ∀ b ∈ bs, InertOK b) (off : Nat) (j : Nat)
    (hj : j < (bs.map (·.n)).sum) (hu : ∀ m ∈ (assembleFrom off bs).mapping, m.var ≠ off + j) :
    (assembleFrom off bs).c.getD j 0 = 0 ∧ (assembleFrom off bs).l.getD j 0 ≤ (assembleFrom off bs).u.getD j 0 := by
  induction bs generalizing off j with
  | nil => simp at hj
  | cons b rest ih =>
    have hb := hB b (by simp)
    rw [assembleFrom_cons_c, assembleFrom_cons_l, assembleFrom_cons_u]
    rw [assembleFrom_cons_mapping] at hu
    simp only [List.map_cons, List.sum_cons] at hj
    by_cases hlt : j < b.n
    · have hnm : j ∉ mappedVars b := by
        intro hm
        obtain ⟨_, m, hm', hv⟩ := (mem_mappedVars b j).mp hm
        exact hu (m.shift off) (List.mem_append_left _ (List.mem_map_of_mem hm')) (by simp [MapRow.shift, hv])
      have h1 : j < b.c.length := hlt
      have h2 : j < b.l.length := by rw [hb.l_len]; exact hlt
      have h3 : j < b.u.length := by rw [hb.u_len]; exact hlt
      have e1 : (b.c ++ (assembleFrom (off + b.n) rest).c).getD j 0 = b.c.getD j 0 := by
        simp [List.getD_eq_getElem?_getD, List.getElem?_append_left h1]
      have e2 : (b.l ++ (assembleFrom (off + b.n) rest).l).getD j 0 = b.l.getD j 0 := by
        simp [List.getD_eq_getElem?_getD, List.getElem?_append_left h2]
      have e3 : (b.u ++ (assembleFrom (off + b.n) rest).u).getD j 0 = b.u.getD j 0 := by
        simp [List.getD_eq_getElem?_getD, List.getElem?_append_left h3]
      rw [e1, e2, e3]
      exact ⟨hb.cost j hlt hnm, hb.box j hlt hnm⟩
    · have hge : b.n ≤ j := Nat.le_of_not_lt hlt
      obtain ⟨g1, g2⟩ := ih (fun c hc => hB c (by simp [hc])) (off + b.n) (j - b.n) (by omega)
        (fun m hm hv => hu m (List.mem_append_right _ hm) (by omega))
      have h1 : b.c.length ≤ j := hge
      have h2 : b.l.length ≤ j := by rw [hb.l_len]; exact hge
      have h3 : b.u.length ≤ j := by rw [hb.u_len]; exact hge
      have e1 : (b.c ++ (assembleFrom (off + b.n) rest).c).getD j 0 =
          (assembleFrom (off + b.n) rest).c.getD (j - b.n) 0 := by
        simp [List.getD_eq_getElem?_getD, List.getElem?_append_right h1, AssetProblem.n]
      have e2 : (b.l ++ (assembleFrom (off + b.n) rest).l).getD j 0 =
          (assembleFrom (off + b.n) rest).l.getD (j - b.n) 0 := by
        simp [List.getD_eq_getElem?_getD, List.getElem?_append_right h2, hb.l_len]
      have e3 : (b.u ++ (assembleFrom (off + b.n) rest).u).getD j 0 =
          (assembleFrom (off + b.n) rest).u.getD (j - b.n) 0 := by
        simp [List.getD_eq_getElem?_getD, List.getElem?_append_right h3, hb.u_len]
      rw [e1, e2, e3]
      exact ⟨g1, g2⟩

/-- every variable of a row of the concatenation has a mapping row -/
theorem af_rows_mapped (bs : List AssetProblem) (hB : ∀ b ∈ bs, InertOK b) (off : Nat) :
    ∀ r ∈ (assembleFrom off bs).rows, ∀ q ∈ r.coeffs, ∃ m ∈ (assembleFrom off bs).mapping, m.var = q.1 := by
  induction bs generalizing off with
  | nil => intro r hr; simp at hr
  | cons b rest ih =>
    intro r hr q hq
    rw [assembleFrom_cons_rows] at hr
    rw [assembleFrom_cons_mapping]
    rcases List.mem_append.mp hr with h | h
    · obtain ⟨r', hr', rfl⟩ := List.mem_map.mp h
      simp only [Row.rename, List.mem_map] at hq
      obtain ⟨q', hq', rfl⟩ := hq
      obtain ⟨_, m, hm, hv⟩ := (mem_mappedVars b q'.1).mp ((hB b (by simp)).rows_ok r' hr' q' hq')
      exact ⟨m.shift off, List.mem_append_left _ (List.mem_map_of_mem hm), by simp [MapRow.shift, hv]⟩
    · obtain ⟨m, hm, hv⟩ := ih (fun c hc => hB c (by simp [hc])) (off + b.n) r h q hq
      exact ⟨m, List.mem_append_right _ hm, hv⟩

/-- **the live variables of an assembled problem are the mapped variables of its assets** -/
theorem assemble_live (bs : List AssetProblem) (hB : ∀ b ∈ bs, InertOK b) (gridI : List Nat) (skip : List String) :
    (assemble bs gridI skip).live = liveFrom 0 bs := by
  rw [liveFrom_eq_filter bs (fun b hb => (hB b hb).map_var) 0]
  unfold Problem.live
  rw [assemble_n, assembleFrom_n]
  simp only [Nat.zero_add]
  have hid : (fun x : Nat => x) = id := rfl
  rw [hid, List.map_id]
  apply List.filter_congr
  intro v hv
  have hv' : v < (bs.map (·.n)).sum := List.mem_range.mp hv
  cases hM : (assembleFrom 0 bs).mapping.any (fun m => m.var == v) with
  | true =>
    simp [Problem.inertVar, hM]
  | false =>
    have hu : ∀ m ∈ (assembleFrom 0 bs).mapping, m.var ≠ 0 + v := by
      intro m hm hv2
      have : (assembleFrom 0 bs).mapping.any (fun m => m.var == v) = true :=
        List.any_eq_true.mpr ⟨m, hm, by simp at hv2; simp [hv2]⟩
      rw [hM] at this; cases this
    obtain ⟨g1, g2⟩ := af_unmapped bs hB 0 v hv' hu
    have hR : ((assemble bs gridI skip).rows.any fun r => r.coeffs.any fun q => q.1 == v) = false := by
      rw [Bool.eq_false_iff]
      intro h
      obtain ⟨r, hr, hq⟩ := List.any_eq_true.mp h
      obtain ⟨q, hq, hqv⟩ := List.any_eq_true.mp hq
      have hqv' : q.1 = v := by simpa using hqv
      rw [assemble_rows] at hr
      rcases List.mem_append.mp hr with h1 | h1
      · obtain ⟨m, hm, hmv⟩ := af_rows_mapped bs hB 0 r h1 q hq
        exact hu m hm (by omega)
      · obtain ⟨⟨t, n⟩, _, rfl⟩ := List.mem_map.mp h1
        obtain ⟨m1, hm1, _, rfl⟩ := mem_nodalRow_coeffs _ _ _ _ hq
        exact hu m1 hm1 (by simpa using hqv')
    simp only [List.getD_eq_getElem?_getD] at g1 g2
    simp [Problem.inertVar, hR]
    exact ⟨⟨g1, g2⟩, fun m hm hv2 => hu m hm (by omega)⟩

/-! ### the fields of the renamed problem -/

theorem live_flat (f : AssetProblem → List Rat) (bs : List AssetProblem) (hf : ∀ b ∈ bs, (f b).length = b.n) :
    (liveFrom 0 bs).map (fun u => (bs.flatMap f).getD u 0) =
      bs.flatMap fun b => (mappedVars b).map fun v => (f b).getD v 0 := by
  induction bs with
  | nil => simp [liveFrom]
  | cons b rest ih =>
    have hb := hf b (by simp)
    simp only [liveFrom, List.flatMap_cons, List.map_append, List.map_map, Nat.zero_add]
    congr 1
    · apply List.map_congr_left
      intro v hv
      have hv' : v < (f b).length := by rw [hb]; exact ((mem_mappedVars b v).mp hv).1
      simp [List.getD_eq_getElem?_getD, List.getElem?_append_left hv']
    · rw [liveFrom_shift, ← ih (fun c hc => hf c (by simp [hc])), List.map_map]
      apply List.map_congr_left
      intro u _
      simp only [Function.comp]
      rw [← hb]
      simp [List.getD_eq_getElem?_getD, List.getElem?_append_right]

theorem live_c (bs : List AssetProblem) (off : Nat) :
    (assembleFrom off (bs.map livePart)).c = (liveFrom 0 bs).map fun u => (assembleFrom 0 bs).c.getD u 0 := by
  rw [flat_c, flat_c, live_flat (·.c) bs (fun b _ => rfl), List.flatMap_map]
  rfl

theorem live_l (bs : List AssetProblem) (off : Nat) (h : ∀ b ∈ bs, b.l.length = b.n) :
    (assembleFrom off (bs.map livePart)).l = (liveFrom 0 bs).map fun u => (assembleFrom 0 bs).l.getD u 0 := by
  rw [flat_l, flat_l, live_flat (·.l) bs h, List.flatMap_map]
  rfl

theorem live_u (bs : List AssetProblem) (off : Nat) (h : ∀ b ∈ bs, b.u.length = b.n) :
    (assembleFrom off (bs.map livePart)).u = (liveFrom 0 bs).map fun u => (assembleFrom 0 bs).u.getD u 0 := by
  rw [flat_u, flat_u, live_flat (·.u) bs h, List.flatMap_map]
  rfl

theorem idxOf_liveFrom_head (off : Nat) (b : AssetProblem) (rest : List AssetProblem) (v : Nat)
    (hv : v ∈ mappedVars b) : (liveFrom off (b :: rest)).idxOf (off + v) = (mappedVars b).idxOf v := by
  rw [liveFrom_cons, idxOf_append_left _ _ _ (List.mem_map_of_mem hv)]
  exact idxOf_map_inj (off + ·) (fun x y h => by omega) _ v

theorem idxOf_liveFrom_tail (off : Nat) (b : AssetProblem) (rest : List AssetProblem) (u : Nat)
    (hu : off + b.n ≤ u) :
    (liveFrom off (b :: rest)).idxOf u = (livePart b).n + (liveFrom (off + b.n) rest).idxOf u := by
  rw [liveFrom_cons, idxOf_append_right]
  · simp
  · intro h
    obtain ⟨v, hv, rfl⟩ := List.mem_map.mp h
    have := ((mem_mappedVars b v).mp hv).1
    omega

theorem live_mapping (bs : List AssetProblem) (hB : ∀ b ∈ bs, ∀ m ∈ b.mapping, m.var < b.n) (off off' : Nat) :
    (assembleFrom off' (bs.map livePart)).mapping =
      (assembleFrom off bs).mapping.map (MapRow.rename fun u => off' + (liveFrom off bs).idxOf u) := by
  induction bs generalizing off off' with
  | nil => simp
  | cons b rest ih =>
    have hb := hB b (by simp)
    have hB' : ∀ c ∈ rest, ∀ m ∈ c.mapping, m.var < c.n := fun c hc => hB c (by simp [hc])
    rw [List.map_cons, assembleFrom_cons_mapping, assembleFrom_cons_mapping, List.map_append]
    congr 1
    · show (b.mapping.map _).map _ = _
      rw [List.map_map, List.map_map]
      apply List.map_congr_left
      intro m hm
      have hv : m.var ∈ mappedVars b := (mem_mappedVars b m.var).mpr ⟨hb m hm, m, hm, rfl⟩
      simp only [Function.comp, MapRow.rename, MapRow.shift]
      rw [idxOf_liveFrom_head off b rest m.var hv]
    · rw [ih hB' (off + b.n) (off' + (livePart b).n)]
      apply List.map_congr_left
      intro m hm
      have hge := af_var_ge rest (off + b.n) m hm
      simp only [MapRow.rename]
      rw [idxOf_liveFrom_tail off b rest m.var hge]
      congr 1
      omega

theorem live_rows (bs : List AssetProblem) (hB : ∀ b ∈ bs, ∀ r ∈ b.rows, ∀ q ∈ r.coeffs, q.1 ∈ mappedVars b)
    (off off' : Nat) :
    (assembleFrom off' (bs.map livePart)).rows =
      (assembleFrom off bs).rows.map (Row.rename fun u => off' + (liveFrom off bs).idxOf u) := by
  induction bs generalizing off off' with
  | nil => simp
  | cons b rest ih =>
    have hb := hB b (by simp)
    rw [List.map_cons, assembleFrom_cons_rows, assembleFrom_cons_rows, List.map_append]
    congr 1
    · show (b.rows.map _).map _ = _
      rw [List.map_map, List.map_map]
      apply List.map_congr_left
      intro r hr
      simp only [Function.comp, rename_rename]
      apply rename_congr
      intro q hq
      rw [idxOf_liveFrom_head off b rest q.1 (hb r hr q hq)]
    · rw [ih (fun c hc => hB c (by simp [hc])) (off + b.n) (off' + (livePart b).n)]
      apply List.map_congr_left
      intro r hr
      apply rename_congr
      intro q hq
      have hge : off + b.n ≤ q.1 := af_rows_ge rest (off + b.n) r hr q hq
      rw [idxOf_liveFrom_tail off b rest q.1 hge]
      omega

theorem nodalPairs_rename (M : List MapRow) (τ : Nat → Nat) (nodes skip : List String) (gridI : List Nat) :
    nodalPairs (M.map (MapRow.rename τ)) nodes skip gridI = nodalPairs M nodes skip gridI := by
  unfold nodalPairs
  have e : ∀ n t, (M.map (MapRow.rename τ)).any (isDisp n t) = M.any (isDisp n t) := by
    intro n t
    rw [List.any_map]
    rfl
  simp only [e]

theorem nodalRow_rename (M : List MapRow) (τ : Nat → Nat) (n : String) (t : Nat) :
    nodalRow (M.map (MapRow.rename τ)) n t = (nodalRow M n t).rename τ := by
  unfold nodalRow Row.rename
  simp only [List.filter_map, List.map_map]
  rfl

theorem portfolioNodes_livePart (bs : List AssetProblem) : portfolioNodes (bs.map livePart) = portfolioNodes bs := by
  unfold portfolioNodes
  rw [List.flatMap_map]
  rfl

/-- **Dropping the inert variables of an assembled problem = assembling the asset problems without their unmapped
    variables** (equality of problems: cost, bounds, rows in order, mapping, nodal record) -/
theorem assemble_dropInert (bs : List AssetProblem) (hB : ∀ b ∈ bs, InertOK b) (gridI : List Nat)
    (skip : List String) :
    (assemble bs gridI skip).dropInert = assemble (bs.map livePart) gridI skip := by
  have hmap := live_mapping bs (fun b hb => (hB b hb).map_var) 0 0
  have hrows := live_rows bs (fun b hb => (hB b hb).rows_ok) 0 0
  simp only [Nat.zero_add] at hmap hrows
  unfold Problem.dropInert
  rw [assemble_live bs hB gridI skip]
  unfold Problem.renameAlong assemble
  simp only [portfolioNodes_livePart]
  rw [hmap, nodalPairs_rename]
  show Problem.mk _ _ _ _ _ _ = Problem.mk _ _ _ _ _ _
  congr 1
  · exact (live_c bs 0).symm
  · exact (live_l bs 0 (fun b hb => (hB b hb).l_len)).symm
  · exact (live_u bs 0 (fun b hb => (hB b hb).u_len)).symm
  · rw [List.map_append, hrows, List.map_map]
    congr 1
    apply List.map_congr_left
    intro p _
    simp only [Function.comp]
    exact (nodalRow_rename _ _ _ _).symm

theorem relabelNodal_dropInert (I : List Nat) (P : Problem) :
    (relabelNodal I P).dropInert = relabelNodal I P.dropInert := rfl

/-! ## Part 4: the literal split set-up with order books -/

theorem map_getD_range (l : List Rat) : (List.range l.length).map (fun i => l.getD i 0) = l := by
  apply List.ext_getElem
  · simp
  · intro j h1 h2
    simp [List.getD_eq_getElem?_getD, h2]

theorem idxOf_range (n v : Nat) (hv : v < n) : (List.range n).idxOf v = v := by
  have := List.Nodup.idxOf_getElem (List.nodup_range (n := n)) v (by simpa using hv)
  simpa using this

/-- an asset problem all of whose variables are mapped is its own live part -/
theorem livePart_of_covered (b : AssetProblem) (hl : b.l.length = b.n) (hu : b.u.length = b.n)
    (hm : ∀ m ∈ b.mapping, m.var < b.n) (hr : ∀ r ∈ b.rows, ∀ q ∈ r.coeffs, q.1 < b.n)
    (hcov : ∀ v, v < b.n → ∃ m ∈ b.mapping, m.var = v) : InertOK b ∧ livePart b = b := by
  have hall : ∀ v, v < b.n → v ∈ mappedVars b := fun v hv => (mem_mappedVars b v).mpr ⟨hv, hcov v hv⟩
  have hmv : mappedVars b = List.range b.n := by
    unfold mappedVars
    rw [List.filter_eq_self]
    intro v hv
    obtain ⟨m, hm', hv'⟩ := hcov v (List.mem_range.mp hv)
    exact List.any_eq_true.mpr ⟨m, hm', by simp [hv']⟩
  refine ⟨⟨hl, hu, hm, fun r hr' q hq => hall _ (hr r hr' q hq), fun v hv hn => absurd (hall v hv) hn,
    fun v hv hn => absurd (hall v hv) hn⟩, ?_⟩
  unfold livePart
  rw [hmv]
  rcases b with ⟨name, nodes, c, l, u, rows, mapping⟩
  simp only [AssetProblem.n] at hl hu hm hr
  simp only [AssetProblem.subVars, AssetProblem.n, AssetProblem.mk.injEq, true_and]
  refine ⟨map_getD_range c, ?_, ?_, ?_, ?_⟩
  · rw [← hl]; exact map_getD_range l
  · rw [← hu]; exact map_getD_range u
  · conv => rhs; rw [← List.map_id rows]
    apply List.map_congr_left
    intro r hr'
    have e : r.rename (fun v => (List.range c.length).idxOf v) = r.rename (fun v => v) :=
      rename_congr _ _ r (fun q hq => idxOf_range _ _ (hr r hr' q hq))
    rw [e]
    rcases r with ⟨cs, rhs, kind⟩
    simp [Row.rename]
  · conv => rhs; rw [← List.map_id mapping]
    apply List.map_congr_left
    intro m hm'
    simp [MapRow.rename, idxOf_range _ _ (hm m hm')]

/-- a restricted interval-banded asset problem has no unmapped variable -/
theorem restrictTo_live {a : AssetProblem} {T : Nat} (h : WB a T) (I : List Nat) :
    InertOK (a.restrictTo I) ∧ livePart (a.restrictTo I) = a.restrictTo I := by
  obtain ⟨h1, h2, h3, h4⟩ := i_restrictTo_wf h I
  apply livePart_of_covered _ h1 h2 h3 h4
  intro v hv
  rw [restrictTo_n] at hv
  obtain ⟨_, m, hm, hmv, hs⟩ := (mem_keep a I _).mp (List.getElem_mem hv)
  refine ⟨{ m with var := (a.keep I).idxOf m.var, step := I.idxOf m.step }, ?_, ?_⟩
  · simp only [AssetProblem.restrictTo]
    exact List.mem_map.mpr ⟨m, List.mem_filter.mpr ⟨hm, List.contains_iff_mem.mpr hs⟩, rfl⟩
  · show (a.keep I).idxOf m.var = v
    rw [hmv]
    exact List.Nodup.idxOf_getElem (keep_nodup a I) v hv

theorem wb_live {a : AssetProblem} {T : Nat} (h : WB a T) : InertOK a ∧ livePart a = a :=
  livePart_of_covered a h.l_len h.u_len h.map_var (fun r hr => (h.rows_ok r hr).2) h.covered

/-- **the order book of an interval**: its unmapped variables are inert, and without them it is the restriction of the
    unsplit order book -/
theorem orderBook_live (name node : String) (orders : List Order) (fe : Bool) (g : Grid) (I : List Nat) (hg : g.Ok)
    (hin : ∀ o ∈ orders, orderInside g I o = true) :
    InertOK (orderBookProblem name node orders fe (g.pick I)) ∧
      livePart (orderBookProblem name node orders fe (g.pick I)) =
        (orderBookProblem name node orders fe g).restrictTo I := by
  have hn : (orderBookProblem name node orders fe (g.pick I)).n = orders.length := by
    simp [orderBookProblem, AssetProblem.n]
  have hn' : (orderBookProblem name node orders fe g).n = orders.length := by
    simp [orderBookProblem, AssetProblem.n]
  have hmapvar : ∀ m ∈ (orderBookProblem name node orders fe (g.pick I)).mapping,
      m.var < (orderBookProblem name node orders fe (g.pick I)).n := by
    intro m hm
    obtain ⟨j, o, i, hj, _, rfl⟩ := OrderBook.mem_orderMapFrom name node fe (g.pick I) orders 0 m hm
    rw [hn]
    have : j < orders.length := by
      rcases Nat.lt_or_ge j orders.length with h | h
      · exact h
      · rw [List.getElem?_eq_none h] at hj; cases hj
    simpa [orderRow] using this
  have hmv : mappedVars (orderBookProblem name node orders fe (g.pick I)) =
      (orderBookProblem name node orders fe g).keep I := by
    unfold mappedVars AssetProblem.keep
    rw [hn, hn']
    apply List.filter_congr
    intro k hk
    have hk' : k < orders.length := List.mem_range.mp hk
    have ho : orders[k]? = some orders[k] := List.getElem?_eq_getElem hk'
    rw [Bool.eq_iff_iff, List.any_eq_true]
    constructor
    · rintro ⟨m, hm, hv⟩
      have hv' : m.var = k := by simpa using hv
      by_cases hkeep : k ∈ (orderBookProblem name node orders fe g).keep I
      · exact (List.mem_filter.mp hkeep).2
      · exact absurd hv' ((ObSplit.orderBook_pick_inert name node orders fe g I hg k hk' hkeep).2 m hm)
    · intro hvs
      have hkeep : k ∈ (orderBookProblem name node orders fe g).keep I :=
        List.mem_filter.mpr ⟨by rw [hn']; exact hk, hvs⟩
      obtain ⟨o, ho', i, hi, hI⟩ := (ObSplit.mem_keep_orderBook name node orders fe g I k).mp hkeep
      have hmem : i ∈ (coverPos g o).filter fun i => I.contains (g.idx.getD i 0) :=
        List.mem_filter.mpr ⟨hi, List.contains_iff_mem.mpr hI⟩
      rw [← ObSplit.coverPos_pick g I hg o] at hmem
      obtain ⟨j, hj, _⟩ := List.mem_map.mp hmem
      refine ⟨orderRow name node fe (g.pick I) (0 + k) o j,
        OrderBook.orderRow_mem_orderMapFrom name node fe (g.pick I) orders 0 k o j ho' hj, ?_⟩
      simp [orderRow]
  refine ⟨⟨by simp [orderBookProblem, AssetProblem.n], by simp [orderBookProblem, AssetProblem.n], hmapvar,
    fun r hr => by simp [orderBookProblem] at hr, ?_, ?_⟩, ?_⟩
  · intro v hv hnm
    rw [hn] at hv
    rw [hmv] at hnm
    exact (ObSplit.orderBook_pick_inert name node orders fe g I hg v hv hnm).1
  · intro v hv _
    rw [hn] at hv
    simp [orderBookProblem, List.getD_eq_getElem?_getD, hv]
    grind
  · unfold livePart
    rw [hmv]
    exact ObSplit.orderBook_pick name node orders fe g I hg hin

/-- the interval grid with the book's discount factors is the book's grid restricted to the interval's steps -/
theorem interval_eq_pick (ref : Grid) (df : List Rat) (ab : Int × Int) (hidx : ref.idx = List.range ref.T) :
    ({ (ref.interval ab.1 ab.2) with df := sel (ref.mask ab.1 ab.2) df } : Grid) =
      ({ ref with df := df } : Grid).pick (intervalSteps ref ab) := by
  have hpm : ({ ref with df := df } : Grid).pickMask (intervalSteps ref ab) = ref.mask ab.1 ab.2 := by
    rw [pickMask_eq, Grid.mask_eq]
    show ref.idx.map _ = _
    rw [hidx]
    apply List.ext_getElem
    · simp [Grid.T]
    · intro j h1 h2
      have hj : j < ref.pts.length := by simpa using h2
      simp only [List.getElem_map, List.getElem_range]
      rw [Bool.eq_iff_iff, List.contains_iff_mem, mem_intervalSteps ref ab hidx]
      have e : ref.pts.getD j 0 = ref.pts[j] := by simp [List.getD_eq_getElem?_getD, hj]
      rw [e]
      exact ⟨fun h => h.2, fun h => ⟨hj, h⟩⟩
  unfold Grid.pick
  rw [hpm]
  show Grid.mk _ _ _ _ _ = Grid.mk _ _ _ _ _
  congr 1
  show List.range (sel (ref.mask ab.1 ab.2) ref.pts).length = (sel (ref.mask ab.1 ab.2) ref.idx).map _
  have hI : sel (ref.mask ab.1 ab.2) ref.idx = intervalSteps ref ab := rfl
  rw [hI, map_idxOf_self _ (intervalSteps_nodup ref ab hidx)]
  congr 1
  exact interval_T ref ab hidx

/-! ### the loop of `setup_split_optim_problem` with order books -/

/-- every order book has one discount factor per step of the reference grid -/
def booksDfOk (specs : List OSpec) (ref : Grid) : Bool :=
  specs.all fun s => match s with
    | .asset _ => true
    | .book _ _ _ _ df => decide (df.length = ref.T)

/-- element-wise relation of two lists of the same length -/
inductive Rel2 {α β} (R : α → β → Prop) : List α → List β → Prop
  | nil : Rel2 R [] []
  | cons {a b l₁ l₂} : R a b → Rel2 R l₁ l₂ → Rel2 R (a :: l₁) (b :: l₂)

theorem mapM_transfer2 {ε α α' β β'} (f : α → Except ε β) (f' : α' → Except ε β') (k : α → α') (Q : β → β' → Prop)
    (xs : List α) (ys : List β) (hxs : xs.mapM f = .ok ys)
    (hstep : ∀ x ∈ xs, ∀ y, f x = .ok y → ∃ z, f' (k x) = .ok z ∧ Q y z) :
    ∃ zs, (xs.map k).mapM f' = .ok zs ∧ Rel2 Q ys zs := by
  induction xs generalizing ys with
  | nil =>
    have : ys = [] := by simpa [List.mapM_nil, pure, Except.pure] using hxs.symm
    subst this; exact ⟨[], rfl, Rel2.nil⟩
  | cons x xs ih =>
    obtain ⟨y, ys', h1, h2, rfl⟩ := (mapM_ok_cons f x xs ys).mp hxs
    obtain ⟨z, hz, hq⟩ := hstep x (by simp) y h1
    obtain ⟨zs, hzs, hf⟩ := ih ys' h2 (fun x' hx' => hstep x' (by simp [hx']))
    refine ⟨z :: zs, ?_, Rel2.cons hq hf⟩
    rw [List.map_cons, mapM_ok_cons]
    exact ⟨z, zs, hz, hzs, rfl⟩

theorem mapM_forall2 {ε α β} (f : α → Except ε β) (R : α → β → Prop) (xs : List α)
    (h : ∀ x ∈ xs, ∃ y, f x = .ok y ∧ R x y) : ∃ ys, xs.mapM f = .ok ys ∧ Rel2 R xs ys := by
  induction xs with
  | nil => exact ⟨[], rfl, Rel2.nil⟩
  | cons x xs ih =>
    obtain ⟨y, hy, hr⟩ := h x (by simp)
    obtain ⟨ys, hys, hf⟩ := ih (fun x' hx' => h x' (by simp [hx']))
    refine ⟨y :: ys, ?_, Rel2.cons hr hf⟩
    rw [mapM_ok_cons]
    exact ⟨y, ys, hy, hys, rfl⟩

theorem forall2_live (I : List Nat) (as bs : List AssetProblem)
    (h : Rel2 (fun A B => InertOK B ∧ livePart B = A.restrictTo I) as bs) :
    (∀ b ∈ bs, InertOK b) ∧ bs.map livePart = as.map (fun a => a.restrictTo I) := by
  induction h with
  | nil => simp
  | cons hab _ ih =>
    refine ⟨?_, ?_⟩
    · intro b hb
      rcases List.mem_cons.mp hb with rfl | hb'
      · exact hab.1
      · exact ih.1 b hb'
    · rw [List.map_cons, List.map_cons, hab.2, ih.2]

theorem relabelNodal_wfIdx (I : List Nat) (P : Problem) : (relabelNodal I P).wfIdx = P.wfIdx := rfl

/-- what one pass of the loop returns: nothing only when the interval problem of the unsplit asset problems has no
    variable; otherwise a well-formed problem which, WITHOUT ITS INERT VARIABLES, is that interval problem -/
def PassOK (as : List AssetProblem) (skip : List String) (ref : Grid) (ab : Int × Int) (o : Option Problem) : Prop :=
  match o with
  | none => (intervalProblem as skip (intervalSteps ref ab)).n = 0
  | some Q => Q.wfIdx = true ∧ Q.dropInert = intervalProblem as skip (intervalSteps ref ab)

theorem setupIntervalOB_spec (specs : List OSpec) (ref : Grid) (cuts : List Int) (prices : Prices) (u : Nat)
    (skip : List String) (as : List AssetProblem) (ab : Int × Int)
    (hH : obHyps specs ref cuts prices = true) (hdfb : booksDfOk specs ref = true) (hab : ab ∈ splitPairs cuts)
    (has : buildAllOB specs ref prices u = .ok as) :
    ∃ o, setupIntervalOB specs ref prices u skip ab = .ok o ∧ PassOK as skip ref ab o := by
  have hH' := hH
  unfold obHyps at hH'
  simp only [Bool.and_eq_true] at hH'
  obtain ⟨⟨hS, hIn⟩, _⟩ := hH'
  obtain ⟨hidx, hdt, hdf, hprices, _, hst⟩ := splitHyps_spec _ ref cuts prices hS
  have hI : intervalSteps ref ab ∈ (splitPairs cuts).map (intervalSteps ref) := List.mem_map_of_mem hab
  have hB : ∀ A ∈ as, WB A ref.T := by
    intro A hA
    obtain ⟨s, hs, hb⟩ := mapM_mem _ specs as has A hA
    exact (buildOSpec_intervalBanded specs ref cuts prices u hH s hs A hb).1.wb
  unfold setupIntervalOB
  by_cases hT : (ref.interval ab.1 ab.2).T = 0
  · simp only [hT, if_true]
    refine ⟨none, rfl, ?_⟩
    have hI0 : intervalSteps ref ab = [] :=
      List.eq_nil_of_length_eq_zero (by rw [← interval_T ref ab hidx]; exact hT)
    show (intervalProblem as skip (intervalSteps ref ab)).n = 0
    rw [i_interval_n as ref.T hB skip, hI0]
    apply List.length_eq_zero_iff.mpr
    apply List.eq_nil_iff_forall_not_mem.mpr
    intro v hv
    obtain ⟨_, m, _, _, hs⟩ := (mem_pkeep _ _ _).mp hv
    simp at hs
  · simp only [hT, if_false]
    obtain ⟨bs, hbs, hF⟩ := mapM_transfer2 (fun s => buildOSpec s ref prices u)
      (fun s => buildOSpec s (ref.interval ab.1 ab.2) (intervalPrices ref ab prices) u)
      (fun s => s.onInterval ref ab)
      (fun A B => InertOK B ∧ livePart B = A.restrictTo (intervalSteps ref ab)) specs as has (by
        intro s hs A hA
        cases s with
        | asset a =>
          have ha := mem_assetSpecs specs a hs
          have hA' : buildSpec a ref prices u = .ok A := hA
          refine ⟨A.restrictTo (intervalSteps ref ab),
            buildSpec_pick a ref ab prices u A hidx hdt (hdf a ha) hprices (hst a ha _ hI) hA', ?_⟩
          exact restrictTo_live (buildOSpec_intervalBanded specs ref cuts prices u hH (.asset a) hs A hA).1.wb _
        | book name node orders fe df =>
          have hA' : Except.ok (orderBookProblem name node orders fe { ref with df := df }) = Except.ok A := hA
          injection hA' with hA'
          subst hA'
          have hdfl : df.length = ref.T := by
            have := List.all_eq_true.mp hdfb _ hs
            simpa using this
          have h1 := List.all_eq_true.mp hIn _ hs
          simp only [List.all_eq_true] at h1
          have hg : ({ ref with df := df } : Grid).Ok := by
            refine ⟨?_, hdt, hdfl⟩
            show ref.idx.length = ref.T
            rw [hidx]; simp
          refine ⟨orderBookProblem name node orders fe
            (({ ref with df := df } : Grid).pick (intervalSteps ref ab)), ?_, ?_⟩
          · show Except.ok (orderBookProblem name node orders fe
              ({ (ref.interval ab.1 ab.2) with df := sel (ref.mask ab.1 ab.2) df } : Grid)) = _
            rw [interval_eq_pick ref df ab hidx]
          · exact orderBook_live name node orders fe _ _ hg (fun o ho => h1 o ho _ hI))
    obtain ⟨hOK, hmapeq⟩ := forall2_live _ as bs hF
    have hJidx : (ref.interval ab.1 ab.2).idx = List.range (intervalSteps ref ab).length := by
      show List.range _ = _
      rw [← interval_T ref ab hidx]; rfl
    unfold setupPortfolioOB
    simp only [bind, Except.bind, hbs, pure, Except.pure, hJidx]
    have hdrop : (relabelNodal (intervalSteps ref ab)
        (assemble bs (List.range (intervalSteps ref ab).length) skip)).dropInert =
        intervalProblem as skip (intervalSteps ref ab) := by
      rw [relabelNodal_dropInert, assemble_dropInert bs hOK, hmapeq]
      rfl
    by_cases hn : (assemble bs (List.range (intervalSteps ref ab).length) skip).n = 0
    · refine ⟨none, by simp only [hn, if_true], ?_⟩
      show (intervalProblem as skip (intervalSteps ref ab)).n = 0
      rw [← hdrop]
      show (List.map _ (Problem.live _)).length = 0
      rw [List.length_map]
      have : (relabelNodal (intervalSteps ref ab)
          (assemble bs (List.range (intervalSteps ref ab).length) skip)).n = 0 := hn
      unfold Problem.live
      rw [this]
      rfl
    · refine ⟨some (relabelNodal (intervalSteps ref ab)
        (assemble bs (List.range (intervalSteps ref ab).length) skip)), by simp only [hn, if_false], ?_, hdrop⟩
      rw [relabelNodal_wfIdx]
      apply assemble_wfIdx
      intro b hb
      have h := hOK b hb
      exact ⟨h.l_len, h.u_len, h.map_var, fun r hr q hq => ((mem_mappedVars b q.1).mp (h.rows_ok r hr q hq)).1⟩

theorem filterMap_dropInert {α} (F : α → Problem) (R : α → Option Problem → Prop)
    (hR : ∀ x o, R x o → match o with
      | none => (F x).n = 0
      | some Q => Q.wfIdx = true ∧ Q.dropInert = F x)
    (L : List α) (opts : List (Option Problem)) (h : Rel2 R L opts) :
    (∀ Q ∈ opts.filterMap id, Q.wfIdx = true ∧ ∃ x ∈ L, Q.dropInert = F x) ∧
    (((opts.filterMap id).map Problem.dropInert).filter fun P => P.n != 0) = (L.map F).filter fun P => P.n != 0 := by
  induction h with
  | nil => simp
  | @cons x o L' opts' hxo _ ih =>
    have hx := hR x o hxo
    cases o with
    | none =>
      have hx' : (F x).n = 0 := hx
      refine ⟨?_, ?_⟩
      · intro Q hQ
        have hQ' : Q ∈ opts'.filterMap id := by simpa using hQ
        obtain ⟨h1, y, hy, h2⟩ := ih.1 Q hQ'
        exact ⟨h1, y, by simp [hy], h2⟩
      · rw [List.map_cons, List.filter_cons]
        simp only [hx', bne_self_eq_false, Bool.false_eq_true, if_false]
        rw [← ih.2]
        simp
    | some Q0 =>
      have hx' : Q0.wfIdx = true ∧ Q0.dropInert = F x := hx
      refine ⟨?_, ?_⟩
      · intro Q hQ
        have hQ' : Q = Q0 ∨ Q ∈ opts'.filterMap id := by simpa using hQ
        rcases hQ' with rfl | hQ'
        · exact ⟨hx'.1, x, by simp, hx'.2⟩
        · obtain ⟨h1, y, hy, h2⟩ := ih.1 Q hQ'
          exact ⟨h1, y, by simp [hy], h2⟩
      · have e : (some Q0 :: opts').filterMap id = Q0 :: opts'.filterMap id := by simp
        rw [e, List.map_cons, List.map_cons, hx'.2, List.filter_cons, List.filter_cons, ih.2]

/-- **The witness modulo inert variables holds for the LITERAL split set-up** of every portfolio of the five builders
    plus order books under `obHyps` (and one discount factor per step for every book): no certificate. -/
theorem setupSplitOB_witness (specs : List OSpec) (ref : Grid) (cuts : List Int) (prices : Prices) (u : Nat)
    (skip : List String) (U : Problem) (ps : List Problem)
    (hH : obHyps specs ref cuts prices = true) (hdfb : booksDfOk specs ref = true)
    (hU : setupPortfolioOB specs ref prices u skip = .ok U)
    (hS : setupSplitOB specs ref cuts prices u skip = .ok ps) :
    splitWitnessModInert U ps (splitPermLive U ((splitPairs cuts).map (intervalSteps ref))) = true := by
  obtain ⟨as, has, rfl⟩ := setupPortfolioOB_ok hU
  have hH' := hH
  unfold obHyps at hH'
  simp only [Bool.and_eq_true] at hH'
  obtain ⟨hidx, _, _, _, hpart, _⟩ := splitHyps_spec _ ref cuts prices hH'.1.1
  have hAll : ∀ A ∈ as, IntervalBanded A ref.T ((splitPairs cuts).map (intervalSteps ref)) ∧
      RowsInside A ((splitPairs cuts).map (intervalSteps ref)) := by
    intro A hA
    obtain ⟨s, hs, hb⟩ := mapM_mem _ specs as has A hA
    exact buildOSpec_intervalBanded specs ref cuts prices u hH s hs A hb
  have hB : ∀ A ∈ as, WB A ref.T := fun A hA => (hAll A hA).1.wb
  rw [hidx]
  have hw := witness_of_interval_banded as ref.T _ skip (fun A hA => (hAll A hA).1) hpart
    (fun A hA => (hAll A hA).2)
  -- the unsplit problem has no inert variable
  have hUd : (assemble as (List.range ref.T) skip).dropInert = assemble as (List.range ref.T) skip := by
    rw [assemble_dropInert as (fun a ha => (wb_live (hB a ha)).1)]
    congr 1
    conv => rhs; rw [← List.map_id as]
    exact List.map_congr_left (fun a ha => (wb_live (hB a ha)).2)
  -- the loop
  obtain ⟨opts, hopts, hF⟩ := mapM_forall2 (setupIntervalOB specs ref prices u skip) (PassOK as skip ref)
    (splitPairs cuts) (fun ab hab => setupIntervalOB_spec specs ref cuts prices u skip as ab hH hdfb hab has)
  have hps : ps = opts.filterMap id := by
    unfold setupSplitOB at hS
    simp only [bind, Except.bind, hopts, pure, Except.pure] at hS
    split at hS
    · cases hS
    · split at hS
      · cases hS
      · injection hS with hS
        exact hS.symm
  obtain ⟨hwfQ, hfilt⟩ := filterMap_dropInert (fun ab => intervalProblem as skip (intervalSteps ref ab))
    (PassOK as skip ref) (fun x o h => h) (splitPairs cuts) opts hF
  rw [← hps] at hwfQ hfilt
  have hfilt' : ((ps.map Problem.dropInert).filter fun P => P.n != 0) =
      (((splitPairs cuts).map (intervalSteps ref)).map (intervalProblem as skip)).filter fun P => P.n != 0 := by
    rw [hfilt, List.map_map]
    rfl
  have hmemIP : ∀ P ∈ ps.map Problem.dropInert, ∃ I, P = intervalProblem as skip I := by
    intro P hP
    obtain ⟨Q, hQ, rfl⟩ := List.mem_map.mp hP
    obtain ⟨_, ab, _, h2⟩ := hwfQ Q hQ
    exact ⟨_, h2⟩
  have hwf1 : ∀ P ∈ ps.map Problem.dropInert, P.wfIdx = true := by
    intro P hP
    obtain ⟨I, rfl⟩ := hmemIP P hP
    exact i_intervalProblem_wfIdx as ref.T hB skip I
  have hr1 : ∀ P ∈ ps.map Problem.dropInert, ∀ r ∈ P.rows, r.coeffs ≠ [] := by
    intro P hP
    obtain ⟨I, rfl⟩ := hmemIP P hP
    exact i_intervalProblem_rows_ne as ref.T hB skip I
  have hwf2 : ∀ P ∈ ((splitPairs cuts).map (intervalSteps ref)).map (intervalProblem as skip), P.wfIdx = true := by
    intro P hP
    obtain ⟨I, _, rfl⟩ := List.mem_map.mp hP
    exact i_intervalProblem_wfIdx as ref.T hB skip I
  have hr2 : ∀ P ∈ ((splitPairs cuts).map (intervalSteps ref)).map (intervalProblem as skip),
      ∀ r ∈ P.rows, r.coeffs ≠ [] := by
    intro P hP
    obtain ⟨I, _, rfl⟩ := List.mem_map.mp hP
    exact i_intervalProblem_rows_ne as ref.T hB skip I
  have hbs : blockSum (ps.map Problem.dropInert) =
      blockSum (((splitPairs cuts).map (intervalSteps ref)).map (intervalProblem as skip)) := by
    have e1 := blockSum_filter (ps.map Problem.dropInert) hwf1 hr1 0
    have e2 := blockSum_filter _ hwf2 hr2 0
    show assembleFrom 0 _ = assembleFrom 0 _
    rw [← e1, ← e2, hfilt']
  unfold splitWitness at hw
  simp only [Bool.and_eq_true] at hw
  obtain ⟨⟨⟨h1, _⟩, h3⟩, h4⟩ := hw
  unfold splitWitnessModInert splitPermLive
  rw [hUd]
  unfold splitWitness
  simp only [Bool.and_eq_true]
  refine ⟨⟨h1, ?_⟩, ⟨⟨h1, ?_⟩, h3⟩, ?_⟩
  · rw [List.all_eq_true]
    exact fun Q hQ => (hwfQ Q hQ).1
  · rw [List.all_eq_true]
    exact hwf1
  · rw [hbs]
    exact h4

/-- the split set-up succeeds when the unsplit problem has a variable -/
theorem setupSplitOB_succeeds (specs : List OSpec) (ref : Grid) (cuts : List Int) (prices : Prices) (u : Nat)
    (skip : List String) (U : Problem)
    (hH : obHyps specs ref cuts prices = true) (hdfb : booksDfOk specs ref = true)
    (hU : setupPortfolioOB specs ref prices u skip = .ok U) (hpos : 0 < U.n) :
    ∃ ps, setupSplitOB specs ref cuts prices u skip = .ok ps := by
  obtain ⟨as, has, rfl⟩ := setupPortfolioOB_ok hU
  have hH' := hH
  unfold obHyps at hH'
  simp only [Bool.and_eq_true] at hH'
  obtain ⟨hidx, _, _, hprices, hpart, _⟩ := splitHyps_spec _ ref cuts prices hH'.1.1
  have hAll : ∀ A ∈ as, IntervalBanded A ref.T ((splitPairs cuts).map (intervalSteps ref)) := by
    intro A hA
    obtain ⟨s, hs, hb⟩ := mapM_mem _ specs as has A hA
    exact (buildOSpec_intervalBanded specs ref cuts prices u hH s hs A hb).1
  have hB : ∀ A ∈ as, WB A ref.T := fun A hA => (hAll A hA).wb
  obtain ⟨opts, hopts, hF⟩ := mapM_forall2 (setupIntervalOB specs ref prices u skip) (PassOK as skip ref)
    (splitPairs cuts) (fun ab hab => setupIntervalOB_spec specs ref cuts prices u skip as ab hH hdfb hab has)
  obtain ⟨_, hfilt⟩ := filterMap_dropInert (fun ab => intervalProblem as skip (intervalSteps ref ab))
    (PassOK as skip ref) (fun x o h => h) (splitPairs cuts) opts hF
  have hp : (prices.any fun kv => kv.2.length != ref.T) = false := by
    rw [Bool.eq_false_iff]
    intro h
    obtain ⟨kv, hkv, hb⟩ := List.any_eq_true.mp h
    simp [hprices kv hkv] at hb
  have hne : (opts.filterMap id).isEmpty = false := by
    cases hh : opts.filterMap id with
    | cons _ _ => rfl
    | nil =>
      exfalso
      rw [hh] at hfilt
      have hnil : (((splitPairs cuts).map (intervalSteps ref)).map (intervalProblem as skip)).filter
          (fun P => P.n != 0) = [] := by
        rw [List.map_map]
        exact hfilt.symm
      obtain ⟨_, hd⟩ := isPartition_spec _ _ hpart
      have hperm := i_splitPerm_isPerm as ref.T hB _ hpart (i_keep_disjoint as ref.T _ hAll hd)
      have hlen : (((splitPairs cuts).map (intervalSteps ref)).flatMap fun I => (assembleFrom 0 as).keep I).length =
          (assembleFrom 0 as).n := by
        unfold isPermOf at hperm
        simp only [Bool.and_eq_true, decide_eq_true_eq] at hperm
        exact hperm.1.1.1
      have hall : ∀ I ∈ (splitPairs cuts).map (intervalSteps ref), (assembleFrom 0 as).keep I = [] := by
        intro I hI
        have hmem : intervalProblem as skip I ∈ ((splitPairs cuts).map (intervalSteps ref)).map (intervalProblem as skip) :=
          List.mem_map_of_mem hI
        have : ¬ ((intervalProblem as skip I).n != 0) = true := by
          intro hn
          have : intervalProblem as skip I ∈ (((splitPairs cuts).map (intervalSteps ref)).map (intervalProblem as skip)).filter
              fun P => P.n != 0 := List.mem_filter.mpr ⟨hmem, hn⟩
          rw [hnil] at this
          simp at this
        have hn0 : (intervalProblem as skip I).n = 0 := by simpa using this
        rw [i_interval_n as ref.T hB skip I] at hn0
        exact List.eq_nil_of_length_eq_zero hn0
      have : (((splitPairs cuts).map (intervalSteps ref)).flatMap fun I => (assembleFrom 0 as).keep I) = [] := by
        apply List.eq_nil_iff_forall_not_mem.mpr
        intro v hv
        obtain ⟨I, hI, hvI⟩ := List.mem_flatMap.mp hv
        rw [hall I hI] at hvI
        simp at hvI
      rw [this] at hlen
      have hn : (assemble as ref.idx skip).n = (assembleFrom 0 as).n := assemble_n _ _ _
      rw [hn, ← hlen] at hpos
      simp at hpos
  refine ⟨opts.filterMap id, ?_⟩
  unfold setupSplitOB
  simp only [bind, Except.bind, hp, Bool.false_eq_true, if_false, hopts, pure, Except.pure, hne]


end EAO.ObSplit2
