import EAO.Model.ObSplit
import EAO.Lemmas.Split
import EAO.Lemmas.SplitBuild
import EAO.Lemmas.OrderBook
import EAO.Lemmas.ObSplit
/-!
# EAO.Lemmas.ObSplit2 — `EAO.C14B.split_witness_of_banded` for variables that belong to one INTERVAL

`Banded` (EAO.Model.SplitBuild) asks that all mapping rows of a variable sit at ONE STEP and that there are no boolean
variables.  An order of an order book covers several steps (one variable, one mapping row per covered step) and is a
boolean variable under full execution.  `IntervalBanded a T Is` asks instead that all mapping rows of a variable sit in
ONE of the step lists `Is` and that the boolean flag is the same on all rows of a variable.  Part 1 repeats Part 1 of
`EAO.Lemmas.SplitBuild` under the weaker hypothesis (the lemmas that never used `same_step` / `no_bool` are re-proved
for `WB`, the rest of `Banded`; the lemmas without a `Banded` hypothesis are used as they are); the boolean index sets
of the renamed unsplit problem and of the block sum are compared through the mapping rows.  Part 2: what the five
builders and the order book give.
-/
namespace EAO.ObSplit2
open EAO EAO.Split EAO.SplitBuild

/-- `Banded` without `same_step` and `no_bool` -/
structure WB (a : AssetProblem) (T : Nat) : Prop where
  l_len     : a.l.length = a.n
  u_len     : a.u.length = a.n
  map_var   : ∀ m ∈ a.mapping, m.var < a.n
  map_step  : ∀ m ∈ a.mapping, m.step < T
  covered   : ∀ v, v < a.n → ∃ m ∈ a.mapping, m.var = v
  rows_ok   : ∀ r ∈ a.rows, r.coeffs ≠ [] ∧ ∀ q ∈ r.coeffs, q.1 < a.n

/-- **every variable belongs to ONE INTERVAL**: bounds for every variable, rows over the asset's variables, every
    variable has a mapping row, all mapping rows of a variable sit at steps of the same step lists of `Is`
    (`same_block`), and carry the same boolean flag (`bool_const`; booleans are allowed) -/
structure IntervalBanded (a : AssetProblem) (T : Nat) (Is : List (List Nat)) : Prop where
  wb         : WB a T
  same_block : ∀ m ∈ a.mapping, ∀ m' ∈ a.mapping, m.var = m'.var → ∀ I ∈ Is, m.step ∈ I → m'.step ∈ I
  bool_const : ∀ m ∈ a.mapping, ∀ m' ∈ a.mapping, m.var = m'.var → m.isBool = m'.isBool

theorem wb_of_banded {a : AssetProblem} {T : Nat} (h : Banded a T) : WB a T :=
  ⟨h.l_len, h.u_len, h.map_var, h.map_step, h.covered, h.rows_ok⟩

/-- what `EAO.C14B.builders_banded` gives is interval-banded for ANY step lists -/
theorem intervalBanded_of_banded {a : AssetProblem} {T : Nat} (h : Banded a T) (Is : List (List Nat)) :
    IntervalBanded a T Is := by
  refine ⟨wb_of_banded h, ?_, ?_⟩
  · intro m hm m' hm' hv I _ hs
    rw [← h.same_step m hm m' hm' hv]; exact hs
  · intro m hm m' hm' _
    rw [h.no_bool m hm, h.no_bool m' hm']

theorem i_banded_var_mem_keep {a : AssetProblem} {T : Nat} (h : WB a T) (I : List Nat) (m : MapRow)
    (hm : m ∈ a.mapping) (hs : m.step ∈ I) : m.var ∈ a.keep I :=
  (mem_keep a I m.var).mpr ⟨h.map_var m hm, m, hm, rfl, hs⟩

/-! ## Part 1: the general theorem -/

structure GW (M : List MapRow) (off n T : Nat) : Prop where
  var_ge    : ∀ m ∈ M, off ≤ m.var
  var_lt    : ∀ m ∈ M, m.var < off + n
  step_lt   : ∀ m ∈ M, m.step < T
  covered   : ∀ u, off ≤ u → u < off + n → ∃ m ∈ M, m.var = u

theorem i_assembleFrom_gbanded (as : List AssetProblem) (T : Nat) (hB : ∀ a ∈ as, WB a T) (off : Nat) :
    GW (assembleFrom off as).mapping off ((as.map (·.n)).sum) T := by
  induction as generalizing off with
  | nil =>
    refine ⟨?_, ?_, ?_, ?_⟩ <;> intro m hm <;> first | (simp at hm) | skip
    intro h1; simp at h1; omega
  | cons a rest ih =>
    have ha := hB a (by simp)
    have hr := ih (fun b hb => hB b (by simp [hb])) (off + a.n)
    rw [assembleFrom_cons_mapping]
    simp only [List.map_cons, List.sum_cons]
    refine ⟨?_, ?_, ?_, ?_⟩
    · intro m hm
      rcases List.mem_append.mp hm with h | h
      · obtain ⟨m', _, rfl⟩ := List.mem_map.mp h
        show off ≤ off + m'.var; omega
      · have := hr.var_ge m h; omega
    · intro m hm
      rcases List.mem_append.mp hm with h | h
      · obtain ⟨m', hm', rfl⟩ := List.mem_map.mp h
        have := ha.map_var m' hm'
        show off + m'.var < _; omega
      · have := hr.var_lt m h; omega
    · intro m hm
      rcases List.mem_append.mp hm with h | h
      · obtain ⟨m', hm', rfl⟩ := List.mem_map.mp h
        exact ha.map_step m' hm'
      · exact hr.step_lt m h
    · intro u h1 h2
      by_cases hu : u < off + a.n
      · obtain ⟨m, hm, hv⟩ := ha.covered (u - off) (by omega)
        refine ⟨m.shift off, List.mem_append_left _ (List.mem_map_of_mem hm), ?_⟩
        show off + m.var = u; omega
      · obtain ⟨m, hm, hv⟩ := hr.covered u (by omega) (by omega)
        exact ⟨m, List.mem_append_right _ hm, hv⟩

/-- the kept variables of the assets, concatenated, are the variables of the concatenation that sit at steps of
    `I`, in increasing order -/
theorem i_keptFrom_eq_filter (as : List AssetProblem) (T : Nat) (hB : ∀ a ∈ as, WB a T) (I : List Nat) (off : Nat) :
    keptFrom I off as =
      ((List.range ((as.map (·.n)).sum)).filter fun j => varAtSteps (assembleFrom off as).mapping I (off + j)).map
        (off + ·) := by
  induction as generalizing off with
  | nil => simp [keptFrom]
  | cons a rest ih =>
    have ha := hB a (by simp)
    have hB' : ∀ b ∈ rest, WB b T := fun b hb => hB b (by simp [hb])
    have hr := i_assembleFrom_gbanded rest T hB' (off + a.n)
    simp only [keptFrom, List.map_cons, List.sum_cons]
    rw [List.range_add, List.filter_append, List.map_append, ih hB' (off + a.n), assembleFrom_cons_mapping]
    congr 1
    · -- the asset's own block
      unfold AssetProblem.keep
      congr 1
      apply List.filter_congr
      intro j hj
      have hj' : j < a.n := List.mem_range.mp hj
      rw [Bool.eq_iff_iff, varAtSteps_iff, varAtSteps_iff]
      constructor
      · rintro ⟨m, hm, hv, hs⟩
        exact ⟨m.shift off, List.mem_append_left _ (List.mem_map_of_mem hm), by show off + m.var = off + j; omega, hs⟩
      · rintro ⟨m, hm, hv, hs⟩
        rcases List.mem_append.mp hm with h | h
        · obtain ⟨m', hm', rfl⟩ := List.mem_map.mp h
          refine ⟨m', hm', ?_, hs⟩
          have : off + m'.var = off + j := hv
          omega
        · have := hr.var_ge m h; omega
    · -- the blocks after it
      rw [List.filter_map, List.map_map]
      have e : (fun x => off + x) ∘ (fun x => a.n + x) = fun x => off + a.n + x := by
        funext x; simp; omega
      rw [e]
      congr 1
      apply List.filter_congr
      intro j _
      simp only [Function.comp]
      rw [Bool.eq_iff_iff, varAtSteps_iff, varAtSteps_iff]
      constructor
      · rintro ⟨m, hm, hv, hs⟩
        exact ⟨m, List.mem_append_right _ hm, by omega, hs⟩
      · rintro ⟨m, hm, hv, hs⟩
        rcases List.mem_append.mp hm with h | h
        · obtain ⟨m', hm', rfl⟩ := List.mem_map.mp h
          have := ha.map_var m' hm'
          have : off + m'.var = off + (a.n + j) := hv
          omega
        · exact ⟨m, h, by omega, hs⟩

/-- … hence, for the whole portfolio, the problem's own `keep` -/
theorem i_keptFrom_eq_pkeep (as : List AssetProblem) (T : Nat) (hB : ∀ a ∈ as, WB a T) (I : List Nat) :
    keptFrom I 0 as = (assembleFrom 0 as).keep I := by
  rw [i_keptFrom_eq_filter as T hB I 0]
  unfold Problem.keep
  rw [assembleFrom_n]
  simp
theorem i_restrict_mapping (as : List AssetProblem) (T : Nat) (hB : ∀ a ∈ as, WB a T) (I : List Nat)
    (off off' : Nat) :
    (assembleFrom off' (as.map fun a => a.restrictTo I)).mapping =
      ((assembleFrom off as).mapping.filter fun m => I.contains m.step).map
        (renMap I fun u => off' + (keptFrom I off as).idxOf u) := by
  induction as generalizing off off' with
  | nil => simp
  | cons a rest ih =>
    have ha := hB a (by simp)
    have hB' : ∀ b ∈ rest, WB b T := fun b hb => hB b (by simp [hb])
    rw [List.map_cons, assembleFrom_cons_mapping, assembleFrom_cons_mapping, List.filter_append, List.map_append]
    congr 1
    · rw [List.filter_map, List.map_map]
      show ((a.mapping.filter fun m => I.contains m.step).map _).map _ = _
      rw [List.map_map]
      apply List.map_congr_left
      intro m hm
      obtain ⟨hm1, hm2⟩ := List.mem_filter.mp hm
      have hv : m.var ∈ a.keep I := i_banded_var_mem_keep ha I m hm1 (List.contains_iff_mem.mp hm2)
      simp only [Function.comp, renMap, MapRow.shift]
      rw [idxOf_keptFrom_head I off a rest m.var hv]
    · rw [ih hB' (off + a.n) (off' + (a.restrictTo I).n)]
      apply List.map_congr_left
      intro m hm
      have hge := (i_assembleFrom_gbanded rest T hB' (off + a.n)).var_ge m (List.mem_filter.mp hm).1
      simp only [renMap]
      rw [idxOf_keptFrom_tail I off a rest m.var hge]
      congr 1
      omega
/-- the mapping of the interval problem, written with the unsplit mapping -/
theorem i_intervalMapping (as : List AssetProblem) (T : Nat) (hB : ∀ a ∈ as, WB a T) (I : List Nat) :
    (assembleFrom 0 (as.map fun a => a.restrictTo I)).mapping =
      ((assembleFrom 0 as).mapping.filter fun m => I.contains m.step).map
        (renMap I fun u => ((assembleFrom 0 as).keep I).idxOf u) := by
  rw [i_restrict_mapping as T hB I 0 0, i_keptFrom_eq_pkeep as T hB I]
  simp

theorem i_intervalRows (as : List AssetProblem) (T : Nat) (hB : ∀ a ∈ as, WB a T) (I : List Nat) :
    (assembleFrom 0 (as.map fun a => a.restrictTo I)).rows =
      (keptRows I 0 as).map (Row.rename fun u => ((assembleFrom 0 as).keep I).idxOf u) := by
  rw [restrict_rows as I 0 0, i_keptFrom_eq_pkeep as T hB I]
  simp

/-- a dispatch row of the unsplit mapping at a step of `I` belongs to a kept variable -/
theorem i_disp_var_kept (as : List AssetProblem) (T : Nat) (hB : ∀ a ∈ as, WB a T) (I : List Nat) (m : MapRow)
    (hm : m ∈ (assembleFrom 0 as).mapping) (hs : m.step ∈ I) : m.var ∈ (assembleFrom 0 as).keep I := by
  rw [mem_pkeep]
  have := (i_assembleFrom_gbanded as T hB 0).var_lt m hm
  rw [assembleFrom_n]
  exact ⟨by omega, m, hm, rfl, hs⟩

/-- every row of the interval problem is a renamed row of the unsplit problem over kept variables -/
theorem i_interval_rows_sub (as : List AssetProblem) (T : Nat) (hB : ∀ a ∈ as, WB a T) (skip : List String)
    (I : List Nat) :
    ∀ R ∈ (intervalProblem as skip I).rows, ∃ r ∈ (assemble as (List.range T) skip).rows,
      (∀ q ∈ r.coeffs, q.1 ∈ (assembleFrom 0 as).keep I) ∧
      R = r.rename fun u => ((assembleFrom 0 as).keep I).idxOf u := by
  intro R hR
  rw [intervalProblem_rows] at hR
  rw [assemble_rows]
  rcases List.mem_append.mp hR with h | h
  · rw [i_intervalRows as T hB I] at h
    obtain ⟨r, hr, rfl⟩ := List.mem_map.mp h
    obtain ⟨g1, g2⟩ := keptRows_sub I 0 as r hr
    rw [i_keptFrom_eq_pkeep as T hB I] at g2
    exact ⟨r, List.mem_append_left _ g1, g2, rfl⟩
  · obtain ⟨⟨r', n⟩, hp, rfl⟩ := List.mem_map.mp h
    obtain ⟨hn, hs, _, hany⟩ := (mem_nodalPairs_iff _ _ _ _ r' n).mp hp
    rw [i_intervalMapping as T hB I] at hany ⊢
    obtain ⟨m', hm', hd⟩ := List.any_eq_true.mp hany
    obtain ⟨m, hm, rfl⟩ := List.mem_map.mp hm'
    obtain ⟨hmM, hmI⟩ := List.mem_filter.mp hm
    have hmI' : m.step ∈ I := List.contains_iff_mem.mp hmI
    obtain ⟨hk, hnode, hstep⟩ := (isDisp_iff _ _ _).mp hd
    have hstep' : I.idxOf m.step = r' := hstep
    have hlt := (i_assembleFrom_gbanded as T hB 0).step_lt m hmM
    refine ⟨nodalRow (assembleFrom 0 as).mapping n m.step, ?_, ?_, ?_⟩
    · apply List.mem_append_right
      refine List.mem_map.mpr ⟨(m.step, n), ?_, rfl⟩
      rw [mem_nodalPairs_iff]
      refine ⟨hn, hs, List.mem_range.mpr hlt, List.any_eq_true.mpr ⟨m, hmM, ?_⟩⟩
      exact (isDisp_iff _ _ _).mpr ⟨hk, hnode, rfl⟩
    · intro q hq
      obtain ⟨m1, hm1, hd1, rfl⟩ := mem_nodalRow_coeffs _ _ _ _ hq
      have := ((isDisp_iff _ _ _).mp hd1).2.2
      exact i_disp_var_kept as T hB I m1 hm1 (this ▸ hmI')
    · show nodalRow _ n r' = _
      rw [← hstep']
      exact nodalRow_restrict _ I _ n m.step hmI'

/-- every kept row of the assets occurs, renamed, in the interval problem -/
theorem i_interval_rows_sup_asset (as : List AssetProblem) (T : Nat) (hB : ∀ a ∈ as, WB a T) (skip : List String)
    (I : List Nat) :
    ∀ r ∈ keptRows I 0 as,
      (r.rename fun u => ((assembleFrom 0 as).keep I).idxOf u) ∈ (intervalProblem as skip I).rows := by
  intro r hr
  rw [intervalProblem_rows, i_intervalRows as T hB I]
  exact List.mem_append_left _ (List.mem_map_of_mem hr)

/-- every nodal row of the unsplit problem at a step of `I` occurs, renamed, in the interval problem, and its
    variables are kept -/
theorem i_interval_rows_sup_nodal (as : List AssetProblem) (T : Nat) (hB : ∀ a ∈ as, WB a T) (skip : List String)
    (I : List Nat) (t : Nat) (n : String)
    (hp : (t, n) ∈ nodalPairs (assembleFrom 0 as).mapping (portfolioNodes as) skip (List.range T)) (ht : t ∈ I) :
    ((nodalRow (assembleFrom 0 as).mapping n t).rename fun u => ((assembleFrom 0 as).keep I).idxOf u)
        ∈ (intervalProblem as skip I).rows ∧
      ∀ q ∈ (nodalRow (assembleFrom 0 as).mapping n t).coeffs, q.1 ∈ (assembleFrom 0 as).keep I := by
  obtain ⟨hn, hs, _, hany⟩ := (mem_nodalPairs_iff _ _ _ _ t n).mp hp
  obtain ⟨m, hm, hd⟩ := List.any_eq_true.mp hany
  obtain ⟨hk, hnode, hstep⟩ := (isDisp_iff _ _ _).mp hd
  constructor
  · rw [intervalProblem_rows]
    apply List.mem_append_right
    refine List.mem_map.mpr ⟨(I.idxOf t, n), ?_, ?_⟩
    · rw [mem_nodalPairs_iff]
      refine ⟨hn, hs, List.mem_range.mpr (List.idxOf_lt_length_of_mem ht), ?_⟩
      rw [i_intervalMapping as T hB I]
      refine List.any_eq_true.mpr ⟨renMap I _ m, List.mem_map_of_mem (List.mem_filter.mpr ⟨hm, ?_⟩), ?_⟩
      · exact List.contains_iff_mem.mpr (hstep ▸ ht)
      · refine (isDisp_iff _ _ _).mpr ⟨hk, hnode, ?_⟩
        show I.idxOf m.step = I.idxOf t
        rw [hstep]
    · show nodalRow _ n (I.idxOf t) = _
      rw [i_intervalMapping as T hB I]
      exact nodalRow_restrict _ I _ n t ht
  · intro q hq
    obtain ⟨m1, hm1, hd1, rfl⟩ := mem_nodalRow_coeffs _ _ _ _ hq
    have := ((isDisp_iff _ _ _).mp hd1).2.2
    exact i_disp_var_kept as T hB I m1 hm1 (this ▸ ht)

/-! ### all interval problems against the unsplit problem -/

theorem i_interval_c (as : List AssetProblem) (T : Nat) (hB : ∀ a ∈ as, WB a T) (skip : List String) (I : List Nat) :
    (intervalProblem as skip I).c = ((assembleFrom 0 as).keep I).map fun u => (assembleFrom 0 as).c.getD u 0 := by
  show (assembleFrom 0 _).c = _
  rw [restrict_c, i_keptFrom_eq_pkeep as T hB I]

theorem i_interval_l (as : List AssetProblem) (T : Nat) (hB : ∀ a ∈ as, WB a T) (skip : List String) (I : List Nat) :
    (intervalProblem as skip I).l = ((assembleFrom 0 as).keep I).map fun u => (assembleFrom 0 as).l.getD u 0 := by
  show (assembleFrom 0 _).l = _
  rw [restrict_l I 0 as (fun a ha => (hB a ha).l_len), i_keptFrom_eq_pkeep as T hB I]

theorem i_interval_u (as : List AssetProblem) (T : Nat) (hB : ∀ a ∈ as, WB a T) (skip : List String) (I : List Nat) :
    (intervalProblem as skip I).u = ((assembleFrom 0 as).keep I).map fun u => (assembleFrom 0 as).u.getD u 0 := by
  show (assembleFrom 0 _).u = _
  rw [restrict_u I 0 as (fun a ha => (hB a ha).u_len), i_keptFrom_eq_pkeep as T hB I]

theorem i_interval_n (as : List AssetProblem) (T : Nat) (hB : ∀ a ∈ as, WB a T) (skip : List String) (I : List Nat) :
    (intervalProblem as skip I).n = ((assembleFrom 0 as).keep I).length := by
  unfold Problem.n
  rw [i_interval_c as T hB skip I, List.length_map]

theorem i_blocks_c (as : List AssetProblem) (T : Nat) (hB : ∀ a ∈ as, WB a T) (skip : List String) (o : Nat)
    (Js : List (List Nat)) :
    (blocks as skip o Js).c =
      (Js.flatMap fun I => (assembleFrom 0 as).keep I).map fun u => (assembleFrom 0 as).c.getD u 0 := by
  unfold blocks
  rw [flat_c, List.flatMap_map, List.map_flatMap]
  congr 1
  funext I
  exact i_interval_c as T hB skip I

theorem i_blocks_l (as : List AssetProblem) (T : Nat) (hB : ∀ a ∈ as, WB a T) (skip : List String) (o : Nat)
    (Js : List (List Nat)) :
    (blocks as skip o Js).l =
      (Js.flatMap fun I => (assembleFrom 0 as).keep I).map fun u => (assembleFrom 0 as).l.getD u 0 := by
  unfold blocks
  rw [flat_l, List.flatMap_map, List.map_flatMap]
  congr 1
  funext I
  exact i_interval_l as T hB skip I

theorem i_blocks_u (as : List AssetProblem) (T : Nat) (hB : ∀ a ∈ as, WB a T) (skip : List String) (o : Nat)
    (Js : List (List Nat)) :
    (blocks as skip o Js).u =
      (Js.flatMap fun I => (assembleFrom 0 as).keep I).map fun u => (assembleFrom 0 as).u.getD u 0 := by
  unfold blocks
  rw [flat_u, List.flatMap_map, List.map_flatMap]
  congr 1
  funext I
  exact i_interval_u as T hB skip I
/-- every row of the block sum is a row of the unsplit problem, renamed along the matching -/
theorem i_blocks_rows_sub (as : List AssetProblem) (T : Nat) (hB : ∀ a ∈ as, WB a T) (skip : List String)
    (Js : List (List Nat)) (pre : List Nat)
    (hpre : ∀ I ∈ Js, ∀ u ∈ (assembleFrom 0 as).keep I, u ∉ pre)
    (hdisj : Js.Pairwise fun I J => ∀ u ∈ (assembleFrom 0 as).keep I, u ∉ (assembleFrom 0 as).keep J) :
    ∀ R ∈ (blocks as skip pre.length Js).rows, ∃ r ∈ (assemble as (List.range T) skip).rows,
      R = r.rename fun u => (pre ++ Js.flatMap fun I => (assembleFrom 0 as).keep I).idxOf u := by
  induction Js generalizing pre with
  | nil => intro R hR; simp [blocks] at hR
  | cons I Js ih =>
    intro R hR
    rw [blocks_cons] at hR
    obtain ⟨hd1, hd2⟩ := List.pairwise_cons.mp hdisj
    rcases List.mem_append.mp hR with h | h
    · obtain ⟨R0, hR0, rfl⟩ := List.mem_map.mp h
      obtain ⟨r, hr, hv, rfl⟩ := i_interval_rows_sub as T hB skip I R0 hR0
      refine ⟨r, hr, ?_⟩
      rw [rename_rename, List.flatMap_cons]
      apply rename_congr
      intro q hq
      exact (idx_in_block pre _ _ q.1 (hv q hq) (hpre I (by simp) q.1 (hv q hq))).symm
    · rw [i_interval_n as T hB skip I] at h
      have hlen : pre.length + ((assembleFrom 0 as).keep I).length = (pre ++ (assembleFrom 0 as).keep I).length := by
        simp
      rw [hlen] at h
      obtain ⟨r, hr, hR⟩ := ih (pre ++ (assembleFrom 0 as).keep I) (by
        intro J hJ u hu hmem
        rcases List.mem_append.mp hmem with h1 | h1
        · exact hpre J (by simp [hJ]) u hu h1
        · exact hd1 J hJ u h1 hu) hd2 R h
      refine ⟨r, hr, ?_⟩
      rw [hR, List.flatMap_cons, List.append_assoc]

/-- every row of the unsplit problem that belongs to one of the step lists occurs, renamed along the matching, in
    the block sum -/
theorem i_blocks_rows_sup (as : List AssetProblem) (T : Nat) (hB : ∀ a ∈ as, WB a T) (skip : List String)
    (Js : List (List Nat)) (pre : List Nat)
    (hpre : ∀ I ∈ Js, ∀ u ∈ (assembleFrom 0 as).keep I, u ∉ pre)
    (hdisj : Js.Pairwise fun I J => ∀ u ∈ (assembleFrom 0 as).keep I, u ∉ (assembleFrom 0 as).keep J)
    (I : List Nat) (hI : I ∈ Js) (r : Row) (hv : ∀ q ∈ r.coeffs, q.1 ∈ (assembleFrom 0 as).keep I)
    (hr : (r.rename fun u => ((assembleFrom 0 as).keep I).idxOf u) ∈ (intervalProblem as skip I).rows) :
    (r.rename fun u => (pre ++ Js.flatMap fun I => (assembleFrom 0 as).keep I).idxOf u)
      ∈ (blocks as skip pre.length Js).rows := by
  induction Js generalizing pre with
  | nil => simp at hI
  | cons I0 Js ih =>
    rw [blocks_cons]
    obtain ⟨hd1, hd2⟩ := List.pairwise_cons.mp hdisj
    rcases List.mem_cons.mp hI with rfl | hI'
    · apply List.mem_append_left
      refine List.mem_map.mpr ⟨_, hr, ?_⟩
      rw [rename_rename, List.flatMap_cons]
      apply rename_congr
      intro q hq
      exact (idx_in_block pre _ _ q.1 (hv q hq) (hpre I (by simp) q.1 (hv q hq))).symm
    · apply List.mem_append_right
      rw [i_interval_n as T hB skip I0]
      have hlen : pre.length + ((assembleFrom 0 as).keep I0).length = (pre ++ (assembleFrom 0 as).keep I0).length := by
        simp
      rw [hlen]
      have := ih (pre ++ (assembleFrom 0 as).keep I0) (by
        intro J hJ u hu hmem
        rcases List.mem_append.mp hmem with h1 | h1
        · exact hpre J (by simp [hJ]) u hu h1
        · exact hd1 J hJ u h1 hu) hd2 hI'
      rw [List.flatMap_cons, ← List.append_assoc]
      exact this

/-- a relation between the steps and flags of two mapping rows of the same variable goes over to the concatenation -/
theorem assembled_pair (R : Nat → Bool → Nat → Bool → Prop) (as : List AssetProblem) (T : Nat)
    (hB : ∀ a ∈ as, WB a T)
    (hR : ∀ a ∈ as, ∀ m ∈ a.mapping, ∀ m' ∈ a.mapping, m.var = m'.var → R m.step m.isBool m'.step m'.isBool)
    (off : Nat) :
    ∀ m ∈ (assembleFrom off as).mapping, ∀ m' ∈ (assembleFrom off as).mapping, m.var = m'.var →
      R m.step m.isBool m'.step m'.isBool := by
  induction as generalizing off with
  | nil => intro m hm; simp at hm
  | cons a rest ih =>
    have ha := hB a (by simp)
    have hB' : ∀ b ∈ rest, WB b T := fun b hb => hB b (by simp [hb])
    have hr := i_assembleFrom_gbanded rest T hB' (off + a.n)
    have ih' := ih hB' (fun b hb => hR b (by simp [hb])) (off + a.n)
    rw [assembleFrom_cons_mapping]
    intro m hm m' hm' hv
    rcases List.mem_append.mp hm with h | h <;> rcases List.mem_append.mp hm' with h' | h'
    · obtain ⟨m1, hm1, rfl⟩ := List.mem_map.mp h
      obtain ⟨m2, hm2, rfl⟩ := List.mem_map.mp h'
      have hv' : m1.var = m2.var := by
        have : off + m1.var = off + m2.var := hv
        omega
      exact hR a (by simp) m1 hm1 m2 hm2 hv'
    · obtain ⟨m1, hm1, rfl⟩ := List.mem_map.mp h
      have h1 := ha.map_var m1 hm1
      have h2 := hr.var_ge m' h'
      have : off + m1.var = m'.var := hv
      omega
    · obtain ⟨m2, hm2, rfl⟩ := List.mem_map.mp h'
      have h1 := ha.map_var m2 hm2
      have h2 := hr.var_ge m h
      have : m.var = off + m2.var := hv
      omega
    · exact ih' m h m' h' hv

theorem assembled_same_block (as : List AssetProblem) (T : Nat) (Is : List (List Nat))
    (hI : ∀ a ∈ as, IntervalBanded a T Is) (off : Nat) :
    ∀ m ∈ (assembleFrom off as).mapping, ∀ m' ∈ (assembleFrom off as).mapping, m.var = m'.var →
      ∀ I ∈ Is, m.step ∈ I → m'.step ∈ I :=
  assembled_pair (fun s _ s' _ => ∀ I ∈ Is, s ∈ I → s' ∈ I) as T (fun a ha => (hI a ha).wb)
    (fun a ha => (hI a ha).same_block) off

theorem assembled_bool_const (as : List AssetProblem) (T : Nat) (Is : List (List Nat))
    (hI : ∀ a ∈ as, IntervalBanded a T Is) (off : Nat) :
    ∀ m ∈ (assembleFrom off as).mapping, ∀ m' ∈ (assembleFrom off as).mapping, m.var = m'.var →
      m.isBool = m'.isBool :=
  assembled_pair (fun _ b _ b' => b = b') as T (fun a ha => (hI a ha).wb) (fun a ha => (hI a ha).bool_const) off

/-- disjoint step lists keep disjoint sets of variables -/
theorem i_keep_disjoint (as : List AssetProblem) (T : Nat) (Is : List (List Nat)) (hI : ∀ a ∈ as, IntervalBanded a T Is)
    (hd : Is.Pairwise fun I J => ∀ t ∈ I, t ∉ J) :
    Is.Pairwise fun I J => ∀ u ∈ (assembleFrom 0 as).keep I, u ∉ (assembleFrom 0 as).keep J := by
  apply List.Pairwise.imp_of_mem _ hd
  intro I J hIm _ hIJ u hu hu'
  obtain ⟨_, m, hm, hv, hs⟩ := (mem_pkeep _ _ _).mp hu
  obtain ⟨_, m', hm', hv', hs'⟩ := (mem_pkeep _ _ _).mp hu'
  have := (assembled_same_block as T Is hI 0) m hm m' hm' (hv.trans hv'.symm) I hIm hs
  exact hIJ m'.step this hs'

theorem i_splitPerm_isPerm (as : List AssetProblem) (T : Nat) (hB : ∀ a ∈ as, WB a T) (Is : List (List Nat))
    (hP : isPartition Is T = true)
    (hkd : Is.Pairwise fun I J => ∀ u ∈ (assembleFrom 0 as).keep I, u ∉ (assembleFrom 0 as).keep J) :
    isPermOf (Is.flatMap fun I => (assembleFrom 0 as).keep I) (assembleFrom 0 as).n = true := by
  obtain ⟨hcov, hd⟩ := isPartition_spec Is T hP
  have hG := i_assembleFrom_gbanded as T hB 0
  have hn : (assembleFrom 0 as).n = (as.map (·.n)).sum := assembleFrom_n 0 as
  have hnodup : (Is.flatMap fun I => (assembleFrom 0 as).keep I).Nodup := by
    rw [List.Nodup, List.pairwise_flatMap]
    refine ⟨fun I _ => pkeep_nodup _ I, ?_⟩
    apply List.Pairwise.imp _ hkd
    intro I J h x hx y hy hxy
    exact h x hx (hxy ▸ hy)
  have hlt : ∀ u ∈ (Is.flatMap fun I => (assembleFrom 0 as).keep I), u < (assembleFrom 0 as).n := by
    intro u hu
    obtain ⟨I, _, huI⟩ := List.mem_flatMap.mp hu
    exact ((mem_pkeep _ _ _).mp huI).1
  have hall : ∀ u, u < (assembleFrom 0 as).n → u ∈ (Is.flatMap fun I => (assembleFrom 0 as).keep I) := by
    intro u hu
    obtain ⟨m, hm, hv⟩ := hG.covered u (by omega) (by omega)
    obtain ⟨I, hI, ht⟩ := hcov m.step (hG.step_lt m hm)
    exact List.mem_flatMap.mpr ⟨I, hI, (mem_pkeep _ _ _).mpr ⟨hu, m, hm, hv, ht⟩⟩
  have hperm : (Is.flatMap fun I => (assembleFrom 0 as).keep I).Perm (List.range (assembleFrom 0 as).n) := by
    rw [List.perm_ext_iff_of_nodup hnodup List.nodup_range]
    intro u
    rw [List.mem_range]
    exact ⟨hlt u, hall u⟩
  unfold isPermOf
  simp only [Bool.and_eq_true, decide_eq_true_eq, List.all_eq_true]
  refine ⟨⟨⟨?_, hlt⟩, hnodup⟩, ?_⟩
  · rw [hperm.length_eq, List.length_range]
  · intro u hu
    exact List.contains_iff_mem.mpr (hall u (List.mem_range.mp hu))
theorem i_restrictTo_wf {a : AssetProblem} {T : Nat} (h : WB a T) (I : List Nat) :
    (a.restrictTo I).l.length = (a.restrictTo I).n ∧ (a.restrictTo I).u.length = (a.restrictTo I).n ∧
    (∀ m ∈ (a.restrictTo I).mapping, m.var < (a.restrictTo I).n) ∧
    (∀ r ∈ (a.restrictTo I).rows, ∀ q ∈ r.coeffs, q.1 < (a.restrictTo I).n) := by
  refine ⟨by rw [restrictTo_n]; simp [AssetProblem.restrictTo],
          by rw [restrictTo_n]; simp [AssetProblem.restrictTo], ?_, ?_⟩
  · intro m hm
    rw [restrictTo_n]
    simp only [AssetProblem.restrictTo, List.mem_map] at hm
    obtain ⟨m0, hm0, rfl⟩ := hm
    obtain ⟨h1, h2⟩ := List.mem_filter.mp hm0
    exact List.idxOf_lt_length_of_mem (i_banded_var_mem_keep h I m0 h1 (List.contains_iff_mem.mp h2))
  · intro r hr q hq
    rw [restrictTo_n]
    simp only [AssetProblem.restrictTo, List.mem_map] at hr
    obtain ⟨r0, hr0, rfl⟩ := hr
    obtain ⟨_, h2⟩ := List.mem_filter.mp hr0
    simp only [Row.rename, List.mem_map] at hq
    obtain ⟨q0, hq0, rfl⟩ := hq
    exact List.idxOf_lt_length_of_mem (List.contains_iff_mem.mp (List.all_eq_true.mp h2 q0 hq0))
theorem i_banded_wf {a : AssetProblem} {T : Nat} (h : WB a T) :
    a.l.length = a.n ∧ a.u.length = a.n ∧ (∀ m ∈ a.mapping, m.var < a.n) ∧
      (∀ r ∈ a.rows, ∀ q ∈ r.coeffs, q.1 < a.n) :=
  ⟨h.l_len, h.u_len, h.map_var, fun r hr => (h.rows_ok r hr).2⟩

theorem i_intervalProblem_wfIdx (as : List AssetProblem) (T : Nat) (hB : ∀ a ∈ as, WB a T) (skip : List String)
    (I : List Nat) : (intervalProblem as skip I).wfIdx = true := by
  apply assemble_wfIdx (as.map fun a => a.restrictTo I) (List.range I.length) skip
  intro a' ha'
  obtain ⟨a, ha, rfl⟩ := List.mem_map.mp ha'
  exact i_restrictTo_wf (hB a ha) I


/-! ### boolean variables through the mapping rows -/

theorem mem_boolVarsOf (M : List MapRow)
    (hc : ∀ m ∈ M, ∀ m' ∈ M, m.var = m'.var → m.isBool = m'.isBool) (j : Nat) :
    j ∈ boolVarsOf M ↔ ∃ m ∈ M, m.var = j ∧ m.isBool = true := by
  unfold boolVarsOf
  constructor
  · intro h
    obtain ⟨m, hm, rfl⟩ := List.mem_map.mp h
    obtain ⟨h1, h2⟩ := List.mem_filter.mp hm
    exact ⟨m, mem_firstRows M [] m h1, rfl, h2⟩
  · rintro ⟨m, hm, rfl, hb⟩
    obtain ⟨m', hm', hv⟩ := OrderBook.firstRows_complete M [] m hm (by simp)
    have hmem := OrderBook.firstRows_subset M [] m' hm'
    refine List.mem_map.mpr ⟨m', List.mem_filter.mpr ⟨hm', ?_⟩, hv⟩
    rw [hc m' hmem m hm hv]; exact hb

theorem blocks_cons_mapping (as : List AssetProblem) (skip : List String) (o : Nat) (I : List Nat)
    (Js : List (List Nat)) :
    (blocks as skip o (I :: Js)).mapping =
      (intervalProblem as skip I).mapping.map (MapRow.shift o) ++
        (blocks as skip (o + (intervalProblem as skip I).n) Js).mapping := rfl

theorem intervalProblem_mapping (as : List AssetProblem) (T : Nat) (hB : ∀ a ∈ as, WB a T) (skip : List String)
    (I : List Nat) :
    (intervalProblem as skip I).mapping =
      ((assembleFrom 0 as).mapping.filter fun m => I.contains m.step).map
        (renMap I fun u => ((assembleFrom 0 as).keep I).idxOf u) := by
  rw [← i_intervalMapping as T hB I]
  rfl

/-- every mapping row of the block sum is a mapping row of the unsplit problem, renamed along the matching -/
theorem blocks_map_sub (as : List AssetProblem) (T : Nat) (hB : ∀ a ∈ as, WB a T) (skip : List String)
    (Js : List (List Nat)) (pre : List Nat)
    (hpre : ∀ I ∈ Js, ∀ u ∈ (assembleFrom 0 as).keep I, u ∉ pre)
    (hdisj : Js.Pairwise fun I J => ∀ u ∈ (assembleFrom 0 as).keep I, u ∉ (assembleFrom 0 as).keep J) :
    ∀ m ∈ (blocks as skip pre.length Js).mapping, ∃ m0 ∈ (assembleFrom 0 as).mapping,
      m.var = (pre ++ Js.flatMap fun I => (assembleFrom 0 as).keep I).idxOf m0.var ∧ m.isBool = m0.isBool ∧
      m0.var ∈ (Js.flatMap fun I => (assembleFrom 0 as).keep I) := by
  induction Js generalizing pre with
  | nil => intro m hm; simp [blocks] at hm
  | cons I Js ih =>
    intro m hm
    rw [blocks_cons_mapping] at hm
    obtain ⟨hd1, hd2⟩ := List.pairwise_cons.mp hdisj
    rcases List.mem_append.mp hm with h | h
    · obtain ⟨m1, hm1, rfl⟩ := List.mem_map.mp h
      rw [intervalProblem_mapping as T hB skip I] at hm1
      obtain ⟨m0, hm0, rfl⟩ := List.mem_map.mp hm1
      obtain ⟨hm0M, hs⟩ := List.mem_filter.mp hm0
      have hk := i_disp_var_kept as T hB I m0 hm0M (List.contains_iff_mem.mp hs)
      refine ⟨m0, hm0M, ?_, rfl, ?_⟩
      · rw [List.flatMap_cons]
        exact (idx_in_block pre _ _ m0.var hk (hpre I (by simp) m0.var hk)).symm
      · rw [List.flatMap_cons]; exact List.mem_append_left _ hk
    · rw [i_interval_n as T hB skip I] at h
      have hlen : pre.length + ((assembleFrom 0 as).keep I).length = (pre ++ (assembleFrom 0 as).keep I).length := by
        simp
      rw [hlen] at h
      obtain ⟨m0, hm0, hv, hb, hmem⟩ := ih (pre ++ (assembleFrom 0 as).keep I) (by
        intro J hJ u hu hmem
        rcases List.mem_append.mp hmem with h1 | h1
        · exact hpre J (by simp [hJ]) u hu h1
        · exact hd1 J hJ u h1 hu) hd2 m h
      refine ⟨m0, hm0, ?_, hb, ?_⟩
      · rw [hv, List.flatMap_cons, List.append_assoc]
      · rw [List.flatMap_cons]; exact List.mem_append_right _ hmem

/-- every mapping row of the unsplit problem at a step of one of the lists occurs, renamed, in the block sum -/
theorem blocks_map_sup (as : List AssetProblem) (T : Nat) (hB : ∀ a ∈ as, WB a T) (skip : List String)
    (Js : List (List Nat)) (pre : List Nat)
    (hpre : ∀ I ∈ Js, ∀ u ∈ (assembleFrom 0 as).keep I, u ∉ pre)
    (hdisj : Js.Pairwise fun I J => ∀ u ∈ (assembleFrom 0 as).keep I, u ∉ (assembleFrom 0 as).keep J)
    (I : List Nat) (hI : I ∈ Js) (m0 : MapRow) (hm0 : m0 ∈ (assembleFrom 0 as).mapping) (hs : m0.step ∈ I) :
    ∃ m ∈ (blocks as skip pre.length Js).mapping,
      m.var = (pre ++ Js.flatMap fun I => (assembleFrom 0 as).keep I).idxOf m0.var ∧ m.isBool = m0.isBool := by
  induction Js generalizing pre with
  | nil => simp at hI
  | cons I0 Js ih =>
    rw [blocks_cons_mapping]
    obtain ⟨hd1, hd2⟩ := List.pairwise_cons.mp hdisj
    rcases List.mem_cons.mp hI with rfl | hI'
    · have hk := i_disp_var_kept as T hB I m0 hm0 hs
      refine ⟨(renMap I (fun u => ((assembleFrom 0 as).keep I).idxOf u) m0).shift pre.length,
        List.mem_append_left _ (List.mem_map_of_mem ?_), ?_, rfl⟩
      · rw [intervalProblem_mapping as T hB skip I]
        exact List.mem_map_of_mem (List.mem_filter.mpr ⟨hm0, List.contains_iff_mem.mpr hs⟩)
      · rw [List.flatMap_cons]
        exact (idx_in_block pre _ _ m0.var hk (hpre I (by simp) m0.var hk)).symm
    · rw [i_interval_n as T hB skip I0]
      have hlen : pre.length + ((assembleFrom 0 as).keep I0).length = (pre ++ (assembleFrom 0 as).keep I0).length := by
        simp
      rw [hlen]
      obtain ⟨m, hm, hv, hb⟩ := ih (pre ++ (assembleFrom 0 as).keep I0) (by
        intro J hJ u hu hmem
        rcases List.mem_append.mp hmem with h1 | h1
        · exact hpre J (by simp [hJ]) u hu h1
        · exact hd1 J hJ u h1 hu) hd2 hI'
      refine ⟨m, List.mem_append_right _ hm, ?_, hb⟩
      rw [hv, List.flatMap_cons, List.append_assoc]

theorem natsSubset_of_mem (as bs : List Nat) (h : ∀ j ∈ as, j ∈ bs) : natsSubset as bs = true := by
  unfold natsSubset
  rw [List.all_eq_true]
  intro j hj
  exact List.contains_iff_mem.mpr (h j hj)

/-- **the general theorem for interval-banded asset problems** -/
theorem witness_of_interval_banded (as : List AssetProblem) (T : Nat) (Is : List (List Nat)) (skip : List String)
    (hIB : ∀ a ∈ as, IntervalBanded a T Is) (hP : isPartition Is T = true) (hR : ∀ a ∈ as, RowsInside a Is) :
    splitWitness (assemble as (List.range T) skip) (Is.map (intervalProblem as skip))
      (splitPerm (assemble as (List.range T) skip) Is) = true := by
  have hB : ∀ a ∈ as, WB a T := fun a ha => (hIB a ha).wb
  obtain ⟨hcov, hd⟩ := isPartition_spec Is T hP
  have hkd := i_keep_disjoint as T Is hIB hd
  have hG := i_assembleFrom_gbanded as T hB 0
  rw [splitPerm_assemble]
  unfold splitWitness
  simp only [Bool.and_eq_true]
  refine ⟨⟨⟨?_, ?_⟩, ?_⟩, ?_⟩
  · exact assemble_wfIdx as _ skip (fun a ha => i_banded_wf (hB a ha))
  · rw [List.all_eq_true]
    intro P hP'
    obtain ⟨I, _, rfl⟩ := List.mem_map.mp hP'
    exact i_intervalProblem_wfIdx as T hB skip I
  · rw [assemble_n]
    exact i_splitPerm_isPerm as T hB Is hP hkd
  · rw [blockSum_eq_blocks]
    have hUc := assembled_bool_const as T Is hIB 0
    have hmapU : ((assemble as (List.range T) skip).renameAlong
        (Is.flatMap fun I => (assembleFrom 0 as).keep I)).mapping =
        (assembleFrom 0 as).mapping.map (MapRow.rename (invPerm (Is.flatMap fun I => (assembleFrom 0 as).keep I))) := by
      show (assemble as (List.range T) skip).mapping.map _ = _
      rw [assemble_mapping]
    have hmemP : ∀ m ∈ (assembleFrom 0 as).mapping, m.var ∈ (Is.flatMap fun I => (assembleFrom 0 as).keep I) := by
      intro m hm
      obtain ⟨I, hI, ht⟩ := hcov m.step (hG.step_lt m hm)
      exact List.mem_flatMap.mpr ⟨I, hI, i_disp_var_kept as T hB I m hm ht⟩
    have hAc : ∀ m ∈ ((assemble as (List.range T) skip).renameAlong
        (Is.flatMap fun I => (assembleFrom 0 as).keep I)).mapping, ∀ m' ∈ ((assemble as (List.range T) skip).renameAlong
        (Is.flatMap fun I => (assembleFrom 0 as).keep I)).mapping, m.var = m'.var → m.isBool = m'.isBool := by
      rw [hmapU]
      intro m hm m' hm' hv
      obtain ⟨m0, hm0, rfl⟩ := List.mem_map.mp hm
      obtain ⟨m1, hm1, rfl⟩ := List.mem_map.mp hm'
      exact hUc m0 hm0 m1 hm1 (idxOf_inj_of_mem _ _ _ (hmemP m0 hm0) hv)
    have hsub := blocks_map_sub as T hB skip Is [] (fun _ _ _ _ h => by simp at h) hkd
    have hBc : ∀ m ∈ (blocks as skip 0 Is).mapping, ∀ m' ∈ (blocks as skip 0 Is).mapping, m.var = m'.var →
        m.isBool = m'.isBool := by
      intro m hm m' hm' hv
      obtain ⟨m0, hm0, hv0, hb0, hk0⟩ := hsub m hm
      obtain ⟨m1, hm1, hv1, hb1, _⟩ := hsub m' hm'
      rw [List.nil_append] at hv0 hv1
      rw [hb0, hb1]
      exact hUc m0 hm0 m1 hm1 (idxOf_inj_of_mem _ _ _ hk0 (by rw [← hv0, ← hv1]; exact hv))
    have hb1 : natsSubset ((assemble as (List.range T) skip).renameAlong
        (Is.flatMap fun I => (assembleFrom 0 as).keep I)).boolVars (blocks as skip 0 Is).boolVars = true := by
      apply natsSubset_of_mem
      intro j hj
      rw [boolVars_eq, mem_boolVarsOf _ hAc] at hj
      obtain ⟨m, hm, rfl, hb⟩ := hj
      rw [hmapU] at hm
      obtain ⟨m0, hm0, rfl⟩ := List.mem_map.mp hm
      obtain ⟨I, hI, ht⟩ := hcov m0.step (hG.step_lt m0 hm0)
      obtain ⟨m', hm', hv', hb'⟩ := blocks_map_sup as T hB skip Is [] (fun _ _ _ _ h => by simp at h) hkd I hI m0 hm0 ht
      rw [List.nil_append] at hv'
      rw [boolVars_eq, mem_boolVarsOf _ hBc]
      exact ⟨m', hm', hv', by rw [hb']; exact hb⟩
    have hb2 : natsSubset (blocks as skip 0 Is).boolVars ((assemble as (List.range T) skip).renameAlong
        (Is.flatMap fun I => (assembleFrom 0 as).keep I)).boolVars = true := by
      apply natsSubset_of_mem
      intro j hj
      rw [boolVars_eq, mem_boolVarsOf _ hBc] at hj
      obtain ⟨m, hm, rfl, hb⟩ := hj
      obtain ⟨m0, hm0, hv0, hb0, _⟩ := hsub m hm
      rw [List.nil_append] at hv0
      rw [boolVars_eq, mem_boolVarsOf _ hAc, hmapU]
      exact ⟨_, List.mem_map_of_mem hm0, hv0.symm, by show m0.isBool = true; rw [← hb0]; exact hb⟩
    unfold sameProblem
    have hc : ((assemble as (List.range T) skip).renameAlong
        (Is.flatMap fun I => (assembleFrom 0 as).keep I)).c = (blocks as skip 0 Is).c := by
      rw [i_blocks_c as T hB skip 0 Is]; rfl
    simp only [Bool.and_eq_true, decide_eq_true_eq]
    refine ⟨⟨⟨⟨⟨⟨⟨?_, hc⟩, ?_⟩, ?_⟩, ?_⟩, ?_⟩, ?_⟩, ?_⟩
    · unfold Problem.n; rw [hc]
    · rw [i_blocks_l as T hB skip 0 Is]; rfl
    · rw [i_blocks_u as T hB skip 0 Is]; rfl
    · -- every unsplit row occurs among the interval rows
      apply rowsSubset_of_mem
      intro R hR'
      have hR'' : R ∈ (assemble as (List.range T) skip).rows.map
          (Row.rename (invPerm (Is.flatMap fun I => (assembleFrom 0 as).keep I))) := hR'
      obtain ⟨r, hr, rfl⟩ := List.mem_map.mp hR''
      rw [assemble_rows] at hr
      have key : ∀ I ∈ Is, (∀ q ∈ r.coeffs, q.1 ∈ (assembleFrom 0 as).keep I) →
          (r.rename fun u => ((assembleFrom 0 as).keep I).idxOf u) ∈ (intervalProblem as skip I).rows →
          r.rename (invPerm (Is.flatMap fun I => (assembleFrom 0 as).keep I)) ∈ (blocks as skip 0 Is).rows := by
        intro I hI hv hmem
        have h2 := i_blocks_rows_sup as T hB skip Is [] (fun _ _ _ _ h => by simp at h) hkd I hI r hv hmem
        rw [List.nil_append] at h2
        exact h2
      rcases List.mem_append.mp hr with h | h
      · obtain ⟨I, hI, hk⟩ := rows_cover Is as hR 0 r h
        have hv := (keptRows_sub I 0 as r hk).2
        rw [i_keptFrom_eq_pkeep as T hB I] at hv
        exact key I hI hv (i_interval_rows_sup_asset as T hB skip I r hk)
      · obtain ⟨⟨t, n⟩, hp, rfl⟩ := List.mem_map.mp h
        have ht : t < T := List.mem_range.mp ((mem_nodalPairs_iff _ _ _ _ t n).mp hp).2.2.1
        obtain ⟨I, hI, htI⟩ := hcov t ht
        obtain ⟨g1, g2⟩ := i_interval_rows_sup_nodal as T hB skip I t n hp htI
        exact key I hI g2 g1
    · -- every interval row is a row of the unsplit problem
      apply rowsSubset_of_mem
      intro R hR'
      obtain ⟨r, hr, hRr⟩ := i_blocks_rows_sub as T hB skip Is [] (fun _ _ _ _ h => by simp at h) hkd R hR'
      rw [List.nil_append] at hRr
      have : R = r.rename (invPerm (Is.flatMap fun I => (assembleFrom 0 as).keep I)) := hRr
      rw [this]
      exact List.mem_map_of_mem hr
    · exact hb1
    · exact hb2

theorem i_assemble_rows_ne (as : List AssetProblem) (T : Nat) (hB : ∀ a ∈ as, WB a T) (gridI : List Nat)
    (skip : List String) : ∀ r ∈ (assemble as gridI skip).rows, r.coeffs ≠ [] := by
  intro r hr
  rw [assemble_rows] at hr
  rcases List.mem_append.mp hr with h | h
  · obtain ⟨a, ha, r', hr', o, rfl⟩ := mem_assembleFrom_rows as 0 r h
    have := ((hB a ha).rows_ok r' hr').1
    simpa [Row.rename] using this
  · obtain ⟨⟨t, n⟩, hp, rfl⟩ := List.mem_map.mp h
    obtain ⟨_, _, _, hany⟩ := (mem_nodalPairs_iff _ _ _ _ t n).mp hp
    obtain ⟨m, hm, hd⟩ := List.any_eq_true.mp hany
    intro hnil
    have : (m.var, m.factor) ∈ (nodalRow (assembleFrom 0 as).mapping n t).coeffs := by
      unfold nodalRow
      exact List.mem_map_of_mem (List.mem_filter.mpr ⟨hm, hd⟩)
    rw [hnil] at this
    simp at this

theorem i_intervalProblem_rows_ne (as : List AssetProblem) (T : Nat) (hB : ∀ a ∈ as, WB a T) (skip : List String)
    (I : List Nat) : ∀ r ∈ (intervalProblem as skip I).rows, r.coeffs ≠ [] := by
  intro R hR
  obtain ⟨r, hr, _, rfl⟩ := i_interval_rows_sub as T hB skip I R hR
  have := i_assemble_rows_ne as T hB (List.range T) skip r hr
  simpa [Row.rename] using this

/-! ## Part 2: the order book and the five builders -/

/-- **the order book is interval-banded** when every order covers a step of the grid and none reaches across a cut
    (an order without a covered step is an inert variable: it is dropped before, `EAO.C14O.inert_vars_equiv`) -/
theorem orderBook_intervalBanded (name node : String) (orders : List Order) (fe : Bool) (g : Grid) (T : Nat)
    (Is : List (List Nat)) (hidx : g.idx = List.range g.T) (hT : g.T ≤ T)
    (hlive : ∀ o ∈ orders, coverPos g o ≠ [])
    (hin : ∀ o ∈ orders, ∀ I ∈ Is, orderInside g I o = true) :
    IntervalBanded (orderBookProblem name node orders fe g) T Is := by
  have hrow : ∀ m ∈ (orderBookProblem name node orders fe g).mapping,
      ∃ j o i, orders[j]? = some o ∧ i ∈ coverPos g o ∧ m = orderRow name node fe g j o i := by
    intro m hm
    obtain ⟨j, o, i, hj, hi, rfl⟩ := OrderBook.mem_orderMapFrom name node fe g orders 0 m hm
    exact ⟨j, o, i, hj, hi, by rw [Nat.zero_add]⟩
  have hlt : ∀ j (o : Order), orders[j]? = some o → j < orders.length := by
    intro j o ho
    rcases Nat.lt_or_ge j orders.length with h | h
    · exact h
    · rw [List.getElem?_eq_none h] at ho; cases ho
  refine ⟨⟨by simp [orderBookProblem, AssetProblem.n], by simp [orderBookProblem, AssetProblem.n], ?_, ?_, ?_, ?_⟩, ?_, ?_⟩
  · intro m hm
    obtain ⟨j, o, i, hj, _, rfl⟩ := hrow m hm
    simpa [orderBookProblem, AssetProblem.n, orderRow] using hlt j o hj
  · intro m hm
    obtain ⟨j, o, i, _, hi, rfl⟩ := hrow m hm
    have hiT := (OrderBook.mem_coverPos g o i hi).1
    show g.idx.getD i 0 < T
    rw [hidx, List.getD_eq_getElem?_getD, List.getElem?_range hiT]
    exact Nat.lt_of_lt_of_le hiT hT
  · intro v hv
    have hv' : v < orders.length := by simpa [orderBookProblem, AssetProblem.n] using hv
    have ho : orders[v]? = some orders[v] := List.getElem?_eq_getElem hv'
    obtain ⟨i, rest, hc⟩ := List.exists_cons_of_ne_nil (hlive _ (List.getElem_mem hv'))
    refine ⟨orderRow name node fe g (0 + v) orders[v] i,
      OrderBook.orderRow_mem_orderMapFrom name node fe g orders 0 v _ i ho (by rw [hc]; simp), ?_⟩
    simp [orderRow]
  · intro r hr
    simp [orderBookProblem] at hr
  · intro m hm m' hm' hv I hI hs
    obtain ⟨j, o, i, hj, hi, rfl⟩ := hrow m hm
    obtain ⟨j', o', i', hj', hi', rfl⟩ := hrow m' hm'
    have hjj : j = j' := hv
    subst hjj
    have hoo : o = o' := by rw [hj] at hj'; exact Option.some.inj hj'
    subst hoo
    have hs' : g.idx.getD i 0 ∈ I := hs
    show g.idx.getD i' 0 ∈ I
    rcases ObSplit.orderInside_spec g I o (hin o (List.mem_of_getElem? hj) I hI) with h | h
    · exact h i' hi'
    · exact absurd hs' (h i hi)
  · intro m hm m' hm' _
    obtain ⟨j, o, i, _, _, rfl⟩ := hrow m hm
    obtain ⟨j', o', i', _, _, rfl⟩ := hrow m' hm'
    rfl

theorem orderBook_rowsInside (name node : String) (orders : List Order) (fe : Bool) (g : Grid) (Is : List (List Nat)) :
    RowsInside (orderBookProblem name node orders fe g) Is := by
  intro r hr
  simp [orderBookProblem] at hr

/-! ### portfolios of the five builders plus order books -/

/-- the specs of the contracts and transports of a portfolio with order books -/
def assetSpecs : List OSpec → List AssetSpec
  | [] => []
  | .asset a :: rest => a :: assetSpecs rest
  | .book _ _ _ _ _ :: rest => assetSpecs rest

theorem mem_assetSpecs (specs : List OSpec) (a : AssetSpec) (h : OSpec.asset a ∈ specs) : a ∈ assetSpecs specs := by
  induction specs with
  | nil => simp at h
  | cons s rest ih =>
    rcases List.mem_cons.mp h with rfl | h'
    · simp [assetSpecs]
    · cases s with
      | asset b => simp [assetSpecs, ih h']
      | book _ _ _ _ _ => simpa [assetSpecs] using ih h'

/-- every order of every book covers a step of the grid (no order is an inert variable of the UNSPLIT problem) -/
def ordersLiveAll (specs : List OSpec) (ref : Grid) : Bool :=
  specs.all fun s => match s with
    | .asset _ => true
    | .book _ _ orders _ _ => orders.all fun o => !(coverPos ref o).isEmpty

/-- **the decidable hypotheses**: `splitHyps` for the contracts and transports, every order inside one interval
    (`ordersInsideAll`) and covering a step (`ordersLiveAll`) -/
def obHyps (specs : List OSpec) (ref : Grid) (cuts : List Int) (prices : Prices) : Bool :=
  splitHyps (assetSpecs specs) ref cuts prices && ordersInsideAll specs ref cuts && ordersLiveAll specs ref

/-- the unsplit asset problems of a portfolio with order books -/
def buildAllOB (specs : List OSpec) (grid : Grid) (prices : Prices) (unitSec : Nat) : Except BuildError (List AssetProblem) :=
  specs.mapM fun s => buildOSpec s grid prices unitSec

theorem setupPortfolioOB_ok {specs : List OSpec} {grid : Grid} {prices : Prices} {u : Nat} {skip : List String}
    {U : Problem} (h : setupPortfolioOB specs grid prices u skip = .ok U) :
    ∃ as, buildAllOB specs grid prices u = .ok as ∧ U = assemble as grid.idx skip := by
  unfold setupPortfolioOB at h
  unfold buildAllOB
  simp only [bind, Except.bind, pure, Except.pure] at h
  cases has : specs.mapM (fun s => buildOSpec s grid prices u) with
  | error e => simp [has] at h
  | ok as =>
    simp only [has] at h
    injection h with h
    exact ⟨as, rfl, h.symm⟩

/-- every asset problem of such a portfolio is interval-banded and has no row across a cut -/
theorem buildOSpec_intervalBanded (specs : List OSpec) (ref : Grid) (cuts : List Int) (prices : Prices) (u : Nat)
    (hH : obHyps specs ref cuts prices = true) (s : OSpec) (hs : s ∈ specs) (A : AssetProblem)
    (hA : buildOSpec s ref prices u = .ok A) :
    IntervalBanded A ref.T ((splitPairs cuts).map (intervalSteps ref)) ∧
      RowsInside A ((splitPairs cuts).map (intervalSteps ref)) := by
  unfold obHyps at hH
  simp only [Bool.and_eq_true] at hH
  obtain ⟨⟨hS, hIn⟩, hLive⟩ := hH
  obtain ⟨hidx, hdt, hdf, _, hpart, hst⟩ := splitHyps_spec _ ref cuts prices hS
  obtain ⟨hcov, _⟩ := isPartition_spec _ _ hpart
  cases s with
  | asset a =>
    have ha := mem_assetSpecs specs a hs
    have hA' : buildSpec a ref prices u = .ok A := hA
    exact ⟨intervalBanded_of_banded (buildSpec_banded a ref prices u A hidx hdt (hdf a ha) hA') _,
      buildSpec_rowsInside a ref prices u A _ hidx hdt (hdf a ha) hcov (fun I hI => hst a ha I hI) hA'⟩
  | book name node orders fe df =>
    have hA' : Except.ok (orderBookProblem name node orders fe { ref with df := df }) = Except.ok A := hA
    injection hA' with hA'
    subst hA'
    have h1 := List.all_eq_true.mp hIn _ hs
    have h2 := List.all_eq_true.mp hLive _ hs
    simp only [List.all_eq_true] at h1 h2
    refine ⟨orderBook_intervalBanded name node orders fe _ ref.T _ hidx (Nat.le_refl _) ?_ ?_,
      orderBook_rowsInside name node orders fe _ _⟩
    · intro o ho hnil
      have := h2 o ho
      have hc : coverPos ref o = [] := hnil
      simp [hc] at this
    · intro o ho I hI
      exact h1 o ho I hI


end EAO.ObSplit2
