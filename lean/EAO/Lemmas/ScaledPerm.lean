import EAO.Model.Structured
import EAO.Model.Scaled
import EAO.Lemmas.Perm
import EAO.Lemmas.Structured
import EAO.Lemmas.NestedPerm
/-! helper lemmas for `EAO/Properties/C09Scaled.lean`: the SYNTACTIC variable-permutation relation `VarPerm σ A B`
    on asset problems (cost and bounds permuted along `σ`, rows and mapping rows renamed along `σ` — as multisets,
    coefficient lists of a row up to order —, boolean flags carried row by row); it implies the semantic `Sim` of
    `EAO/Lemmas/NestedPerm.lean`, is kept by `buildScaled` (same `σ`: it fixes the scale variable) and by `structured`
    around lists that are permuted and replaced entry by entry (`PermRel`). -/
namespace EAO.ScaledPerm
open EAO EAO.Perm EAO.Structured EAO.NestedPerm

/-! ### definitions -/

/-- `σ` permutes the variables `0 … n-1` and fixes every other index (so the same `σ` also permutes `0 … n` — the
    base variables and the scale variable of a ScaledAsset) -/
structure PermOn (σ : Nat → Nat) (n : Nat) : Prop where
  inv : ∃ τ : Nat → Nat, (∀ j, τ (σ j) = j) ∧ (∀ j, σ (τ j) = j)
  lt  : ∀ j, j < n → σ j < n
  fix : ∀ j, n ≤ j → σ j = j

/-- the same restriction up to the order of the coefficients -/
def RowEq (r r' : Row) : Prop := r.coeffs.Perm r'.coeffs ∧ r.rhs = r'.rhs ∧ r.kind = r'.kind

/-- a mapping row with its variable renamed; every label and flag (asset, node, type, step, factor, boolean flag,
    variable name) is kept -/
def renVar (σ : Nat → Nat) (m : MapRow) : MapRow := { m with var := σ m.var }

/-- the rows `R` renamed along `σ` are the rows `R'` as a multiset, each up to the order of its coefficients -/
def RowsRel (σ : Nat → Nat) (R R' : List Row) : Prop :=
  ∃ mid, (R.map (Row.rename σ)).Perm mid ∧ All2 RowEq mid R'

/-- **syntactic variable permutation**: `B` is `A` with the variables renumbered along `σ` -/
structure VarPerm (σ : Nat → Nat) (A B : AssetProblem) : Prop where
  name  : B.name = A.name
  nodes : B.nodes = A.nodes
  perm  : PermOn σ A.n
  lenl  : A.l.length = A.n
  lenu  : A.u.length = A.n
  lenc' : B.c.length = A.n
  lenl' : B.l.length = A.n
  lenu' : B.u.length = A.n
  c     : ∀ j, j < A.n → B.c.getD (σ j) 0 = A.c.getD j 0
  l     : ∀ j, j < A.n → B.l.getD (σ j) 0 = A.l.getD j 0
  u     : ∀ j, j < A.n → B.u.getD (σ j) 0 = A.u.getD j 0
  rows  : RowsRel σ A.rows B.rows
  map   : (A.mapping.map (renVar σ)).Perm B.mapping

/-- `Good` of NestedPerm (= `C09.WF ∧ C09.Local`) and: EVERY mapping row points at a variable of the asset (the scaled
    wrapper reads rows of type 'i' too) -/
structure SGood (gridI : List Nat) (a : AssetProblem) : Prop where
  good : Good gridI a
  mvar : ∀ m ∈ a.mapping, m.var < a.n

/-- some renumbering of the variables -/
def VP (a b : AssetProblem) : Prop := ∃ σ, VarPerm σ a b

/-- lists of asset problems equal up to order and up to a renumbering of the variables of every entry -/
inductive PermRel : List AssetProblem → List AssetProblem → Prop
  | nil : PermRel [] []
  | cons {a a' : AssetProblem} {l l' : List AssetProblem} : VP a a' → PermRel l l' → PermRel (a :: l) (a' :: l')
  | swap (a b : AssetProblem) (l : List AssetProblem) : PermRel (a :: b :: l) (b :: a :: l)
  | trans {l1 l2 l3 : List AssetProblem} : PermRel l1 l2 → PermRel l2 l3 → PermRel l1 l3

/-- an assembled problem read as an asset problem without labels (for stating `VarPerm` one level below
    `structured`) -/
def toAP (P : Problem) : AssetProblem :=
  { name := "", nodes := [], c := P.c, l := P.l, u := P.u, rows := P.rows, mapping := P.mapping }

/-! ### basic facts -/

theorem PermOn.id (n : Nat) : PermOn (fun j => j) n :=
  ⟨⟨fun j => j, fun _ => rfl, fun _ => rfl⟩, fun _ h => h, fun _ _ => rfl⟩

theorem PermOn.inj {σ : Nat → Nat} {n : Nat} (h : PermOn σ n) {i j : Nat} (e : σ i = σ j) : i = j := by
  obtain ⟨τ, h1, _⟩ := h.inv
  have := congrArg τ e
  rwa [h1, h1] at this

/-- `σ` permutes `0 … n` too -/
theorem PermOn.succ {σ : Nat → Nat} {n : Nat} (h : PermOn σ n) : PermOn σ (n + 1) := by
  refine ⟨h.inv, ?_, fun j hj => h.fix j (by omega)⟩
  intro j hj
  by_cases hjn : j < n
  · have := h.lt j hjn; omega
  · have := h.fix j (by omega); omega

theorem PermOn.comp {σ1 σ2 : Nat → Nat} {n : Nat} (h1 : PermOn σ1 n) (h2 : PermOn σ2 n) :
    PermOn (fun j => σ2 (σ1 j)) n := by
  obtain ⟨τ1, a1, b1⟩ := h1.inv
  obtain ⟨τ2, a2, b2⟩ := h2.inv
  refine ⟨⟨fun j => τ1 (τ2 j), fun j => by simp [a2, a1], fun j => by simp [b1, b2]⟩, ?_, ?_⟩
  · intro j hj; exact h2.lt _ (h1.lt j hj)
  · intro j hj; show σ2 (σ1 j) = j; rw [h1.fix j hj, h2.fix j hj]

/-- the inverse permutes `0 … n-1` too -/
theorem PermOn.inv_lt {σ τ : Nat → Nat} {n : Nat} (h : PermOn σ n) (h2 : ∀ j, σ (τ j) = j) (j : Nat) (hj : j < n) :
    τ j < n := by
  by_cases hlt : τ j < n
  · exact hlt
  · have := h.fix (τ j) (by omega)
    rw [h2] at this
    omega

theorem RowEq.refl (r : Row) : RowEq r r := ⟨List.Perm.refl _, rfl, rfl⟩

theorem RowEq.trans {a b c : Row} (h1 : RowEq a b) (h2 : RowEq b c) : RowEq a c :=
  ⟨h1.1.trans h2.1, h1.2.1.trans h2.2.1, h1.2.2.trans h2.2.2⟩

theorem RowEq.rename (σ : Nat → Nat) {a b : Row} (h : RowEq a b) : RowEq (a.rename σ) (b.rename σ) :=
  ⟨h.1.map _, h.2.1, h.2.2⟩

theorem rename_rename (σ1 σ2 : Nat → Nat) (r : Row) :
    (r.rename σ1).rename σ2 = r.rename (fun j => σ2 (σ1 j)) := by
  simp [Row.rename, List.map_map, Function.comp_def]

theorem rename_id (r : Row) : r.rename (fun j => j) = r := by
  cases r; simp [Row.rename]

theorem renVar_id (m : MapRow) : renVar (fun j => j) m = m := rfl

theorem RowsRel.refl_id (R : List Row) : RowsRel (fun j => j) R R :=
  ⟨R, by rw [List.map_congr_left (fun r _ => rename_id r)]; simp, All2.refl RowEq.refl R⟩

/-- every row on the right is a renamed row of the left … -/
theorem All2.mem_right {α β : Type} {R : α → β → Prop} {l : List α} {l' : List β} (h : All2 R l l') :
    ∀ b ∈ l', ∃ a ∈ l, R a b := by
  induction h with
  | nil => intro b hb; cases hb
  | cons hab _ ih =>
    intro b hb
    rcases List.mem_cons.mp hb with rfl | hb
    · exact ⟨_, by simp, hab⟩
    · obtain ⟨a, ha, hr⟩ := ih b hb
      exact ⟨a, by simp [ha], hr⟩

theorem All2.mem_left {α β : Type} {R : α → β → Prop} {l : List α} {l' : List β} (h : All2 R l l') :
    ∀ a ∈ l, ∃ b ∈ l', R a b := by
  induction h with
  | nil => intro a ha; cases ha
  | cons hab _ ih =>
    intro a ha
    rcases List.mem_cons.mp ha with rfl | ha
    · exact ⟨_, by simp, hab⟩
    · obtain ⟨b, hb, hr⟩ := ih a ha
      exact ⟨b, by simp [hb], hr⟩

theorem RowsRel.mem_right {σ : Nat → Nat} {R R' : List Row} (h : RowsRel σ R R') :
    ∀ r' ∈ R', ∃ r ∈ R, RowEq (r.rename σ) r' := by
  obtain ⟨mid, hp, ha⟩ := h
  intro r' hr'
  obtain ⟨m, hm, hr⟩ := All2.mem_right ha r' hr'
  obtain ⟨r, hr0, rfl⟩ := List.mem_map.mp (hp.mem_iff.mpr hm)
  exact ⟨r, hr0, hr⟩

theorem RowsRel.mem_left {σ : Nat → Nat} {R R' : List Row} (h : RowsRel σ R R') :
    ∀ r ∈ R, ∃ r' ∈ R', RowEq (r.rename σ) r' := by
  obtain ⟨mid, hp, ha⟩ := h
  intro r hr
  exact All2.mem_left ha _ (hp.mem_iff.mp (List.mem_map.mpr ⟨r, hr, rfl⟩))

theorem RowsRel.length {σ : Nat → Nat} {R R' : List Row} (h : RowsRel σ R R') : R'.length = R.length := by
  obtain ⟨mid, hp, ha⟩ := h
  have h1 := hp.length_eq
  rw [List.length_map] at h1
  have h2 : ∀ {l l' : List Row}, All2 RowEq l l' → l'.length = l.length := by
    intro l l' h
    induction h with
    | nil => rfl
    | cons _ _ ih => simp [ih]
  rw [h2 ha, h1]

/-- composition of row relations -/
theorem RowsRel.trans {σ1 σ2 : Nat → Nat} {R1 R2 R3 : List Row} (h1 : RowsRel σ1 R1 R2) (h2 : RowsRel σ2 R2 R3) :
    RowsRel (fun j => σ2 (σ1 j)) R1 R3 := by
  obtain ⟨m1, p1, a1⟩ := h1
  obtain ⟨m2, p2, a2⟩ := h2
  have hp : (R1.map (Row.rename fun j => σ2 (σ1 j))).Perm (m1.map (Row.rename σ2)) := by
    have := p1.map (Row.rename σ2)
    rw [List.map_map] at this
    rw [List.map_congr_left (fun r _ => (rename_rename σ1 σ2 r).symm)]
    exact this
  have ha : All2 RowEq (m1.map (Row.rename σ2)) (R2.map (Row.rename σ2)) :=
    All2.map_both _ _ _ _ (fun _ _ h => RowEq.rename σ2 h) a1
  obtain ⟨m, hpm, ham⟩ := All2.perm_lift p2 _ ha
  exact ⟨m, hp.trans hpm, All2.trans (R := RowEq) (fun _ _ _ x y => RowEq.trans x y) ham a2⟩

theorem VarPerm.n_eq {σ : Nat → Nat} {A B : AssetProblem} (h : VarPerm σ A B) : B.n = A.n := h.lenc'

/-- every well-shaped problem is the identity renumbering of itself -/
theorem VarPerm.refl (A : AssetProblem) (hl : A.l.length = A.n) (hu : A.u.length = A.n) :
    VarPerm (fun j => j) A A :=
  ⟨rfl, rfl, PermOn.id _, hl, hu, rfl, hl, hu, fun _ _ => rfl, fun _ _ => rfl, fun _ _ => rfl,
   RowsRel.refl_id _, by rw [List.map_congr_left (fun m _ => renVar_id m)]; simp⟩

theorem renVar_renVar (σ1 σ2 : Nat → Nat) (m : MapRow) :
    renVar σ2 (renVar σ1 m) = renVar (fun j => σ2 (σ1 j)) m := rfl

/-- renumberings compose -/
theorem VarPerm.trans {σ1 σ2 : Nat → Nat} {A B C : AssetProblem} (h1 : VarPerm σ1 A B) (h2 : VarPerm σ2 B C) :
    VarPerm (fun j => σ2 (σ1 j)) A C := by
  have hn : B.n = A.n := h1.n_eq
  have hp2 : PermOn σ2 A.n := hn ▸ h2.perm
  refine ⟨h2.name.trans h1.name, h2.nodes.trans h1.nodes, PermOn.comp h1.perm hp2, h1.lenl, h1.lenu,
    h2.lenc'.trans hn, h2.lenl'.trans hn, h2.lenu'.trans hn, ?_, ?_, ?_, RowsRel.trans h1.rows h2.rows, ?_⟩
  · intro j hj; rw [h2.c _ (hn ▸ h1.perm.lt j hj), h1.c j hj]
  · intro j hj; rw [h2.l _ (hn ▸ h1.perm.lt j hj), h1.l j hj]
  · intro j hj; rw [h2.u _ (hn ▸ h1.perm.lt j hj), h1.u j hj]
  · have := (h1.map.map (renVar σ2)).trans h2.map
    rw [List.map_map] at this
    exact this

/-! ### the syntactic relation implies the semantic one -/

/-- cost as a sum over the indices -/
theorem costAt_range (c : List Rat) (x : Vec) :
    costAt c 0 x = ((List.range c.length).map fun j => c.getD j 0 * x j).sum := by
  rw [costAt_eq_sum_range]
  simp only [Nat.zero_add]

/-- the image of `0 … n-1` under a permutation of `0 … n-1` is `0 … n-1` up to order -/
theorem range_map_perm {σ : Nat → Nat} {n : Nat} (h : PermOn σ n) :
    ((List.range n).map σ).Perm (List.range n) := by
  obtain ⟨τ, h1, h2⟩ := h.inv
  have hnd : ((List.range n).map σ).Nodup := by
    have hr : (List.range n).Pairwise (· ≠ ·) := List.nodup_range
    exact List.pairwise_map.mpr (hr.imp fun hne e => hne (h.inj e))
  rw [List.perm_ext_iff_of_nodup hnd List.nodup_range]
  intro a
  rw [List.mem_map, List.mem_range]
  constructor
  · rintro ⟨j, hj, rfl⟩
    exact h.lt j (List.mem_range.mp hj)
  · intro ha
    exact ⟨τ a, List.mem_range.mpr (h.inv_lt h2 a ha), h2 a⟩

/-- reindexing a sum over 0..n-1 along a permutation -/
theorem sum_range_perm {σ : Nat → Nat} {n : Nat} (h : PermOn σ n) (f : Nat → Rat) :
    ((List.range n).map fun j => f (σ j)).sum = ((List.range n).map f).sum := by
  have := sum_perm ((range_map_perm h).map f)
  rw [List.map_map] at this
  exact this

/-- rows equal up to the order of the coefficients have the same left-hand side -/
theorem RowEq.eval_eq {r r' : Row} (h : RowEq r r') (y : Vec) : r.eval y = r'.eval y := by
  unfold Row.eval
  exact sum_perm (h.1.map _)

theorem RowEq.sat_iff {r r' : Row} (h : RowEq r r') (y : Vec) : r.Sat y ↔ r'.Sat y := by
  unfold Row.Sat
  rw [h.eval_eq y, h.2.1, h.2.2]

/-- the rows of `B` hold at `y` iff the rows of `A` hold at `y ∘ σ` -/
theorem rows_sat_iff {σ : Nat → Nat} {R R' : List Row} (h : RowsRel σ R R') (y : Vec) :
    (∀ r' ∈ R', r'.Sat y) ↔ ∀ r ∈ R, r.Sat (fun j => y (σ j)) := by
  constructor
  · intro hs r hr
    obtain ⟨r', hr', he⟩ := h.mem_left r hr
    exact (sat_rename σ r y).mp ((he.sat_iff y).mpr (hs r' hr'))
  · intro hs r' hr'
    obtain ⟨r, hr, he⟩ := h.mem_right r' hr'
    exact (he.sat_iff y).mp ((sat_rename σ r y).mpr (hs r hr))

/-- the bounds of `B` hold at `y` iff the bounds of `A` hold at `y ∘ σ` -/
theorem bounds_iff {σ : Nat → Nat} {A B : AssetProblem} (h : VarPerm σ A B) (y : Vec) :
    InBounds B.l B.u y ↔ InBounds A.l A.u (fun j => y (σ j)) := by
  obtain ⟨τ, h1, h2⟩ := h.perm.inv
  unfold InBounds
  constructor
  · intro hb j hj
    rw [h.lenl] at hj
    have := hb (σ j) (by rw [h.lenl']; exact h.perm.lt j hj)
    rw [h.l j hj, h.u j hj] at this
    exact this
  · intro hb j hj
    rw [h.lenl'] at hj
    have ht : τ j < A.n := h.perm.inv_lt h2 j hj
    have := hb (τ j) (by rw [h.lenl]; exact ht)
    rw [← h.l _ ht, ← h.u _ ht] at this
    simp only [h2] at this
    exact this

theorem varperm_feasible_iff {σ : Nat → Nat} {A B : AssetProblem} (h : VarPerm σ A B) (y : Vec) :
    B.FeasibleRelaxed y ↔ A.FeasibleRelaxed (fun j => y (σ j)) := by
  unfold AssetProblem.FeasibleRelaxed
  rw [bounds_iff h y, rows_sat_iff h.rows y]

theorem varperm_cost {σ : Nat → Nat} {A B : AssetProblem} (h : VarPerm σ A B) (y : Vec) :
    costAt A.c 0 (fun j => y (σ j)) = costAt B.c 0 y := by
  rw [costAt_range, costAt_range, h.lenc']
  show ((List.range A.n).map fun j => A.c.getD j 0 * y (σ j)).sum = _
  rw [← sum_range_perm h.perm (fun j => B.c.getD j 0 * y j)]
  congr 1
  apply List.map_congr_left
  intro j hj
  rw [h.c j (List.mem_range.mp hj)]

theorem varperm_flow {σ : Nat → Nat} {A B : AssetProblem} (h : VarPerm σ A B) (n : String) (t : Nat) (y : Vec) :
    flowOf A n t (fun j => y (σ j)) = flowOf B n t y := by
  unfold flowOf
  rw [← sum_perm (((h.map.filter (isDisp n t))).map (·.contrib y)), List.filter_map, List.map_map]
  rfl

/-- a point of B moved to A: x ∘ σ -/
theorem varperm_bwd {σ : Nat → Nat} {A B : AssetProblem} (h : VarPerm σ A B) :
    ∀ x, B.FeasibleRelaxed x → A.FeasibleRelaxed (fun j => x (σ j)) ∧
      costAt A.c 0 (fun j => x (σ j)) = costAt B.c 0 x ∧
      (∀ n t, flowOf A n t (fun j => x (σ j)) = flowOf B n t x) :=
  fun x hx => ⟨(varperm_feasible_iff h x).mp hx, varperm_cost h x, fun n t => varperm_flow h n t x⟩

/-- a point of A moved to B: x ∘ τ -/
theorem varperm_fwd {σ : Nat → Nat} {A B : AssetProblem} (h : VarPerm σ A B) :
    ∀ x, A.FeasibleRelaxed x → ∃ x', B.FeasibleRelaxed x' ∧ costAt B.c 0 x' = costAt A.c 0 x ∧
      (∀ n t, flowOf B n t x' = flowOf A n t x) ∧ (∀ j, x' (σ j) = x j) := by
  intro x hx
  obtain ⟨τ, h1, _⟩ := h.perm.inv
  have hback : (fun j => (fun i => x (τ i)) (σ j)) = x := by
    funext j
    show x (τ (σ j)) = x j
    rw [h1]
  refine ⟨fun i => x (τ i), ?_, ?_, ?_, ?_⟩
  · rw [varperm_feasible_iff h, hback]; exact hx
  · rw [← varperm_cost h, hback]
  · intro n t
    rw [← varperm_flow h n t, hback]
  · intro j
    show x (τ (σ j)) = x j
    rw [h1]

/-- the syntactic relation implies the semantic one -/
theorem varperm_sim {σ : Nat → Nat} {A B : AssetProblem} (h : VarPerm σ A B) : Sim A B := by
  constructor
  · intro y hy
    obtain ⟨y', hf, hc, hfl, _⟩ := varperm_fwd h y hy
    exact ⟨y', hf, hc, hfl⟩
  · intro y hy
    obtain ⟨hf, hc, hfl⟩ := varperm_bwd h y hy
    exact ⟨_, hf, hc, hfl⟩

/-! ### the scaled wrapper -/

/-! ### small list helpers -/

theorem nodup_map_inj {f : Nat → Nat} (hf : ∀ i j, f i = f j → i = j) :
    ∀ (l : List Nat), l.Nodup → (l.map f).Nodup := by
  intro l
  induction l with
  | nil => intro _; simp
  | cons a l ih =>
    intro h
    rw [List.nodup_cons] at h
    rw [List.map_cons, List.nodup_cons]
    refine ⟨?_, ih h.2⟩
    intro hm
    obtain ⟨b, hb, hbe⟩ := List.mem_map.mp hm
    have := hf _ _ hbe
    subst this
    exact h.1 hb

theorem isCapRow_renVar (σ : Nat → Nat) (m : MapRow) : isCapRow (renVar σ m) = isCapRow m := rfl

theorem renVar_var (σ : Nat → Nat) (m : MapRow) : (renVar σ m).var = σ m.var := rfl

theorem mem_dispVars (M : List MapRow) (d : Nat) :
    d ∈ dispVars M ↔ ∃ m ∈ M, isCapRow m = true ∧ m.var = d := by
  unfold dispVars
  rw [List.mem_eraseDups, List.mem_map]
  constructor
  · rintro ⟨m, hm, rfl⟩
    rw [List.mem_filter] at hm
    exact ⟨m, hm.1, hm.2, rfl⟩
  · rintro ⟨m, hm, hc, rfl⟩
    exact ⟨m, List.mem_filter.mpr ⟨hm, hc⟩, rfl⟩

theorem mem_dispVars_varperm {σ : Nat → Nat} {A B : AssetProblem} (h : VarPerm σ A B) (d : Nat) :
    d ∈ (dispVars A.mapping).map σ ↔ d ∈ dispVars B.mapping := by
  rw [List.mem_map, mem_dispVars]
  constructor
  · rintro ⟨a, ha, rfl⟩
    obtain ⟨m, hm, hc, rfl⟩ := (mem_dispVars _ _).mp ha
    exact ⟨renVar σ m, h.map.mem_iff.mp (List.mem_map.mpr ⟨m, hm, rfl⟩), hc, rfl⟩
  · rintro ⟨m', hm', hc, rfl⟩
    obtain ⟨m, hm, rfl⟩ := List.mem_map.mp (h.map.mem_iff.mpr hm')
    exact ⟨m.var, (mem_dispVars _ _).mpr ⟨m, hm, hc, rfl⟩, rfl⟩

/-- the capacity variables of the renumbered problem are the renumbered capacity variables (as a list: up to order) -/
theorem dispVars_varperm {σ : Nat → Nat} {A B : AssetProblem} (h : VarPerm σ A B) :
    ((dispVars A.mapping).map σ).Perm (dispVars B.mapping) := by
  rw [List.perm_ext_iff_of_nodup]
  · exact fun d => mem_dispVars_varperm h d
  · exact nodup_map_inj (fun _ _ e => h.perm.inj e) _ (nodup_eraseDups _)
  · exact nodup_eraseDups _

theorem dispVars_contains {σ : Nat → Nat} {A B : AssetProblem} (h : VarPerm σ A B) (j : Nat) :
    (dispVars B.mapping).contains (σ j) = (dispVars A.mapping).contains j := by
  rw [Bool.eq_iff_iff, List.contains_iff_mem, List.contains_iff_mem, ← mem_dispVars_varperm h, List.mem_map]
  constructor
  · rintro ⟨a, ha, e⟩
    rw [← h.perm.inj e]; exact ha
  · intro hj; exact ⟨j, hj, rfl⟩

theorem dispVars_lt {A : AssetProblem} (hmvar : ∀ m ∈ A.mapping, m.var < A.n) :
    ∀ d ∈ dispVars A.mapping, d < A.n := by
  intro d hd
  obtain ⟨m, hm, _, rfl⟩ := (mem_dispVars _ _).mp hd
  exact hmvar m hm

/-! ### `mapAt` -/

theorem mapAt_length (I : List Nat) (f : Rat → Rat) (v : List Rat) : (mapAt I f v).length = v.length := by
  simp [mapAt]

theorem mapAt_getD (I : List Nat) (f : Rat → Rat) (v : List Rat) (j : Nat) (hj : j < v.length) :
    (mapAt I f v).getD j 0 = if I.contains j then f (v.getD j 0) else v.getD j 0 := by
  simp [mapAt, List.getD_eq_getElem?_getD, hj]


theorem getD_append_lt (l l' : List Rat) (j : Nat) (hj : j < l.length) : (l ++ l').getD j 0 = l.getD j 0 := by
  simp [List.getD_eq_getElem?_getD, List.getElem?_append_left hj]

theorem getD_append_len (l : List Rat) (x : Rat) (j : Nat) (hj : j = l.length) : (l ++ [x]).getD j 0 = x := by
  subst hj; simp [List.getD_eq_getElem?_getD]

/-! ### rows of the scaled problem under a renaming that fixes the scale column -/

theorem scaleRow_rename (σ : Nat → Nat) (nrm : Rat) (n : Nat) (hn : σ n = n) (r : Row) :
    (scaleRow nrm n r).rename σ = scaleRow nrm n (r.rename σ) := by
  simp [scaleRow, Row.rename, hn]

theorem scaleRow_rowEq (nrm : Rat) (n : Nat) {a b : Row} (h : RowEq a b) :
    RowEq (scaleRow nrm n a) (scaleRow nrm n b) := by
  refine ⟨?_, rfl, h.2.2⟩
  show (a.coeffs ++ [(n, - a.rhs / nrm)]).Perm (b.coeffs ++ [(n, - b.rhs / nrm)])
  rw [h.2.1]
  exact h.1.append_right _

theorem tieRow_rename (σ : Nat → Nat) (nrm : Rat) (n : Nat) (hn : σ n = n) (k : RowKind) (d : Nat) (b : Rat) :
    (tieRow nrm n k d b).rename σ = tieRow nrm n k (σ d) b := by
  simp [tieRow, Row.rename, hn]

theorem renVar_scaleMapRow (σ : Nat → Nat) (p : ScaledP) (n : Nat) (hn : σ n = n) :
    renVar σ (scaleMapRow p n) = scaleMapRow p n := by
  simp [renVar, scaleMapRow, hn]

theorem core_n (p : ScaledP) (A : AssetProblem) (dtSum : Rat) : (buildScaledCore p A dtSum).n = A.n + 1 := by
  simp [buildScaledCore, AssetProblem.n]

/-- the tie rows of kind `k` with the bounds read from `v`, renamed -/
theorem tie_perm {σ : Nat → Nat} {A B : AssetProblem} (h : VarPerm σ A B)
    (hmvar : ∀ m ∈ A.mapping, m.var < A.n) (nrm : Rat) (k : RowKind) (v v' : List Rat)
    (hv : ∀ j, j < A.n → v'.getD (σ j) 0 = v.getD j 0) :
    (((dispVars A.mapping).map fun d => tieRow nrm A.n k d (v.getD d 0)).map (Row.rename σ)).Perm
      ((dispVars B.mapping).map fun d => tieRow nrm A.n k d (v'.getD d 0)) := by
  have hn : σ A.n = A.n := h.perm.fix _ (Nat.le_refl _)
  have e : ((dispVars A.mapping).map fun d => tieRow nrm A.n k d (v.getD d 0)).map (Row.rename σ) =
      ((dispVars A.mapping).map σ).map fun d => tieRow nrm A.n k d (v'.getD d 0) := by
    rw [List.map_map, List.map_map]
    apply List.map_congr_left
    intro d hd
    show (tieRow nrm A.n k d (v.getD d 0)).rename σ = tieRow nrm A.n k (σ d) (v'.getD (σ d) 0)
    rw [tieRow_rename σ nrm A.n hn, hv d (dispVars_lt hmvar d hd)]
  rw [e]
  exact (dispVars_varperm h).map _

/-- the widened bounds -/
theorem bound_getD {σ : Nat → Nat} {A B : AssetProblem} (h : VarPerm σ A B) (f : Rat → Rat) (v v' : List Rat) (x : Rat)
    (hl : v.length = A.n) (hl' : v'.length = A.n)
    (hv : ∀ j, j < A.n → v'.getD (σ j) 0 = v.getD j 0) :
    ∀ j, j < A.n + 1 →
      (mapAt (dispVars B.mapping) f v' ++ [x]).getD (σ j) 0 = (mapAt (dispVars A.mapping) f v ++ [x]).getD j 0 := by
  intro j hj
  by_cases hjn : j < A.n
  · have hs := h.perm.lt j hjn
    rw [getD_append_lt _ _ _ (by rw [mapAt_length, hl']; exact hs),
      getD_append_lt _ _ _ (by rw [mapAt_length, hl]; exact hjn),
      mapAt_getD _ _ _ _ (by rw [hl']; exact hs), mapAt_getD _ _ _ _ (by rw [hl]; exact hjn),
      dispVars_contains h, hv j hjn]
  · have hje : j = A.n := by omega
    have hs : σ j = j := h.perm.fix j (by omega)
    rw [hs, getD_append_len _ _ _ (by rw [mapAt_length, hl']; exact hje),
      getD_append_len _ _ _ (by rw [mapAt_length, hl]; exact hje)]

theorem scaled_varperm_core_aux {σ : Nat → Nat} {A B : AssetProblem} (h : VarPerm σ A B)
    (hmvar : ∀ m ∈ A.mapping, m.var < A.n) (p : ScaledP) (dtSum : Rat) :
    VarPerm σ (buildScaledCore p A dtSum) (buildScaledCore p B dtSum) := by
  have hn : σ A.n = A.n := h.perm.fix _ (Nat.le_refl _)
  have hAl := h.lenl
  have hBl := h.lenl'
  have hcn := core_n p A dtSum
  refine ⟨rfl, h.nodes, ?_, ?_, ?_, ?_, ?_, ?_, ?_, ?_, ?_, ?_, ?_⟩
  · rw [hcn]; exact h.perm.succ
  · rw [hcn]; show (mapAt _ _ A.l ++ [_]).length = _
    rw [List.length_append, mapAt_length, hAl]; rfl
  · rw [hcn]; show (mapAt _ _ A.u ++ [_]).length = _
    rw [List.length_append, mapAt_length, h.lenu]; rfl
  · rw [hcn]; show (B.c ++ [_]).length = _
    rw [List.length_append, h.lenc']; rfl
  · rw [hcn]; show (mapAt _ _ B.l ++ [_]).length = _
    rw [List.length_append, mapAt_length, hBl]; rfl
  · rw [hcn]; show (mapAt _ _ B.u ++ [_]).length = _
    rw [List.length_append, mapAt_length, h.lenu']; rfl
  · rw [hcn]
    intro j hj
    show (B.c ++ [_]).getD (σ j) 0 = (A.c ++ [_]).getD j 0
    by_cases hjn : j < A.n
    · have hs := h.perm.lt j hjn
      rw [getD_append_lt _ _ _ (by rw [h.lenc']; exact hs), getD_append_lt _ _ _ hjn, h.c j hjn]
    · have hje : j = A.n := by omega
      have hs : σ j = j := h.perm.fix j (by omega)
      rw [hs, getD_append_len _ _ _ (by rw [h.lenc']; exact hje), getD_append_len _ _ _ hje]
  · rw [hcn]
    exact bound_getD h _ A.l B.l _ hAl hBl h.l
  · rw [hcn]
    exact bound_getD h _ A.u B.u _ h.lenu h.lenu' h.u
  · obtain ⟨mid, hp, ha⟩ := h.rows
    show RowsRel σ
      (A.rows.map (scaleRow p.normScale A.l.length)
        ++ (dispVars A.mapping).map (fun d => tieRow p.normScale A.l.length .U d (A.u.getD d 0))
        ++ (dispVars A.mapping).map (fun d => tieRow p.normScale A.l.length .L d (A.l.getD d 0)))
      (B.rows.map (scaleRow p.normScale B.l.length)
        ++ (dispVars B.mapping).map (fun d => tieRow p.normScale B.l.length .U d (B.u.getD d 0))
        ++ (dispVars B.mapping).map (fun d => tieRow p.normScale B.l.length .L d (B.l.getD d 0)))
    rw [hAl, hBl]
    refine ⟨mid.map (scaleRow p.normScale A.n)
        ++ (dispVars B.mapping).map (fun d => tieRow p.normScale A.n .U d (B.u.getD d 0))
        ++ (dispVars B.mapping).map (fun d => tieRow p.normScale A.n .L d (B.l.getD d 0)), ?_, ?_⟩
    · rw [List.map_append, List.map_append]
      refine List.Perm.append (List.Perm.append ?_ ?_) ?_
      · have e : (A.rows.map (scaleRow p.normScale A.n)).map (Row.rename σ) =
            (A.rows.map (Row.rename σ)).map (scaleRow p.normScale A.n) := by
          rw [List.map_map, List.map_map]
          apply List.map_congr_left
          intro r _
          exact scaleRow_rename σ _ _ hn r
        rw [e]
        exact hp.map _
      · exact tie_perm h hmvar _ _ A.u B.u h.u
      · exact tie_perm h hmvar _ _ A.l B.l h.l
    · exact All2.append (All2.append
        (All2.map_both RowEq RowEq _ _ (fun _ _ hr => scaleRow_rowEq _ _ hr) ha)
        (All2.refl RowEq.refl _)) (All2.refl RowEq.refl _)
  · show ((A.mapping.map (fun m : MapRow => { m with asset := p.name }) ++ [scaleMapRow p A.l.length]).map
        (renVar σ)).Perm
      (B.mapping.map (fun m : MapRow => { m with asset := p.name }) ++ [scaleMapRow p B.l.length])
    rw [hAl, hBl, List.map_append]
    refine List.Perm.append ?_ ?_
    · have e : (A.mapping.map (fun m : MapRow => { m with asset := p.name })).map (renVar σ) =
          (A.mapping.map (renVar σ)).map (fun m : MapRow => { m with asset := p.name }) := by
        rw [List.map_map, List.map_map]
        apply List.map_congr_left
        intro m _
        rfl
      rw [e]
      exact h.map.map _
    · rw [List.map_singleton, renVar_scaleMapRow σ p A.n hn]

/-- **the scaled wrapper keeps the syntactic variable permutation, with the SAME σ** (σ fixes the scale variable,
    index A.n) -/
theorem scaled_varperm_core {σ : Nat → Nat} {A B : AssetProblem} (h : VarPerm σ A B)
    (hmvar : ∀ m ∈ A.mapping, m.var < A.n) (p : ScaledP) (dtSum : Rat) :
    VarPerm σ (buildScaled p A dtSum) (buildScaled p B dtSum) := by
  by_cases h0 : A.l.length = 0
  · have hB0 : B.l.length = 0 := by rw [h.lenl', ← h.lenl]; exact h0
    unfold buildScaled
    rw [if_pos h0, if_pos hB0]
    exact h
  · have hB0 : ¬ B.l.length = 0 := by rw [h.lenl', ← h.lenl]; exact h0
    unfold buildScaled
    rw [if_neg h0, if_neg hB0]
    exact scaled_varperm_core_aux h hmvar p dtSum

/-! ### `SGood` -/

theorem sgood_scaledCore (gridI : List Nat) (p : ScaledP) (A : AssetProblem) (dtSum : Rat) (h : SGood gridI A) :
    SGood gridI (buildScaledCore p A dtSum) := by
  have hcn := core_n p A dtSum
  have hAl := h.good.len_l
  have hmem : ∀ m ∈ (buildScaledCore p A dtSum).mapping,
      (∃ m0 ∈ A.mapping, m = { m0 with asset := p.name }) ∨ m = scaleMapRow p A.n := by
    intro m hm
    have hm' : m ∈ A.mapping.map (fun m => { m with asset := p.name }) ++ [scaleMapRow p A.l.length] := hm
    rw [hAl] at hm'
    rcases List.mem_append.mp hm' with hm' | hm'
    · obtain ⟨m0, hm0, rfl⟩ := List.mem_map.mp hm'
      exact .inl ⟨m0, hm0, rfl⟩
    · exact .inr (List.mem_singleton.mp hm')
  have hmv : ∀ m ∈ (buildScaledCore p A dtSum).mapping, m.var < A.n + 1 := by
    intro m hm
    rcases hmem m hm with ⟨m0, hm0, rfl⟩ | rfl
    · have := h.mvar m0 hm0
      show m0.var < A.n + 1
      omega
    · show A.n < A.n + 1
      omega
  refine ⟨⟨?_, ?_, ?_, ?_, ?_⟩, ?_⟩
  · rw [hcn]; show (mapAt _ _ A.l ++ [_]).length = _
    rw [List.length_append, mapAt_length, hAl]; rfl
  · rw [hcn]; show (mapAt _ _ A.u ++ [_]).length = _
    rw [List.length_append, mapAt_length, h.good.len_u]; rfl
  · intro m hm n hk hnode
    rcases hmem m hm with ⟨m0, hm0, rfl⟩ | rfl
    · exact h.good.disp m0 hm0 n hk hnode
    · exact absurd hk (by simp [scaleMapRow])
  · rw [hcn]
    intro r hr q hq
    have hr' : r ∈ A.rows.map (scaleRow p.normScale A.l.length)
        ++ (dispVars A.mapping).map (fun d => tieRow p.normScale A.l.length .U d (A.u.getD d 0))
        ++ (dispVars A.mapping).map (fun d => tieRow p.normScale A.l.length .L d (A.l.getD d 0)) := hr
    rw [hAl] at hr'
    have htie : ∀ (k : RowKind) (d : Nat) (b : Rat), d ∈ dispVars A.mapping →
        q ∈ (tieRow p.normScale A.n k d b).coeffs → q.1 < A.n + 1 := by
      intro k d b hd hq
      have hdl := dispVars_lt h.mvar d hd
      have hq' : q ∈ [(d, (1 : Rat)), (A.n, - b / p.normScale)] := hq
      simp only [List.mem_cons, List.not_mem_nil, or_false] at hq'
      rcases hq' with rfl | rfl
      · show d < A.n + 1; omega
      · show A.n < A.n + 1; omega
    rcases List.mem_append.mp hr' with hr' | hr'
    · rcases List.mem_append.mp hr' with hr' | hr'
      · obtain ⟨r0, hr0, rfl⟩ := List.mem_map.mp hr'
        have hq' : q ∈ r0.coeffs ++ [(A.n, - r0.rhs / p.normScale)] := hq
        rcases List.mem_append.mp hq' with hq' | hq'
        · have := h.good.cols r0 hr0 q hq'; omega
        · rw [List.mem_singleton.mp hq']; show A.n < A.n + 1; omega
      · obtain ⟨d, hd, rfl⟩ := List.mem_map.mp hr'
        exact htie _ d _ hd hq
    · obtain ⟨d, hd, rfl⟩ := List.mem_map.mp hr'
      exact htie _ d _ hd hq
  · rw [hcn]
    intro m hm _
    exact hmv m hm
  · rw [hcn]
    exact hmv

/-- SGood is kept by the scaled wrapper -/
theorem sgood_scaled (gridI : List Nat) (p : ScaledP) (A : AssetProblem) (dtSum : Rat) (h : SGood gridI A) :
    SGood gridI (buildScaled p A dtSum) := by
  unfold buildScaled
  by_cases h0 : A.l.length = 0
  · rw [if_pos h0]; exact h
  · rw [if_neg h0]; exact sgood_scaledCore gridI p A dtSum h

/-! ### level 1: the concatenation of the blocks -/

/-- asset problem `a` in front of the (label-free) problem `P`, `P` shifted behind the variables of `a` -/
def appendAP (a P : AssetProblem) : AssetProblem :=
  { name := "", nodes := [], c := a.c ++ P.c, l := a.l ++ P.l, u := a.u ++ P.u,
    rows := a.rows ++ P.rows.map (Row.rename (a.n + ·)),
    mapping := a.mapping ++ P.mapping.map (MapRow.shift a.n) }

theorem rename_zero_add (r : Row) : r.rename (0 + ·) = r := by
  cases r; simp [Row.rename]

theorem shift_zero (m : MapRow) : m.shift 0 = m := by
  cases m; simp [MapRow.shift]

theorem shift_shift (o k : Nat) (m : MapRow) : (m.shift o).shift k = m.shift (k + o) := by
  cases m; simp [MapRow.shift, Nat.add_assoc]

/-- the concatenation from offset `off` is the one from 0, shifted -/
theorem assembleFrom_off (off : Nat) (as : List AssetProblem) :
    (assembleFrom off as).rows = (assembleFrom 0 as).rows.map (Row.rename (off + ·)) ∧
    (assembleFrom off as).mapping = (assembleFrom 0 as).mapping.map (MapRow.shift off) := by
  induction as generalizing off with
  | nil => exact ⟨rfl, rfl⟩
  | cons a as ih =>
    obtain ⟨h1, h2⟩ := ih (off + a.n)
    obtain ⟨h3, h4⟩ := ih (0 + a.n)
    rw [assembleFrom_cons_rows, assembleFrom_cons_rows, assembleFrom_cons_mapping, assembleFrom_cons_mapping,
      h1, h2, h3, h4]
    constructor
    · simp only [List.map_append, List.map_map]
      congr 1
      · apply List.map_congr_left; intro r _
        simp only [Function.comp, rename_rename]
        congr 1; funext j; omega
      · apply List.map_congr_left; intro r _
        simp only [Function.comp, rename_rename]
        congr 1; funext j; omega
    · simp only [List.map_append, List.map_map]
      congr 1
      · apply List.map_congr_left; intro m _
        simp only [Function.comp, shift_shift, Nat.add_zero]
      · apply List.map_congr_left; intro m _
        simp only [Function.comp, shift_shift]
        congr 1; omega

theorem toAP_cons (a : AssetProblem) (as : List AssetProblem) :
    toAP (assembleFrom 0 (a :: as)) = appendAP a (toAP (assembleFrom 0 as)) := by
  obtain ⟨h1, h2⟩ := assembleFrom_off (0 + a.n) as
  unfold toAP appendAP
  rw [assembleFrom_cons_c, assembleFrom_cons_l, assembleFrom_cons_u, assembleFrom_cons_rows,
    assembleFrom_cons_mapping, h1, h2, assembleFrom_c_off (0 + a.n) 0, assembleFrom_l_off (0 + a.n) 0,
    assembleFrom_u_off (0 + a.n) 0]
  simp only [Nat.zero_add]
  congr 1
  · rw [List.map_congr_left (fun r _ => rename_id r)]; simp
  · rw [List.map_congr_left (fun m _ => shift_zero m)]; simp

/-- the block renumbering: `σa` on the first `k` variables, `σ0` behind them -/
def blockσ (k : Nat) (σa σ0 : Nat → Nat) : Nat → Nat := fun j => if j < k then σa j else k + σ0 (j - k)

/-- the renumbering that exchanges a block of `ka` variables with the following block of `kb` variables -/
def swapσ (ka kb : Nat) : Nat → Nat := fun j => if j < ka then j + kb else if j < ka + kb then j - ka else j

theorem getD_app (l1 l2 : List Rat) (j : Nat) :
    (l1 ++ l2).getD j 0 = if j < l1.length then l1.getD j 0 else l2.getD (j - l1.length) 0 := by
  by_cases h : j < l1.length
  · rw [if_pos h, getD_append_left' _ _ _ h]
  · rw [if_neg h]
    have : j = l1.length + (j - l1.length) := by omega
    rw [this, getD_append_right']
    congr 1; omega

theorem permOn_block {k m : Nat} {σa σ0 : Nat → Nat} (ha : PermOn σa k) (h0 : PermOn σ0 m) :
    PermOn (blockσ k σa σ0) (k + m) := by
  obtain ⟨τa, a1, a2⟩ := ha.inv
  obtain ⟨τ0, b1, b2⟩ := h0.inv
  refine ⟨⟨blockσ k τa τ0, ?_, ?_⟩, ?_, ?_⟩
  · intro j
    unfold blockσ
    by_cases hj : j < k
    · have := ha.lt j hj
      simp only [hj, if_true, this, a1]
    · simp only [hj, if_false]
      have : ¬ (k + σ0 (j - k) < k) := by omega
      simp only [this, if_false, Nat.add_sub_cancel_left, b1]
      omega
  · intro j
    unfold blockσ
    by_cases hj : j < k
    · have := PermOn.inv_lt ha a2 j hj
      simp only [hj, if_true, this, a2]
    · simp only [hj, if_false]
      have : ¬ (k + τ0 (j - k) < k) := by omega
      simp only [this, if_false, Nat.add_sub_cancel_left, b2]
      omega
  · intro j hj
    unfold blockσ
    by_cases hjk : j < k
    · have := ha.lt j hjk
      simp only [hjk, if_true]; omega
    · have := h0.lt (j - k) (by omega)
      simp only [hjk, if_false]; omega
  · intro j hj
    unfold blockσ
    have hjk : ¬ j < k := by omega
    simp only [hjk, if_false, h0.fix (j - k) (by omega)]
    omega

theorem permOn_swap (ka kb m : Nat) : PermOn (swapσ ka kb) (ka + kb + m) := by
  refine ⟨⟨swapσ kb ka, ?_, ?_⟩, ?_, ?_⟩
  · intro j; unfold swapσ; grind
  · intro j; unfold swapσ; grind
  · intro j hj; unfold swapσ; grind
  · intro j hj; unfold swapσ; grind

theorem vec_block {k m : Nat} {σa σ0 : Nat → Nat} {v v' w w' : List Rat} (hv : v.length = k) (hv' : v'.length = k)
    (hlt : ∀ j, j < k → σa j < k)
    (h1 : ∀ j, j < k → v'.getD (σa j) 0 = v.getD j 0) (h2 : ∀ j, j < m → w'.getD (σ0 j) 0 = w.getD j 0) :
    ∀ j, j < k + m → (v' ++ w').getD (blockσ k σa σ0 j) 0 = (v ++ w).getD j 0 := by
  intro j hj
  rw [getD_app, getD_app, hv, hv']
  unfold blockσ
  by_cases hjk : j < k
  · have := hlt j hjk
    simp only [hjk, if_true, this, h1 j hjk]
  · have : ¬ (k + σ0 (j - k) < k) := by omega
    simp only [hjk, if_false, this, Nat.add_sub_cancel_left, h2 (j - k) (by omega)]

theorem vec_swap {ka kb : Nat} {va vb w : List Rat} (ha : va.length = ka) (hb : vb.length = kb) :
    ∀ j, (vb ++ (va ++ w)).getD (swapσ ka kb j) 0 = (va ++ (vb ++ w)).getD j 0 := by
  intro j
  simp only [getD_app, ha, hb]
  unfold swapσ
  by_cases h1 : j < ka
  · have e1 : ¬ (j + kb < kb) := by omega
    have e2 : j + kb - kb < ka := by omega
    have e3 : j + kb - kb = j := by omega
    simp only [h1, if_true, e1, if_false, e3]
  · by_cases h2 : j < ka + kb
    · have e1 : j - ka < kb := by omega
      simp only [h1, if_false, h2, if_true, e1]
    · have e1 : ¬ (j < kb) := by omega
      have e2 : ¬ (j - kb < ka) := by omega
      have e3 : ¬ (j - ka < kb) := by omega
      have e4 : j - kb - ka = j - ka - kb := by omega
      simp only [h1, if_false, h2, e1, e2, e3, e4]

theorem RowsRel.append {σ : Nat → Nat} {R1 R2 R1' R2' : List Row} (h1 : RowsRel σ R1 R1') (h2 : RowsRel σ R2 R2') :
    RowsRel σ (R1 ++ R2) (R1' ++ R2') := by
  obtain ⟨m1, p1, a1⟩ := h1
  obtain ⟨m2, p2, a2⟩ := h2
  exact ⟨m1 ++ m2, by rw [List.map_append]; exact p1.append p2, All2.append a1 a2⟩

/-- rows that `σ` and `σ'` rename in the same way -/
theorem RowsRel.congr {σ σ' : Nat → Nat} {R R' : List Row} (h : RowsRel σ R R')
    (he : ∀ r ∈ R, ∀ q ∈ r.coeffs, σ' q.1 = σ q.1) : RowsRel σ' R R' := by
  obtain ⟨m, p, a⟩ := h
  refine ⟨m, ?_, a⟩
  rw [List.map_congr_left (g := Row.rename σ)]
  · exact p
  · intro r hr
    unfold Row.rename
    congr 1
    apply List.map_congr_left
    intro q hq
    rw [he r hr q hq]

/-- renaming before and after an embedding -/
theorem RowsRel.embed {σ σ' : Nat → Nat} {R R' : List Row} (f f' : Nat → Nat) (h : RowsRel σ R R')
    (he : ∀ j, σ' (f j) = f' (σ j)) : RowsRel σ' (R.map (Row.rename f)) (R'.map (Row.rename f')) := by
  obtain ⟨m, p, a⟩ := h
  refine ⟨m.map (Row.rename f'), ?_, All2.map_both _ _ _ _ (fun _ _ h => RowEq.rename f' h) a⟩
  have := p.map (Row.rename f')
  rw [List.map_map] at this
  rw [List.map_map]
  rw [List.map_congr_left (g := Row.rename f' ∘ Row.rename σ)]
  · exact this
  · intro r _
    simp only [Function.comp, rename_rename]
    congr 1; funext j; exact he j

theorem RowsRel.of_perm {σ : Nat → Nat} {R R' : List Row} (h : (R.map (Row.rename σ)).Perm R') : RowsRel σ R R' :=
  ⟨R', h, All2.refl RowEq.refl R'⟩

/-- columns and mapping variables inside the problem -/
structure Loc (a : AssetProblem) : Prop where
  cols : ∀ r ∈ a.rows, ∀ q ∈ r.coeffs, q.1 < a.n
  mvar : ∀ m ∈ a.mapping, m.var < a.n

theorem appendAP_n (a P : AssetProblem) : (appendAP a P).n = a.n + P.n := by
  unfold appendAP AssetProblem.n; simp

/-- **block-wise renumbering** -/
theorem varperm_append {σa σ0 : Nat → Nat} {a a' P P' : AssetProblem} (ha : VarPerm σa a a') (h0 : VarPerm σ0 P P')
    (hla : Loc a) : VarPerm (blockσ a.n σa σ0) (appendAP a P) (appendAP a' P') := by
  have hn : a'.n = a.n := ha.n_eq
  have hnP : P'.n = P.n := h0.n_eq
  have hN := appendAP_n a P
  have hlo : ∀ j, j < a.n → blockσ a.n σa σ0 j = σa j := by
    intro j hj; unfold blockσ; simp only [hj, if_true]
  have hhi : ∀ j, blockσ a.n σa σ0 (a.n + j) = a.n + σ0 j := by
    intro j; unfold blockσ
    have : ¬ (a.n + j < a.n) := by omega
    simp only [this, if_false, Nat.add_sub_cancel_left]
  refine ⟨rfl, rfl, hN ▸ permOn_block ha.perm h0.perm, ?_, ?_, ?_, ?_, ?_, ?_, ?_, ?_, ?_, ?_⟩
  · show (a.l ++ P.l).length = _; rw [hN, List.length_append, ha.lenl, h0.lenl]
  · show (a.u ++ P.u).length = _; rw [hN, List.length_append, ha.lenu, h0.lenu]
  · show (a'.c ++ P'.c).length = _; rw [hN, List.length_append, ha.lenc', h0.lenc']
  · show (a'.l ++ P'.l).length = _; rw [hN, List.length_append, ha.lenl', h0.lenl']
  · show (a'.u ++ P'.u).length = _; rw [hN, List.length_append, ha.lenu', h0.lenu']
  · rw [hN]; exact vec_block rfl ha.lenc' ha.perm.lt ha.c h0.c
  · rw [hN]; exact vec_block ha.lenl ha.lenl' ha.perm.lt ha.l h0.l
  · rw [hN]; exact vec_block ha.lenu ha.lenu' ha.perm.lt ha.u h0.u
  · show RowsRel _ (a.rows ++ _) (a'.rows ++ _)
    refine RowsRel.append (RowsRel.congr ha.rows ?_) ?_
    · intro r hr q hq; exact hlo _ (hla.cols r hr q hq)
    · rw [hn]; exact RowsRel.embed _ _ h0.rows hhi
  · show ((a.mapping ++ _).map _).Perm (a'.mapping ++ _)
    rw [List.map_append, hn]
    refine List.Perm.append ?_ ?_
    · rw [List.map_congr_left (g := renVar σa)]
      · exact ha.map
      · intro m hm
        unfold renVar; rw [hlo _ (hla.mvar m hm)]
    · have := h0.map.map (MapRow.shift a.n)
      rw [List.map_map] at this
      rw [List.map_map]
      rw [List.map_congr_left (g := MapRow.shift a.n ∘ renVar σ0)]
      · exact this
      · intro m _
        simp only [Function.comp, renVar, MapRow.shift, hhi]

/-- **two neighbouring blocks exchanged** -/
theorem varperm_swap (a b P : AssetProblem) (hla : Loc a) (hlb : Loc b)
    (ha1 : a.l.length = a.n) (ha2 : a.u.length = a.n) (hb1 : b.l.length = b.n) (hb2 : b.u.length = b.n)
    (hp1 : P.l.length = P.n) (hp2 : P.u.length = P.n) :
    VarPerm (swapσ a.n b.n) (appendAP a (appendAP b P)) (appendAP b (appendAP a P)) := by
  have hN : (appendAP a (appendAP b P)).n = a.n + b.n + P.n := by rw [appendAP_n, appendAP_n]; omega
  have hN' : (appendAP b (appendAP a P)).n = a.n + b.n + P.n := by rw [appendAP_n, appendAP_n]; omega
  have hlo : ∀ j, j < a.n → swapσ a.n b.n j = b.n + j := by
    intro j hj; unfold swapσ; simp only [hj, if_true]; omega
  have hmid : ∀ j, j < b.n → swapσ a.n b.n (a.n + j) = j := by
    intro j hj; unfold swapσ
    have e1 : ¬ (a.n + j < a.n) := by omega
    have e2 : a.n + j < a.n + b.n := by omega
    simp only [e1, if_false, e2, if_true]; omega
  have hhi : ∀ j, swapσ a.n b.n (a.n + (b.n + j)) = b.n + (a.n + j) := by
    intro j; unfold swapσ
    have e1 : ¬ (a.n + (b.n + j) < a.n) := by omega
    have e2 : ¬ (a.n + (b.n + j) < a.n + b.n) := by omega
    simp only [e1, if_false, e2]; omega
  refine ⟨rfl, rfl, hN ▸ permOn_swap a.n b.n P.n, ?_, ?_, ?_, ?_, ?_, ?_, ?_, ?_, ?_, ?_⟩
  · show (a.l ++ (b.l ++ P.l)).length = _; rw [hN]; simp only [List.length_append, ha1, hb1, hp1]; omega
  · show (a.u ++ (b.u ++ P.u)).length = _; rw [hN]; simp only [List.length_append, ha2, hb2, hp2]; omega
  · show (b.c ++ (a.c ++ P.c)).length = _; rw [hN]; simp only [List.length_append]; unfold AssetProblem.n; omega
  · show (b.l ++ (a.l ++ P.l)).length = _; rw [hN]; simp only [List.length_append, ha1, hb1, hp1]; omega
  · show (b.u ++ (a.u ++ P.u)).length = _; rw [hN]; simp only [List.length_append, ha2, hb2, hp2]; omega
  · intro j _; exact vec_swap rfl rfl j
  · intro j _; exact vec_swap ha1 hb1 j
  · intro j _; exact vec_swap ha2 hb2 j
  · show RowsRel _ (a.rows ++ (b.rows ++ _).map _) (b.rows ++ (a.rows ++ _).map _)
    apply RowsRel.of_perm
    simp only [List.map_append, List.map_map]
    have e1 : a.rows.map (Row.rename (swapσ a.n b.n)) = a.rows.map (Row.rename (b.n + ·)) := by
      apply List.map_congr_left; intro r hr
      unfold Row.rename; congr 1
      apply List.map_congr_left; intro q hq
      rw [hlo _ (hla.cols r hr q hq)]
    have e2 : b.rows.map (Row.rename (swapσ a.n b.n) ∘ Row.rename (a.n + ·)) = b.rows := by
      rw [List.map_congr_left (g := fun r => r)]
      · simp
      · intro r hr
        simp only [Function.comp, rename_rename]
        cases r with
        | mk co rhs kind =>
          simp only [Row.rename, Row.mk.injEq, and_true]
          rw [List.map_congr_left (g := fun q => q)]
          · simp
          · intro q hq
            have := hmid q.1 (hlb.cols _ hr q hq)
            simp only [this]
    have e3 : P.rows.map (Row.rename (swapσ a.n b.n) ∘ Row.rename (a.n + ·) ∘ Row.rename (b.n + ·))
        = P.rows.map (Row.rename (b.n + ·) ∘ Row.rename (a.n + ·)) := by
      apply List.map_congr_left; intro r _
      simp only [Function.comp, rename_rename]
      congr 1; funext j; exact hhi j
    rw [e1, e2, e3]
    exact List.perm_append_comm_assoc _ _ _
  · show ((a.mapping ++ (b.mapping ++ _).map _).map _).Perm (b.mapping ++ (a.mapping ++ _).map _)
    simp only [List.map_append, List.map_map]
    have e1 : a.mapping.map (renVar (swapσ a.n b.n)) = a.mapping.map (MapRow.shift b.n) := by
      apply List.map_congr_left; intro m hm
      unfold renVar MapRow.shift; rw [hlo _ (hla.mvar m hm)]
    have e2 : b.mapping.map (renVar (swapσ a.n b.n) ∘ MapRow.shift a.n) = b.mapping := by
      rw [List.map_congr_left (g := fun m => m)]
      · simp
      · intro m hm
        cases m
        simp only [Function.comp, renVar, MapRow.shift]
        rw [hmid _ (hlb.mvar _ hm)]
    have e3 : P.mapping.map (renVar (swapσ a.n b.n) ∘ MapRow.shift a.n ∘ MapRow.shift b.n)
        = P.mapping.map (MapRow.shift b.n ∘ MapRow.shift a.n) := by
      apply List.map_congr_left; intro m _
      simp only [Function.comp, renVar, MapRow.shift, hhi]
    rw [e1, e2, e3]
    exact List.perm_append_comm_assoc _ _ _


/-! ### what the relation keeps -/

theorem loc_varperm {σ : Nat → Nat} {A B : AssetProblem} (h : VarPerm σ A B) (hl : Loc A) : Loc B := by
  constructor
  · intro r' hr' q hq
    obtain ⟨r, hr, he⟩ := h.rows.mem_right r' hr'
    have hq' : q ∈ (r.rename σ).coeffs := he.1.mem_iff.mpr hq
    obtain ⟨q0, hq0, rfl⟩ := List.mem_map.mp hq'
    rw [h.n_eq]
    exact h.perm.lt _ (hl.cols r hr q0 hq0)
  · intro m' hm'
    obtain ⟨m, hm, rfl⟩ := List.mem_map.mp (h.map.mem_iff.mpr hm')
    rw [h.n_eq]
    exact h.perm.lt _ (hl.mvar m hm)

theorem SGood.loc {gridI : List Nat} {a : AssetProblem} (h : SGood gridI a) : Loc a := ⟨h.good.cols, h.mvar⟩

theorem sgood_varperm (gridI : List Nat) {σ : Nat → Nat} {A B : AssetProblem} (h : VarPerm σ A B)
    (hg : SGood gridI A) : SGood gridI B := by
  have hl := loc_varperm h hg.loc
  refine ⟨⟨h.lenl'.trans h.n_eq.symm, h.lenu'.trans h.n_eq.symm, ?_, hl.cols, fun m hm _ => hl.mvar m hm⟩, hl.mvar⟩
  intro m' hm' n hk hnode
  obtain ⟨m, hm, rfl⟩ := List.mem_map.mp (h.map.mem_iff.mpr hm')
  rw [h.nodes]
  exact hg.good.disp m hm n hk hnode

theorem toAP_lens (gridI : List Nat) (as : List AssetProblem) (hg : ∀ a ∈ as, SGood gridI a) :
    (toAP (assembleFrom 0 as)).l.length = (toAP (assembleFrom 0 as)).n ∧
    (toAP (assembleFrom 0 as)).u.length = (toAP (assembleFrom 0 as)).n := by
  have h1 := assembleFrom_l_length as 0 (fun a ha => (hg a ha).good.len_l)
  have h2 := assembleFrom_u_length as 0 (fun a ha => (hg a ha).good.len_u)
  have h3 := assembleFrom_c_length as 0
  exact ⟨h1.trans h3.symm, h2.trans h3.symm⟩

/-- **level 1**: the concatenations of two lists equal up to order and entry-wise renumbering are renumberings of
    each other -/
theorem permRel_assembleFrom (gridI : List Nat) {as as' : List AssetProblem} (h : PermRel as as') :
    (∀ a ∈ as, SGood gridI a) → (∀ a ∈ as', SGood gridI a) ∧
      ∃ σ, VarPerm σ (toAP (assembleFrom 0 as)) (toAP (assembleFrom 0 as')) := by
  induction h with
  | nil =>
    intro hg
    exact ⟨hg, _, VarPerm.refl _ rfl rfl⟩
  | @cons a a' l l' hv _ ih =>
    intro hg
    obtain ⟨σa, ha⟩ := hv
    obtain ⟨hg', σ0, h0⟩ := ih (fun b hb => hg b (by simp [hb]))
    have hga := hg a (by simp)
    refine ⟨?_, blockσ a.n σa σ0, ?_⟩
    · intro b hb
      rcases List.mem_cons.mp hb with rfl | hb
      · exact sgood_varperm gridI ha hga
      · exact hg' b hb
    · rw [toAP_cons, toAP_cons]
      exact varperm_append ha h0 hga.loc
  | swap a b l =>
    intro hg
    have hga := hg a (by simp)
    have hgb := hg b (by simp)
    have hgl : ∀ c ∈ l, SGood gridI c := fun c hc => hg c (by simp [hc])
    refine ⟨?_, swapσ a.n b.n, ?_⟩
    · intro c hc
      simp only [List.mem_cons] at hc
      rcases hc with rfl | rfl | hc
      · exact hgb
      · exact hga
      · exact hgl c hc
    · rw [toAP_cons, toAP_cons, toAP_cons, toAP_cons]
      obtain ⟨p1, p2⟩ := toAP_lens gridI l hgl
      exact varperm_swap a b _ hga.loc hgb.loc hga.good.len_l hga.good.len_u hgb.good.len_l hgb.good.len_u p1 p2
  | trans _ _ ih1 ih2 =>
    intro hg
    obtain ⟨hg2, σ1, h1⟩ := ih1 hg
    obtain ⟨hg3, σ2, h2⟩ := ih2 hg2
    exact ⟨hg3, _, h1.trans h2⟩

theorem permRel_nodes {as as' : List AssetProblem} (h : PermRel as as') :
    (as.flatMap (·.nodes)).Perm (as'.flatMap (·.nodes)) := by
  induction h with
  | nil => exact List.Perm.refl _
  | @cons a a' l l' hv _ ih =>
    obtain ⟨σa, ha⟩ := hv
    simp only [List.flatMap_cons, ha.nodes]
    exact ih.append_left _
  | swap a b l =>
    simp only [List.flatMap_cons]
    exact List.perm_append_comm_assoc _ _ _
  | trans _ _ ih1 ih2 => exact ih1.trans ih2

theorem permRel_portfolioNodes {as as' : List AssetProblem} (h : PermRel as as') :
    (portfolioNodes as).Perm (portfolioNodes as') := by
  unfold portfolioNodes
  rw [List.perm_ext_iff_of_nodup (nodup_eraseDups _) (nodup_eraseDups _)]
  intro n
  rw [List.mem_eraseDups, List.mem_eraseDups]
  exact (permRel_nodes h).mem_iff

/-! ### level 2: the nodal rows and the wrapper's labels -/

theorem nToS_rename (σ : Nat → Nat) (r : Row) : (r.nToS).rename σ = (r.rename σ).nToS := by
  cases r with
  | mk co rhs kind => cases kind <;> rfl

theorem RowEq.nToS {a b : Row} (h : RowEq a b) : RowEq a.nToS b.nToS := by
  obtain ⟨h1, h2, h3⟩ := h
  cases a with
  | mk c1 r1 k1 =>
    cases b with
    | mk c2 r2 k2 =>
      simp only at h1 h2 h3
      subst h2 h3
      cases k1 <;> exact ⟨h1, rfl, rfl⟩

theorem RowsRel.nToS {σ : Nat → Nat} {R R' : List Row} (h : RowsRel σ R R') :
    RowsRel σ (R.map Row.nToS) (R'.map Row.nToS) := by
  obtain ⟨m, p, a⟩ := h
  refine ⟨m.map Row.nToS, ?_, All2.map_both _ _ _ _ (fun _ _ h => RowEq.nToS h) a⟩
  have := p.map Row.nToS
  rw [List.map_map] at this
  rw [List.map_map, List.map_congr_left (g := Row.nToS ∘ Row.rename σ)]
  · exact this
  · intro r _; exact nToS_rename σ r

theorem All2.map_same {α β : Type} {R : β → β → Prop} (f g : α → β) (l : List α) (h : ∀ a ∈ l, R (f a) (g a)) :
    All2 R (l.map f) (l.map g) := by
  induction l with
  | nil => exact .nil
  | cons a l ih => exact .cons (h a (by simp)) (ih fun b hb => h b (by simp [hb]))

theorem isDisp_renVar (σ : Nat → Nat) (n : String) (t : Nat) (m : MapRow) : isDisp n t (renVar σ m) = isDisp n t m := rfl

theorem any_disp_perm {σ : Nat → Nat} {M M' : List MapRow} (h : (M.map (renVar σ)).Perm M') (n : String) (t : Nat) :
    M'.any (isDisp n t) = M.any (isDisp n t) := by
  rw [← h.any_eq, List.any_map]
  rfl

theorem nodalRow_perm {σ : Nat → Nat} {M M' : List MapRow} (h : (M.map (renVar σ)).Perm M') (n : String) (t : Nat) :
    RowEq ((nodalRow M n t).rename σ) (nodalRow M' n t) := by
  refine ⟨?_, rfl, rfl⟩
  show (((M.filter (isDisp n t)).map fun m => (m.var, m.factor)).map fun q => (σ q.1, q.2)).Perm
    ((M'.filter (isDisp n t)).map fun m => (m.var, m.factor))
  have h1 := (h.filter (isDisp n t)).map fun m => (m.var, m.factor)
  rw [List.filter_map, List.map_map] at h1
  rw [List.map_map]
  exact h1

theorem nodalPairs_perm {σ : Nat → Nat} {M M' : List MapRow} (h : (M.map (renVar σ)).Perm M')
    {nodes nodes' : List String} (hn : nodes.Perm nodes') (skip : List String) (gridI : List Nat) :
    (nodalPairs M nodes skip gridI).Perm (nodalPairs M' nodes' skip gridI) := by
  unfold nodalPairs
  have hf : (fun n => (gridI.filter fun t => M'.any (isDisp n t)).map fun t => (t, n)) =
      (fun n => (gridI.filter fun t => M.any (isDisp n t)).map fun t => (t, n)) := by
    funext n
    congr 2
    funext t
    exact any_disp_perm h n t
  rw [hf]
  exact (hn.filter _).flatMap_right _

theorem structuredMapRow_renVar (name : String) (ext : List String) (σ : Nat → Nat) (m : MapRow) :
    structuredMapRow name ext (renVar σ m) = renVar σ (structuredMapRow name ext m) := by
  unfold structuredMapRow renVar
  by_cases hv : (m.varName == "nan") = true <;> simp only [hv, if_true, Bool.false_eq_true, if_false] <;>
    cases hnode : m.node <;> simp only [] <;> (try split) <;> rfl

/-- **level 2**: from the concatenations to the structured assets -/
theorem structured_of_core (name : String) (ext : List String) (as as' : List AssetProblem) (gridI : List Nat)
    {σ : Nat → Nat} (h : VarPerm σ (toAP (assembleFrom 0 as)) (toAP (assembleFrom 0 as')))
    (hn : (portfolioNodes as).Perm (portfolioNodes as')) :
    VarPerm σ (structured name ext as gridI) (structured name ext as' gridI) := by
  have hmap : ((assembleFrom 0 as).mapping.map (renVar σ)).Perm (assembleFrom 0 as').mapping := h.map
  refine ⟨rfl, rfl, h.perm, h.lenl, h.lenu, h.lenc', h.lenl', h.lenu', h.c, h.l, h.u, ?_, ?_⟩
  · show RowsRel σ ((assemble as gridI ext).rows.map Row.nToS) ((assemble as' gridI ext).rows.map Row.nToS)
    rw [assemble_rows, assemble_rows]
    refine RowsRel.nToS (RowsRel.append h.rows ?_)
    have hp := nodalPairs_perm hmap hn ext gridI
    refine ⟨(nodalPairs (assembleFrom 0 as').mapping (portfolioNodes as') ext gridI).map
      (fun p => (nodalRow (assembleFrom 0 as).mapping p.2 p.1).rename σ), ?_, ?_⟩
    · rw [List.map_map]
      exact hp.map _
    · exact All2.map_same _ _ _ fun p _ => nodalRow_perm hmap p.2 p.1
  · show (((assemble as gridI ext).mapping.map (structuredMapRow name ext)).map (renVar σ)).Perm
      ((assemble as' gridI ext).mapping.map (structuredMapRow name ext))
    rw [assemble_mapping, assemble_mapping]
    have := hmap.map (structuredMapRow name ext)
    rw [List.map_map] at this
    rw [List.map_map, List.map_congr_left (g := structuredMapRow name ext ∘ renVar σ)]
    · exact this
    · intro m _; exact (structuredMapRow_renVar name ext σ m).symm

/-- **closure under `structured`** -/
theorem structured_permRel (name : String) (ext : List String) (gridI : List Nat) {as as' : List AssetProblem}
    (h : PermRel as as') (hg : ∀ a ∈ as, SGood gridI a) :
    (∀ a ∈ as', SGood gridI a) ∧ ∃ σ, VarPerm σ (structured name ext as gridI) (structured name ext as' gridI) := by
  obtain ⟨hg', σ, hσ⟩ := permRel_assembleFrom gridI h hg
  exact ⟨hg', σ, structured_of_core name ext as as' gridI hσ (permRel_portfolioNodes h)⟩


/-! ### a plain permutation of the list: the renumbering moves whole blocks -/

/-- `σ` sends the block of every entry of `as` onto the block of an equal entry of `as'`, position by position -/
def BlockMap (σ : Nat → Nat) (as as' : List AssetProblem) : Prop :=
  ∃ π : Nat → Nat, ∀ i, i < as.length → π i < as'.length ∧ as'.getD (π i) default = as.getD i default ∧
    ∀ j, j < (as.getD i default).n → σ (blockOffset as i + j) = blockOffset as' (π i) + j

theorem perm_assembleFrom (gridI : List Nat) {as as' : List AssetProblem} (h : as.Perm as') :
    (∀ a ∈ as, SGood gridI a) →
      ∃ σ, VarPerm σ (toAP (assembleFrom 0 as)) (toAP (assembleFrom 0 as')) ∧ BlockMap σ as as' := by
  induction h with
  | nil =>
    intro _
    exact ⟨_, VarPerm.refl _ rfl rfl, fun i => i, fun i hi => absurd hi (by simp)⟩
  | @cons a l l' _ ih =>
    intro hg
    obtain ⟨σ0, h0, π, hπ⟩ := ih (fun b hb => hg b (by simp [hb]))
    have hga := hg a (by simp)
    refine ⟨blockσ a.n (fun j => j) σ0, ?_, fun i => match i with | 0 => 0 | i + 1 => π i + 1, ?_⟩
    · rw [toAP_cons, toAP_cons]
      exact varperm_append (VarPerm.refl a hga.good.len_l hga.good.len_u) h0 hga.loc
    · intro i hi
      cases i with
      | zero =>
        refine ⟨by simp, rfl, ?_⟩
        intro j hj
        have hj' : j < a.n := hj
        simp only [blockOffset_zero, Nat.zero_add, blockσ, hj', if_true]
      | succ i =>
        have hi' : i < l.length := by simpa using hi
        obtain ⟨p1, p2, p3⟩ := hπ i hi'
        refine ⟨by simpa using p1, ?_, ?_⟩
        · simpa using p2
        · intro j hj
          have hj' : j < (l.getD i default).n := by simpa using hj
          have e : ¬ (a.n + blockOffset l i + j < a.n) := by omega
          simp only [blockOffset_cons_succ, blockσ, e, if_false]
          have e2 : a.n + blockOffset l i + j - a.n = blockOffset l i + j := by omega
          rw [e2, p3 j hj']
          omega
  | swap a b l =>
    intro hg
    have hga := hg a (by simp)
    have hgb := hg b (by simp)
    have hgl : ∀ c ∈ l, SGood gridI c := fun c hc => hg c (by simp [hc])
    refine ⟨swapσ b.n a.n, ?_, fun i => match i with | 0 => 1 | 1 => 0 | i + 2 => i + 2, ?_⟩
    · rw [toAP_cons, toAP_cons, toAP_cons, toAP_cons]
      obtain ⟨p1, p2⟩ := toAP_lens gridI l hgl
      exact varperm_swap b a _ hgb.loc hga.loc hgb.good.len_l hgb.good.len_u hga.good.len_l hga.good.len_u p1 p2
    · intro i hi
      match i with
      | 0 =>
        refine ⟨by simp, rfl, ?_⟩
        intro j hj
        have hj' : j < b.n := hj
        simp only [blockOffset_zero, Nat.zero_add, swapσ, hj', if_true, blockOffset_cons_succ]
        omega
      | 1 =>
        refine ⟨by simp, rfl, ?_⟩
        intro j hj
        have hj' : j < a.n := hj
        have e1 : ¬ (b.n + 0 + j < b.n) := by omega
        have e2 : b.n + 0 + j < b.n + a.n := by omega
        simp only [blockOffset_cons_succ, blockOffset_zero, swapσ, e1, e2, if_false, if_true]
        omega
      | i + 2 =>
        refine ⟨by simpa using hi, by simp, ?_⟩
        intro j _
        have e1 : ¬ (b.n + (a.n + blockOffset l i) + j < b.n) := by omega
        have e2 : ¬ (b.n + (a.n + blockOffset l i) + j < b.n + a.n) := by omega
        simp only [blockOffset_cons_succ, swapσ, e1, e2, if_false]
        omega
  | @trans l1 l2 l3 hp1 _ ih1 ih2 =>
    intro hg
    obtain ⟨σ1, h1, π1, hπ1⟩ := ih1 hg
    obtain ⟨σ2, h2, π2, hπ2⟩ := ih2 (fun a ha => hg a (hp1.mem_iff.mpr ha))
    refine ⟨_, h1.trans h2, fun i => π2 (π1 i), ?_⟩
    intro i hi
    obtain ⟨p1, p2, p3⟩ := hπ1 i hi
    obtain ⟨q1, q2, q3⟩ := hπ2 (π1 i) p1
    refine ⟨q1, q2.trans p2, ?_⟩
    intro j hj
    show σ2 (σ1 _) = _
    rw [p3 j hj, q3 j (by rw [p2]; exact hj)]

/-- **the inner list permuted**: the structured assets are renumberings of each other along a block permutation -/
theorem structured_perm_blocks (name : String) (ext : List String) (gridI : List Nat) {as as' : List AssetProblem}
    (h : as.Perm as') (hg : ∀ a ∈ as, SGood gridI a) :
    ∃ σ, VarPerm σ (structured name ext as gridI) (structured name ext as' gridI) ∧ BlockMap σ as as' := by
  obtain ⟨σ, hσ, hb⟩ := perm_assembleFrom gridI h hg
  refine ⟨σ, structured_of_core name ext as as' gridI hσ ?_, hb⟩
  unfold portfolioNodes
  rw [List.perm_ext_iff_of_nodup (nodup_eraseDups _) (nodup_eraseDups _)]
  intro n
  rw [List.mem_eraseDups, List.mem_eraseDups]
  exact (h.flatMap_right _).mem_iff

/-- a plain permutation is a `PermRel` -/
theorem permRel_of_perm (gridI : List Nat) {as as' : List AssetProblem} (h : as.Perm as')
    (hg : ∀ a ∈ as, SGood gridI a) : PermRel as as' := by
  induction h with
  | nil => exact .nil
  | @cons a l l' _ ih =>
    have hga := hg a (by simp)
    exact .cons ⟨_, VarPerm.refl a hga.good.len_l hga.good.len_u⟩ (ih fun b hb => hg b (by simp [hb]))
  | swap a b l => exact .swap b a l
  | @trans l1 l2 l3 hp1 _ ih1 ih2 => exact .trans (ih1 hg) (ih2 fun a ha => hg a (hp1.mem_iff.mpr ha))

/-- mapping variables of the concatenation -/
theorem assembleFrom_mvar (as : List AssetProblem) (off : Nat) (hv : ∀ a ∈ as, ∀ m ∈ a.mapping, m.var < a.n) :
    ∀ m ∈ (assembleFrom off as).mapping, m.var < off + (as.map (·.n)).sum := by
  induction as generalizing off with
  | nil => intro m hm; simp [assembleFrom] at hm
  | cons a rest ih =>
    intro m hm
    simp only [assembleFrom, List.mem_append, List.mem_map] at hm
    simp only [List.map_cons, List.sum_cons]
    rcases hm with ⟨m', hm', rfl⟩ | hm
    · have := hv a (by simp) m' hm'
      simp only [shift_var]; omega
    · have := ih (off + a.n) (fun b hb => hv b (by simp [hb])) m hm
      omega

theorem sgood_structured (name : String) (ext : List String) (inner : List AssetProblem) (gridI : List Nat)
    (hg : ∀ a ∈ inner, SGood gridI a) : SGood gridI (structured name ext inner gridI) := by
  refine ⟨good_structured name ext inner gridI fun a ha => (hg a ha).good, ?_⟩
  intro m hm
  obtain ⟨m0, hm0, rfl⟩ := List.mem_map.mp hm
  rw [structuredMapRow_var, structured_n]
  rw [assemble_mapping] at hm0
  have := assembleFrom_mvar inner 0 (fun a ha => (hg a ha).mvar) m0 hm0
  omega


/-! ### object trees with scaled nodes -/

theorem VP.refl (gridI : List Nat) {a : AssetProblem} (h : SGood gridI a) : VP a a :=
  ⟨_, VarPerm.refl a h.good.len_l h.good.len_u⟩

theorem VP.trans {a b c : AssetProblem} (h1 : VP a b) (h2 : VP b c) : VP a c := by
  obtain ⟨σ1, h1⟩ := h1
  obtain ⟨σ2, h2⟩ := h2
  exact ⟨_, h1.trans h2⟩

theorem PermRel.length_eq {l l' : List AssetProblem} (h : PermRel l l') : l'.length = l.length := by
  induction h with
  | nil => rfl
  | cons _ _ ih => simp [ih]
  | swap a b l => simp
  | trans _ _ ih1 ih2 => rw [ih2, ih1]

/-- a `PermRel` of one-entry lists is a renumbering of the entries -/
theorem PermRel.single {l l' : List AssetProblem} (h : PermRel l l') :
    ∀ x, l = [x] → ∃ y, l' = [y] ∧ VP x y := by
  induction h with
  | nil => intro x hx; cases hx
  | @cons a a' l l' hv hr _ =>
    intro x hx
    simp only [List.cons.injEq] at hx
    obtain ⟨rfl, rfl⟩ := hx
    have := hr.length_eq
    have hl' : l' = [] := by simpa using this
    subst hl'
    exact ⟨a', rfl, hv⟩
  | swap a b l => intro x hx; simp at hx
  | trans _ _ ih1 ih2 =>
    intro x hx
    obtain ⟨y, hy, h1⟩ := ih1 x hx
    obtain ⟨z, hz, h2⟩ := ih2 y hy
    exact ⟨z, hz, h1.trans h2⟩

/-- an object tree: a finished asset problem, a structured asset around a list of object trees, or a scaled asset
    over an object tree -/
inductive STree where
  | leaf (a : AssetProblem)
  | node (name : String) (ext : List String) (inner : List STree)
  | scaled (p : ScaledP) (dtSum : Rat) (base : STree)

mutual
/-- the problem of an object tree on the grid `gridI` -/
def STree.build (gridI : List Nat) : STree → AssetProblem
  | .leaf a => a
  | .node name ext inner => structured name ext (sbuildL gridI inner) gridI
  | .scaled p d b => buildScaled p (b.build gridI) d
def sbuildL (gridI : List Nat) : List STree → List AssetProblem
  | [] => []
  | t :: ts => t.build gridI :: sbuildL gridI ts
end

mutual
/-- every leaf is well-formed, local, and its mapping rows point at its own variables -/
def STree.good (gridI : List Nat) : STree → Prop
  | .leaf a => SGood gridI a
  | .node _ _ inner => sgoodL gridI inner
  | .scaled _ _ b => b.good gridI
def sgoodL (gridI : List Nat) : List STree → Prop
  | [] => True
  | t :: ts => t.good gridI ∧ sgoodL gridI ts
end

mutual
theorem sgood_build (gridI : List Nat) : ∀ t : STree, t.good gridI → SGood gridI (t.build gridI)
  | .leaf a, h => by simpa [STree.good, STree.build] using h
  | .node name ext inner, h => by
    rw [STree.build]
    exact sgood_structured name ext _ gridI (sgood_buildL gridI inner (by simpa [STree.good] using h))
  | .scaled p d b, h => by
    rw [STree.build]
    exact sgood_scaled gridI p _ d (sgood_build gridI b (by simpa [STree.good] using h))
theorem sgood_buildL (gridI : List Nat) : ∀ ts : List STree, sgoodL gridI ts → ∀ a ∈ sbuildL gridI ts, SGood gridI a
  | [], _ => by intro a ha; simp [sbuildL] at ha
  | t :: ts, h => by
    intro a ha
    rw [sgoodL] at h
    rw [sbuildL, List.mem_cons] at ha
    rcases ha with rfl | ha
    · exact sgood_build gridI t h.1
    · exact sgood_buildL gridI ts h.2 a ha
end

/-- lists of object trees equal up to the order of the wrapped lists at every level of nesting, below structured
    AND scaled nodes -/
inductive TPerm : List STree → List STree → Prop
  | nil : TPerm [] []
  | leaf (a : AssetProblem) {ts ts' : List STree} : TPerm ts ts' → TPerm (.leaf a :: ts) (.leaf a :: ts')
  | node (name : String) (ext : List String) {cs cs' ts ts' : List STree} :
      TPerm cs cs' → TPerm ts ts' → TPerm (.node name ext cs :: ts) (.node name ext cs' :: ts')
  | scaled (p : ScaledP) (d : Rat) {b b' : STree} {ts ts' : List STree} :
      TPerm [b] [b'] → TPerm ts ts' → TPerm (.scaled p d b :: ts) (.scaled p d b' :: ts')
  | swap (t1 t2 : STree) (ts : List STree) : TPerm (t1 :: t2 :: ts) (t2 :: t1 :: ts)
  | trans {a b c : List STree} : TPerm a b → TPerm b c → TPerm a c

/-- **wrappers in wrappers, scaled nodes included**: the built problems are equal up to order and a renumbering of the
    variables of every entry -/
theorem tperm_permRel (gridI : List Nat) {ts ts' : List STree} (h : TPerm ts ts') :
    sgoodL gridI ts → sgoodL gridI ts' ∧ PermRel (sbuildL gridI ts) (sbuildL gridI ts') := by
  induction h with
  | nil => intro _; exact ⟨by simp [sgoodL], by rw [sbuildL]; exact .nil⟩
  | @leaf a ts ts' _ ih =>
    intro hg
    rw [sgoodL] at hg
    obtain ⟨hg', hr⟩ := ih hg.2
    refine ⟨by rw [sgoodL]; exact ⟨hg.1, hg'⟩, ?_⟩
    rw [sbuildL, sbuildL, STree.build]
    exact .cons (VP.refl gridI (by simpa [STree.good] using hg.1)) hr
  | @node name ext cs cs' ts ts' _ _ ihc iht =>
    intro hg
    rw [sgoodL, STree.good] at hg
    obtain ⟨hgc', hrc⟩ := ihc hg.1
    obtain ⟨hgt', hr⟩ := iht hg.2
    refine ⟨by rw [sgoodL, STree.good]; exact ⟨hgc', hgt'⟩, ?_⟩
    rw [sbuildL, sbuildL, STree.build, STree.build]
    exact .cons (structured_permRel name ext gridI hrc (sgood_buildL gridI cs hg.1)).2 hr
  | @scaled p d b b' ts ts' _ _ ihb iht =>
    intro hg
    rw [sgoodL, STree.good] at hg
    obtain ⟨hgb', hrb⟩ := ihb (by rw [sgoodL, sgoodL]; exact ⟨hg.1, trivial⟩)
    obtain ⟨hgt', hr⟩ := iht hg.2
    rw [sgoodL, sgoodL] at hgb'
    refine ⟨by rw [sgoodL, STree.good]; exact ⟨hgb'.1, hgt'⟩, ?_⟩
    rw [sbuildL, sbuildL, sbuildL] at hrb
    obtain ⟨y, hy, σ, hσ⟩ := hrb.single _ rfl
    simp only [List.cons.injEq] at hy
    obtain ⟨hy, _⟩ := hy
    subst hy
    rw [sbuildL, sbuildL, STree.build, STree.build]
    exact .cons ⟨σ, scaled_varperm_core hσ (sgood_build gridI b hg.1).mvar p d⟩ hr
  | swap t1 t2 ts =>
    intro hg
    rw [sgoodL, sgoodL] at hg
    refine ⟨by rw [sgoodL, sgoodL]; exact ⟨hg.2.1, hg.1, hg.2.2⟩, ?_⟩
    rw [sbuildL, sbuildL, sbuildL, sbuildL]
    exact .swap _ _ _
  | trans _ _ ih1 ih2 =>
    intro hg
    obtain ⟨hgb, h1⟩ := ih1 hg
    obtain ⟨hgc, h2⟩ := ih2 hgb
    exact ⟨hgc, .trans h1 h2⟩

/-- one object tree -/
theorem tperm_tree (gridI : List Nat) (t t' : STree) (h : TPerm [t] [t']) (hg : t.good gridI) :
    t'.good gridI ∧ ∃ σ, VarPerm σ (t.build gridI) (t'.build gridI) := by
  obtain ⟨hg', hr⟩ := tperm_permRel gridI h (by rw [sgoodL, sgoodL]; exact ⟨hg, trivial⟩)
  rw [sgoodL, sgoodL] at hg'
  rw [sbuildL, sbuildL, sbuildL] at hr
  obtain ⟨y, hy, hv⟩ := hr.single _ rfl
  simp only [List.cons.injEq] at hy
  obtain ⟨hy, _⟩ := hy
  subst hy
  exact ⟨hg'.1, hv⟩

/-! ### symmetry -/

/-- the inverse renumbering -/
theorem VarPerm.symm {σ : Nat → Nat} {A B : AssetProblem} (h : VarPerm σ A B) :
    ∃ τ : Nat → Nat, (∀ j, τ (σ j) = j) ∧ (∀ j, σ (τ j) = j) ∧ VarPerm τ B A := by
  obtain ⟨τ, t1, t2⟩ := h.perm.inv
  have hn : B.n = A.n := h.n_eq
  have hτlt : ∀ j, j < A.n → τ j < A.n := PermOn.inv_lt h.perm t2
  have hτ : PermOn τ A.n := by
    refine ⟨⟨σ, t2, t1⟩, hτlt, ?_⟩
    intro j hj
    have := h.perm.fix j hj
    have h2 := congrArg τ this
    rw [t1] at h2
    exact h2.symm
  refine ⟨τ, t1, t2, h.name.symm, h.nodes.symm, hn ▸ hτ, h.lenl'.trans hn.symm, h.lenu'.trans hn.symm,
    hn.symm ▸ rfl, hn.symm ▸ h.lenl, hn.symm ▸ h.lenu, ?_, ?_, ?_, ?_, ?_⟩
  · intro j hj; rw [hn] at hj; rw [← h.c (τ j) (hτlt j hj), t2]
  · intro j hj; rw [hn] at hj; rw [← h.l (τ j) (hτlt j hj), t2]
  · intro j hj; rw [hn] at hj; rw [← h.u (τ j) (hτlt j hj), t2]
  · obtain ⟨mid, p, a⟩ := h.rows
    have a' : All2 RowEq (B.rows.map (Row.rename τ)) (mid.map (Row.rename τ)) :=
      All2.map_both _ _ _ _ (fun _ _ hr => RowEq.rename τ ⟨hr.1.symm, hr.2.1.symm, hr.2.2.symm⟩) (All2.flip a)
    have e : (A.rows.map (Row.rename σ)).map (Row.rename τ) = A.rows := by
      rw [List.map_map]
      conv => rhs; rw [← List.map_id A.rows]
      apply List.map_congr_left
      intro r _
      simp only [Function.comp, rename_rename, t1, id]
      exact rename_id r
    have p' : (mid.map (Row.rename τ)).Perm A.rows := by
      have := (p.map (Row.rename τ)).symm
      rwa [e] at this
    obtain ⟨m, hpm, ham⟩ := All2.perm_lift p' _ a'
    exact ⟨m, hpm, ham⟩
  · have e : (A.mapping.map (renVar σ)).map (renVar τ) = A.mapping := by
      rw [List.map_map]
      conv => rhs; rw [← List.map_id A.mapping]
      apply List.map_congr_left
      intro m _
      cases m
      simp only [Function.comp, renVar, t1, id]
    have := (h.map.map (renVar τ)).symm
    rwa [e] at this

end EAO.ScaledPerm
