import EAO.Model.CHPProfile
import EAO.Lemmas.UC
import EAO.Lemmas.CHPRows
import EAO.Lemmas.CHPCommit
import EAO.Lemmas.CHPProfile
/-!
# EAO.Lemmas.CHPProfCommit — `assembleCHPP` (CHP / Plant WITH start / shutdown ramp profiles, hence with shutdown
variables) and `convertRamp`; lemmas for `EAO/Properties/C06Profile.lean`.

(A) bounds of the on / start / shutdown variables (`lowerP_*`, `upperP_*`) under `CommitWFP`;
(B) the start / shutdown flags as transition indicators at ALL steps (`FlagsF`, `FlagOK`, `flagsF_iff`, `P_flags`,
    `flag_rows_iff`, `first_step_flags`) and the bridge from the commitment rows to the run-length specification
    `UC.MinUpDown` with the minimum runtime increased by the ramp lengths (`commit_rows_iff_spec_prof`,
    `feasible_imp_spec`); well-formedness from a decidable check and from `resolveCHPP` (`resolveCHPP_wf`);
(C) the heat-profile rows `heatProfRows` (`heatProfLower_sat`, `heatProfUpper_sat`, `heat_*_bounds`,
    `assemble_ignores_start_heat`); (C') ramp rows with any number of flags (`ramp_rows_general`);
(D) `convertRamp` (`_convert_ramp`): identity, averaging for whole and arbitrary ratios (`convertRamp_coarse_int`,
    `convertRamp_coarse_general`, `coarse_weights`, volume), interpolation (`interp_between`, `convertRamp_fine_int`,
    `fine_entry_*`), monotonicity (`LeL`, `convertRamp_mono`, `mkProf_ordered`).
Core Lean only (no Mathlib).
-/
namespace EAO.CHPProfCommit
open EAO EAO.UC

/-! ## (A) bounds -/

/-- what the resolution guarantees about a problem with profiles: the profile-free part is well formed and has
    on- and start-variables (`include_on_variables`, `include_start_variables` are true with a profile) -/
structure CommitWFP (r : CHPRP) : Prop where
  core : CHPCommit.CommitWF r.core
  hon  : r.core.incOn = true
  hst  : r.core.incStart = true

theorem length_setSliceFrom (xs : List Rat) (i a b : Nat) (v : Rat) : (setSliceFrom xs i a b v).length = xs.length := by
  induction xs generalizing i with
  | nil => simp [setSliceFrom]
  | cons y ys ih => simp [setSliceFrom, ih]

theorem length_setSlice (xs : List Rat) (a b : Nat) (v : Rat) : (setSlice xs a b v).length = xs.length :=
  length_setSliceFrom xs 0 a b v

theorem core_lower_len (r : CHPR) (hwf : CHPCommit.CommitWF r) (ho : r.incOn = true) (hs : r.incStart = true) :
    r.lower.length = r.layout.onIdx + r.T + r.T := by
  have hP := CHPCommit.lower_pre_len r hwf
  simp only [CHPR.lower]
  generalize (if r.heat = true then List.replicate (2 * r.base.c.length) (0 : Rat)
      else (if r.incOn = true then r.base.l.map fun _ => (0 : Rat) else r.base.l)) = P at hP ⊢
  simp only [ho, hs, and_self, if_true, true_and]
  split <;> simp [length_setSlice, hP] <;> omega

theorem core_upper_len (r : CHPR) (hwf : CHPCommit.CommitWF r) (ho : r.incOn = true) (hs : r.incStart = true) :
    r.upper.length = r.layout.onIdx + r.T + r.T := by
  have hP := CHPCommit.upper_pre_len r hwf
  simp only [CHPR.upper]
  generalize (if r.heat = true then r.base.u ++ r.uHeat else r.base.u) = P at hP ⊢
  simp only [ho, hs, and_self, if_true]
  split <;> simp [length_setSlice, hP] <;> omega

theorem getD_append_lt (a b : List Rat) (j : Nat) (h : j < a.length) : (a ++ b).getD j 0 = a.getD j 0 := by
  simp [List.getD_eq_getElem?_getD, List.getElem?_append_left h]

theorem getD_append_ge (a b : List Rat) (j : Nat) : (a ++ b).getD (a.length + j) 0 = b.getD j 0 := by
  simp [List.getD_eq_getElem?_getD, List.getElem?_append_right]

theorem startIdx_eq (r : CHPR) : r.layout.startIdx = r.layout.onIdx + r.T := rfl

variable {r : CHPRP}

theorem lowerP_on (h : CommitWFP r) (t : Nat) (ht : t < r.core.T) :
    r.lower.getD (r.core.layout.on t) 0 = r.core.lower.getD (r.core.layout.on t) 0 := by
  have hl := core_lower_len r.core h.core h.hon h.hst
  unfold CHPRP.lower
  exact getD_append_lt _ _ _ (by simp only [CHPLayout.on]; omega)

theorem lowerP_start (h : CommitWFP r) (t : Nat) (ht : t < r.core.T) :
    r.lower.getD (r.core.layout.start t) 0 = 0 := by
  have hl := core_lower_len r.core h.core h.hon h.hst
  unfold CHPRP.lower
  rw [getD_append_lt _ _ _ (by simp only [CHPLayout.start, startIdx_eq]; omega)]
  exact CHPCommit.lower_start r.core h.core h.hst t ht

theorem shut_eq (h : CommitWFP r) (t : Nat) : r.shut t = r.core.lower.length + t := by
  have hl := core_lower_len r.core h.core h.hon h.hst
  simp only [CHPRP.shut, CHPRP.shutIdx, startIdx_eq]; omega

theorem shut_eq' (h : CommitWFP r) (t : Nat) : r.shut t = r.core.upper.length + t := by
  have hl := core_upper_len r.core h.core h.hon h.hst
  simp only [CHPRP.shut, CHPRP.shutIdx, startIdx_eq]; omega

theorem lowerP_shut (h : CommitWFP r) (t : Nat) (ht : t < r.core.T) : r.lower.getD (r.shut t) 0 = 0 := by
  rw [shut_eq h t]
  unfold CHPRP.lower
  rw [getD_append_ge]
  simp [List.getD_eq_getElem?_getD, ht]

theorem lowerP_len (h : CommitWFP r) : r.lower.length = r.core.layout.onIdx + r.core.T + r.core.T + r.core.T := by
  have hl := core_lower_len r.core h.core h.hon h.hst
  simp [CHPRP.lower, hl]

theorem upperP_pre_len (h : CommitWFP r) :
    (r.core.upper ++ List.replicate r.core.T (1 : Rat)).length = r.core.layout.onIdx + r.core.T + r.core.T + r.core.T := by
  have hl := core_upper_len r.core h.core h.hon h.hst
  simp [hl]

theorem upperP_getD (r : CHPRP) (j : Nat) :
    r.upper.getD j 0 =
      if (if r.core.tar = 0 then r.shutIdx else r.core.layout.startIdx) = j ∧
          j < (r.core.upper ++ List.replicate r.core.T (1 : Rat)).length then 0
      else (r.core.upper ++ List.replicate r.core.T (1 : Rat)).getD j 0 := by
  unfold CHPRP.upper setAt
  by_cases h0 : r.core.tar = 0
  · simp only [h0, if_true, CHPCommit.getD_setSlice]
    by_cases hj : r.shutIdx = j
    · subst hj; simp
    · rw [if_neg (by omega), if_neg (by intro h; exact hj h.1)]
  · simp only [h0, if_false, CHPCommit.getD_setSlice]
    by_cases hj : r.core.layout.startIdx = j
    · subst hj; simp
    · rw [if_neg (by omega), if_neg (by intro h; exact hj h.1)]

theorem upperP_on (h : CommitWFP r) (t : Nat) (ht : t < r.core.T) :
    r.upper.getD (r.core.layout.on t) 0 = r.core.upper.getD (r.core.layout.on t) 0 := by
  have hl := core_upper_len r.core h.core h.hon h.hst
  rw [upperP_getD, if_neg, getD_append_lt _ _ _ (by simp only [CHPLayout.on]; omega)]
  intro hc
  have := hc.1
  simp only [CHPLayout.on, CHPRP.shutIdx, startIdx_eq] at this
  split at this <;> omega

theorem upperP_start (h : CommitWFP r) (t : Nat) (ht : t < r.core.T) :
    r.upper.getD (r.core.layout.start t) 0 = if r.core.tar ≠ 0 ∧ t = 0 then 0 else 1 := by
  have hl := core_upper_len r.core h.core h.hon h.hst
  have hp := upperP_pre_len h
  rw [upperP_getD]
  by_cases h0 : r.core.tar = 0
  · rw [if_neg, if_neg (by intro hc; exact hc.1 h0),
      getD_append_lt _ _ _ (by simp only [CHPLayout.start, startIdx_eq]; omega)]
    · exact CHPCommit.upper_start r.core h.core h.hst t ht
    · intro hc
      have := hc.1
      simp only [h0, if_true, CHPLayout.start, CHPRP.shutIdx] at this
      omega
  · by_cases ht0 : t = 0
    · subst ht0
      rw [if_pos, if_pos ⟨h0, rfl⟩]
      refine ⟨by simp [h0, CHPLayout.start], ?_⟩
      rw [hp]; simp only [CHPLayout.start, startIdx_eq]; omega
    · rw [if_neg, if_neg (by intro hc; exact ht0 hc.2),
        getD_append_lt _ _ _ (by simp only [CHPLayout.start, startIdx_eq]; omega)]
      · exact CHPCommit.upper_start r.core h.core h.hst t ht
      · intro hc
        have := hc.1
        simp only [h0, if_false, CHPLayout.start] at this
        omega

theorem upperP_shut (h : CommitWFP r) (t : Nat) (ht : t < r.core.T) :
    r.upper.getD (r.shut t) 0 = if r.core.tar = 0 ∧ t = 0 then 0 else 1 := by
  have hp := upperP_pre_len h
  have hrep : (r.core.upper ++ List.replicate r.core.T (1 : Rat)).getD (r.shut t) 0 = 1 := by
    rw [shut_eq' h t, getD_append_ge]
    simp [List.getD_eq_getElem?_getD, ht]
  rw [upperP_getD]
  by_cases h0 : r.core.tar = 0
  · by_cases ht0 : t = 0
    · subst ht0
      rw [if_pos, if_pos ⟨h0, rfl⟩]
      refine ⟨by simp [h0, CHPRP.shut], ?_⟩
      rw [hp]; simp only [CHPRP.shut, CHPRP.shutIdx, startIdx_eq]; omega
    · rw [if_neg, if_neg (by intro hc; exact ht0 hc.2), hrep]
      intro hc
      have := hc.1
      simp only [h0, if_true, CHPRP.shut] at this
      omega
  · rw [if_neg, if_neg (by intro hc; exact h0 hc.1), hrep]
    intro hc
    have := hc.1
    simp only [h0, if_false, CHPRP.shut, CHPRP.shutIdx] at this
    omega


/-! ## (B) start / shutdown flags and the run-length specification -/

open EAO.CHPCommit (b2r CommitWF ucp)

/-- the rows that involve on / start / shutdown variables only -/
def commitRowsP (r : CHPRP) : List Row := r.startShutRows ++ r.core.runtimeRows ++ r.core.downtimeRows

theorem commitRowsP_sub (r : CHPRP) {row : Row} (h : row ∈ commitRowsP r) : row ∈ r.rows := by
  simp only [commitRowsP, List.mem_append] at h
  simp only [CHPRP.rows, List.mem_append]
  rcases h with (h | h) | h
  · exact Or.inl (Or.inl (Or.inl (Or.inr h)))
  · exact Or.inl (Or.inl (Or.inr h))
  · exact Or.inl (Or.inr h)

/-- the switch-off indicator: at step 0 "was running and is off now", later `on_{t−1} ∧ ¬ on_t` -/
def shutOf (p : UCP) (on : Nat → Bool) (t : Nat) : Bool :=
  if t = 0 then (decide (p.tar ≠ 0) && !on 0) else (on (t-1) && !on t)

/-- Boolean reading of the start / shutdown definition rows, the exclusion rows (every step) and the two bounds of step 0 -/
def FlagsF (tar T : Nat) (on st sh : Nat → Bool) : Prop :=
  (∀ t, t + 1 < T → ((st (t+1) && !sh (t+1)) = (on (t+1) && !on t) ∧ (sh (t+1) && !st (t+1)) = (!on (t+1) && on t))) ∧
  (tar = 0 → st 0 = on 0) ∧ (tar ≠ 0 → sh 0 = !on 0) ∧
  (∀ t, t < T → ¬ (st t = true ∧ sh t = true)) ∧
  (tar = 0 → sh 0 = false) ∧ (tar ≠ 0 → st 0 = false)

/-- the flags of step `t` are the transition indicators (no exception: since the repair e7aae05 of /repo the exclusion
    rows cover the last step too) -/
def FlagOK (p : UCP) (T : Nat) (on st sh : Nat → Bool) (t : Nat) : Prop :=
  st t = startOf p T on t ∧ sh t = shutOf p on t

theorem flagsF_iff (p : UCP) (T : Nat) (on st sh : Nat → Bool) (hT : 0 < T) :
    FlagsF p.tar T on st sh ↔ ∀ t, t < T → FlagOK p T on st sh t := by
  constructor
  · rintro ⟨hE, hF0, hF1, hO, hB0, hB1⟩ t ht
    cases t with
    | zero =>
      by_cases h0 : p.tar = 0
      · simp [FlagOK, startOf, shutOf, h0, hF0 h0, hB0 h0]
      · simp [FlagOK, startOf, shutOf, h0, hF1 h0, hB1 h0]
    | succ s =>
      obtain ⟨e1, e2⟩ := hE s ht
      have ho := hO (s+1) ht
      simp only [FlagOK, startOf, shutOf, Nat.succ_ne_zero, if_false, Nat.add_sub_cancel]
      revert e1 e2 ho
      cases st (s+1) <;> cases sh (s+1) <;> cases on (s+1) <;> cases on s <;> simp
  · intro h
    refine ⟨?_, ?_, ?_, ?_, ?_, ?_⟩
    · intro t ht
      obtain ⟨h1, h2⟩ := h (t+1) ht
      simp only [startOf, shutOf, Nat.succ_ne_zero, if_false, Nat.add_sub_cancel] at h1 h2
      rw [h1, h2]
      cases on (t+1) <;> cases on t <;> simp
    · intro h0
      simpa [startOf, h0] using (h 0 hT).1
    · intro h0
      simpa [shutOf, h0] using (h 0 hT).2
    · intro t ht
      obtain ⟨h1, h2⟩ := h t ht
      rw [h1, h2]
      cases t with
      | zero => by_cases h0 : p.tar = 0 <;> simp [startOf, shutOf, h0]
      | succ s =>
        simp only [startOf, shutOf, Nat.succ_ne_zero, if_false, Nat.add_sub_cancel]
        cases on (s+1) <;> cases on s <;> simp
    · intro h0
      simpa [shutOf, h0] using (h 0 hT).2
    · intro h0
      simpa [startOf, h0] using (h 0 hT).1

/-! ### membership and Boolean reading of the start / shutdown rows -/

theorem mem_startShutRows (r : CHPRP) (row : Row) :
    row ∈ r.startShutRows ↔
      ((∃ t, t < r.core.T - 1 ∧ row = r.startShutRow t) ∨
       row = (if r.core.tar = 0 then r.core.startFirstRow else r.firstRunningRow) ∨
       (∃ t, t < r.core.T ∧ row = r.overlapRow t)) := by
  simp only [CHPRP.startShutRows, List.mem_append, List.mem_map, List.mem_range, List.mem_singleton, eq_comm, or_assoc]

theorem startShut_bool (r : CHPRP) (x : Vec) (t : Nat) (a b c d : Bool)
    (h1 : x (r.core.layout.on (t+1)) = b2r a) (h2 : x (r.core.layout.on t) = b2r b)
    (h3 : x (r.core.layout.start (t+1)) = b2r c) (h4 : x (r.shut (t+1)) = b2r d) :
    (r.startShutRow t).Sat x ↔ ((c && !d) = (a && !b) ∧ (d && !c) = (!a && b)) := by
  rw [CHPProfile.startShutRow_sat, h1, h2, h3, h4]
  cases a <;> cases b <;> cases c <;> cases d <;> simp [b2r] <;> grind

theorem firstOff_bool (r : CHPRP) (x : Vec) (a c : Bool)
    (h1 : x (r.core.layout.on 0) = b2r a) (h3 : x (r.core.layout.start 0) = b2r c) :
    r.core.startFirstRow.Sat x ↔ c = a := by
  rw [CHPRows.startFirstRow_sat, h1, h3]
  cases a <;> cases c <;> simp [b2r] <;> grind

theorem firstRunning_bool (r : CHPRP) (x : Vec) (a d : Bool)
    (h1 : x (r.core.layout.on 0) = b2r a) (h4 : x (r.shut 0) = b2r d) :
    r.firstRunningRow.Sat x ↔ d = !a := by
  rw [CHPProfile.firstRunningRow_sat, h1, h4]
  cases a <;> cases d <;> simp [b2r] <;> grind

theorem overlap_bool (r : CHPRP) (x : Vec) (t : Nat) (c d : Bool)
    (h3 : x (r.core.layout.start t) = b2r c) (h4 : x (r.shut t) = b2r d) :
    (r.overlapRow t).Sat x ↔ ¬ (c = true ∧ d = true) := by
  rw [CHPProfile.overlapRow_sat, h3, h4]
  cases c <;> cases d <;> simp [b2r] <;> grind

theorem b2r_bounds (a : Bool) (P : Prop) [Decidable P] :
    ((0 : Rat) ≤ b2r a ∧ b2r a ≤ (if P then 0 else 1)) ↔ (P → a = false) := by
  by_cases hP : P <;> cases a <;> simp [b2r, hP] <;> grind

section
variable (r : CHPRP) (x : Vec) (onf stf shf : Nat → Bool)

/-- the start / shutdown rows and the bounds of the start and shutdown variables, read on a 0/1 point -/
theorem P_flags (hwf : CommitWFP r)
    (hon : ∀ t, t < r.core.T → x (r.core.layout.on t) = b2r (onf t))
    (hst : ∀ t, t < r.core.T → x (r.core.layout.start t) = b2r (stf t))
    (hsh : ∀ t, t < r.core.T → x (r.shut t) = b2r (shf t)) :
    ((∀ row ∈ r.startShutRows, row.Sat x) ∧
     (∀ t, t < r.core.T → r.lower.getD (r.core.layout.start t) 0 ≤ x (r.core.layout.start t) ∧
        x (r.core.layout.start t) ≤ r.upper.getD (r.core.layout.start t) 0) ∧
     (∀ t, t < r.core.T → r.lower.getD (r.shut t) 0 ≤ x (r.shut t) ∧ x (r.shut t) ≤ r.upper.getD (r.shut t) 0)) ↔
      FlagsF r.core.tar r.core.T onf stf shf := by
  have hT := hwf.core.hT
  constructor
  · rintro ⟨hrows, hbs, hbq⟩
    refine ⟨?_, ?_, ?_, ?_, ?_, ?_⟩
    · intro t ht
      have := hrows (r.startShutRow t) ((mem_startShutRows r _).2 (Or.inl ⟨t, by omega, rfl⟩))
      exact (startShut_bool r x t _ _ _ _ (hon _ ht) (hon _ (by omega)) (hst _ ht) (hsh _ ht)).1 this
    · intro h0
      have := hrows _ ((mem_startShutRows r _).2 (Or.inr (Or.inl rfl)))
      rw [if_pos h0] at this
      exact (firstOff_bool r x _ _ (hon 0 hT) (hst 0 hT)).1 this
    · intro h0
      have := hrows _ ((mem_startShutRows r _).2 (Or.inr (Or.inl rfl)))
      rw [if_neg h0] at this
      exact (firstRunning_bool r x _ _ (hon 0 hT) (hsh 0 hT)).1 this
    · intro t ht
      have := hrows (r.overlapRow t) ((mem_startShutRows r _).2 (Or.inr (Or.inr ⟨t, by omega, rfl⟩)))
      exact (overlap_bool r x t _ _ (hst _ (by omega)) (hsh _ (by omega))).1 this
    · intro h0
      have := hbq 0 hT
      rw [lowerP_shut hwf 0 hT, upperP_shut hwf 0 hT, hsh 0 hT, b2r_bounds] at this
      exact this ⟨h0, rfl⟩
    · intro h0
      have := hbs 0 hT
      rw [lowerP_start hwf 0 hT, upperP_start hwf 0 hT, hst 0 hT, b2r_bounds] at this
      exact this ⟨h0, rfl⟩
  · rintro ⟨hE, hF0, hF1, hO, hB0, hB1⟩
    refine ⟨?_, ?_, ?_⟩
    · intro row hrow
      rcases (mem_startShutRows r row).1 hrow with ⟨t, ht, rfl⟩ | rfl | ⟨t, ht, rfl⟩
      · exact (startShut_bool r x t _ _ _ _ (hon _ (by omega)) (hon _ (by omega)) (hst _ (by omega)) (hsh _ (by omega))).2
          (hE t (by omega))
      · by_cases h0 : r.core.tar = 0
        · rw [if_pos h0]; exact (firstOff_bool r x _ _ (hon 0 hT) (hst 0 hT)).2 (hF0 h0)
        · rw [if_neg h0]; exact (firstRunning_bool r x _ _ (hon 0 hT) (hsh 0 hT)).2 (hF1 h0)
      · exact (overlap_bool r x t _ _ (hst _ (by omega)) (hsh _ (by omega))).2 (hO t (by omega))
    · intro t ht
      rw [lowerP_start hwf t ht, upperP_start hwf t ht, hst t ht, b2r_bounds]
      rintro ⟨h0, rfl⟩; exact hB1 h0
    · intro t ht
      rw [lowerP_shut hwf t ht, upperP_shut hwf t ht, hsh t ht, b2r_bounds]
      rintro ⟨h0, rfl⟩; exact hB0 h0

end

/-! ### the admissible on/off patterns -/

/-- the pattern `on` (as 0/1 values of the on variables) extends to a 0/1 assignment of the start AND shutdown
    variables that satisfies the generated start / shutdown definition rows, exclusion rows, min-runtime and
    min-downtime rows and the bounds of the on, start and shutdown variables (which carry the initial state) -/
def CommitFeasibleP (r : CHPRP) (on : List Bool) : Prop :=
  ∃ x : Vec,
    (∀ t, t < r.core.T → x (r.core.layout.on t) = b2r (on.getD t false)) ∧
    (∀ t, t < r.core.T → x (r.core.layout.start t) = 0 ∨ x (r.core.layout.start t) = 1) ∧
    (∀ t, t < r.core.T → x (r.shut t) = 0 ∨ x (r.shut t) = 1) ∧
    (∀ row ∈ commitRowsP r, row.Sat x) ∧
    (∀ t, t < r.core.T → r.lower.getD (r.core.layout.on t) 0 ≤ x (r.core.layout.on t) ∧
        x (r.core.layout.on t) ≤ r.upper.getD (r.core.layout.on t) 0) ∧
    (∀ t, t < r.core.T → r.lower.getD (r.core.layout.start t) 0 ≤ x (r.core.layout.start t) ∧
        x (r.core.layout.start t) ≤ r.upper.getD (r.core.layout.start t) 0) ∧
    (∀ t, t < r.core.T → r.lower.getD (r.shut t) 0 ≤ x (r.shut t) ∧ x (r.shut t) ≤ r.upper.getD (r.shut t) 0)

theorem b2r_of_01 (v : Rat) (h : v = 0 ∨ v = 1) : v = b2r (decide (v = 1)) := by
  rcases h with h | h <;> subst h <;> simp [b2r]

theorem flagOK_start (p : UCP) (T : Nat) (on st sh : Nat → Bool) (hT : 0 < T) (h : ∀ t, t < T → FlagOK p T on st sh t) :
    (∀ t, t + 1 < T → on (t+1) = true → on t = false → st (t+1) = true) ∧ (p.tar = 0 → st 0 = on 0) := by
  constructor
  · intro t ht h1 h0
    rw [(h (t+1) ht).1]; simp [startOf, h1, h0]
  · intro h0
    rw [(h 0 hT).1]; simp [startOf, h0]

theorem commit_feasibleP_imp_spec (r : CHPRP) (hwf : CommitWFP r) (on : List Bool) (hlen : on.length = r.core.T) :
    CommitFeasibleP r on → MinUpDown (ucp r.core) on := by
  rintro ⟨x, hon, hs01, hq01, hrows, hbon, hbst, hbsh⟩
  unfold MinUpDown; rw [hlen]
  have hT := hwf.core.hT
  have hon' : ∀ t, t < r.core.T → x (r.core.layout.on t) = b2r (fn on t) := hon
  let stf : Nat → Bool := fun t => decide (x (r.core.layout.start t) = 1)
  let shf : Nat → Bool := fun t => decide (x (r.shut t) = 1)
  have hst : ∀ t, t < r.core.T → x (r.core.layout.start t) = b2r (stf t) := fun t ht => b2r_of_01 _ (hs01 t ht)
  have hsh : ∀ t, t < r.core.T → x (r.shut t) = b2r (shf t) := fun t ht => b2r_of_01 _ (hq01 t ht)
  have hrowsF : ∀ row ∈ r.startShutRows, row.Sat x := fun row h => hrows row (by simp [commitRowsP, h])
  have hrowsR : ∀ row ∈ r.core.runtimeRows, row.Sat x := fun row h => hrows row (by simp [commitRowsP, h])
  have hrowsD : ∀ row ∈ r.core.downtimeRows, row.Sat x := fun row h => hrows row (by simp [commitRowsP, h])
  have hF := (P_flags r x (fn on) stf shf hwf hon' hst hsh).1 ⟨hrowsF, hbst, hbsh⟩
  have hOK := (flagsF_iff (ucp r.core) r.core.T (fn on) stf shf hT).1 hF
  obtain ⟨c1, c2⟩ := flagOK_start (ucp r.core) r.core.T (fn on) stf shf hT hOK
  have c3 := (CHPCommit.P_run r.core x (fn on) stf hwf.hst hon' hst).1 hrowsR
  obtain ⟨c6, c7⟩ := (CHPCommit.P_down r.core x (fn on) hon').1 hrowsD
  have hbon' : ∀ t, t < r.core.T → r.core.lower.getD (r.core.layout.on t) 0 ≤ x (r.core.layout.on t) ∧
      x (r.core.layout.on t) ≤ r.core.upper.getD (r.core.layout.on t) 0 := by
    intro t ht
    have := hbon t ht
    rwa [lowerP_on hwf t ht, upperP_on hwf t ht] at this
  obtain ⟨c4, c8⟩ := (CHPCommit.P_bon r.core x (fn on) hwf.core hwf.hon hon').1 hbon'
  exact rowsF_imp_specF (ucp r.core) r.core.T (fn on) stf ⟨c1, c2, c3, c4, c6, c7, c8⟩

theorem spec_imp_commit_feasibleP (r : CHPRP) (hwf : CommitWFP r) (on : List Bool) (hlen : on.length = r.core.T) :
    MinUpDown (ucp r.core) on → CommitFeasibleP r on := by
  intro h
  unfold MinUpDown at h; rw [hlen] at h
  have hT := hwf.core.hT
  obtain ⟨c1, c2, c3, c4, c6, c7, c8⟩ := specF_imp_rowsF (ucp r.core) r.core.T (fn on) h
  let stf := startOf (ucp r.core) r.core.T (fn on)
  let shf := shutOf (ucp r.core) (fn on)
  let o := r.core.layout.onIdx
  let T := r.core.T
  let x : Vec := fun j =>
    if j < o + T then b2r (fn on (j - o))
    else if j < o + T + T then b2r (stf (j - o - T)) else b2r (shf (j - o - T - T))
  have hon : ∀ t, t < r.core.T → x (r.core.layout.on t) = b2r (fn on t) := by
    intro t ht
    have e1 : r.core.layout.on t = o + t := rfl
    rw [e1]
    show (if o + t < o + T then b2r (fn on (o + t - o)) else _) = _
    rw [if_pos (by omega), Nat.add_sub_cancel_left]
  have hst : ∀ t, t < r.core.T → x (r.core.layout.start t) = b2r (stf t) := by
    intro t ht
    have e2 : r.core.layout.start t = o + T + t := rfl
    rw [e2]
    show (if o + T + t < o + T then _
      else if o + T + t < o + T + T then b2r (stf (o + T + t - o - T)) else _) = _
    rw [if_neg (by omega), if_pos (by omega)]
    have : o + T + t - o - T = t := by omega
    rw [this]
  have hsh : ∀ t, t < r.core.T → x (r.shut t) = b2r (shf t) := by
    intro t ht
    have e3 : r.shut t = o + T + T + t := rfl
    rw [e3]
    show (if o + T + T + t < o + T then _
      else if o + T + T + t < o + T + T then _ else b2r (shf (o + T + T + t - o - T - T))) = _
    rw [if_neg (by omega), if_neg (by omega)]
    have : o + T + T + t - o - T - T = t := by omega
    rw [this]
  have hOK : ∀ t, t < r.core.T → FlagOK (ucp r.core) r.core.T (fn on) stf shf t := fun t _ => ⟨rfl, rfl⟩
  have hF := (flagsF_iff (ucp r.core) r.core.T (fn on) stf shf hT).2 hOK
  obtain ⟨hrowsF, hbst, hbsh⟩ := (P_flags r x (fn on) stf shf hwf hon hst hsh).2 hF
  refine ⟨x, hon, ?_, ?_, ?_, ?_, hbst, hbsh⟩
  · intro t ht; rw [hst t ht]; exact CHPCommit.b2r_cases _
  · intro t ht; rw [hsh t ht]; exact CHPCommit.b2r_cases _
  · intro row hrow
    simp only [commitRowsP, List.mem_append] at hrow
    rcases hrow with (hrow | hrow) | hrow
    · exact hrowsF row hrow
    · exact (CHPCommit.P_run r.core x (fn on) stf hwf.hst hon hst).2 c3 row hrow
    · exact (CHPCommit.P_down r.core x (fn on) hon).2 ⟨c6, c7⟩ row hrow
  · intro t ht
    rw [lowerP_on hwf t ht, upperP_on hwf t ht]
    exact (CHPCommit.P_bon r.core x (fn on) hwf.core hwf.hon hon).2 ⟨c4, c8⟩ t ht

theorem commit_rows_iff_spec_prof (r : CHPRP) (hwf : CommitWFP r) (on : List Bool) (hlen : on.length = r.core.T) :
    CommitFeasibleP r on ↔ MinUpDown (ucp r.core) on :=
  ⟨commit_feasibleP_imp_spec r hwf on hlen, spec_imp_commit_feasibleP r hwf on hlen⟩

/-! ### the same on the values of an assignment -/

/-- the on, start and shutdown variables of all steps have value 0 or 1 -/
def Binary (r : CHPRP) (x : Vec) : Prop :=
  ∀ t, t < r.core.T → (x (r.core.layout.on t) = 0 ∨ x (r.core.layout.on t) = 1) ∧
    (x (r.core.layout.start t) = 0 ∨ x (r.core.layout.start t) = 1) ∧ (x (r.shut t) = 0 ∨ x (r.shut t) = 1)

/-- the unit switches on at step `t`: off → on, at step 0 "was off (`time_already_running = 0`) and is on" -/
def StartsAt (r : CHPRP) (x : Vec) (t : Nat) : Prop :=
  if t = 0 then r.core.tar = 0 ∧ x (r.core.layout.on 0) = 1
  else x (r.core.layout.on (t-1)) = 0 ∧ x (r.core.layout.on t) = 1

/-- the unit switches off at step `t`: on → off, at step 0 "was running (`time_already_running > 0`) and is off" -/
def StopsAt (r : CHPRP) (x : Vec) (t : Nat) : Prop :=
  if t = 0 then r.core.tar ≠ 0 ∧ x (r.core.layout.on 0) = 0
  else x (r.core.layout.on (t-1)) = 1 ∧ x (r.core.layout.on t) = 0

/-- both flags of step `t` are exact transition indicators -/
def FlagExactAt (r : CHPRP) (x : Vec) (t : Nat) : Prop :=
  (x (r.core.layout.start t) = 1 ↔ StartsAt r x t) ∧ (x (r.shut t) = 1 ↔ StopsAt r x t)

theorem b2r_eq_one (a : Bool) : b2r a = 1 ↔ a = true := by cases a <;> simp [b2r]
theorem b2r_eq_zero (a : Bool) : b2r a = 0 ↔ a = false := by cases a <;> simp [b2r]
theorem b2r_inj (a b : Bool) : b2r a = b2r b ↔ a = b := by cases a <;> cases b <;> simp [b2r]

theorem flagOK_iff_x (r : CHPRP) (x : Vec) (onf stf shf : Nat → Bool)
    (hon : ∀ t, t < r.core.T → x (r.core.layout.on t) = b2r (onf t))
    (hst : ∀ t, t < r.core.T → x (r.core.layout.start t) = b2r (stf t))
    (hsh : ∀ t, t < r.core.T → x (r.shut t) = b2r (shf t)) (t : Nat) (ht : t < r.core.T) :
    FlagOK (ucp r.core) r.core.T onf stf shf t ↔ FlagExactAt r x t := by
  unfold FlagOK FlagExactAt StartsAt StopsAt
  cases t with
  | zero =>
    rw [hon 0 ht, hst 0 ht, hsh 0 ht]
    simp only [startOf, shutOf, if_true, b2r_eq_one, b2r_eq_zero]
    have e : (ucp r.core).tar = r.core.tar := rfl
    rw [e]
    by_cases h0 : r.core.tar = 0 <;> cases stf 0 <;> cases shf 0 <;> cases onf 0 <;> simp [h0]
  | succ s =>
    rw [hon (s+1) ht, hon (s+1-1) (by omega), hst (s+1) ht, hsh (s+1) ht]
    simp only [startOf, shutOf, Nat.succ_ne_zero, if_false, Nat.add_sub_cancel, b2r_eq_one, b2r_eq_zero]
    cases stf (s+1) <;> cases shf (s+1) <;> cases onf (s+1) <;> cases onf s <;> simp

/-- every 0/1 point: the start / shutdown rows and the bounds of the flags hold iff at EVERY step (first and last
    included) both flags are exact transition indicators -/
theorem flag_rows_iff (r : CHPRP) (hwf : CommitWFP r) (x : Vec) (hb : Binary r x) :
    ((∀ row ∈ r.startShutRows, row.Sat x) ∧
     (∀ t, t < r.core.T → r.lower.getD (r.core.layout.start t) 0 ≤ x (r.core.layout.start t) ∧
        x (r.core.layout.start t) ≤ r.upper.getD (r.core.layout.start t) 0) ∧
     (∀ t, t < r.core.T → r.lower.getD (r.shut t) 0 ≤ x (r.shut t) ∧ x (r.shut t) ≤ r.upper.getD (r.shut t) 0)) ↔
    ∀ t, t < r.core.T → FlagExactAt r x t := by
  have hon : ∀ t, t < r.core.T → x (r.core.layout.on t) = b2r (decide (x (r.core.layout.on t) = 1)) :=
    fun t ht => b2r_of_01 _ (hb t ht).1
  have hst : ∀ t, t < r.core.T → x (r.core.layout.start t) = b2r (decide (x (r.core.layout.start t) = 1)) :=
    fun t ht => b2r_of_01 _ (hb t ht).2.1
  have hsh : ∀ t, t < r.core.T → x (r.shut t) = b2r (decide (x (r.shut t) = 1)) :=
    fun t ht => b2r_of_01 _ (hb t ht).2.2
  rw [P_flags r x _ _ _ hwf hon hst hsh]
  refine (flagsF_iff (ucp r.core) r.core.T _ _ _ hwf.core.hT).trans ?_
  constructor
  · intro h t ht; exact (flagOK_iff_x r x _ _ _ hon hst hsh t ht).1 (h t ht)
  · intro h t ht; exact (flagOK_iff_x r x _ _ _ hon hst hsh t ht).2 (h t ht)

theorem startShutRows_sub (r : CHPRP) {row : Row} (h : row ∈ r.startShutRows) : row ∈ r.rows :=
  commitRowsP_sub r (by simp [commitRowsP, h])

theorem inBounds_start (hwf : CommitWFP r) (x : Vec) (hx : (assembleCHPP r).FeasibleRelaxed x) (t : Nat) (ht : t < r.core.T) :
    r.lower.getD (r.core.layout.start t) 0 ≤ x (r.core.layout.start t) ∧
      x (r.core.layout.start t) ≤ r.upper.getD (r.core.layout.start t) 0 :=
  hx.1 _ (by show _ < r.lower.length; rw [lowerP_len hwf]; simp only [CHPLayout.start, startIdx_eq]; omega)

theorem inBounds_shut (hwf : CommitWFP r) (x : Vec) (hx : (assembleCHPP r).FeasibleRelaxed x) (t : Nat) (ht : t < r.core.T) :
    r.lower.getD (r.shut t) 0 ≤ x (r.shut t) ∧ x (r.shut t) ≤ r.upper.getD (r.shut t) 0 :=
  hx.1 _ (by show _ < r.lower.length; rw [lowerP_len hwf]; simp only [CHPRP.shut, CHPRP.shutIdx, startIdx_eq]; omega)

theorem inBounds_on (hwf : CommitWFP r) (x : Vec) (hx : (assembleCHPP r).FeasibleRelaxed x) (t : Nat) (ht : t < r.core.T) :
    r.lower.getD (r.core.layout.on t) 0 ≤ x (r.core.layout.on t) ∧
      x (r.core.layout.on t) ≤ r.upper.getD (r.core.layout.on t) 0 :=
  hx.1 _ (by show _ < r.lower.length; rw [lowerP_len hwf]; simp only [CHPLayout.on]; omega)

/-- feasible 0/1 points: at every step the flags are exact -/
theorem flags_of_feasible (r : CHPRP) (hwf : CommitWFP r) (x : Vec) (hx : (assembleCHPP r).FeasibleRelaxed x)
    (hb : Binary r x) (t : Nat) (ht : t < r.core.T) : FlagExactAt r x t :=
  (flag_rows_iff r hwf x hb).1
    ⟨fun row h => hx.2 row (startShutRows_sub r h), inBounds_start hwf x hx, inBounds_shut hwf x hx⟩ t ht

/-- step 0 without any 0/1 hypothesis: `start_0 = on_0`, `shut_0 = 0` (was off) resp. `start_0 = 0`,
    `shut_0 = 1 − on_0` (was running) -/
theorem first_step_flags (r : CHPRP) (hwf : CommitWFP r) (x : Vec) (hx : (assembleCHPP r).FeasibleRelaxed x) :
    (r.core.tar = 0 → x (r.core.layout.start 0) = x (r.core.layout.on 0) ∧ x (r.shut 0) = 0) ∧
    (r.core.tar ≠ 0 → x (r.core.layout.start 0) = 0 ∧ x (r.shut 0) = 1 - x (r.core.layout.on 0)) := by
  have hT := hwf.core.hT
  have hs := inBounds_start hwf x hx 0 hT
  have hq := inBounds_shut hwf x hx 0 hT
  rw [lowerP_start hwf 0 hT, upperP_start hwf 0 hT] at hs
  rw [lowerP_shut hwf 0 hT, upperP_shut hwf 0 hT] at hq
  constructor
  · intro h0
    have := CHPProfile.first_flag_off r x hx h0
    simp only [h0, true_and, if_true] at hq
    exact ⟨this, by grind⟩
  · intro h0
    have := CHPProfile.first_flag_running r x hx h0
    simp only [h0, ne_eq, not_false_eq_true, true_and, if_true] at hs
    exact ⟨by grind, by grind⟩

/-- every feasible point with 0/1 on / start / shutdown values has an on/off pattern that respects minimum
    runtime (increased by the ramp lengths), minimum downtime and the initial state -/
theorem feasible_imp_spec (r : CHPRP) (hwf : CommitWFP r) (x : Vec) (hx : (assembleCHPP r).FeasibleRelaxed x)
    (hb : Binary r x) (on : List Bool) (hlen : on.length = r.core.T)
    (hon : ∀ t, t < r.core.T → x (r.core.layout.on t) = b2r (on.getD t false)) :
    MinUpDown (ucp r.core) on :=
  commit_feasibleP_imp_spec r hwf on hlen
    ⟨x, hon, fun t ht => (hb t ht).2.1, fun t ht => (hb t ht).2.2, fun row h => hx.2 row (commitRowsP_sub r h),
     inBounds_on hwf x hx, inBounds_start hwf x hx, inBounds_shut hwf x hx⟩

/-! ### well-formedness from a decidable check, and from the resolution -/

theorem commitWF_of_ok (r : CHPR) (h : r.commitOK = true) : CommitWF r := by
  simp only [CHPR.commitOK, Bool.and_eq_true, decide_eq_true_eq, Bool.or_eq_true, Bool.not_eq_true', List.all_eq_true,
    beq_iff_eq, decide_eq_false_iff_not] at h
  obtain ⟨⟨⟨⟨⟨⟨⟨⟨h1, h2⟩, h3⟩, h4⟩, h5⟩, h6⟩, h7⟩, h8⟩, h9⟩ := h
  refine ⟨h1, h2, h3, h4, h5, ?_, ?_, ?_, ?_⟩
  · intro hh m hm
    rcases h6 with h6 | h6
    · rw [hh] at h6; exact absurd h6 (by decide)
    · exact h6 m hm
  · intro hR; rcases h7 with h7 | h7
    · exact absurd hR h7
    · exact h7
  · intro hD; rcases h8 with h8 | h8
    · exact absurd hD h8
    · exact h8
  · intro hs; rcases h9 with h9 | h9
    · rw [hs] at h9; exact absurd h9 (by decide)
    · exact h9

/-- decidable form of `CommitWFP` -/
def commitOKP (r : CHPRP) : Bool := r.core.commitOK && r.core.incOn && r.core.incStart

theorem commitWFP_of_ok (r : CHPRP) (h : commitOKP r = true) : CommitWFP r := by
  simp only [commitOKP, Bool.and_eq_true] at h
  exact ⟨commitWF_of_ok r.core h.1.1, h.1.2, h.2⟩

theorem lateChecks_ok {r : CHPR} (h : chpLateChecks r = .ok ()) :
    r.base.c.length = r.T ∧ r.base.l.length = r.T ∧ r.base.u.length = r.T ∧ r.base.mapping.length = r.T ∧
    (r.heat = true → ∀ m ∈ r.base.mapping, m.kind = VarKind.d) := by
  unfold chpLateChecks at h
  simp only [bind, Except.bind, pure, Except.pure, throw, throwThe, MonadExceptOf.throw] at h
  split at h
  · simp at h
  · split at h
    · simp at h
    · split at h
      · simp at h
      · split at h
        · simp at h
        · rename_i h1 h2 h3 h4
          refine ⟨by omega, by omega, by omega, by omega, ?_⟩
          intro hh m hm
          have : ¬ (r.base.mapping.any fun m => m.kind != VarKind.d) = true := fun hc => h4 ⟨hh, hc⟩
          simp only [List.any_eq_true, not_exists, not_and, bne_iff_ne, ne_eq, Decidable.not_not] at this
          exact this m hm

theorem resolveCHPP_wf {p : CHPP} {q : CHPProfP} {base : AssetProblem} {g : Grid} {prices : Prices} {u s : Nat}
    {r : CHPRP} (h : resolveCHPP p q base g prices u s false = .ok (some r)) :
    r.core.R = convertSteps p.minRuntime u s + (r.prof.S + r.prof.Q) ∧
    r.core.D = convertSteps p.minDowntime u s ∧
    r.core.tar = convertSteps p.timeAlreadyRunning u s ∧ r.core.tao = convertSteps p.timeAlreadyOff u s ∧
    ((0 < r.prof.S ∨ 0 < r.prof.Q) → CommitWFP r) := by
  unfold resolveCHPP at h
  simp only [bind, Except.bind, pure, Except.pure] at h
  cases hc : chpCtor p with
  | error e => simp [hc] at h
  | ok hf =>
    simp only [hc] at h
    cases hp : profCtor q with
    | error e => simp [hp] at h
    | ok sd =>
      simp only [hp] at h
      by_cases hT : g.T = 0
      · simp [hT] at h
      · simp only [hT, if_false] at h
        split at h
        · simp [throw, throwThe, MonadExceptOf.throw] at h
        cases hv : chpVectors p g prices hf.1 hf.2 with
        | error e => simp [hv] at h
        | ok v =>
          simp only [hv] at h
          split at h
          · simp at h
          · simp only [Bool.false_eq_true, if_false] at h
            split at h
            · simp at h
            · rename_i hlate
              split at h
              · simp [throw, throwThe, MonadExceptOf.throw] at h
              · split at h
                · simp [throw, throwThe, MonadExceptOf.throw] at h
                · injection h with h
                  injection h with h
                  subst h
                  refine ⟨rfl, rfl, rfl, rfl, ?_⟩
                  intro hprof
                  have hprof' : 0 < (mkProf q sd.fst sd.snd s u).S ∨ 0 < (mkProf q sd.fst sd.snd s u).Q := hprof
                  generalize mkProf q sd.fst sd.snd s u = pr at *
                  have hb : (decide (0 < pr.S) || decide (0 < pr.Q)) = true := by
                    simp only [Bool.or_eq_true, decide_eq_true_eq]; exact hprof'
                  rw [hb] at hlate ⊢
                  obtain ⟨l1, l2, l3, l4, l5⟩ := lateChecks_ok (hlate.trans (by cases ‹Unit›; rfl))
                  have hs : (mkCHPR p base g hf.fst hf.snd v u s (pr.S + pr.Q) true).incStart = true := by
                    simp [mkCHPR]
                  have ho : (mkCHPR p base g hf.fst hf.snd v u s (pr.S + pr.Q) true).incOn = true := by
                    simp [mkCHPR]
                  exact ⟨⟨Nat.pos_of_ne_zero hT, l2, l3, l1, l4, l5, fun _ => hs, fun _ => ho, fun _ => ho⟩, ho, hs⟩

/-! ## (C) the heat-profile rows `heatProfRows` -/

open EAO.CHPProfile (tsum tsum_append eval_eq_tsum startTerms_zero shutTerms_zero startTerms_one shutTerms_one
  sat_of_memP capRows_mem)

/-- P-1: heat-profile rows exist only with a heat node AND a shutdown heat lower profile — a start heat profile alone
    is ignored -/
theorem heatProfRows_nil (r : CHPRP) (h : r.core.heat = false ∨ r.prof.qlh = none) : r.heatProfRows = [] := by
  unfold CHPRP.heatProfRows
  rcases h with h | h
  · rw [h]
  · rw [h]; cases r.core.heat <;> rfl

theorem heatProfRows_eq (r : CHPRP) (hh : r.core.heat = true) {qlh : List Rat} (hq : r.prof.qlh = some qlh) :
    r.heatProfRows = r.capSteps.map (r.heatProfLower (r.prof.slh.getD []) qlh) ++
      r.capSteps.map (r.heatProfUpper (r.prof.suh.getD []) (r.prof.quh.getD [])) := by
  unfold CHPRP.heatProfRows
  rw [hh, hq]

theorem heatProfLower_mem (r : CHPRP) (hh : r.core.heat = true) {qlh : List Rat} (hq : r.prof.qlh = some qlh)
    {i : Nat} (hi : i < r.core.n) (hf : r.firstCap ≤ i) : r.heatProfLower (r.prof.slh.getD []) qlh i ∈ r.rows := by
  apply capRows_mem
  simp only [CHPRP.capRows, heatProfRows_eq r hh hq, CHPRP.capSteps, List.mem_append, List.mem_map, List.mem_filter,
    List.mem_range, decide_eq_true_eq]
  exact Or.inl (Or.inr (Or.inl ⟨i, ⟨hi, hf⟩, rfl⟩))

theorem heatProfUpper_mem (r : CHPRP) (hh : r.core.heat = true) {qlh : List Rat} (hq : r.prof.qlh = some qlh)
    {i : Nat} (hi : i < r.core.n) (hf : r.firstCap ≤ i) :
    r.heatProfUpper (r.prof.suh.getD []) (r.prof.quh.getD []) i ∈ r.rows := by
  apply capRows_mem
  simp only [CHPRP.capRows, heatProfRows_eq r hh hq, CHPRP.capSteps, List.mem_append, List.mem_map, List.mem_filter,
    List.mem_range, decide_eq_true_eq]
  exact Or.inl (Or.inr (Or.inr ⟨i, ⟨hi, hf⟩, rfl⟩))

/-- reading of the lower heat-profile row: `heat_i ≥ Σ slh_j·start_{i−j} + Σ qlh_j·shut_{i+j+1}` -/
theorem heatProfLower_sat (r : CHPRP) (slh qlh : List Rat) (x : Vec) (i : Nat) :
    (r.heatProfLower slh qlh i).Sat x ↔
      tsum (r.startTerms i (fun j => slh.getD j 0)) x + tsum (r.shutTerms i (fun j => qlh.getD j 0)) x ≤
        x (r.core.layout.heat i) := by
  have e1 : ∀ (f : Nat → Rat), tsum (r.startTerms i (fun j => 0 - f j)) x = - tsum (r.startTerms i f) x := by
    intro f
    simp only [tsum, CHPRP.startTerms, List.map_map, Function.comp_def]
    induction ((List.range r.prof.S).filter fun j => decide (j ≤ i)) with
    | nil => simp
    | cons a l ih => simp only [List.map_cons, List.sum_cons, ih]; grind
  have e2 : ∀ (f : Nat → Rat), tsum (r.shutTerms i (fun j => 0 - f j)) x = - tsum (r.shutTerms i f) x := by
    intro f
    simp only [tsum, CHPRP.shutTerms, List.map_map, Function.comp_def]
    induction ((List.range r.prof.Q).filter fun j => decide (i + j + 1 < r.core.T)) with
    | nil => simp
    | cons a l ih => simp only [List.map_cons, List.sum_cons, ih]; grind
  have : (r.heatProfLower slh qlh i).eval x =
      x (r.core.layout.heat i) + tsum (r.startTerms i (fun j => 0 - slh.getD j 0)) x +
        tsum (r.shutTerms i (fun j => 0 - qlh.getD j 0)) x := by
    simp only [eval_eq_tsum, CHPRP.heatProfLower, tsum_append]
    simp [tsum]; grind
  show (0 : Rat) ≤ (r.heatProfLower slh qlh i).eval x ↔ _
  rw [this, e1, e2]
  constructor <;> intro h <;> grind

/-- reading of the upper heat-profile row, `m = max_cap_i / conv_i`:
    `heat_i ≤ m·on_i − Σ (m − suh_j)·start_{i−j} − Σ (m − quh_j)·shut_{i+j+1}` -/
theorem heatProfUpper_sat (r : CHPRP) (suh quh : List Rat) (x : Vec) (i : Nat) :
    (r.heatProfUpper suh quh i).Sat x ↔
      x (r.core.layout.heat i) - r.core.maxCap i / r.core.cv i * x (r.core.layout.on (r.core.stepOff i)) +
        tsum (r.startTerms i (fun j => r.core.maxCap i / r.core.cv i - suh.getD j 0)) x +
        tsum (r.shutTerms i (fun j => r.core.maxCap i / r.core.cv i - quh.getD j 0)) x ≤ 0 := by
  have : (r.heatProfUpper suh quh i).eval x =
      x (r.core.layout.heat i) - r.core.maxCap i / r.core.cv i * x (r.core.layout.on (r.core.stepOff i)) +
        tsum (r.startTerms i (fun j => r.core.maxCap i / r.core.cv i - suh.getD j 0)) x +
        tsum (r.shutTerms i (fun j => r.core.maxCap i / r.core.cv i - quh.getD j 0)) x := by
    simp only [eval_eq_tsum, CHPRP.heatProfUpper, tsum_append]
    simp [tsum]; grind
  show (r.heatProfUpper suh quh i).eval x ≤ 0 ↔ _
  rw [this]

section
variable (r : CHPRP) (x : Vec) (hx : (assembleCHPP r).FeasibleRelaxed x) (hh : r.core.heat = true)
  {qlh : List Rat} (hq : r.prof.qlh = some qlh) (i : Nat) (hi : i < r.core.n) (hf : r.firstCap ≤ i)
include hx hh hq hi hf

/-- in the `k`-th step after a start (exactly that start flag set, no shutdown flag, unit on) the HEAT lies within the
    `k`-th entries of the start heat profile -/
theorem heat_start_profile_bounds (k : Nat) (hk : k < r.prof.S) (hki : k ≤ i)
    (hon1 : x (r.core.layout.on (r.core.stepOff i)) = 1) (hs : x (r.core.layout.start (i - k)) = 1)
    (hs0 : ∀ j, j < r.prof.S → j ≤ i → j ≠ k → x (r.core.layout.start (i - j)) = 0)
    (hq0 : ∀ j, j < r.prof.Q → i + j + 1 < r.core.T → x (r.shut (i + j + 1)) = 0) :
    (r.prof.slh.getD []).getD k 0 ≤ x (r.core.layout.heat i) ∧ x (r.core.layout.heat i) ≤ (r.prof.suh.getD []).getD k 0 := by
  have hl := (heatProfLower_sat r _ _ x i).mp (sat_of_memP hx (heatProfLower_mem r hh hq hi hf))
  have hu := (heatProfUpper_sat r _ _ x i).mp (sat_of_memP hx (heatProfUpper_mem r hh hq hi hf))
  rw [startTerms_one r x i _ k hk hki hs hs0, shutTerms_zero r x i _ hq0] at hl hu
  rw [hon1] at hu
  constructor <;> grind

/-- `k + 1` steps before a shutdown the HEAT lies within the `k`-th entries of the shutdown heat profile -/
theorem heat_shutdown_profile_bounds (k : Nat) (hk : k < r.prof.Q) (hkT : i + k + 1 < r.core.T)
    (hon1 : x (r.core.layout.on (r.core.stepOff i)) = 1) (hqk : x (r.shut (i + k + 1)) = 1)
    (hq0 : ∀ j, j < r.prof.Q → i + j + 1 < r.core.T → j ≠ k → x (r.shut (i + j + 1)) = 0)
    (hs0 : ∀ j, j < r.prof.S → j ≤ i → x (r.core.layout.start (i - j)) = 0) :
    qlh.getD k 0 ≤ x (r.core.layout.heat i) ∧ x (r.core.layout.heat i) ≤ (r.prof.quh.getD []).getD k 0 := by
  have hl := (heatProfLower_sat r _ _ x i).mp (sat_of_memP hx (heatProfLower_mem r hh hq hi hf))
  have hu := (heatProfUpper_sat r _ _ x i).mp (sat_of_memP hx (heatProfUpper_mem r hh hq hi hf))
  rw [shutTerms_one r x i _ k hk hkT hqk hq0, startTerms_zero r x i _ hs0] at hl hu
  rw [hon1] at hu
  constructor <;> grind

/-- outside the ramps (no flag the rows see is set): `0 ≤ heat_i ≤ (max_cap_i / conv_i)·on_i` -/
theorem heat_outside_ramps
    (hs0 : ∀ j, j < r.prof.S → j ≤ i → x (r.core.layout.start (i - j)) = 0)
    (hq0 : ∀ j, j < r.prof.Q → i + j + 1 < r.core.T → x (r.shut (i + j + 1)) = 0) :
    0 ≤ x (r.core.layout.heat i) ∧
      x (r.core.layout.heat i) ≤ r.core.maxCap i / r.core.cv i * x (r.core.layout.on (r.core.stepOff i)) := by
  have hl := (heatProfLower_sat r _ _ x i).mp (sat_of_memP hx (heatProfLower_mem r hh hq hi hf))
  have hu := (heatProfUpper_sat r _ _ x i).mp (sat_of_memP hx (heatProfUpper_mem r hh hq hi hf))
  rw [shutTerms_zero r x i _ hq0, startTerms_zero r x i _ hs0] at hl hu
  constructor <;> grind

end


/-- P-1 as an equation: without a shutdown heat lower profile (or without a heat node) the generated problem does not
    depend on the start heat profile at all -/
theorem assemble_ignores_start_heat (r : CHPRP) (hq : r.core.heat = false ∨ r.prof.qlh = none) (a b : Option (List Rat)) :
    assembleCHPP { r with prof := { r.prof with slh := a, suh := b } } = assembleCHPP r := by
  have h1 := heatProfRows_nil { r with prof := { r.prof with slh := a, suh := b } } hq
  have h2 := heatProfRows_nil r hq
  unfold assembleCHPP
  congr 1
  unfold CHPRP.rows CHPRP.capRows
  rw [h1, h2]
  rfl

/-! ### non-vacuity: a CHP with heat node, start and shutdown profiles for power and heat -/

/-- `CHPAsset(min 3, max 10, conv 1, start ramp [1]…[2], shutdown ramp [1]…[2], start heat [1/2]…[1], shutdown heat
    [1/4]…[1/2])`, three steps, was off -/
def witnessHeat : CHPRP :=
  { core :=
      { name := "c", nodes := ["el", "heat"], T := 3, idx := [0, 1, 2],
        base := { name := "c", nodes := ["el", "heat"], c := [0, 0, 0], l := [3, 3, 3], u := [10, 10, 10], rows := [],
                  mapping := (List.range 3).map fun j => ⟨j, "c", some "el", .d, j, 1, false, "disp"⟩ },
        heat := true, fuel := none, conv := [1, 1, 1], share := none, ramp := none, last := 0,
        startCosts := [0, 0, 0], runningCosts := [0, 0, 0], R := 2, D := 0, tar := 0, tao := 0, incOn := true, incStart := true,
        fuelEff := [], consIfOn := [], startFuel := [] },
    prof := { sl := [1], su := [2], ql := [1], qu := [2], slh := some [1/2], suh := some [1], qlh := some [1/4], quh := some [1/2] } }

/-- on `110`: start at step 0 (power 1, heat 1/2), last step before the shutdown at step 1 (power 1, heat 1/4) -/
def xHeat : Vec := fun j => [1, 1, 0, 1/2, 1/4, 0, 1, 1, 0, 1, 0, 0, 0, 0, 1].getD j 0

theorem witnessHeat_feasible : (assembleCHPP witnessHeat).FeasibleRelaxed xHeat := by
  unfold AssetProblem.FeasibleRelaxed InBounds
  decide +kernel

example : commitOKP witnessHeat = true := by decide +kernel

/-! ## (C') the ramp rows with any number of flags in their window -/

/-- a coefficient list with one constant coefficient: the constant times the sum of the values -/
theorem tsum_const (js : List Nat) (idx : Nat → Nat) (c : Rat) (x : Vec) :
    tsum (js.map fun j => (idx j, c)) x = c * (js.map fun j => x (idx j)).sum := by
  induction js with
  | nil => simp [tsum]
  | cons j js ih =>
    simp only [tsum, List.map_cons, List.sum_cons] at ih ⊢
    rw [ih]; grind

/-- number of start flags the upper ramp row of step `t` sees: `Σ_{i<S, i≤t} start_{t−i}` -/
def startsSeen (r : CHPRP) (x : Vec) (t : Nat) : Rat :=
  (((List.range r.prof.S).filter fun i => decide (i ≤ t)).map fun i => x (r.core.layout.start (t - i))).sum

/-- number of shutdown flags the lower ramp row of step `t` sees: `Σ_{i<Q, t+i<T} shut_{t+i}` -/
def shutsSeen (r : CHPRP) (x : Vec) (t : Nat) : Rat :=
  (((List.range r.prof.Q).filter fun i => decide (t + i < r.core.T)).map fun i => x (r.shut (t + i))).sum

/-- the ramp rows of a step `t ≥ 1` with ANY number of flags set: every start flag in the window of the upper row
    relaxes it by `max_cap_t − ramp`, every shutdown flag in the window of the lower row by `max_cap_{t−1} − ramp` -/
theorem ramp_rows_general (r : CHPRP) (x : Vec) (hx : (assembleCHPP r).FeasibleRelaxed x) (hon : r.core.incOn = true)
    (ρ : Rat) (hρ : r.core.ramp = some ρ) (t : Nat) (h1 : 1 ≤ t) (ht : t < r.core.T) :
    r.core.vd x t ≤ r.core.vd x (t - 1) + ρ * x (r.core.layout.on t) + (r.core.maxCap t - ρ) * startsSeen r x t ∧
    r.core.vd x (t - 1) - ρ * x (r.core.layout.on (t - 1)) - (r.core.maxCap (t - 1) - ρ) * shutsSeen r x t ≤
      r.core.vd x t := by
  have hu : (r.rampUpper ρ t).eval x ≤ (if r.core.incOn then 0 else ρ) :=
    CHPProfile.sat_of_memP hx (CHPProfile.rampUpperP_mem r hρ h1 ht)
  have hl : (if r.core.incOn then 0 else - ρ) ≤ (r.rampLower ρ t).eval x :=
    CHPProfile.sat_of_memP hx (CHPProfile.rampLowerP_mem r hρ h1 ht)
  have hcu : (r.core.rampUpper ρ t).eval x = r.core.vd x t - r.core.vd x (t - 1) - ρ * x (r.core.layout.on t) := by
    cases hh : r.core.heat <;>
      simp [CHPR.rampUpper, CHPR.rampDiff, CHPR.virt, CHPR.vd, Row.eval, hh, hon] <;> grind
  have hcl : (r.core.rampLower ρ t).eval x = r.core.vd x t - r.core.vd x (t - 1) + ρ * x (r.core.layout.on (t - 1)) := by
    cases hh : r.core.heat <;>
      simp [CHPR.rampLower, CHPR.rampDiff, CHPR.virt, CHPR.vd, Row.eval, hh, hon] <;> grind
  have e1 : tsum (CHPProfile.rampStartTerms r ρ t) x = (ρ - r.core.maxCap t) * startsSeen r x t :=
    tsum_const _ (fun i => r.core.layout.start (t - i)) _ x
  have e2 : tsum (CHPProfile.rampShutTerms r ρ t) x = (r.core.maxCap (t - 1) - ρ) * shutsSeen r x t :=
    tsum_const _ (fun i => r.shut (t + i)) _ x
  rw [CHPProfile.rampUpperP_eval, hcu, e1] at hu
  rw [CHPProfile.rampLowerP_eval, hcl, e2] at hl
  simp only [hon, if_true] at hu hl
  constructor <;> grind

/-- the first-step lower ramp row with any number of shutdown flags among the first `Q` steps (observation P-3: a
    shutdown flag of step 0 … `Q−1` lifts the comparison with `last_dispatch`) -/
theorem ramp_first_lower_general (r : CHPRP) (x : Vec) (hx : (assembleCHPP r).FeasibleRelaxed x)
    (ρ : Rat) (hρ : r.core.ramp = some ρ) :
    (if r.core.tar = 0 then r.core.last else r.core.last - ρ) -
        (r.core.last - ρ) * ((List.range r.prof.Q).map fun i => x (r.shut i)).sum ≤ r.core.vd x 0 := by
  have hl : (if r.core.tar = 0 then r.core.last else - ρ + r.core.last) ≤ (r.rampFirstLower ρ).eval x :=
    CHPProfile.sat_of_memP hx (CHPProfile.rampFirstLowerP_mem r hρ)
  have hc : (r.core.rampFirstLower ρ).eval x = r.core.vd x 0 := by
    show tsum (r.core.virt 0 (r.core.cv 0)) x = _
    exact CHPProfile.tsum_virt r.core x 0
  have e : tsum ((List.range r.prof.Q).map fun i => (r.shut i, r.core.last - ρ)) x =
      (r.core.last - ρ) * ((List.range r.prof.Q).map fun i => x (r.shut i)).sum :=
    tsum_const _ (fun i => r.shut i) _ x
  rw [CHPProfile.rampFirstLowerP_eval, hc, e] at hl
  split at hl <;> simp_all <;> grind


/-- `Plant(min 3, max 10, ramp 1, start ramp [1/2, 1] … [1, 2])`, three steps, was off (`CHPProfile.witnessProf` with a ramp) -/
def witnessRamp : CHPRP :=
  { CHPProfile.witnessProf with core := { CHPProfile.witnessProf.core with ramp := some 1 } }

/-- start at step 0, dispatch `1, 2, 3` -/
def xRamp : Vec := fun j => [1, 2, 3, 1, 1, 1, 1, 0, 0, 0, 0, 0].getD j 0

theorem witnessRamp_feasible : (assembleCHPP witnessRamp).FeasibleRelaxed xRamp := by
  unfold AssetProblem.FeasibleRelaxed InBounds
  decide +kernel

/-- … `1, 2, 5` is not: step 2 is outside the start ramp, so `v_2 − v_1 ≤ ramp` binds again -/
theorem witnessRamp_binds : ¬ (assembleCHPP witnessRamp).FeasibleRelaxed
    (fun j => [1, 2, 5, 1, 1, 1, 1, 0, 0, 0, 0, 0].getD j 0) := by
  unfold AssetProblem.FeasibleRelaxed InBounds
  decide +kernel

/-! ## (D) `convertRamp` (`CHPAsset._convert_ramp`)

`ct = step / ramp_freq`.  Identity when the frequency strings are equal or the two lengths are equal; a grid that is
`m` times COARSER than `ramp_freq`: plain averages over `m` consecutive given values, the tail padded with the last
value; a grid that is `m` times FINER: piecewise linear through the points "end of the `j`-th given step ↦ `j`-th
value", constant before the first point. -/

theorem natCast_ne_zero {k : Nat} (h : 0 < k) : (k : Rat) ≠ 0 := by
  intro e; rw [Rat.natCast_eq_zero_iff] at e; omega

theorem cast_mul_div (m rs : Nat) (hrs : 0 < rs) : ((m * rs : Nat) : Rat) / (rs : Rat) = (m : Rat) := by
  rw [Rat.natCast_mul, Rat.mul_div_cancel (natCast_ne_zero hrs)]

theorem ceil_natCast (k : Nat) : ((k : Nat) : Rat).ceil = (k : Int) := Rat.ceil_intCast (k : Int)
theorem floor_natCast (k : Nat) : ((k : Nat) : Rat).floor = (k : Int) := Rat.floor_intCast (k : Int)

theorem ceil_toNat_natCast (k : Nat) : ((k : Nat) : Rat).ceil.toNat = k := by rw [ceil_natCast]; simp
theorem floor_toNat_natCast (k : Nat) : ((k : Nat) : Rat).floor.toNat = k := by rw [floor_natCast]; simp

/-- `⌈n / m⌉` for naturals -/
theorem ceil_div_nat (n m : Nat) (hm : 0 < m) : ((n : Rat) / (m : Rat)).ceil.toNat = (n + m - 1) / m := by
  have hmq : (0 : Rat) < (m : Rat) := Rat.natCast_pos.mpr hm
  have key : ((n : Rat) / (m : Rat)).ceil = (((n + m - 1) / m : Nat) : Int) := by
    apply Int.le_antisymm
    · rw [Rat.ceil_le_iff, Rat.intCast_natCast]
      apply Rat.not_lt.mp
      rw [Rat.lt_div_iff hmq, ← Rat.natCast_mul, Rat.natCast_lt_natCast]
      have := Nat.lt_div_mul_add (a := n + m - 1) hm
      have := Nat.div_mul_le_self (n + m - 1) m
      have : n + m - 1 < (n + m - 1) / m * m + m := Nat.lt_div_mul_add hm
      omega
    · apply Int.le_of_sub_one_lt
      rw [Rat.lt_ceil_iff]
      rcases Nat.eq_zero_or_pos ((n + m - 1) / m) with h0 | hpos
      · rw [h0]
        have : (0 : Rat) ≤ (n : Rat) / (m : Rat) := by
          rw [Rat.div_def]; exact Rat.mul_nonneg Rat.natCast_nonneg (Rat.le_of_lt (Rat.inv_pos.mpr hmq))
        have h1 : (((0 : Nat) : Int) - 1 : Int) = -1 := by omega
        rw [h1]
        have : ((-1 : Int) : Rat) < 0 := by decide +kernel
        grind
      · obtain ⟨k, hk⟩ : ∃ k, (n + m - 1) / m = k + 1 := ⟨(n + m - 1) / m - 1, by omega⟩
        rw [hk]
        have h1 : (((k + 1 : Nat) : Int) - 1 : Int) = (k : Int) := by omega
        rw [h1, Rat.intCast_natCast, Rat.lt_div_iff hmq, ← Rat.natCast_mul, Rat.natCast_lt_natCast]
        have h2 := Nat.div_mul_le_self (n + m - 1) m
        rw [hk] at h2
        have : (k + 1) * m = k * m + m := by rw [Nat.add_mul]; omega
        omega
  rw [key]; exact Int.toNat_natCast _

theorem convertRamp_coarse_int (ramp : List Rat) (m rs : Nat) (hm : 0 < m) (hrs : 0 < rs) :
    convertRamp ramp (m * rs) rs false =
      (List.range ((ramp.length + m - 1) / m)).map fun i =>
        (((ramp ++ List.replicate m (ramp.getLastD 0)).drop (i * m)).take m).sum / (m : Rat) := by
  have hmq : (0 : Rat) < (m : Rat) := Rat.natCast_pos.mpr hm
  have hrq : (0 : Rat) < (rs : Rat) := Rat.natCast_pos.mpr hrs
  have h1 : ¬ (m : Rat) < 1 := by
    rw [Rat.not_lt]
    have : ((1 : Nat) : Rat) ≤ (m : Rat) := Rat.natCast_le_natCast.mpr hm
    simpa using this
  have hN : ((ramp.length : Rat) * (rs : Rat) / ((m * rs : Nat) : Rat)) = (ramp.length : Rat) / (m : Rat) := by
    rw [Rat.natCast_mul, Rat.div_def, Rat.div_def, Rat.inv_mul_rev, ← Rat.mul_assoc, Rat.mul_assoc (ramp.length : Rat),
      Rat.mul_inv_cancel _ (natCast_ne_zero hrs), Rat.mul_one]
  unfold convertRamp
  simp only [Bool.false_eq_true, if_false, cast_mul_div m rs hrs, h1, hN, ceil_div_nat _ _ hm, ceil_toNat_natCast]
  apply List.map_congr_left
  intro i _
  have e1 : (i : Rat) * (m : Rat) = ((i * m : Nat) : Rat) := (Rat.natCast_mul i m).symm
  have e2 : ((i + 1 : Nat) : Rat) * (m : Rat) = (((i + 1) * m : Nat) : Rat) := (Rat.natCast_mul (i + 1) m).symm
  rw [e1, e2]
  simp only [ceil_toNat_natCast, floor_toNat_natCast]
  have e3 : (i + 1) * m - i * m = m := by rw [Nat.add_mul]; omega
  have e4 : i * m < (i + 1) * m := by rw [Nat.add_mul]; omega
  have e5 : (((i + 1) * m : Nat) : Rat) - ((i * m : Nat) : Rat) = (m : Rat) := by
    rw [Nat.add_mul, Rat.natCast_add]; simp; grind
  rw [if_pos e4, e3, e5, if_neg (Rat.lt_irrefl), if_neg (Rat.lt_irrefl), Rat.div_mul_cancel (natCast_ne_zero hm)]
  grind

theorem sum_blocks (l : List Rat) (m N : Nat) :
    ((List.range N).map fun i => ((l.drop (i * m)).take m).sum).sum = (l.take (N * m)).sum := by
  induction N with
  | zero => simp
  | succ N ih =>
    rw [List.range_succ, List.map_append, List.sum_append, ih, Nat.add_mul, Nat.one_mul, List.take_add, List.sum_append]
    simp; grind

theorem sum_map_div_mul (js : List Nat) (f : Nat → Rat) (c : Rat) (hc : c ≠ 0) :
    (js.map fun i => f i / c).sum * c = (js.map f).sum := by
  induction js with
  | nil => simp
  | cons j js ih =>
    simp only [List.map_cons, List.sum_cons, Rat.add_mul, ih, Rat.div_mul_cancel hc]

theorem sum_replicate (k : Nat) (v : Rat) : (List.replicate k v).sum = (k : Rat) * v := by
  induction k with
  | zero => simp
  | succ k ih => rw [List.replicate_succ, List.sum_cons, ih, Rat.natCast_add]; simp; grind

theorem ceilDiv_bounds (n m : Nat) (hm : 0 < m) : n ≤ (n + m - 1) / m * m ∧ (n + m - 1) / m * m ≤ n + m - 1 := by
  have h1 : n + m - 1 < (n + m - 1) / m * m + m := Nat.lt_div_mul_add hm
  have h2 := Nat.div_mul_le_self (n + m - 1) m
  omega

/-- total volume: the converted profile carries the volume of the given one PLUS the padding of the last coarse step
    (the last given value held for the missing fine steps) -/
theorem convertRamp_coarse_int_sum (ramp : List Rat) (m rs : Nat) (hm : 0 < m) (hrs : 0 < rs) :
    (convertRamp ramp (m * rs) rs false).sum * (m : Rat) =
      ramp.sum + (((ramp.length + m - 1) / m * m - ramp.length : Nat) : Rat) * ramp.getLastD 0 := by
  rw [convertRamp_coarse_int ramp m rs hm hrs,
    sum_map_div_mul _ (fun i => (((ramp ++ List.replicate m (ramp.getLastD 0)).drop (i * m)).take m).sum) _
      (natCast_ne_zero hm), sum_blocks]
  obtain ⟨h1, h2⟩ := ceilDiv_bounds ramp.length m hm
  rw [List.take_append, List.take_of_length_le h1, List.take_replicate, List.sum_append, sum_replicate,
    Nat.min_eq_left (by omega)]

theorem convertRamp_coarse_int_sum_dvd (ramp : List Rat) (m rs k : Nat) (hm : 0 < m) (hrs : 0 < rs)
    (hk : ramp.length = k * m) : (convertRamp ramp (m * rs) rs false).sum * (m : Rat) = ramp.sum := by
  rw [convertRamp_coarse_int_sum ramp m rs hm hrs]
  obtain ⟨h1, h2⟩ := ceilDiv_bounds ramp.length m hm
  have : (ramp.length + m - 1) / m * m - ramp.length = 0 := by
    rw [hk] at h1 h2 ⊢
    have : (k * m + m - 1) / m < k + 1 := by
      apply Nat.lt_of_mul_lt_mul_right (a := m)
      rw [Nat.add_mul]; omega
    have : (k * m + m - 1) / m ≤ k := by omega
    have := Nat.mul_le_mul_right m this
    omega
  rw [this]; simp; grind

/-- equal lengths of `ramp_freq` and the grid step (whatever the frequency STRINGS are): identity -/
theorem convertRamp_equal_seconds (ramp : List Rat) (rs : Nat) (hrs : 0 < rs) : convertRamp ramp rs rs false = ramp := by
  have := convertRamp_coarse_int ramp 1 rs (by omega) hrs
  rw [Nat.one_mul] at this
  rw [this]
  apply List.ext_getElem
  · simp
  · intro i h1 h2
    have hi : i < ramp.length := h2
    simp only [List.getElem_map, List.getElem_range, Nat.mul_one]
    rw [List.drop_eq_getElem_cons (by simp; omega)]
    simp [List.getElem_append_left hi]
    rw [Rat.div_def]; grind

/-! ### the grid is coarser than `ramp_freq`, any ratio -/

theorem ceil_nonneg {a : Rat} (h : 0 ≤ a) : 0 ≤ a.ceil := by
  apply Int.not_lt.mp
  intro hc
  have : a.ceil ≤ -1 := by omega
  rw [Rat.ceil_le_iff] at this
  have : ((-1 : Int) : Rat) < 0 := by decide +kernel
  grind

theorem floor_nonneg {a : Rat} (h : 0 ≤ a) : 0 ≤ a.floor := by
  rw [Rat.le_floor_iff]; simpa using h

theorem cast_toNat_ceil {a : Rat} (h : 0 ≤ a) : ((a.ceil.toNat : Nat) : Rat) = ((a.ceil : Int) : Rat) := by
  rw [← Rat.intCast_natCast, Int.toNat_of_nonneg (ceil_nonneg h)]

theorem cast_toNat_floor {a : Rat} (h : 0 ≤ a) : ((a.floor.toNat : Nat) : Rat) = ((a.floor : Int) : Rat) := by
  rw [← Rat.intCast_natCast, Int.toNat_of_nonneg (floor_nonneg h)]

/-- the weights of the coarse branch: the cut shares lie in `[0, 1)`, whole fine steps in between, total `ct` -/
theorem coarse_weights (a ct : Rat) (ha : 0 ≤ a) (hct : 1 ≤ ct) :
    0 ≤ ((a.ceil.toNat : Nat) : Rat) - a ∧ ((a.ceil.toNat : Nat) : Rat) - a < 1 ∧
    0 ≤ (a + ct) - (((a + ct).floor.toNat : Nat) : Rat) ∧ (a + ct) - (((a + ct).floor.toNat : Nat) : Rat) < 1 ∧
    a.ceil.toNat ≤ (a + ct).floor.toNat ∧
    (((a.ceil.toNat : Nat) : Rat) - a) + ((((a + ct).floor.toNat - a.ceil.toNat : Nat)) : Rat) +
      ((a + ct) - (((a + ct).floor.toNat : Nat) : Rat)) = ct := by
  have hb : 0 ≤ a + ct := by grind
  have h1 : a ≤ ((a.ceil : Int) : Rat) := Rat.le_ceil
  have h2 : ((a.ceil : Int) : Rat) < a + 1 := Rat.ceil_lt
  have h3 : (((a + ct).floor : Int) : Rat) ≤ a + ct := Rat.floor_le _
  have h4 : (a + ct) - 1 < (((a + ct).floor : Int) : Rat) := Rat.lt_floor
  have hle : a.ceil ≤ (a + ct).floor := by
    rw [Rat.le_floor_iff]; grind
  have hleN : a.ceil.toNat ≤ (a + ct).floor.toNat := by
    have := ceil_nonneg ha; have := floor_nonneg hb; omega
  have hsub : (((a + ct).floor.toNat - a.ceil.toNat : Nat) : Rat) =
      (((a + ct).floor.toNat : Nat) : Rat) - ((a.ceil.toNat : Nat) : Rat) := by
    have : (a + ct).floor.toNat = a.ceil.toNat + ((a + ct).floor.toNat - a.ceil.toNat) := by omega
    have := congrArg (fun k : Nat => (k : Rat)) this
    simp only [Rat.natCast_add] at this
    grind
  rw [hsub, cast_toNat_ceil ha, cast_toNat_floor hb]
  refine ⟨by grind, by grind, by grind, by grind, hleN, by grind⟩

/-- the grid is coarser than `ramp_freq` (any ratio `ct = step / ramp_freq ≥ 1`): entry `i` is the time-weighted mean of
    the (padded) given values over `[i·ct, (i+1)·ct)` — whole given steps count fully, the two cut ones with their
    covered share (`coarse_weights`: shares in `[0,1)`, all weights together `ct`) -/
theorem convertRamp_coarse_general (ramp : List Rat) (s rs : Nat) (hrs : 0 < rs) (hct : rs ≤ s) :
    convertRamp ramp s rs false =
      (List.range (((ramp.length : Nat) : Rat) * (rs : Rat) / (s : Rat)).ceil.toNat).map fun i =>
        ((((ramp ++ List.replicate ((s : Rat) / (rs : Rat)).ceil.toNat (ramp.getLastD 0)).drop
              (((i : Nat) : Rat) * ((s : Rat) / (rs : Rat))).ceil.toNat).take
            ((((i + 1 : Nat) : Rat) * ((s : Rat) / (rs : Rat))).floor.toNat -
              (((i : Nat) : Rat) * ((s : Rat) / (rs : Rat))).ceil.toNat)).sum +
          ((((((i : Nat) : Rat) * ((s : Rat) / (rs : Rat))).ceil.toNat : Nat) : Rat) - ((i : Nat) : Rat) * ((s : Rat) / (rs : Rat))) *
            (ramp ++ List.replicate ((s : Rat) / (rs : Rat)).ceil.toNat (ramp.getLastD 0)).getD
              ((((i : Nat) : Rat) * ((s : Rat) / (rs : Rat))).ceil.toNat - 1) 0 +
          (((i + 1 : Nat) : Rat) * ((s : Rat) / (rs : Rat)) -
              ((((((i + 1 : Nat) : Rat) * ((s : Rat) / (rs : Rat))).floor.toNat : Nat)) : Rat)) *
            (ramp ++ List.replicate ((s : Rat) / (rs : Rat)).ceil.toNat (ramp.getLastD 0)).getD
              ((((i + 1 : Nat) : Rat) * ((s : Rat) / (rs : Rat))).floor.toNat) 0) /
        ((s : Rat) / (rs : Rat)) := by
  have hrq : (0 : Rat) < (rs : Rat) := Rat.natCast_pos.mpr hrs
  have hct1 : (1 : Rat) ≤ (s : Rat) / (rs : Rat) := by
    apply Rat.not_lt.mp
    rw [Rat.div_lt_iff hrq, Rat.one_mul, Rat.natCast_lt_natCast]
    omega
  have h1 : ¬ (s : Rat) / (rs : Rat) < 1 := Rat.not_lt.mpr hct1
  unfold convertRamp
  simp only [Bool.false_eq_true, if_false, h1]
  apply List.map_congr_left
  intro i _
  generalize (s : Rat) / (rs : Rat) = ct at hct1 h1 ⊢
  generalize ramp ++ List.replicate ct.ceil.toNat (ramp.getLastD 0) = P
  have ha : (0 : Rat) ≤ ((i : Nat) : Rat) * ct := Rat.mul_nonneg Rat.natCast_nonneg (by grind)
  have hb : ((i + 1 : Nat) : Rat) * ct = ((i : Nat) : Rat) * ct + ct := by rw [Rat.natCast_add]; simp; grind
  rw [hb]
  generalize ((i : Nat) : Rat) * ct = a at ha ⊢
  obtain ⟨w1, _, w3, _, w5, _⟩ := coarse_weights a ct ha hct1
  have hba : a + ct - a = ct := by grind
  rw [hba]
  congr 1
  congr 1
  · congr 1
    · by_cases hlt : a.ceil.toNat < (a + ct).floor.toNat
      · rw [if_pos hlt, Rat.div_mul_cancel (natCast_ne_zero (by omega))]
      · rw [if_neg hlt]
        have : (a + ct).floor.toNat - a.ceil.toNat = 0 := by omega
        rw [this]; simp
    · by_cases hlt : a < ((a.ceil.toNat : Nat) : Rat)
      · rw [if_pos hlt]
      · rw [if_neg hlt]
        have : ((a.ceil.toNat : Nat) : Rat) - a = 0 := by grind
        rw [this, Rat.zero_mul]
  · by_cases hlt : (((a + ct).floor.toNat : Nat) : Rat) < a + ct
    · rw [if_pos hlt]
    · rw [if_neg hlt]
      have : a + ct - (((a + ct).floor.toNat : Nat) : Rat) = 0 := by grind
      rw [this, Rat.zero_mul]

/-! ### the grid is finer than `ramp_freq`: `np.interp` -/

theorem interp_go_between (x : Rat) : ∀ (xs fs : List Rat) (xa fa : Rat) (j : Nat),
    xs.length = fs.length → j < xs.length → (∀ i, i < j → xs.getD i 0 ≤ x) → x < xs.getD j 0 →
    interp.go x xa fa xs fs =
      (fa :: fs).getD j 0 + (x - (xa :: xs).getD j 0) *
        ((fs.getD j 0 - (fa :: fs).getD j 0) / (xs.getD j 0 - (xa :: xs).getD j 0)) := by
  intro xs
  induction xs with
  | nil => intro fs xa fa j _ hj; simp at hj
  | cons xb xr ih =>
    intro fs xa fa j hlen hj hle hlt
    cases fs with
    | nil => simp at hlen
    | cons fb fr =>
      cases j with
      | zero =>
        have : x < xb := by simpa using hlt
        simp [interp.go, this]
      | succ j =>
        have h0 : xb ≤ x := by simpa using hle 0 (by omega)
        have : ¬ x < xb := Rat.not_lt.mpr h0
        simp only [interp.go, this, if_false]
        rw [ih fr xb fb j (by simpa using hlen) (by simpa using hj)
          (fun i hi => by simpa using hle (i + 1) (by omega)) (by simpa using hlt)]
        simp

theorem interp_go_ge (x : Rat) : ∀ (xs fs : List Rat) (xa fa : Rat),
    xs.length = fs.length → (∀ i, i < xs.length → xs.getD i 0 ≤ x) →
    interp.go x xa fa xs fs = (fa :: fs).getD xs.length 0 := by
  intro xs
  induction xs with
  | nil => intro fs xa fa _ _; cases fs <;> simp [interp.go]
  | cons xb xr ih =>
    intro fs xa fa hlen hle
    cases fs with
    | nil => simp at hlen
    | cons fb fr =>
      have h0 : xb ≤ x := by simpa using hle 0 (by simp)
      have : ¬ x < xb := Rat.not_lt.mpr h0
      simp only [interp.go, this, if_false]
      rw [ih fr xb fb (by simpa using hlen) (fun i hi => by simpa using hle (i + 1) (by simp; omega))]
      simp

/-- `np.interp` at or before the first node: the first value (constant continuation) -/
theorem interp_le_first (xp fp : List Rat) (x : Rat) (hlen : xp.length = fp.length) (h : x ≤ xp.getD 0 0)
    (hne : 0 < xp.length) : interp xp fp x = fp.getD 0 0 := by
  cases xp with
  | nil => simp at hne
  | cons x0 xs =>
    cases fp with
    | nil => simp at hlen
    | cons f0 fs =>
      have : x ≤ x0 := by simpa using h
      simp [interp, this]

/-- `np.interp` between the nodes `j` and `j + 1`: the straight line through them -/
theorem interp_between (xp fp : List Rat) (x : Rat) (j : Nat) (hlen : xp.length = fp.length) (hj : j + 1 < xp.length)
    (hle : ∀ i, i ≤ j → xp.getD i 0 ≤ x) (hlt : x < xp.getD (j + 1) 0) (hfirst : x ≤ xp.getD 0 0 → j = 0) :
    interp xp fp x = fp.getD j 0 + (x - xp.getD j 0) * ((fp.getD (j + 1) 0 - fp.getD j 0) / (xp.getD (j + 1) 0 - xp.getD j 0)) := by
  cases xp with
  | nil => simp at hj
  | cons x0 xs =>
    cases fp with
    | nil => simp at hlen
    | cons f0 fs =>
      by_cases hx : x ≤ x0
      · have hj0 := hfirst (by simpa using hx)
        subst hj0
        have h0 : x0 ≤ x := by simpa using hle 0 (Nat.le_refl 0)
        have : x = x0 := Rat.le_antisymm hx h0
        subst this
        simp [interp]
        grind
      · simp only [interp, hx, if_false]
        rw [interp_go_between x xs fs x0 f0 j (by simpa using hlen) (by simpa using hj)
          (fun i hi => by simpa using hle (i + 1) (by omega)) (by simpa using hlt)]
        simp

/-- `np.interp` at or after the last node: the last value -/
theorem interp_ge_last (xp fp : List Rat) (x : Rat) (hlen : xp.length = fp.length) (hne : 0 < xp.length)
    (hle : ∀ i, i < xp.length → xp.getD i 0 ≤ x) (hfirst : x ≤ xp.getD 0 0 → xp.length = 1) :
    interp xp fp x = fp.getD (xp.length - 1) 0 := by
  cases xp with
  | nil => simp at hne
  | cons x0 xs =>
    cases fp with
    | nil => simp at hlen
    | cons f0 fs =>
      by_cases hx : x ≤ x0
      · have h1 := hfirst (by simpa using hx)
        have : xs = [] := by simpa using h1
        subst this
        simp [interp, hx]
      · simp only [interp, hx, if_false]
        rw [interp_go_ge x xs fs x0 f0 (by simpa using hlen) (fun i hi => by simpa using hle (i + 1) (by simp; omega))]
        simp


/-- the nodes of the interpolation when `ramp_freq` is `m` grid steps: `(j+1)·m` -/
def fineNodes (n m : Nat) : List Rat := (List.range n).map fun j => (((j + 1) * m : Nat) : Rat)

theorem convertRamp_fine_int (ramp : List Rat) (m ss : Nat) (hm : 2 ≤ m) (hss : 0 < ss) :
    convertRamp ramp ss (m * ss) false =
      (List.range (ramp.length * m)).map fun k => interp (fineNodes ramp.length m) ramp ((k + 1 : Nat) : Rat) := by
  have hsq : (0 : Rat) < (ss : Rat) := Rat.natCast_pos.mpr hss
  have hmq : (0 : Rat) < (m : Rat) := Rat.natCast_pos.mpr (by omega)
  have hct : (ss : Rat) / ((m * ss : Nat) : Rat) < 1 := by
    rw [Rat.div_lt_iff (Rat.natCast_pos.mpr (Nat.mul_pos (by omega) hss)), Rat.one_mul, Rat.natCast_lt_natCast]
    have : 2 * ss ≤ m * ss := Nat.mul_le_mul_right ss hm
    omega
  have hnode : ∀ j : Nat, ((j + 1 : Nat) : Rat) * ((m * ss : Nat) : Rat) / (ss : Rat) = (((j + 1) * m : Nat) : Rat) := by
    intro j
    rw [Rat.natCast_mul m ss, ← Rat.mul_assoc, Rat.mul_div_cancel (natCast_ne_zero hss), ← Rat.natCast_mul]
  have hN : ((ramp.length : Nat) : Rat) * ((m * ss : Nat) : Rat) / (ss : Rat) = ((ramp.length * m : Nat) : Rat) := by
    rw [Rat.natCast_mul m ss, ← Rat.mul_assoc, Rat.mul_div_cancel (natCast_ne_zero hss), ← Rat.natCast_mul]
  unfold convertRamp fineNodes
  simp only [Bool.false_eq_true, if_false, hct, if_true, hnode, hN, ceil_toNat_natCast]

theorem fineNodes_length (n m : Nat) : (fineNodes n m).length = n := by simp [fineNodes]

theorem fineNodes_getD (n m j : Nat) (hj : j < n) : (fineNodes n m).getD j 0 = (((j + 1) * m : Nat) : Rat) := by
  simp [fineNodes, List.getD_eq_getElem?_getD, hj]

theorem getD_map_range (N : Nat) (f : Nat → Rat) (k : Nat) (hk : k < N) : ((List.range N).map f).getD k 0 = f k := by
  simp [List.getD_eq_getElem?_getD, hk]

/-- the first `m` fine steps hold the FIRST given value (no rise from zero) -/
theorem fine_entry_first (ramp : List Rat) (m ss : Nat) (hm : 2 ≤ m) (hss : 0 < ss) (k : Nat) (hk : k < m)
    (hn : 0 < ramp.length) : (convertRamp ramp ss (m * ss) false).getD k 0 = ramp.getD 0 0 := by
  have hkN : k < ramp.length * m := by
    have : 1 * m ≤ ramp.length * m := Nat.mul_le_mul_right m hn
    omega
  rw [convertRamp_fine_int ramp m ss hm hss, getD_map_range _ _ k hkN]
  apply interp_le_first _ _ _ (fineNodes_length _ _) _ (by rw [fineNodes_length]; exact hn)
  rw [fineNodes_getD _ _ 0 hn, Rat.natCast_le_natCast]
  omega

/-- `d` fine steps after the node `(j+1)·m` (the end of the `j`-th given step): on the straight line from the `j`-th to
    the `(j+1)`-th given value; for `d = 0` the given value itself -/
theorem fine_entry_linear (ramp : List Rat) (m ss : Nat) (hm : 2 ≤ m) (hss : 0 < ss) (j d : Nat)
    (hj : j + 1 < ramp.length) (hd : d < m) :
    (convertRamp ramp ss (m * ss) false).getD ((j + 1) * m + d - 1) 0 =
      ramp.getD j 0 + (d : Rat) * ((ramp.getD (j + 1) 0 - ramp.getD j 0) / (m : Rat)) := by
  have e1 : (j + 1) * m = j * m + m := by rw [Nat.add_mul]; omega
  have e2 : (j + 1 + 1) * m = j * m + m + m := by rw [Nat.add_mul, e1]; omega
  have hkN : (j + 1) * m + d - 1 < ramp.length * m := by
    have : (j + 1 + 1) * m ≤ ramp.length * m := Nat.mul_le_mul_right m hj
    omega
  have hk1 : (j + 1) * m + d - 1 + 1 = (j + 1) * m + d := by omega
  rw [convertRamp_fine_int ramp m ss hm hss, getD_map_range _ _ _ hkN, hk1,
    interp_between (fineNodes ramp.length m) ramp _ j (fineNodes_length _ _) (by rw [fineNodes_length]; exact hj)]
  · rw [fineNodes_getD _ _ j (by omega), fineNodes_getD _ _ (j + 1) hj]
    have h1 : (((j + 1) * m + d : Nat) : Rat) - (((j + 1) * m : Nat) : Rat) = (d : Rat) := by
      rw [Rat.natCast_add]; grind
    have h2 : (((j + 1 + 1) * m : Nat) : Rat) - (((j + 1) * m : Nat) : Rat) = (m : Rat) := by
      rw [e2, e1, Rat.natCast_add (j * m + m) m]; grind
    rw [h1, h2]
  · intro i hi
    rw [fineNodes_getD _ _ i (by omega), Rat.natCast_le_natCast]
    have : (i + 1) * m ≤ (j + 1) * m := Nat.mul_le_mul_right m (by omega)
    omega
  · rw [fineNodes_getD _ _ (j + 1) hj, Rat.natCast_lt_natCast]
    omega
  · intro h
    rw [fineNodes_getD _ _ 0 (by omega), Rat.natCast_le_natCast] at h
    have h0 : (0 + 1) * m = m := by omega
    have : j * m = 0 := by omega
    rcases Nat.mul_eq_zero.mp this with h' | h' <;> omega

/-- the last fine step carries the last given value -/
theorem fine_entry_last (ramp : List Rat) (m ss : Nat) (hm : 2 ≤ m) (hss : 0 < ss) (hn : 0 < ramp.length) :
    (convertRamp ramp ss (m * ss) false).getD (ramp.length * m - 1) 0 = ramp.getD (ramp.length - 1) 0 := by
  have hpos : 0 < ramp.length * m := Nat.mul_pos hn (by omega)
  have hk1 : ramp.length * m - 1 + 1 = ramp.length * m := by omega
  rw [convertRamp_fine_int ramp m ss hm hss, getD_map_range _ _ _ (by omega), hk1]
  have := interp_ge_last (fineNodes ramp.length m) ramp ((ramp.length * m : Nat) : Rat) (fineNodes_length _ _)
    (by rw [fineNodes_length]; exact hn)
  rw [fineNodes_length] at this
  apply this
  · intro i hi
    rw [fineNodes_getD _ _ i hi, Rat.natCast_le_natCast]
    exact Nat.mul_le_mul_right m (by omega)
  · intro h
    rw [fineNodes_getD _ _ 0 hn, Rat.natCast_le_natCast] at h
    rcases Nat.lt_or_ge 1 ramp.length with h1 | h1
    · have : 2 * m ≤ ramp.length * m := Nat.mul_le_mul_right m h1
      omega
    · omega

/-! ### `_convert_ramp` is monotone; the profiles on the grid keep `lower ≤ upper` -/

/-- pointwise `≤` of two lists of the same length -/
inductive LeL : List Rat → List Rat → Prop
  | nil : LeL [] []
  | cons {x y : Rat} {a b : List Rat} : x ≤ y → LeL a b → LeL (x :: a) (y :: b)

theorem LeL.length_eq {a b : List Rat} (h : LeL a b) : a.length = b.length := by
  induction h with
  | nil => rfl
  | cons _ _ ih => simp [ih]

theorem LeL.sum_le {a b : List Rat} (h : LeL a b) : a.sum ≤ b.sum := by
  induction h with
  | nil => exact Rat.le_refl
  | cons h1 _ ih => simp only [List.sum_cons]; grind

theorem LeL.take {a b : List Rat} (h : LeL a b) (n : Nat) : LeL (a.take n) (b.take n) := by
  induction h generalizing n with
  | nil => simpa using LeL.nil
  | cons h1 _ ih =>
    cases n with
    | zero => simpa using LeL.nil
    | succ n => simp only [List.take_succ_cons]; exact LeL.cons h1 (ih n)

theorem LeL.drop {a b : List Rat} (h : LeL a b) (n : Nat) : LeL (a.drop n) (b.drop n) := by
  induction h generalizing n with
  | nil => simpa using LeL.nil
  | cons h1 h2 ih =>
    cases n with
    | zero => exact LeL.cons h1 h2
    | succ n => simp only [List.drop_succ_cons]; exact ih n

theorem LeL.getD {a b : List Rat} (h : LeL a b) (j : Nat) : a.getD j 0 ≤ b.getD j 0 := by
  induction h generalizing j with
  | nil => simp
  | cons h1 _ ih =>
    cases j with
    | zero => simpa using h1
    | succ j => simpa using ih j

theorem LeL.getLastD {a b : List Rat} (h : LeL a b) : a.getLastD 0 ≤ b.getLastD 0 := by
  induction h with
  | nil => simp
  | @cons x y l1 l2 h1 h2 ih =>
    cases h2 with
    | nil => simpa using h1
    | cons h3 h4 => simpa [List.getLastD_cons] using ih

theorem LeL.append {a b c d : List Rat} (h1 : LeL a b) (h2 : LeL c d) : LeL (a ++ c) (b ++ d) := by
  induction h1 with
  | nil => simpa using h2
  | cons h _ ih => exact LeL.cons h ih

theorem LeL.replicate (n : Nat) {u v : Rat} (h : u ≤ v) : LeL (List.replicate n u) (List.replicate n v) := by
  induction n with
  | zero => exact LeL.nil
  | succ n ih => exact LeL.cons h ih

theorem LeL.map_range (N : Nat) (f g : Nat → Rat) (h : ∀ k, k < N → f k ≤ g k) :
    LeL ((List.range N).map f) ((List.range N).map g) := by
  induction N with
  | zero => exact LeL.nil
  | succ N ih =>
    rw [List.range_succ, List.map_append, List.map_append]
    exact LeL.append (ih (fun k hk => h k (by omega))) (LeL.cons (h N (by omega)) LeL.nil)


/-- one interpolation step is a convex combination, hence monotone in the two values -/
theorem lerp_mono {xa xb x fa fa' fb fb' : Rat} (h1 : xa ≤ x) (h2 : x < xb) (ha : fa ≤ fa') (hb : fb ≤ fb') :
    fa + (x - xa) * ((fb - fa) / (xb - xa)) ≤ fa' + (x - xa) * ((fb' - fa') / (xb - xa)) := by
  have hd : 0 < xb - xa := by grind
  have hdi : 0 < (xb - xa)⁻¹ := Rat.inv_pos.mpr hd
  have hμ0 : 0 ≤ (x - xa) * (xb - xa)⁻¹ := Rat.mul_nonneg (by grind) (Rat.le_of_lt hdi)
  have hμ1 : (x - xa) * (xb - xa)⁻¹ ≤ 1 := by
    have : (x - xa) * (xb - xa)⁻¹ ≤ (xb - xa) * (xb - xa)⁻¹ :=
      Rat.mul_le_mul_of_nonneg_right (by grind) (Rat.le_of_lt hdi)
    rwa [Rat.mul_inv_cancel _ (by grind)] at this
  have e : ∀ f g : Rat, f + (x - xa) * ((g - f) / (xb - xa)) = f + ((x - xa) * (xb - xa)⁻¹) * (g - f) := by
    intro f g; rw [Rat.div_def]; grind
  rw [e fa fb, e fa' fb']
  generalize (x - xa) * (xb - xa)⁻¹ = μ at hμ0 hμ1 ⊢
  have p1 : 0 ≤ (1 - μ) * (fa' - fa) := Rat.mul_nonneg (by grind) (by grind)
  have p2 : 0 ≤ μ * (fb' - fb) := Rat.mul_nonneg hμ0 (by grind)
  grind

theorem interp_go_mono (x : Rat) : ∀ (xs fs fs' : List Rat) (xa fa fa' : Rat),
    xa ≤ x → fa ≤ fa' → LeL fs fs' → interp.go x xa fa xs fs ≤ interp.go x xa fa' xs fs' := by
  intro xs
  induction xs with
  | nil => intro fs fs' xa fa fa' _ ha _; simpa [interp.go] using ha
  | cons xb xr ih =>
    intro fs fs' xa fa fa' hx ha hf
    cases hf with
    | nil => simpa [interp.go] using ha
    | cons hb hr =>
      simp only [interp.go]
      split
      · exact lerp_mono hx (by assumption) ha hb
      · exact ih _ _ xb _ _ (Rat.not_lt.mp (by assumption)) hb hr

theorem interp_mono (xp fp fp' : List Rat) (x : Rat) (h : LeL fp fp') : interp xp fp x ≤ interp xp fp' x := by
  cases xp with
  | nil => simp [interp]
  | cons x0 xs =>
    cases h with
    | nil => simp [interp]
    | cons h0 hr =>
      simp only [interp]
      split
      · exact h0
      · exact interp_go_mono x xs _ _ x0 _ _ (Rat.le_of_lt (Rat.not_le.mp (by assumption))) h0 hr

/-- `_convert_ramp` is monotone: a pointwise smaller profile converts to a pointwise smaller profile (all three
    branches, any ratio of the two frequencies) — in particular converted lower bounds stay below converted upper bounds -/
theorem convertRamp_mono (lo up : List Rat) (h : LeL lo up) (s rs : Nat) (hrs : 0 < rs) (same : Bool) :
    LeL (convertRamp lo s rs same) (convertRamp up s rs same) := by
  have hrq : (0 : Rat) < (rs : Rat) := Rat.natCast_pos.mpr hrs
  cases same
  · by_cases hc : rs ≤ s
    · rw [convertRamp_coarse_general lo s rs hrs hc, convertRamp_coarse_general up s rs hrs hc, h.length_eq]
      apply LeL.map_range
      intro i _
      have hct1 : (1 : Rat) ≤ (s : Rat) / (rs : Rat) := by
        apply Rat.not_lt.mp
        rw [Rat.div_lt_iff hrq, Rat.one_mul, Rat.natCast_lt_natCast]
        omega
      generalize (s : Rat) / (rs : Rat) = ct at hct1 ⊢
      have hP : LeL (lo ++ List.replicate ct.ceil.toNat (lo.getLastD 0)) (up ++ List.replicate ct.ceil.toNat (up.getLastD 0)) :=
        LeL.append h (LeL.replicate _ h.getLastD)
      generalize lo ++ List.replicate ct.ceil.toNat (lo.getLastD 0) = P at hP ⊢
      generalize up ++ List.replicate ct.ceil.toNat (up.getLastD 0) = P' at hP ⊢
      have ha : (0 : Rat) ≤ ((i : Nat) : Rat) * ct := Rat.mul_nonneg Rat.natCast_nonneg (by grind)
      have hb : ((i + 1 : Nat) : Rat) * ct = ((i : Nat) : Rat) * ct + ct := by rw [Rat.natCast_add]; simp; grind
      rw [hb]
      generalize ((i : Nat) : Rat) * ct = a at ha ⊢
      obtain ⟨w1, _, w3, _, _, _⟩ := coarse_weights a ct ha hct1
      have hci : 0 ≤ ct⁻¹ := Rat.le_of_lt (Rat.inv_pos.mpr (by grind))
      rw [Rat.div_def, Rat.div_def]
      apply Rat.mul_le_mul_of_nonneg_right _ hci
      have s1 := ((hP.drop a.ceil.toNat).take ((a + ct).floor.toNat - a.ceil.toNat)).sum_le
      have s2 := Rat.mul_le_mul_of_nonneg_left (hP.getD (a.ceil.toNat - 1)) w1
      have s3 := Rat.mul_le_mul_of_nonneg_left (hP.getD (a + ct).floor.toNat) w3
      grind
    · have hct : (s : Rat) / (rs : Rat) < 1 := by
        rw [Rat.div_lt_iff hrq, Rat.one_mul, Rat.natCast_lt_natCast]
        omega
      unfold convertRamp
      simp only [Bool.false_eq_true, if_false, hct, if_true, h.length_eq]
      apply LeL.map_range
      intro k _
      exact interp_mono _ _ _ _ h
  · exact h

theorem LeL_of_zip (l u : List Rat) (hlen : l.length = u.length)
    (h : (l.zip u).any (fun p => decide (p.2 < p.1)) = false) : LeL l u := by
  induction l generalizing u with
  | nil => cases u with
    | nil => exact LeL.nil
    | cons _ _ => simp at hlen
  | cons x l ih =>
    cases u with
    | nil => simp at hlen
    | cons y u =>
      simp only [List.zip_cons_cons, List.any_cons, Bool.or_eq_false_iff, decide_eq_false_iff_not] at h
      exact LeL.cons (Rat.not_lt.mp h.1) (ih u (by simpa using hlen) h.2)

theorem LeL.map_mul {a b : List Rat} (h : LeL a b) {f : Rat} (hf : 0 ≤ f) : LeL (a.map (· * f)) (b.map (· * f)) := by
  induction h with
  | nil => exact LeL.nil
  | cons h1 _ ih => exact LeL.cons (Rat.mul_le_mul_of_nonneg_right h1 hf) ih

theorem profCtor_ordered {q : CHPProfP} {sd : (List Rat × List Rat) × (List Rat × List Rat)}
    (h : profCtor q = .ok sd) : LeL sd.1.1 sd.1.2 ∧ LeL sd.2.1 sd.2.2 := by
  unfold profCtor at h
  simp only [bind, Except.bind, pure, Except.pure] at h
  have pair_ok : ∀ (lo up : Option (List Rat)) (v : List Rat × List Rat),
      (match lo with
        | none => (Except.ok ([], []) : Except BuildError (List Rat × List Rat))
        | some l =>
          if l.length ≠ (up.getD l).length then throw BuildError.assertion
          else if ((l.zip (up.getD l)).any fun p => decide (p.snd < p.fst)) = true then throw BuildError.assertion
          else Except.ok (l, up.getD l)) = Except.ok v → LeL v.1 v.2 := by
    intro lo up v hv
    split at hv
    · injection hv with hv; subst hv; exact LeL.nil
    · split at hv
      · simp [throw, throwThe, MonadExceptOf.throw] at hv
      · split at hv
        · simp [throw, throwThe, MonadExceptOf.throw] at hv
        · injection hv with hv; subst hv
          rename_i h1 h2
          exact LeL_of_zip _ _ (by simpa using h1) (by simpa using h2)
  split at h
  · simp at h
  · rename_i v hv
    split at h
    · simp at h
    · rename_i v1 hv1
      have e : sd = (v, v1) := by
        repeat' split at h
        all_goals simp_all [throw, throwThe, MonadExceptOf.throw]
      subst e
      exact ⟨pair_ok _ _ _ hv, pair_ok _ _ _ hv1⟩

theorem div_natCast_nonneg (a b : Nat) : (0 : Rat) ≤ (a : Rat) / (b : Rat) := by
  rw [Rat.div_def]
  rcases Nat.eq_zero_or_pos b with h | h
  · subst h; simp
  · exact Rat.mul_nonneg Rat.natCast_nonneg (Rat.le_of_lt (Rat.inv_pos.mpr (Rat.natCast_pos.mpr h)))

/-- the profiles on the grid keep the order the constructor asserts: lower ≤ upper entry by entry, same length -/
theorem mkProf_ordered (q : CHPProfP) {sd : (List Rat × List Rat) × (List Rat × List Rat)} (h : profCtor q = .ok sd)
    (hr : 0 < q.rampFreqSec) (stepSec unitSec : Nat) :
    LeL (mkProf q sd.1 sd.2 stepSec unitSec).sl (mkProf q sd.1 sd.2 stepSec unitSec).su ∧
    LeL (mkProf q sd.1 sd.2 stepSec unitSec).ql (mkProf q sd.1 sd.2 stepSec unitSec).qu := by
  obtain ⟨h1, h2⟩ := profCtor_ordered h
  have hf := div_natCast_nonneg stepSec unitSec
  simp only [mkProf]
  constructor
  · split
    · exact LeL.nil
    · exact (convertRamp_mono _ _ h1 stepSec _ hr _).map_mul hf
  · split
    · exact LeL.nil
    · exact (convertRamp_mono _ _ h2 stepSec _ hr _).map_mul hf

theorem resolveCHPP_prof {p : CHPP} {q : CHPProfP} {base : AssetProblem} {g : Grid} {prices : Prices} {u s : Nat}
    {costsOnly : Bool} {r : CHPRP} (h : resolveCHPP p q base g prices u s costsOnly = .ok (some r)) :
    ∃ sd, profCtor q = .ok sd ∧ r.prof = mkProf q sd.1 sd.2 s u := by
  unfold resolveCHPP at h
  simp only [bind, Except.bind, pure, Except.pure] at h
  cases hc : chpCtor p with
  | error e => simp [hc] at h
  | ok hf =>
    simp only [hc] at h
    cases hp : profCtor q with
    | error e => simp [hp] at h
    | ok sd =>
      simp only [hp] at h
      refine ⟨sd, rfl, ?_⟩
      by_cases hT : g.T = 0
      · simp [hT] at h
      · simp only [hT, if_false] at h
        split at h
        · simp [throw, throwThe, MonadExceptOf.throw] at h
        cases hv : chpVectors p g prices hf.1 hf.2 with
        | error e => simp [hv] at h
        | ok v =>
          simp only [hv] at h
          split at h
          · simp at h
          · split at h
            · injection h with h; injection h with h; subst h; rfl
            · split at h
              · simp at h
              · split at h
                · simp [throw, throwThe, MonadExceptOf.throw] at h
                · split at h
                  · simp [throw, throwThe, MonadExceptOf.throw] at h
                  · injection h with h; injection h with h; subst h; rfl

end EAO.CHPProfCommit

/-
`#print axioms` (scratch file importing the built module): every theorem of `EAO/Properties/C06Profile.lean`, which
re-exports the results of this file, depends on [propext, Classical.choice, Quot.sound] only (`wf_of_ok`: propext, Quot.sound).
-/
