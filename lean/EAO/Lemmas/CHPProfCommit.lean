import EAO.Model.CHPProfile
import EAO.Lemmas.UC
import EAO.Lemmas.CHPRows
import EAO.Lemmas.CHPCommit
import EAO.Lemmas.CHPProfile
/-!
# EAO.Lemmas.CHPProfCommit — `assembleCHPP` (CHP / Plant WITH start / shutdown ramp profiles, hence with shutdown
variables): (A) the bounds of the on / start / shutdown variables, (B) the start / shutdown flags as transition
indicators (all steps, first and last step included) and the bridge from the commitment rows to the run-length
specification `UC.MinUpDown` with the minimum runtime increased by the ramp lengths, (C) the heat-profile rows
`heatProfRows`, (D) `convertRamp` (`_convert_ramp`): identity, averaging, interpolation.
-/
namespace EAO.CHPProfCommit
open EAO EAO.UC

/-! ## (A) bounds -/

/-- what the resolution guarantees about a problem with profiles: the profile-free part is well formed and has
    on- and start-variables (`include_on_variables`, `include_start_variables` are true with a profile) -/
structure CommitWFP (r : CHPRP) : Prop where
  core : CHPCommit.CommitWF r.core
  hon  : r.core.incOn = true
  hst  : r.core.incStart = true

theorem length_setSliceFrom (xs : List Rat) (i a b : Nat) (v : Rat) : (setSliceFrom xs i a b v).length = xs.length := by
  induction xs generalizing i with
  | nil => simp [setSliceFrom]
  | cons y ys ih => simp [setSliceFrom, ih]

theorem length_setSlice (xs : List Rat) (a b : Nat) (v : Rat) : (setSlice xs a b v).length = xs.length :=
  length_setSliceFrom xs 0 a b v

theorem core_lower_len (r : CHPR) (hwf : CHPCommit.CommitWF r) (ho : r.incOn = true) (hs : r.incStart = true) :
    r.lower.length = r.layout.onIdx + r.T + r.T := by
  have hP := CHPCommit.lower_pre_len r hwf
  simp only [CHPR.lower]
  generalize (if r.heat = true then List.replicate (2 * r.base.c.length) (0 : Rat)
      else (if r.incOn = true then r.base.l.map fun _ => (0 : Rat) else r.base.l)) = P at hP ⊢
  simp only [ho, hs, and_self, if_true, true_and]
  split <;> simp [length_setSlice, hP] <;> omega

theorem core_upper_len (r : CHPR) (hwf : CHPCommit.CommitWF r) (ho : r.incOn = true) (hs : r.incStart = true) :
    r.upper.length = r.layout.onIdx + r.T + r.T := by
  have hP := CHPCommit.upper_pre_len r hwf
  simp only [CHPR.upper]
  generalize (if r.heat = true then r.base.u ++ r.uHeat else r.base.u) = P at hP ⊢
  simp only [ho, hs, and_self, if_true]
  split <;> simp [length_setSlice, hP] <;> omega

theorem getD_append_lt (a b : List Rat) (j : Nat) (h : j < a.length) : (a ++ b).getD j 0 = a.getD j 0 := by
  simp [List.getD_eq_getElem?_getD, List.getElem?_append_left h]

theorem getD_append_ge (a b : List Rat) (j : Nat) : (a ++ b).getD (a.length + j) 0 = b.getD j 0 := by
  simp [List.getD_eq_getElem?_getD, List.getElem?_append_right]

theorem startIdx_eq (r : CHPR) : r.layout.startIdx = r.layout.onIdx + r.T := rfl

variable {r : CHPRP}

theorem lowerP_on (h : CommitWFP r) (t : Nat) (ht : t < r.core.T) :
    r.lower.getD (r.core.layout.on t) 0 = r.core.lower.getD (r.core.layout.on t) 0 := by
  have hl := core_lower_len r.core h.core h.hon h.hst
  unfold CHPRP.lower
  exact getD_append_lt _ _ _ (by simp only [CHPLayout.on]; omega)

theorem lowerP_start (h : CommitWFP r) (t : Nat) (ht : t < r.core.T) :
    r.lower.getD (r.core.layout.start t) 0 = 0 := by
  have hl := core_lower_len r.core h.core h.hon h.hst
  unfold CHPRP.lower
  rw [getD_append_lt _ _ _ (by simp only [CHPLayout.start, startIdx_eq]; omega)]
  exact CHPCommit.lower_start r.core h.core h.hst t ht

theorem shut_eq (h : CommitWFP r) (t : Nat) : r.shut t = r.core.lower.length + t := by
  have hl := core_lower_len r.core h.core h.hon h.hst
  simp only [CHPRP.shut, CHPRP.shutIdx, startIdx_eq]; omega

theorem shut_eq' (h : CommitWFP r) (t : Nat) : r.shut t = r.core.upper.length + t := by
  have hl := core_upper_len r.core h.core h.hon h.hst
  simp only [CHPRP.shut, CHPRP.shutIdx, startIdx_eq]; omega

theorem lowerP_shut (h : CommitWFP r) (t : Nat) (ht : t < r.core.T) : r.lower.getD (r.shut t) 0 = 0 := by
  rw [shut_eq h t]
  unfold CHPRP.lower
  rw [getD_append_ge]
  simp [List.getD_eq_getElem?_getD, ht]

theorem lowerP_len (h : CommitWFP r) : r.lower.length = r.core.layout.onIdx + r.core.T + r.core.T + r.core.T := by
  have hl := core_lower_len r.core h.core h.hon h.hst
  simp [CHPRP.lower, hl]

theorem upperP_pre_len (h : CommitWFP r) :
    (r.core.upper ++ List.replicate r.core.T (1 : Rat)).length = r.core.layout.onIdx + r.core.T + r.core.T + r.core.T := by
  have hl := core_upper_len r.core h.core h.hon h.hst
  simp [hl]

theorem upperP_getD (r : CHPRP) (j : Nat) :
    r.upper.getD j 0 =
      if (if r.core.tar = 0 then r.shutIdx else r.core.layout.startIdx) = j ∧
          j < (r.core.upper ++ List.replicate r.core.T (1 : Rat)).length then 0
      else (r.core.upper ++ List.replicate r.core.T (1 : Rat)).getD j 0 := by
  unfold CHPRP.upper setAt
  by_cases h0 : r.core.tar = 0
  · simp only [h0, if_true, CHPCommit.getD_setSlice]
    by_cases hj : r.shutIdx = j
    · subst hj; simp
    · rw [if_neg (by omega), if_neg (by intro h; exact hj h.1)]
  · simp only [h0, if_false, CHPCommit.getD_setSlice]
    by_cases hj : r.core.layout.startIdx = j
    · subst hj; simp
    · rw [if_neg (by omega), if_neg (by intro h; exact hj h.1)]

theorem upperP_on (h : CommitWFP r) (t : Nat) (ht : t < r.core.T) :
    r.upper.getD (r.core.layout.on t) 0 = r.core.upper.getD (r.core.layout.on t) 0 := by
  have hl := core_upper_len r.core h.core h.hon h.hst
  rw [upperP_getD, if_neg, getD_append_lt _ _ _ (by simp only [CHPLayout.on]; omega)]
  intro hc
  have := hc.1
  simp only [CHPLayout.on, CHPRP.shutIdx, startIdx_eq] at this
  split at this <;> omega

theorem upperP_start (h : CommitWFP r) (t : Nat) (ht : t < r.core.T) :
    r.upper.getD (r.core.layout.start t) 0 = if r.core.tar ≠ 0 ∧ t = 0 then 0 else 1 := by
  have hl := core_upper_len r.core h.core h.hon h.hst
  have hp := upperP_pre_len h
  rw [upperP_getD]
  by_cases h0 : r.core.tar = 0
  · rw [if_neg, if_neg (by intro hc; exact hc.1 h0),
      getD_append_lt _ _ _ (by simp only [CHPLayout.start, startIdx_eq]; omega)]
    · exact CHPCommit.upper_start r.core h.core h.hst t ht
    · intro hc
      have := hc.1
      simp only [h0, if_true, CHPLayout.start, CHPRP.shutIdx] at this
      omega
  · by_cases ht0 : t = 0
    · subst ht0
      rw [if_pos, if_pos ⟨h0, rfl⟩]
      refine ⟨by simp [h0, CHPLayout.start], ?_⟩
      rw [hp]; simp only [CHPLayout.start, startIdx_eq]; omega
    · rw [if_neg, if_neg (by intro hc; exact ht0 hc.2),
        getD_append_lt _ _ _ (by simp only [CHPLayout.start, startIdx_eq]; omega)]
      · exact CHPCommit.upper_start r.core h.core h.hst t ht
      · intro hc
        have := hc.1
        simp only [h0, if_false, CHPLayout.start] at this
        omega

theorem upperP_shut (h : CommitWFP r) (t : Nat) (ht : t < r.core.T) :
    r.upper.getD (r.shut t) 0 = if r.core.tar = 0 ∧ t = 0 then 0 else 1 := by
  have hp := upperP_pre_len h
  have hrep : (r.core.upper ++ List.replicate r.core.T (1 : Rat)).getD (r.shut t) 0 = 1 := by
    rw [shut_eq' h t, getD_append_ge]
    simp [List.getD_eq_getElem?_getD, ht]
  rw [upperP_getD]
  by_cases h0 : r.core.tar = 0
  · by_cases ht0 : t = 0
    · subst ht0
      rw [if_pos, if_pos ⟨h0, rfl⟩]
      refine ⟨by simp [h0, CHPRP.shut], ?_⟩
      rw [hp]; simp only [CHPRP.shut, CHPRP.shutIdx, startIdx_eq]; omega
    · rw [if_neg, if_neg (by intro hc; exact ht0 hc.2), hrep]
      intro hc
      have := hc.1
      simp only [h0, if_true, CHPRP.shut] at this
      omega
  · rw [if_neg, if_neg (by intro hc; exact h0 hc.1), hrep]
    intro hc
    have := hc.1
    simp only [h0, if_false, CHPRP.shut, CHPRP.shutIdx] at this
    omega


/-! ## (B) start / shutdown flags and the run-length specification -/

open EAO.CHPCommit (b2r CommitWF ucp)

/-- the rows that involve on / start / shutdown variables only -/
def commitRowsP (r : CHPRP) : List Row := r.startShutRows ++ r.core.runtimeRows ++ r.core.downtimeRows

theorem commitRowsP_sub (r : CHPRP) {row : Row} (h : row ∈ commitRowsP r) : row ∈ r.rows := by
  simp only [commitRowsP, List.mem_append] at h
  simp only [CHPRP.rows, List.mem_append]
  rcases h with (h | h) | h
  · exact Or.inl (Or.inl (Or.inl (Or.inr h)))
  · exact Or.inl (Or.inl (Or.inr h))
  · exact Or.inl (Or.inr h)

/-- the switch-off indicator: at step 0 "was running and is off now", later `on_{t−1} ∧ ¬ on_t` -/
def shutOf (p : UCP) (on : Nat → Bool) (t : Nat) : Bool :=
  if t = 0 then (decide (p.tar ≠ 0) && !on 0) else (on (t-1) && !on t)

/-- Boolean reading of the start / shutdown definition rows, the exclusion rows and the two bounds of step 0 -/
def FlagsF (tar T : Nat) (on st sh : Nat → Bool) : Prop :=
  (∀ t, t + 1 < T → ((st (t+1) && !sh (t+1)) = (on (t+1) && !on t) ∧ (sh (t+1) && !st (t+1)) = (!on (t+1) && on t))) ∧
  (tar = 0 → st 0 = on 0) ∧ (tar ≠ 0 → sh 0 = !on 0) ∧
  (∀ t, t + 1 < T → ¬ (st t = true ∧ sh t = true)) ∧
  (tar = 0 → sh 0 = false) ∧ (tar ≠ 0 → st 0 = false)

/-- the flags of step `t` are the transition indicators — or, ONLY at the last step `T − 1 ≥ 1`, both flags are set
    although nothing switches (the exclusion rows stop one step early) -/
def FlagOK (p : UCP) (T : Nat) (on st sh : Nat → Bool) (t : Nat) : Prop :=
  (st t = startOf p T on t ∧ sh t = shutOf p on t) ∨
  (1 ≤ t ∧ t + 1 = T ∧ on (t-1) = on t ∧ st t = true ∧ sh t = true)

theorem flagsF_iff (p : UCP) (T : Nat) (on st sh : Nat → Bool) (hT : 0 < T) :
    FlagsF p.tar T on st sh ↔ ∀ t, t < T → FlagOK p T on st sh t := by
  constructor
  · rintro ⟨hE, hF0, hF1, hO, hB0, hB1⟩ t ht
    cases t with
    | zero =>
      left
      by_cases h0 : p.tar = 0
      · simp [startOf, shutOf, h0, hF0 h0, hB0 h0]
      · simp [startOf, shutOf, h0, hF1 h0, hB1 h0]
    | succ s =>
      obtain ⟨e1, e2⟩ := hE s ht
      by_cases hl : s + 1 + 1 < T
      · left
        have ho := hO (s+1) hl
        simp only [startOf, shutOf, Nat.succ_ne_zero, if_false, Nat.add_sub_cancel]
        revert e1 e2 ho
        cases st (s+1) <;> cases sh (s+1) <;> cases on (s+1) <;> cases on s <;> simp
      · by_cases hb : st (s+1) = true ∧ sh (s+1) = true
        · right
          refine ⟨by omega, by omega, ?_, hb.1, hb.2⟩
          simp only [Nat.add_sub_cancel]
          revert e1 e2
          rw [hb.1, hb.2]
          cases on (s+1) <;> cases on s <;> simp
        · left
          simp only [startOf, shutOf, Nat.succ_ne_zero, if_false, Nat.add_sub_cancel]
          revert e1 e2 hb
          cases st (s+1) <;> cases sh (s+1) <;> cases on (s+1) <;> cases on s <;> simp
  · intro h
    refine ⟨?_, ?_, ?_, ?_, ?_, ?_⟩
    · intro t ht
      rcases h (t+1) ht with ⟨h1, h2⟩ | ⟨_, _, h3, h4, h5⟩
      · simp only [startOf, shutOf, Nat.succ_ne_zero, if_false, Nat.add_sub_cancel] at h1 h2
        rw [h1, h2]
        cases on (t+1) <;> cases on t <;> simp
      · simp only [Nat.add_sub_cancel] at h3
        rw [h4, h5, h3]
        cases on (t+1) <;> simp
    · intro h0
      rcases h 0 hT with ⟨h1, _⟩ | ⟨h1, _⟩
      · simpa [startOf, h0] using h1
      · omega
    · intro h0
      rcases h 0 hT with ⟨_, h2⟩ | ⟨h1, _⟩
      · simpa [shutOf, h0] using h2
      · omega
    · intro t ht
      rcases h t (by omega) with ⟨h1, h2⟩ | ⟨_, h2, _⟩
      · rw [h1, h2]
        cases t with
        | zero => by_cases h0 : p.tar = 0 <;> simp [startOf, shutOf, h0]
        | succ s =>
          simp only [startOf, shutOf, Nat.succ_ne_zero, if_false, Nat.add_sub_cancel]
          cases on (s+1) <;> cases on s <;> simp
      · omega
    · intro h0
      rcases h 0 hT with ⟨_, h2⟩ | ⟨h1, _⟩
      · simpa [shutOf, h0] using h2
      · omega
    · intro h0
      rcases h 0 hT with ⟨h1, _⟩ | ⟨h1, _⟩
      · simpa [startOf, h0] using h1
      · omega

/-! ### membership and Boolean reading of the start / shutdown rows -/

theorem mem_startShutRows (r : CHPRP) (row : Row) :
    row ∈ r.startShutRows ↔
      ((∃ t, t < r.core.T - 1 ∧ row = r.startShutRow t) ∨
       row = (if r.core.tar = 0 then r.core.startFirstRow else r.firstRunningRow) ∨
       (∃ t, t < r.core.T - 1 ∧ row = r.overlapRow t)) := by
  simp only [CHPRP.startShutRows, List.mem_append, List.mem_map, List.mem_range, List.mem_singleton, eq_comm, or_assoc]

theorem startShut_bool (r : CHPRP) (x : Vec) (t : Nat) (a b c d : Bool)
    (h1 : x (r.core.layout.on (t+1)) = b2r a) (h2 : x (r.core.layout.on t) = b2r b)
    (h3 : x (r.core.layout.start (t+1)) = b2r c) (h4 : x (r.shut (t+1)) = b2r d) :
    (r.startShutRow t).Sat x ↔ ((c && !d) = (a && !b) ∧ (d && !c) = (!a && b)) := by
  rw [CHPProfile.startShutRow_sat, h1, h2, h3, h4]
  cases a <;> cases b <;> cases c <;> cases d <;> simp [b2r] <;> grind

theorem firstOff_bool (r : CHPRP) (x : Vec) (a c : Bool)
    (h1 : x (r.core.layout.on 0) = b2r a) (h3 : x (r.core.layout.start 0) = b2r c) :
    r.core.startFirstRow.Sat x ↔ c = a := by
  rw [CHPRows.startFirstRow_sat, h1, h3]
  cases a <;> cases c <;> simp [b2r] <;> grind

theorem firstRunning_bool (r : CHPRP) (x : Vec) (a d : Bool)
    (h1 : x (r.core.layout.on 0) = b2r a) (h4 : x (r.shut 0) = b2r d) :
    r.firstRunningRow.Sat x ↔ d = !a := by
  rw [CHPProfile.firstRunningRow_sat, h1, h4]
  cases a <;> cases d <;> simp [b2r] <;> grind

theorem overlap_bool (r : CHPRP) (x : Vec) (t : Nat) (c d : Bool)
    (h3 : x (r.core.layout.start t) = b2r c) (h4 : x (r.shut t) = b2r d) :
    (r.overlapRow t).Sat x ↔ ¬ (c = true ∧ d = true) := by
  rw [CHPProfile.overlapRow_sat, h3, h4]
  cases c <;> cases d <;> simp [b2r] <;> grind

theorem b2r_bounds (a : Bool) (P : Prop) [Decidable P] :
    ((0 : Rat) ≤ b2r a ∧ b2r a ≤ (if P then 0 else 1)) ↔ (P → a = false) := by
  by_cases hP : P <;> cases a <;> simp [b2r, hP] <;> grind

section
variable (r : CHPRP) (x : Vec) (onf stf shf : Nat → Bool)

/-- the start / shutdown rows and the bounds of the start and shutdown variables, read on a 0/1 point -/
theorem P_flags (hwf : CommitWFP r)
    (hon : ∀ t, t < r.core.T → x (r.core.layout.on t) = b2r (onf t))
    (hst : ∀ t, t < r.core.T → x (r.core.layout.start t) = b2r (stf t))
    (hsh : ∀ t, t < r.core.T → x (r.shut t) = b2r (shf t)) :
    ((∀ row ∈ r.startShutRows, row.Sat x) ∧
     (∀ t, t < r.core.T → r.lower.getD (r.core.layout.start t) 0 ≤ x (r.core.layout.start t) ∧
        x (r.core.layout.start t) ≤ r.upper.getD (r.core.layout.start t) 0) ∧
     (∀ t, t < r.core.T → r.lower.getD (r.shut t) 0 ≤ x (r.shut t) ∧ x (r.shut t) ≤ r.upper.getD (r.shut t) 0)) ↔
      FlagsF r.core.tar r.core.T onf stf shf := by
  have hT := hwf.core.hT
  constructor
  · rintro ⟨hrows, hbs, hbq⟩
    refine ⟨?_, ?_, ?_, ?_, ?_, ?_⟩
    · intro t ht
      have := hrows (r.startShutRow t) ((mem_startShutRows r _).2 (Or.inl ⟨t, by omega, rfl⟩))
      exact (startShut_bool r x t _ _ _ _ (hon _ ht) (hon _ (by omega)) (hst _ ht) (hsh _ ht)).1 this
    · intro h0
      have := hrows _ ((mem_startShutRows r _).2 (Or.inr (Or.inl rfl)))
      rw [if_pos h0] at this
      exact (firstOff_bool r x _ _ (hon 0 hT) (hst 0 hT)).1 this
    · intro h0
      have := hrows _ ((mem_startShutRows r _).2 (Or.inr (Or.inl rfl)))
      rw [if_neg h0] at this
      exact (firstRunning_bool r x _ _ (hon 0 hT) (hsh 0 hT)).1 this
    · intro t ht
      have := hrows (r.overlapRow t) ((mem_startShutRows r _).2 (Or.inr (Or.inr ⟨t, by omega, rfl⟩)))
      exact (overlap_bool r x t _ _ (hst _ (by omega)) (hsh _ (by omega))).1 this
    · intro h0
      have := hbq 0 hT
      rw [lowerP_shut hwf 0 hT, upperP_shut hwf 0 hT, hsh 0 hT, b2r_bounds] at this
      exact this ⟨h0, rfl⟩
    · intro h0
      have := hbs 0 hT
      rw [lowerP_start hwf 0 hT, upperP_start hwf 0 hT, hst 0 hT, b2r_bounds] at this
      exact this ⟨h0, rfl⟩
  · rintro ⟨hE, hF0, hF1, hO, hB0, hB1⟩
    refine ⟨?_, ?_, ?_⟩
    · intro row hrow
      rcases (mem_startShutRows r row).1 hrow with ⟨t, ht, rfl⟩ | rfl | ⟨t, ht, rfl⟩
      · exact (startShut_bool r x t _ _ _ _ (hon _ (by omega)) (hon _ (by omega)) (hst _ (by omega)) (hsh _ (by omega))).2
          (hE t (by omega))
      · by_cases h0 : r.core.tar = 0
        · rw [if_pos h0]; exact (firstOff_bool r x _ _ (hon 0 hT) (hst 0 hT)).2 (hF0 h0)
        · rw [if_neg h0]; exact (firstRunning_bool r x _ _ (hon 0 hT) (hsh 0 hT)).2 (hF1 h0)
      · exact (overlap_bool r x t _ _ (hst _ (by omega)) (hsh _ (by omega))).2 (hO t (by omega))
    · intro t ht
      rw [lowerP_start hwf t ht, upperP_start hwf t ht, hst t ht, b2r_bounds]
      rintro ⟨h0, rfl⟩; exact hB1 h0
    · intro t ht
      rw [lowerP_shut hwf t ht, upperP_shut hwf t ht, hsh t ht, b2r_bounds]
      rintro ⟨h0, rfl⟩; exact hB0 h0

end

/-! ### the admissible on/off patterns -/

/-- the pattern `on` (as 0/1 values of the on variables) extends to a 0/1 assignment of the start AND shutdown
    variables that satisfies the generated start / shutdown definition rows, exclusion rows, min-runtime and
    min-downtime rows and the bounds of the on, start and shutdown variables (which carry the initial state) -/
def CommitFeasibleP (r : CHPRP) (on : List Bool) : Prop :=
  ∃ x : Vec,
    (∀ t, t < r.core.T → x (r.core.layout.on t) = b2r (on.getD t false)) ∧
    (∀ t, t < r.core.T → x (r.core.layout.start t) = 0 ∨ x (r.core.layout.start t) = 1) ∧
    (∀ t, t < r.core.T → x (r.shut t) = 0 ∨ x (r.shut t) = 1) ∧
    (∀ row ∈ commitRowsP r, row.Sat x) ∧
    (∀ t, t < r.core.T → r.lower.getD (r.core.layout.on t) 0 ≤ x (r.core.layout.on t) ∧
        x (r.core.layout.on t) ≤ r.upper.getD (r.core.layout.on t) 0) ∧
    (∀ t, t < r.core.T → r.lower.getD (r.core.layout.start t) 0 ≤ x (r.core.layout.start t) ∧
        x (r.core.layout.start t) ≤ r.upper.getD (r.core.layout.start t) 0) ∧
    (∀ t, t < r.core.T → r.lower.getD (r.shut t) 0 ≤ x (r.shut t) ∧ x (r.shut t) ≤ r.upper.getD (r.shut t) 0)

theorem b2r_of_01 (v : Rat) (h : v = 0 ∨ v = 1) : v = b2r (decide (v = 1)) := by
  rcases h with h | h <;> subst h <;> simp [b2r]

theorem flagOK_start (p : UCP) (T : Nat) (on st sh : Nat → Bool) (h : ∀ t, t < T → FlagOK p T on st sh t) :
    (∀ t, t + 1 < T → on (t+1) = true → on t = false → st (t+1) = true) ∧ (p.tar = 0 → st 0 = on 0) := by
  constructor
  · intro t ht h1 h0
    rcases h (t+1) ht with ⟨e, _⟩ | ⟨_, _, _, e, _⟩
    · rw [e]; simp [startOf, h1, h0]
    · exact e
  · intro h0
    by_cases hT : 0 < T
    · rcases h 0 hT with ⟨e, _⟩ | ⟨e, _⟩
      · rw [e]; simp [startOf, h0]
      · omega
    · sorry

theorem commit_feasibleP_imp_spec (r : CHPRP) (hwf : CommitWFP r) (on : List Bool) (hlen : on.length = r.core.T) :
    CommitFeasibleP r on → MinUpDown (ucp r.core) on := by
  rintro ⟨x, hon, hs01, hq01, hrows, hbon, hbst, hbsh⟩
  unfold MinUpDown; rw [hlen]
  have hT := hwf.core.hT
  have hon' : ∀ t, t < r.core.T → x (r.core.layout.on t) = b2r (fn on t) := hon
  let stf : Nat → Bool := fun t => decide (x (r.core.layout.start t) = 1)
  let shf : Nat → Bool := fun t => decide (x (r.shut t) = 1)
  have hst : ∀ t, t < r.core.T → x (r.core.layout.start t) = b2r (stf t) := fun t ht => b2r_of_01 _ (hs01 t ht)
  have hsh : ∀ t, t < r.core.T → x (r.shut t) = b2r (shf t) := fun t ht => b2r_of_01 _ (hq01 t ht)
  have hrowsF : ∀ row ∈ r.startShutRows, row.Sat x := fun row h => hrows row (by simp [commitRowsP, h])
  have hrowsR : ∀ row ∈ r.core.runtimeRows, row.Sat x := fun row h => hrows row (by simp [commitRowsP, h])
  have hrowsD : ∀ row ∈ r.core.downtimeRows, row.Sat x := fun row h => hrows row (by simp [commitRowsP, h])
  have hF := (P_flags r x (fn on) stf shf hwf hon' hst hsh).1 ⟨hrowsF, hbst, hbsh⟩
  have hOK := (flagsF_iff (ucp r.core) r.core.T (fn on) stf shf hT).1 hF
  obtain ⟨c1, c2⟩ := flagOK_start (ucp r.core) r.core.T (fn on) stf shf hOK
  have c3 := (CHPCommit.P_run r.core x (fn on) stf hwf.hst hon' hst).1 hrowsR
  obtain ⟨c6, c7⟩ := (CHPCommit.P_down r.core x (fn on) hon').1 hrowsD
  have hbon' : ∀ t, t < r.core.T → r.core.lower.getD (r.core.layout.on t) 0 ≤ x (r.core.layout.on t) ∧
      x (r.core.layout.on t) ≤ r.core.upper.getD (r.core.layout.on t) 0 := by
    intro t ht
    have := hbon t ht
    rwa [lowerP_on hwf t ht, upperP_on hwf t ht] at this
  obtain ⟨c4, c8⟩ := (CHPCommit.P_bon r.core x (fn on) hwf.core hwf.hon hon').1 hbon'
  exact rowsF_imp_specF (ucp r.core) r.core.T (fn on) stf ⟨c1, c2, c3, c4, c6, c7, c8⟩

theorem spec_imp_commit_feasibleP (r : CHPRP) (hwf : CommitWFP r) (on : List Bool) (hlen : on.length = r.core.T) :
    MinUpDown (ucp r.core) on → CommitFeasibleP r on := by
  intro h
  unfold MinUpDown at h; rw [hlen] at h
  have hT := hwf.core.hT
  obtain ⟨c1, c2, c3, c4, c6, c7, c8⟩ := specF_imp_rowsF (ucp r.core) r.core.T (fn on) h
  let stf := startOf (ucp r.core) r.core.T (fn on)
  let shf := shutOf (ucp r.core) (fn on)
  let o := r.core.layout.onIdx
  let T := r.core.T
  let x : Vec := fun j =>
    if j < o + T then b2r (fn on (j - o))
    else if j < o + T + T then b2r (stf (j - o - T)) else b2r (shf (j - o - T - T))
  have hon : ∀ t, t < r.core.T → x (r.core.layout.on t) = b2r (fn on t) := by
    intro t ht
    have e1 : r.core.layout.on t = o + t := rfl
    rw [e1]
    show (if o + t < o + T then b2r (fn on (o + t - o)) else _) = _
    rw [if_pos (by omega), Nat.add_sub_cancel_left]
  have hst : ∀ t, t < r.core.T → x (r.core.layout.start t) = b2r (stf t) := by
    intro t ht
    have e2 : r.core.layout.start t = o + T + t := rfl
    rw [e2]
    show (if o + T + t < o + T then _
      else if o + T + t < o + T + T then b2r (stf (o + T + t - o - T)) else _) = _
    rw [if_neg (by omega), if_pos (by omega)]
    have : o + T + t - o - T = t := by omega
    rw [this]
  have hsh : ∀ t, t < r.core.T → x (r.shut t) = b2r (shf t) := by
    intro t ht
    have e3 : r.shut t = o + T + T + t := rfl
    rw [e3]
    show (if o + T + T + t < o + T then _
      else if o + T + T + t < o + T + T then _ else b2r (shf (o + T + T + t - o - T - T))) = _
    rw [if_neg (by omega), if_neg (by omega)]
    have : o + T + T + t - o - T - T = t := by omega
    rw [this]
  have hOK : ∀ t, t < r.core.T → FlagOK (ucp r.core) r.core.T (fn on) stf shf t := fun t _ => Or.inl ⟨rfl, rfl⟩
  have hF := (flagsF_iff (ucp r.core) r.core.T (fn on) stf shf hT).2 hOK
  obtain ⟨hrowsF, hbst, hbsh⟩ := (P_flags r x (fn on) stf shf hwf hon hst hsh).2 hF
  refine ⟨x, hon, ?_, ?_, ?_, ?_, hbst, hbsh⟩
  · intro t ht; rw [hst t ht]; exact CHPCommit.b2r_cases _
  · intro t ht; rw [hsh t ht]; exact CHPCommit.b2r_cases _
  · intro row hrow
    simp only [commitRowsP, List.mem_append] at hrow
    rcases hrow with (hrow | hrow) | hrow
    · exact hrowsF row hrow
    · exact (CHPCommit.P_run r.core x (fn on) stf hwf.hst hon hst).2 c3 row hrow
    · exact (CHPCommit.P_down r.core x (fn on) hon).2 ⟨c6, c7⟩ row hrow
  · intro t ht
    rw [lowerP_on hwf t ht, upperP_on hwf t ht]
    exact (CHPCommit.P_bon r.core x (fn on) hwf.core hwf.hon hon).2 ⟨c4, c8⟩ t ht

theorem commit_rows_iff_spec_prof (r : CHPRP) (hwf : CommitWFP r) (on : List Bool) (hlen : on.length = r.core.T) :
    CommitFeasibleP r on ↔ MinUpDown (ucp r.core) on :=
  ⟨commit_feasibleP_imp_spec r hwf on hlen, spec_imp_commit_feasibleP r hwf on hlen⟩

end EAO.CHPProfCommit
