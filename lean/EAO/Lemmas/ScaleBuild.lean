import EAO.Lemmas.Contract
import EAO.Lemmas.Scaled
import EAO.Lemmas.Storage
import EAO.Lemmas.StorageUnit
/-! helper definitions and lemmas for C16 per builder (`EAO/Properties/C16Builders.lean`): "all capacities times `k`"
    commutes with the LP builders of `EAO/Model/Contract.lean` and `EAO/Model/Storage.lean`.

    * `scaleProblemCaps k a` — the finished problem `a` with every right-hand side and the bounds of every capacity
      variable (`dispVars a.mapping`) multiplied by `k`: the problem whose feasible set is
      `EAO.C16.RescaledBaseFeasible a k`, i.e. what `EAO.C16.scaled_fixed` identifies a scaled asset at fixed scale with.
    * `scaleAll k a` — the same with ALL bounds multiplied by `k`; equal to `scaleProblemCaps k a` when every variable
      is a capacity variable (`FullCap`), which is what the LP builders produce.
    * `ContractP.capsTimes`, `TransportP.capsTimes`, `StorageP.capsTimes` — the parameter sets with every capacity
      (and take volume / size / levels / inflow) multiplied by `k`. -/
namespace EAO

/-- a take period with its volume multiplied by `k` -/
def scaleTake (k : Rat) (tk : Take) : Take := (tk.1, tk.2.1, tk.2.2 * k)

/-- every capacity of a contract times `k`: `min_cap`, `max_cap` (scalar, array or interval data; a key into the
    price data is left alone — see `ParamValue.scale`) and the volumes of `min_take`, `max_take` -/
def ContractP.capsTimes (k : Rat) (p : ContractP) : ContractP :=
  { p with minCap := p.minCap.scale k, maxCap := p.maxCap.scale k,
           minTake := p.minTake.map (scaleTake k), maxTake := p.maxTake.map (scaleTake k) }

/-- every capacity of a transport times `k`: `min_cap`, `max_cap` and the volumes of `min_take`, `max_take` -/
def TransportP.capsTimes (k : Rat) (p : TransportP) : TransportP :=
  { p with minCap := p.minCap * k, maxCap := p.maxCap * k,
           minTake := p.minTake.map (scaleTake k), maxTake := p.maxTake.map (scaleTake k) }

/-- every capacity of a storage times `k`: `size`, `start_level`, `end_level`, `inflow`, `cap_in`, `cap_out`
    (costs, efficiency, price, options, block positions untouched) -/
def StorageP.capsTimes (k : Rat) (p : StorageP) : StorageP :=
  { p with size := p.size * k, capIn := p.capIn * k, capOut := p.capOut * k,
           startLevel := p.startLevel * k, endLevel := p.endLevel * k, inflow := p.inflow * k }

end EAO

namespace EAO.ScaleBuild
open EAO EAO.Scaled

/-- the finished problem with "all capacities times `k`": right-hand sides times `k`, bounds of the capacity
    variables (`dispVars`: a mapping row of type 'd' or a non-boolean one of type 'i') times `k`; costs, mapping,
    the bounds of all other variables and the row coefficients unchanged -/
def scaleProblemCaps (k : Rat) (a : AssetProblem) : AssetProblem :=
  { a with l := mapAt (dispVars a.mapping) (· * k) a.l,
           u := mapAt (dispVars a.mapping) (· * k) a.u,
           rows := a.rows.map (scaleRhs k) }

/-- all bounds and right-hand sides times `k` -/
def scaleAll (k : Rat) (a : AssetProblem) : AssetProblem :=
  { a with l := a.l.map (· * k), u := a.u.map (· * k), rows := a.rows.map (scaleRhs k) }

/-- every variable of the problem is a capacity variable -/
def FullCap (a : AssetProblem) : Prop := ∀ j, j < a.n → j ∈ dispVars a.mapping

/-! ### `mapAt` -/

theorem mapAt_eq_map (I : List Nat) (f : Rat → Rat) (v : List Rat) (h : ∀ j, j < v.length → j ∈ I) :
    mapAt I f v = v.map f := by
  apply List.ext_getElem (by simp [mapAt_length])
  intro j h1 h2
  have hj : j < v.length := by simpa using h2
  have hc : j ∈ I := h j hj
  simp [mapAt, hc]

theorem scaleAll_eq_caps (k : Rat) (a : AssetProblem) (hl : a.l.length = a.n) (hu : a.u.length = a.n)
    (hf : FullCap a) : scaleAll k a = scaleProblemCaps k a := by
  unfold scaleAll scaleProblemCaps
  rw [mapAt_eq_map _ _ a.l (fun j hj => hf j (hl ▸ hj)), mapAt_eq_map _ _ a.u (fun j hj => hf j (hu ▸ hj))]

@[simp] theorem scaleAll_c (k : Rat) (a : AssetProblem) : (scaleAll k a).c = a.c := rfl
@[simp] theorem scaleAll_mapping (k : Rat) (a : AssetProblem) : (scaleAll k a).mapping = a.mapping := rfl
@[simp] theorem scaleAll_rows (k : Rat) (a : AssetProblem) : (scaleAll k a).rows = a.rows.map (scaleRhs k) := rfl
@[simp] theorem scaleAll_name (k : Rat) (a : AssetProblem) : (scaleAll k a).name = a.name := rfl
@[simp] theorem scaleAll_nodes (k : Rat) (a : AssetProblem) : (scaleAll k a).nodes = a.nodes := rfl
@[simp] theorem scaleCaps_c (k : Rat) (a : AssetProblem) : (scaleProblemCaps k a).c = a.c := rfl
@[simp] theorem scaleCaps_n (k : Rat) (a : AssetProblem) : (scaleProblemCaps k a).n = a.n := rfl
@[simp] theorem scaleCaps_mapping (k : Rat) (a : AssetProblem) : (scaleProblemCaps k a).mapping = a.mapping := rfl
@[simp] theorem scaleCaps_rows (k : Rat) (a : AssetProblem) :
    (scaleProblemCaps k a).rows = a.rows.map (scaleRhs k) := rfl
@[simp] theorem scaleCaps_l_length (k : Rat) (a : AssetProblem) : (scaleProblemCaps k a).l.length = a.l.length := by
  simp [scaleProblemCaps, mapAt_length]
@[simp] theorem scaleCaps_u_length (k : Rat) (a : AssetProblem) : (scaleProblemCaps k a).u.length = a.u.length := by
  simp [scaleProblemCaps, mapAt_length]

/-! ### vectors of a contract under `capsTimes` -/

abbrev scO (k : Rat) : List (Option Rat) → List (Option Rat) := List.map (Option.map (· * k))

theorem timesDt_scale (k : Rat) (base : List (Option Rat)) (g : Grid) :
    timesDt (scO k base) g = scO k (timesDt base g) := by
  simp only [timesDt, scO, List.zip_map_left, List.map_map]
  apply List.map_congr_left
  intro pa _
  cases h : pa.1 with
  | none => simp [Function.comp, Prod.map, h]
  | some x =>
    simp only [Function.comp, Prod.map, h, Option.map_some, Option.some.injEq, id]
    grind

/-- capacities given as scalar, array or interval data: the vector in volume per step is multiplied by `k` -/
theorem makeVector_scale (k : Rat) {v : ParamValue} (hv : v.isKey = false) (g : Grid) (prices : Prices) :
    makeVector (v.scale k) g prices none true = (makeVector v g prices none true).map (scO k) := by
  unfold makeVector
  rw [baseVector_scale _ hv]
  cases baseVector v g prices none with
  | error e => rfl
  | ok base =>
    simp only [Except.map, bind, Except.bind, pure, Except.pure, if_true]
    rw [← timesDt_scale]

theorem mul_lt_mul_pos_iff (a b k : Rat) (hk : 0 < k) : a * k < b * k ↔ a < b :=
  Rat.mul_lt_mul_right hk

theorem anyGt_scale {k : Rat} (hk : 0 < k) (a b : List (Option Rat)) :
    anyGt (scO k a) (scO k b) = anyGt a b := by
  unfold anyGt scO
  rw [List.zip_map, List.any_map]
  congr 1
  funext pa
  obtain ⟨x, y⟩ := pa
  cases x <;> cases y <;> simp [Function.comp, Prod.map]
  exact mul_lt_mul_pos_iff _ _ k hk

theorem allSome_scale (k : Rat) (xs : List (Option Rat)) :
    allSome (scO k xs) = (allSome xs).map (List.map (· * k)) := by
  unfold allSome scO
  have h1 : (xs.map (Option.map (· * k))).all Option.isSome = xs.all Option.isSome := by
    rw [List.all_map]; congr 1; funext o; cases o <;> rfl
  rw [h1]
  split
  · simp only [pure, Except.pure, Except.map, List.map_map]
    congr 1
    apply List.map_congr_left
    intro o _
    cases o <;> simp [Function.comp, Rat.zero_mul]
  · rfl

theorem mul_nonpos_iff_pos (v k : Rat) (hk : 0 < k) : v * k ≤ 0 ↔ v ≤ 0 := by
  have := mul_le_mul_pos_iff v 0 k hk
  rwa [Rat.zero_mul] at this

theorem mul_nonneg_iff_pos (v k : Rat) (hk : 0 < k) : 0 ≤ v * k ↔ 0 ≤ v := by
  have := mul_le_mul_pos_iff 0 v k hk
  rwa [Rat.zero_mul] at this

theorem all_nonpos_scale {k : Rat} (hk : 0 < k) (xs : List Rat) :
    (xs.map (· * k)).all (fun v => decide (v ≤ 0)) = xs.all (fun v => decide (v ≤ 0)) := by
  rw [List.all_map]; congr 1; funext v
  simp only [Function.comp]
  exact decide_eq_decide.mpr (mul_nonpos_iff_pos v k hk)

theorem all_nonneg_scale {k : Rat} (hk : 0 < k) (xs : List Rat) :
    (xs.map (· * k)).all (fun v => decide (0 ≤ v)) = xs.all (fun v => decide (0 ≤ v)) := by
  rw [List.all_map]; congr 1; funext v
  simp only [Function.comp]
  exact decide_eq_decide.mpr (mul_nonneg_iff_pos v k hk)

/-- the decision between one and two variables per step looks at the SIGNS of the capacities only -/
theorem oneVariable_scale {k : Rat} (hk : 0 < k) (ec minC maxC : List Rat) :
    oneVariable ec (minC.map (· * k)) (maxC.map (· * k)) = oneVariable ec minC maxC := by
  unfold oneVariable
  rw [all_nonpos_scale hk, all_nonneg_scale hk]

theorem oneVarPrice_scale {k : Rat} (hk : 0 < k) (price ec minC maxC : List Rat) :
    oneVarPrice price ec (minC.map (· * k)) (maxC.map (· * k)) = oneVarPrice price ec minC maxC := by
  unfold oneVarPrice
  rw [all_nonpos_scale hk, all_nonneg_scale hk]

theorem rmin_scale {k : Rat} (hk : 0 ≤ k) (v : Rat) : rmin 0 (v * k) = rmin 0 v * k := by
  unfold rmin
  by_cases h : (0 : Rat) ≤ v
  · have : 0 ≤ v * k := Rat.mul_nonneg h hk
    simp only [h, this, if_true, Rat.zero_mul]
  · by_cases h2 : (0 : Rat) ≤ v * k
    · have hv : v ≤ 0 := by grind
      have := Rat.mul_le_mul_of_nonneg_right hv hk
      rw [Rat.zero_mul] at this
      simp only [h, h2, if_true, if_false]
      grind
    · simp only [h, h2, if_false]

theorem rmax_scale {k : Rat} (hk : 0 ≤ k) (v : Rat) : rmax 0 (v * k) = rmax 0 v * k := by
  unfold rmax
  by_cases h : (0 : Rat) ≤ v
  · have : 0 ≤ v * k := Rat.mul_nonneg h hk
    simp only [h, this, if_true]
  · by_cases h2 : (0 : Rat) ≤ v * k
    · have hv : v ≤ 0 := by grind
      have := Rat.mul_le_mul_of_nonneg_right hv hk
      rw [Rat.zero_mul] at this
      simp only [h, h2, if_true, if_false, Rat.zero_mul]
      grind
    · simp only [h, h2, if_false, Rat.zero_mul]

theorem scalarIllPosed_scale {k : Rat} (hk : 0 < k) (a b : ParamValue) :
    scalarIllPosed (a.scale k) (b.scale k) = scalarIllPosed a b := by
  cases a <;> cases b <;> simp [ParamValue.scale, scalarIllPosed]
  exact Rat.mul_lt_mul_right hk

theorem contractVectors_caps {k : Rat} (hk : 0 < k) (p : ContractP) (hmin : p.minCap.isKey = false)
    (hmax : p.maxCap.isKey = false) (g : Grid) (prices : Prices) :
    contractVectors (p.capsTimes k) g prices
      = (contractVectors p g prices).map (fun v => (scO k v.1, scO k v.2.1, v.2.2)) := by
  unfold contractVectors
  simp only [ContractP.capsTimes, makeVector_scale k hmin, makeVector_scale k hmax]
  cases makeVector p.maxCap g prices none true with
  | error e => rfl
  | ok maxO =>
    cases makeVector p.minCap g prices none true with
    | error e => rfl
    | ok minO =>
      simp only [Except.map, bind, Except.bind, pure, Except.pure, anyGt_scale hk]
      split
      · rfl
      · cases makeVector p.extraCosts g prices (some 0) false <;> rfl

/-! ### the simple contract -/

theorem map_rmin_scale {k : Rat} (hk : 0 ≤ k) (xs : List Rat) :
    (xs.map (· * k)).map (rmin 0) = (xs.map (rmin 0)).map (· * k) := by
  simp only [List.map_map]
  apply List.map_congr_left
  intro v _
  exact rmin_scale hk v

theorem map_rmax_scale {k : Rat} (hk : 0 ≤ k) (xs : List Rat) :
    (xs.map (· * k)).map (rmax 0) = (xs.map (rmax 0)).map (· * k) := by
  simp only [List.map_map]
  apply List.map_congr_left
  intro v _
  exact rmax_scale hk v

/-- `SimpleContract`: capacities times `k > 0` give the same problem with all bounds times `k` (it has no rows) -/
theorem simple_caps' {k : Rat} (hk : 0 < k) (p : ContractP) (hmin : p.minCap.isKey = false)
    (hmax : p.maxCap.isKey = false) (g : Grid) (prices : Prices) (fullT : Nat) :
    buildSimpleContract (p.capsTimes k) g prices fullT
      = (buildSimpleContract p g prices fullT).map (scaleAll k) := by
  have hk0 : 0 ≤ k := Rat.le_of_lt hk
  unfold buildSimpleContract
  rw [contractVectors_caps hk p hmin hmax]
  have h1 : scalarIllPosed (p.capsTimes k).minCap (p.capsTimes k).maxCap = scalarIllPosed p.minCap p.maxCap :=
    scalarIllPosed_scale hk _ _
  have h2 : (p.capsTimes k).price = p.price := rfl
  have h3 : (p.capsTimes k).nodes = p.nodes := rfl
  have h4 : (p.capsTimes k).name = p.name := rfl
  rw [h1, h2, h3, h4]
  simp only [bind, Except.bind, pure, Except.pure]
  split
  · rfl
  cases priceVector p.price g prices fullT with
  | error e => rfl
  | ok price =>
  cases contractVectors p g prices with
  | error e => rfl
  | ok v =>
  obtain ⟨minO, maxO, ecO⟩ := v
  cases hn : p.nodes with
  | nil => rfl
  | cons n rest =>
  simp only [Except.map, allSome_scale]
  cases allSome ecO with
  | error e => rfl
  | ok ec =>
  cases allSome minO with
  | error e => rfl
  | ok minC =>
  cases allSome maxO with
  | error e => rfl
  | ok maxC =>
  simp only [oneVariable_scale hk, oneVarPrice_scale hk]
  split
  · rfl
  · simp only [scaleAll, map_rmin_scale hk0, map_rmax_scale hk0, List.map_append, List.map_nil]

/-! ### take rows -/

theorem takeRow_caps (k : Rat) (kind : RowKind) (u : Nat) (g : Grid) (mapping : List MapRow) (node : Option String)
    (tk : Take) :
    takeRow kind u g mapping node (scaleTake k tk) = (takeRow kind u g mapping node tk).map (scaleRhs k) := by
  unfold takeRow
  simp only [scaleTake]
  by_cases h : (takeSel g mapping node tk.1 tk.2.1).isEmpty = true
  · simp only [h, if_true, Option.map_none]
  · simp only [h, Bool.false_eq_true, if_false, Option.map_some, scaleRhs, Option.some.injEq, Row.mk.injEq,
      and_true, true_and]
    rw [Rat.div_def, Rat.div_def]
    grind

theorem defineRestr_caps (k : Rat) (kind : RowKind) (u : Nat) (g : Grid) (mapping : List MapRow)
    (node : Option String) (takes : List Take) :
    defineRestr kind u g mapping node (takes.map (scaleTake k))
      = (defineRestr kind u g mapping node takes).map (scaleRhs k) := by
  unfold defineRestr
  rw [List.filterMap_map, List.map_filterMap]
  congr 1
  funext tk
  simp only [Function.comp, takeRow_caps]

theorem negTake_scale (k : Rat) (tk : Take) : negTake (scaleTake k tk) = scaleTake k (negTake tk) := by
  simp only [negTake, scaleTake, Prod.mk.injEq, true_and]
  grind

/-- `Contract` (take periods): capacities and take volumes times `k > 0` -/
theorem contract_caps' {k : Rat} (hk : 0 < k) (p : ContractP) (hmin : p.minCap.isKey = false)
    (hmax : p.maxCap.isKey = false) (g : Grid) (prices : Prices) (fullT u : Nat) :
    buildContract (p.capsTimes k) g prices fullT u = (buildContract p g prices fullT u).map (scaleAll k) := by
  unfold buildContract
  rw [simple_caps' hk p hmin hmax]
  cases buildSimpleContract p g prices fullT with
  | error e => rfl
  | ok a =>
    simp only [Except.map, bind, Except.bind, pure, Except.pure, ContractP.capsTimes, defineRestr_caps]
    simp only [scaleAll, List.map_append]

/-- `MultiCommodityContract` -/
theorem multi_caps' {k : Rat} (hk : 0 < k) (p : ContractP) (factors : List Rat) (hmin : p.minCap.isKey = false)
    (hmax : p.maxCap.isKey = false) (g : Grid) (prices : Prices) (fullT u : Nat) :
    buildMulti (p.capsTimes k) factors g prices fullT u
      = (buildMulti p factors g prices fullT u).map (scaleAll k) := by
  unfold buildMulti
  rw [contract_caps' hk p hmin hmax]
  have h1 : scalarIllPosed (p.capsTimes k).minCap (p.capsTimes k).maxCap = scalarIllPosed p.minCap p.maxCap :=
    scalarIllPosed_scale hk _ _
  have h3 : (p.capsTimes k).nodes = p.nodes := rfl
  rw [h1, h3]
  simp only [bind, Except.bind, pure, Except.pure]
  split
  · rfl
  split
  · rfl
  cases buildContract p g prices fullT u with
  | error e => rfl
  | ok a => rfl

/-! ### transports -/

theorem map_capTimes_dt (c k : Rat) (dt : List Rat) : dt.map (c * k * ·) = (dt.map (c * ·)).map (· * k) := by
  simp only [List.map_map]
  apply List.map_congr_left
  intro d _
  simp only [Function.comp]
  grind

/-- `Transport`: `min_cap`, `max_cap` times `k > 0` -/
theorem transport_caps' {k : Rat} (hk : 0 < k) (p : TransportP) (g : Grid) (prices : Prices) (fullT : Nat) :
    buildTransport (p.capsTimes k) g prices fullT = (buildTransport p g prices fullT).map (scaleAll k) := by
  have h2 : (p.maxCap * k < p.minCap * k) ↔ (p.maxCap < p.minCap) := Rat.mul_lt_mul_right hk
  unfold buildTransport
  have hn : (p.capsTimes k).nodes = p.nodes := rfl
  rw [hn]
  split
  · simp only [TransportP.capsTimes, map_capTimes_dt, all_nonpos_scale hk, all_nonneg_scale hk, h2,
      bind, Except.bind, pure, Except.pure]
    split
    · rfl
    split
    · rfl
    cases transportCosts p.costsKey g prices fullT with
    | error e => rfl
    | ok cts =>
      simp only []
      split
      · rfl
      · rfl
  · rfl

/-- `ExtendedTransport` -/
theorem extTransport_caps' {k : Rat} (hk : 0 < k) (p : TransportP) (g : Grid) (prices : Prices) (fullT u : Nat) :
    buildExtTransport (p.capsTimes k) g prices fullT u
      = (buildExtTransport p g prices fullT u).map (scaleAll k) := by
  unfold buildExtTransport
  rw [transport_caps' hk]
  have hn : (p.capsTimes k).nodes = p.nodes := rfl
  have e1 : (p.capsTimes k).maxTake.map negTake = (p.maxTake.map negTake).map (scaleTake k) := by
    simp only [TransportP.capsTimes, List.map_map]
    apply List.map_congr_left
    intro tk _
    exact negTake_scale k tk
  have e2 : (p.capsTimes k).minTake.map negTake = (p.minTake.map negTake).map (scaleTake k) := by
    simp only [TransportP.capsTimes, List.map_map]
    apply List.map_congr_left
    intro tk _
    exact negTake_scale k tk
  rw [hn, e1, e2]
  cases buildTransport p g prices fullT with
  | error e => rfl
  | ok a =>
    simp only [Except.map, bind, Except.bind, pure, Except.pure, defineRestr_caps]
    simp only [scaleAll, List.map_append]

end EAO.ScaleBuild
