import EAO.Lemmas.Contract
import EAO.Lemmas.Scaled
import EAO.Lemmas.Storage
import EAO.Lemmas.StorageUnit
/-! helper definitions and lemmas for C16 per builder (`EAO/Properties/C16Builders.lean`): "all capacities times `k`"
    commutes with the LP builders of `EAO/Model/Contract.lean` and `EAO/Model/Storage.lean`.

    * `scaleProblemCaps k a` — the finished problem `a` with every right-hand side and the bounds of every capacity
      variable (`dispVars a.mapping`) multiplied by `k`: the problem whose feasible set is
      `EAO.C16.RescaledBaseFeasible a k`, i.e. what `EAO.C16.scaled_fixed` identifies a scaled asset at fixed scale with.
    * `scaleAll k a` — the same with ALL bounds multiplied by `k`; equal to `scaleProblemCaps k a` when every variable
      is a capacity variable (`FullCap`), which is what the LP builders produce.
    * `ContractP.capsTimes`, `TransportP.capsTimes`, `StorageP.capsTimes` — the parameter sets with every capacity
      (and take volume / size / levels / inflow) multiplied by `k`.
    * `CapsPrices k p prices prices'` — the price data that go with it when capacities are given as keys: exactly the
      series used as capacities are multiplied by `k`; `CapsData` is what the builders need of it.
    * `ZeroBox` — all bounds zero (what the builders return at `k = 0`). -/
namespace EAO

/-- a take period with its volume multiplied by `k` -/
def scaleTake (k : Rat) (tk : Take) : Take := (tk.1, tk.2.1, tk.2.2 * k)

/-- every capacity of a contract times `k`: `min_cap`, `max_cap` (scalar, array or interval data; a key into the
    price data is left alone — see `ParamValue.scale`) and the volumes of `min_take`, `max_take` -/
def ContractP.capsTimes (k : Rat) (p : ContractP) : ContractP :=
  { p with minCap := p.minCap.scale k, maxCap := p.maxCap.scale k,
           minTake := p.minTake.map (scaleTake k), maxTake := p.maxTake.map (scaleTake k) }

/-- every capacity of a transport times `k`: `min_cap`, `max_cap` and the volumes of `min_take`, `max_take` -/
def TransportP.capsTimes (k : Rat) (p : TransportP) : TransportP :=
  { p with minCap := p.minCap * k, maxCap := p.maxCap * k,
           minTake := p.minTake.map (scaleTake k), maxTake := p.maxTake.map (scaleTake k) }

/-- every capacity of a storage times `k`: `size`, `start_level`, `end_level`, `inflow`, `cap_in`, `cap_out`
    (costs, efficiency, price, options, block positions untouched) -/
def StorageP.capsTimes (k : Rat) (p : StorageP) : StorageP :=
  { p with size := p.size * k, capIn := p.capIn * k, capOut := p.capOut * k,
           startLevel := p.startLevel * k, endLevel := p.endLevel * k, inflow := p.inflow * k }

end EAO

namespace EAO.ScaleBuild
open EAO EAO.Scaled

/-- the finished problem with "all capacities times `k`": right-hand sides times `k`, bounds of the capacity
    variables (`dispVars`: a mapping row of type 'd' or a non-boolean one of type 'i') times `k`; costs, mapping,
    the bounds of all other variables and the row coefficients unchanged -/
def scaleProblemCaps (k : Rat) (a : AssetProblem) : AssetProblem :=
  { a with l := mapAt (dispVars a.mapping) (· * k) a.l,
           u := mapAt (dispVars a.mapping) (· * k) a.u,
           rows := a.rows.map (scaleRhs k) }

/-- all bounds and right-hand sides times `k` -/
def scaleAll (k : Rat) (a : AssetProblem) : AssetProblem :=
  { a with l := a.l.map (· * k), u := a.u.map (· * k), rows := a.rows.map (scaleRhs k) }

/-- every variable of the problem is a capacity variable -/
def FullCap (a : AssetProblem) : Prop := ∀ j, j < a.n → j ∈ dispVars a.mapping

/-! ### `mapAt` -/

theorem mapAt_eq_map (I : List Nat) (f : Rat → Rat) (v : List Rat) (h : ∀ j, j < v.length → j ∈ I) :
    mapAt I f v = v.map f := by
  apply List.ext_getElem (by simp [mapAt_length])
  intro j h1 h2
  have hj : j < v.length := by simpa using h2
  have hc : j ∈ I := h j hj
  simp [mapAt, hc]

theorem scaleAll_eq_caps (k : Rat) (a : AssetProblem) (hl : a.l.length = a.n) (hu : a.u.length = a.n)
    (hf : FullCap a) : scaleAll k a = scaleProblemCaps k a := by
  unfold scaleAll scaleProblemCaps
  rw [mapAt_eq_map _ _ a.l (fun j hj => hf j (hl ▸ hj)), mapAt_eq_map _ _ a.u (fun j hj => hf j (hu ▸ hj))]

@[simp] theorem scaleAll_c (k : Rat) (a : AssetProblem) : (scaleAll k a).c = a.c := rfl
@[simp] theorem scaleAll_mapping (k : Rat) (a : AssetProblem) : (scaleAll k a).mapping = a.mapping := rfl
@[simp] theorem scaleAll_rows (k : Rat) (a : AssetProblem) : (scaleAll k a).rows = a.rows.map (scaleRhs k) := rfl
@[simp] theorem scaleAll_name (k : Rat) (a : AssetProblem) : (scaleAll k a).name = a.name := rfl
@[simp] theorem scaleAll_nodes (k : Rat) (a : AssetProblem) : (scaleAll k a).nodes = a.nodes := rfl
@[simp] theorem scaleCaps_c (k : Rat) (a : AssetProblem) : (scaleProblemCaps k a).c = a.c := rfl
@[simp] theorem scaleCaps_n (k : Rat) (a : AssetProblem) : (scaleProblemCaps k a).n = a.n := rfl
@[simp] theorem scaleCaps_mapping (k : Rat) (a : AssetProblem) : (scaleProblemCaps k a).mapping = a.mapping := rfl
@[simp] theorem scaleCaps_rows (k : Rat) (a : AssetProblem) :
    (scaleProblemCaps k a).rows = a.rows.map (scaleRhs k) := rfl
@[simp] theorem scaleCaps_l_length (k : Rat) (a : AssetProblem) : (scaleProblemCaps k a).l.length = a.l.length := by
  simp [scaleProblemCaps, mapAt_length]
@[simp] theorem scaleCaps_u_length (k : Rat) (a : AssetProblem) : (scaleProblemCaps k a).u.length = a.u.length := by
  simp [scaleProblemCaps, mapAt_length]

theorem scaleCaps_l (k : Rat) (a : AssetProblem) :
    (scaleProblemCaps k a).l = mapAt (dispVars a.mapping) (· * k) a.l := rfl
theorem scaleCaps_u (k : Rat) (a : AssetProblem) :
    (scaleProblemCaps k a).u = mapAt (dispVars a.mapping) (· * k) a.u := rfl

/-- what `EAO.C16.scaled_fixed` asks of a base problem, for a built contract / transport on a grid with steps -/
theorem builtWf_hyps {name : String} {nodes : List String} {g : Grid} {P : AssetProblem}
    (hw : BuiltWf name nodes g P) (hT : g.T ≠ 0) :
    0 < P.n ∧ P.l.length = P.n ∧ P.u.length = P.n ∧ ∀ d ∈ dispVars P.mapping, d < P.n := by
  refine ⟨?_, hw.l_len, hw.u_len, dispVars_lt P (fun m hm => (hw.map_ok m hm).1)⟩
  rcases hw.n_eq with h | h <;> omega

theorem div_pos' {s n : Rat} (hs : 0 < s) (hn : 0 < n) : 0 < s / n := by
  rw [Rat.div_def]; exact Rat.mul_pos hs (Rat.inv_pos.mpr hn)

/-! ### vectors of a contract under `capsTimes` -/

abbrev scO (k : Rat) : List (Option Rat) → List (Option Rat) := List.map (Option.map (· * k))

theorem timesDt_scale (k : Rat) (base : List (Option Rat)) (g : Grid) :
    timesDt (scO k base) g = scO k (timesDt base g) := by
  simp only [timesDt, scO, List.zip_map_left, List.map_map]
  apply List.map_congr_left
  intro pa _
  cases h : pa.1 with
  | none => simp [Function.comp, Prod.map, h]
  | some x =>
    simp only [Function.comp, Prod.map, h, Option.map_some, Option.some.injEq, id]
    grind

/-- capacities given as scalar, array or interval data: the vector in volume per step is multiplied by `k` -/
theorem makeVector_scale (k : Rat) {v : ParamValue} (hv : v.isKey = false) (g : Grid) (prices : Prices) :
    makeVector (v.scale k) g prices none true = (makeVector v g prices none true).map (scO k) := by
  unfold makeVector
  rw [baseVector_scale _ hv]
  cases baseVector v g prices none with
  | error e => rfl
  | ok base =>
    simp only [Except.map, bind, Except.bind, pure, Except.pure, if_true]
    rw [← timesDt_scale]

theorem mul_lt_mul_pos_iff (a b k : Rat) (hk : 0 < k) : a * k < b * k ↔ a < b :=
  Rat.mul_lt_mul_right hk

theorem anyGt_scale {k : Rat} (hk : 0 < k) (a b : List (Option Rat)) :
    anyGt (scO k a) (scO k b) = anyGt a b := by
  unfold anyGt scO
  rw [List.zip_map, List.any_map]
  congr 1
  funext pa
  obtain ⟨x, y⟩ := pa
  cases x <;> cases y <;> simp [Function.comp, Prod.map]
  exact mul_lt_mul_pos_iff _ _ k hk

theorem allSome_scale (k : Rat) (xs : List (Option Rat)) :
    allSome (scO k xs) = (allSome xs).map (List.map (· * k)) := by
  unfold allSome scO
  have h1 : (xs.map (Option.map (· * k))).all Option.isSome = xs.all Option.isSome := by
    rw [List.all_map]; congr 1; funext o; cases o <;> rfl
  rw [h1]
  split
  · simp only [pure, Except.pure, Except.map, List.map_map]
    congr 1
    apply List.map_congr_left
    intro o _
    cases o <;> simp [Function.comp, Rat.zero_mul]
  · rfl

theorem mul_nonpos_iff_pos (v k : Rat) (hk : 0 < k) : v * k ≤ 0 ↔ v ≤ 0 := by
  have := mul_le_mul_pos_iff v 0 k hk
  rwa [Rat.zero_mul] at this

theorem mul_nonneg_iff_pos (v k : Rat) (hk : 0 < k) : 0 ≤ v * k ↔ 0 ≤ v := by
  have := mul_le_mul_pos_iff 0 v k hk
  rwa [Rat.zero_mul] at this

theorem all_nonpos_scale {k : Rat} (hk : 0 < k) (xs : List Rat) :
    (xs.map (· * k)).all (fun v => decide (v ≤ 0)) = xs.all (fun v => decide (v ≤ 0)) := by
  rw [List.all_map]; congr 1; funext v
  simp only [Function.comp]
  exact decide_eq_decide.mpr (mul_nonpos_iff_pos v k hk)

theorem all_nonneg_scale {k : Rat} (hk : 0 < k) (xs : List Rat) :
    (xs.map (· * k)).all (fun v => decide (0 ≤ v)) = xs.all (fun v => decide (0 ≤ v)) := by
  rw [List.all_map]; congr 1; funext v
  simp only [Function.comp]
  exact decide_eq_decide.mpr (mul_nonneg_iff_pos v k hk)

/-- the decision between one and two variables per step looks at the SIGNS of the capacities only -/
theorem oneVariable_scale {k : Rat} (hk : 0 < k) (ec minC maxC : List Rat) :
    oneVariable ec (minC.map (· * k)) (maxC.map (· * k)) = oneVariable ec minC maxC := by
  unfold oneVariable
  rw [all_nonpos_scale hk, all_nonneg_scale hk]

theorem oneVarPrice_scale {k : Rat} (hk : 0 < k) (price ec minC maxC : List Rat) :
    oneVarPrice price ec (minC.map (· * k)) (maxC.map (· * k)) = oneVarPrice price ec minC maxC := by
  unfold oneVarPrice
  rw [all_nonpos_scale hk, all_nonneg_scale hk]

theorem rmin_scale {k : Rat} (hk : 0 ≤ k) (v : Rat) : rmin 0 (v * k) = rmin 0 v * k := by
  unfold rmin
  by_cases h : (0 : Rat) ≤ v
  · have : 0 ≤ v * k := Rat.mul_nonneg h hk
    simp only [h, this, if_true, Rat.zero_mul]
  · by_cases h2 : (0 : Rat) ≤ v * k
    · have hv : v ≤ 0 := by grind
      have := Rat.mul_le_mul_of_nonneg_right hv hk
      rw [Rat.zero_mul] at this
      simp only [h, h2, if_true, if_false]
      grind
    · simp only [h, h2, if_false]

theorem rmax_scale {k : Rat} (hk : 0 ≤ k) (v : Rat) : rmax 0 (v * k) = rmax 0 v * k := by
  unfold rmax
  by_cases h : (0 : Rat) ≤ v
  · have : 0 ≤ v * k := Rat.mul_nonneg h hk
    simp only [h, this, if_true]
  · by_cases h2 : (0 : Rat) ≤ v * k
    · have hv : v ≤ 0 := by grind
      have := Rat.mul_le_mul_of_nonneg_right hv hk
      rw [Rat.zero_mul] at this
      simp only [h, h2, if_true, if_false, Rat.zero_mul]
      grind
    · simp only [h, h2, if_false, Rat.zero_mul]

theorem scalarIllPosed_scale {k : Rat} (hk : 0 < k) (a b : ParamValue) :
    scalarIllPosed (a.scale k) (b.scale k) = scalarIllPosed a b := by
  cases a <;> cases b <;> simp [ParamValue.scale, scalarIllPosed]
  exact Rat.mul_lt_mul_right hk

/-- what "the price data `prices'` go with capacities times `k`" means for the builders: the capacity vectors are
    multiplied by `k`, price and extra costs are the same -/
structure CapsData (k : Rat) (p : ContractP) (g : Grid) (prices prices' : Prices) (fullT : Nat) : Prop where
  maxCap : makeVector (p.maxCap.scale k) g prices' none true = (makeVector p.maxCap g prices none true).map (scO k)
  minCap : makeVector (p.minCap.scale k) g prices' none true = (makeVector p.minCap g prices none true).map (scO k)
  extra  : makeVector p.extraCosts g prices' (some 0) false = makeVector p.extraCosts g prices (some 0) false
  price  : priceVector p.price g prices' fullT = priceVector p.price g prices fullT

/-- capacities not given as keys: the same price data will do -/
theorem capsData_self (k : Rat) (p : ContractP) (hmin : p.minCap.isKey = false) (hmax : p.maxCap.isKey = false)
    (g : Grid) (prices : Prices) (fullT : Nat) : CapsData k p g prices prices fullT :=
  ⟨makeVector_scale k hmax g prices, makeVector_scale k hmin g prices, rfl, rfl⟩

theorem contractVectors_caps {k : Rat} (hk : 0 < k) (p : ContractP) (g : Grid) (prices prices' : Prices)
    (fullT : Nat) (hd : CapsData k p g prices prices' fullT) :
    contractVectors (p.capsTimes k) g prices'
      = (contractVectors p g prices).map (fun v => (scO k v.1, scO k v.2.1, v.2.2)) := by
  unfold contractVectors
  simp only [ContractP.capsTimes, hd.maxCap, hd.minCap, hd.extra]
  cases makeVector p.maxCap g prices none true with
  | error e => rfl
  | ok maxO =>
    cases makeVector p.minCap g prices none true with
    | error e => rfl
    | ok minO =>
      simp only [Except.map, bind, Except.bind, pure, Except.pure, anyGt_scale hk]
      split
      · rfl
      · cases makeVector p.extraCosts g prices (some 0) false <;> rfl

/-! ### capacities given as keys into the price data -/

/-- price data that go with "capacities times `k`": the series used as capacities are multiplied by `k`, the price
    series and the extra-cost series are the same -/
def CapsPrices (k : Rat) (p : ContractP) (prices prices' : Prices) : Prop :=
  (∀ key, (p.minCap = .key key ∨ p.maxCap = .key key) →
      prices'.lookup key = (prices.lookup key).map (List.map (· * k))) ∧
  (∀ key, (p.price = some key ∨ p.extraCosts = .key key) → prices'.lookup key = prices.lookup key)

theorem sample_scale (k : Rat) (arr : List Rat) (is : List Nat) :
    sample (arr.map (· * k)) is = (sample arr is).map (List.map (· * k)) := by
  unfold sample
  simp only [List.length_map]
  split
  · simp only [pure, Except.pure, Except.map, List.map_map]
    congr 1
    apply List.map_congr_left
    intro i _
    exact getD_map_mul arr k i
  · rfl

theorem baseVector_prices_irrel {v : ParamValue} (hv : v.isKey = false) (g : Grid) (prices prices' : Prices)
    (d : Option Rat) : baseVector v g prices' d = baseVector v g prices d := by
  cases v with
  | key s => simp [ParamValue.isKey] at hv
  | _ => rfl

theorem baseVector_key_scale (k : Rat) (key : String) (g : Grid) (prices prices' : Prices)
    (h : prices'.lookup key = (prices.lookup key).map (List.map (· * k))) :
    baseVector (.key key) g prices' none = (baseVector (.key key) g prices none).map (scO k) := by
  unfold baseVector
  simp only [h]
  cases prices.lookup key with
  | none => rfl
  | some arr =>
    simp only [Option.map_some, sample_scale]
    cases sample arr g.idx with
    | error e => rfl
    | ok r =>
      simp only [Except.map, scO, List.map_map]
      congr 1

/-- a capacity in any form: the vector in volume per step is multiplied by `k`, provided a series used as capacity
    is multiplied by `k` -/
theorem makeVector_caps (k : Rat) (v : ParamValue) (g : Grid) (prices prices' : Prices)
    (h : ∀ key, v = .key key → prices'.lookup key = (prices.lookup key).map (List.map (· * k))) :
    makeVector (v.scale k) g prices' none true = (makeVector v g prices none true).map (scO k) := by
  by_cases hv : v.isKey = false
  · have hv' : (v.scale k).isKey = false := by cases v <;> simp_all [ParamValue.scale, ParamValue.isKey]
    have : makeVector (v.scale k) g prices' none true = makeVector (v.scale k) g prices none true := by
      unfold makeVector; rw [baseVector_prices_irrel hv']
    rw [this]
    exact makeVector_scale k hv g prices
  · cases v with
    | key s =>
      unfold makeVector
      show (do let base ← baseVector (.key s) g prices' none; if true = true then pure (timesDt base g) else pure base) = _
      rw [baseVector_key_scale k s g prices prices' (h s rfl)]
      cases baseVector (.key s) g prices none with
      | error e => rfl
      | ok base =>
        simp only [Except.map, bind, Except.bind, pure, Except.pure, if_true]
        rw [← timesDt_scale]
    | scalar _ => simp [ParamValue.isKey] at hv
    | array _ => simp [ParamValue.isKey] at hv
    | intervals _ => simp [ParamValue.isKey] at hv

theorem makeVector_prices_congr (v : ParamValue) (g : Grid) (prices prices' : Prices) (d : Option Rat) (c : Bool)
    (h : ∀ key, v = .key key → prices'.lookup key = prices.lookup key) :
    makeVector v g prices' d c = makeVector v g prices d c := by
  unfold makeVector
  have : baseVector v g prices' d = baseVector v g prices d := by
    cases v with
    | key s => unfold baseVector; simp only [h s rfl]
    | _ => rfl
  rw [this]

theorem priceVector_congr (key : Option String) (g : Grid) (prices prices' : Prices) (fullT : Nat)
    (h : ∀ s, key = some s → prices'.lookup s = prices.lookup s) :
    priceVector key g prices' fullT = priceVector key g prices fullT := by
  cases key with
  | none => rfl
  | some s => unfold priceVector; simp only [h s rfl]

theorem capsData_of_prices (k : Rat) (p : ContractP) (g : Grid) (prices prices' : Prices) (fullT : Nat)
    (h : CapsPrices k p prices prices') : CapsData k p g prices prices' fullT :=
  ⟨makeVector_caps k p.maxCap g prices prices' (fun key hk => h.1 key (Or.inr hk)),
   makeVector_caps k p.minCap g prices prices' (fun key hk => h.1 key (Or.inl hk)),
   makeVector_prices_congr p.extraCosts g prices prices' _ _ (fun key hk => h.2 key (Or.inr hk)),
   priceVector_congr p.price g prices prices' fullT (fun s hs => h.2 s (Or.inl hs))⟩

/-- capacities not given as keys: the same price data go with every `k` -/
theorem capsPrices_self (k : Rat) (p : ContractP) (hmin : p.minCap.isKey = false) (hmax : p.maxCap.isKey = false)
    (prices : Prices) : CapsPrices k p prices prices := by
  refine ⟨?_, fun _ _ => rfl⟩
  rintro key (h | h)
  · rw [h] at hmin; simp [ParamValue.isKey] at hmin
  · rw [h] at hmax; simp [ParamValue.isKey] at hmax

/-! ### the simple contract -/

theorem map_rmin_scale {k : Rat} (hk : 0 ≤ k) (xs : List Rat) :
    (xs.map (· * k)).map (rmin 0) = (xs.map (rmin 0)).map (· * k) := by
  simp only [List.map_map]
  apply List.map_congr_left
  intro v _
  exact rmin_scale hk v

theorem map_rmax_scale {k : Rat} (hk : 0 ≤ k) (xs : List Rat) :
    (xs.map (· * k)).map (rmax 0) = (xs.map (rmax 0)).map (· * k) := by
  simp only [List.map_map]
  apply List.map_congr_left
  intro v _
  exact rmax_scale hk v

/-- `SimpleContract`: capacities times `k > 0` give the same problem with all bounds times `k` (it has no rows) -/
theorem simple_caps' {k : Rat} (hk : 0 < k) (p : ContractP) (g : Grid) (prices prices' : Prices) (fullT : Nat)
    (hd : CapsData k p g prices prices' fullT) :
    buildSimpleContract (p.capsTimes k) g prices' fullT
      = (buildSimpleContract p g prices fullT).map (scaleAll k) := by
  have hk0 : 0 ≤ k := Rat.le_of_lt hk
  unfold buildSimpleContract
  rw [contractVectors_caps hk p g prices prices' fullT hd]
  have h1 : scalarIllPosed (p.capsTimes k).minCap (p.capsTimes k).maxCap = scalarIllPosed p.minCap p.maxCap :=
    scalarIllPosed_scale hk _ _
  have h2 : (p.capsTimes k).price = p.price := rfl
  have h3 : (p.capsTimes k).nodes = p.nodes := rfl
  have h4 : (p.capsTimes k).name = p.name := rfl
  rw [h1, h2, h3, h4, hd.price]
  simp only [bind, Except.bind, pure, Except.pure]
  split
  · rfl
  cases priceVector p.price g prices fullT with
  | error e => rfl
  | ok price =>
  cases contractVectors p g prices with
  | error e => rfl
  | ok v =>
  obtain ⟨minO, maxO, ecO⟩ := v
  cases hn : p.nodes with
  | nil => rfl
  | cons n rest =>
  simp only [Except.map, allSome_scale]
  cases allSome ecO with
  | error e => rfl
  | ok ec =>
  cases allSome minO with
  | error e => rfl
  | ok minC =>
  cases allSome maxO with
  | error e => rfl
  | ok maxC =>
  simp only [oneVariable_scale hk, oneVarPrice_scale hk]
  split
  · rfl
  · simp only [scaleAll, map_rmin_scale hk0, map_rmax_scale hk0, List.map_append, List.map_nil]

/-! ### take rows -/

theorem takeRow_caps (k : Rat) (kind : RowKind) (u : Nat) (g : Grid) (mapping : List MapRow) (node : Option String)
    (tk : Take) :
    takeRow kind u g mapping node (scaleTake k tk) = (takeRow kind u g mapping node tk).map (scaleRhs k) := by
  unfold takeRow
  simp only [scaleTake]
  by_cases h : (takeSel g mapping node tk.1 tk.2.1).isEmpty = true
  · simp only [h, if_true, Option.map_none]
  · simp only [h, Bool.false_eq_true, if_false, Option.map_some, scaleRhs, Option.some.injEq, Row.mk.injEq,
      and_true, true_and]
    rw [Rat.div_def, Rat.div_def]
    grind

theorem defineRestr_caps (k : Rat) (kind : RowKind) (u : Nat) (g : Grid) (mapping : List MapRow)
    (node : Option String) (takes : List Take) :
    defineRestr kind u g mapping node (takes.map (scaleTake k))
      = (defineRestr kind u g mapping node takes).map (scaleRhs k) := by
  unfold defineRestr
  rw [List.filterMap_map, List.map_filterMap]
  congr 1
  funext tk
  simp only [Function.comp, takeRow_caps]

theorem negTake_scale (k : Rat) (tk : Take) : negTake (scaleTake k tk) = scaleTake k (negTake tk) := by
  simp only [negTake, scaleTake, Prod.mk.injEq, true_and]
  grind

/-- `Contract` (take periods): capacities and take volumes times `k > 0` -/
theorem contract_caps' {k : Rat} (hk : 0 < k) (p : ContractP) (g : Grid) (prices prices' : Prices) (fullT u : Nat)
    (hd : CapsData k p g prices prices' fullT) :
    buildContract (p.capsTimes k) g prices' fullT u = (buildContract p g prices fullT u).map (scaleAll k) := by
  unfold buildContract
  rw [simple_caps' hk p g prices prices' fullT hd]
  cases buildSimpleContract p g prices fullT with
  | error e => rfl
  | ok a =>
    simp only [Except.map, bind, Except.bind, pure, Except.pure, ContractP.capsTimes, defineRestr_caps]
    simp only [scaleAll, List.map_append]

/-- `MultiCommodityContract` -/
theorem multi_caps' {k : Rat} (hk : 0 < k) (p : ContractP) (factors : List Rat) (g : Grid)
    (prices prices' : Prices) (fullT u : Nat) (hd : CapsData k p g prices prices' fullT) :
    buildMulti (p.capsTimes k) factors g prices' fullT u
      = (buildMulti p factors g prices fullT u).map (scaleAll k) := by
  unfold buildMulti
  rw [contract_caps' hk p g prices prices' fullT u hd]
  have h1 : scalarIllPosed (p.capsTimes k).minCap (p.capsTimes k).maxCap = scalarIllPosed p.minCap p.maxCap :=
    scalarIllPosed_scale hk _ _
  have h3 : (p.capsTimes k).nodes = p.nodes := rfl
  rw [h1, h3]
  simp only [bind, Except.bind, pure, Except.pure]
  split
  · rfl
  split
  · rfl
  cases buildContract p g prices fullT u with
  | error e => rfl
  | ok a => rfl

/-! ### transports -/

theorem map_capTimes_dt (c k : Rat) (dt : List Rat) : dt.map (c * k * ·) = (dt.map (c * ·)).map (· * k) := by
  simp only [List.map_map]
  apply List.map_congr_left
  intro d _
  simp only [Function.comp]
  grind

/-- `Transport`: `min_cap`, `max_cap` times `k > 0` -/
theorem transport_caps' {k : Rat} (hk : 0 < k) (p : TransportP) (g : Grid) (prices : Prices) (fullT : Nat) :
    buildTransport (p.capsTimes k) g prices fullT = (buildTransport p g prices fullT).map (scaleAll k) := by
  have h2 : (p.maxCap * k < p.minCap * k) ↔ (p.maxCap < p.minCap) := Rat.mul_lt_mul_right hk
  unfold buildTransport
  have hn : (p.capsTimes k).nodes = p.nodes := rfl
  rw [hn]
  split
  · simp only [TransportP.capsTimes, map_capTimes_dt, all_nonpos_scale hk, all_nonneg_scale hk, h2,
      bind, Except.bind, pure, Except.pure]
    split
    · rfl
    split
    · rfl
    cases transportCosts p.costsKey g prices fullT with
    | error e => rfl
    | ok cts =>
      simp only []
      split
      · rfl
      · rfl
  · rfl

/-- `ExtendedTransport` -/
theorem extTransport_caps' {k : Rat} (hk : 0 < k) (p : TransportP) (g : Grid) (prices : Prices) (fullT u : Nat) :
    buildExtTransport (p.capsTimes k) g prices fullT u
      = (buildExtTransport p g prices fullT u).map (scaleAll k) := by
  unfold buildExtTransport
  rw [transport_caps' hk]
  have hn : (p.capsTimes k).nodes = p.nodes := rfl
  have e1 : (p.capsTimes k).maxTake.map negTake = (p.maxTake.map negTake).map (scaleTake k) := by
    simp only [TransportP.capsTimes, List.map_map]
    apply List.map_congr_left
    intro tk _
    exact negTake_scale k tk
  have e2 : (p.capsTimes k).minTake.map negTake = (p.minTake.map negTake).map (scaleTake k) := by
    simp only [TransportP.capsTimes, List.map_map]
    apply List.map_congr_left
    intro tk _
    exact negTake_scale k tk
  rw [hn, e1, e2]
  cases buildTransport p g prices fullT with
  | error e => rfl
  | ok a =>
    simp only [Except.map, bind, Except.bind, pure, Except.pure, defineRestr_caps]
    simp only [scaleAll, List.map_append]

/-! ### every variable of a built contract / transport is a capacity variable -/

theorem dispRow_mem_dispBlock (asset node varName : String) (off : Nat) (g : Grid) (i : Nat) (hi : i < g.idx.length) :
    dispRow asset node varName (off + i) (g.idx[i]) ∈ dispBlock asset node varName off g := by
  simp only [dispBlock, List.mem_map]
  exact ⟨(g.idx[i], i), List.mk_mem_zipIdx_iff_getElem?.mpr (by simp [hi]), rfl⟩

theorem trRow_mem_transportBlock (asset node : String) (f : Rat) (g : Grid) (i : Nat) (hi : i < g.idx.length) :
    trRow asset node f i (g.idx[i]) ∈ transportBlock asset node f g := by
  simp only [transportBlock, List.mem_map]
  exact ⟨(g.idx[i], i), List.mk_mem_zipIdx_iff_getElem?.mpr (by simp [hi]), rfl⟩

theorem fullCap_scOne {p : ContractP} {g : Grid} {d : SCData} (hg : g.Ok)
    (hl : d.price.length = g.T ∧ d.ec.length = g.T ∧ d.minC.length = g.T ∧ d.maxC.length = g.T) :
    FullCap (scOne p g d) := by
  have hc : (scOne p g d).n = g.T := by
    simp [scOne, AssetProblem.n, oneVarPrice_length hl.1 hl.2.1, hg.2.2]
  intro j hj
  rw [hc, ← hg.1] at hj
  rw [mem_dispVars]
  exact ⟨dispRow p.name d.node "disp" (0 + j) (g.idx[j]), dispRow_mem_dispBlock p.name d.node "disp" 0 g j hj, rfl,
    by simp [dispRow]⟩

theorem fullCap_scTwo {p : ContractP} {g : Grid} {d : SCData} (hg : g.Ok)
    (hl : d.price.length = g.T ∧ d.ec.length = g.T ∧ d.minC.length = g.T ∧ d.maxC.length = g.T) :
    FullCap (scTwo p g d) := by
  have hc : (scTwo p g d).n = 2 * g.T := by
    simp [scTwo, AssetProblem.n, hl.1, hl.2.1, hg.2.2]; omega
  intro j hj
  rw [hc] at hj
  rw [mem_dispVars]
  by_cases h1 : j < g.T
  · have hj' : j < g.idx.length := by rw [hg.1]; exact h1
    refine ⟨dispRow p.name d.node "disp_in" (0 + j) (g.idx[j]), ?_, rfl, by simp [dispRow]⟩
    simp only [scTwo, List.mem_append]
    exact Or.inl (dispRow_mem_dispBlock p.name d.node "disp_in" 0 g j hj')
  · have hj' : j - g.T < g.idx.length := by rw [hg.1]; omega
    refine ⟨dispRow p.name d.node "disp_out" (g.T + (j - g.T)) (g.idx[j - g.T]), ?_, rfl, by simp only [dispRow]; omega⟩
    simp only [scTwo, List.mem_append]
    exact Or.inr (dispRow_mem_dispBlock p.name d.node "disp_out" g.T g (j - g.T) hj')

theorem simple_fullCap {p : ContractP} {g : Grid} {prices : Prices} {fullT : Nat} {P : AssetProblem}
    (hg : g.Ok) (h : buildSimpleContract p g prices fullT = .ok P) : FullCap P := by
  obtain ⟨d, minO, maxO, ecO, hp, hv, he, hmi, hma, _, rfl⟩ := buildSimpleContract_ok h
  have hl := scData_lengths hg hp hv he hmi hma
  split
  · exact fullCap_scOne hg hl
  · exact fullCap_scTwo hg hl

theorem contract_fullCap {p : ContractP} {g : Grid} {prices : Prices} {fullT u : Nat} {P : AssetProblem}
    (hg : g.Ok) (h : buildContract p g prices fullT u = .ok P) : FullCap P := by
  obtain ⟨a, ha, rfl⟩ := buildContract_ok h
  intro j hj
  exact simple_fullCap hg ha j hj

theorem multi_fullCap {p : ContractP} {factors : List Rat} {g : Grid} {prices : Prices} {fullT u : Nat}
    {P : AssetProblem} (hg : g.Ok) (h : buildMulti p factors g prices fullT u = .ok P) : FullCap P := by
  obtain ⟨hf, a, ha, rfl⟩ := buildMulti_ok h
  have hfc := contract_fullCap hg ha
  obtain ⟨a0, ha0, _⟩ := buildContract_ok ha
  obtain ⟨d, _, _, _, _, _, _, _, _, ⟨rest, hn⟩, _⟩ := buildSimpleContract_ok ha0
  intro j hj
  obtain ⟨m, hm, hcap, hvar⟩ := (mem_dispVars _ _).mp (hfc j hj)
  cases hfs : factors with
  | nil => rw [hfs, hn] at hf; simp at hf
  | cons f fs =>
    rw [mem_dispVars]
    refine ⟨{ m with node := some d.node, factor := m.factor * f }, ?_, hcap, hvar⟩
    simp only [List.mem_flatMap, List.mem_map]
    exact ⟨(d.node, f), by rw [hn]; simp, m, hm, rfl⟩

theorem transport_fullCap {p : TransportP} {g : Grid} {prices : Prices} {fullT : Nat} {P : AssetProblem}
    (hg : g.Ok) (h : buildTransport p g prices fullT = .ok P) : FullCap P := by
  have hw := transport_wf' hg h
  obtain ⟨n0, n1, cts, hn, _, _, hc, rfl⟩ := buildTransport_ok h
  have hlen := transportCosts_length hc
  have hn' : (trProblem p g n0 n1 cts).n = g.T := by
    simp only [AssetProblem.n, trProblem]
    split <;> simp [hlen, hg.1, hg.2.2]
  intro j hj
  rw [hn', ← hg.1] at hj
  rw [mem_dispVars]
  refine ⟨trRow p.name n0 (-1) j (g.idx[j]), ?_, rfl, by simp [trRow]⟩
  simp only [trProblem, List.mem_append]
  exact Or.inl (trRow_mem_transportBlock p.name n0 (-1) g j hj)

theorem extTransport_fullCap {p : TransportP} {g : Grid} {prices : Prices} {fullT u : Nat} {P : AssetProblem}
    (hg : g.Ok) (h : buildExtTransport p g prices fullT u = .ok P) : FullCap P := by
  obtain ⟨a, ha, rfl⟩ := buildExtTransport_ok h
  intro j hj
  exact transport_fullCap hg ha j hj

/-- on results whose variables are all capacity variables `scaleAll` is `scaleProblemCaps` -/
theorem map_scaleAll_eq (k : Rat) (r : Except BuildError AssetProblem)
    (h : ∀ P, r = .ok P → P.l.length = P.n ∧ P.u.length = P.n ∧ FullCap P) :
    r.map (scaleAll k) = r.map (scaleProblemCaps k) := by
  cases r with
  | error e => rfl
  | ok P =>
    obtain ⟨h1, h2, h3⟩ := h P rfl
    simp only [Except.map, scaleAll_eq_caps k P h1 h2 h3]

/-! ### the storage in LP form -/

section storage
open EAO.Storage
variable (k : Rat) (p : StorageP) (g : Grid)

theorem cp_caps (i : Nat) : cp (p.capsTimes k) g i = cp p g i * k := by
  simp only [cp, StorageP.capsTimes]; grind

theorem ct_caps (i : Nat) : ct (p.capsTimes k) g i = ct p g i * k := by
  simp only [ct, StorageP.capsTimes]; grind

theorem cumInfl_caps (m : Nat) : cumInfl (p.capsTimes k) g m = cumInfl p g m * k := by
  unfold cumInfl
  rw [← sumTo_mul]
  congr 1
  funext j
  simp only [infl, StorageP.capsTimes]; grind

theorem blockStart_caps (a : Nat) : blockStart (p.capsTimes k) a = blockStart p a * k := by
  unfold blockStart
  split <;> rfl

theorem upRhs_caps (a e i : Nat) : upRhs (p.capsTimes k) g a e i = upRhs p g a e i * k := by
  unfold upRhs blockInfl
  rw [cumInfl_caps, cumInfl_caps, blockStart_caps]
  simp only [StorageP.capsTimes]
  split <;> grind

theorem loRhs_caps (a e i : Nat) : loRhs (p.capsTimes k) g a e i = loRhs p g a e i * k := by
  unfold loRhs blockInfl
  rw [cumInfl_caps, cumInfl_caps, blockStart_caps]
  simp only [StorageP.capsTimes]
  split <;> grind

theorem sep_caps : sep (p.capsTimes k) = sep p := rfl
theorem hasNS_caps : hasNS (p.capsTimes k) = hasNS p := rfl
theorem nd_caps (n : Nat) : nd (p.capsTimes k) n = nd p n := rfl
theorem mHold_caps (n : Nat) : mHold (p.capsTimes k) n = mHold p n := rfl
theorem nVars_caps (n : Nat) : nVars (p.capsTimes k) n = nVars p n := rfl
theorem levelCoeffs_caps (n a i : Nat) : levelCoeffs (p.capsTimes k) n a i = levelCoeffs p n a i := rfl
theorem costVec_caps (n : Nat) (pr : Nat → Rat) : costVec (p.capsTimes k) g n pr = costVec p g n pr := rfl
theorem mapping_caps (n : Nat) : Storage.mapping (p.capsTimes k) g n = Storage.mapping p g n := rfl
theorem holdRows_caps (n : Nat) : holdRows (p.capsTimes k) g n = holdRows p g n := rfl
theorem blocksOf_caps (n : Nat) : blocksOf (p.capsTimes k) n = blocksOf p n := rfl
theorem priceVec_caps (T : Nat) (prices : Prices) : priceVec (p.capsTimes k) g T prices = priceVec p g T prices := rfl

theorem upperRow_caps (hh : p.maxStoreDuration = none) (n a e i : Nat) :
    upperRow (p.capsTimes k) g n a e i = scaleRhs k (upperRow p g n a e i) := by
  have h' : (p.capsTimes k).maxStoreDuration = none := hh
  unfold upperRow
  rw [h', hh]
  simp only [scaleRhs, upRhs_caps, levelCoeffs_caps]

theorem lowerRow_caps (n a e i : Nat) :
    lowerRow (p.capsTimes k) g n a e i = scaleRhs k (lowerRow p g n a e i) := by
  unfold lowerRow
  simp only [scaleRhs, loRhs_caps, levelCoeffs_caps]

theorem upperRows_caps (hh : p.maxStoreDuration = none) (n : Nat) (bl : List (Nat × Nat)) :
    upperRows (p.capsTimes k) g n bl = (upperRows p g n bl).map (scaleRhs k) := by
  unfold upperRows
  simp only [List.map_flatMap, List.map_map, Function.comp_def, upperRow_caps k p g hh]

theorem lowerRows_caps (n : Nat) (bl : List (Nat × Nat)) :
    lowerRows (p.capsTimes k) g n bl = (lowerRows p g n bl).map (scaleRhs k) := by
  unfold lowerRows
  simp only [List.map_flatMap, List.map_map, Function.comp_def, lowerRow_caps k p g]

theorem nVars_lp (hns : hasNS p = false) (hh : p.maxStoreDuration = none) (n : Nat) : nVars p n = nd p n := by
  simp [nVars, mHold, hns, hh]

theorem map_zero_scale {α} (l : List α) : (l.map fun _ => (0 : Rat)).map (· * k) = l.map fun _ => (0 : Rat) := by
  simp [List.map_map, Function.comp_def, Rat.zero_mul]

theorem lowerVec_caps (n : Nat) : lowerVec (p.capsTimes k) g n = (lowerVec p g n).map (· * k) := by
  unfold lowerVec
  rw [sep_caps, nVars_caps, nd_caps]
  have h1 : ((List.range n).map fun i => -(cp (p.capsTimes k) g i)) = ((List.range n).map fun i => -(cp p g i)).map (· * k) := by
    simp only [List.map_map]
    apply List.map_congr_left
    intro i _
    simp only [Function.comp, cp_caps]; grind
  rw [h1]
  split <;> simp only [List.map_append, map_zero_scale]

theorem upperVec_caps (hns : hasNS p = false) (hh : p.maxStoreDuration = none) (n : Nat) :
    upperVec (p.capsTimes k) g n = (upperVec p g n).map (· * k) := by
  unfold upperVec
  rw [sep_caps, nVars_caps, nd_caps, nVars_lp p hns hh, Nat.sub_self]
  have h1 : ((List.range n).map fun i => ct (p.capsTimes k) g i) = ((List.range n).map fun i => ct p g i).map (· * k) := by
    simp only [List.map_map]
    apply List.map_congr_left
    intro i _
    simp only [Function.comp, ct_caps]
  rw [h1]
  split <;> simp only [List.map_append, map_zero_scale, List.range_zero, List.map_nil]

theorem nsRows_lp (hns : hasNS p = false) (n : Nat) : nsRows p g n = [] := by
  simp [nsRows, hns]

theorem holdRows_lp (hh : p.maxStoreDuration = none) (n : Nat) : holdRows p g n = [] := by
  simp [holdRows, hh]

/-- `Storage` in LP form (no `no_simult_in_out` booleans, no `max_store_duration`): size, levels, inflow,
    `cap_in`, `cap_out` times ANY `k` give the same problem with all bounds and right-hand sides times `k` -/
theorem storage_caps' (hns : hasNS p = false) (hh : p.maxStoreDuration = none) (T : Nat) (prices : Prices) :
    buildStorage (p.capsTimes k) g T prices = (buildStorage p g T prices).map (scaleAll k) := by
  unfold buildStorage
  rw [priceVec_caps, blocksOf_caps]
  have hn : (p.capsTimes k).nodes = p.nodes := rfl
  have hnm : (p.capsTimes k).name = p.name := rfl
  rw [hn, hnm]
  split
  · rfl
  cases priceVec p g T prices with
  | error e => rfl
  | ok pr =>
    simp only []
    split
    · rfl
    cases blocksOf p g.T with
    | error e => rfl
    | ok bl =>
      simp only [Except.map, scaleAll, costVec_caps, lowerVec_caps, upperVec_caps k p g hns hh, mapping_caps,
        upperRows_caps k p g hh, lowerRows_caps, nsRows_lp p g hns, nsRows_lp (p.capsTimes k) g hns,
        holdRows_lp p g hh, holdRows_lp (p.capsTimes k) g hh, List.map_append, List.map_nil]

/-- every variable of an LP storage is a capacity variable, and the bounds have the right length -/
theorem storage_fullCap (hns : hasNS p = false) (hh : p.maxStoreDuration = none) {T : Nat} {prices : Prices}
    {P : AssetProblem} (h : buildStorage p g T prices = .ok P) :
    P.l.length = P.n ∧ P.u.length = P.n ∧ FullCap P := by
  by_cases hne : g.dt.length = 0
  · unfold buildStorage at h
    rw [if_pos hne] at h
    cases h
    exact ⟨rfl, rfl, fun j hj => by simp [AssetProblem.n] at hj⟩
  · obtain ⟨pr, bl, _, _, rfl⟩ := buildStorage_ok p g T prices P h hne
    have hn : (costVec p g g.T pr).length = nd p g.T := by
      simp only [costVec_length, nVars_lp p hns hh]
    refine ⟨?_, ?_, ?_⟩
    · show (lowerVec p g g.T).length = (costVec p g g.T pr).length
      rw [hn]; simp only [lowerVec_length, nVars_lp p hns hh]
    · show (upperVec p g g.T).length = (costVec p g g.T pr).length
      rw [hn]; simp only [upperVec_length, nVars_lp p hns hh]
    intro j hj
    replace hj : j < nd p g.T := by rw [← hn]; exact hj
    show j ∈ dispVars (Storage.mapping p g g.T)
    rw [mem_dispVars]
    simp only [Storage.mapping, dispMap, List.mem_append]
    unfold nd at hj
    by_cases hs : sep p = true
    · simp only [hs, if_true] at hj ⊢
      by_cases h1 : j < g.T
      · exact ⟨{ var := j, asset := p.name, node := nodeIn p, kind := .d, step := idxAt g j, factor := 1,
                 isBool := false, varName := "disp_in" },
               Or.inl (Or.inl (List.mem_append.mpr (Or.inl (List.mem_map.mpr ⟨j, List.mem_range.mpr h1, rfl⟩)))), rfl, rfl⟩
      · exact ⟨{ var := g.T + (j - g.T), asset := p.name, node := nodeOut p, kind := .d, step := idxAt g (j - g.T),
                 factor := 1, isBool := false, varName := "disp_out" },
               Or.inl (Or.inl (List.mem_append.mpr (Or.inr (List.mem_map.mpr ⟨j - g.T, List.mem_range.mpr (by omega), rfl⟩)))), rfl,
               by simp only []; omega⟩
    · simp only [hs, Bool.false_eq_true, if_false] at hj ⊢
      exact ⟨{ var := j, asset := p.name, node := nodeIn p, kind := .d, step := idxAt g j, factor := 1,
               isBool := false, varName := "disp" },
             Or.inl (Or.inl (List.mem_map.mpr ⟨j, List.mem_range.mpr hj, rfl⟩)), rfl, rfl⟩


/-- mapping rows of a built storage point at its variables; a storage on a grid with steps has variables -/
theorem storage_map_lt {T : Nat} {prices : Prices} {P : AssetProblem} (h : buildStorage p g T prices = .ok P) :
    (∀ m ∈ P.mapping, m.var < P.n) ∧ (g.dt.length ≠ 0 → g.T ≤ P.n) := by
  by_cases hne : g.dt.length = 0
  · unfold buildStorage at h
    rw [if_pos hne] at h
    cases h
    exact ⟨fun m hm => by simp at hm, fun h => absurd hne h⟩
  · obtain ⟨pr, bl, _, _, rfl⟩ := buildStorage_ok p g T prices P h hne
    have hn : (costVec p g g.T pr).length = nVars p g.T := costVec_length p g g.T pr
    refine ⟨fun m hm => ?_, fun _ => ?_⟩
    · show m.var < (costVec p g g.T pr).length
      rw [hn]
      exact (storage_mapping_wf p g g.T m hm).2.1
    · show g.T ≤ (costVec p g g.T pr).length
      rw [hn]
      have := nd_le_nVars p g.T
      unfold nd at this
      split at this <;> omega

/-- the constructor guards survive a multiplication of the capacities by `k ≥ 0`, and for `k > 0` they hold
    for the scaled storage iff they hold for the original -/
theorem guards_caps_of_nonneg (hk : 0 ≤ k) (h : p.guards = true) : (p.capsTimes k).guards = true := by
  unfold StorageP.guards at h ⊢
  simp only [Bool.and_eq_true, decide_eq_true_eq] at h ⊢
  obtain ⟨⟨⟨h1, h2⟩, h3⟩, h4⟩ := h
  exact ⟨⟨⟨Rat.mul_le_mul_of_nonneg_right h1 hk, Rat.mul_nonneg h2 hk⟩, Rat.mul_nonneg h3 hk⟩, h4⟩

theorem guards_caps (hk : 0 < k) : (p.capsTimes k).guards = p.guards := by
  show (decide (p.startLevel * k ≤ p.size * k) && decide (0 ≤ p.capIn * k) && decide (0 ≤ p.capOut * k)
      && decide (p.nodes.length ≤ 2)) = p.guards
  rw [decide_eq_decide.mpr (mul_le_mul_pos_iff p.startLevel p.size k hk),
      decide_eq_decide.mpr (mul_nonneg_iff_pos p.capIn k hk), decide_eq_decide.mpr (mul_nonneg_iff_pos p.capOut k hk)]
  rfl

end storage

/-! ### `k = 0`: all capacities zero -/

/-- all bounds are zero -/
def ZeroBox (a : AssetProblem) : Prop := (∀ v ∈ a.l, v = 0) ∧ (∀ v ∈ a.u, v = 0)

theorem getD_of_all_zero (l : List Rat) (h : ∀ v ∈ l, v = 0) (j : Nat) : l.getD j 0 = 0 := by
  rw [List.getD_eq_getElem?_getD]
  cases hj : l[j]? with
  | none => rfl
  | some v => exact h v (List.mem_of_getElem? hj)

theorem zeroBox_point {a : AssetProblem} (hz : ZeroBox a) {x : Vec} (hx : InBounds a.l a.u x) :
    ∀ j, j < a.l.length → x j = 0 := by
  intro j hj
  have := hx j hj
  rw [getD_of_all_zero a.l hz.1, getD_of_all_zero a.u hz.2] at this
  grind

theorem costAt_zero (c : List Rat) (off : Nat) (x : Vec) (h : ∀ j, j < c.length → x (off + j) = 0) :
    costAt c off x = 0 := by
  induction c generalizing off with
  | nil => simp
  | cons a cs ih =>
    rw [costAt_cons, ih (off + 1) (fun j hj => by
      have := h (j + 1) (by simp; omega)
      rwa [show off + (j + 1) = off + 1 + j by omega] at this)]
    have := h 0 (by simp)
    rw [Nat.add_zero] at this
    rw [this]; grind

theorem allSome_scO_zero {xs : List (Option Rat)} {ys : List Rat} (h : allSome (scO 0 xs) = .ok ys) :
    ∀ v ∈ ys, v = 0 := by
  rw [allSome_scale] at h
  cases ha : allSome xs with
  | error e => rw [ha] at h; cases h
  | ok zs =>
    rw [ha] at h
    simp only [Except.map] at h
    injection h with h
    subst h
    intro v hv
    obtain ⟨z, _, rfl⟩ := List.mem_map.mp hv
    exact Rat.mul_zero z

theorem makeVector_scale_zero {v : ParamValue} (hv : v.isKey = false) {g : Grid} {prices : Prices}
    {xs : List (Option Rat)} (h : makeVector (v.scale 0) g prices none true = .ok xs) : ∃ ys, xs = scO 0 ys := by
  rw [makeVector_scale 0 hv] at h
  cases hm : makeVector v g prices none true with
  | error e => rw [hm] at h; cases h
  | ok ys =>
    rw [hm] at h
    simp only [Except.map] at h
    injection h with h
    exact ⟨ys, h.symm⟩

theorem rmin_zero : rmin 0 0 = 0 := by decide +kernel
theorem rmax_zero : rmax 0 0 = 0 := by decide +kernel

/-- a simple contract with all capacities zero: all bounds zero (whatever form it takes) -/
theorem simple_zeroBox {p : ContractP} (hmin : p.minCap.isKey = false) (hmax : p.maxCap.isKey = false) {g : Grid}
    {prices : Prices} {fullT : Nat} {P : AssetProblem}
    (h : buildSimpleContract (p.capsTimes 0) g prices fullT = .ok P) : ZeroBox P := by
  obtain ⟨d, minO, maxO, ecO, _, hv, _, hmi, hma, _, rfl⟩ := buildSimpleContract_ok h
  obtain ⟨h1, h2, _, _⟩ := contractVectors_ok hv
  obtain ⟨y1, rfl⟩ := makeVector_scale_zero hmax h1
  obtain ⟨y2, rfl⟩ := makeVector_scale_zero hmin h2
  have z1 := allSome_scO_zero hma
  have z2 := allSome_scO_zero hmi
  split
  · exact ⟨z2, z1⟩
  · constructor
    · intro v hv
      simp only [scTwo, List.mem_append, List.mem_map] at hv
      rcases hv with ⟨w, hw, rfl⟩ | ⟨w, hw, rfl⟩
      · rw [z2 w hw]; exact rmin_zero
      · rw [z2 w hw]; exact rmax_zero
    · intro v hv
      simp only [scTwo, List.mem_append, List.mem_map] at hv
      rcases hv with ⟨w, hw, rfl⟩ | ⟨w, hw, rfl⟩
      · rw [z1 w hw]; exact rmin_zero
      · rw [z1 w hw]; exact rmax_zero

theorem contract_zeroBox {p : ContractP} (hmin : p.minCap.isKey = false) (hmax : p.maxCap.isKey = false) {g : Grid}
    {prices : Prices} {fullT u : Nat} {P : AssetProblem}
    (h : buildContract (p.capsTimes 0) g prices fullT u = .ok P) : ZeroBox P := by
  obtain ⟨a, ha, rfl⟩ := buildContract_ok h
  exact (simple_zeroBox hmin hmax ha : ZeroBox a)

theorem multi_zeroBox {p : ContractP} {factors : List Rat} (hmin : p.minCap.isKey = false)
    (hmax : p.maxCap.isKey = false) {g : Grid} {prices : Prices} {fullT u : Nat} {P : AssetProblem}
    (h : buildMulti (p.capsTimes 0) factors g prices fullT u = .ok P) : ZeroBox P := by
  obtain ⟨_, a, ha, rfl⟩ := buildMulti_ok h
  exact (contract_zeroBox hmin hmax ha : ZeroBox a)

theorem transport_zeroBox {p : TransportP} {g : Grid} {prices : Prices} {fullT : Nat} {P : AssetProblem}
    (h : buildTransport (p.capsTimes 0) g prices fullT = .ok P) : ZeroBox P := by
  obtain ⟨n0, n1, cts, _, _, _, _, rfl⟩ := buildTransport_ok h
  constructor <;>
  · intro v hv
    simp only [trProblem, TransportP.capsTimes, List.mem_map] at hv
    obtain ⟨w, _, rfl⟩ := hv
    grind

theorem extTransport_zeroBox {p : TransportP} {g : Grid} {prices : Prices} {fullT u : Nat} {P : AssetProblem}
    (h : buildExtTransport (p.capsTimes 0) g prices fullT u = .ok P) : ZeroBox P := by
  obtain ⟨a, ha, rfl⟩ := buildExtTransport_ok h
  exact (transport_zeroBox ha : ZeroBox a)

end EAO.ScaleBuild
