import EAO.Model.Schema
/-!
# EAO.Lemmas.Schema — lifting the finite schema check to the object model (C11)

`RoundTripOK c` (a finite check over names) implies that the abstract deserialiser rebuilds every object
of class `c` the constructor can have built; by structural induction over object trees,
`dec (enc v) = some v`.
-/
namespace EAO.Schema

/-! ### association lists -/

theorem nodupB_cons {x : String} {xs : List String} (h : nodupB (x :: xs) = true) :
    x ∉ xs ∧ nodupB xs = true := by
  simp [nodupB] at h
  exact h

theorem lookup_filterMap_none {α β : Type} (f : α → String) (g : α → Option β) (k : String) :
    ∀ (l : List α), k ∉ l.map f →
      lookup k (l.filterMap (fun x => (g x).map (fun v => (f x, v)))) = none := by
  intro l
  induction l with
  | nil => intro _; simp [lookup]
  | cons x xs ih =>
    intro hk
    have hx : f x ≠ k := by
      intro e; apply hk; simp [e]
    have hk' : k ∉ xs.map f := by
      intro e; apply hk; simp only [List.map_cons, List.mem_cons]; exact Or.inr e
    cases hg : g x with
    | none => simp [hg, ih hk']
    | some v => simp [hg, lookup, hx, ih hk']

/-- in a list with distinct keys, looking a key up in the `filterMap` image gives the value of its element -/
theorem lookup_filterMap_key {α β : Type} (f : α → String) (g : α → Option β) :
    ∀ (l : List α) (x0 : α), x0 ∈ l → nodupB (l.map f) = true →
      lookup (f x0) (l.filterMap (fun x => (g x).map (fun v => (f x, v)))) = g x0 := by
  intro l
  induction l with
  | nil => intro x0 h; cases h
  | cons x xs ih =>
    intro x0 hx0 hnd
    have hnd0 : nodupB (f x :: xs.map f) = true := by simpa using hnd
    have ⟨hnot, hnd'⟩ := nodupB_cons hnd0
    rcases List.mem_cons.mp hx0 with rfl | hmem
    · cases hg : g x0 with
      | none =>
        simp only [List.filterMap_cons, hg, Option.map_none]
        exact lookup_filterMap_none f g (f x0) xs hnot
      | some v => simp [hg, lookup]
    · have hne : f x ≠ f x0 := by
        intro e; apply hnot; rw [e]; exact List.mem_map_of_mem hmem
      cases hg : g x with
      | none => simp [hg, ih x0 hmem hnd']
      | some v => simp [hg, lookup, hne, ih x0 hmem hnd']

theorem lookup_filter {β : Type} (p : String → Bool) (k : String) (hk : p k = true) :
    ∀ (l : List (String × β)), lookup k (l.filter (fun kv => p kv.1)) = lookup k l := by
  intro l
  induction l with
  | nil => rfl
  | cons x xs ih =>
    obtain ⟨k', v⟩ := x
    by_cases hp : p k' = true
    · simp only [List.filter_cons, hp, ite_true, lookup, ih]
    · have : k' ≠ k := by intro e; rw [e] at hp; exact hp hk
      simp [hp, lookup, this, ih]

theorem lookup_mem {β : Type} {k : String} {v : β} :
    ∀ {l : List (String × β)}, lookup k l = some v → (k, v) ∈ l := by
  intro l
  induction l with
  | nil => intro h; simp [lookup] at h
  | cons x xs ih =>
    obtain ⟨k', v'⟩ := x
    intro h
    by_cases e : k' = k
    · subst e; simp [lookup] at h; simp [h]
    · simp [lookup, e] at h; exact List.mem_cons_of_mem _ (ih h)

theorem hasKey_lookup {β : Type} {k : String} :
    ∀ {l : List (String × β)}, hasKey k l = true → ∃ v, lookup k l = some v := by
  intro l
  induction l with
  | nil => intro h; simp [hasKey] at h
  | cons x xs ih =>
    obtain ⟨k', v'⟩ := x
    intro h
    by_cases e : k' = k
    · exact ⟨v', by simp [lookup, e]⟩
    · have : hasKey k xs = true := by simpa [hasKey, e] using h
      obtain ⟨v, hv⟩ := ih this
      exact ⟨v, by simp [lookup, e, hv]⟩

theorem lookup_hasKey {β : Type} {k : String} {v : β} :
    ∀ {l : List (String × β)}, lookup k l = some v → hasKey k l = true := by
  intro l h
  have := lookup_mem h
  simp only [hasKey, List.any_eq_true]
  exact ⟨(k, v), this, by simp⟩

theorem lookup_append_of_none {β : Type} {k : String} :
    ∀ {l1 l2 : List (String × β)}, lookup k l1 = none → lookup k (l1 ++ l2) = lookup k l2 := by
  intro l1
  induction l1 with
  | nil => intro l2 _; rfl
  | cons x xs ih =>
    obtain ⟨k', v'⟩ := x
    intro l2 h
    by_cases e : k' = k
    · simp [lookup, e] at h
    · simp [lookup, e] at h ⊢; exact ih h

theorem lookup_append_of_some {β : Type} {k : String} {v : β} :
    ∀ {l1 l2 : List (String × β)}, lookup k l1 = some v → lookup k (l1 ++ l2) = some v := by
  intro l1
  induction l1 with
  | nil => intro l2 h; simp [lookup] at h
  | cons x xs ih =>
    obtain ⟨k', v'⟩ := x
    intro l2 h
    by_cases e : k' = k
    · simp [lookup, e] at h ⊢; exact h
    · simp [lookup, e] at h ⊢; exact ih h

theorem lookup_none_of_not_mem {β : Type} {k : String} :
    ∀ {l : List (String × β)}, k ∉ l.map (·.1) → lookup k l = none := by
  intro l
  induction l with
  | nil => intro _; rfl
  | cons x xs ih =>
    obtain ⟨k', v'⟩ := x
    intro h
    have e : k' ≠ k := by intro e; apply h; simp [e]
    have h' : k ∉ xs.map (·.1) := by intro m; apply h; simp only [List.map_cons, List.mem_cons]; exact Or.inr m
    simp [lookup, e, ih h']

/-- the constant keys: core `List.lookup` on the (key, value) table vs `lookup` on the written fields -/
theorem lookup_adds {k v : String} :
    ∀ {adds : List (String × String)}, adds.lookup k = some v →
      lookup k (adds.map (fun kv => (kv.1, PyVal.str kv.2))) = some (PyVal.str v) := by
  intro adds
  induction adds with
  | nil => intro h; simp [List.lookup] at h
  | cons x xs ih =>
    obtain ⟨k', v'⟩ := x
    intro h
    by_cases e : k = k'
    · subst e; simp [List.lookup] at h; simp [lookup, h]
    · have e' : k' ≠ k := fun x => e x.symm
      have : (k == k') = false := by simp [e]
      simp [List.lookup, this] at h
      simp [lookup, e', ih h]

/-! ### decoding what `enc` wrote, one level -/

section codec
variable (S : List ClassSchema) (tc : TimeCodec)

theorem decList_encList_of : ∀ (xs : List PyVal), (∀ x ∈ xs, dec S tc (enc S tc x) = some x) →
    decList S tc (encList S tc xs) = some xs := by
  intro xs
  induction xs with
  | nil => intro _; simp [encList, decList]
  | cons x xs ih =>
    intro h
    have h1 := h x (by simp)
    have h2 := ih (fun y hy => h y (List.mem_cons_of_mem _ hy))
    simp [encList, decList, h1, h2]

theorem decFields_encFields_of : ∀ (kvs : List (String × PyVal)),
    (∀ kv ∈ kvs, dec S tc (enc S tc kv.2) = some kv.2) →
    decFields S tc (encFields S tc kvs) = some kvs := by
  intro kvs
  induction kvs with
  | nil => intro _; simp [encFields, decFields]
  | cons x xs ih =>
    obtain ⟨k, v⟩ := x
    intro h
    have h1 := h (k, v) (by simp)
    have h2 := ih (fun y hy => h y (List.mem_cons_of_mem _ hy))
    simp at h1
    simp [encFields, decFields, h1, h2]

theorem lookup_encFields (k : String) : ∀ (kvs : List (String × PyVal)),
    lookup k (encFields S tc kvs) = (lookup k kvs).map (enc S tc) := by
  intro kvs
  induction kvs with
  | nil => simp [encFields, lookup]
  | cons x xs ih =>
    obtain ⟨k', v⟩ := x
    by_cases e : k' = k
    · simp [encFields, lookup, e]
    · simp [encFields, lookup, e, ih]

theorem decFields_append : ∀ (l1 l2 : List (String × JVal)) (a b : List (String × PyVal)),
    decFields S tc l1 = some a → decFields S tc l2 = some b → decFields S tc (l1 ++ l2) = some (a ++ b) := by
  intro l1
  induction l1 with
  | nil => intro l2 a b h1 h2; simp [decFields] at h1; subst h1; simpa using h2
  | cons x xs ih =>
    obtain ⟨k, v⟩ := x
    intro l2 a b h1 h2
    simp only [decFields] at h1
    cases hv : dec S tc v with
    | none => simp [hv] at h1
    | some y =>
      cases hr : decFields S tc xs with
      | none => simp [hv, hr] at h1
      | some ys =>
        simp [hv, hr] at h1
        subst h1
        have := ih l2 ys b hr h2
        simp [decFields, hv, this]

theorem decFields_adds : ∀ (adds : List (String × String)),
    decFields S tc (adds.map (fun kv => (kv.1, JVal.str kv.2))) =
      some (adds.map (fun kv => (kv.1, PyVal.str kv.2))) := by
  intro adds
  induction adds with
  | nil => simp [decFields]
  | cons x xs ih => simp [decFields, dec, ih]

theorem decFields_stored (attrs : List (String × PyVal))
    (h : ∀ kv ∈ attrs, dec S tc (enc S tc kv.2) = some kv.2) : ∀ (st : List Stored),
    decFields S tc (st.filterMap (fun s => (lookup s.attr (encFields S tc attrs)).map (fun v => (s.key, v)))) =
      some (st.filterMap (fun s => (lookup s.attr attrs).map (fun v => (s.key, v)))) := by
  intro st
  induction st with
  | nil => simp [decFields]
  | cons s ss ih =>
    simp only [List.filterMap_cons]
    rw [lookup_encFields S tc s.attr attrs]
    cases hl : lookup s.attr attrs with
    | none => simpa using ih
    | some v =>
      have hv := h (s.attr, v) (lookup_mem hl)
      simp at hv
      simp only [Option.map_some, decFields, hv, ih]

/-- the dictionary of decoded children the hook receives for an object -/
def serialiseP (c : ClassSchema) (attrs : List (String × PyVal)) : List (String × PyVal) :=
  c.adds.map (fun kv => (kv.1, PyVal.str kv.2)) ++
  (storedOf c true).filterMap (fun s => (lookup s.attr attrs).map (fun v => (s.key, v)))

theorem decFields_serialise (c : ClassSchema) (attrs : List (String × PyVal))
    (h : ∀ kv ∈ attrs, dec S tc (enc S tc kv.2) = some kv.2) :
    decFields S tc (serialise c (encFields S tc attrs)) = some (serialiseP c attrs) := by
  unfold serialise serialiseP
  exact decFields_append S tc _ _ _ _ (decFields_adds S tc c.adds) (decFields_stored S tc attrs h _)

end codec

/-! ### what `RoundTripOK` says, in `Prop` form -/

theorem storedOf_mono {c : ClassSchema} {s : Stored} (h : s ∈ storedOf c false) : s ∈ storedOf c true := by
  unfold storedOf at h ⊢
  by_cases hd : c.dictCopy = true
  · simp only [hd, ite_true, List.mem_append, List.mem_filter] at h ⊢
    rcases h with ⟨h1, h2⟩ | h
    · left
      refine ⟨?_, h2⟩
      simp only [Bool.false_eq_true, ite_false] at h1
      rcases h1 with h1 | h1
      · exact Or.inl h1
      · cases h1
    · exact Or.inr h
  · simpa [hd] using h

structure OKFacts (c : ClassSchema) : Prop where
  tagAdd : c.adds.lookup "__class__" = some c.tag
  dispAdd : c.dispatch = "" ∨ (c.adds.lookup c.dispatch = some c.name ∧ c.resolvable = true)
  addsPopped : ∀ kv ∈ c.adds, kv.1 ∈ c.deserPops
  accepted : ∀ k ∈ presented c true, k ∈ acceptedKeys c ∨ c.swallows = true
  swallowNotPos : ∀ k ∈ presented c true, k ∈ acceptedKeys c ∨ c.positional = false
  required : ∀ p ∈ c.params, p.required = true →
    (∃ s ∈ storedOf c false, s.key = p.name) ∧ p.name ∉ c.deserPops ∧ (c.positional = true → p.name ∈ c.ctorKeys)
  ctorReq : c.positional = true → ∀ k ∈ c.ctorKeys, ∃ p ∈ c.params, p.name = k ∧ p.required = true
  storedSame : ∀ s ∈ storedOf c false, s.key ∉ c.deserPops → s.key ∈ acceptedKeys c →
    ∃ a ∈ stateAttrs c, a.name = s.attr ∧ isParamKind a.kind = true ∧ a.src = s.key
  stateStored : ∀ a ∈ stateAttrs c, isParamKind a.kind = true →
    (∃ s ∈ storedOf c false, s.attr = a.name ∧ s.key = a.src) ∧ a.src ∈ acceptedKeys c ∧ a.src ∉ c.deserPops
  nodupAttrs : nodupB ((stateAttrs c).map (·.name)) = true
  nodupKeys : nodupB ((storedOf c true).map (·.key)) = true

theorem okFacts {c : ClassSchema} (h : RoundTripOK c = true) : OKFacts c := by
  simp only [RoundTripOK, Bool.and_eq_true] at h
  obtain ⟨⟨⟨⟨⟨⟨⟨⟨⟨_, hTag⟩, hAcc⟩, hReq⟩, hSame⟩, _⟩, _⟩, hState⟩, hNd⟩, _⟩ := h
  simp only [chkTag, Bool.and_eq_true, Bool.or_eq_true, beq_iff_eq, List.all_eq_true, List.contains_iff_mem] at hTag
  obtain ⟨⟨⟨⟨_, ht1⟩, ht2⟩, ht3⟩, _⟩ := hTag
  simp only [chkAccepted, List.all_eq_true, Bool.or_eq_true, Bool.and_eq_true, List.contains_iff_mem,
    Bool.not_eq_true'] at hAcc
  simp only [chkRequired, Bool.and_eq_true, List.all_eq_true, Bool.or_eq_true,
    List.any_eq_true, beq_iff_eq, List.contains_iff_mem, Bool.not_eq_eq_eq_not, Bool.not_true] at hReq
  simp only [chkStoredSame, List.all_eq_true, Bool.or_eq_true, List.contains_iff_mem, Bool.not_eq_true',
    List.any_eq_true, Bool.and_eq_true, beq_iff_eq] at hSame
  simp only [chkStateStored, List.all_eq_true, Bool.or_eq_true, Bool.not_eq_true', Bool.and_eq_true,
    List.any_eq_true, beq_iff_eq, List.contains_iff_mem] at hState
  simp only [chkNodup, Bool.and_eq_true] at hNd
  refine ⟨ht1, ?_, ht3, ?_, ?_, ?_, ?_, ?_, ?_, hNd.1.1.1, hNd.1.1.2⟩
  · rcases ht2 with h | ⟨h1, h2⟩
    · exact Or.inl h
    · exact Or.inr ⟨h1, h2⟩
  · intro k hk
    rcases hAcc k hk with h | ⟨⟨h, _⟩, _⟩
    · exact Or.inl h
    · exact Or.inr h
  · intro k hk
    rcases hAcc k hk with h | ⟨⟨_, h⟩, _⟩
    · exact Or.inl h
    · exact Or.inr h
  · intro p hp hr
    rcases hReq.1 p hp with h | ⟨⟨⟨s, hs, hk, _⟩, h2⟩, h3⟩
    · rw [hr] at h; cases h
    · refine ⟨⟨s, hs, hk⟩, ?_, ?_⟩
      · intro hm; simp [hm] at h2
      · intro hpos
        rcases h3 with h3 | h3
        · rw [hpos] at h3; cases h3
        · exact h3
  · intro hpos k hk
    rcases hReq.2 with h | h
    · rw [hpos] at h; cases h
    · obtain ⟨p, hp, h1, h2⟩ := h k hk
      exact ⟨p, hp, h1, h2⟩
  · intro s hs hnp hacc
    rcases hSame s hs with (h | h) | ⟨a, ha, ⟨h1, h2⟩, h3⟩
    · exact absurd h hnp
    · simp [hacc] at h
    · exact ⟨a, ha, h1, h2, h3⟩
  · intro a ha hk
    rcases hState a ha with h | ⟨⟨⟨s, hs, h1, h2⟩, h3⟩, h4⟩
    · rw [hk] at h; cases h
    · refine ⟨⟨s, hs, h1, h2⟩, h3, ?_⟩
      intro hm; simp [hm] at h4


/-! ### the deserialiser branch rebuilds the object -/

theorem attrVal_param {kw : List (String × PyVal)} {a : Attr} (h : isParamKind a.kind = true) :
    attrVal kw a = lookup a.src kw := by
  unfold attrVal
  cases hk : a.kind <;> simp [hk, isParamKind] at h ⊢

theorem attrVal_nonparam {kw kw' : List (String × PyVal)} {a : Attr} (h : isParamKind a.kind ≠ true) :
    attrVal kw a = attrVal kw' a := by
  unfold attrVal
  cases hk : a.kind <;> simp [hk, isParamKind] at h ⊢

theorem lookup_build {c : ClassSchema} (F : OKFacts c) (kw : List (String × PyVal)) {a : Attr}
    (ha : a ∈ stateAttrs c) : lookup a.name (build c kw) = attrVal kw a :=
  lookup_filterMap_key (fun a : Attr => a.name) (attrVal kw) (stateAttrs c) a ha F.nodupAttrs

theorem lookup_storedP {c : ClassSchema} (F : OKFacts c) (attrs : List (String × PyVal)) {s : Stored}
    (hs : s ∈ storedOf c true) :
    lookup s.key ((storedOf c true).filterMap (fun s => (lookup s.attr attrs).map (fun v => (s.key, v)))) =
      lookup s.attr attrs :=
  lookup_filterMap_key (fun s : Stored => s.key) (fun s => lookup s.attr attrs) (storedOf c true) s hs F.nodupKeys

/-- keyword arguments the deserialiser passes on (after its pops) -/
def kwOf (c : ClassSchema) (attrs : List (String × PyVal)) : List (String × PyVal) :=
  (serialiseP c attrs).filter (fun kv => !(c.deserPops.contains kv.1))

theorem lookup_kwOf {c : ClassSchema} (F : OKFacts c) (attrs : List (String × PyVal)) {k : String}
    (hk : k ∉ c.deserPops) :
    lookup k (kwOf c attrs) =
      lookup k ((storedOf c true).filterMap (fun s => (lookup s.attr attrs).map (fun v => (s.key, v)))) := by
  unfold kwOf
  rw [lookup_filter (fun k => !(c.deserPops.contains k)) k (by simpa using hk)]
  unfold serialiseP
  apply lookup_append_of_none
  apply lookup_none_of_not_mem
  intro hm
  simp only [List.map_map, List.mem_map, Function.comp] at hm
  obtain ⟨kv, hkv, e⟩ := hm
  apply hk
  rw [← e]
  exact F.addsPopped kv hkv

theorem mem_kwOf {c : ClassSchema} (_F : OKFacts c) (attrs : List (String × PyVal)) {kv : String × PyVal}
    (h : kv ∈ kwOf c attrs) : kv.1 ∈ presented c true := by
  unfold kwOf at h
  simp only [List.mem_filter, Bool.not_eq_true'] at h
  obtain ⟨hm, hnp⟩ := h
  unfold presented
  simp only [List.mem_filter, List.mem_append, Bool.not_eq_true']
  refine ⟨?_, hnp⟩
  unfold serialiseP at hm
  rcases List.mem_append.mp hm with h1 | h2
  · right
    simp only [List.mem_map] at h1 ⊢
    obtain ⟨x, hx, e⟩ := h1
    exact ⟨x, hx, by rw [← e]⟩
  · left
    simp only [List.mem_filterMap] at h2
    obtain ⟨s, hs, e⟩ := h2
    unfold storedKeys
    simp only [List.mem_map]
    refine ⟨s, hs, ?_⟩
    cases hl : lookup s.attr attrs with
    | none => simp [hl] at e
    | some v => simp [hl] at e; rw [← e]

/-- value of a parameter-carrying attribute survives save / pops / constructor -/
theorem lookup_src_kwOf {c : ClassSchema} (F : OKFacts c) (kw0 : List (String × PyVal)) {a : Attr}
    (ha : a ∈ stateAttrs c) (hk : isParamKind a.kind = true) :
    lookup a.src (kwOf c (build c kw0)) = lookup a.src kw0 := by
  obtain ⟨⟨s, hs, h1, h2⟩, _, hnp⟩ := F.stateStored a ha hk
  rw [lookup_kwOf F _ hnp, ← h2, lookup_storedP F _ (storedOf_mono hs), h1, lookup_build F kw0 ha,
    attrVal_param hk, h2]

theorem filterMap_congr' {α β : Type} {f g : α → Option β} :
    ∀ {l : List α}, (∀ a ∈ l, f a = g a) → l.filterMap f = l.filterMap g := by
  intro l
  induction l with
  | nil => intro _; rfl
  | cons x xs ih =>
    intro h
    have h1 := h x (by simp)
    have h2 := ih (fun a ha => h a (List.mem_cons_of_mem _ ha))
    simp only [List.filterMap_cons, h1, h2]

theorem build_congr {c : ClassSchema} {kw kw' : List (String × PyVal)}
    (h : ∀ a ∈ stateAttrs c, attrVal kw a = attrVal kw' a) : build c kw = build c kw' := by
  unfold build
  apply filterMap_congr'
  intro a ha
  rw [h a ha]

theorem construct_serialiseP {c : ClassSchema} (hok : RoundTripOK c = true) (attrs : List (String × PyVal))
    (hreach : Reachable c attrs) : construct c (serialiseP c attrs) = some (.obj c.name attrs) := by
  have F := okFacts hok
  obtain ⟨kw0, rfl, hkeys, hreq⟩ := hreach
  -- required parameters are present among the passed keys
  have hpresent : ∀ p ∈ c.params, p.required = true → hasKey p.name (kwOf c (build c kw0)) = true := by
    intro p hp hr
    obtain ⟨⟨s, hs, hsk⟩, hnp, hpos⟩ := F.required p hp hr
    have hacc : s.key ∈ acceptedKeys c := by
      rw [hsk]; unfold acceptedKeys
      by_cases hp' : c.positional = true
      · simp only [hp', ite_true, List.mem_append]; exact Or.inl (hpos hp')
      · simp only [hp', List.mem_append]
        left; unfold ClassSchema.paramNames; exact List.mem_map_of_mem hp
    obtain ⟨a, ha, _, hk, hsrc⟩ := F.storedSame s hs (by rw [hsk]; exact hnp) hacc
    obtain ⟨v, hv⟩ := hasKey_lookup (hreq p hp hr)
    have : lookup p.name (kwOf c (build c kw0)) = some v := by
      rw [← hsk, ← hsrc, lookup_src_kwOf F kw0 ha hk, hsrc, hsk, hv]
    exact lookup_hasKey this
  have hkeysOK : (if c.positional then c.ctorKeys.all (fun k => hasKey k (kwOf c (build c kw0)))
      else (kwOf c (build c kw0)).all (fun kv => (acceptedKeys c).contains kv.1 || c.swallows)) = true := by
    by_cases hp' : c.positional = true
    · simp only [hp', ite_true, List.all_eq_true]
      intro k hk
      obtain ⟨p, hp, e, hr⟩ := F.ctorReq hp' k hk
      rw [← e]; exact hpresent p hp hr
    · have hp'' : c.positional = false := by simpa using hp'
      simp only [hp'', Bool.false_eq_true, ite_false, List.all_eq_true, Bool.or_eq_true, List.contains_iff_mem]
      intro kv hkv
      exact F.accepted kv.1 (mem_kwOf F _ hkv)
  have hreqOK : c.params.all (fun p => !p.required || hasKey p.name (kwOf c (build c kw0))) = true := by
    simp only [List.all_eq_true, Bool.or_eq_true, Bool.not_eq_true']
    intro p hp
    cases hr : p.required with
    | false => exact Or.inl rfl
    | true => exact Or.inr (hpresent p hp hr)
  have hbuild : build c ((kwOf c (build c kw0)).filter (fun kv => (acceptedKeys c).contains kv.1)) = build c kw0 := by
    apply build_congr
    intro a ha
    by_cases hk : isParamKind a.kind = true
    · obtain ⟨_, hacc, _⟩ := F.stateStored a ha hk
      rw [attrVal_param hk, attrVal_param hk,
        lookup_filter (fun k => (acceptedKeys c).contains k) a.src (by simpa using hacc),
        lookup_src_kwOf F kw0 ha hk]
    · exact attrVal_nonparam hk
  unfold kwOf at hkeysOK hreqOK hbuild
  simp only [construct, hkeysOK, hreqOK, Bool.and_self, ite_true, hbuild]

theorem classFor_serialiseP {S : List ClassSchema} {c : ClassSchema} (hfind : findByName S c.name = some c)
    (hok : RoundTripOK c = true) (hcls : classOK S c = true) (attrs : List (String × PyVal)) :
    classFor S c.tag (serialiseP c attrs) = some c := by
  have F := okFacts hok
  unfold classOK at hcls
  unfold classFor
  cases hf : S.find? (fun d => d.tag == c.tag) with
  | none => simp [hf] at hcls
  | some d =>
    simp only [hf, Bool.and_eq_true, beq_iff_eq, Bool.or_eq_true, bne_iff_ne, ne_eq] at hcls
    obtain ⟨hd, hor⟩ := hcls
    by_cases he : c.dispatch = ""
    · have hn : d.name = c.name := by
        rcases hor with h | h
        · exact absurd he h
        · exact h
      simp [hd, he, hn, hfind]
    · rcases F.dispAdd with h | ⟨h1, h2⟩
      · exact absurd h he
      · have hl : lookup c.dispatch (serialiseP c attrs) = some (PyVal.str c.name) :=
          lookup_append_of_some (lookup_adds h1)
        simp [hd, he, hl, hfind, h2]

/-- the object hook applied to what the serialiser wrote for an object rebuilds the object -/
theorem hook_serialiseP {S : List ClassSchema} (tc : TimeCodec) {c : ClassSchema}
    (hfind : findByName S c.name = some c) (hok : RoundTripOK c = true) (hcls : classOK S c = true)
    (hres : c.tag ∉ reservedTags) (attrs : List (String × PyVal)) (hreach : Reachable c attrs) :
    hook S tc (serialiseP c attrs) = some (.obj c.name attrs) := by
  have F := okFacts hok
  have hl : lookup "__class__" (serialiseP c attrs) = some (PyVal.str c.tag) :=
    lookup_append_of_some (lookup_adds F.tagAdd)
  simp only [reservedTags, List.mem_cons, List.not_mem_nil, or_false, not_or] at hres
  obtain ⟨h1, h2, h3, h4⟩ := hres
  unfold hook
  simp only [hl, beq_iff_eq, h1, h2, h3, h4, ite_false, classFor_serialiseP hfind hok hcls attrs,
    construct_serialiseP hok attrs hreach]

end EAO.Schema
