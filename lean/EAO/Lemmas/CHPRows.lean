import EAO.Model.CHP
/-!
# EAO.Lemmas.CHPRows — the capacity, ramp, start-definition and heat-share rows of `assembleCHP`:
membership in the generated row list and their reading as inequalities between values of an assignment.
-/
namespace EAO.CHPRows
open EAO

theorem rows_eq (r : CHPR) : (assembleCHP r).rows = r.rows := rfl

theorem sat_of_mem {r : CHPR} {x : Vec} (hx : (assembleCHP r).FeasibleRelaxed x) {row : Row}
    (h : row ∈ r.rows) : row.Sat x := hx.2 row h

/-! ## membership -/

theorem capLower_mem (r : CHPR) {i : Nat} (hi : i < r.n) : r.capLower i ∈ r.rows := by
  simp only [CHPR.rows, CHPR.capRows, List.mem_append, List.mem_map, List.mem_range]
  exact Or.inl (Or.inl (Or.inl (Or.inr (Or.inl ⟨i, hi, rfl⟩))))

theorem capUpper_mem (r : CHPR) {i : Nat} (hi : i < r.n) : r.capUpper i ∈ r.rows := by
  simp only [CHPR.rows, CHPR.capRows, List.mem_append, List.mem_map, List.mem_range]
  exact Or.inl (Or.inl (Or.inl (Or.inr (Or.inr ⟨i, hi, rfl⟩))))

theorem rampRows_mem (r : CHPR) {row : Row} (h : row ∈ r.rampRows) : row ∈ r.rows := by
  simp only [CHPR.rows, List.mem_append]
  exact Or.inl (Or.inl (Or.inr h))

theorem rampLower_mem (r : CHPR) {ρ : Rat} (hρ : r.ramp = some ρ) {t : Nat} (h1 : 1 ≤ t) (ht : t < r.T) :
    r.rampLower ρ t ∈ r.rows := by
  apply rampRows_mem
  simp only [CHPR.rampRows, hρ, List.mem_append, List.mem_flatMap, List.mem_range]
  refine Or.inl ⟨t - 1, by omega, ?_⟩
  have : t - 1 + 1 = t := by omega
  simp [this]

theorem rampUpper_mem (r : CHPR) {ρ : Rat} (hρ : r.ramp = some ρ) {t : Nat} (h1 : 1 ≤ t) (ht : t < r.T) :
    r.rampUpper ρ t ∈ r.rows := by
  apply rampRows_mem
  simp only [CHPR.rampRows, hρ, List.mem_append, List.mem_flatMap, List.mem_range]
  refine Or.inl ⟨t - 1, by omega, ?_⟩
  have : t - 1 + 1 = t := by omega
  simp [this]

theorem rampFirstLower_mem (r : CHPR) {ρ : Rat} (hρ : r.ramp = some ρ) : r.rampFirstLower ρ ∈ r.rows := by
  apply rampRows_mem
  simp [CHPR.rampRows, hρ]

theorem rampFirstUpper_mem (r : CHPR) {ρ : Rat} (hρ : r.ramp = some ρ) : r.rampFirstUpper ρ ∈ r.rows := by
  apply rampRows_mem
  simp [CHPR.rampRows, hρ]

theorem commitRows_mem (r : CHPR) {row : Row} (h : row ∈ r.commitRows) : row ∈ r.rows := by
  simp only [CHPR.rows, List.mem_append]
  exact Or.inl (Or.inr h)

theorem startDefRow_mem (r : CHPR) (hs : r.incStart = true) {i : Nat} (hi : i + 1 < r.T) :
    r.startDefRow i ∈ r.rows := by
  apply commitRows_mem
  simp only [CHPR.commitRows, CHPR.startRows, hs, if_true, List.mem_append, List.mem_map, List.mem_range]
  exact Or.inl (Or.inl (Or.inl ⟨i, by omega, rfl⟩))

theorem startFirstRow_mem (r : CHPR) (hs : r.incStart = true) (h0 : r.tar = 0) : r.startFirstRow ∈ r.rows := by
  apply commitRows_mem
  simp [CHPR.commitRows, CHPR.startRows, hs, h0]

theorem heatRow_mem (r : CHPR) (hh : r.heat = true) {s : List Rat} (hs : r.share = some s) {i : Nat} (hi : i < r.n) :
    r.heatRow s i ∈ r.rows := by
  simp only [CHPR.rows, CHPR.heatRows, hh, hs, List.mem_append, List.mem_map, List.mem_range]
  exact Or.inr ⟨i, hi, rfl⟩

/-! ## reading of the rows -/

theorem capLower_sat (r : CHPR) (x : Vec) (i : Nat) :
    (r.capLower i).Sat x ↔ (if r.incOn then r.minCap i * x (r.layout.on (r.stepOff i)) else 0) ≤ r.vd x i := by
  cases hh : r.heat <;> cases ho : r.incOn <;>
    simp [CHPR.capLower, CHPR.virt, CHPR.vd, Row.Sat, Row.eval, hh, ho] <;> grind

theorem capUpper_sat (r : CHPR) (x : Vec) (i : Nat) :
    (r.capUpper i).Sat x ↔ r.vd x i ≤ (if r.incOn then r.maxCap i * x (r.layout.on (r.stepOff i)) else r.maxCap i) := by
  cases hh : r.heat <;> cases ho : r.incOn <;>
    simp [CHPR.capUpper, CHPR.virt, CHPR.vd, Row.Sat, Row.eval, hh, ho] <;> grind

theorem rampLower_sat (r : CHPR) (x : Vec) (ρ : Rat) (t : Nat) :
    (r.rampLower ρ t).Sat x ↔
      r.vd x (t - 1) - (if r.incOn then ρ * x (r.layout.on (t - 1)) else ρ) ≤ r.vd x t := by
  cases hh : r.heat <;> cases ho : r.incOn <;>
    simp [CHPR.rampLower, CHPR.rampDiff, CHPR.virt, CHPR.vd, Row.Sat, Row.eval, hh, ho] <;> grind

theorem rampUpper_sat (r : CHPR) (x : Vec) (ρ : Rat) (t : Nat) :
    (r.rampUpper ρ t).Sat x ↔
      r.vd x t ≤ r.vd x (t - 1) + (if r.incOn then ρ * x (r.layout.on t) else ρ) := by
  cases hh : r.heat <;> cases ho : r.incOn <;>
    simp [CHPR.rampUpper, CHPR.rampDiff, CHPR.virt, CHPR.vd, Row.Sat, Row.eval, hh, ho] <;> grind

theorem rampFirstLower_sat (r : CHPR) (x : Vec) (ρ : Rat) :
    (r.rampFirstLower ρ).Sat x ↔ (if r.tar = 0 then r.last else r.last - ρ) ≤ r.vd x 0 := by
  cases hh : r.heat <;> by_cases ht : r.tar = 0 <;>
    simp [CHPR.rampFirstLower, CHPR.virt, CHPR.vd, Row.Sat, Row.eval, hh, ht] <;> grind

theorem rampFirstUpper_sat (r : CHPR) (x : Vec) (ρ : Rat) :
    (r.rampFirstUpper ρ).Sat x ↔
      r.vd x 0 ≤ r.last + (if r.incOn then ρ * x (r.layout.on 0) else ρ) := by
  cases hh : r.heat <;> cases ho : r.incOn <;>
    simp [CHPR.rampFirstUpper, CHPR.virt, CHPR.vd, Row.Sat, Row.eval, hh, ho] <;> grind

theorem startDefRow_sat (r : CHPR) (x : Vec) (i : Nat) :
    (r.startDefRow i).Sat x ↔ x (r.layout.on (i + 1)) - x (r.layout.on i) ≤ x (r.layout.start (i + 1)) := by
  simp [CHPR.startDefRow, Row.Sat, Row.eval]; grind

theorem startFirstRow_sat (r : CHPR) (x : Vec) :
    r.startFirstRow.Sat x ↔ x (r.layout.start 0) = x (r.layout.on 0) := by
  simp [CHPR.startFirstRow, Row.Sat, Row.eval]; grind

theorem heatRow_sat (r : CHPR) (x : Vec) (s : List Rat) (i : Nat) :
    (r.heatRow s i).Sat x ↔ x (r.layout.heat i) ≤ s.getD i 0 * x (r.layout.power i) := by
  simp [CHPR.heatRow, Row.Sat, Row.eval]; grind

end EAO.CHPRows
