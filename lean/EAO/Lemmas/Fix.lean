import EAO.Model.Assemble
/-!
# Helper lemmas for C15 (`fixWindow`, `setWhere`, `fixedVars`)
-/
namespace EAO

theorem setWhere_length (p : Nat → Bool) (xs ys : List Rat) :
    (setWhere p xs ys).length = xs.length := by
  simp [setWhere]

theorem setWhere_getD (p : Nat → Bool) (xs ys : List Rat) (j : Nat) :
    (setWhere p xs ys).getD j 0 =
      if j < xs.length ∧ p j then ys.getD j 0 else xs.getD j 0 := by
  simp only [setWhere, List.getD_eq_getElem?_getD, List.getElem?_map, List.getElem?_zipIdx]
  by_cases hj : j < xs.length
  · by_cases hp : p j <;> simp [hp, hj]
  · simp [hj]

theorem setWhere_getD_of_true (p : Nat → Bool) (xs ys : List Rat) (j : Nat)
    (hj : j < xs.length) (hp : p j = true) :
    (setWhere p xs ys).getD j 0 = ys.getD j 0 := by
  rw [setWhere_getD]; simp [hj, hp]

theorem setWhere_getD_of_false (p : Nat → Bool) (xs ys : List Rat) (j : Nat)
    (hp : p j = false) :
    (setWhere p xs ys).getD j 0 = xs.getD j 0 := by
  rw [setWhere_getD]; simp [hp]

theorem mem_fixedVars (P : Problem) (steps : List Nat) (j : Nat) :
    j ∈ fixedVars P steps ↔ ∃ m ∈ P.mapping, m.step ∈ steps ∧ m.var = j := by
  simp [fixedVars, List.mem_map, List.mem_filter, and_assoc]

theorem fixedVars_contains_of_mem (P : Problem) (steps : List Nat) (m : MapRow)
    (hm : m ∈ P.mapping) (hs : m.step ∈ steps) :
    (fixedVars P steps).contains m.var = true := by
  rw [List.contains_iff_mem, mem_fixedVars]
  exact ⟨m, hm, hs, rfl⟩

theorem fixedVars_contains_false (P : Problem) (steps : List Nat) (j : Nat)
    (hfree : ∀ m ∈ P.mapping, m.var = j → m.step ∉ steps) :
    (fixedVars P steps).contains j = false := by
  cases h : (fixedVars P steps).contains j with
  | false => rfl
  | true =>
    rw [List.contains_iff_mem, mem_fixedVars] at h
    obtain ⟨m, hm, hs, hv⟩ := h
    exact absurd hs (hfree m hm hv)

@[simp] theorem fixWindow_c (P : Problem) (steps : List Nat) (xprev : List Rat) :
    (fixWindow P steps xprev).c = P.c := rfl
@[simp] theorem fixWindow_rows (P : Problem) (steps : List Nat) (xprev : List Rat) :
    (fixWindow P steps xprev).rows = P.rows := rfl
@[simp] theorem fixWindow_mapping (P : Problem) (steps : List Nat) (xprev : List Rat) :
    (fixWindow P steps xprev).mapping = P.mapping := rfl
@[simp] theorem fixWindow_nodal (P : Problem) (steps : List Nat) (xprev : List Rat) :
    (fixWindow P steps xprev).nodal = P.nodal := rfl

theorem fixWindow_l (P : Problem) (steps : List Nat) (xprev : List Rat) :
    (fixWindow P steps xprev).l = setWhere ((fixedVars P steps).contains ·) P.l xprev := rfl
theorem fixWindow_u (P : Problem) (steps : List Nat) (xprev : List Rat) :
    (fixWindow P steps xprev).u = setWhere ((fixedVars P steps).contains ·) P.u xprev := rfl

@[simp] theorem fixWindow_n (P : Problem) (steps : List Nat) (xprev : List Rat) :
    (fixWindow P steps xprev).n = P.n := rfl

@[simp] theorem fixWindow_boolVars (P : Problem) (steps : List Nat) (xprev : List Rat) :
    (fixWindow P steps xprev).boolVars = P.boolVars := rfl

@[simp] theorem fixWindow_value (P : Problem) (steps : List Nat) (xprev : List Rat) (x : Vec) :
    (fixWindow P steps xprev).value x = P.value x := rfl

theorem fixWindow_l_length (P : Problem) (steps : List Nat) (xprev : List Rat) :
    (fixWindow P steps xprev).l.length = P.l.length := by
  rw [fixWindow_l, setWhere_length]

theorem fixWindow_u_length (P : Problem) (steps : List Nat) (xprev : List Rat) :
    (fixWindow P steps xprev).u.length = P.u.length := by
  rw [fixWindow_u, setWhere_length]

/-- bounds of the fixed problem at a fixed variable -/
theorem fixWindow_bounds_fixed (P : Problem) (steps : List Nat) (xprev : List Rat) (j : Nat)
    (hjl : j < P.l.length) (hju : j < P.u.length)
    (hfix : (fixedVars P steps).contains j = true) :
    (fixWindow P steps xprev).l.getD j 0 = xprev.getD j 0 ∧
    (fixWindow P steps xprev).u.getD j 0 = xprev.getD j 0 := by
  rw [fixWindow_l, fixWindow_u]
  exact ⟨setWhere_getD_of_true _ _ _ _ hjl hfix, setWhere_getD_of_true _ _ _ _ hju hfix⟩

/-- bounds of the fixed problem at a non-fixed variable -/
theorem fixWindow_bounds_free (P : Problem) (steps : List Nat) (xprev : List Rat) (j : Nat)
    (hfree : (fixedVars P steps).contains j = false) :
    (fixWindow P steps xprev).l.getD j 0 = P.l.getD j 0 ∧
    (fixWindow P steps xprev).u.getD j 0 = P.u.getD j 0 := by
  rw [fixWindow_l, fixWindow_u]
  exact ⟨setWhere_getD_of_false _ _ _ _ hfree, setWhere_getD_of_false _ _ _ _ hfree⟩

/-- the previous point stays within the new bounds -/
theorem fixWindow_inBounds_prev (P : Problem) (steps : List Nat) (xprev : List Rat)
    (hlu : P.l.length ≤ P.u.length)
    (hprev : InBounds P.l P.u (fun j => xprev.getD j 0)) :
    InBounds (fixWindow P steps xprev).l (fixWindow P steps xprev).u (fun j => xprev.getD j 0) := by
  intro j hj
  rw [fixWindow_l_length] at hj
  cases hfix : (fixedVars P steps).contains j with
  | true =>
    obtain ⟨h1, h2⟩ := fixWindow_bounds_fixed P steps xprev j hj (by omega) hfix
    rw [h1, h2]
    exact ⟨Rat.le_refl, Rat.le_refl⟩
  | false =>
    obtain ⟨h1, h2⟩ := fixWindow_bounds_free P steps xprev j hfix
    rw [h1, h2]
    exact hprev j hj

/-- any point within the new bounds is within the old ones, if the previous point was -/
theorem fixWindow_inBounds_old (P : Problem) (steps : List Nat) (xprev : List Rat)
    (hlu : P.l.length ≤ P.u.length)
    (hprev : InBounds P.l P.u (fun j => xprev.getD j 0))
    (x : Vec) (hx : InBounds (fixWindow P steps xprev).l (fixWindow P steps xprev).u x) :
    InBounds P.l P.u x := by
  intro j hj
  have hb := hx j (by rw [fixWindow_l_length]; exact hj)
  cases hfix : (fixedVars P steps).contains j with
  | true =>
    obtain ⟨h1, h2⟩ := fixWindow_bounds_fixed P steps xprev j hj (by omega) hfix
    rw [h1, h2] at hb
    have hxe : x j = xprev.getD j 0 := Rat.le_antisymm hb.2 hb.1
    rw [hxe]
    exact hprev j hj
  | false =>
    obtain ⟨h1, h2⟩ := fixWindow_bounds_free P steps xprev j hfix
    rw [h1, h2] at hb
    exact hb

end EAO
