import EAO.Model.BlockSplit
import EAO.Lemmas.SplitStorage
/-!
# Lemmas for `EAO.Properties.C14Blocks`: the level rows of a time block are restart rows; one block = no blocks
-/
namespace EAO.BlockSplit
open EAO EAO.Storage

theorem upperRow_eq_restart (p : StorageP) (g : Grid) (a e j : Nat) (hd : p.maxStoreDuration = none)
    (hse : p.startLevel = p.endLevel) (hae : a ≤ e) :
    upperRow p g g.T a e (a + j) = restartUpper p g a (e - a) j := by
  have hiff : (a + j + 1 = e) ↔ (j + 1 = e - a) := by omega
  have hbs : blockStart p a = p.startLevel := by unfold blockStart; split <;> simp [hse]
  unfold upperRow restartUpper upRhs
  rw [hd, hbs]
  by_cases h' : j + 1 = e - a
  · simp [hiff.mpr h', h']
  · have h : ¬ (a + j + 1 = e) := fun hh => h' (hiff.mp hh)
    simp [h, h']

theorem lowerRow_eq_restart (p : StorageP) (g : Grid) (a e j : Nat)
    (hse : p.startLevel = p.endLevel) (hae : a ≤ e) :
    lowerRow p g g.T a e (a + j) = restartLower p g a (e - a) j := by
  have hiff : (a + j + 1 = e) ↔ (j + 1 = e - a) := by omega
  have hbs : blockStart p a = p.startLevel := by unfold blockStart; split <;> simp [hse]
  unfold lowerRow restartLower loRhs
  rw [hbs]
  by_cases h' : j + 1 = e - a
  · simp [hiff.mpr h', h']
  · have h : ¬ (a + j + 1 = e) := fun hh => h' (hiff.mp hh)
    simp [h, h']
    grind

theorem single_block (p : StorageP) (g : Grid) (T : Nat) (prices : Prices) (h : g.dt.length = 0 ∨ 0 < g.T) :
    buildStorage { p with blocks := some [0] } g T prices = buildStorage { p with blocks := none } g T prices := by
  unfold buildStorage
  by_cases h0 : g.dt.length = 0
  · simp [h0]
  · have hT : 0 < g.T := by rcases h with h | h; exact absurd h h0; exact h
    have hb : blocksOf { p with blocks := some [0] } g.T = blocksOf { p with blocks := none } g.T := by
      have hne : ¬ (0 = g.T) := by omega
      simp [blocksOf, strictInc, hT, withEnd, blockPairs, hne]
    simp only [h0, if_false]
    rw [hb]
    rfl
end EAO.BlockSplit
