import EAO.Model.BlockSplit
import EAO.Lemmas.SplitStorage
/-!
# Lemmas for `EAO.Properties.C14Blocks`: the level rows of a time block are restart rows; one block = no blocks;
the storage with time blocks restricted to an interval (`blk_restrict`), `Banded` / `RowsInside`, the portfolio plumbing
(`blocks_split_witness`), set-level ⇒ pair-level alignment (`pairsAligned_of_blocksAligned`), `blockStartsTick` is well formed
-/
namespace EAO.BlockSplit
open EAO EAO.Storage

theorem upperRow_eq_restart (p : StorageP) (g : Grid) (a e j : Nat) (hd : p.maxStoreDuration = none)
    (hse : p.startLevel = p.endLevel) (hae : a ≤ e) :
    upperRow p g g.T a e (a + j) = restartUpper p g a (e - a) j := by
  have hiff : (a + j + 1 = e) ↔ (j + 1 = e - a) := by omega
  have hbs : blockStart p a = p.startLevel := by unfold blockStart; split <;> simp [hse]
  unfold upperRow restartUpper upRhs
  rw [hd, hbs]
  by_cases h' : j + 1 = e - a
  · simp [hiff.mpr h', h']
  · have h : ¬ (a + j + 1 = e) := fun hh => h' (hiff.mp hh)
    simp [h, h']

theorem lowerRow_eq_restart (p : StorageP) (g : Grid) (a e j : Nat)
    (hse : p.startLevel = p.endLevel) (hae : a ≤ e) :
    lowerRow p g g.T a e (a + j) = restartLower p g a (e - a) j := by
  have hiff : (a + j + 1 = e) ↔ (j + 1 = e - a) := by omega
  have hbs : blockStart p a = p.startLevel := by unfold blockStart; split <;> simp [hse]
  unfold lowerRow restartLower loRhs
  rw [hbs]
  by_cases h' : j + 1 = e - a
  · simp [hiff.mpr h', h']
  · have h : ¬ (a + j + 1 = e) := fun hh => h' (hiff.mp hh)
    simp [h, h']
    grind

theorem single_block (p : StorageP) (g : Grid) (T : Nat) (prices : Prices) (h : g.dt.length = 0 ∨ 0 < g.T) :
    buildStorage { p with blocks := some [0] } g T prices = buildStorage { p with blocks := none } g T prices := by
  unfold buildStorage
  by_cases h0 : g.dt.length = 0
  · simp [h0]
  · have hT : 0 < g.T := by rcases h with h | h; exact absurd h h0; exact h
    have hb : blocksOf { p with blocks := some [0] } g.T = blocksOf { p with blocks := none } g.T := by
      have hne : ¬ (0 = g.T) := by omega
      simp [blocksOf, strictInc, hT, withEnd, blockPairs, hne]
    simp only [h0, if_false]
    rw [hb]
    rfl

/-! ## the storage with time blocks, explicitly; its restriction to an interval -/
open EAO.SplitStorage EAO.SplitBuild

/-- explicit form of an LP storage optimised in the time blocks `bl` -/
def blkForm (p : StorageP) (g : Grid) (pr : Nat → Rat) (bl : List (Nat × Nat)) : AssetProblem :=
  { storForm p g pr with rows := upperRows p g g.T bl ++ lowerRows p g g.T bl }

theorem blkForm_keep (p : StorageP) (g : Grid) (pr : Nat → Rat) (bl : List (Nat × Nat)) (I : List Nat) :
    (blkForm p g pr bl).keep I = (storForm p g pr).keep I := rfl

theorem blk_ns (p : StorageP) (aa : Option (List Nat)) (g : Grid) (h1 : hasNS p = false) :
    nsRows { p with blocks := aa } g g.T = [] := by
  have h1' : hasNS { p with blocks := aa } = false := h1
  simp [nsRows, h1']

theorem blk_hold (p : StorageP) (aa : Option (List Nat)) (g : Grid) (h2 : p.maxStoreDuration = none) :
    holdRows { p with blocks := aa } g g.T = [] := by
  unfold holdRows
  show (match p.maxStoreDuration with | none => [] | some d => _) = _
  rw [h2]

theorem blk_map (p : StorageP) (aa : Option (List Nat)) (g : Grid) (h1 : hasNS p = false)
    (h2 : p.maxStoreDuration = none) :
    Storage.mapping { p with blocks := aa } g g.T = dispMap p g g.T := by
  have h1' : hasNS { p with blocks := aa } = false := h1
  have h2' : ({ p with blocks := aa } : StorageP).maxStoreDuration = none := h2
  unfold Storage.mapping
  rw [h1', h2']
  simp
  rfl

theorem buildStorage_blkForm (p : StorageP) (aa : Option (List Nat)) (g : Grid) (T : Nat) (prices : Prices)
    (A : AssetProblem) (hg : g.Ok) (hlp : p.lp = true)
    (hA : buildStorage { p with blocks := aa } g T prices = .ok A) :
    ∃ pr bl, A = blkForm p g pr bl ∧ (g.T = 0 → bl = []) ∧
      (g.T ≠ 0 → blocksOf { p with blocks := aa } g.T = .ok bl ∧ priceVec p g T prices = .ok pr ∧
        p.nodes.isEmpty = false) := by
  obtain ⟨h1, h2, h3⟩ := lp_spec p hlp
  have h1' : hasNS { p with blocks := aa } = false := h1
  have h2' : ({ p with blocks := aa } : StorageP).maxStoreDuration = none := h2
  unfold buildStorage at hA
  by_cases hne : g.dt.length = 0
  · have hT : g.T = 0 := by rw [← hg.2.1]; exact hne
    simp only [hne, if_true] at hA
    injection hA with hA
    refine ⟨fun _ => 0, [], ?_, fun _ => rfl, fun h => absurd hT h⟩
    subst hA
    simp [blkForm, storForm, hT, costVec, lowerVec, upperVec, dispMap, nVars_lp p hlp, nd, upperRows, lowerRows]
  · have hT : g.T ≠ 0 := by rw [← hg.2.1]; exact hne
    simp only [hne, if_false] at hA
    have hpv : priceVec { p with blocks := aa } g T prices = priceVec p g T prices := rfl
    rw [hpv] at hA
    cases hpr : priceVec p g T prices with
    | error e => simp [hpr] at hA
    | ok pr =>
      simp only [hpr] at hA
      cases hn : p.nodes.isEmpty with
      | true => simp [hn] at hA
      | false =>
        simp only [hn, Bool.false_eq_true, if_false] at hA
        cases hb : blocksOf { p with blocks := aa } g.T with
        | error e => simp [hb] at hA
        | ok bl =>
          simp only [hb] at hA
          injection hA with hA
          refine ⟨pr, bl, ?_, fun h => absurd h hT, fun _ => ⟨rfl, rfl, rfl⟩⟩
          subst hA
          rw [blk_ns p aa g h1, blk_hold p aa g h2, blk_map p aa g h1 h2, List.append_nil, List.append_nil]
          rfl

theorem buildStorage_of_blkForm (p : StorageP) (aa : Option (List Nat)) (g : Grid) (T : Nat) (prices : Prices)
    (pr : Nat → Rat) (bl : List (Nat × Nat)) (hg : g.Ok) (hlp : p.lp = true) (h0 : g.T = 0 → bl = [])
    (hpr : g.T ≠ 0 → blocksOf { p with blocks := aa } g.T = .ok bl ∧ priceVec p g T prices = .ok pr ∧
        p.nodes.isEmpty = false) :
    buildStorage { p with blocks := aa } g T prices = .ok (blkForm p g pr bl) := by
  obtain ⟨h1, h2, h3⟩ := lp_spec p hlp
  have h1' : hasNS { p with blocks := aa } = false := h1
  have h2' : ({ p with blocks := aa } : StorageP).maxStoreDuration = none := h2
  unfold buildStorage
  by_cases hne : g.dt.length = 0
  · have hT : g.T = 0 := by rw [← hg.2.1]; exact hne
    simp only [hne, if_true]
    congr 1
    simp [blkForm, h0 hT, storForm, hT, costVec, lowerVec, upperVec, dispMap, nVars_lp p hlp, nd, upperRows, lowerRows]
  · have hT : g.T ≠ 0 := by rw [← hg.2.1]; exact hne
    obtain ⟨e0, e1, e2⟩ := hpr hT
    have hpv : priceVec { p with blocks := aa } g T prices = priceVec p g T prices := rfl
    simp only [hne, if_false, hpv, e1, e0]
    have : ({ p with blocks := aa } : StorageP).nodes.isEmpty = false := e2
    simp only [this, Bool.false_eq_true, if_false]
    rw [blk_ns p aa g h1, blk_hold p aa g h2, blk_map p aa g h1 h2, List.append_nil, List.append_nil]
    rfl

/-- the block `[a, e)` lies inside the piece `[sa, sa + m)` -/
def inside (sa m : Nat) (ae : Nat × Nat) : Bool := decide (sa ≤ ae.1) && decide (ae.2 ≤ sa + m)
/-- the block written with the positions of the piece that starts at `sa` -/
def unshift (sa : Nat) (ae : Nat × Nat) : Nat × Nat := (ae.1 - sa, ae.2 - sa)

theorem range'_shift (sa a k : Nat) (h : sa ≤ a) : List.range' a k = (List.range' (a - sa) k).map (sa + ·) := by
  rw [List.map_add_range']
  congr 1; omega

theorem restrict_blocks (X : AssetProblem) (I : List Nat) (F F' : Nat → Nat → Nat → Row) (sa m : Nat) :
    ∀ (bl : List (Nat × Nat)),
    (∀ ae ∈ bl, inside sa m ae = true → ∀ i, ae.1 ≤ i → i < ae.2 →
      (F ae.1 ae.2 i).coeffs.all (fun q => (X.keep I).contains q.1) = true ∧
      (F ae.1 ae.2 i).rename (fun v => (X.keep I).idxOf v) = F' (ae.1 - sa) (ae.2 - sa) (i - sa)) →
    (∀ ae ∈ bl, inside sa m ae = false → ∀ i, ae.1 ≤ i → i < ae.2 →
      (F ae.1 ae.2 i).coeffs.all (fun q => (X.keep I).contains q.1) = false) →
    restrictRows X I (bl.flatMap fun ae => (List.range' ae.1 (ae.2 - ae.1)).map fun i => F ae.1 ae.2 i) =
      ((bl.filter (inside sa m)).map (unshift sa)).flatMap fun ae =>
        (List.range' ae.1 (ae.2 - ae.1)).map fun i => F' ae.1 ae.2 i
  | [], _, _ => rfl
  | ae :: bl, hin, hout => by
    have ih := restrict_blocks X I F F' sa m bl (fun x hx => hin x (List.mem_cons_of_mem _ hx))
      (fun x hx => hout x (List.mem_cons_of_mem _ hx))
    rw [List.flatMap_cons, restrictRows_append, ih]
    cases hio : inside sa m ae with
    | true =>
      have hsa : sa ≤ ae.1 := by
        unfold inside at hio; simp only [Bool.and_eq_true, decide_eq_true_eq] at hio; exact hio.1
      rw [List.filter_cons_of_pos hio, List.map_cons, List.flatMap_cons]
      congr 1
      unfold restrictRows
      have hfil : ((List.range' ae.1 (ae.2 - ae.1)).map fun i => F ae.1 ae.2 i).filter
          (fun r => r.coeffs.all fun q => (X.keep I).contains q.1) =
          (List.range' ae.1 (ae.2 - ae.1)).map fun i => F ae.1 ae.2 i := by
        rw [List.filter_eq_self]
        intro r hr
        obtain ⟨i, hi, rfl⟩ := List.mem_map.mp hr
        rw [List.mem_range'_1] at hi
        exact (hin ae (by simp) hio i hi.1 (by omega)).1
      rw [hfil, List.map_map]
      show _ = (List.range' (ae.1 - sa) (ae.2 - sa - (ae.1 - sa))).map fun i => F' (ae.1 - sa) (ae.2 - sa) i
      have hk : ae.2 - sa - (ae.1 - sa) = ae.2 - ae.1 := by omega
      rw [hk, range'_shift sa ae.1 (ae.2 - ae.1) hsa, List.map_map]
      apply List.map_congr_left
      intro j hj
      rw [List.mem_range'_1] at hj
      simp only [Function.comp]
      rw [(hin ae (by simp) hio (sa + j) (by omega) (by omega)).2]
      congr 1; omega
    | false =>
      rw [List.filter_cons_of_neg (by simp [hio])]
      have : restrictRows X I ((List.range' ae.1 (ae.2 - ae.1)).map fun i => F ae.1 ae.2 i) = [] := by
        unfold restrictRows
        rw [List.map_eq_nil_iff, List.filter_eq_nil_iff]
        intro r hr
        obtain ⟨i, hi, rfl⟩ := List.mem_map.mp hr
        rw [List.mem_range'_1] at hi
        rw [hout ae (by simp) hio i hi.1 (by omega)]
        simp
      rw [this, List.nil_append]

theorem keep_seg (p : StorageP) (g : Grid) (pr : Nat → Rat) (I : List Nat) (hg : g.Ok) (hlp : p.lp = true)
    (sa m : Nat) (hP : pos g.idx I = List.range' sa m) :
    (storForm p g pr).keep I =
      if sep p then List.range' sa m ++ (List.range' sa m).map (g.T + ·) else List.range' sa m := by
  rw [storForm_keep p g pr I hg hlp, hP, hg.1]

theorem seg_le (g : Grid) (I : List Nat) (hg : g.Ok) (sa m : Nat) (hP : pos g.idx I = List.range' sa m)
    (hm : 0 < m) : sa + m ≤ g.T := by
  have : sa + m - 1 ∈ pos g.idx I := by rw [hP, List.mem_range'_1]; omega
  have := ((mem_pos g.idx I _).mp this).1
  rw [hg.1] at this
  omega

theorem idxOf_range' (sa m j : Nat) (h1 : sa ≤ j) (h2 : j < sa + m) : (List.range' sa m).idxOf j = j - sa := by
  have := idxOf_getD (List.range' sa m) (List.nodup_range' (step := 1) (by omega)) (j - sa) (by simp; omega)
  rw [range'_getD sa m (j - sa) (by omega)] at this
  have e : sa + (j - sa) = j := by omega
  rw [e] at this
  exact this

theorem keep_idx1 (p : StorageP) (g : Grid) (pr : Nat → Rat) (I : List Nat) (hg : g.Ok) (hlp : p.lp = true)
    (sa m : Nat) (hP : pos g.idx I = List.range' sa m) (j : Nat) (h1 : sa ≤ j) (h2 : j < sa + m) :
    j ∈ (storForm p g pr).keep I ∧ ((storForm p g pr).keep I).idxOf j = j - sa := by
  rw [keep_seg p g pr I hg hlp sa m hP]
  have hmem : j ∈ List.range' sa m := by rw [List.mem_range'_1]; omega
  by_cases hs : sep p = true
  · simp only [hs, if_true]
    exact ⟨List.mem_append_left _ hmem, by rw [idxOf_append_left _ _ _ hmem]; exact idxOf_range' sa m j h1 h2⟩
  · simp only [hs, Bool.false_eq_true, if_false]
    exact ⟨hmem, idxOf_range' sa m j h1 h2⟩

theorem keep_idx2 (p : StorageP) (g : Grid) (pr : Nat → Rat) (I : List Nat) (hg : g.Ok) (hlp : p.lp = true)
    (sa m : Nat) (hP : pos g.idx I = List.range' sa m) (hs : sep p = true) (j : Nat) (h1 : sa ≤ j) (h2 : j < sa + m) :
    g.T + j ∈ (storForm p g pr).keep I ∧ ((storForm p g pr).keep I).idxOf (g.T + j) = m + (j - sa) := by
  rw [keep_seg p g pr I hg hlp sa m hP]
  have hmem : j ∈ List.range' sa m := by rw [List.mem_range'_1]; omega
  have hle := seg_le g I hg sa m hP (by omega)
  simp only [hs, if_true]
  refine ⟨List.mem_append_right _ (List.mem_map_of_mem hmem), ?_⟩
  rw [idxOf_append_right _ _ _ (by rw [List.mem_range'_1]; omega),
    idxOf_map_inj (g.T + ·) (fun a b h => by omega), idxOf_range' sa m j h1 h2]
  simp

theorem keep_not_mem (p : StorageP) (g : Grid) (pr : Nat → Rat) (I : List Nat) (hg : g.Ok) (hlp : p.lp = true)
    (sa m : Nat) (hP : pos g.idx I = List.range' sa m) (j : Nat) (hj : j < g.T) (h : ¬ (sa ≤ j ∧ j < sa + m)) :
    j ∉ (storForm p g pr).keep I := by
  rw [keep_seg p g pr I hg hlp sa m hP]
  have hmem : j ∉ List.range' sa m := by rw [List.mem_range'_1]; omega
  by_cases hs : sep p = true
  · simp only [hs, if_true]
    intro hh
    rcases List.mem_append.mp hh with hh | hh
    · exact hmem hh
    · obtain ⟨k, _, hk⟩ := List.mem_map.mp hh
      have hk' : g.T + k = j := hk
      omega
  · simp only [hs, Bool.false_eq_true, if_false]
    exact hmem

/-- renaming the coefficients of a level row of the block `[a, ..)` inside the piece `[sa, sa+m)` -/
theorem levelCoeffs_rename (p : StorageP) (g : Grid) (pr : Nat → Rat) (I : List Nat) (hg : g.Ok) (hlp : p.lp = true)
    (sa m : Nat) (hP : pos g.idx I = List.range' sa m) (a i : Nat) (h1 : sa ≤ a) (h2 : a ≤ i) (h3 : i < sa + m) :
    (levelCoeffs p g.T a i).all (fun q => ((storForm p g pr).keep I).contains q.1) = true ∧
    (levelCoeffs p g.T a i).map (fun q => (((storForm p g pr).keep I).idxOf q.1, q.2)) =
      levelCoeffs p m (a - sa) (i - sa) := by
  have hk : i - sa + 1 - (a - sa) = i + 1 - a := by omega
  have hA : ∀ c : Rat, ((List.range' a (i + 1 - a)).map fun j => (j, c)).map
      (fun q => (((storForm p g pr).keep I).idxOf q.1, q.2)) =
      (List.range' (a - sa) (i + 1 - a)).map fun j => (j, c) := by
    intro c
    rw [range'_shift sa a _ h1, List.map_map, List.map_map]
    apply List.map_congr_left
    intro j hj
    rw [List.mem_range'_1] at hj
    simp only [Function.comp]
    rw [(keep_idx1 p g pr I hg hlp sa m hP (sa + j) (by omega) (by omega)).2]
    congr 1; omega
  have hB : sep p = true → ∀ c : Rat, ((List.range' a (i + 1 - a)).map fun j => (g.T + j, c)).map
      (fun q => (((storForm p g pr).keep I).idxOf q.1, q.2)) =
      (List.range' (a - sa) (i + 1 - a)).map fun j => (m + j, c) := by
    intro hs c
    rw [range'_shift sa a _ h1, List.map_map, List.map_map]
    apply List.map_congr_left
    intro j hj
    rw [List.mem_range'_1] at hj
    simp only [Function.comp]
    rw [(keep_idx2 p g pr I hg hlp sa m hP hs (sa + j) (by omega) (by omega)).2]
    congr 2; omega
  unfold levelCoeffs
  rw [hk]
  by_cases hs : sep p = true
  · simp only [hs, if_true, List.map_append, List.all_append, Bool.and_eq_true, List.all_eq_true]
    refine ⟨⟨?_, ?_⟩, ?_⟩
    · intro q hq
      obtain ⟨j, hj, rfl⟩ := List.mem_map.mp hq
      rw [List.mem_range'_1] at hj
      exact List.contains_iff_mem.mpr (keep_idx1 p g pr I hg hlp sa m hP j (by omega) (by omega)).1
    · intro q hq
      obtain ⟨j, hj, rfl⟩ := List.mem_map.mp hq
      rw [List.mem_range'_1] at hj
      exact List.contains_iff_mem.mpr (keep_idx2 p g pr I hg hlp sa m hP hs j (by omega) (by omega)).1
    · rw [hA, hB hs]
  · simp only [hs, Bool.false_eq_true, if_false, List.all_eq_true]
    refine ⟨?_, hA _⟩
    intro q hq
    obtain ⟨j, hj, rfl⟩ := List.mem_map.mp hq
    rw [List.mem_range'_1] at hj
    exact List.contains_iff_mem.mpr (keep_idx1 p g pr I hg hlp sa m hP j (by omega) (by omega)).1

/-- a level row of a block that starts outside the piece is dropped by the restriction -/
theorem levelCoeffs_out (p : StorageP) (g : Grid) (pr : Nat → Rat) (I : List Nat) (hg : g.Ok) (hlp : p.lp = true)
    (sa m : Nat) (hP : pos g.idx I = List.range' sa m) (a i : Nat) (h2 : a ≤ i) (h3 : i < g.T)
    (h : ¬ (sa ≤ a ∧ a < sa + m)) :
    (levelCoeffs p g.T a i).all (fun q => ((storForm p g pr).keep I).contains q.1) = false := by
  have hnot := keep_not_mem p g pr I hg hlp sa m hP a (by omega) h
  have hmem : a ∈ List.range' a (i + 1 - a) := by rw [List.mem_range'_1]; omega
  rw [Bool.eq_false_iff]
  intro hall
  rw [List.all_eq_true] at hall
  unfold levelCoeffs at hall
  by_cases hs : sep p = true
  · simp only [hs, if_true] at hall
    have := hall (a, -1 * p.effIn) (List.mem_append_left _ (List.mem_map.mpr ⟨a, hmem, rfl⟩))
    exact hnot (List.contains_iff_mem.mp this)
  · simp only [hs, Bool.false_eq_true, if_false] at hall
    have := hall (a, -1) (List.mem_map.mpr ⟨a, hmem, rfl⟩)
    exact hnot (List.contains_iff_mem.mp this)

theorem rhs_pick (p : StorageP) (g : Grid) (I : List Nat) (hg : g.Ok) (sa m : Nat)
    (hP : pos g.idx I = List.range' sa m) (hse : p.startLevel = p.endLevel) (a e i : Nat)
    (h1 : sa ≤ a) (h2 : a ≤ i) (h3 : i < sa + m) :
    upRhs p (g.pick I) (a - sa) (e - sa) (i - sa) = upRhs p g a e i ∧
    loRhs p (g.pick I) (a - sa) (e - sa) (i - sa) = loRhs p g a e i := by
  have hiff : (i - sa + 1 = e - sa) ↔ (i + 1 = e) := by omega
  have hbs : ∀ k, blockStart p k = p.startLevel := by intro k; unfold blockStart; split <;> simp [hse]
  have hinf : blockInfl p (g.pick I) (a - sa) (i - sa) = blockInfl p g a i := by
    unfold blockInfl
    rw [cumInfl_pick p g I hg sa m hP (i - sa + 1) (by omega), cumInfl_pick p g I hg sa m hP (a - sa) (by omega)]
    have e1 : sa + (i - sa + 1) = i + 1 := by omega
    have e2 : sa + (a - sa) = a := by omega
    rw [e1, e2]
    grind
  unfold upRhs loRhs
  rw [hinf, hbs, hbs]
  by_cases h : i + 1 = e
  · simp [h, hiff.mpr h]
  · have h' : ¬ (i - sa + 1 = e - sa) := fun hh => h (hiff.mp hh)
    simp [h, h']

theorem upperRow_none (p : StorageP) (g : Grid) (n a e i : Nat) (hd : p.maxStoreDuration = none) :
    upperRow p g n a e i = { coeffs := levelCoeffs p n a i, rhs := upRhs p g a e i, kind := .U } := by
  unfold upperRow; rw [hd]

/-- **The storage with time blocks, restricted to an interval.**  `bl` the blocks of the unsplit storage (each inside
    the interval's piece `[sa, sa+m)` of the storage's grid or disjoint from it), start level = end level, no storage
    costs: the restriction to the interval's steps is the storage with the blocks of that piece, written with the
    positions of the picked grid. -/
theorem blk_restrict (p : StorageP) (g : Grid) (pr prI : Nat → Rat) (I : List Nat) (hg : g.Ok) (hlp : p.lp = true)
    (hcs : p.costStore = 0) (hse : p.startLevel = p.endLevel) (sa m : Nat) (hP : pos g.idx I = List.range' sa m)
    (bl : List (Nat × Nat))
    (hbl : ∀ ae ∈ bl, ae.1 < ae.2 ∧ ae.2 ≤ g.T ∧ (inside sa m ae = true ∨ ae.2 ≤ sa ∨ sa + m ≤ ae.1))
    (hprI : ∀ j, j < (pos g.idx I).length → prI j = pr ((pos g.idx I).getD j 0)) :
    (blkForm p g pr bl).restrictTo I =
      blkForm p (g.pick I) prI ((bl.filter (inside sa m)).map (unshift sa)) := by
  obtain ⟨_, hd, _⟩ := lp_spec p hlp
  have hR := restart_restrict p g pr (fun _ => prI) [I] I hg hlp hcs (by simp) (List.pairwise_singleton _ _) hprI
  have hm : (g.pick I).T = m := by rw [pick_T g I hg, hP]; simp
  have hsplit : (blkForm p g pr bl).restrictTo I =
      { ((storForm p g pr).withIntervalRows [I] (fun I' => storForm p (g.pick I') prI)).restrictTo I with
        rows := restrictRows (blkForm p g pr bl) I (upperRows p g g.T bl ++ lowerRows p g g.T bl) } := rfl
  have hout : ∀ ae ∈ bl, inside sa m ae = false → ¬ (sa ≤ ae.1 ∧ ae.1 < sa + m) := by
    intro ae hae hio
    obtain ⟨h1, _, h3⟩ := hbl ae hae
    rcases h3 with h3 | h3 | h3
    · rw [hio] at h3; cases h3
    · omega
    · omega
  have hins : ∀ ae, inside sa m ae = true → sa ≤ ae.1 ∧ ae.2 ≤ sa + m := by
    intro ae h; unfold inside at h; simpa using h
  have hup : restrictRows (blkForm p g pr bl) I (upperRows p g g.T bl) =
      upperRows p (g.pick I) m ((bl.filter (inside sa m)).map (unshift sa)) := by
    unfold upperRows
    refine restrict_blocks _ I (fun a e i => upperRow p g g.T a e i) (fun a e i => upperRow p (g.pick I) m a e i) sa m bl
      (fun ae hae hio i hi1 hi2 => ?_) (fun ae hae hio i hi1 hi2 => ?_)
    · obtain ⟨k1, k2⟩ := hins ae hio
      obtain ⟨c1, c2⟩ := levelCoeffs_rename p g pr I hg hlp sa m hP ae.1 i k1 hi1 (by omega)
      simp only [upperRow_none _ _ _ _ _ _ hd]
      refine ⟨c1, ?_⟩
      rw [(rhs_pick p g I hg sa m hP hse ae.1 ae.2 i k1 hi1 (by omega)).1]
      exact congrArg (fun c => ({ coeffs := c, rhs := upRhs p g ae.1 ae.2 i, kind := .U } : Row)) c2
    · simp only [upperRow_none _ _ _ _ _ _ hd]
      exact levelCoeffs_out p g pr I hg hlp sa m hP ae.1 i hi1 (by have := (hbl ae hae).2.1; omega) (hout ae hae hio)
  have hlo : restrictRows (blkForm p g pr bl) I (lowerRows p g g.T bl) =
      lowerRows p (g.pick I) m ((bl.filter (inside sa m)).map (unshift sa)) := by
    unfold lowerRows
    refine restrict_blocks _ I (fun a e i => lowerRow p g g.T a e i) (fun a e i => lowerRow p (g.pick I) m a e i) sa m bl
      (fun ae hae hio i hi1 hi2 => ?_) (fun ae hae hio i hi1 hi2 => ?_)
    · obtain ⟨k1, k2⟩ := hins ae hio
      obtain ⟨c1, c2⟩ := levelCoeffs_rename p g pr I hg hlp sa m hP ae.1 i k1 hi1 (by omega)
      refine ⟨c1, ?_⟩
      unfold lowerRow
      rw [(rhs_pick p g I hg sa m hP hse ae.1 ae.2 i k1 hi1 (by omega)).2]
      exact congrArg (fun c => ({ coeffs := c, rhs := loRhs p g ae.1 ae.2 i, kind := .L } : Row)) c2
    · exact levelCoeffs_out p g pr I hg hlp sa m hP ae.1 i hi1 (by have := (hbl ae hae).2.1; omega) (hout ae hae hio)
  have hrows : restrictRows (blkForm p g pr bl) I (upperRows p g g.T bl ++ lowerRows p g g.T bl) =
      upperRows p (g.pick I) (g.pick I).T ((bl.filter (inside sa m)).map (unshift sa)) ++
      lowerRows p (g.pick I) (g.pick I).T ((bl.filter (inside sa m)).map (unshift sa)) := by
    rw [restrictRows_append, hm, hup, hlo]
  rw [hsplit, hR, hrows]
  rfl

/-! ## the blocked storage is banded; its rows stay inside the intervals -/

theorem mem_blkRows (p : StorageP) (g : Grid) (bl : List (Nat × Nat)) (hd : p.maxStoreDuration = none) (r : Row)
    (hr : r ∈ upperRows p g g.T bl ++ lowerRows p g g.T bl) :
    ∃ ae ∈ bl, ∃ i, ae.1 ≤ i ∧ i < ae.2 ∧ r.coeffs = levelCoeffs p g.T ae.1 i := by
  rcases List.mem_append.mp hr with hr | hr
  · obtain ⟨ae, hae, hr⟩ := List.mem_flatMap.mp hr
    obtain ⟨i, hi, rfl⟩ := List.mem_map.mp hr
    rw [List.mem_range'_1] at hi
    exact ⟨ae, hae, i, hi.1, by omega, by rw [upperRow_none _ _ _ _ _ _ hd]⟩
  · obtain ⟨ae, hae, hr⟩ := List.mem_flatMap.mp hr
    obtain ⟨i, hi, rfl⟩ := List.mem_map.mp hr
    rw [List.mem_range'_1] at hi
    exact ⟨ae, hae, i, hi.1, by omega, rfl⟩

theorem levelCoeffs_ok (p : StorageP) (g : Grid) (pr : Nat → Rat) (hlp : p.lp = true) (a i : Nat) (h1 : a ≤ i)
    (h2 : i < g.T) :
    levelCoeffs p g.T a i ≠ [] ∧ ∀ q ∈ levelCoeffs p g.T a i, q.1 < (storForm p g pr).n := by
  have hn := storForm_n p g pr hlp
  have hk : i + 1 - a = (i - a) + 1 := by omega
  unfold levelCoeffs
  by_cases hs : sep p = true
  · simp only [hs, if_true] at hn ⊢
    refine ⟨by rw [hk, List.range'_succ]; simp, ?_⟩
    intro q hq
    rcases List.mem_append.mp hq with hq | hq
    · obtain ⟨j, hj, rfl⟩ := List.mem_map.mp hq
      rw [List.mem_range'_1] at hj
      show j < _
      omega
    · obtain ⟨j, hj, rfl⟩ := List.mem_map.mp hq
      rw [List.mem_range'_1] at hj
      show g.T + j < _
      omega
  · simp only [hs, Bool.false_eq_true, if_false] at hn ⊢
    refine ⟨by rw [hk, List.range'_succ]; simp, ?_⟩
    intro q hq
    obtain ⟨j, hj, rfl⟩ := List.mem_map.mp hq
    rw [List.mem_range'_1] at hj
    show j < _
    omega

theorem blkForm_banded (p : StorageP) (g : Grid) (pr : Nat → Rat) (Tref : Nat) (bl : List (Nat × Nat)) (hg : g.Ok)
    (hlp : p.lp = true) (hidx : ∀ t ∈ g.idx, t < Tref) (hbl : ∀ ae ∈ bl, ae.2 ≤ g.T) :
    Banded (blkForm p g pr bl) Tref := by
  obtain ⟨_, hd, _⟩ := lp_spec p hlp
  refine storForm_banded p g pr Tref hg hlp hidx _ (fun r hr => ?_)
  obtain ⟨ae, hae, i, h1, h2, hc⟩ := mem_blkRows p g bl hd r hr
  rw [hc]
  exact levelCoeffs_ok p g pr hlp ae.1 i h1 (by have := hbl ae hae; omega)

theorem blkForm_rowsInside (p : StorageP) (g : Grid) (pr : Nat → Rat) (Is : List (List Nat)) (bl : List (Nat × Nat))
    (hg : g.Ok) (hlp : p.lp = true)
    (hbl : ∀ ae ∈ bl, ae.1 < ae.2 → ∃ I ∈ Is, ∃ sa m, pos g.idx I = List.range' sa m ∧ inside sa m ae = true) :
    RowsInside (blkForm p g pr bl) Is := by
  obtain ⟨_, hd, _⟩ := lp_spec p hlp
  intro r hr
  obtain ⟨ae, hae, i, h1, h2, hc⟩ := mem_blkRows p g bl hd r hr
  obtain ⟨I, hI, sa, m, hP, hin⟩ := hbl ae hae (by omega)
  have hins : sa ≤ ae.1 ∧ ae.2 ≤ sa + m := by unfold inside at hin; simpa using hin
  refine ⟨I, hI, fun q hq => ?_⟩
  rw [hc] at hq
  have hall := (levelCoeffs_rename p g pr I hg hlp sa m hP ae.1 i hins.1 h1 (by omega)).1
  rw [List.all_eq_true] at hall
  exact List.contains_iff_mem.mp (hall q hq)

/-! ## the blocks the code finds -/

theorem blockPairs_append_ok : ∀ (L : List Nat) (n : Nat), strictInc L = true → (∀ v ∈ L, v < n) →
    ∀ ae ∈ blockPairs (L ++ [n]), ae.1 < ae.2 ∧ ae.2 ≤ n
  | [], n, _, _ => by intro ae h; simp [blockPairs] at h
  | [a], n, _, h => by
    intro ae hae
    simp [blockPairs] at hae
    subst hae
    exact ⟨h a (by simp), Nat.le_refl _⟩
  | a :: b :: rest, n, hs, h => by
    intro ae hae
    have hs' : a < b ∧ strictInc (b :: rest) = true := by simpa [strictInc] using hs
    have hcons : blockPairs (a :: b :: rest ++ [n]) = (a, b) :: blockPairs (b :: rest ++ [n]) := by
      simp [blockPairs]
    rw [hcons] at hae
    rcases List.mem_cons.mp hae with rfl | hae
    · exact ⟨hs'.1, Nat.le_of_lt (h b (by simp))⟩
    · exact blockPairs_append_ok (b :: rest) n hs'.2 (fun v hv => h v (List.mem_cons_of_mem _ hv)) ae hae

/-- the blocks the code finds are non-empty and end inside the grid -/
theorem blocksOf_ok (p : StorageP) (n : Nat) (bl : List (Nat × Nat)) (h : blocksOf p n = .ok bl) (hn : 0 < n) :
    ∀ ae ∈ bl, ae.1 < ae.2 ∧ ae.2 ≤ n := by
  unfold blocksOf at h
  cases hb : p.blocks with
  | none =>
    simp only [hb] at h
    injection h with h
    subst h
    intro ae hae
    simp at hae
    subst hae
    exact ⟨hn, Nat.le_refl _⟩
  | some aa =>
    simp only [hb] at h
    by_cases hc : (strictInc aa && aa.all (fun v => decide (v < n))) = true
    · simp only [hc, if_true] at h
      simp only [Bool.and_eq_true, List.all_eq_true, decide_eq_true_eq] at hc
      cases aa with
      | nil => simp at h
      | cons a0 tl =>
        simp only at h
        by_cases h0 : a0 = 0
        · simp only [h0, if_true] at h
          injection h with h
          subst h
          have hwe : withEnd (0 :: tl) n = (0 :: tl) ++ [n] := by
            unfold withEnd
            rw [if_neg]
            intro hl
            have : n ∈ (0 :: tl) := List.mem_of_getLast? hl
            have := hc.2 n (h0 ▸ this)
            omega
          rw [hwe]
          exact blockPairs_append_ok (0 :: tl) n (h0 ▸ hc.1) (fun v hv => hc.2 v (h0 ▸ hv))
        · simp [h0] at h
    · simp [hc] at h

/-! ## one storage with time blocks in the split set-up -/

theorem restrict_window_eq (J : Grid) (s1 e1 s2 e2 : Int)
    (h : ∀ t ∈ J.pts, (decide (s1 ≤ t) && decide (t < e1)) = (decide (s2 ≤ t) && decide (t < e2))) :
    J.restrict s1 e1 = J.restrict s2 e2 := by
  have : J.mask s1 e1 = J.mask s2 e2 := List.map_congr_left h
  unfold Grid.restrict
  rw [this]

/-- in an interval the window `start or interval start .. stop or interval end` selects the same steps as the unsplit
    window, when the reference grid lies inside `[gs, ge)` -/
theorem interval_window_eq (ref : Grid) (dfJ : List Rat) (ab : Int × Int) (gs ge : Int) (start stop : Option Int)
    (hpts : ∀ t ∈ ref.pts, gs ≤ t ∧ t < ge) :
    ({ (ref.interval ab.1 ab.2) with df := dfJ } : Grid).restrict (start.getD ab.1) (stop.getD ab.2) =
    ({ (ref.interval ab.1 ab.2) with df := dfJ } : Grid).restrict (start.getD gs) (stop.getD ge) := by
  apply restrict_window_eq
  intro t ht
  have ht' : t ∈ sel (ref.pts.map fun p => decide (ab.1 ≤ p) && decide (p < ab.2)) ref.pts := ht
  rw [sel_map_self'] at ht'
  obtain ⟨h1, h2⟩ := List.mem_filter.mp ht'
  simp only [Bool.and_eq_true, decide_eq_true_eq] at h2
  obtain ⟨k1, k2⟩ := hpts t h1
  cases start <;> cases stop <;> simp [h2.1, h2.2, k1, k2]

/-- pair-level alignment of ONE storage: every block of the unsplit storage lies inside one interval's piece of the
    storage's grid or is disjoint from it, and the blocks the code computes in an interval are the unsplit blocks of
    that piece -/
def pairsAlignedAt (p : StorageP) (bs : Option Nat) (start stop : Option Int) (df : List Rat) (ref : Grid)
    (gs ge : Int) (cuts : List Int) : Bool :=
  let g := restrictedK ref gs ge start stop df
  match blocksOf { p with blocks := blocksOn ref gs ge bs start stop df } g.T with
  | .error _ => true
  | .ok bl =>
    (splitPairs cuts).all fun ab =>
      let I := intervalSteps ref ab
      let sa := g.segStart I
      let m := (g.posIn I).length
      bl.all (fun ae => inside sa m ae || decide (ae.2 ≤ sa) || decide (sa + m ≤ ae.1)) &&
      (m == 0 ||
        match blocksOf { p with blocks := (blocksOn (ref.interval ab.1 ab.2) ab.1 ab.2 bs start stop
            (sel (ref.mask ab.1 ab.2) df)) } m with
        | .ok blJ => blJ == (bl.filter (inside sa m)).map (unshift sa)
        | .error _ => false)

theorem storageK_facts (p : StorageP) (bs : Option Nat) (start stop : Option Int) (df : List Rat) (ref : Grid)
    (gs ge : Int) (cuts : List Int) (prices : Prices) (u : Nat) (A : AssetProblem)
    (hidx : ref.idx = List.range ref.T) (hdt : ref.dt.length = ref.T) (hdf : df.length = ref.T)
    (hprices : ∀ kv ∈ prices, kv.2.length = ref.T)
    (hpts : ∀ t ∈ ref.pts, gs ≤ t ∧ t < ge)
    (hst : storageStable { p with blocks := none } (restrictedK ref gs ge start stop df)
      ((splitPairs cuts).map (intervalSteps ref)) = true)
    (hse : p.startLevel = p.endLevel)
    (hal : pairsAlignedAt p bs start stop df ref gs ge cuts = true)
    (hA : buildSpecS ((SpecK.storage p bs start stop df).toS ref gs ge) ref prices u = .ok A) :
    Banded A ref.T ∧ RowsInside A ((splitPairs cuts).map (intervalSteps ref)) ∧
    ∀ ab ∈ splitPairs cuts,
      buildSpecS (((SpecK.storage p bs start stop df).onInterval ref ab).toS (ref.interval ab.1 ab.2) ab.1 ab.2)
        (ref.interval ab.1 ab.2) (intervalPrices ref ab prices) u = .ok (A.restrictTo (intervalSteps ref ab)) := by
  have hgdef : restrictedK ref gs ge start stop df =
      ({ ref with df := df } : Grid).restrict (start.getD gs) (stop.getD ge) := rfl
  have hg : (restrictedK ref gs ge start stop df).Ok := restrict_ok ref df (start.getD gs) (stop.getD ge) hidx hdt hdf
  have hlt : ∀ t ∈ (restrictedK ref gs ge start stop df).idx, t < ref.T :=
    restrict_idx_lt ({ ref with df := df } : Grid) _ _ hidx
  unfold storageStable at hst
  simp only [Bool.and_eq_true, decide_eq_true_eq] at hst
  obtain ⟨⟨hlp, hcs⟩, htl⟩ := hst
  have hcs' : ({ p with blocks := none } : StorageP).costStore = 0 := hcs
  have hse' : ({ p with blocks := none } : StorageP).startLevel = ({ p with blocks := none } : StorageP).endLevel := hse
  unfold pairsAlignedAt at hal
  simp only [] at hal
  have hA' : buildStorage { ({ p with blocks := none } : StorageP) with blocks := blocksOn ref gs ge bs start stop df }
      (restrictedK ref gs ge start stop df) ref.T prices = .ok A := hA
  generalize restrictedK ref gs ge start stop df = g at hg hlt htl hal hgdef hA'
  generalize hp0 : ({ p with blocks := none } : StorageP) = p0 at hlp hcs' hse' hA'
  obtain ⟨pr, bl, rfl, hbl0, hpr⟩ := buildStorage_blkForm p0 _ g ref.T prices A hg hlp hA'
  have e : ∀ X, ({ p0 with blocks := X } : StorageP) = { p with blocks := X } := fun X => by rw [← hp0]
  have hmle : ∀ I, (g.posIn I).length ≤ g.T := by
    intro I
    have : (g.posIn I).length ≤ (List.range g.idx.length).length := List.length_filter_le _ _
    rw [List.length_range, hg.1] at this
    exact this
  have hfacts : (∀ ae ∈ bl, ae.1 < ae.2 ∧ ae.2 ≤ g.T) ∧ ∀ ab ∈ splitPairs cuts,
      (∀ ae ∈ bl, inside (g.segStart (intervalSteps ref ab)) (g.posIn (intervalSteps ref ab)).length ae = true ∨
        ae.2 ≤ g.segStart (intervalSteps ref ab) ∨
        g.segStart (intervalSteps ref ab) + (g.posIn (intervalSteps ref ab)).length ≤ ae.1) ∧
      ((g.posIn (intervalSteps ref ab)).length ≠ 0 →
        blocksOf { p0 with blocks := (blocksOn (ref.interval ab.1 ab.2) ab.1 ab.2 bs start stop
            (sel (ref.mask ab.1 ab.2) df)) } (g.posIn (intervalSteps ref ab)).length =
          .ok ((bl.filter (inside (g.segStart (intervalSteps ref ab)) (g.posIn (intervalSteps ref ab)).length)).map
            (unshift (g.segStart (intervalSteps ref ab))))) := by
    by_cases hT : g.T = 0
    · rw [hbl0 hT]
      refine ⟨fun ae h => by simp at h, fun ab _ => ⟨fun ae h => by simp at h, fun hm => ?_⟩⟩
      have := hmle (intervalSteps ref ab)
      omega
    · have hb := (hpr hT).1
      rw [e] at hb
      rw [hb] at hal
      simp only [Bool.and_eq_true, List.all_eq_true, decide_eq_true_eq, Bool.or_eq_true, beq_iff_eq] at hal
      refine ⟨blocksOf_ok _ g.T bl hb (by omega), fun ab hab => ?_⟩
      obtain ⟨k1, k2⟩ := hal ab hab
      refine ⟨fun ae hae => ?_, fun hm => ?_⟩
      · rcases k1 ae hae with (h | h) | h
        · exact Or.inl h
        · exact Or.inr (Or.inl h)
        · exact Or.inr (Or.inr h)
      · rcases k2 with k2 | k2
        · exact absurd k2 hm
        · rw [e]
          revert k2
          cases blocksOf { p with blocks := (blocksOn (ref.interval ab.1 ab.2) ab.1 ab.2 bs start stop
            (sel (ref.mask ab.1 ab.2) df)) } (g.posIn (intervalSteps ref ab)).length with
          | error err => intro k2; cases k2
          | ok blJ => intro k2; rw [beq_iff_eq.mp k2]
  clear hal
  obtain ⟨hbl1, hbl2⟩ := hfacts
  have hseg := fun I hI => seg_of_tiles g ((splitPairs cuts).map (intervalSteps ref)) htl I hI
  refine ⟨blkForm_banded p0 g pr ref.T bl hg hlp hlt (fun ae hae => (hbl1 ae hae).2), ?_, ?_⟩
  · apply blkForm_rowsInside p0 g pr _ bl hg hlp
    intro ae hae _
    obtain ⟨h1, h2⟩ := hbl1 ae hae
    -- the piece that contains position `ae.1`
    have ht := htl
    unfold tiles at ht
    simp only [decide_eq_true_eq] at ht
    have hmem : ae.1 ∈ (((splitPairs cuts).map (intervalSteps ref)).map g.posIn).flatten := by
      rw [ht]; exact List.mem_range.mpr (by omega)
    obtain ⟨P, hP, haP⟩ := List.mem_flatten.mp hmem
    obtain ⟨I, hI, rfl⟩ := List.mem_map.mp hP
    obtain ⟨ab, hab, rfl⟩ := List.mem_map.mp hI
    have hpos := hseg _ hI
    refine ⟨_, hI, _, _, hpos, ?_⟩
    have haP' : ae.1 ∈ pos g.idx (intervalSteps ref ab) := haP
    rw [hpos, List.mem_range'_1] at haP'
    rcases (hbl2 ab hab).1 ae hae with h | h | h
    · exact h
    · omega
    · omega
  · intro ab hab
    have hI : intervalSteps ref ab ∈ (splitPairs cuts).map (intervalSteps ref) := List.mem_map_of_mem hab
    have hpos := hseg _ hI
    obtain ⟨hb1, hb2⟩ := hbl2 ab hab
    have hTI : (g.pick (intervalSteps ref ab)).T = (g.posIn (intervalSteps ref ab)).length := pick_T g _ hg
    have hgI := pick_ok g (intervalSteps ref ab) hg
    show buildStorage { p with blocks := (blocksOn (ref.interval ab.1 ab.2) ab.1 ab.2 bs start stop
        (sel (ref.mask ab.1 ab.2) df)) }
      (({ (ref.interval ab.1 ab.2) with df := sel (ref.mask ab.1 ab.2) df } : Grid).restrict
        (start.getD ab.1) (stop.getD ab.2)) (ref.interval ab.1 ab.2).T (intervalPrices ref ab prices) = _
    rw [← e, interval_window_eq ref _ ab gs ge start stop hpts, interval_restrict_eq_pick ref df ab _ _ hidx, ← hgdef,
      intervalPrices_eq_pick ref ab prices hidx hprices, interval_T ref ab hidx]
    obtain ⟨prI, hb, _, hprI⟩ := storageOn_form p0 g ref.T prices pr (intervalSteps ref ab) hg hlp
      (fun h => (hpr h).2)
    obtain ⟨pr', hEq, hpr'⟩ := buildStorage_form p0 (g.pick (intervalSteps ref ab)) _ _ _ hgI hlp hb
    rw [blk_restrict p0 g pr prI (intervalSteps ref ab) hg hlp hcs' hse' _ _ hpos bl
      (fun ae hae => ⟨(hbl1 ae hae).1, (hbl1 ae hae).2, hb1 ae hae⟩) hprI]
    have hsw : ∀ blI, blkForm p0 (g.pick (intervalSteps ref ab)) prI blI =
        blkForm p0 (g.pick (intervalSteps ref ab)) pr' blI := by
      intro blI; unfold blkForm; rw [hEq]
    rw [hsw]
    refine buildStorage_of_blkForm p0 _ (g.pick (intervalSteps ref ab)) _ _ pr' _ hgI hlp (fun h0 => ?_)
      (fun hne => ⟨?_, hpr' hne⟩)
    · rw [hTI] at h0
      rw [h0, List.map_eq_nil_iff, List.filter_eq_nil_iff]
      intro ae hae hin
      have := (hbl1 ae hae).1
      unfold inside at hin
      simp only [Bool.and_eq_true, decide_eq_true_eq] at hin
      omega
    · rw [hTI] at hne ⊢
      exact hb2 hne

/-! ## portfolios with storages in time blocks -/
open EAO.Split

/-- pair-level alignment of a portfolio: `pairsAlignedAt` for every storage -/
def pairsAligned (specs : List SpecK) (ref : Grid) (gs ge : Int) (cuts : List Int) : Bool :=
  specs.all fun a =>
    match a with
    | .builder _ => true
    | .storage p bs start stop df => pairsAlignedAt p bs start stop df ref gs ge cuts

/-- every storage: LP form apart from time blocks, no storage costs, start level = end level in `[0, size]` -/
def lpKAll (specs : List SpecK) : Bool :=
  specs.all fun a =>
    match a with
    | .builder _ => true
    | .storage p _ _ _ _ => p.lpK

theorem mapM_map' {ε α β γ} (f : β → Except ε γ) (k : α → β) : ∀ xs : List α,
    (xs.map k).mapM f = xs.mapM (fun x => f (k x))
  | [] => rfl
  | x :: xs => by rw [List.map_cons, List.mapM_cons, List.mapM_cons, mapM_map' f k xs]

/-- everything the portfolio theorem needs to know about one asset -/
theorem specK_facts (a : SpecK) (ref : Grid) (gs ge : Int) (cuts : List Int) (prices : Prices) (u : Nat)
    (A : AssetProblem)
    (hidx : ref.idx = List.range ref.T) (hdt : ref.dt.length = ref.T) (hdf : (a.unblocked gs ge).df.length = ref.T)
    (hprices : ∀ kv ∈ prices, kv.2.length = ref.T)
    (hcov : ∀ t, t < ref.T → ∃ I ∈ (splitPairs cuts).map (intervalSteps ref), t ∈ I)
    (hdis : ((splitPairs cuts).map (intervalSteps ref)).Pairwise fun I J => ∀ t ∈ I, t ∉ J)
    (hpts : ∀ t ∈ ref.pts, gs ≤ t ∧ t < ge)
    (hst : match a.unblocked gs ge with
      | .builder b => ∀ I ∈ (splitPairs cuts).map (intervalSteps ref),
          specStable b ((a.unblocked gs ge).grid ref) I prices = true
      | .storage p _ _ _ => storageStable p ((a.unblocked gs ge).grid ref) ((splitPairs cuts).map (intervalSteps ref)) = true)
    (hK : match a with | .builder _ => True | .storage p _ _ _ _ => p.lpK = true)
    (hal : match a with
      | .builder _ => True
      | .storage p bs start stop df => pairsAlignedAt p bs start stop df ref gs ge cuts = true)
    (hA : buildSpecS (a.toS ref gs ge) ref prices u = .ok A) :
    Banded A ref.T ∧ RowsInside A ((splitPairs cuts).map (intervalSteps ref)) ∧
    ∀ ab ∈ splitPairs cuts,
      buildSpecS ((a.onInterval ref ab).toS (ref.interval ab.1 ab.2) ab.1 ab.2)
        (ref.interval ab.1 ab.2) (intervalPrices ref ab prices) u = .ok (A.restrictTo (intervalSteps ref ab)) := by
  cases a with
  | builder b =>
    obtain ⟨f1, f2, f3, _⟩ := spec_restart_facts (.builder b) ref prices u _ A hidx hdt hdf hprices hcov hdis hst hA
    exact ⟨f1, f2, fun ab hab => f3 ab (List.mem_map_of_mem hab)⟩
  | storage p bs start stop df =>
    have hse : p.startLevel = p.endLevel := by
      unfold StorageP.lpK StorageP.levelOK at hK
      simp only [Bool.and_eq_true, decide_eq_true_eq] at hK
      exact hK.2.1.1
    exact storageK_facts p bs start stop df ref gs ge cuts prices u A hidx hdt hdf hprices hpts hst hse hal hA

theorem setupIntervalK_eq (specs : List SpecK) (ref : Grid) (prices : Prices) (u : Nat) (skip : List String)
    (ab : Int × Int) (as : List AssetProblem) (hidx : ref.idx = List.range ref.T)
    (hB : ∀ A ∈ as, Banded A ref.T)
    (hall : buildAllS (intervalSpecsK specs ref ab) (ref.interval ab.1 ab.2) (intervalPrices ref ab prices) u =
        .ok (as.map fun A => A.restrictTo (intervalSteps ref ab))) :
    setupIntervalK specs ref prices u skip ab =
      .ok (if (intervalProblem as skip (intervalSteps ref ab)).n = 0 then none
           else some (intervalProblem as skip (intervalSteps ref ab))) := by
  unfold setupIntervalK
  by_cases hT : (ref.interval ab.1 ab.2).T = 0
  · simp only [hT, if_true]
    have hI : intervalSteps ref ab = [] :=
      List.eq_nil_of_length_eq_zero (by rw [← interval_T ref ab hidx]; exact hT)
    have hn : (intervalProblem as skip (intervalSteps ref ab)).n = 0 := by
      rw [interval_n _ ref.T hB skip, hI]
      apply List.length_eq_zero_iff.mpr
      apply List.eq_nil_iff_forall_not_mem.mpr
      intro v hv
      obtain ⟨_, m, _, _, hs⟩ := (mem_pkeep _ _ _).mp hv
      simp at hs
    rw [if_pos hn]; rfl
  · simp only [hT, if_false]
    have hJidx : (ref.interval ab.1 ab.2).idx = List.range (intervalSteps ref ab).length := by
      show List.range _ = _
      rw [← interval_T ref ab hidx]; rfl
    unfold setupPortfolioS
    simp only [bind, Except.bind, hall, pure, Except.pure, hJidx]
    show (if (intervalProblem as skip (intervalSteps ref ab)).n = 0 then _
      else Except.ok (some (intervalProblem as skip _))) = _
    split <;> rfl

theorem setupSplitK_eq (specs : List SpecK) (ref : Grid) (cuts : List Int) (prices : Prices) (u : Nat)
    (skip : List String) (as : List AssetProblem) (hidx : ref.idx = List.range ref.T)
    (hprices : ∀ kv ∈ prices, kv.2.length = ref.T) (hB : ∀ A ∈ as, Banded A ref.T)
    (hall : ∀ ab ∈ splitPairs cuts,
      buildAllS (intervalSpecsK specs ref ab) (ref.interval ab.1 ab.2) (intervalPrices ref ab prices) u =
        .ok (as.map fun A => A.restrictTo (intervalSteps ref ab)))
    (hne : (((splitPairs cuts).map (intervalSteps ref)).map (intervalProblem as skip)).filter
        (fun P => P.n != 0) ≠ []) :
    setupSplitK specs ref cuts prices u skip =
      .ok ((((splitPairs cuts).map (intervalSteps ref)).map (intervalProblem as skip)).filter fun P => P.n != 0) := by
  unfold setupSplitK
  have hp : (prices.any fun kv => kv.2.length != ref.T) = false := by
    rw [Bool.eq_false_iff]
    intro h
    obtain ⟨kv, hkv, hb⟩ := List.any_eq_true.mp h
    simp [hprices kv hkv] at hb
  have hm := mapM_ok_of_forall (setupIntervalK specs ref prices u skip)
    (fun ab => if (intervalProblem as skip (intervalSteps ref ab)).n = 0 then none
      else some (intervalProblem as skip (intervalSteps ref ab))) (splitPairs cuts)
    (fun ab hab => setupIntervalK_eq specs ref prices u skip ab as hidx hB (hall ab hab))
  have hfm : ((splitPairs cuts).map fun ab => if (intervalProblem as skip (intervalSteps ref ab)).n = 0 then none
      else some (intervalProblem as skip (intervalSteps ref ab))).filterMap id =
      (((splitPairs cuts).map (intervalSteps ref)).map (intervalProblem as skip)).filter fun P => P.n != 0 := by
    rw [← filterMap_skip (intervalProblem as skip), List.map_map]
    rfl
  simp only [bind, Except.bind, hp, Bool.false_eq_true, if_false, hm, hfm, pure, Except.pure]
  have : ((((splitPairs cuts).map (intervalSteps ref)).map (intervalProblem as skip)).filter
      fun P => P.n != 0).isEmpty = false := by
    cases hh : (((splitPairs cuts).map (intervalSteps ref)).map (intervalProblem as skip)).filter
        fun P => P.n != 0 with
    | nil => exact absurd hh hne
    | cons _ _ => rfl
  rw [this]
  rfl

/-- **the split set-up of a portfolio with storages in time blocks is the split of the UNSPLIT problem**, under
    pair-level alignment -/
theorem blocks_split_witness (specs : List SpecK) (ref : Grid) (gs ge : Int) (cuts : List Int) (prices : Prices)
    (u : Nat) (skip : List String) (U : Problem)
    (hH : splitHypsS (specs.map fun a => a.unblocked gs ge) ref cuts prices = true)
    (hK : lpKAll specs = true) (hpts : ∀ t ∈ ref.pts, gs ≤ t ∧ t < ge)
    (hal : pairsAligned specs ref gs ge cuts = true)
    (hU : setupPortfolioK specs ref gs ge prices u skip = .ok U) (hpos : 0 < U.n) :
    ∃ ps, setupSplitK specs ref cuts prices u skip = .ok ps ∧
      splitWitness U ps (splitPerm U ((splitPairs cuts).map (intervalSteps ref))) = true := by
  obtain ⟨hidx, hdt, hdf, hprices, hpart, hst⟩ := splitHypsS_spec _ ref cuts prices hH
  obtain ⟨as, has, rfl⟩ := setupPortfolioS_ok hU
  obtain ⟨hcov, hdis⟩ := isPartition_spec _ _ hpart
  have hm : specs.mapM (fun a => buildSpecS (a.toS ref gs ge) ref prices u) = .ok as := by
    have := mapM_map' (fun s => buildSpecS s ref prices u) (fun a : SpecK => a.toS ref gs ge) specs
    rw [← this]; exact has
  unfold lpKAll at hK
  unfold pairsAligned at hal
  rw [List.all_eq_true] at hK hal
  have hfacts : ∀ a ∈ specs, ∀ A, buildSpecS (a.toS ref gs ge) ref prices u = .ok A →
      Banded A ref.T ∧ RowsInside A ((splitPairs cuts).map (intervalSteps ref)) ∧
      ∀ ab ∈ splitPairs cuts,
        buildSpecS ((a.onInterval ref ab).toS (ref.interval ab.1 ab.2) ab.1 ab.2)
          (ref.interval ab.1 ab.2) (intervalPrices ref ab prices) u = .ok (A.restrictTo (intervalSteps ref ab)) := by
    intro a ha A hA
    have hmem : a.unblocked gs ge ∈ specs.map fun a => a.unblocked gs ge := List.mem_map_of_mem ha
    refine specK_facts a ref gs ge cuts prices u A hidx hdt (hdf _ hmem) hprices hcov hdis hpts (hst _ hmem) ?_ ?_ hA
    · have := hK a ha
      cases a with
      | builder b => trivial
      | storage p bs start stop df => exact this
    · have := hal a ha
      cases a with
      | builder b => trivial
      | storage p bs start stop df => exact this
  have hB : ∀ A ∈ as, Banded A ref.T := by
    intro A hA
    obtain ⟨a, ha, hb⟩ := mapM_mem _ specs _ hm A hA
    exact (hfacts a ha A hb).1
  have hRI : ∀ A ∈ as, RowsInside A ((splitPairs cuts).map (intervalSteps ref)) := by
    intro A hA
    obtain ⟨a, ha, hb⟩ := mapM_mem _ specs _ hm A hA
    exact (hfacts a ha A hb).2.1
  have hall : ∀ ab ∈ splitPairs cuts,
      buildAllS (intervalSpecsK specs ref ab) (ref.interval ab.1 ab.2) (intervalPrices ref ab prices) u =
        .ok (as.map fun A => A.restrictTo (intervalSteps ref ab)) := by
    intro ab hab
    unfold buildAllS intervalSpecsK
    exact mapM_transfer _ _ _ _ specs _ hm (fun a ha A hA => (hfacts a ha A hA).2.2 ab hab)
  generalize hIs : (splitPairs cuts).map (intervalSteps ref) = Is at *
  rw [hidx] at hpos ⊢
  have hw := witness_of_banded as ref.T Is skip hB hpart hRI
  have hw' := splitWitness_filter _ _ _ (by
    intro P hP
    obtain ⟨I, _, rfl⟩ := List.mem_map.mp hP
    exact intervalProblem_rows_ne as ref.T hB skip I) hw
  refine ⟨_, ?_, hw'⟩
  have := setupSplitK_eq specs ref cuts prices u skip as hidx hprices hB hall
  rw [hIs] at this
  apply this
  intro hnil
  have hperm := splitPerm_isPerm as ref.T hB _ hpart
  have hlen : (Is.flatMap fun I => (assembleFrom 0 as).keep I).length = (assembleFrom 0 as).n := by
    unfold isPermOf at hperm
    simp only [Bool.and_eq_true, decide_eq_true_eq] at hperm
    exact hperm.1.1.1
  have hall0 : ∀ I ∈ Is, (assembleFrom 0 as).keep I = [] := by
    intro I hI
    have hmem : intervalProblem as skip I ∈ Is.map (intervalProblem as skip) := List.mem_map_of_mem hI
    have : ¬ ((intervalProblem as skip I).n != 0) = true := by
      intro hn
      have : intervalProblem as skip I ∈ (Is.map (intervalProblem as skip)).filter fun P => P.n != 0 :=
        List.mem_filter.mpr ⟨hmem, hn⟩
      rw [hnil] at this
      simp at this
    have hn0 : (intervalProblem as skip I).n = 0 := by simpa using this
    rw [interval_n as ref.T hB skip I] at hn0
    exact List.eq_nil_of_length_eq_zero hn0
  have : (Is.flatMap fun I => (assembleFrom 0 as).keep I) = [] := by
    apply List.eq_nil_iff_forall_not_mem.mpr
    intro v hv
    obtain ⟨I, hI, hvI⟩ := List.mem_flatMap.mp hv
    rw [hall0 I hI] at hvI
    simp at hvI
  rw [this] at hlen
  have hn : (assemble as (List.range ref.T) skip).n = (assembleFrom 0 as).n := assemble_n _ _ _
  rw [hn, ← hlen] at hpos
  simp at hpos
/-- **asset level**: the storage with time blocks built on the interval grid is the restriction of the unsplit storage
    with time blocks, when the blocks found in the interval are the unsplit blocks of the interval's piece -/
theorem blk_interval_build (p0 : StorageP) (aa aaI : Option (List Nat)) (g : Grid) (T : Nat) (prices : Prices)
    (A : AssetProblem) (bl : List (Nat × Nat)) (I : List Nat) (sa m : Nat)
    (hg : g.Ok) (hlp : p0.lp = true) (hcs : p0.costStore = 0) (hse : p0.startLevel = p0.endLevel)
    (hP : g.posIn I = List.range' sa m) (hT : 0 < g.T)
    (hbl : blocksOf { p0 with blocks := aa } g.T = .ok bl)
    (hal : ∀ ae ∈ bl, inside sa m ae = true ∨ ae.2 ≤ sa ∨ sa + m ≤ ae.1)
    (haaI : m ≠ 0 → blocksOf { p0 with blocks := aaI } m = .ok ((bl.filter (inside sa m)).map (unshift sa)))
    (hA : buildStorage { p0 with blocks := aa } g T prices = .ok A) :
    buildStorage { p0 with blocks := aaI } (g.pick I) I.length (pickPrices I prices) = .ok (A.restrictTo I) := by
  have hpos : pos g.idx I = List.range' sa m := hP
  obtain ⟨pr, bl', rfl, _, hpr⟩ := buildStorage_blkForm p0 aa g T prices A hg hlp hA
  have hTne : g.T ≠ 0 := by omega
  have hbb : bl' = bl := by
    have := (hpr hTne).1
    rw [hbl] at this
    injection this with this
    exact this.symm
  subst hbb
  have hbl1 := blocksOf_ok _ g.T bl' hbl hT
  have hTI : (g.pick I).T = m := by rw [pick_T g I hg, hpos]; simp
  have hgI := pick_ok g I hg
  obtain ⟨prI, hb, _, hprI⟩ := storageOn_form p0 g T prices pr I hg hlp (fun h => (hpr h).2)
  obtain ⟨pr', hEq, hpr'⟩ := buildStorage_form p0 (g.pick I) _ _ _ hgI hlp hb
  rw [blk_restrict p0 g pr prI I hg hlp hcs hse sa m hpos bl'
    (fun ae hae => ⟨(hbl1 ae hae).1, (hbl1 ae hae).2, hal ae hae⟩) hprI]
  have hsw : ∀ blI, blkForm p0 (g.pick I) prI blI = blkForm p0 (g.pick I) pr' blI := by
    intro blI; unfold blkForm; rw [hEq]
  rw [hsw]
  refine buildStorage_of_blkForm p0 _ (g.pick I) _ _ pr' _ hgI hlp (fun h0 => ?_) (fun hne => ⟨?_, hpr' hne⟩)
  · rw [hTI] at h0
    rw [h0, List.map_eq_nil_iff, List.filter_eq_nil_iff]
    intro ae hae hin
    have := (hbl1 ae hae).1
    unfold inside at hin
    simp only [Bool.and_eq_true, decide_eq_true_eq] at hin
    omega
  · rw [hTI] at hne ⊢
    exact haaI hne

/-! ## set-level alignment ⇒ pair-level alignment -/

theorem strictInc_pairwise : ∀ L : List Nat, strictInc L = true → L.Pairwise (· < ·)
  | [], _ => List.Pairwise.nil
  | [a], _ => by simp
  | a :: b :: rest, h => by
    have h' : a < b ∧ strictInc (b :: rest) = true := by simpa [strictInc] using h
    have ih := strictInc_pairwise (b :: rest) h'.2
    refine List.Pairwise.cons (fun v hv => ?_) ih
    rcases List.mem_cons.mp hv with rfl | hv
    · exact h'.1
    · have := (List.pairwise_cons.mp ih).1 v hv
      omega

theorem blockPairs_cons2 (x y : Nat) (rest : List Nat) :
    blockPairs (x :: y :: rest) = (x, y) :: blockPairs (y :: rest) := by simp [blockPairs]

/-- consecutive pairs of a strictly increasing list: neighbours -/
theorem mem_blockPairs : ∀ (L : List Nat), L.Pairwise (· < ·) → ∀ a e,
    ((a, e) ∈ blockPairs L ↔ a ∈ L ∧ e ∈ L ∧ a < e ∧ ∀ v ∈ L, ¬ (a < v ∧ v < e))
  | [], _, a, e => by simp [blockPairs]
  | [x], _, a, e => by
    simp [blockPairs]
    intro h1 h2; omega
  | x :: y :: rest, hp, a, e => by
    obtain ⟨hx, hp'⟩ := List.pairwise_cons.mp hp
    have ih := mem_blockPairs (y :: rest) hp' a e
    have hy := (List.pairwise_cons.mp hp').1
    rw [blockPairs_cons2, List.mem_cons, ih]
    constructor
    · rintro (h | ⟨h1, h2, h3, h4⟩)
      · injection h with h1 h2
        subst h1 h2
        refine ⟨by simp, by simp, hx e (by simp), fun v hv => ?_⟩
        rcases List.mem_cons.mp hv with rfl | hv
        · omega
        · rcases List.mem_cons.mp hv with rfl | hv
          · omega
          · have := hy v hv; omega
      · refine ⟨List.mem_cons_of_mem _ h1, List.mem_cons_of_mem _ h2, h3, fun v hv => ?_⟩
        rcases List.mem_cons.mp hv with rfl | hv
        · have := hx a h1; omega
        · exact h4 v hv
    · rintro ⟨h1, h2, h3, h4⟩
      have hcase : a = x ∨ a ∈ y :: rest := List.mem_cons.mp h1
      have hcase2 : e = x ∨ e ∈ y :: rest := List.mem_cons.mp h2
      rcases hcase with k1 | k1
      · left
        have he : e ∈ y :: rest := by
          rcases hcase2 with k2 | k2
          · omega
          · exact k2
        have : e = y := by
          rcases List.mem_cons.mp he with k3 | k3
          · exact k3
          · have := hy e k3
            have := h4 y (by simp)
            have := hx y (by simp)
            omega
        rw [this, k1]
      · right
        have he : e ∈ y :: rest := by
          rcases hcase2 with k2 | k2
          · have := hx a k1; omega
          · exact k2
        exact ⟨k1, he, h3, fun v hv => h4 v (List.mem_cons_of_mem _ hv)⟩

theorem blockPairs_sorted : ∀ (L : List Nat), L.Pairwise (· < ·) →
    (blockPairs L).Pairwise (fun p q => p.1 < q.1)
  | [], _ => by simp [blockPairs]
  | [x], _ => by simp [blockPairs]
  | x :: y :: rest, hp => by
    obtain ⟨hx, hp'⟩ := List.pairwise_cons.mp hp
    rw [blockPairs_cons2]
    refine List.Pairwise.cons (fun q hq => ?_) (blockPairs_sorted (y :: rest) hp')
    have : q.1 ∈ y :: rest := by
      have hq' : (q.1, q.2) ∈ blockPairs (y :: rest) := hq
      exact ((mem_blockPairs (y :: rest) hp' q.1 q.2).mp hq').1
    exact hx _ this

theorem eq_of_sorted_mem : ∀ (l1 l2 : List (Nat × Nat)), l1.Pairwise (fun p q => p.1 < q.1) →
    l2.Pairwise (fun p q => p.1 < q.1) → (∀ x, x ∈ l1 ↔ x ∈ l2) → l1 = l2
  | [], [], _, _, _ => rfl
  | [], b :: l2, _, _, h => by have := (h b).mpr (by simp); simp at this
  | a :: l1, [], _, _, h => by have := (h a).mp (by simp); simp at this
  | a :: l1, b :: l2, h1, h2, h => by
    obtain ⟨ha, h1'⟩ := List.pairwise_cons.mp h1
    obtain ⟨hb, h2'⟩ := List.pairwise_cons.mp h2
    have hab : a = b := by
      have m1 := (h a).mp (by simp)
      have m2 := (h b).mpr (by simp)
      rcases List.mem_cons.mp m1 with r | r
      · exact r
      · rcases List.mem_cons.mp m2 with r' | r'
        · exact r'.symm
        · have := hb a r; have := ha b r'; omega
    subst hab
    congr 1
    apply eq_of_sorted_mem l1 l2 h1' h2'
    intro x
    constructor
    · intro hx
      rcases List.mem_cons.mp ((h x).mp (List.mem_cons_of_mem _ hx)) with r | r
      · have := ha x hx; rw [r] at this; omega
      · exact r
    · intro hx
      rcases List.mem_cons.mp ((h x).mpr (List.mem_cons_of_mem _ hx)) with r | r
      · have := hb x hx; rw [r] at this; omega
      · exact r

theorem pairwise_unique {α} (R : α → α → Prop) : ∀ (l : List α), l.Pairwise R → ∀ x ∈ l, ∀ y ∈ l,
    ¬ R x y → ¬ R y x → x = y
  | [], _, x, hx, _, _, _, _ => by simp at hx
  | z :: l, hp, x, hx, y, hy, n1, n2 => by
    obtain ⟨hz, hp'⟩ := List.pairwise_cons.mp hp
    have c1 : x = z ∨ x ∈ l := List.mem_cons.mp hx
    have c2 : y = z ∨ y ∈ l := List.mem_cons.mp hy
    rcases c1 with k1 | k1
    · rcases c2 with k2 | k2
      · rw [k1, k2]
      · exact absurd (k1 ▸ hz y k2) n1
    · rcases c2 with k2 | k2
      · exact absurd (k2 ▸ hz x k1) n2
      · exact pairwise_unique R l hp' x k1 y k2 n1 n2

/-- the blocks the code finds are the consecutive pairs of the strictly increasing boundary list -/
theorem blocksOf_boundaries (p : StorageP) (n : Nat) (bl : List (Nat × Nat)) (h : blocksOf p n = .ok bl)
    (hn : 0 < n) :
    bl = blockPairs (boundariesOf p.blocks n) ∧ (boundariesOf p.blocks n).Pairwise (· < ·) ∧
    0 ∈ boundariesOf p.blocks n ∧ n ∈ boundariesOf p.blocks n ∧ ∀ v ∈ boundariesOf p.blocks n, v ≤ n := by
  have hn0 : ¬ (n = 0) := by omega
  unfold blocksOf at h
  unfold boundariesOf
  simp only [hn0, if_false]
  cases hb : p.blocks with
  | none =>
    simp only [hb] at h
    injection h with h
    subst h
    have hwe : withEnd [0] n = [0, n] := by
      unfold withEnd
      rw [if_neg]
      · rfl
      · simp; omega
    simp only [Option.getD_none, hwe]
    refine ⟨by simp [blockPairs], by simp; omega, by simp, by simp, ?_⟩
    intro v hv
    simp at hv
    omega
  | some aa =>
    simp only [hb] at h
    by_cases hc : (strictInc aa && aa.all (fun v => decide (v < n))) = true
    · simp only [hc, if_true] at h
      simp only [Bool.and_eq_true, List.all_eq_true, decide_eq_true_eq] at hc
      cases aa with
      | nil => simp at h
      | cons a0 tl =>
        simp only at h
        by_cases h0 : a0 = 0
        · simp only [h0, if_true] at h
          injection h with h
          subst h0
          have hwe : withEnd (0 :: tl) n = (0 :: tl) ++ [n] := by
            unfold withEnd
            rw [if_neg]
            intro hl
            have : n ∈ (0 :: tl) := List.mem_of_getLast? hl
            have := hc.2 n this
            omega
          simp only [Option.getD_some, hwe]
          refine ⟨by rw [← hwe]; exact h.symm, ?_, by simp, by simp, ?_⟩
          · rw [List.pairwise_append]
            refine ⟨strictInc_pairwise _ hc.1, by simp, fun a ha b hb => ?_⟩
            simp at hb
            subst hb
            exact hc.2 a ha
          · intro v hv
            rcases List.mem_append.mp hv with hv | hv
            · exact Nat.le_of_lt (hc.2 v hv)
            · simp at hv; omega
        · simp [h0] at h
    · simp [hc] at h

/-- the combinatorial core of the alignment: unsplit boundaries `U` = union of the shifted interval boundaries
    `LJ k` of the pieces `[sa k, sa k + m k)` -/
theorem aligned_core {κ} (U : List Nat) (K : List κ) (sa m : κ → Nat) (LJ : κ → List Nat)
    (hU : U.Pairwise (· < ·))
    (hLJ : ∀ k ∈ K, 0 < m k → (LJ k).Pairwise (· < ·) ∧ 0 ∈ LJ k ∧ m k ∈ LJ k ∧ ∀ v ∈ LJ k, v ≤ m k)
    (h0 : ∀ k ∈ K, m k = 0 → sa k = 0)
    (hsets : ∀ v, v ∈ U ↔ ∃ k ∈ K, 0 < m k ∧ ∃ w ∈ LJ k, v = w + sa k)
    (hpieces : ∀ k ∈ K, ∀ k' ∈ K, ∀ i, sa k ≤ i → i < sa k + m k → sa k' ≤ i → i < sa k' + m k' → k = k')
    (k : κ) (hk : k ∈ K) :
    (∀ ae ∈ blockPairs U, inside (sa k) (m k) ae = true ∨ ae.2 ≤ sa k ∨ sa k + m k ≤ ae.1) ∧
    (0 < m k → blockPairs (LJ k) = ((blockPairs U).filter (inside (sa k) (m k))).map (unshift (sa k))) := by
  have hin : ∀ ae : Nat × Nat, inside (sa k) (m k) ae = true ↔ sa k ≤ ae.1 ∧ ae.2 ≤ sa k + m k := by
    intro ae; unfold inside; simp
  constructor
  · intro ae hae
    by_cases hm : m k = 0
    · right; right; rw [h0 k hk hm, hm]; omega
    · obtain ⟨_, z0, zm, _⟩ := hLJ k hk (by omega)
      have u1 : sa k ∈ U := (hsets _).mpr ⟨k, hk, by omega, 0, z0, by omega⟩
      have u2 : sa k + m k ∈ U := (hsets _).mpr ⟨k, hk, by omega, m k, zm, by omega⟩
      have hae' : (ae.1, ae.2) ∈ blockPairs U := hae
      obtain ⟨_, _, _, hb⟩ := (mem_blockPairs U hU ae.1 ae.2).mp hae'
      have b1 := hb _ u1
      have b2 := hb _ u2
      rw [hin]
      omega
  · intro hm
    obtain ⟨zp, z0, zm, zle⟩ := hLJ k hk hm
    apply eq_of_sorted_mem _ _ (blockPairs_sorted _ zp)
    · rw [List.pairwise_map]
      refine List.Pairwise.imp_of_mem ?_ ((blockPairs_sorted U hU).filter _)
      intro p q hp hq hpq
      have := (hin p).mp (List.mem_filter.mp hp).2
      have := (hin q).mp (List.mem_filter.mp hq).2
      show p.1 - sa k < q.1 - sa k
      omega
    · intro x
      constructor
      · intro hx
        have hx' : (x.1, x.2) ∈ blockPairs (LJ k) := hx
        obtain ⟨x1, x2, x3, x4⟩ := (mem_blockPairs _ zp x.1 x.2).mp hx'
        have hx2le := zle _ x2
        refine List.mem_map.mpr ⟨(x.1 + sa k, x.2 + sa k), List.mem_filter.mpr ⟨?_, ?_⟩, ?_⟩
        · refine (mem_blockPairs U hU _ _).mpr ⟨(hsets _).mpr ⟨k, hk, hm, x.1, x1, rfl⟩,
            (hsets _).mpr ⟨k, hk, hm, x.2, x2, rfl⟩, by omega, ?_⟩
          intro v hv hbet
          obtain ⟨k', hk', hm', w', hw', hvw⟩ := (hsets v).mp hv
          have hw'le := (hLJ k' hk' hm').2.2.2 w' hw'
          by_cases hw0 : w' = 0
          · have := hpieces k hk k' hk' v (by omega) (by omega) (by omega) (by omega)
            subst this
            exact x4 w' hw' (by omega)
          · have := hpieces k hk k' hk' (v - 1) (by omega) (by omega) (by omega) (by omega)
            subst this
            exact x4 w' hw' (by omega)
        · rw [hin]; simp only; omega
        · unfold unshift
          simp
      · intro hx
        obtain ⟨ae, hae, rfl⟩ := List.mem_map.mp hx
        obtain ⟨hae1, hae2⟩ := List.mem_filter.mp hae
        have hi := (hin ae).mp hae2
        have hae' : (ae.1, ae.2) ∈ blockPairs U := hae1
        obtain ⟨y1, y2, y3, y4⟩ := (mem_blockPairs U hU ae.1 ae.2).mp hae'
        show (ae.1 - sa k, ae.2 - sa k) ∈ blockPairs (LJ k)
        refine (mem_blockPairs _ zp _ _).mpr ⟨?_, ?_, by omega, ?_⟩
        · obtain ⟨k', hk', hm', w', hw', hvw⟩ := (hsets ae.1).mp y1
          have hw'le := (hLJ k' hk' hm').2.2.2 w' hw'
          by_cases hwm : w' = m k'
          · by_cases hsa : ae.1 = sa k
            · rw [hsa, Nat.sub_self]; exact z0
            · have := hpieces k hk k' hk' (ae.1 - 1) (by omega) (by omega) (by omega) (by omega)
              subst this
              omega
          · have := hpieces k hk k' hk' ae.1 (by omega) (by omega) (by omega) (by omega)
            subst this
            have : ae.1 - sa k = w' := by omega
            rw [this]; exact hw'
        · obtain ⟨k', hk', hm', w', hw', hvw⟩ := (hsets ae.2).mp y2
          have hw'le := (hLJ k' hk' hm').2.2.2 w' hw'
          by_cases hw0 : w' = 0
          · by_cases hsa : ae.2 = sa k + m k
            · have : ae.2 - sa k = m k := by omega
              rw [this]; exact zm
            · have := hpieces k hk k' hk' ae.2 (by omega) (by omega) (by omega) (by omega)
              subst this
              omega
          · have := hpieces k hk k' hk' (ae.2 - 1) (by omega) (by omega) (by omega) (by omega)
            subst this
            have : ae.2 - sa k = w' := by omega
            rw [this]; exact hw'
        · intro w hw hbet
          exact y4 (w + sa k) ((hsets _).mpr ⟨k, hk, hm, w, hw, rfl⟩) (by omega)

theorem restrictedK_interval (ref : Grid) (gs ge : Int) (start stop : Option Int) (df : List Rat) (ab : Int × Int)
    (hidx : ref.idx = List.range ref.T) (hpts : ∀ t ∈ ref.pts, gs ≤ t ∧ t < ge) :
    restrictedK (ref.interval ab.1 ab.2) ab.1 ab.2 start stop (sel (ref.mask ab.1 ab.2) df) =
      (restrictedK ref gs ge start stop df).pick (intervalSteps ref ab) := by
  show ({ (ref.interval ab.1 ab.2) with df := sel (ref.mask ab.1 ab.2) df } : Grid).restrict
      (start.getD ab.1) (stop.getD ab.2) = _
  rw [interval_window_eq ref _ ab gs ge start stop hpts, interval_restrict_eq_pick ref df ab _ _ hidx]
  rfl

theorem segStart_nil (g : Grid) (I : List Nat) (h : (g.posIn I).length = 0) : g.segStart I = 0 := by
  unfold Grid.segStart
  rw [List.eq_nil_of_length_eq_zero h]
  rfl

/-- **set-level alignment ⇒ pair-level alignment** for one storage, when the block starts found in every interval
    with at least one step pass the checks of the builder -/
theorem pairsAlignedAt_of_sameSet (p : StorageP) (bs : Option Nat) (start stop : Option Int) (df : List Rat)
    (ref : Grid) (gs ge : Int) (cuts : List Int)
    (hidx : ref.idx = List.range ref.T) (hdt : ref.dt.length = ref.T) (hdf : df.length = ref.T)
    (hpts : ∀ t ∈ ref.pts, gs ≤ t ∧ t < ge)
    (htl : tiles (restrictedK ref gs ge start stop df) ((splitPairs cuts).map (intervalSteps ref)) = true)
    (hdis : ((splitPairs cuts).map (intervalSteps ref)).Pairwise fun I J => ∀ t ∈ I, t ∉ J)
    (hS : sameSet (unsplitBoundaries ref gs ge bs start stop df)
      (splitBoundaries ref gs ge cuts bs start stop df) = true)
    (hJ : (∃ bl, blocksOf { p with blocks := blocksOn ref gs ge bs start stop df }
        (restrictedK ref gs ge start stop df).T = .ok bl) →
      ∀ ab ∈ splitPairs cuts, ((restrictedK ref gs ge start stop df).posIn (intervalSteps ref ab)).length ≠ 0 →
      ∃ blJ, blocksOf { p with blocks := (blocksOn (ref.interval ab.1 ab.2) ab.1 ab.2 bs start stop
        (sel (ref.mask ab.1 ab.2) df)) }
        ((restrictedK ref gs ge start stop df).posIn (intervalSteps ref ab)).length = .ok blJ) :
    pairsAlignedAt p bs start stop df ref gs ge cuts = true := by
  have hg : (restrictedK ref gs ge start stop df).Ok := restrict_ok ref df (start.getD gs) (stop.getD ge) hidx hdt hdf
  have hgJT : ∀ ab, (restrictedK (ref.interval ab.1 ab.2) ab.1 ab.2 start stop (sel (ref.mask ab.1 ab.2) df)).T =
      ((restrictedK ref gs ge start stop df).posIn (intervalSteps ref ab)).length := by
    intro ab
    rw [restrictedK_interval ref gs ge start stop df ab hidx hpts]
    exact pick_T _ _ hg
  unfold splitBoundaries unsplitBoundaries at hS
  simp only [hgJT] at hS
  unfold pairsAlignedAt
  simp only []
  generalize restrictedK ref gs ge start stop df = g at *
  have hmle : ∀ I, (g.posIn I).length ≤ g.T := by
    intro I
    have : (g.posIn I).length ≤ (List.range g.idx.length).length := List.length_filter_le _ _
    rw [List.length_range, hg.1] at this
    exact this
  cases hb : blocksOf { p with blocks := blocksOn ref gs ge bs start stop df } g.T with
  | error err => rfl
  | ok bl =>
    have hJ := hJ ⟨bl, hb⟩
    simp only [List.all_eq_true, Bool.and_eq_true, Bool.or_eq_true, decide_eq_true_eq, beq_iff_eq]
    intro ab hab
    by_cases hT : g.T = 0
    · have hm0 : (g.posIn (intervalSteps ref ab)).length = 0 := by have := hmle (intervalSteps ref ab); omega
      refine ⟨fun ae _ => Or.inr ?_, Or.inl hm0⟩
      rw [segStart_nil g _ hm0, hm0]; omega
    · obtain ⟨e1, e2, e3, e4, e5⟩ := blocksOf_boundaries _ g.T bl hb (by omega)
      have e1' : bl = blockPairs (boundariesOf (blocksOn ref gs ge bs start stop df) g.T) := e1
      have e2' : (boundariesOf (blocksOn ref gs ge bs start stop df) g.T).Pairwise (· < ·) := e2
      have hseg := fun I hI => seg_of_tiles g ((splitPairs cuts).map (intervalSteps ref)) htl I hI
      have hLJ0 : ∀ k : Int × Int, (g.posIn (intervalSteps ref k)).length = 0 →
          boundariesOf (blocksOn (ref.interval k.1 k.2) k.1 k.2 bs start stop (sel (ref.mask k.1 k.2) df))
            (g.posIn (intervalSteps ref k)).length = [] := by
        intro k hk0; unfold boundariesOf; rw [if_pos hk0]
      simp only [sameSet, Bool.and_eq_true, List.all_eq_true, List.contains_iff_mem] at hS
      obtain ⟨hS1, hS2⟩ := hS
      have core := aligned_core (boundariesOf (blocksOn ref gs ge bs start stop df) g.T) (splitPairs cuts)
        (fun k => g.segStart (intervalSteps ref k)) (fun k => (g.posIn (intervalSteps ref k)).length)
        (fun k => boundariesOf (blocksOn (ref.interval k.1 k.2) k.1 k.2 bs start stop (sel (ref.mask k.1 k.2) df))
          (g.posIn (intervalSteps ref k)).length) e2'
        (fun k hk hm => by
          obtain ⟨blJ, hbJ⟩ := hJ k hk (by omega)
          obtain ⟨_, f2, f3, f4, f5⟩ := blocksOf_boundaries _ _ blJ hbJ hm
          exact ⟨f2, f3, f4, f5⟩)
        (fun k _ hm => segStart_nil g _ hm)
        (fun v => by
          constructor
          · intro hv
            obtain ⟨k, hk, hvk⟩ := List.mem_flatMap.mp (hS1 v hv)
            obtain ⟨w, hw, rfl⟩ := List.mem_map.mp hvk
            refine ⟨k, hk, ?_, w, hw, rfl⟩
            by_cases hk0 : (g.posIn (intervalSteps ref k)).length = 0
            · rw [hLJ0 k hk0] at hw; simp at hw
            · omega
          · rintro ⟨k, hk, _, w, hw, rfl⟩
            exact hS2 _ (List.mem_flatMap.mpr ⟨k, hk, List.mem_map.mpr ⟨w, hw, rfl⟩⟩))
        (fun k hk k' hk' i h1 h2 h3 h4 => by
          have hs := hseg _ (List.mem_map_of_mem (f := intervalSteps ref) hk)
          have hs' := hseg _ (List.mem_map_of_mem (f := intervalSteps ref) hk')
          have m1 : i ∈ pos g.idx (intervalSteps ref k) := by rw [hs, List.mem_range'_1]; omega
          have m2 : i ∈ pos g.idx (intervalSteps ref k') := by rw [hs', List.mem_range'_1]; omega
          have t1 := ((mem_pos _ _ _).mp m1).2
          have t2 := ((mem_pos _ _ _).mp m2).2
          have hpw : (splitPairs cuts).Pairwise
              (fun a b => ∀ t ∈ intervalSteps ref a, t ∉ intervalSteps ref b) := List.pairwise_map.mp hdis
          exact pairwise_unique _ _ hpw k hk k' hk' (fun h => h _ t1 t2) (fun h => h _ t2 t1))
        ab hab
      obtain ⟨c1, c2⟩ := core
      refine ⟨fun x hx => ?_, ?_⟩
      · rcases c1 x (e1' ▸ hx) with h | h | h
        · exact Or.inl (Or.inl h)
        · exact Or.inl (Or.inr h)
        · exact Or.inr h
      · by_cases hm : (g.posIn (intervalSteps ref ab)).length = 0
        · exact Or.inl hm
        · right
          obtain ⟨blJ, hbJ⟩ := hJ ab hab hm
          have hbj := (blocksOf_boundaries _ _ blJ hbJ (by omega)).1
          rw [hbJ]
          simp only [beq_iff_eq]
          rw [hbj, e1']
          exact c2 (by omega)

/-! ## `blockStartsTick` passes the checks of the builder -/

theorem pairwise_strictInc : ∀ L : List Nat, L.Pairwise (· < ·) → strictInc L = true
  | [], _ => rfl
  | [a], _ => rfl
  | a :: b :: rest, h => by
    obtain ⟨h1, h2⟩ := List.pairwise_cons.mp h
    simp only [strictInc, Bool.and_eq_true, decide_eq_true_eq]
    exact ⟨h1 b (by simp), pairwise_strictInc (b :: rest) h2⟩

theorem filter_len_mono (l : List Int) (d d' : Int) (h : d ≤ d') :
    (l.filter fun q => decide (q ≤ d)).length ≤ (l.filter fun q => decide (q ≤ d')).length := by
  induction l with
  | nil => simp
  | cons x xs ih =>
    by_cases h1 : x ≤ d
    · have h2 : x ≤ d' := by omega
      simp [h1, h2, ih]
    · by_cases h2 : x ≤ d'
      · simp [h1, h2]; omega
      · simp [h1, h2, ih]

/-- the tick dates: non-empty, starting at `start`, non-decreasing -/
theorem tickRange_spec (start stop : Int) (step : Nat) (hs : 0 < step) (hle : start ≤ stop) :
    ∃ rest, tickRange start stop step = start :: rest ∧ (start :: rest).Pairwise (· ≤ ·) := by
  have heq : tickRange start stop step =
      (List.range (((stop - start) / (step : Int)).toNat + 1)).map fun (k : Nat) => start + (k : Int) * (step : Int) := by
    unfold tickRange; rw [if_neg (by omega)]
  have hpw : (tickRange start stop step).Pairwise (· ≤ ·) := by
    rw [heq, List.pairwise_map]
    refine List.Pairwise.imp ?_ List.pairwise_lt_range
    intro a b hab
    have : (a : Int) * step ≤ (b : Int) * step := Int.mul_le_mul_of_nonneg_right (by omega) (by omega)
    omega
  rw [List.range_succ_eq_map, List.map_cons] at heq
  have h0 : start + ((0 : Nat) : Int) * (step : Int) = start := by simp
  rw [h0] at heq
  exact ⟨_, heq, heq ▸ hpw⟩

theorem go_spec (g : Grid) (pos : Int → Nat) : ∀ ds : List Int,
    (∀ v ∈ blockStartsTick.go g pos ds, ∃ d ∈ ds, v = pos d - 1) ∧
    (∀ d rest, ds = d :: rest → ∃ t, blockStartsTick.go g pos ds = (pos d - 1) :: t)
  | [] => by
    refine ⟨fun v hv => ?_, fun d rest h => by cases h⟩
    simp [blockStartsTick.go] at hv
  | d :: rest => by
    obtain ⟨ih, _⟩ := go_spec g pos rest
    refine ⟨fun v hv => ?_, fun d' rest' h => ?_⟩
    · unfold blockStartsTick.go at hv
      rcases List.mem_cons.mp hv with rfl | hv
      · exact ⟨d, by simp, rfl⟩
      · split at hv
        · simp at hv
        · obtain ⟨d', hd', rfl⟩ := ih v hv
          exact ⟨d', List.mem_cons_of_mem _ hd', rfl⟩
    · injection h with h1 h2
      subst h1
      unfold blockStartsTick.go
      exact ⟨_, rfl⟩

theorem go_sorted (g : Grid) (pos : Int → Nat) (hmono : ∀ d d', d ≤ d' → pos d ≤ pos d') : ∀ ds : List Int,
    ds.Pairwise (· ≤ ·) → (blockStartsTick.go g pos ds).Pairwise (· ≤ ·)
  | [], _ => by simp [blockStartsTick.go]
  | d :: rest, h => by
    obtain ⟨h1, h2⟩ := List.pairwise_cons.mp h
    unfold blockStartsTick.go
    refine List.Pairwise.cons (fun v hv => ?_) ?_
    · split at hv
      · simp at hv
      · obtain ⟨d', hd', rfl⟩ := (go_spec g pos rest).1 v hv
        have := hmono d d' (h1 d' hd')
        omega
    · split
      · simp
      · exact go_sorted g pos hmono rest h2

theorem dedupe_spec : ∀ (l acc : List Nat), acc.Pairwise (· < ·) → l.Pairwise (· ≤ ·) →
    (∀ x ∈ acc, ∀ y ∈ l, x ≤ y) →
    (l.foldl (fun acc a => if acc.contains a then acc else acc ++ [a]) acc).Pairwise (· < ·) ∧
    (∀ v ∈ l.foldl (fun acc a => if acc.contains a then acc else acc ++ [a]) acc, v ∈ acc ∨ v ∈ l) ∧
    ∃ t, l.foldl (fun acc a => if acc.contains a then acc else acc ++ [a]) acc = acc ++ t
  | [], acc, h1, _, _ => ⟨h1, fun v hv => Or.inl hv, [], by simp⟩
  | y :: l, acc, h1, h2, h3 => by
    obtain ⟨k1, k2⟩ := List.pairwise_cons.mp h2
    rw [List.foldl_cons]
    by_cases hc : acc.contains y = true
    · simp only [hc, if_true]
      obtain ⟨r1, r2, r3⟩ := dedupe_spec l acc h1 k2 (fun x hx y' hy' => h3 x hx y' (List.mem_cons_of_mem _ hy'))
      exact ⟨r1, fun v hv => (r2 v hv).imp id (List.mem_cons_of_mem _), r3⟩
    · simp only [hc, Bool.false_eq_true, if_false]
      have hny : y ∉ acc := fun h => hc (List.contains_iff_mem.mpr h)
      have hacc' : (acc ++ [y]).Pairwise (· < ·) := by
        rw [List.pairwise_append]
        refine ⟨h1, by simp, fun a ha b hb => ?_⟩
        simp at hb
        subst hb
        have := h3 a ha b (by simp)
        have : a ≠ b := fun h => hny (h ▸ ha)
        omega
      obtain ⟨r1, r2, t, r3⟩ := dedupe_spec l (acc ++ [y]) hacc' k2 (fun x hx y' hy' => by
        rcases List.mem_append.mp hx with hx | hx
        · exact h3 x hx y' (List.mem_cons_of_mem _ hy')
        · simp at hx; subst hx; exact k1 y' hy')
      refine ⟨r1, fun v hv => ?_, y :: t, by rw [r3]; simp⟩
      rcases r2 v hv with h | h
      · rcases List.mem_append.mp h with h | h
        · exact Or.inl h
        · simp at h; subst h; exact Or.inr (by simp)
      · exact Or.inr (List.mem_cons_of_mem _ h)

theorem blockStartsTick_ok (G : Grid) (s e : Int) (b : Nat) (hb : 0 < b) (hne : 0 < G.pts.length)
    (hwin : ∀ t ∈ G.pts, s ≤ t ∧ t < e) :
    (∃ t, blockStartsTick G s e b = 0 :: t) ∧ (blockStartsTick G s e b).Pairwise (· < ·) ∧
    ∀ v ∈ blockStartsTick G s e b, v < G.pts.length := by
  obtain ⟨t0, ht0⟩ := List.exists_mem_of_length_pos hne
  have hw0 := hwin t0 ht0
  obtain ⟨rest, hds, hpw⟩ := tickRange_spec (s - b) e b hb (by omega)
  have hmono : ∀ d d' : Int, d ≤ d' →
      (G.pts.filter fun q => decide (q ≤ d)).length ≤ (G.pts.filter fun q => decide (q ≤ d')).length :=
    fun d d' h => filter_len_mono G.pts d d' h
  have hpos0 : (G.pts.filter fun q => decide (q ≤ s - (b : Int))).length = 0 := by
    rw [List.length_eq_zero_iff, List.filter_eq_nil_iff]
    intro q hq
    have := hwin q hq
    simp only [decide_eq_true_eq]
    omega
  unfold blockStartsTick
  simp only []
  rw [hds]
  obtain ⟨gmem, ghead⟩ := go_spec G (fun d => (G.pts.filter fun q => decide (q ≤ d)).length) ((s - (b : Int)) :: rest)
  obtain ⟨t, ht⟩ := ghead _ _ rfl
  have hsorted := go_sorted G (fun d => (G.pts.filter fun q => decide (q ≤ d)).length) hmono _ hpw
  rw [ht] at hsorted gmem ⊢
  simp only [hpos0] at hsorted gmem ⊢
  obtain ⟨k1, k2⟩ := List.pairwise_cons.mp hsorted
  rw [List.foldl_cons]
  have hc : ([] : List Nat).contains 0 = false := rfl
  simp only [hc, Bool.false_eq_true, if_false, List.nil_append]
  obtain ⟨r1, r2, t', r3⟩ := dedupe_spec t [0] (by simp) k2 (fun x _ y _ => by simp at *; omega)
  refine ⟨⟨t', by rw [r3]; rfl⟩, r1, fun v hv => ?_⟩
  rcases r2 v hv with h | h
  · simp at h; omega
  · obtain ⟨d, _, hd⟩ := gmem v (List.mem_cons_of_mem _ h)
    have hle : (G.pts.filter fun q => decide (q ≤ d)).length ≤ G.pts.length := List.length_filter_le _ _
    have hd' : v = (G.pts.filter fun q => decide (q ≤ d)).length - 1 := hd
    omega

theorem blockStartsTick_zero (G : Grid) (s e : Int) : blockStartsTick G s e 0 = [] := by
  unfold blockStartsTick
  simp only []
  have : tickRange (s - ((0 : Nat) : Int)) e 0 = [] := by unfold tickRange; rw [if_pos (Or.inl rfl)]
  rw [this]
  simp [blockStartsTick.go]

/-- the block starts the code computes on a grid with at least one step, all of whose points lie in the window, pass
    the checks of the builder -/
theorem blocksOf_tick_ok (p : StorageP) (G : Grid) (s e : Int) (bs : Option Nat) (hne : 0 < G.pts.length)
    (hwin : ∀ t ∈ G.pts, s ≤ t ∧ t < e) (hb : ∀ b, bs = some b → 0 < b) :
    ∃ blJ, blocksOf { p with blocks := bs.map fun b => blockStartsTick G s e b } G.pts.length = .ok blJ := by
  cases bs with
  | none => exact ⟨[(0, G.pts.length)], rfl⟩
  | some b =>
    obtain ⟨⟨t, ht⟩, h2, h3⟩ := blockStartsTick_ok G s e b (hb b rfl) hne hwin
    have hs := pairwise_strictInc _ h2
    unfold blocksOf
    simp only [Option.map_some]
    generalize blockStartsTick G s e b = aa at *
    subst ht
    have hall : (List.all (0 :: t) fun v => decide (v < G.pts.length)) = true := by
      rw [List.all_eq_true]; intro v hv; simpa using h3 v hv
    rw [hs, hall]
    exact ⟨_, rfl⟩

theorem restrict_pts_win (J : Grid) (s e : Int) : ∀ t ∈ (J.restrict s e).pts, s ≤ t ∧ t < e := by
  intro t ht
  have ht' : t ∈ sel (J.pts.map fun p => decide (s ≤ p) && decide (p < e)) J.pts := ht
  rw [sel_map_self'] at ht'
  have := (List.mem_filter.mp ht').2
  simpa using this

/-- **the bridge**: under the hypotheses of the split theorem for the portfolio without blocks and with the reference
    grid inside `[gs, ge)`, alignment of the block boundaries as SETS gives the pair-level alignment -/
theorem pairsAligned_of_blocksAligned (specs : List SpecK) (ref : Grid) (gs ge : Int) (cuts : List Int)
    (prices : Prices) (hH : splitHypsS (specs.map fun a => a.unblocked gs ge) ref cuts prices = true)
    (hpts : ∀ t ∈ ref.pts, gs ≤ t ∧ t < ge) (hA : blocksAligned specs ref gs ge cuts = true) :
    pairsAligned specs ref gs ge cuts = true := by
  obtain ⟨hidx, hdt, hdf, _, hpart, hst⟩ := splitHypsS_spec _ ref cuts prices hH
  obtain ⟨_, hdis⟩ := isPartition_spec _ _ hpart
  unfold blocksAligned at hA
  unfold pairsAligned
  rw [List.all_eq_true] at hA ⊢
  intro a ha
  have hAa := hA a ha
  cases a with
  | builder b => rfl
  | storage p bs start stop df =>
    have hmem : (SpecK.storage p bs start stop df).unblocked gs ge ∈ specs.map fun a => a.unblocked gs ge :=
      List.mem_map_of_mem ha
    have hst' : storageStable { p with blocks := none } (restrictedK ref gs ge start stop df)
        ((splitPairs cuts).map (intervalSteps ref)) = true := hst _ hmem
    have hdf' : df.length = ref.T := hdf _ hmem
    have htl : tiles (restrictedK ref gs ge start stop df) ((splitPairs cuts).map (intervalSteps ref)) = true := by
      unfold storageStable at hst'
      simp only [Bool.and_eq_true] at hst'
      exact hst'.2
    have hg : (restrictedK ref gs ge start stop df).Ok :=
      restrict_ok ref df (start.getD gs) (stop.getD ge) hidx hdt hdf'
    refine pairsAlignedAt_of_sameSet p bs start stop df ref gs ge cuts hidx hdt hdf' hpts htl hdis hAa ?_
    rintro ⟨bl, hbl⟩ ab hab hm
    have hgJ := restrictedK_interval ref gs ge start stop df ab hidx hpts
    have hlen : (restrictedK (ref.interval ab.1 ab.2) ab.1 ab.2 start stop (sel (ref.mask ab.1 ab.2) df)).pts.length =
        ((restrictedK ref gs ge start stop df).posIn (intervalSteps ref ab)).length := by
      show (restrictedK (ref.interval ab.1 ab.2) ab.1 ab.2 start stop (sel (ref.mask ab.1 ab.2) df)).T = _
      rw [hgJ]; exact pick_T _ _ hg
    have hb : ∀ b, bs = some b → 0 < b := by
      intro b hbs
      subst hbs
      by_cases h0 : b = 0
      · subst h0
        exfalso
        have : blocksOn ref gs ge (some 0) start stop df = some [] := by
          unfold blocksOn
          simp only [Option.map_some]
          rw [blockStartsTick_zero]
        rw [this] at hbl
        simp [blocksOf, strictInc] at hbl
      · omega
    obtain ⟨blJ, h⟩ := blocksOf_tick_ok p
      (restrictedK (ref.interval ab.1 ab.2) ab.1 ab.2 start stop (sel (ref.mask ab.1 ab.2) df))
      (start.getD ab.1) (stop.getD ab.2) bs (by omega) (restrict_pts_win _ _ _) hb
    rw [hlen] at h
    exact ⟨blJ, h⟩
end EAO.BlockSplit
