import EAO.Model.Storage
import EAO.Model.Assemble
import EAO.Lemmas.Storage
import EAO.Lemmas.Nodal
import EAO.Lemmas.Blocks
/-! helper lemmas for the C05 reporting theorems (`EAO/Properties/C05Readout.lean`): the storage read-outs
    (`chargeOut`, `dischargeOut`, `fillInc`, `fillLevel`) applied to a PORTFOLIO mapping built by `assemble`
    only see the storage's own mapping rows, shifted by the storage's offset; their values on the storage's
    own mapping; the chain of time blocks without any assumption on the end level -/
namespace EAO.StorageReadout
open EAO EAO.Storage

/-- the part of a portfolio solution `x` that belongs to the asset whose block of variables starts at `off` -/
def slice (off : Nat) (x : Vec) : Vec := fun j => x (off + j)

/-- offset of the asset that follows the assets `pre` in the asset list -/
def offsetOf (pre : List AssetProblem) : Nat := (pre.map (·.n)).sum

/-! ### a filter that selects rows of one asset only sees that asset's block -/

theorem filter_shift (q : MapRow → Bool) (hq : ∀ o m, q (m.shift o) = q m) (L : List MapRow) (off : Nat) :
    (L.map (MapRow.shift off)).filter q = (L.filter q).map (MapRow.shift off) := by
  rw [List.filter_map]
  congr 1
  apply List.filter_congr
  intro m _
  exact hq off m

/-- `q` rejects every (shifted) mapping row of the assets `bs` -/
theorem filter_others_nil (q : MapRow → Bool) (bs : List AssetProblem) (off : Nat)
    (h : ∀ b ∈ bs, ∀ m ∈ b.mapping, ∀ o, q (m.shift o) = false) :
    (assembleFrom off bs).mapping.filter q = [] := by
  apply List.filter_eq_nil_iff.mpr
  intro m hm
  obtain ⟨b, hb, m', hm', o, rfl⟩ := mem_assembleFrom_mapping bs off m hm
  rw [h b hb m' hm' o]
  simp

/-- the rows a filter `q` selects from the concatenated mapping, if `q` rejects all rows of the other assets:
    the selected rows of `a`, shifted by `a`'s offset -/
theorem filter_embedded (q : MapRow → Bool) (hq : ∀ o m, q (m.shift o) = q m)
    (pre suf : List AssetProblem) (a : AssetProblem) (off : Nat)
    (hpre : ∀ b ∈ pre, ∀ m ∈ b.mapping, q m = false)
    (hsuf : ∀ b ∈ suf, ∀ m ∈ b.mapping, q m = false) :
    (assembleFrom off (pre ++ a :: suf)).mapping.filter q
      = (a.mapping.filter q).map (MapRow.shift (off + offsetOf pre)) := by
  induction pre generalizing off with
  | nil =>
    rw [List.nil_append, assembleFrom_cons_mapping, List.filter_append, filter_shift q hq,
      filter_others_nil q suf _ (fun b hb m hm o => by rw [hq]; exact hsuf b hb m hm)]
    simp [offsetOf]
  | cons b pre ih =>
    rw [List.cons_append, assembleFrom_cons_mapping, List.filter_append, filter_shift q hq]
    have h1 : b.mapping.filter q = [] := by
      apply List.filter_eq_nil_iff.mpr
      intro m hm
      rw [hpre b (by simp) m hm]
      simp
    rw [h1, ih (off + b.n) (fun b' hb' => hpre b' (List.mem_cons_of_mem _ hb'))]
    simp only [List.map_nil, List.nil_append, offsetOf, List.map_cons, List.sum_cons]
    congr 2
    omega

theorem assemble_mapping (as : List AssetProblem) (gridI : List Nat) (skip : List String) :
    (assemble as gridI skip).mapping = (assembleFrom 0 as).mapping := rfl

/-- the same for the assembled portfolio problem (the nodal rows do not touch the mapping) -/
theorem filter_assemble (q : MapRow → Bool) (hq : ∀ o m, q (m.shift o) = q m)
    (pre suf : List AssetProblem) (a : AssetProblem) (gridI : List Nat) (skip : List String)
    (hoth : ∀ b ∈ pre ++ suf, ∀ m ∈ b.mapping, q m = false) :
    (assemble (pre ++ a :: suf) gridI skip).mapping.filter q
      = (a.mapping.filter q).map (MapRow.shift (offsetOf pre)) := by
  rw [assemble_mapping, filter_embedded q hq pre suf a 0
    (fun b hb => hoth b (List.mem_append_left _ hb)) (fun b hb => hoth b (List.mem_append_right _ hb))]
  simp

/-! ### the three read-outs on an embedded mapping -/

/-- the row filter of `chargeOut` / `dischargeOut` -/
def cdSel (p : StorageP) (t : Nat) (m : MapRow) : Bool :=
  m.asset == p.name && m.kind == .d &&
    (match m.node with | some nn => p.nodes.contains nn | none => false) && m.step == t

theorem cdSel_shift (p : StorageP) (t : Nat) (o : Nat) (m : MapRow) : cdSel p t (m.shift o) = cdSel p t m := rfl

theorem cdSel_other (p : StorageP) (t : Nat) (m : MapRow) (h : m.asset ≠ p.name) : cdSel p t m = false := by
  unfold cdSel
  have : (m.asset == p.name) = false := by simpa using h
  rw [this]
  rfl

/-- the row filter of `storageDispRows` -/
def dSel (name : String) (m : MapRow) : Bool := m.asset == name && m.kind == .d

theorem dSel_shift (name : String) (o : Nat) (m : MapRow) : dSel name (m.shift o) = dSel name m := rfl

theorem dSel_other (name : String) (m : MapRow) (h : m.asset ≠ name) : dSel name m = false := by
  unfold dSel
  have : (m.asset == name) = false := by simpa using h
  rw [this]
  rfl

theorem contains_map_add (off v : Nat) (seen : List Nat) :
    (seen.map (off + ·)).contains (off + v) = seen.contains v := by
  induction seen with
  | nil => rfl
  | cons s seen ih =>
    simp only [List.map_cons, List.contains_cons, ih]
    have : (off + v == off + s) = (v == s) := by
      by_cases h : v = s
      · subst h; rw [beq_self_eq_true, beq_self_eq_true]
      · have h' : ¬ off + v = off + s := by omega
        rw [beq_eq_false_iff_ne.mpr h, beq_eq_false_iff_ne.mpr h']
    rw [this]

/-- `firstRows` commutes with shifting the variable indices -/
theorem firstRows_shift (off : Nat) (L : List MapRow) : ∀ seen : List Nat,
    firstRows (L.map (MapRow.shift off)) (seen.map (off + ·)) = (firstRows L seen).map (MapRow.shift off) := by
  induction L with
  | nil => intro _; rfl
  | cons m L ih =>
    intro seen
    rw [List.map_cons]
    unfold firstRows
    rw [shift_var, contains_map_add]
    by_cases hs : seen.contains m.var = true
    · rw [if_pos hs, if_pos hs]; exact ih seen
    · rw [if_neg hs, if_neg hs, List.map_cons]
      congr 1
      exact ih (m.var :: seen)

theorem chargeOut_shift (p : StorageP) (L : List MapRow) (off : Nat) (x : Vec) (t : Nat) :
    ((((L.filter (cdSel p t)).map (MapRow.shift off))).map fun m => posPart (-(x m.var)) * m.factor).sum
      = ((L.filter (cdSel p t)).map fun m => posPart (-(slice off x m.var)) * m.factor).sum := by
  rw [List.map_map]
  rfl

theorem dischargeOut_shift (p : StorageP) (L : List MapRow) (off : Nat) (x : Vec) (t : Nat) :
    ((((L.filter (cdSel p t)).map (MapRow.shift off))).map fun m => negPart (-(x m.var)) * m.factor).sum
      = ((L.filter (cdSel p t)).map fun m => negPart (-(slice off x m.var)) * m.factor).sum := by
  rw [List.map_map]
  rfl

/-- **charge column, embedded**: on the mapping of a portfolio in which no other asset's rows carry the
    storage's name, `chargeOut` is `chargeOut` on the asset's own mapping and own slice of the solution -/
theorem chargeOut_embedded (p : StorageP) (pre suf : List AssetProblem) (a : AssetProblem)
    (gridI : List Nat) (skip : List String)
    (hoth : ∀ b ∈ pre ++ suf, ∀ m ∈ b.mapping, m.asset ≠ p.name) (x : Vec) (t : Nat) :
    chargeOut p (assemble (pre ++ a :: suf) gridI skip).mapping x t
      = chargeOut p a.mapping (slice (offsetOf pre) x) t := by
  show ((((assemble (pre ++ a :: suf) gridI skip).mapping.filter (cdSel p t))).map _).sum
    = ((a.mapping.filter (cdSel p t)).map _).sum
  rw [filter_assemble (cdSel p t) (cdSel_shift p t) pre suf a gridI skip
    (fun b hb m hm => cdSel_other p t m (hoth b hb m hm))]
  exact chargeOut_shift p a.mapping _ x t

theorem dischargeOut_embedded (p : StorageP) (pre suf : List AssetProblem) (a : AssetProblem)
    (gridI : List Nat) (skip : List String)
    (hoth : ∀ b ∈ pre ++ suf, ∀ m ∈ b.mapping, m.asset ≠ p.name) (x : Vec) (t : Nat) :
    dischargeOut p (assemble (pre ++ a :: suf) gridI skip).mapping x t
      = dischargeOut p a.mapping (slice (offsetOf pre) x) t := by
  show ((((assemble (pre ++ a :: suf) gridI skip).mapping.filter (cdSel p t))).map _).sum
    = ((a.mapping.filter (cdSel p t)).map _).sum
  rw [filter_assemble (cdSel p t) (cdSel_shift p t) pre suf a gridI skip
    (fun b hb m hm => cdSel_other p t m (hoth b hb m hm))]
  exact dischargeOut_shift p a.mapping _ x t

theorem storageDispRows_embedded (name : String) (pre suf : List AssetProblem) (a : AssetProblem)
    (gridI : List Nat) (skip : List String)
    (hoth : ∀ b ∈ pre ++ suf, ∀ m ∈ b.mapping, m.asset ≠ name) :
    storageDispRows (assemble (pre ++ a :: suf) gridI skip).mapping name
      = (storageDispRows a.mapping name).map (MapRow.shift (offsetOf pre)) := by
  show firstRows ((assemble (pre ++ a :: suf) gridI skip).mapping.filter (dSel name)) []
    = (firstRows (a.mapping.filter (dSel name)) []).map _
  rw [filter_assemble (dSel name) (dSel_shift name) pre suf a gridI skip
    (fun b hb m hm => dSel_other name m (hoth b hb m hm))]
  exact firstRows_shift (offsetOf pre) _ []

/-- **fill-level increment, embedded** -/
theorem fillInc_embedded (p : StorageP) (g : Grid) (pre suf : List AssetProblem) (a : AssetProblem)
    (gridI : List Nat) (skip : List String)
    (hoth : ∀ b ∈ pre ++ suf, ∀ m ∈ b.mapping, m.asset ≠ p.name) (x : Vec) (t : Nat) :
    fillInc p (assemble (pre ++ a :: suf) gridI skip).mapping g x t
      = fillInc p a.mapping g (slice (offsetOf pre) x) t := by
  unfold fillInc
  rw [storageDispRows_embedded p.name pre suf a gridI skip hoth, filter_shift _ (fun _ _ => rfl), List.map_map]
  rfl

theorem fillLevel_embedded (p : StorageP) (g : Grid) (pre suf : List AssetProblem) (a : AssetProblem)
    (gridI : List Nat) (skip : List String)
    (hoth : ∀ b ∈ pre ++ suf, ∀ m ∈ b.mapping, m.asset ≠ p.name) (x : Vec) (Tfull : Nat) :
    fillLevel p (assemble (pre ++ a :: suf) gridI skip).mapping g Tfull x
      = fillLevel p a.mapping g Tfull (slice (offsetOf pre) x) := by
  unfold fillLevel
  have : fillInc p (assemble (pre ++ a :: suf) gridI skip).mapping g x
      = fillInc p a.mapping g (slice (offsetOf pre) x) := by
    funext t
    exact fillInc_embedded p g pre suf a gridI skip hoth x t
  rw [this]

/-! ### charge / discharge columns on the storage's own mapping -/

/-- node test of `chargeOut` / `dischargeOut` -/
def nodeOk (p : StorageP) (o : Option String) : Bool :=
  match o with | some nn => p.nodes.contains nn | none => false

theorem nodeIn_ok (p : StorageP) (h : p.nodes ≠ []) : nodeOk p (nodeIn p) = true := by
  unfold nodeOk nodeIn
  cases hn : p.nodes with
  | nil => exact absurd hn h
  | cons a rest => simp

theorem nodeOut_ok (p : StorageP) (h : p.nodes ≠ []) : nodeOk p (nodeOut p) = true := by
  unfold nodeOk nodeOut
  cases hn : p.nodes with
  | nil => exact absurd hn h
  | cons a rest =>
    cases rest with
    | nil => simp
    | cons b rest' =>
      cases rest' with
      | nil => simp
      | cons c r => simp

theorem cdSel_eq (p : StorageP) (t : Nat) (m : MapRow) :
    cdSel p t m = (m.asset == p.name && m.kind == .d && nodeOk p m.node && m.step == t) := rfl

/-- on the storage's own mapping the charge / discharge filter selects the dispatch rows of the step -/
theorem cdSel_mapping (p : StorageP) (g : Grid) (n : Nat) (hne : p.nodes ≠ []) (t : Nat) :
    (Storage.mapping p g n).filter (cdSel p t) = (dispMap p g n).filter fun m => m.step == t := by
  unfold Storage.mapping
  have hin := nodeIn_ok p hne
  have hout := nodeOut_ok p hne
  have hd : (dispMap p g n).filter (cdSel p t) = (dispMap p g n).filter fun m => m.step == t := by
    apply List.filter_congr
    intro m hm
    rw [cdSel_eq]
    unfold dispMap at hm
    by_cases hs : sep p = true
    · simp only [hs, if_true, List.mem_append, List.mem_map] at hm
      rcases hm with ⟨k, _, rfl⟩ | ⟨k, _, rfl⟩
      · simp [hin]
      · simp [hout]
    · simp only [hs, Bool.false_eq_true, if_false, List.mem_map] at hm
      obtain ⟨k, _, rfl⟩ := hm
      simp [hin]
  have hbm : ∀ off nm, (boolMap p g n off nm).filter (cdSel p t) = [] := by
    intro off nm
    apply List.filter_eq_nil_iff.mpr
    intro m hm
    unfold boolMap at hm
    obtain ⟨k, _, rfl⟩ := List.mem_map.mp hm
    simp [cdSel_eq]
  rw [List.filter_append, List.filter_append, hd]
  have e1 : (if hasNS p then boolMap p g n (2 * n) "bool_1" else []).filter (cdSel p t) = [] := by
    split
    · exact hbm _ _
    · rfl
  have e2 : (if p.maxStoreDuration.isSome then boolMap p g n (mHold p n) "bool_2" else []).filter (cdSel p t) = [] := by
    split
    · exact hbm _ _
    · rfl
  rw [e1, e2]
  simp

/-- what the code reports as charge at position `k` of the window: `max(0,−x)` over the step's dispatch variables -/
def repCharge (p : StorageP) (n : Nat) (y : Vec) (k : Nat) : Rat :=
  if sep p then posPart (-(y k)) + posPart (-(y (n + k))) else posPart (-(y k))

/-- what the code reports as discharge at position `k`: `min(0,−x)` over the step's dispatch variables -/
def repDischarge (p : StorageP) (n : Nat) (y : Vec) (k : Nat) : Rat :=
  if sep p then negPart (-(y k)) + negPart (-(y (n + k))) else negPart (-(y k))

theorem sum_map_add' (l : List Nat) (f h : Nat → Rat) :
    (l.map fun k => f k + h k).sum = (l.map f).sum + (l.map h).sum := by
  induction l with
  | nil => simp; grind
  | cons a l ih => simp only [List.map_cons, List.sum_cons, ih]; grind

/-- sum of `c (y var) · factor` over the dispatch rows at full-grid step `τ` -/
theorem sum_dispMap_step (p : StorageP) (g : Grid) (n : Nat) (y : Vec) (τ : Nat) (c : Rat → Rat) :
    ((((dispMap p g n).filter fun m => m.step == τ)).map fun m => c (y m.var) * m.factor).sum
      = (((List.range n).filter fun k => idxAt g k == τ).map fun k =>
          if sep p then c (y k) + c (y (n + k)) else c (y k)).sum := by
  unfold dispMap
  by_cases hs : sep p = true
  · simp only [hs, if_true, List.filter_append, List.map_append, List.sum_append]
    rw [filter_map_step, filter_map_step]
    simp only [Rat.mul_one]
    exact (sum_map_add' _ (fun k => c (y k)) (fun k => c (y (n + k)))).symm
  · simp only [hs, Bool.false_eq_true, if_false]
    rw [filter_map_step]
    simp only [Rat.mul_one]

theorem chargeOut_mapping (p : StorageP) (g : Grid) (n : Nat) (hne : p.nodes ≠ []) (y : Vec) (τ : Nat) :
    chargeOut p (Storage.mapping p g n) y τ
      = (((List.range n).filter fun k => idxAt g k == τ).map (repCharge p n y)).sum := by
  show ((((Storage.mapping p g n).filter (cdSel p τ))).map _).sum = _
  rw [cdSel_mapping p g n hne τ]
  exact sum_dispMap_step p g n y τ (fun r => posPart (-r))

theorem dischargeOut_mapping (p : StorageP) (g : Grid) (n : Nat) (hne : p.nodes ≠ []) (y : Vec) (τ : Nat) :
    dischargeOut p (Storage.mapping p g n) y τ
      = (((List.range n).filter fun k => idxAt g k == τ).map (repDischarge p n y)).sum := by
  show ((((Storage.mapping p g n).filter (cdSel p τ))).map _).sum = _
  rw [cdSel_mapping p g n hne τ]
  exact sum_dispMap_step p g n y τ (fun r => negPart (-r))

/-- at the full-grid step of window position `t` the columns show the values of position `t` -/
theorem charge_at (p : StorageP) (g : Grid) (n : Nat) (hne : p.nodes ≠ []) (hinc : IdxInc g n) (y : Vec)
    (t : Nat) (ht : t < n) :
    chargeOut p (Storage.mapping p g n) y (idxAt g t) = repCharge p n y t ∧
    dischargeOut p (Storage.mapping p g n) y (idxAt g t) = repDischarge p n y t := by
  rw [chargeOut_mapping p g n hne, dischargeOut_mapping p g n hne, pick_hit g n hinc t ht, pick_hit g n hinc t ht]
  exact ⟨rfl, rfl⟩

/-- at a full-grid step that is no step of the window both columns are 0 -/
theorem charge_off (p : StorageP) (g : Grid) (n : Nat) (hne : p.nodes ≠ []) (y : Vec)
    (τ : Nat) (hτ : ∀ k, k < n → idxAt g k ≠ τ) :
    chargeOut p (Storage.mapping p g n) y τ = 0 ∧ dischargeOut p (Storage.mapping p g n) y τ = 0 := by
  rw [chargeOut_mapping p g n hne, dischargeOut_mapping p g n hne, pick_miss g n τ hτ, pick_miss g n τ hτ]
  exact ⟨rfl, rfl⟩

/-! ### the chain of time blocks without any assumption on the end level -/

/-- one block, last "empty" row only: the level at the block end is at least the end level plus what the level
    at the block start exceeds the block's start level by -/
theorem block_end_lower (p : StorageP) (g : Grid) (n : Nat) (x : Vec) (a e : Nat) (hae : a < e)
    (hL : ∀ i, a ≤ i → i < e → loRhs p g a e i ≤ sumTo (flow p n x) (i + 1) - sumTo (flow p n x) a) :
    p.endLevel + (lev p g n x a - blockStart p a) ≤ lev p g n x e := by
  have h2 := hL (e - 1) (by omega) (by omega)
  have he : e - 1 + 1 = e := by omega
  simp only [loRhs, he, if_true, blockInfl] at h2
  unfold lev
  grind

/-- one block, both last rows: the level at the block end is the end level plus the excess at the block start -/
theorem block_end_eq (p : StorageP) (g : Grid) (n : Nat) (x : Vec) (a e : Nat) (hae : a < e)
    (hI : LevelIneq p g n x a e) :
    lev p g n x e = p.endLevel + (lev p g n x a - blockStart p a) := by
  obtain ⟨h1, h2⟩ := hI (e - 1) (by omega) (by omega)
  have he : e - 1 + 1 = e := by omega
  simp only [upRhs, loRhs, he, if_true, blockInfl] at h1 h2
  unfold lev
  grind

theorem blockStart_pos (p : StorageP) (b : Nat) (h : b ≠ 0) : blockStart p b = p.endLevel := by
  simp [blockStart, h]

/-- all blocks, "empty" rows only (they exist with every option): every block end is at or above the end level -/
theorem chain_lower (p : StorageP) (g : Grid) (n : Nat) (x : Vec) (l : List Nat) : ∀ a : Nat,
    strictInc (a :: l) = true → blockStart p a ≤ lev p g n x a →
    (∀ ae ∈ blockPairs (a :: l), ∀ i, ae.1 ≤ i → i < ae.2 →
      loRhs p g ae.1 ae.2 i ≤ sumTo (flow p n x) (i + 1) - sumTo (flow p n x) ae.1) →
    ∀ e ∈ l, p.endLevel ≤ lev p g n x e := by
  induction l with
  | nil => intro a _ _ _ e he; simp at he
  | cons b l ih =>
    intro a hs h0 hI
    simp only [strictInc, Bool.and_eq_true, decide_eq_true_eq] at hs
    rw [blockPairs_cons2] at hI
    have hb := block_end_lower p g n x a b hs.1 (hI (a, b) (by simp))
    have hb' : p.endLevel ≤ lev p g n x b := by grind
    have hb0 : blockStart p b ≤ lev p g n x b := by
      rw [blockStart_pos p b (by omega)]; exact hb'
    intro e he
    rcases List.mem_cons.mp he with h | h
    · rw [h]; exact hb'
    · exact ih b hs.2 hb0 (fun ae hae => hI ae (List.mem_cons_of_mem _ hae)) e h

/-- all blocks, both rows (no maximum holding duration): every block end is AT the end level, whatever it is -/
theorem chain_eq (p : StorageP) (g : Grid) (n : Nat) (x : Vec) (l : List Nat) : ∀ a : Nat,
    strictInc (a :: l) = true → lev p g n x a = blockStart p a →
    (∀ ae ∈ blockPairs (a :: l), LevelIneq p g n x ae.1 ae.2) →
    ∀ e ∈ l, lev p g n x e = p.endLevel := by
  induction l with
  | nil => intro a _ _ _ e he; simp at he
  | cons b l ih =>
    intro a hs h0 hI
    simp only [strictInc, Bool.and_eq_true, decide_eq_true_eq] at hs
    rw [blockPairs_cons2] at hI
    have hb := block_end_eq p g n x a b hs.1 (hI (a, b) (by simp))
    have hb' : lev p g n x b = p.endLevel := by grind
    have hb0 : lev p g n x b = blockStart p b := by
      rw [blockStart_pos p b (by omega)]; exact hb'
    intro e he
    rcases List.mem_cons.mp he with h | h
    · rw [h]; exact hb'
    · exact ih b hs.2 hb0 (fun ae hae => hI ae (List.mem_cons_of_mem _ hae)) e h

/-- without a maximum holding duration the fill-level rows are the plain inequalities, whatever the end level -/
theorem levelIneq_of_rows_none (p : StorageP) (g : Grid) (n : Nat) (x : Vec) (bl : List (Nat × Nat))
    (hmh : p.maxStoreDuration = none)
    (hU : ∀ r ∈ upperRows p g n bl, r.Sat x) (hL : ∀ r ∈ lowerRows p g n bl, r.Sat x) :
    ∀ ae ∈ bl, LevelIneq p g n x ae.1 ae.2 := by
  intro ae hae i h1 h2
  have hu := hU _ (mem_upperRows p g n bl ae hae i h1 h2)
  have hi : ae.1 + (i + 1 - ae.1) = i + 1 := by omega
  constructor
  · unfold upperRow at hu
    rw [hmh] at hu
    simp only [Row.Sat] at hu
    rw [eval_levelCoeffs, hi] at hu
    exact hu
  · exact lowerIneq_of_rows p g n x bl hL ae hae i h1 h2

theorem lev_zero (p : StorageP) (g : Grid) (n : Nat) (x : Vec) : lev p g n x 0 = blockStart p 0 := by
  simp [lev, blockStart, cumInfl, sumTo]; grind

/-- **the last "empty" row forces the end level from below** (all options, any end level): for every `x`
    satisfying the rows of a successful set-up the level at the end of the window, and at the end of every
    time block, is at least `end_level` -/
theorem end_level_lower_core (p : StorageP) (g : Grid) (T : Nat) (prices : Prices) (a : AssetProblem) (x : Vec)
    (hb : buildStorage p g T prices = .ok a) (hlen : g.dt.length = g.T) (hpos : 0 < g.T)
    (hrows : ∀ r ∈ a.rows, r.Sat x) :
    p.endLevel ≤ lev p g g.T x g.T ∧
    (∀ aa, p.blocks = some aa → ∀ e ∈ aa, 0 < e → p.endLevel ≤ lev p g g.T x e) := by
  have hne : g.dt.length ≠ 0 := by omega
  obtain ⟨pr, bl, hbl, _, rfl⟩ := buildStorage_ok p g T prices a hb hne
  obtain ⟨l, rfl, hinc, hlast, hl, haa⟩ := blocksOf_ok p g.T bl hbl hpos
  simp only [List.mem_append] at hrows
  have hI := lowerIneq_of_rows p g g.T x (blockPairs (0 :: l))
    (fun r hr => hrows r (Or.inl (Or.inl (Or.inr hr))))
  have h0 : blockStart p 0 ≤ lev p g g.T x 0 := by rw [lev_zero]; exact Rat.le_refl
  have hc := chain_lower p g g.T x l 0 hinc h0 hI
  refine ⟨?_, ?_⟩
  · have := lastOf_mem l 0 hl
    rw [hlast] at this
    exact hc _ this
  · intro aa h e he hpos'
    rcases haa aa h e he with h' | h'
    · omega
    · exact hc e h'

/-- **both last rows force the end level** (no maximum holding duration, any end level) -/
theorem end_level_eq_core (p : StorageP) (g : Grid) (T : Nat) (prices : Prices) (a : AssetProblem) (x : Vec)
    (hmh : p.maxStoreDuration = none)
    (hb : buildStorage p g T prices = .ok a) (hlen : g.dt.length = g.T) (hpos : 0 < g.T)
    (hrows : ∀ r ∈ a.rows, r.Sat x) :
    lev p g g.T x g.T = p.endLevel ∧
    (∀ aa, p.blocks = some aa → ∀ e ∈ aa, 0 < e → lev p g g.T x e = p.endLevel) := by
  have hne : g.dt.length ≠ 0 := by omega
  obtain ⟨pr, bl, hbl, _, rfl⟩ := buildStorage_ok p g T prices a hb hne
  obtain ⟨l, rfl, hinc, hlast, hl, haa⟩ := blocksOf_ok p g.T bl hbl hpos
  simp only [List.mem_append] at hrows
  have hI := levelIneq_of_rows_none p g g.T x (blockPairs (0 :: l)) hmh
    (fun r hr => hrows r (Or.inl (Or.inl (Or.inl hr))))
    (fun r hr => hrows r (Or.inl (Or.inl (Or.inr hr))))
  have hc := chain_eq p g g.T x l 0 hinc (lev_zero p g g.T x) hI
  refine ⟨?_, ?_⟩
  · have := lastOf_mem l 0 hl
    rw [hlast] at this
    exact hc _ this
  · intro aa h e he hpos'
    rcases haa aa h e he with h' | h'
    · omega
    · exact hc e h'

/-! ### a feasible point of the portfolio problem is feasible for every asset on the asset's slice -/

theorem blockOffset_pre (pre suf : List AssetProblem) (a : AssetProblem) :
    blockOffset (pre ++ a :: suf) pre.length = offsetOf pre := by
  unfold blockOffset offsetOf
  rw [List.take_left']
  rfl

theorem getElem_pre (pre suf : List AssetProblem) (a : AssetProblem) (h : pre.length < (pre ++ a :: suf).length) :
    (pre ++ a :: suf)[pre.length] = a := by
  simp

theorem pre_length_lt (pre suf : List AssetProblem) (a : AssetProblem) : pre.length < (pre ++ a :: suf).length := by
  simp

/-- bounds of the portfolio problem ⇒ bounds of the asset on its slice -/
theorem slice_inBounds (pre suf : List AssetProblem) (a : AssetProblem) (gridI : List Nat) (skip : List String)
    (hwf : ∀ b ∈ pre ++ a :: suf, b.l.length = b.n ∧ b.u.length = b.n) (x : Vec)
    (hx : InBounds (assemble (pre ++ a :: suf) gridI skip).l (assemble (pre ++ a :: suf) gridI skip).u x) :
    InBounds a.l a.u (slice (offsetOf pre) x) := by
  have e0 : (fun j => x (0 + j)) = x := by funext j; rw [Nat.zero_add]
  have hx' : InBounds (assembleFrom 0 (pre ++ a :: suf)).l (assembleFrom 0 (pre ++ a :: suf)).u (fun j => x (0 + j)) := by
    rw [e0]; exact hx
  have hb := (assembleFrom_inBounds (pre ++ a :: suf) hwf 0 0 x).mp hx' pre.length (pre_length_lt pre suf a)
  simp only [Nat.zero_add] at hb
  rw [blockOffset_pre] at hb
  have e : (pre ++ a :: suf)[pre.length]'(pre_length_lt pre suf a) = a := getElem_pre pre suf a _
  rw [e] at hb
  exact hb

/-- relaxed feasibility of the portfolio problem ⇒ relaxed feasibility of the asset on its slice -/
theorem slice_feasible (pre suf : List AssetProblem) (a : AssetProblem) (gridI : List Nat) (skip : List String)
    (hwf : ∀ b ∈ pre ++ a :: suf, b.l.length = b.n ∧ b.u.length = b.n) (x : Vec)
    (hx : (assemble (pre ++ a :: suf) gridI skip).FeasibleRelaxed x) :
    a.FeasibleRelaxed (slice (offsetOf pre) x) := by
  have h0 : (assembleFrom 0 (pre ++ a :: suf)).FeasibleRelaxed x := by
    refine ⟨hx.1, fun r hr => hx.2 r ?_⟩
    show r ∈ (assembleFrom 0 (pre ++ a :: suf)).rows ++ _
    exact List.mem_append_left _ hr
  have hb := (assembleFrom_feasibleRelaxed (pre ++ a :: suf) hwf x).mp h0 pre.length (pre_length_lt pre suf a)
  rw [blockOffset_pre] at hb
  have e : (pre ++ a :: suf)[pre.length]'(pre_length_lt pre suf a) = a := getElem_pre pre suf a _
  rw [e] at hb
  exact hb

/-! ### small facts about a successful set-up -/

theorem buildStorage_name (p : StorageP) (g : Grid) (T : Nat) (prices : Prices) (a : AssetProblem)
    (h : buildStorage p g T prices = .ok a) : a.name = p.name := by
  by_cases hne : g.dt.length = 0
  · unfold buildStorage at h
    rw [if_pos hne] at h
    cases h; rfl
  · obtain ⟨pr, bl, _, _, rfl⟩ := buildStorage_ok p g T prices a h hne
    rfl

/-- the mapping of a successful set-up only names variables of the storage -/
theorem buildStorage_mapping_var (p : StorageP) (g : Grid) (T : Nat) (prices : Prices) (a : AssetProblem)
    (h : buildStorage p g T prices = .ok a) : ∀ m ∈ a.mapping, m.var < a.n := by
  intro m hm
  by_cases hne : g.dt.length = 0
  · unfold buildStorage at h
    rw [if_pos hne] at h
    cases h
    simp at hm
  · obtain ⟨pr, bl, _, _, rfl⟩ := buildStorage_ok p g T prices a h hne
    show m.var < (costVec p g g.T pr).length
    rw [costVec_length]
    exact (storage_mapping_wf p g g.T m hm).2.1

/-- distinct asset names and "every mapping row carries its asset's name" give the hypothesis the embedded
    read-out theorems use -/
theorem others_of_names (name : String) (bs : List AssetProblem)
    (hname : ∀ b ∈ bs, ∀ m ∈ b.mapping, m.asset = b.name) (hne : ∀ b ∈ bs, b.name ≠ name) :
    ∀ b ∈ bs, ∀ m ∈ b.mapping, m.asset ≠ name := by
  intro b hb m hm
  rw [hname b hb m hm]
  exact hne b hb

/-! ### read-outs only read the variables named in the mapping -/

theorem chargeOut_congr (p : StorageP) (M : List MapRow) (n : Nat) (hM : ∀ m ∈ M, m.var < n) (y y' : Vec)
    (h : ∀ j, j < n → y j = y' j) (t : Nat) :
    chargeOut p M y t = chargeOut p M y' t ∧ dischargeOut p M y t = dischargeOut p M y' t := by
  unfold chargeOut dischargeOut
  constructor
  · congr 1
    apply List.map_congr_left
    intro m hm
    rw [h m.var (hM m (List.mem_filter.mp hm).1)]
  · congr 1
    apply List.map_congr_left
    intro m hm
    rw [h m.var (hM m (List.mem_filter.mp hm).1)]

theorem firstRows_mem (M : List MapRow) : ∀ (seen : List Nat) (m : MapRow), m ∈ firstRows M seen → m ∈ M := by
  induction M with
  | nil => intro seen m hm; simp [firstRows] at hm
  | cons m' M ih =>
    intro seen m hm
    unfold firstRows at hm
    split at hm
    · exact List.mem_cons_of_mem _ (ih _ _ hm)
    · rcases List.mem_cons.mp hm with h | h
      · exact h ▸ List.mem_cons_self
      · exact List.mem_cons_of_mem _ (ih _ _ h)

theorem fillInc_congr (p : StorageP) (M : List MapRow) (g : Grid) (n : Nat) (hM : ∀ m ∈ M, m.var < n) (y y' : Vec)
    (h : ∀ j, j < n → y j = y' j) (t : Nat) : fillInc p M g y t = fillInc p M g y' t := by
  unfold fillInc
  congr 2
  apply List.map_congr_left
  intro m hm
  have hm1 := (List.mem_filter.mp hm).1
  unfold storageDispRows at hm1
  have hm2 := (List.mem_filter.mp (firstRows_mem _ _ _ hm1)).1
  rw [h m.var (hM m hm2)]

theorem fillLevel_congr (p : StorageP) (M : List MapRow) (g : Grid) (n : Nat) (hM : ∀ m ∈ M, m.var < n) (y y' : Vec)
    (h : ∀ j, j < n → y j = y' j) (Tfull : Nat) : fillLevel p M g Tfull y = fillLevel p M g Tfull y' := by
  unfold fillLevel
  have : fillInc p M g y = fillInc p M g y' := by
    funext t; exact fillInc_congr p M g n hM y y' h t
  rw [this]

end EAO.StorageReadout
