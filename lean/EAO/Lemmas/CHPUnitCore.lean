import EAO.Lemmas.CHPUnit
/-!
# EAO.Lemmas.CHPUnitCore — change of the main time unit for the CHP / Plant builders: the proofs (property C12)

Setting and definitions: `EAO.Lemmas.CHPUnit`.  The rescaled asset on the rescaled grid is LITERALLY the same problem
(`buildCHP_rescale`, `costsOnlyCHP_rescale`, `buildMinLoad_rescale`, `costsOnlyMinLoad_rescale`), provided the
constructor's XOR guard is stable (`GuardStable`; needed: `guard_not_unit_invariant`) and the parameters that are
converted with `dt` do not refer to the price data.
-/
namespace EAO.CHPUnit
open EAO

/-! ## 1. parameter vectors with default 0 -/

theorem baseVector_scale_zero (c : Rat) {v : ParamValue} (hv : v.isKey = false) (g : Grid) (prices : Prices) :
    baseVector (v.scale c) g prices (some 0) = (baseVector v g prices (some 0)).map (List.map (Option.map (· * c))) := by
  cases v with
  | scalar s => simp [ParamValue.scale, baseVector, pure, Except.pure, Except.map]
  | array vs =>
    simp only [ParamValue.scale, baseVector, broadcastArray, List.length_map]
    split
    · simp [pure, Except.pure, Except.map]
    · cases vs with
      | nil => simp [throw, throwThe, MonadExceptOf.throw, Except.map]
      | cons a as =>
        cases as with
        | nil => simp [pure, Except.pure, Except.map]
        | cons b bs => simp [throw, throwThe, MonadExceptOf.throw, Except.map]
  | key k => simp [ParamValue.isKey] at hv
  | intervals ivs =>
    simp only [ParamValue.scale, baseVector]
    rw [valuesToGrid_scale c g.pts ivs]
    cases valuesToGrid g.pts ivs with
    | error e => simp [Except.map, throw, throwThe, MonadExceptOf.throw]
    | ok r =>
      simp only [Except.map, pure, Except.pure, List.map_map]
      congr 1
      apply List.map_congr_left
      intro o _
      cases o <;> simp [Rat.zero_mul]

theorem vec_rescale {k : Rat} (hk : k ≠ 0) {v : ParamValue} (hv : v.isKey = false) (g : Grid) (prices : Prices) :
    vec (v.scale (1 / k)) (g.scaleDt k) prices 0 true = vec v g prices 0 true := by
  unfold vec makeVector
  rw [baseVector_scaleDt, baseVector_scale_zero _ hv]
  cases baseVector v g prices (some 0) with
  | error e => rfl
  | ok base =>
    simp only [Except.map, bind, Except.bind, pure, Except.pure, if_true]
    rw [timesDt_rescale hk]

theorem vec_scaleDt_noconvert (v : ParamValue) (k : Rat) (g : Grid) (prices : Prices) (d : Rat) :
    vec v (g.scaleDt k) prices d false = vec v g prices d false := by
  unfold vec
  rw [makeVector_scaleDt_noconvert]

/-! ## 2.–4. step counts, raw non-zero test, constructor -/

theorem convertSteps_rescale {k : Rat} (_hk : k ≠ 0) {u u' : Nat} (hu : (u' : Rat) * k = (u : Rat)) (v : Rat) (s : Nat) :
    convertSteps (v * k) u' s = convertSteps v u s := by
  unfold convertSteps
  have h : v * k * (u' : Rat) = v * (u : Rat) := by rw [← hu]; grind
  rw [h]

theorem mul_eq_zero_right {c : Rat} (hc : c ≠ 0) (x : Rat) : (x * c = 0) ↔ (x = 0) := by
  rw [Rat.mul_eq_zero]; simp [hc]

theorem bne_mul_zero {c : Rat} (hc : c ≠ 0) (x : Rat) : (x * c != 0) = (x != 0) := by
  rw [Bool.eq_iff_iff]; simp only [bne_iff_ne, ne_eq, mul_eq_zero_right hc]

theorem rawNonzero_scale {c : Rat} (hc : c ≠ 0) (v : ParamValue) : rawNonzero (v.scale c) = rawNonzero v := by
  cases v with
  | scalar s => simp only [ParamValue.scale, rawNonzero, bne_mul_zero hc]
  | array vs =>
    simp only [ParamValue.scale, rawNonzero, List.any_map]
    congr 1
    funext x
    exact bne_mul_zero hc x
  | key s => rfl
  | intervals ivs => rfl

theorem mul_neg_iff_right {k : Rat} (hk : 0 < k) (x : Rat) : (x * k < 0) ↔ (x < 0) := by
  have := @Rat.mul_lt_mul_right x 0 k hk
  rwa [Rat.zero_mul] at this

theorem chpCtor_rescale {k : Rat} (hk : 0 < k) (p : CHPP) (hg : GuardStable k p) :
    chpCtor (CHPP.rescale k p) = chpCtor p := by
  have hk0 : k ≠ 0 := by intro h; rw [h] at hk; exact absurd hk (by decide)
  unfold chpCtor
  simp only [CHPP.rescale]
  have h1 : (p.minRuntime * k < 0) = (p.minRuntime < 0) := propext (mul_neg_iff_right hk _)
  have h2 : (p.timeAlreadyOff * k = 0) = (p.timeAlreadyOff = 0) := propext (mul_eq_zero_right hk0 _)
  have h3 : (p.timeAlreadyRunning * k = 0) = (p.timeAlreadyRunning = 0) := propext (mul_eq_zero_right hk0 _)
  have h4 : (1 < p.minDowntime * k ∧ (decide (p.timeAlreadyOff = 0) == decide (p.timeAlreadyRunning = 0)) = true)
      = (1 < p.minDowntime ∧ (decide (p.timeAlreadyOff = 0) == decide (p.timeAlreadyRunning = 0)) = true) := by
    rcases hg with h | ⟨ha, hb⟩
    · have : (decide (p.timeAlreadyOff = 0) == decide (p.timeAlreadyRunning = 0)) = false := by
        revert h; cases decide (p.timeAlreadyOff = 0) <;> cases decide (p.timeAlreadyRunning = 0) <;> simp
      simp [this]
    · simp [ha, hb]
  simp only [h1, h2, h3, h4]
  rfl

/-- the hypothesis `GuardStable` of `chpCtor_rescale` is needed: half an hour of minimum downtime in hours (no guard) is
    30 minutes in minutes (guard active, and violated by `time_already_running = time_already_off = 0`) -/
def guardEx : CHPP :=
  { name := "chp", nodes := ["el"], noHeat := true, minCap := .scalar 0, convFactor := .scalar 1, maxShareHeat := none,
    ramp := none, startCosts := .scalar 0, runningCosts := .scalar 0, minRuntime := 0, timeAlreadyRunning := 0,
    minDowntime := 1 / 2, timeAlreadyOff := 0, lastDispatch := 0, startFuel := .scalar 0, fuelEfficiency := .scalar 1,
    consumptionIfOn := .scalar 0, freqMismatch := false }

theorem guard_not_unit_invariant_dec :
    (match chpCtor guardEx with | .ok r => r == (false, none) | .error _ => false) = true ∧
    (match chpCtor (CHPP.rescale 60 guardEx) with | .ok _ => false | .error e => e == .assertion) = true ∧
      ¬ GuardStable 60 guardEx := by decide +kernel

theorem guard_not_unit_invariant :
    chpCtor guardEx = .ok (false, none) ∧ chpCtor (CHPP.rescale 60 guardEx) = .error .assertion ∧
      ¬ GuardStable 60 guardEx := by
  have h := guard_not_unit_invariant_dec
  refine ⟨?_, ?_, h.2.2⟩
  · have := h.1; revert this; cases chpCtor guardEx with
    | ok r => simp
    | error e => simp
  · have := h.2.1; revert this; cases chpCtor (CHPP.rescale 60 guardEx) with
    | ok r => simp
    | error e => simp

/-! ## 5.–6. parameter vectors and resolved inputs -/

theorem chpVectors_rescale {k : Rat} (hk : k ≠ 0) (p : CHPP) (hrc : p.runningCosts.isKey = false)
    (hci : p.consumptionIfOn.isKey = false) (g : Grid) (prices : Prices) (heat : Bool) (fuel : Option String) :
    chpVectors (CHPP.rescale k p) (g.scaleDt k) prices heat fuel = chpVectors p g prices heat fuel := by
  unfold chpVectors
  simp only [CHPP.rescale, vec_rescale hk hrc, vec_rescale hk hci, vec_scaleDt_noconvert]

theorem mul_inv_mul_cancel {k : Rat} (hk : k ≠ 0) (x d : Rat) : x * (1 / k) * (d * k) = x * d := by
  grind

theorem mkCHPR_rescale {k : Rat} (hk : k ≠ 0) {u u' : Nat} (hu : (u' : Rat) * k = (u : Rat)) (p : CHPP)
    (base : AssetProblem) (g : Grid) (heat : Bool) (fuel : Option String) (v : CHPVecs) (s rampTimes : Nat) (prof : Bool) :
    mkCHPR (CHPP.rescale k p) base (g.scaleDt k) heat fuel v u' s rampTimes prof
      = mkCHPR p base g heat fuel v u s rampTimes prof := by
  have hone : (1 : Rat) / k ≠ 0 := by
    intro h
    have := mul_inv_mul_cancel hk 1 1
    rw [h] at this
    rw [Rat.mul_zero, Rat.zero_mul] at this
    exact absurd this (by decide +kernel)
  have hf : ((fun x : Rat => x * (g.dt.getD 0 0 * k)) ∘ fun x : Rat => x * (1 / k)) = fun x : Rat => x * g.dt.getD 0 0 := by
    funext x; exact mul_inv_mul_cancel hk x _
  unfold mkCHPR
  simp only [CHPP.rescale, convertSteps_rescale hk hu, rawNonzero_scale hone, scaleDt_T, scaleDt_idx, scaleDt_dt,
    getD_map_mul, Option.map_map, hf, mul_inv_mul_cancel hk]

/-! ## 7. the builder -/

theorem rescale_freqMismatch (k : Rat) (p : CHPP) : (CHPP.rescale k p).freqMismatch = p.freqMismatch := rfl

theorem resolveCHPWith_rescale {k : Rat} (hk : 0 < k) {u u' : Nat} (hu : (u' : Rat) * k = (u : Rat)) (p : CHPP)
    (hg : GuardStable k p) (hrc : p.runningCosts.isKey = false) (hci : p.consumptionIfOn.isKey = false)
    (base : AssetProblem) (g : Grid) (prices : Prices) (s : Nat) (costsOnly : Bool) :
    resolveCHPWith (CHPP.rescale k p) base (g.scaleDt k) prices u' s costsOnly
      = resolveCHPWith p base g prices u s costsOnly := by
  have hk0 : k ≠ 0 := by intro h; rw [h] at hk; exact absurd hk (by decide)
  unfold resolveCHPWith
  simp only [chpCtor_rescale hk p hg, scaleDt_T, rescale_freqMismatch, chpVectors_rescale hk0 p hrc hci,
    mkCHPR_rescale hk0 hu]

theorem resolveCHP_rescale {k : Rat} (hk : 0 < k) {u u' : Nat} (hu : (u' : Rat) * k = (u : Rat)) (p : CHPP)
    (hg : GuardStable k p) (hrc : p.runningCosts.isKey = false) (hci : p.consumptionIfOn.isKey = false)
    (base : AssetProblem) (g : Grid) (prices : Prices) (s : Nat) :
    resolveCHP (CHPP.rescale k p) base (g.scaleDt k) prices u' s = resolveCHP p base g prices u s :=
  resolveCHPWith_rescale hk hu p hg hrc hci base g prices s false

/-- C12 for `CHPAsset` / `Plant` (profile-free): the rescaled asset on the rescaled grid is literally the same problem -/
theorem buildCHP_rescale {k : Rat} (hk : 0 < k) {u u' : Nat} (hu : (u' : Rat) * k = (u : Rat)) (p : CHPP)
    (hg : GuardStable k p) (hrc : p.runningCosts.isKey = false) (hci : p.consumptionIfOn.isKey = false)
    (base : AssetProblem) (g : Grid) (prices : Prices) (s : Nat) :
    buildCHP (CHPP.rescale k p) base (g.scaleDt k) prices u' s = buildCHP p base g prices u s := by
  unfold buildCHP
  rw [resolveCHP_rescale hk hu p hg hrc hci]

theorem costsOnlyCHP_rescale {k : Rat} (hk : 0 < k) {u u' : Nat} (hu : (u' : Rat) * k = (u : Rat)) (p : CHPP)
    (hg : GuardStable k p) (hrc : p.runningCosts.isKey = false) (hci : p.consumptionIfOn.isKey = false)
    (base : AssetProblem) (g : Grid) (prices : Prices) (s : Nat) :
    costsOnlyCHP (CHPP.rescale k p) base (g.scaleDt k) prices u' s = costsOnlyCHP p base g prices u s := by
  unfold costsOnlyCHP
  rw [resolveCHPWith_rescale hk hu p hg hrc hci]

/-! ## 8. minimum-load costs -/

theorem optVec_rescale {k : Rat} (hk : k ≠ 0) (v : Option ParamValue) (hv : ∀ w, v = some w → w.isKey = false)
    (g : Grid) (prices : Prices) :
    optVec (v.map (·.scale (1 / k))) (g.scaleDt k) prices = optVec v g prices := by
  cases v with
  | none => rfl
  | some w => simp only [Option.map_some, optVec, vec_rescale hk (hv w rfl)]

theorem addMinLoad_scaleDt (a : AssetProblem) (k : Rat) (g : Grid) (thr costs : List Rat) :
    addMinLoad a (g.scaleDt k) thr costs = addMinLoad a g thr costs := rfl

theorem buildMinLoad_rescale {k : Rat} (hk : k ≠ 0) (q : MinLoadP) (ht : ∀ w, q.threshold = some w → w.isKey = false)
    (hc : ∀ w, q.costs = some w → w.isKey = false) (a : AssetProblem) (g : Grid) (prices : Prices) :
    buildMinLoad (MinLoadP.rescale k q) a (g.scaleDt k) prices = buildMinLoad q a g prices := by
  unfold buildMinLoad
  simp only [MinLoadP.rescale, scaleDt_T, optVec_rescale hk _ ht, optVec_rescale hk _ hc, addMinLoad_scaleDt]

theorem costsOnlyMinLoad_rescale {k : Rat} (hk : k ≠ 0) (q : MinLoadP) (ht : ∀ w, q.threshold = some w → w.isKey = false)
    (hc : ∀ w, q.costs = some w → w.isKey = false) (c : List Rat) (g : Grid) (prices : Prices) :
    costsOnlyMinLoad (MinLoadP.rescale k q) c (g.scaleDt k) prices = costsOnlyMinLoad q c g prices := by
  unfold costsOnlyMinLoad
  simp only [MinLoadP.rescale, scaleDt_T, optVec_rescale hk _ ht, optVec_rescale hk _ hc]

/-! ## the hypotheses are satisfiable on a non-trivial instance (hours → minutes) -/

def exP : CHPP :=
  { guardEx with nodes := ["el", "gas"], minCap := .scalar 2, ramp := some 3, runningCosts := .array [5, 7],
                 minRuntime := 2, minDowntime := 2, timeAlreadyRunning := 1, lastDispatch := 4,
                 consumptionIfOn := .scalar (1 / 2) }
def exG : Grid := { pts := [0, 3600], idx := [0, 1], dt := [1, 1], Dt := [1, 1], df := [1, 1] }
def exBase : AssetProblem :=
  { name := "chp", nodes := ["el", "gas"], c := [1, 1], l := [2, 2], u := [10, 10], rows := [],
    mapping := [{ var := 0, asset := "chp", node := some "el", kind := .d, step := 0, factor := 1, isBool := false, varName := "disp" },
                { var := 1, asset := "chp", node := some "el", kind := .d, step := 1, factor := 1, isBool := false, varName := "disp" }] }

example : buildCHP (CHPP.rescale 60 exP) exBase (exG.scaleDt 60) [] 60 3600 = buildCHP exP exBase exG [] 3600 3600 :=
  buildCHP_rescale (by decide +kernel) (by decide +kernel) exP (by decide +kernel) (by decide) (by decide) exBase exG [] 3600
example : (match buildCHP (CHPP.rescale 60 exP) exBase (exG.scaleDt 60) [] 60 3600 with
    | .ok P => P.c == [1, 1, 5, 7, 0, 0] && P.l == [0, 0, 1, 0, 0, 0] && P.mapping.length == 12 &&
        P.rows.map Row.rhs == [0, 0, 0, 0, 0, 0, 1, 4, 0, 0, 0]
    | .error _ => false) = true := by decide +kernel

example : buildMinLoad (MinLoadP.rescale 60 ⟨some (.scalar 3), some (.array [6, 12])⟩) exBase (exG.scaleDt 60) []
    = buildMinLoad ⟨some (.scalar 3), some (.array [6, 12])⟩ exBase exG [] :=
  buildMinLoad_rescale (by decide +kernel) _ (by intro w h; cases h; rfl) (by intro w h; cases h; rfl) exBase exG []
example : (match buildMinLoad (MinLoadP.rescale 60 ⟨some (.scalar 3), some (.array [6, 12])⟩) exBase (exG.scaleDt 60) [] with
    | .ok P => P.c == [1, 1, 6, 12] && P.rows.map Row.rhs == [3, 3]
    | .error _ => false) = true := by decide +kernel

end EAO.CHPUnit

/-
`#print axioms` (scratch file importing the built module):
'EAO.CHPUnit.buildCHP_rescale' depends on axioms: [propext, Classical.choice, Quot.sound]
'EAO.CHPUnit.costsOnlyCHP_rescale' depends on axioms: [propext, Classical.choice, Quot.sound]
'EAO.CHPUnit.buildMinLoad_rescale' depends on axioms: [propext, Classical.choice, Quot.sound]
'EAO.CHPUnit.costsOnlyMinLoad_rescale' depends on axioms: [propext, Classical.choice, Quot.sound]
'EAO.CHPUnit.convertSteps_rescale' depends on axioms: [propext, Classical.choice, Quot.sound]
'EAO.CHPUnit.guard_not_unit_invariant' depends on axioms: [propext, Classical.choice, Quot.sound]
-/
