import EAO.Model.CHP
import EAO.Lemmas.UC
/-!
# EAO.Lemmas.CHPCommit — bridge from the commitment rows that `assembleCHP` GENERATES (0/1 inequality rows
over `Rat`, initial-state bounds set by slice assignment) to their Boolean reading `UC.RowsF`, and from
there (by `UC.commit_rowsF_iff_specF`) to the run-length specification `UC.MinUpDown`.
-/
namespace EAO.CHPCommit
open EAO EAO.UC

/-- what `resolveCHP` guarantees about its result and the bridge needs -/
structure CommitWF (r : CHPR) : Prop where
  hT  : 0 < r.T
  hl  : r.base.l.length = r.T
  hu  : r.base.u.length = r.T
  hc  : r.base.c.length = r.T
  hm  : r.base.mapping.length = r.T
  hd  : r.heat = true → ∀ m ∈ r.base.mapping, m.kind = VarKind.d
  hR  : 1 < r.R → r.incStart = true
  hD  : 1 < r.D → r.incOn = true
  hso : r.incStart = true → r.incOn = true

def b2r (b : Bool) : Rat := if b then 1 else 0

/-- the pattern `on` (as 0/1 values of the on variables) extends to a 0/1 assignment of the start variables
    that satisfies the generated start-definition, min-runtime and min-downtime rows and the bounds of the
    on and start variables (which carry the initial state) -/
def CommitFeasible (r : CHPR) (on : List Bool) : Prop :=
  ∃ x : Vec,
    (∀ t, t < r.T → x (r.layout.on t) = b2r (on.getD t false)) ∧
    (r.incStart = true → ∀ t, t < r.T → x (r.layout.start t) = 0 ∨ x (r.layout.start t) = 1) ∧
    (∀ row ∈ r.commitRows, row.Sat x) ∧
    (r.incOn = true → ∀ t, t < r.T →
      r.lower.getD (r.layout.on t) 0 ≤ x (r.layout.on t) ∧ x (r.layout.on t) ≤ r.upper.getD (r.layout.on t) 0) ∧
    (r.incStart = true → ∀ t, t < r.T →
      r.lower.getD (r.layout.start t) 0 ≤ x (r.layout.start t) ∧ x (r.layout.start t) ≤ r.upper.getD (r.layout.start t) 0)

def ucp (r : CHPR) : UCP := { R := r.R, D := r.D, tar := r.tar, tao := r.tao }

end EAO.CHPCommit
